import TempestVerif.Model.Resample
import TempestVerif.Lemmas.ScReal
import TempestVerif.Lemmas.CeilComb
import Mathlib.Tactic
import Mathlib.MeasureTheory.Integral.Bochner.Set
import Mathlib.MeasureTheory.Measure.Lebesgue.Basic
/-
  C06 — resampling returns exactly n valid indices and is unbiased.
  Theorems are about `Model.Resample` (the code as it is now: half-open cells `[C_{j-1}, C_j)`, index capped at the
  last one).  Structure (length / range / monotone) is proved for EVERY scalar type, hence also for the `Float`
  instance the correspondence executes; everything else at `ℝ`.

    systematic  : C06_syst_length, C06_syst_range, C06_syst_monotone            (no assumption on weights or sum)
                  C06_syst_spec  (index = least j with position < C_j, capped)    (any weights, any sum)
                  C06_syst_count_closed_form, C06_syst_floor_ceil                 (w ≥ 0, Σw = 1, every u0 ∈ [0,1))
                  C06_syst_floor_ceil_renormalised                                (|Σw − 1| > 2^-26: law for w/Σw)
                  C06_syst_count_below_last, C06_syst_floor_ceil_deficit          (tolerance band: indices below the last)
                  C06_syst_floor_ceil_needs_exact_sum                             (the band cannot be covered in full: witness)
                  C06_syst_indicator, C06_syst_unbiased_algebraic, C06_syst_unbiased_integral
                  C06_syst_count_any_sum (closed form, every index, EVERY sum), C06_syst_count_bound,
                  C06_syst_count_tolerance_band (|count − n·w_j| < 1 + n·2^-26 on the whole accepted band)
                  C06_syst_mean_any_sum, C06_syst_mean_bias_bound, C06_syst_unbiased_eff,
                  C06_syst_unbiased_renormalised, C06_syst_unbiased_deficit
    multinomial : C06_mult_length, C06_mult_range, C06_mult_cell, C06_mult_cell_length, C06_mult_unbiased_integral
                  C06_mult_count, C06_mult_expected_copies (n independent draws, product measure)
    callers     : C06_run_syst, C06_run_mult_length, C06_run_mult_range, C06_run_total, C06_posterior_resample
                  npSum_real, systematicNp_real (numpy's pairwise np.sum is inside the model; over ℝ it is the sum)
  Model-independent helpers live in `Lemmas/CeilComb.lean`.
-/
namespace Props.C06
open Model.Resample MeasureTheory Lemmas.CeilComb

/-! ### structure of the two-pointer loop: valid for EVERY scalar type (also `Float`) -/
section generic
variable {α : Type} [Sc α]

theorem advance_bounds (w : List α) (jmax : Nat) (pos : α) (fuel j : Nat) (c : α) :
    j ≤ (advance w jmax pos fuel j c).1 ∧ (j ≤ jmax → (advance w jmax pos fuel j c).1 ≤ jmax) := by
  induction fuel generalizing j c with
  | zero => simp [advance]
  | succ fuel ih =>
    unfold advance
    split
    · rename_i h
      simp only [Bool.and_eq_true, decide_eq_true_eq] at h
      split
      · rename_i x hx
        have := ih (j + 1) (Sc.add c x)
        exact ⟨by omega, fun _ => this.2 (by omega)⟩
      · exact ⟨le_refl _, id⟩
    · exact ⟨le_refl _, id⟩

theorem run_length (w : List α) (jmax : Nat) (pos : Nat → α) (is : List Nat) (j : Nat) (c : α) :
    (run w jmax pos is j c).length = is.length := by
  induction is generalizing j c with
  | nil => simp [run]
  | cons i is ih => simp [run, ih]

theorem run_bounds (w : List α) (jmax : Nat) (pos : Nat → α) (is : List Nat) (j : Nat) (c : α)
    (hj : j ≤ jmax) : ∀ r ∈ run w jmax pos is j c, j ≤ r ∧ r ≤ jmax := by
  induction is generalizing j c with
  | nil => simp [run]
  | cons i is ih =>
    intro r hr
    simp only [run, List.mem_cons] at hr
    have hb := advance_bounds w jmax (pos i) w.length j c
    rcases hr with rfl | hr
    · exact ⟨hb.1, hb.2 hj⟩
    · have := ih _ _ (hb.2 hj) r hr
      exact ⟨by omega, this.2⟩

theorem run_sorted (w : List α) (jmax : Nat) (pos : Nat → α) (is : List Nat) (j : Nat) (c : α)
    (hj : j ≤ jmax) : (run w jmax pos is j c).Pairwise (· ≤ ·) := by
  induction is generalizing j c with
  | nil => simp [run]
  | cons i is ih =>
    simp only [run, List.pairwise_cons]
    have hb := advance_bounds w jmax (pos i) w.length j c
    exact ⟨fun r hr => (run_bounds w jmax pos is _ _ (hb.2 hj) r hr).1, ih _ _ (hb.2 hj)⟩

theorem renorm_length (s : α) (w : List α) : (renorm s w).length = w.length := by
  unfold renorm; split <;> simp

/-- `lastPos?` finds the last entry `> 0`: it is in range, positive, and nothing after it is positive -/
theorem lastPos?_some (v : List α) (k : Nat) (h : lastPos? v = some k) :
    k < v.length ∧ (∃ x, v[k]? = some x ∧ Sc.gt x Sc.zero = true) ∧
    ∀ j, k < j → ∀ x, v[j]? = some x → Sc.gt x Sc.zero = false := by
  induction v generalizing k with
  | nil => simp [lastPos?] at h
  | cons a l ih =>
    simp only [lastPos?] at h
    cases hl : lastPos? l with
    | some m =>
      rw [hl] at h
      simp only [Option.some.injEq] at h
      subst h
      obtain ⟨h1, ⟨x, hx, hpos⟩, h3⟩ := ih m hl
      refine ⟨by simp; omega, ⟨x, by simpa using hx, hpos⟩, ?_⟩
      intro j hj y hy
      cases j with
      | zero => omega
      | succ j => exact h3 j (by omega) y (by simpa using hy)
    | none =>
      rw [hl] at h
      simp only at h
      split at h
      · rename_i hpos
        simp only [Option.some.injEq] at h
        subst h
        refine ⟨by simp, ⟨a, by simp, hpos⟩, ?_⟩
        intro j hj y hy
        cases j with
        | zero => omega
        | succ j =>
          have hmem : y ∈ l := List.mem_of_getElem? (by simpa using hy)
          have hnone : ∀ (l' : List α), lastPos? l' = none → ∀ z ∈ l', Sc.gt z Sc.zero = false := by
            intro l'
            induction l' with
            | nil => simp
            | cons b l' ih' =>
              intro hn z hz
              simp only [lastPos?] at hn
              cases hb : lastPos? l' with
              | some m => rw [hb] at hn; simp at hn
              | none =>
                rw [hb] at hn
                simp only at hn
                split at hn
                · simp at hn
                · rename_i hb'
                  rcases List.mem_cons.mp hz with rfl | hz
                  · simpa using hb'
                  · exact ih' hb z hz
          exact hnone l hl y hmem
      · simp at h

theorem lastPos?_none (v : List α) (h : lastPos? v = none) : ∀ z ∈ v, Sc.gt z Sc.zero = false := by
  induction v with
  | nil => simp
  | cons b l ih =>
    intro z hz
    simp only [lastPos?] at h
    cases hb : lastPos? l with
    | some m => rw [hb] at h; simp at h
    | none =>
      rw [hb] at h
      simp only at h
      split at h
      · simp at h
      · rename_i hb'
        rcases List.mem_cons.mp hz with rfl | hz
        · simpa using hb'
        · exact ih hb z hz

/-- the cap `j_max` is a valid index of a non-empty vector -/
theorem lastPositive_lt (v : List α) (hne : v ≠ []) : lastPositive v < v.length := by
  have hlen : 0 < v.length := List.length_pos_iff.mpr hne
  unfold lastPositive
  cases h : lastPos? v with
  | none => simp; omega
  | some k => simp; exact (lastPos?_some v k h).1

/-- no entry after the cap is positive -/
theorem after_lastPositive (v : List α) (j : Nat) (hj : lastPositive v < j) (x : α) (hx : v[j]? = some x) :
    Sc.gt x Sc.zero = false := by
  unfold lastPositive at hj
  cases h : lastPos? v with
  | none => exact lastPos?_none v h x (List.mem_of_getElem? hx)
  | some k => rw [h] at hj; exact (lastPos?_some v k h).2.2 j (by simpa using hj) x hx

/-- on a non-empty vector the routine does not fail, and its result is the loop started at `(0, w[0])` -/
theorem systematicWith_some (s : α) (n : Nat) (w : List α) (u0 : α) (hw : w ≠ []) :
    ∃ c0 t, renorm s w = c0 :: t ∧
      systematicWith s n w u0 =
        some (run (c0 :: t) (lastPositive (c0 :: t)) (position n u0) (List.range n) 0 c0) := by
  have hl := renorm_length s w
  unfold systematicWith
  cases hv : renorm s w with
  | nil => rw [hv] at hl; simp at hl; exact absurd hl.symm (by simpa using hw)
  | cons c0 t => exact ⟨c0, t, rfl, rfl⟩

/-- `IndexError` exactly on the empty vector -/
theorem systematicWith_none_iff (s : α) (n : Nat) (w : List α) (u0 : α) :
    systematicWith s n w u0 = none ↔ w = [] := by
  constructor
  · intro h
    by_contra hw
    obtain ⟨c0, t, _, h2⟩ := systematicWith_some s n w u0 hw
    rw [h2] at h; cases h
  · rintro rfl
    unfold systematicWith renorm; split <;> simp

/-- exactly `n` indices — any scalar type, any weights, any sum, any offset -/
theorem C06_syst_length (s : α) (n : Nat) (w : List α) (u0 : α) (idx : List Nat)
    (h : systematicWith s n w u0 = some idx) : idx.length = n := by
  have hw : w ≠ [] := fun e => by
    rw [(systematicWith_none_iff s n w u0).mpr e] at h; cases h
  obtain ⟨c0, t, _, h2⟩ := systematicWith_some s n w u0 hw
  rw [h2] at h; injection h with h; subst h
  simp [run_length]

/-- every index is a valid index into the weight vector -/
theorem C06_syst_range (s : α) (n : Nat) (w : List α) (u0 : α) (idx : List Nat)
    (h : systematicWith s n w u0 = some idx) : ∀ r ∈ idx, r < w.length := by
  have hw : w ≠ [] := fun e => by
    rw [(systematicWith_none_iff s n w u0).mpr e] at h; cases h
  obtain ⟨c0, t, h1, h2⟩ := systematicWith_some s n w u0 hw
  rw [h2] at h; injection h with h; subst h
  intro r hr
  have := (run_bounds (c0 :: t) (lastPositive (c0 :: t)) (position n u0) (List.range n) 0 c0 (Nat.zero_le _) r hr).2
  have hlt := lastPositive_lt (c0 :: t) (by simp)
  have hl := renorm_length s w
  rw [h1] at hl; omega

/-- the indices are non-decreasing -/
theorem C06_syst_monotone (s : α) (n : Nat) (w : List α) (u0 : α) (idx : List Nat)
    (h : systematicWith s n w u0 = some idx) : idx.Pairwise (· ≤ ·) := by
  have hw : w ≠ [] := fun e => by
    rw [(systematicWith_none_iff s n w u0).mpr e] at h; cases h
  obtain ⟨c0, t, _, h2⟩ := systematicWith_some s n w u0 hw
  rw [h2] at h; injection h with h; subst h
  exact run_sorted _ _ _ _ _ _ (Nat.zero_le _)

end generic

/-! ### exact arithmetic: the loop finds the first cumulative sum above the position -/

/-- sum of the first `k` weights (`P v (j+1)` is the cumulative sum `C_j`, `P v j` is `C_{j-1}`, `P v 0 = 0`) -/
noncomputable def P (v : List ℝ) (k : ℕ) : ℝ := (v.take k).sum

theorem P_zero (v : List ℝ) : P v 0 = 0 := by simp [P]

theorem P_succ (v : List ℝ) (k : ℕ) (hk : k < v.length) : P v (k + 1) = P v k + v[k] := by
  simp [P, List.sum_take_succ _ _ hk]

theorem P_length (v : List ℝ) : P v v.length = v.sum := by simp [P]

theorem P_mono (v : List ℝ) (hv : ∀ x ∈ v, 0 ≤ x) {a b : ℕ} (hab : a ≤ b) : P v a ≤ P v b := by
  induction b with
  | zero => have : a = 0 := by omega
            subst this; exact le_refl _
  | succ b ih =>
    rcases Nat.lt_or_ge a (b + 1) with h | h
    · have h1 := ih (by omega)
      by_cases hb : b < v.length
      · rw [P_succ v b hb]; have := hv _ (List.getElem_mem hb); linarith
      · have e : P v (b + 1) = P v b := by
          simp only [P]; rw [List.take_of_length_le (by omega), List.take_of_length_le (by omega)]
        rw [e]; exact h1
    · have : a = b + 1 := by omega
      subst this; exact le_refl _

theorem advance_spec (v : List ℝ) (jm : ℕ) (hjm : jm < v.length) (p : ℝ) (fuel j : ℕ) (c : ℝ) (hj : j ≤ jm)
    (hc : c = P v (j + 1)) (hf : jm - j ≤ fuel) :
    (advance v jm p fuel j c).2 = P v ((advance v jm p fuel j c).1 + 1) ∧
    ((advance v jm p fuel j c).1 < jm → p < P v ((advance v jm p fuel j c).1 + 1)) ∧
    (∀ k, j ≤ k → k < (advance v jm p fuel j c).1 → P v (k + 1) ≤ p) := by
  induction fuel generalizing j c with
  | zero =>
    simp only [advance]
    exact ⟨hc, fun h => by omega, fun k h1 h2 => by omega⟩
  | succ fuel ih =>
    unfold advance
    by_cases hcond : j < jm ∧ c ≤ p
    · have hj1 : j + 1 < v.length := by omega
      have hget : v[j + 1]? = some v[j + 1] := List.getElem?_eq_getElem hj1
      simp only [hcond.1, decide_true, Bool.true_and, ScReal.ge_def, hcond.2, if_true, hget]
      have := ih (j + 1) (Sc.add c v[j + 1]) (by omega) (by simp [hc, P_succ v (j + 1) hj1]) (by omega)
      refine ⟨this.1, this.2.1, ?_⟩
      intro k h1 h2
      rcases Nat.eq_or_lt_of_le h1 with rfl | h3
      · rw [← hc]; exact hcond.2
      · exact this.2.2 k (by omega) h2
    · have hif : (decide (j < jm) && Sc.ge p c) = false := by
        by_cases h1 : j < jm
        · have : ¬ c ≤ p := fun h => hcond ⟨h1, h⟩
          simp [h1, Sc.ge]; exact not_le.mp this
        · simp [h1]
      simp only [hif]
      refine ⟨hc, ?_, fun k h1 h2 => by simp at h2; omega⟩
      intro h1
      simp only [Bool.false_eq_true, if_false] at h1 ⊢
      rw [← hc]
      by_contra h2
      exact hcond ⟨h1, not_lt.mp h2⟩

/-- `r` is the least index whose cumulative sum exceeds `p`, capped at `jm` -/
def CoverAt (jm : ℕ) (v : List ℝ) (p : ℝ) (r : ℕ) : Prop :=
  r ≤ jm ∧ (r < jm → p < P v (r + 1)) ∧ (∀ k < r, P v (k + 1) ≤ p)

/-- `r` is the least index whose cumulative sum exceeds `p`, capped at the last index of positive weight
    (`lastPositive v`; the last index when no weight is positive) -/
def Cover (v : List ℝ) (p : ℝ) (r : ℕ) : Prop := CoverAt (lastPositive v) v p r

theorem CoverAt_unique (jm : ℕ) (v : List ℝ) (p : ℝ) (r r' : ℕ) (h : CoverAt jm v p r) (h' : CoverAt jm v p r') : r = r' := by
  rcases lt_trichotomy r r' with hlt | heq | hgt
  · have := h.2.1 (by have := h'.1; omega); have := h'.2.2 r hlt; linarith
  · exact heq
  · have := h'.2.1 (by have := h.1; omega); have := h.2.2 r' hgt; linarith

theorem Cover_unique (v : List ℝ) (p : ℝ) (r r' : ℕ) (h : Cover v p r) (h' : Cover v p r') : r = r' :=
  CoverAt_unique _ v p r r' h h'

theorem run_spec (v : List ℝ) (jm : ℕ) (hjm : jm < v.length) (pos : ℕ → ℝ) (is : List ℕ) (j : ℕ) (c : ℝ) (hj : j ≤ jm)
    (hc : c = P v (j + 1)) (hpos : is.Pairwise (fun a b => pos a ≤ pos b))
    (hinv : ∀ i ∈ is, ∀ k < j, P v (k + 1) ≤ pos i) :
    List.Forall₂ (fun i r => CoverAt jm v (pos i) r) is (run v jm pos is j c) := by
  induction is generalizing j c with
  | nil => simp [run]
  | cons i is ih =>
    simp only [run]
    have hb := advance_bounds v jm (pos i) v.length j c
    have hs := advance_spec v jm hjm (pos i) v.length j c hj hc (by omega)
    rw [List.pairwise_cons] at hpos
    refine List.Forall₂.cons ⟨hb.2 hj, hs.2.1, ?_⟩ ?_
    · intro k hk
      by_cases hkj : k < j
      · exact hinv i (by simp) k hkj
      · exact hs.2.2 k (by omega) hk
    · refine ih _ _ (hb.2 hj) hs.1 hpos.2 ?_
      intro i' hi' k hk
      have h1 : P v (k + 1) ≤ pos i := by
        by_cases hkj : k < j
        · exact hinv i (by simp) k hkj
        · exact hs.2.2 k (by omega) hk
      exact le_trans h1 (hpos.1 i' hi')

theorem position_real (n : ℕ) (u0 : ℝ) (i : ℕ) : position n u0 i = (u0 + i) / n := by
  simp [position]

theorem position_mono (n : ℕ) (u0 : ℝ) {a b : ℕ} (h : a ≤ b) : position n u0 a ≤ position n u0 b := by
  rw [position_real, position_real]
  have : (a : ℝ) ≤ b := by exact_mod_cast h
  exact div_le_div_of_nonneg_right (by linarith) (Nat.cast_nonneg n)

/-- **specification of the two-pointer loop**: for every position `(u0+i)/n` the returned index is the least
    `j` with `position < C_j` (capped at the last index) — for any weights (of either sign), any sum,
    any offset. `renorm s w` is the weight vector the loop works on (`w` itself, or `w/s`). -/
theorem C06_syst_spec (s : ℝ) (n : ℕ) (w : List ℝ) (u0 : ℝ) (idx : List ℕ)
    (h : systematicWith s n w u0 = some idx) :
    List.Forall₂ (fun (i : ℕ) r => Cover (renorm s w) ((u0 + i) / n) r) (List.range n) idx := by
  have hw : w ≠ [] := fun e => by
    rw [(systematicWith_none_iff s n w u0).mpr e] at h; cases h
  obtain ⟨c0, t, h1, h2⟩ := systematicWith_some s n w u0 hw
  rw [h2] at h; injection h with h; subst h
  rw [h1]
  have := run_spec (c0 :: t) (lastPositive (c0 :: t)) (lastPositive_lt _ (by simp)) (position n u0) (List.range n) 0 c0
    (Nat.zero_le _) (by rw [P_succ _ 0 (by simp), P_zero]; simp)
    (List.Pairwise.imp (fun {a b} hab => position_mono n u0 (le_of_lt hab)) List.pairwise_lt_range)
    (by intro i _ k hk; omega)
  simpa [position_real, Cover] using this

/-! ### counting: how many positions fall into cell `j` -/

theorem P_le_sum (v : List ℝ) (hv : ∀ x ∈ v, 0 ≤ x) (k : ℕ) : P v k ≤ v.sum := by
  rw [← P_length v]
  rcases Nat.le_total k v.length with h | h
  · exact P_mono v hv h
  · simp only [P]; rw [List.take_of_length_le h, List.take_of_length_le (le_refl _)]

theorem P_nonneg (v : List ℝ) (hv : ∀ x ∈ v, 0 ≤ x) (k : ℕ) : 0 ≤ P v k := by
  rw [← P_zero v]; exact P_mono v hv (Nat.zero_le k)

/-- with non-negative weights every entry after the cap is 0 … -/
theorem tail_zero (v : List ℝ) (hv : ∀ x ∈ v, 0 ≤ x) (j : ℕ) (hj : lastPositive v < j) (hjl : j < v.length) :
    v[j] = 0 := by
  have h := after_lastPositive v j hj v[j] (List.getElem?_eq_getElem hjl)
  have h1 : ¬ (0 : ℝ) < v[j] := by simpa [Sc.gt] using h
  exact le_antisymm (not_lt.mp h1) (hv _ (List.getElem_mem hjl))

/-- … so the cumulative sums are constant (= the total) from the cap on -/
theorem P_after_last (v : List ℝ) (hv : ∀ x ∈ v, 0 ≤ x) (k : ℕ) (hk : lastPositive v + 1 ≤ k) : P v k = v.sum := by
  have hstep : ∀ d, P v (lastPositive v + 1 + d) = P v (lastPositive v + 1) := by
    intro d
    induction d with
    | zero => rfl
    | succ d ih =>
      by_cases hl : lastPositive v + 1 + d < v.length
      · rw [← add_assoc, P_succ v _ hl, tail_zero v hv _ (by omega) hl, add_zero, ih]
      · have e : P v (lastPositive v + 1 + (d + 1)) = P v (lastPositive v + 1 + d) := by
          simp only [P]; rw [List.take_of_length_le (by omega), List.take_of_length_le (by omega)]
        rw [e, ih]
  have h1 : P v (lastPositive v + 1) = v.sum := by
    have := hstep v.length
    rw [← this]
    simp only [P]; rw [List.take_of_length_le (by omega)]
  obtain ⟨d, rfl⟩ : ∃ d, k = lastPositive v + 1 + d := ⟨k - (lastPositive v + 1), by omega⟩
  rw [hstep d, h1]

/-- position `p` is given index `j` exactly when it lies in the half-open cell `[C_{j−1}, C_j)`; for the capping index
    `lastPositive v` (which also owns everything from the total up to 1) this needs `p < Σv` -/
theorem cell_iff (v : List ℝ) (hv : ∀ x ∈ v, 0 ≤ x) (p : ℝ) (hp : 0 ≤ p) (r j : ℕ)
    (hc : Cover v p r) (hlast : j ≠ lastPositive v ∨ p < v.sum) :
    r = j ↔ (P v j ≤ p ∧ p < P v (j + 1)) := by
  constructor
  · rintro rfl
    constructor
    · rcases Nat.eq_zero_or_pos r with h0 | hpos
      · rw [h0, P_zero]; exact hp
      · have := hc.2.2 (r - 1) (by omega)
        rwa [Nat.sub_add_cancel hpos] at this
    · by_cases hr : r < lastPositive v
      · exact hc.2.1 hr
      · have hr' : r = lastPositive v := by have := hc.1; omega
        rw [P_after_last v hv (r + 1) (by omega)]
        rcases hlast with h | h
        · exact absurd hr' h
        · exact h
  · rintro ⟨h1, h2⟩
    rcases lt_trichotomy r j with hlt | heq | hgt
    · exfalso
      have hmono : P v (r + 1) ≤ P v j := P_mono v hv hlt
      by_cases hr : r < lastPositive v
      · have := hc.2.1 hr; linarith
      · have hr' : r = lastPositive v := by have := hc.1; omega
        rw [P_after_last v hv j (by omega)] at h1
        rw [P_after_last v hv (j + 1) (by omega)] at h2
        linarith
    · exact heq
    · exfalso; have := hc.2.2 j hgt; linarith

/-- core counting lemma: the number of positions `(u0+i)/n`, `i < n`, that receive index `j` -/
theorem count_core (v : List ℝ) (hv : ∀ x ∈ v, 0 ≤ x) (n : ℕ) (hn : 1 ≤ n) (u0 : ℝ)
    (h0 : 0 ≤ u0) (h1 : u0 < 1) (idx : List ℕ)
    (hF : List.Forall₂ (fun (i : ℕ) r => Cover v ((u0 + i) / n) r) (List.range n) idx) (j : ℕ)
    (hlast : j ≠ lastPositive v ∨ 1 ≤ v.sum) :
    (idx.count j : ℤ) = min ⌈n * P v (j + 1) - u0⌉ (n : ℤ) - min ⌈n * P v j - u0⌉ (n : ℤ) := by
  classical
  have hnpos : (0 : ℝ) < n := by exact_mod_cast hn
  have hF' := (forall2_mem hF).imp (S := fun (i : ℕ) r =>
      (r = j ↔ (P v j ≤ (u0 + i) / n ∧ (u0 + i) / n < P v (j + 1)))) (by
    intro i r ⟨hi, hc⟩
    have hi' : i < n := List.mem_range.mp hi
    have hin : (i : ℝ) + 1 ≤ n := by exact_mod_cast hi'
    have hp0 : 0 ≤ (u0 + i) / n := div_nonneg (by positivity) hnpos.le
    have hp1 : (u0 + i) / n < 1 := by rw [div_lt_one hnpos]; linarith
    refine cell_iff v hv _ hp0 r j hc ?_
    rcases hlast with h | h
    · exact Or.inl h
    · exact Or.inr (lt_of_lt_of_le hp1 h))
  rw [count_of_forall2 _ j _ _ hF']
  have hmono : P v j ≤ P v (j + 1) := P_mono v hv (Nat.le_succ j)
  have hPj := P_nonneg v hv j
  have hA : 0 ≤ ⌈n * P v j - u0⌉ := by
    have : ((-1 : ℤ) : ℝ) < n * P v j - u0 := by
      push_cast; have := mul_nonneg hnpos.le hPj; linarith
    have := Int.lt_ceil.mpr this; omega
  have hAB : ⌈n * P v j - u0⌉ ≤ ⌈n * P v (j + 1) - u0⌉ :=
    Int.ceil_le_ceil (by have := mul_le_mul_of_nonneg_left hmono hnpos.le; linarith)
  rw [← countP_range_Ico _ _ hA hAB n]
  congr 1
  apply List.countP_congr
  intro i _
  simp only [decide_eq_true_eq]
  rw [Int.ceil_le, Int.lt_ceil, le_div_iff₀ hnpos, div_lt_iff₀ hnpos]
  push_cast
  constructor
  · rintro ⟨a, b⟩; constructor <;> nlinarith
  · rintro ⟨a, b⟩; constructor <;> nlinarith

/-! ### the renormalisation switch at exact arithmetic -/

theorem sum_real (w : List ℝ) : Sc.sum w = w.sum := by
  have : ∀ (l : List ℝ) (a : ℝ), l.foldl Sc.add a = a + l.sum := by
    intro l
    induction l with
    | nil => simp
    | cons x l ih => intro a; simp [List.foldl_cons, ih, add_assoc]
  simp [Sc.sum, this]

theorem sqrtEps_real : (sqrtEps : ℝ) = 1 / 2 ^ 26 := by
  simp [sqrtEps]; norm_num

/-- within the tolerance the weights are used as they are … -/
theorem renorm_id (s : ℝ) (w : List ℝ) (hs : |s - 1| ≤ 1 / 2 ^ 26) : renorm s w = w := by
  unfold renorm
  have : ¬ (sqrtEps : ℝ) < |s - 1| := by rw [sqrtEps_real]; exact not_lt.mpr hs
  simp [ScReal.abs_def, this]

/-- … outside it they are divided by their sum -/
theorem renorm_div (s : ℝ) (w : List ℝ) (hs : 1 / 2 ^ 26 < |s - 1|) :
    renorm s w = w.map (fun x => x / s) := by
  unfold renorm
  have : (sqrtEps : ℝ) < |s - 1| := by rw [sqrtEps_real]; exact hs
  simp [ScReal.abs_def, this]

theorem sum_map_div (w : List ℝ) (s : ℝ) : (w.map (fun x => x / s)).sum = w.sum / s := by
  induction w with
  | nil => simp
  | cons x w ih => simp [ih, add_div]

/-! ### `np.sum` (numpy's pairwise summation) is the sum at exact arithmetic -/

theorem foldl_add_real (l : List ℝ) (a : ℝ) : l.foldl Sc.add a = a + l.sum := by
  induction l generalizing a with
  | nil => simp
  | cons x l ih => simp [List.foldl_cons, ih, add_assoc]

theorem zipWith_add_sum (a b : List ℝ) (h : a.length = b.length) :
    (List.zipWith Sc.add a b).sum = a.sum + b.sum := by
  induction a generalizing b with
  | nil => cases b with
    | nil => simp
    | cons y b => simp at h
  | cons x a ih => cases b with
    | nil => simp at h
    | cons y b =>
      simp only [List.zipWith_cons_cons, List.sum_cons, ScReal.add_def]
      rw [ih b (by simpa using h)]; ring

theorem fold8_spec (fuel : ℕ) (r rest : List ℝ) (q : ℕ) (hr : r.length = 8) (hq : rest.length = 8 * q)
    (hf : q ≤ fuel) : (fold8 r rest fuel).length = 8 ∧ (fold8 r rest fuel).sum = r.sum + rest.sum := by
  induction fuel generalizing r rest q with
  | zero =>
    have : q = 0 := by omega
    subst this
    have : rest = [] := List.length_eq_zero_iff.mp (by simpa using hq)
    subst this
    simp [fold8, hr]
  | succ fuel ih =>
    unfold fold8
    by_cases hlt : rest.length < 8
    · have : q = 0 := by omega
      subst this
      have : rest = [] := List.length_eq_zero_iff.mp (by simpa using hq)
      subst this
      simp [hr]
    · simp only [hlt, if_false]
      have hq' : (rest.drop 8).length = 8 * (q - 1) := by simp [hq]; omega
      have htk : (rest.take 8).length = 8 := by simp; omega
      have hr' : (List.zipWith Sc.add r (rest.take 8)).length = 8 := by simp [hr, htk]
      obtain ⟨h1, h2⟩ := ih _ _ (q - 1) hr' hq' (by omega)
      refine ⟨h1, ?_⟩
      rw [h2, zipWith_add_sum r (rest.take 8) (by rw [hr, htk]), add_assoc, List.sum_take_add_sum_drop]

theorem tree8_real (r : List ℝ) (hr : r.length = 8) : tree8 r = r.sum := by
  match r, hr with
  | [a, b, c, d, e, f, g, h], _ => simp [tree8]; ring

theorem pwBlock_real (l : List ℝ) (h8 : 8 ≤ l.length) : pwBlock l = l.sum := by
  unfold pwBlock
  simp only
  set m := l.length - l.length % 8 with hm
  have hm8 : 8 ≤ m := by omega
  have hml : m ≤ l.length := by omega
  have hrest : ((l.take m).drop 8).length = 8 * ((m - 8) / 8) := by
    simp [List.length_take, min_eq_left hml]; omega
  have htk : (l.take 8).length = 8 := by simp; omega
  obtain ⟨h1, h2⟩ := fold8_spec l.length (l.take 8) ((l.take m).drop 8) _ htk hrest (by omega)
  rw [foldl_add_real, tree8_real _ h1, h2]
  have e : l.take 8 = (l.take m).take 8 := by rw [List.take_take, min_eq_left hm8]
  rw [e, List.sum_take_add_sum_drop, List.sum_take_add_sum_drop]

theorem pairwiseSum_real (fuel : ℕ) (l : List ℝ) : pairwiseSum fuel l = l.sum := by
  induction fuel generalizing l with
  | zero => simp [pairwiseSum, foldl_add_real]
  | succ fuel ih =>
    unfold pairwiseSum
    split
    · simp [foldl_add_real]
    · rename_i h
      split
      · exact pwBlock_real l (by omega)
      · simp only [ih, ScReal.add_def, List.sum_take_add_sum_drop]

/-- at exact arithmetic numpy's pairwise `np.sum` is the sum -/
theorem npSum_real (w : List ℝ) : npSum w = w.sum := by
  simp [npSum, pairwiseSum_real]

/-- hence the self-contained model (`np.sum` inside) and the model with the exact sum coincide over `ℝ`:
    every theorem about `systematic` is a theorem about `systematicNp` -/
theorem systematicNp_real (n : ℕ) (w : List ℝ) (u0 : ℝ) : systematicNp n w u0 = systematic n w u0 := by
  simp [systematicNp, systematic, npSum_real, sum_real]

/-! ### count law for a weight vector that sums to exactly 1 -/

theorem some_ne_nil {α : Type} [Sc α] {s : α} {n : ℕ} {w : List α} {u0 : α} {idx : List ℕ}
    (h : systematicWith s n w u0 = some idx) : w ≠ [] := fun e => by
  rw [(systematicWith_none_iff s n w u0).mpr e] at h; cases h

/-- closed form in terms of the effective weights `v = renorm s w` (non-negative, sum exactly 1) -/
theorem closed_form_eff (s : ℝ) (n : ℕ) (w : List ℝ) (u0 : ℝ) (idx : List ℕ) (hn : 1 ≤ n)
    (hv0 : ∀ x ∈ renorm s w, 0 ≤ x) (hv1 : (renorm s w).sum = 1) (h0 : 0 ≤ u0) (h1 : u0 < 1)
    (h : systematicWith s n w u0 = some idx) (j : ℕ) :
    (idx.count j : ℤ) = ⌈n * P (renorm s w) (j + 1) - u0⌉ - ⌈n * P (renorm s w) j - u0⌉ := by
  have hnpos : (0 : ℝ) < n := by exact_mod_cast hn
  rw [count_core _ hv0 n hn u0 h0 h1 idx (C06_syst_spec s n w u0 idx h) j (Or.inr hv1.ge)]
  have hle : ∀ k, ⌈n * P (renorm s w) k - u0⌉ ≤ (n : ℤ) := by
    intro k
    rw [Int.ceil_le]
    have := P_le_sum _ hv0 k
    rw [hv1] at this
    have := mul_le_mul_of_nonneg_left this hnpos.le
    push_cast; linarith
  rw [min_eq_left (hle _), min_eq_left (hle _)]

theorem floor_ceil_eff (s : ℝ) (n : ℕ) (w : List ℝ) (u0 : ℝ) (idx : List ℕ) (hn : 1 ≤ n)
    (hv0 : ∀ x ∈ renorm s w, 0 ≤ x) (hv1 : (renorm s w).sum = 1) (h0 : 0 ≤ u0) (h1 : u0 < 1)
    (h : systematicWith s n w u0 = some idx) (j : ℕ) (hj : j < (renorm s w).length) :
    (idx.count j : ℤ) = ⌊n * (renorm s w)[j]⌋ ∨ (idx.count j : ℤ) = ⌈n * (renorm s w)[j]⌉ := by
  rw [closed_form_eff s n w u0 idx hn hv0 hv1 h0 h1 h j]
  have e : n * P (renorm s w) (j + 1) - u0 = (n * P (renorm s w) j - u0) + n * (renorm s w)[j] := by
    rw [P_succ _ j hj]; ring
  rw [e]
  exact ceil_diff _ _

/-- **closed form of the number of copies**, `Σw = 1` exactly, every offset in `[0,1)`:
    `count_j = ⌈n·C_j − u0⌉ − ⌈n·C_{j−1} − u0⌉`  (`P w (j+1) = C_j`, `P w j = C_{j−1}`, `P w 0 = 0`). -/
theorem C06_syst_count_closed_form (n : ℕ) (w : List ℝ) (u0 : ℝ) (idx : List ℕ) (hn : 1 ≤ n)
    (hw0 : ∀ x ∈ w, 0 ≤ x) (hw1 : w.sum = 1) (h0 : 0 ≤ u0) (h1 : u0 < 1)
    (h : systematic n w u0 = some idx) (j : ℕ) :
    (idx.count j : ℤ) = ⌈n * P w (j + 1) - u0⌉ - ⌈n * P w j - u0⌉ := by
  unfold systematic at h
  rw [sum_real, hw1] at h
  have hre : renorm (1 : ℝ) w = w := renorm_id 1 w (by norm_num)
  have := closed_form_eff 1 n w u0 idx hn (by rw [hre]; exact hw0) (by rw [hre]; exact hw1) h0 h1 h j
  rwa [hre] at this

/-- **floor/ceil law**: with `Σw = 1` index `j` is copied `⌊n·w_j⌋` or `⌈n·w_j⌉` times, for every offset -/
theorem C06_syst_floor_ceil (n : ℕ) (w : List ℝ) (u0 : ℝ) (idx : List ℕ) (hn : 1 ≤ n)
    (hw0 : ∀ x ∈ w, 0 ≤ x) (hw1 : w.sum = 1) (h0 : 0 ≤ u0) (h1 : u0 < 1)
    (h : systematic n w u0 = some idx) (j : ℕ) (hj : j < w.length) :
    (idx.count j : ℤ) = ⌊n * w[j]⌋ ∨ (idx.count j : ℤ) = ⌈n * w[j]⌉ := by
  rw [C06_syst_count_closed_form n w u0 idx hn hw0 hw1 h0 h1 h j]
  have e : n * P w (j + 1) - u0 = (n * P w j - u0) + n * w[j] := by
    rw [P_succ _ j hj]; ring
  rw [e]
  exact ceil_diff _ _

/-- the same law when the sum is far from 1 and the routine renormalises: copies of `j` are
    `⌊n·w_j/Σw⌋` or `⌈n·w_j/Σw⌉` -/
theorem C06_syst_floor_ceil_renormalised (n : ℕ) (w : List ℝ) (u0 : ℝ) (idx : List ℕ) (hn : 1 ≤ n)
    (hw0 : ∀ x ∈ w, 0 ≤ x) (hpos : 0 < w.sum) (hfar : 1 / 2 ^ 26 < |w.sum - 1|)
    (h0 : 0 ≤ u0) (h1 : u0 < 1)
    (h : systematic n w u0 = some idx) (j : ℕ) (hj : j < w.length) :
    (idx.count j : ℤ) = ⌊n * (w[j] / w.sum)⌋ ∨ (idx.count j : ℤ) = ⌈n * (w[j] / w.sum)⌉ := by
  unfold systematic at h
  rw [sum_real] at h
  have hre := renorm_div w.sum w hfar
  have hv0 : ∀ x ∈ renorm w.sum w, 0 ≤ x := by
    rw [hre]; intro x hx
    obtain ⟨y, hy, rfl⟩ := List.mem_map.mp hx
    exact div_nonneg (hw0 y hy) hpos.le
  have hv1 : (renorm w.sum w).sum = 1 := by
    rw [hre, sum_map_div, div_self hpos.ne']
  have hj' : j < (renorm w.sum w).length := by rw [renorm_length]; exact hj
  have := floor_ceil_eff w.sum n w u0 idx hn hv0 hv1 h0 h1 h j hj'
  have e : (renorm w.sum w)[j] = w[j] / w.sum := by
    rw [List.getElem_of_eq hre hj']; simp
  rwa [e] at this

/-- any sum (inside the tolerance band the weights are used un-normalised): every index **other than the capping one**
    (`lastPositive`: the last index of positive weight) still obeys the closed form, with the cumulative sums clamped at 1
    (positions never reach 1); the capping index receives the remaining copies (`C06_syst_length`). -/
theorem C06_syst_count_below_last (s : ℝ) (n : ℕ) (w : List ℝ) (u0 : ℝ) (idx : List ℕ) (hn : 1 ≤ n)
    (hv0 : ∀ x ∈ renorm s w, 0 ≤ x) (h0 : 0 ≤ u0) (h1 : u0 < 1)
    (h : systematicWith s n w u0 = some idx) (j : ℕ) (hj : j ≠ lastPositive (renorm s w)) :
    (idx.count j : ℤ) =
      min ⌈n * P (renorm s w) (j + 1) - u0⌉ (n : ℤ) - min ⌈n * P (renorm s w) j - u0⌉ (n : ℤ) :=
  count_core _ hv0 n hn u0 h0 h1 idx (C06_syst_spec s n w u0 idx h) j (Or.inl hj)

/-- … in particular, when the (un-normalised) sum falls short of 1, floor/ceil holds for every index but the capping one -/
theorem C06_syst_floor_ceil_deficit (s : ℝ) (n : ℕ) (w : List ℝ) (u0 : ℝ) (idx : List ℕ) (hn : 1 ≤ n)
    (hv0 : ∀ x ∈ renorm s w, 0 ≤ x) (hv1 : (renorm s w).sum ≤ 1) (h0 : 0 ≤ u0) (h1 : u0 < 1)
    (h : systematicWith s n w u0 = some idx) (j : ℕ) (hjl : j < (renorm s w).length)
    (hj : j ≠ lastPositive (renorm s w)) :
    (idx.count j : ℤ) = ⌊n * (renorm s w)[j]⌋ ∨ (idx.count j : ℤ) = ⌈n * (renorm s w)[j]⌉ := by
  have hnpos : (0 : ℝ) < n := by exact_mod_cast hn
  rw [C06_syst_count_below_last s n w u0 idx hn hv0 h0 h1 h j hj]
  have hle : ∀ k, ⌈n * P (renorm s w) k - u0⌉ ≤ (n : ℤ) := by
    intro k
    rw [Int.ceil_le]
    have := le_trans (P_le_sum _ hv0 k) hv1
    have := mul_le_mul_of_nonneg_left this hnpos.le
    push_cast; linarith
  rw [min_eq_left (hle _), min_eq_left (hle _)]
  have e : n * P (renorm s w) (j + 1) - u0 = (n * P (renorm s w) j - u0) + n * (renorm s w)[j] := by
    rw [P_succ _ j hjl]; ring
  rw [e]
  exact ceil_diff _ _

/-! ### unbiasedness: the count as a function of the offset -/

/-- **indicator decomposition** (`Σw = 1`): with `a = n·C_{j−1}`, `b = n·C_j`, `δ_x = ⌈x⌉ − x`,
    `count_j(u0) = ⌈b⌉ − ⌈a⌉ − [u0 ≥ 1 − δ_b] + [u0 ≥ 1 − δ_a]`; both indicator sets are intervals `[1 − δ, 1)`
    of length `δ`. -/
theorem C06_syst_indicator (n : ℕ) (w : List ℝ) (u0 : ℝ) (idx : List ℕ) (hn : 1 ≤ n)
    (hw0 : ∀ x ∈ w, 0 ≤ x) (hw1 : w.sum = 1) (h0 : 0 ≤ u0) (h1 : u0 < 1)
    (h : systematic n w u0 = some idx) (j : ℕ) :
    (idx.count j : ℤ) = (⌈n * P w (j + 1)⌉ - ⌈n * P w j⌉)
      - (if 1 - ((⌈n * P w (j + 1)⌉ : ℝ) - n * P w (j + 1)) ≤ u0 then 1 else 0)
      + (if 1 - ((⌈n * P w j⌉ : ℝ) - n * P w j) ≤ u0 then 1 else 0) := by
  rw [C06_syst_count_closed_form n w u0 idx hn hw0 hw1 h0 h1 h j,
    ceil_sub_offset _ u0 h0 h1, ceil_sub_offset _ u0 h0 h1]
  ring

/-- **unbiasedness, algebraic form**: the constant term minus the length `δ_b` of the first indicator interval
    plus the length `δ_a` of the second is exactly `n·w_j` — the mean of `count_j(u0)` over `u0 ~ U[0,1)`. -/
theorem C06_syst_unbiased_algebraic (n : ℕ) (w : List ℝ) (j : ℕ) (hj : j < w.length) :
    ((⌈n * P w (j + 1)⌉ - ⌈n * P w j⌉ : ℤ) : ℝ)
      - ((⌈n * P w (j + 1)⌉ : ℝ) - n * P w (j + 1)) + ((⌈n * P w j⌉ : ℝ) - n * P w j) = n * w[j] := by
  rw [P_succ w j hj]; push_cast; ring

/-! ### unbiasedness as an integral over the offset `u0 ~ U[0,1)` -/

/-- copies of index `j` as a function of the offset (`0` only in the `IndexError` case `w = []`) -/
noncomputable def copies (n : ℕ) (w : List ℝ) (j : ℕ) (u : ℝ) : ℝ :=
  match systematic n w u with
  | some idx => (idx.count j : ℝ)
  | none => 0

/-- **unbiasedness**: the mean number of copies of index `j` over a uniform offset is `n·w_j` (Lebesgue integral
    over `[0,1)`; `Σw = 1`) -/
theorem C06_syst_unbiased_integral (n : ℕ) (w : List ℝ) (hn : 1 ≤ n)
    (hw0 : ∀ x ∈ w, 0 ≤ x) (hw1 : w.sum = 1) (j : ℕ) (hj : j < w.length) :
    ∫ u in Set.Ico (0:ℝ) 1, copies n w j u = n * w[j] := by
  have hne : w ≠ [] := by rintro rfl; simp at hj
  set a := (n : ℝ) * P w j with ha
  set b := (n : ℝ) * P w (j + 1) with hb
  have hcongr : Set.EqOn (copies n w j)
      (fun u => ((⌈b⌉ - ⌈a⌉ : ℤ) : ℝ) - (if 1 - ((⌈b⌉ : ℝ) - b) ≤ u then (1:ℝ) else 0)
        + (if 1 - ((⌈a⌉ : ℝ) - a) ≤ u then (1:ℝ) else 0)) (Set.Ico (0:ℝ) 1) := by
    intro u hu
    obtain ⟨c0, t, _, hsome⟩ := systematicWith_some (Sc.sum w) n w u hne
    have hs : systematic n w u = some _ := hsome
    have := C06_syst_indicator n w u _ hn hw0 hw1 hu.1 hu.2 hs j
    simp only [copies, hs]
    have h2 : ((List.count j (run (c0 :: t) (lastPositive (c0 :: t)) (position n u) (List.range n) 0 c0) : ℕ) : ℝ)
        = (((List.count j (run (c0 :: t) (lastPositive (c0 :: t)) (position n u) (List.range n) 0 c0) : ℕ) : ℤ) : ℝ) := by
      push_cast; rfl
    rw [h2, this]
    push_cast
    split <;> split <;> simp [ha, hb]
  rw [setIntegral_congr_fun measurableSet_Ico hcongr]
  have hda := delta_range a
  have hdb := delta_range b
  have i1 : IntegrableOn (fun _ : ℝ => ((⌈b⌉ - ⌈a⌉ : ℤ) : ℝ)) (Set.Ico (0:ℝ) 1) := integrableOn_const (by simp)
  have i2 := integrable_step (1 - ((⌈b⌉ : ℝ) - b))
  have i3 := integrable_step (1 - ((⌈a⌉ : ℝ) - a))
  have e1 := integral_add (μ := volume.restrict (Set.Ico (0:ℝ) 1))
    (f := fun u => ((⌈b⌉ - ⌈a⌉ : ℤ) : ℝ) - (if 1 - ((⌈b⌉ : ℝ) - b) ≤ u then (1:ℝ) else 0))
    (g := fun u => if 1 - ((⌈a⌉ : ℝ) - a) ≤ u then (1:ℝ) else 0) (i1.sub i2) i3
  have e2 := integral_sub (μ := volume.restrict (Set.Ico (0:ℝ) 1))
    (f := fun _ => ((⌈b⌉ - ⌈a⌉ : ℤ) : ℝ))
    (g := fun u => if 1 - ((⌈b⌉ : ℝ) - b) ≤ u then (1:ℝ) else 0) i1 i2
  rw [e1, e2, integral_step _ (by linarith) (by linarith),
    integral_step _ (by linarith) (by linarith), setIntegral_const, Real.volume_real_Ico_of_le (by norm_num)]
  have := C06_syst_unbiased_algebraic n w j hj
  simp only [← ha, ← hb] at this
  rw [← this]; simp

/-! ### every sum: clamped cell edges, quantitative count law, mean number of copies -/

/-- cell boundaries in position units, clamped to the range `[0,1]` of the comb: `edge v k = min(C_{k−1}, 1)` up to the
    capping index `L = lastPositive v` and `1` beyond it (the capping index owns everything up to 1; indices after it,
    whose weights are 0, own nothing) -/
noncomputable def edge (v : List ℝ) (k : ℕ) : ℝ := if k ≤ lastPositive v then min (P v k) 1 else 1

theorem edge_zero (v : List ℝ) : edge v 0 = 0 := by
  simp [edge, P_zero]

theorem edge_le_one (v : List ℝ) (k : ℕ) : edge v k ≤ 1 := by
  unfold edge; split
  · exact min_le_right _ _
  · exact le_refl _

theorem edge_nonneg (v : List ℝ) (hv : ∀ x ∈ v, 0 ≤ x) (k : ℕ) : 0 ≤ edge v k := by
  unfold edge; split
  · exact le_min (P_nonneg v hv k) zero_le_one
  · exact zero_le_one

theorem edge_mono (v : List ℝ) (hv : ∀ x ∈ v, 0 ≤ x) {a b : ℕ} (hab : a ≤ b) : edge v a ≤ edge v b := by
  unfold edge
  by_cases hb : b ≤ lastPositive v
  · have ha : a ≤ lastPositive v := by omega
    simp only [ha, hb, if_true]
    exact min_le_min_right _ (P_mono v hv hab)
  · simp only [hb, if_false]
    split
    · exact min_le_right _ _
    · exact le_refl _

/-- position `p ∈ [0,1)` is given index `j` exactly when it lies in `[edge j, edge (j+1))` — every `j`, every sum -/
theorem cell_iff_all (v : List ℝ) (hv : ∀ x ∈ v, 0 ≤ x) (p : ℝ) (hp0 : 0 ≤ p) (hp1 : p < 1)
    (r j : ℕ) (hc : Cover v p r) : r = j ↔ (edge v j ≤ p ∧ p < edge v (j + 1)) := by
  constructor
  · rintro rfl
    have hr : r ≤ lastPositive v := hc.1
    constructor
    · simp only [edge, hr, if_true]
      refine le_trans (min_le_left _ _) ?_
      rcases Nat.eq_zero_or_pos r with h0 | hpos
      · rw [h0, P_zero]; exact hp0
      · have := hc.2.2 (r - 1) (by omega)
        rwa [Nat.sub_add_cancel hpos] at this
    · unfold edge
      split
      · rename_i h
        exact lt_min (hc.2.1 (by omega)) hp1
      · exact hp1
  · rintro ⟨h1, h2⟩
    rcases lt_trichotomy r j with hlt | heq | hgt
    · exfalso
      by_cases hr : r < lastPositive v
      · have h3 := hc.2.1 hr
        have hmono : P v (r + 1) ≤ P v j := P_mono v hv hlt
        unfold edge at h1
        split at h1
        · have : min (P v j) 1 ≤ p := h1
          rcases min_le_iff.mp this with h | h <;> linarith
        · linarith
      · have hj : ¬ j ≤ lastPositive v := by have := hc.1; omega
        simp only [edge, hj, if_false] at h1
        linarith
    · exact heq
    · exfalso
      have hj : j + 1 ≤ lastPositive v := by have := hc.1; omega
      have := hc.2.2 j hgt
      simp only [edge, hj, if_true] at h2
      have := min_le_left (P v (j + 1)) 1
      linarith

/-- closed form of the number of copies, every index and EVERY sum of the effective weights -/
theorem count_all (v : List ℝ) (hne : v ≠ []) (hv : ∀ x ∈ v, 0 ≤ x) (n : ℕ) (hn : 1 ≤ n) (u0 : ℝ)
    (h0 : 0 ≤ u0) (h1 : u0 < 1) (idx : List ℕ)
    (hF : List.Forall₂ (fun (i : ℕ) r => Cover v ((u0 + i) / n) r) (List.range n) idx) (j : ℕ) :
    (idx.count j : ℤ) = ⌈n * edge v (j + 1) - u0⌉ - ⌈n * edge v j - u0⌉ := by
  classical
  have hnpos : (0 : ℝ) < n := by exact_mod_cast hn
  have hF' := (forall2_mem hF).imp (S := fun (i : ℕ) r =>
      (r = j ↔ (edge v j ≤ (u0 + i) / n ∧ (u0 + i) / n < edge v (j + 1)))) (by
    intro i r ⟨hi, hc⟩
    have hi' : i < n := List.mem_range.mp hi
    have hin : (i : ℝ) + 1 ≤ n := by exact_mod_cast hi'
    have hp0 : 0 ≤ (u0 + i) / n := div_nonneg (by positivity) hnpos.le
    have hp1 : (u0 + i) / n < 1 := by rw [div_lt_one hnpos]; linarith
    exact cell_iff_all v hv _ hp0 hp1 r j hc)
  rw [count_of_forall2 _ j _ _ hF']
  have hmono : edge v j ≤ edge v (j + 1) := edge_mono v hv (Nat.le_succ j)
  have hEj := edge_nonneg v hv j
  have hA : 0 ≤ ⌈n * edge v j - u0⌉ := by
    have : ((-1 : ℤ) : ℝ) < n * edge v j - u0 := by
      push_cast; have := mul_nonneg hnpos.le hEj; linarith
    have := Int.lt_ceil.mpr this; omega
  have hAB : ⌈n * edge v j - u0⌉ ≤ ⌈n * edge v (j + 1) - u0⌉ :=
    Int.ceil_le_ceil (by have := mul_le_mul_of_nonneg_left hmono hnpos.le; linarith)
  have hle : ∀ k, ⌈n * edge v k - u0⌉ ≤ (n : ℤ) := by
    intro k
    rw [Int.ceil_le]
    have := mul_le_mul_of_nonneg_left (edge_le_one v k) hnpos.le
    push_cast; linarith
  have hcount := countP_range_Ico _ _ hA hAB n
  rw [min_eq_left (hle _), min_eq_left (hle _)] at hcount
  rw [← hcount]
  congr 1
  apply List.countP_congr
  intro i _
  simp only [decide_eq_true_eq]
  rw [Int.ceil_le, Int.lt_ceil, le_div_iff₀ hnpos, div_lt_iff₀ hnpos]
  push_cast
  constructor
  · rintro ⟨a, b⟩; constructor <;> nlinarith
  · rintro ⟨a, b⟩; constructor <;> nlinarith

/-- the clamped cell `[edge j, edge (j+1))` has length `v_j` up to the distance of the sum from 1 -/
theorem edge_diff_bound (v : List ℝ) (hv : ∀ x ∈ v, 0 ≤ x) (j : ℕ) (hj : j < v.length) :
    |(edge v (j + 1) - edge v j) - v[j]| ≤ |v.sum - 1| := by
  have hPj := P_succ v j hj
  have hmono : P v j ≤ P v (j + 1) := P_mono v hv (Nat.le_succ j)
  have hsum1 := P_le_sum v hv (j + 1)
  by_cases hj1 : j + 1 ≤ lastPositive v
  · have hj0 : j ≤ lastPositive v := by omega
    simp only [edge, hj0, hj1, if_true]
    have hc := clamp_diff (P v j) (P v (j + 1)) hmono
    have hmax : max (P v (j + 1) - 1) 0 ≤ |v.sum - 1| := by
      apply max_le
      · exact le_trans (by linarith) (le_abs_self _)
      · exact abs_nonneg _
    rw [abs_le]; constructor <;> linarith [hc.1, hc.2]
  · by_cases hj0 : j ≤ lastPositive v
    · -- the capping index: its cell reaches up to 1
      have hS : P v (j + 1) = v.sum := P_after_last v hv (j + 1) (by omega)
      simp only [edge, hj0, hj1, if_true, if_false]
      rcases le_total (P v j) 1 with hp | hp
      · rw [min_eq_left hp]
        have : (1 - P v j) - v[j] = -(v.sum - 1) := by linarith
        rw [this, abs_neg]
      · rw [min_eq_right hp]
        have h1 : (1 - 1 : ℝ) - v[j] = -(v[j]) := by ring
        have hvj : 0 ≤ v[j] := hv _ (List.getElem_mem hj)
        rw [h1, abs_neg, abs_of_nonneg hvj]
        exact le_trans (by linarith) (le_abs_self _)
    · -- beyond the cap: weight 0 and an empty cell
      simp only [edge, hj0, hj1, if_false]
      rw [tail_zero v hv j (by omega) hj]
      simp

theorem renorm_ne_nil (s : ℝ) (n : ℕ) (w : List ℝ) (u0 : ℝ) (idx : List ℕ)
    (h : systematicWith s n w u0 = some idx) : renorm s w ≠ [] := by
  intro e
  have := renorm_length s w
  rw [e] at this
  exact some_ne_nil h (List.length_eq_zero_iff.mp this.symm)

/-- **closed form for every sum**: whatever the effective weights `v = renorm s w ≥ 0` add up to, index `j` is copied
    `⌈n·e_{j+1} − u0⌉ − ⌈n·e_j − u0⌉` times, where `e_k = min(C_{k−1}, 1)` below the last index and `1` from it on. -/
theorem C06_syst_count_any_sum (s : ℝ) (n : ℕ) (w : List ℝ) (u0 : ℝ) (idx : List ℕ) (hn : 1 ≤ n)
    (hv0 : ∀ x ∈ renorm s w, 0 ≤ x) (h0 : 0 ≤ u0) (h1 : u0 < 1)
    (h : systematicWith s n w u0 = some idx) (j : ℕ) :
    (idx.count j : ℤ) = ⌈n * edge (renorm s w) (j + 1) - u0⌉ - ⌈n * edge (renorm s w) j - u0⌉ :=
  count_all _ (renorm_ne_nil s n w u0 idx h) hv0 n hn u0 h0 h1 idx (C06_syst_spec s n w u0 idx h) j

/-- **quantitative count law for every sum**: the number of copies of `j` differs from `n·v_j` by less than
    `1 + n·|Σv − 1|` (for `Σv = 1` this is the floor/ceil law). -/
theorem C06_syst_count_bound (s : ℝ) (n : ℕ) (w : List ℝ) (u0 : ℝ) (idx : List ℕ) (hn : 1 ≤ n)
    (hv0 : ∀ x ∈ renorm s w, 0 ≤ x) (h0 : 0 ≤ u0) (h1 : u0 < 1)
    (h : systematicWith s n w u0 = some idx) (j : ℕ) (hj : j < (renorm s w).length) :
    |((idx.count j : ℕ) : ℝ) - n * (renorm s w)[j]| < 1 + n * |(renorm s w).sum - 1| := by
  have hnpos : (0 : ℝ) ≤ n := Nat.cast_nonneg n
  have hc := C06_syst_count_any_sum s n w u0 idx hn hv0 h0 h1 h j
  have hcr : ((idx.count j : ℕ) : ℝ) =
      ((⌈n * edge (renorm s w) (j + 1) - u0⌉ - ⌈n * edge (renorm s w) j - u0⌉ : ℤ) : ℝ) := by
    rw [← hc]; push_cast; rfl
  have hnear := abs_lt.mp (ceil_sub_ceil_near (n * edge (renorm s w) j - u0) (n * edge (renorm s w) (j + 1) - u0))
  have hed := abs_le.mp (edge_diff_bound (renorm s w) hv0 j hj)
  have hT := abs_nonneg ((renorm s w).sum - 1)
  have e1 := mul_le_mul_of_nonneg_left hed.1 hnpos
  have e2 := mul_le_mul_of_nonneg_left hed.2 hnpos
  rw [hcr, abs_lt]
  constructor <;> nlinarith [hnear.1, hnear.2]

/-- … in particular on the whole tolerance band the routine accepts without renormalising:
    `|count_j − n·w_j| < 1 + n·2^-26` -/
theorem C06_syst_count_tolerance_band (n : ℕ) (w : List ℝ) (u0 : ℝ) (idx : List ℕ) (hn : 1 ≤ n)
    (hw0 : ∀ x ∈ w, 0 ≤ x) (hband : |w.sum - 1| ≤ 1 / 2 ^ 26) (h0 : 0 ≤ u0) (h1 : u0 < 1)
    (h : systematic n w u0 = some idx) (j : ℕ) (hj : j < w.length) :
    |((idx.count j : ℕ) : ℝ) - n * w[j]| < 1 + n * (1 / 2 ^ 26) := by
  unfold systematic at h
  rw [sum_real] at h
  have hre : renorm w.sum w = w := renorm_id w.sum w hband
  have hj' : j < (renorm w.sum w).length := by rw [hre]; exact hj
  have := C06_syst_count_bound w.sum n w u0 idx hn (by rw [hre]; exact hw0) h0 h1 h j hj'
  have e : (renorm w.sum w)[j] = w[j] := List.getElem_of_eq hre hj'
  rw [e, hre] at this
  have hnpos : (0 : ℝ) ≤ n := Nat.cast_nonneg n
  have := mul_le_mul_of_nonneg_left hband hnpos
  linarith

/-- copies of index `j` as a function of the offset, for a given value `s` of `np.sum(w)`
    (`0` only in the `IndexError` case `w = []`) -/
noncomputable def copiesWith (s : ℝ) (n : ℕ) (w : List ℝ) (j : ℕ) (u : ℝ) : ℝ :=
  match systematicWith s n w u with
  | some idx => (idx.count j : ℝ)
  | none => 0

theorem copies_eq_copiesWith (n : ℕ) (w : List ℝ) (j : ℕ) (u : ℝ) :
    copies n w j u = copiesWith (Sc.sum w) n w j u := rfl

/-- **mean number of copies for every sum**: over a uniform offset, index `j` receives `n·(e_{j+1} − e_j)` copies -/
theorem C06_syst_mean_any_sum (s : ℝ) (n : ℕ) (w : List ℝ) (hn : 1 ≤ n) (hne : w ≠ [])
    (hv0 : ∀ x ∈ renorm s w, 0 ≤ x) (j : ℕ) :
    ∫ u in Set.Ico (0:ℝ) 1, copiesWith s n w j u =
      n * (edge (renorm s w) (j + 1) - edge (renorm s w) j) := by
  have hcongr : Set.EqOn (copiesWith s n w j)
      (fun u => ((⌈n * edge (renorm s w) (j + 1) - u⌉ - ⌈n * edge (renorm s w) j - u⌉ : ℤ) : ℝ))
      (Set.Ico (0:ℝ) 1) := by
    intro u hu
    obtain ⟨c0, t, _, hsome⟩ := systematicWith_some s n w u hne
    have := C06_syst_count_any_sum s n w u _ hn hv0 hu.1 hu.2 hsome j
    simp only [copiesWith, hsome]
    rw [← this]; push_cast; rfl
  rw [setIntegral_congr_fun measurableSet_Ico hcongr, integral_ceil_diff]; ring

/-- the bias of the mean is at most `n·|Σv − 1|` (≤ `n·2^-26` inside the tolerance band) -/
theorem C06_syst_mean_bias_bound (s : ℝ) (n : ℕ) (w : List ℝ) (hn : 1 ≤ n) (hne : w ≠ [])
    (hv0 : ∀ x ∈ renorm s w, 0 ≤ x) (j : ℕ) (hj : j < (renorm s w).length) :
    |(∫ u in Set.Ico (0:ℝ) 1, copiesWith s n w j u) - n * (renorm s w)[j]| ≤ n * |(renorm s w).sum - 1| := by
  rw [C06_syst_mean_any_sum s n w hn hne hv0 j, ← mul_sub, abs_mul, abs_of_nonneg (Nat.cast_nonneg n)]
  exact mul_le_mul_of_nonneg_left (edge_diff_bound _ hv0 j hj) (Nat.cast_nonneg n)

/-- exactly unbiased whenever the effective weights sum to 1 -/
theorem C06_syst_unbiased_eff (s : ℝ) (n : ℕ) (w : List ℝ) (hn : 1 ≤ n) (hne : w ≠ [])
    (hv0 : ∀ x ∈ renorm s w, 0 ≤ x) (hv1 : (renorm s w).sum = 1) (j : ℕ) (hj : j < (renorm s w).length) :
    ∫ u in Set.Ico (0:ℝ) 1, copiesWith s n w j u = n * (renorm s w)[j] := by
  have := C06_syst_mean_bias_bound s n w hn hne hv0 j hj
  rw [hv1, sub_self, abs_zero, mul_zero] at this
  have := abs_nonpos_iff.mp this
  linarith

/-- **unbiasedness in the renormalising branch** (`|Σw − 1| > 2^-26`): mean copies of `j` = `n·w_j/Σw` -/
theorem C06_syst_unbiased_renormalised (n : ℕ) (w : List ℝ) (hn : 1 ≤ n)
    (hw0 : ∀ x ∈ w, 0 ≤ x) (hpos : 0 < w.sum) (hfar : 1 / 2 ^ 26 < |w.sum - 1|) (j : ℕ) (hj : j < w.length) :
    ∫ u in Set.Ico (0:ℝ) 1, copies n w j u = n * (w[j] / w.sum) := by
  have hne : w ≠ [] := by rintro rfl; simp at hj
  have hre := renorm_div w.sum w hfar
  have hv0 : ∀ x ∈ renorm w.sum w, 0 ≤ x := by
    rw [hre]; intro x hx
    obtain ⟨y, hy, rfl⟩ := List.mem_map.mp hx
    exact div_nonneg (hw0 y hy) hpos.le
  have hv1 : (renorm w.sum w).sum = 1 := by rw [hre, sum_map_div, div_self hpos.ne']
  have hj' : j < (renorm w.sum w).length := by rw [renorm_length]; exact hj
  have := C06_syst_unbiased_eff w.sum n w hn hne hv0 hv1 j hj'
  have e : (renorm w.sum w)[j] = w[j] / w.sum := by rw [List.getElem_of_eq hre hj']; simp
  rw [e] at this
  simp only [copies_eq_copiesWith, sum_real]
  exact this

/-- inside the band with a deficit (`Σv ≤ 1`) every index but the capping one (the last of positive weight) is exactly
    unbiased; the capping index absorbs the deficit `n·(1 − Σv)` -/
theorem C06_syst_unbiased_deficit (s : ℝ) (n : ℕ) (w : List ℝ) (hn : 1 ≤ n) (hne : w ≠ [])
    (hv0 : ∀ x ∈ renorm s w, 0 ≤ x) (hv1 : (renorm s w).sum ≤ 1) (j : ℕ) (hj : j < (renorm s w).length) :
    ∫ u in Set.Ico (0:ℝ) 1, copiesWith s n w j u =
      if j = lastPositive (renorm s w) then n * (renorm s w)[j] + n * (1 - (renorm s w).sum)
      else n * (renorm s w)[j] := by
  rw [C06_syst_mean_any_sum s n w hn hne hv0 j]
  have hP : ∀ k, P (renorm s w) k ≤ 1 := fun k => le_trans (P_le_sum _ hv0 k) hv1
  have hPj := P_succ (renorm s w) j hj
  split
  · rename_i hjL
    have hj0 : j ≤ lastPositive (renorm s w) := by omega
    have hj1 : ¬ j + 1 ≤ lastPositive (renorm s w) := by omega
    have hS : P (renorm s w) (j + 1) = (renorm s w).sum := P_after_last _ hv0 (j + 1) (by omega)
    simp only [edge, hj0, hj1, if_true, if_false, min_eq_left (hP _)]
    rw [← hS, hPj]; ring
  · rename_i hjL
    by_cases hj1 : j + 1 ≤ lastPositive (renorm s w)
    · have hj0 : j ≤ lastPositive (renorm s w) := by omega
      simp only [edge, hj0, hj1, if_true, min_eq_left (hP _)]
      rw [hPj]; ring
    · have hj0 : ¬ j ≤ lastPositive (renorm s w) := by omega
      simp only [edge, hj0, hj1, if_false]
      rw [tail_zero _ hv0 j (by omega) hj]; ring

/-! ### multinomial scheme: inverse-cdf lookup -/

theorem cumsumFrom_length {α : Type} [Sc α] (acc : α) (xs : List α) :
    (cumsumFrom acc xs).length = xs.length := by
  induction xs generalizing acc with
  | nil => simp [cumsumFrom]
  | cons x xs ih => simp [cumsumFrom, ih]

theorem cumsum_length {α : Type} [Sc α] (w : List α) : (cumsum w).length = w.length := by
  cases w with
  | nil => simp [cumsum]
  | cons x xs => simp [cumsum, cumsumFrom_length]

/-- exactly one index per uniform draw (any scalar type) -/
theorem C06_mult_length {α : Type} [Sc α] (w us : List α) (idx : List ℕ)
    (h : multinomial w us = some idx) : idx.length = us.length := by
  unfold multinomial at h
  cases hc : normCdf w with
  | none => rw [hc] at h; cases h
  | some cdf => rw [hc] at h; simp at h; subst h; simp

theorem cumsumFrom_getElem_some (acc : ℝ) (xs : List ℝ) (k : ℕ) (hk : k < xs.length) :
    (cumsumFrom acc xs)[k]? = some (acc + (xs.take (k + 1)).sum) := by
  induction xs generalizing acc k with
  | nil => simp at hk
  | cons x xs ih =>
    cases k with
    | zero => simp [cumsumFrom]
    | succ k =>
      simp only [cumsumFrom, List.getElem?_cons_succ]
      rw [ih _ k (by simpa using hk)]
      simp [add_assoc]

theorem cumsum_getElem_some (w : List ℝ) (k : ℕ) (hk : k < w.length) :
    (cumsum w)[k]? = some (P w (k + 1)) := by
  cases w with
  | nil => simp at hk
  | cons x xs =>
    cases k with
    | zero => simp [cumsum, P]
    | succ k =>
      simp only [cumsum, List.getElem?_cons_succ]
      rw [cumsumFrom_getElem_some _ _ k (by simpa using hk)]
      simp [P]

theorem cumsum_eq (w : List ℝ) : cumsum w = (List.range w.length).map (fun k => P w (k + 1)) := by
  apply List.ext_getElem?
  intro k
  by_cases hk : k < w.length
  · rw [cumsum_getElem_some w k hk]; simp [hk]
  · have h1 : (cumsum w).length ≤ k := by rw [cumsum_length]; omega
    rw [List.getElem?_eq_none h1, List.getElem?_eq_none (by simp; omega)]

/-- `cdf = cumsum p; cdf /= cdf[-1]` is the list of `C_k / Σw` -/
theorem normCdf_real (w : List ℝ) (hne : w ≠ []) :
    normCdf w = some ((List.range w.length).map (fun k => P w (k + 1) / w.sum)) := by
  have hlen : 0 < w.length := List.length_pos_iff.mpr hne
  have hlast : (cumsum w).getLast? = some w.sum := by
    rw [List.getLast?_eq_getElem?, cumsum_length, cumsum_getElem_some w (w.length - 1) (by omega),
      Nat.sub_add_cancel hlen, P_length]
  unfold normCdf
  simp only [hlast]
  rw [cumsum_eq]
  simp [List.map_map, Function.comp_def]

/-- `searchsorted(side='right')` on the normalised cdf, as a count over `range` -/
theorem searchsorted_real (w : List ℝ) (u : ℝ) :
    searchsortedRight ((List.range w.length).map (fun k => P w (k + 1) / w.sum)) u =
      (List.range w.length).countP (fun k => decide (P w (k + 1) / w.sum ≤ u)) := by
  unfold searchsortedRight
  rw [List.countP_map]
  apply List.countP_congr
  intro k _
  simp

theorem cdf_mono (w : List ℝ) (hw0 : ∀ x ∈ w, 0 ≤ x) (hpos : 0 < w.sum) :
    Monotone (fun k => P w (k + 1) / w.sum) := by
  intro a b hab
  exact div_le_div_of_nonneg_right (P_mono w hw0 (by omega)) hpos.le

/-- a draw `u ∈ [0,1)` is mapped to a valid index -/
theorem mult_index_range (w : List ℝ) (hw0 : ∀ x ∈ w, 0 ≤ x) (hpos : 0 < w.sum) (u : ℝ) (hu1 : u < 1) :
    searchsortedRight ((List.range w.length).map (fun k => P w (k + 1) / w.sum)) u < w.length := by
  rw [searchsorted_real]
  obtain ⟨h1, h2, _⟩ := countP_mono_range _ (cdf_mono w hw0 hpos) u w.length
  by_contra hge
  have hne : w ≠ [] := by rintro rfl; simp at hpos
  have hlen : 0 < w.length := List.length_pos_iff.mpr hne
  have := h2 (w.length - 1) (by omega)
  simp only [Nat.sub_add_cancel hlen, P_length, div_self hpos.ne'] at this
  linarith

/-- a draw `u ∈ [0,1)` is mapped to `i` exactly when `C_{i−1}/Σw ≤ u < C_i/Σw` -/
theorem mult_index_cell (w : List ℝ) (hw0 : ∀ x ∈ w, 0 ≤ x) (hpos : 0 < w.sum) (u : ℝ) (hu0 : 0 ≤ u)
    (i : ℕ) (hi : i < w.length) :
    searchsortedRight ((List.range w.length).map (fun k => P w (k + 1) / w.sum)) u = i ↔
      (P w i / w.sum ≤ u ∧ u < P w (i + 1) / w.sum) := by
  rw [searchsorted_real]
  have hmono := cdf_mono w hw0 hpos
  obtain ⟨h1, h2, h3⟩ := countP_mono_range _ hmono u w.length
  constructor
  · intro hc
    rw [hc] at h2 h3
    refine ⟨?_, h3 hi⟩
    rcases Nat.eq_zero_or_pos i with h0 | hp
    · rw [h0, P_zero]; simpa using hu0
    · have := h2 (i - 1) (by omega)
      simpa [Nat.sub_add_cancel hp] using this
  · rintro ⟨ha, hb⟩
    rcases lt_trichotomy ((List.range w.length).countP
        (fun k => decide (P w (k + 1) / w.sum ≤ u))) i with hlt | heq | hgt
    · exfalso
      have hu := h3 (by omega)
      have hm : P w ((List.range w.length).countP (fun k => decide (P w (k + 1) / w.sum ≤ u)) + 1) / w.sum
          ≤ P w i / w.sum := div_le_div_of_nonneg_right (P_mono w hw0 (by omega)) hpos.le
      linarith
    · exact heq
    · exfalso; have := h2 i hgt; linarith

theorem multinomial_real (w us : List ℝ) (idx : List ℕ) (h : multinomial w us = some idx) :
    w ≠ [] ∧ idx = us.map (searchsortedRight ((List.range w.length).map (fun k => P w (k + 1) / w.sum))) := by
  have hne : w ≠ [] := by
    rintro rfl; simp [multinomial, normCdf, cumsum] at h
  refine ⟨hne, ?_⟩
  unfold multinomial at h
  rw [normCdf_real w hne] at h
  simpa using h.symm

/-- every multinomial index is a valid index into the weight vector -/
theorem C06_mult_range (w us : List ℝ) (idx : List ℕ) (hw0 : ∀ x ∈ w, 0 ≤ x) (hpos : 0 < w.sum)
    (hus : ∀ u ∈ us, 0 ≤ u ∧ u < 1) (h : multinomial w us = some idx) : ∀ r ∈ idx, r < w.length := by
  obtain ⟨_, rfl⟩ := multinomial_real w us idx h
  intro r hr
  obtain ⟨u, hu, rfl⟩ := List.mem_map.mp hr
  exact mult_index_range w hw0 hpos u (hus u hu).2

/-- **cell law**: the `k`-th draw `u` yields index `i` exactly when `cdf_{i−1} ≤ u < cdf_i` for the
    normalised cdf `cdf_i = C_i/Σw` (`cdf_{−1} = 0`) -/
theorem C06_mult_cell (w us : List ℝ) (idx : List ℕ) (hw0 : ∀ x ∈ w, 0 ≤ x) (hpos : 0 < w.sum)
    (hus : ∀ u ∈ us, 0 ≤ u ∧ u < 1) (h : multinomial w us = some idx)
    (k : ℕ) (hk : k < us.length) (hk' : k < idx.length) (i : ℕ) (hi : i < w.length) :
    idx[k] = i ↔ (P w i / w.sum ≤ us[k] ∧ us[k] < P w (i + 1) / w.sum) := by
  obtain ⟨_, rfl⟩ := multinomial_real w us idx h
  rw [List.getElem_map]
  exact mult_index_cell w hw0 hpos us[k] (hus _ (List.getElem_mem hk)).1 i hi

/-- the cell of index `i` has length `w_i/Σw`: a uniform draw hits it with that probability, so `n` draws give
    `n·w_i/Σw` expected copies -/
theorem C06_mult_cell_length (w : List ℝ) (i : ℕ) (hi : i < w.length) :
    P w (i + 1) / w.sum - P w i / w.sum = w[i] / w.sum := by
  rw [P_succ w i hi]; ring

/-- **unbiasedness of the multinomial scheme**: one uniform draw yields index `i` with probability `w_i/Σw`
    (Lebesgue measure of its cell), so `n` independent draws give `n·w_i/Σw` expected copies -/
theorem C06_mult_unbiased_integral (w : List ℝ) (hw0 : ∀ x ∈ w, 0 ≤ x) (hpos : 0 < w.sum)
    (i : ℕ) (hi : i < w.length) :
    ∫ u in Set.Ico (0:ℝ) 1, (if multinomial w [u] = some [i] then (1:ℝ) else 0) = w[i] / w.sum := by
  have hne : w ≠ [] := by rintro rfl; simp at hi
  have hlo : 0 ≤ P w i / w.sum := div_nonneg (P_nonneg w hw0 i) hpos.le
  have hhi : P w (i + 1) / w.sum ≤ 1 := by
    rw [div_le_one hpos]; exact P_le_sum w hw0 _
  have hle : P w i / w.sum ≤ P w (i + 1) / w.sum :=
    div_le_div_of_nonneg_right (P_mono w hw0 (Nat.le_succ i)) hpos.le
  have hcongr : Set.EqOn (fun u : ℝ => if multinomial w [u] = some [i] then (1:ℝ) else 0)
      ((Set.Ico (P w i / w.sum) (P w (i + 1) / w.sum)).indicator (fun _ => (1:ℝ))) (Set.Ico (0:ℝ) 1) := by
    intro u hu
    have hm : multinomial w [u] = some [searchsortedRight
        ((List.range w.length).map (fun k => P w (k + 1) / w.sum)) u] := by
      unfold multinomial; rw [normCdf_real w hne]; simp
    have hcell := mult_index_cell w hw0 hpos u hu.1 i hi
    simp only [hm, Set.indicator, Set.mem_Ico]
    by_cases hc : P w i / w.sum ≤ u ∧ u < P w (i + 1) / w.sum
    · have := hcell.mpr hc
      simp [this, hc]
    · have : ¬ searchsortedRight ((List.range w.length).map (fun k => P w (k + 1) / w.sum)) u = i :=
        fun e => hc (hcell.mp e)
      simp [this, hc]
  rw [setIntegral_congr_fun measurableSet_Ico hcongr, setIntegral_indicator measurableSet_Ico]
  have : Set.Ico (0:ℝ) 1 ∩ Set.Ico (P w i / w.sum) (P w (i + 1) / w.sum)
      = Set.Ico (P w i / w.sum) (P w (i + 1) / w.sum) := by
    ext x; simp only [Set.mem_inter_iff, Set.mem_Ico]; constructor
    · rintro ⟨_, h⟩; exact h
    · rintro ⟨h1, h2⟩; exact ⟨⟨le_trans hlo h1, lt_of_lt_of_le h2 hhi⟩, h1, h2⟩
  rw [this, setIntegral_const, Real.volume_real_Ico_of_le hle, ← C06_mult_cell_length w i hi]; simp

/-! ### multinomial scheme: `n` independent draws -/

/-- copies of index `i` among the indices drawn for the uniforms `us` (`0` only for the empty weight vector) -/
noncomputable def multCopies (w : List ℝ) (i : ℕ) (us : List ℝ) : ℝ :=
  match multinomial w us with
  | some idx => (idx.count i : ℝ)
  | none => 0

/-- the number of copies of `i` is the number of draws that fall into its cell -/
theorem C06_mult_count (w us : List ℝ) (idx : List ℕ) (hw0 : ∀ x ∈ w, 0 ≤ x) (hpos : 0 < w.sum)
    (hus : ∀ u ∈ us, 0 ≤ u) (h : multinomial w us = some idx) (i : ℕ) (hi : i < w.length) :
    idx.count i = us.countP (fun u => decide (P w i / w.sum ≤ u ∧ u < P w (i + 1) / w.sum)) := by
  obtain ⟨_, rfl⟩ := multinomial_real w us idx h
  rw [List.count_eq_countP, List.countP_map]
  apply List.countP_congr
  intro u hu
  simp only [Function.comp, beq_iff_eq, decide_eq_true_eq]
  exact mult_index_cell w hw0 hpos u (hus u hu) i hi

theorem multinomial_single (w : List ℝ) (hne : w ≠ []) (u : ℝ) :
    multinomial w [u] = some [searchsortedRight ((List.range w.length).map (fun k => P w (k + 1) / w.sum)) u] := by
  unfold multinomial; rw [normCdf_real w hne]; simp

/-- `multCopies` is the sum over the draws of the 0/1 indicator "this draw gave `i`" -/
theorem multCopies_eq_sum (w : List ℝ) (hne : w ≠ []) (i : ℕ) (us : List ℝ) :
    multCopies w i us = (us.map (fun u => if multinomial w [u] = some [i] then (1:ℝ) else 0)).sum := by
  classical
  have hm : multinomial w us = some (us.map
      (searchsortedRight ((List.range w.length).map (fun k => P w (k + 1) / w.sum)))) := by
    unfold multinomial; rw [normCdf_real w hne]; simp
  simp only [multCopies, hm]
  rw [List.count_eq_countP, List.countP_map]
  have := countP_eq_sum_map (fun u => multinomial w [u] = some [i]) us
  rw [← this]
  congr 2
  funext u
  simp only [multinomial_single w hne u, Function.comp, Option.some.injEq, List.cons.injEq, and_true]
  exact (Bool.eq_iff_iff.mpr (by simp))

/-- **expected number of copies, multinomial scheme**: for `n` independent uniform draws the mean number of copies
    of index `i` is `n·w_i/Σw` (product Lebesgue measure on `[0,1)^n`) -/
theorem C06_mult_expected_copies (w : List ℝ) (hw0 : ∀ x ∈ w, 0 ≤ x) (hpos : 0 < w.sum) (n : ℕ)
    (i : ℕ) (hi : i < w.length) :
    ∫ us : Fin n → ℝ, multCopies w i (List.ofFn us)
        ∂(Measure.pi fun _ : Fin n => volume.restrict (Set.Ico (0:ℝ) 1)) = n * (w[i] / w.sum) := by
  have hne : w ≠ [] := by rintro rfl; simp at hi
  set μ := volume.restrict (Set.Ico (0:ℝ) 1) with hμ
  set F : ℝ → ℝ := fun u => if multinomial w [u] = some [i] then (1:ℝ) else 0 with hF
  -- F is a.e. the indicator of the cell
  have hae : F =ᵐ[μ] (Set.Ico (P w i / w.sum) (P w (i + 1) / w.sum)).indicator (fun _ => (1:ℝ)) := by
    filter_upwards [ae_restrict_mem measurableSet_Ico] with u hu
    have hcell := mult_index_cell w hw0 hpos u hu.1 i hi
    simp only [hF, multinomial_single w hne u, Set.indicator, Set.mem_Ico]
    by_cases hc : P w i / w.sum ≤ u ∧ u < P w (i + 1) / w.sum
    · simp [hcell.mpr hc, hc]
    · have : ¬ searchsortedRight ((List.range w.length).map (fun k => P w (k + 1) / w.sum)) u = i :=
        fun e => hc (hcell.mp e)
      simp [this, hc]
  have hFm : AEStronglyMeasurable F μ :=
    ((stronglyMeasurable_const.indicator measurableSet_Ico).aestronglyMeasurable).congr hae.symm
  have hFint : ∫ t, F t ∂μ = w[i] / w.sum := C06_mult_unbiased_integral w hw0 hpos i hi
  have hsum : ∀ us : Fin n → ℝ, multCopies w i (List.ofFn us) = ∑ k : Fin n, F (us k) := by
    intro us
    rw [multCopies_eq_sum w hne i, List.map_ofFn, List.sum_ofFn]
    rfl
  simp only [hsum]
  have hint : ∀ k ∈ (Finset.univ : Finset (Fin n)),
      Integrable (fun us : Fin n → ℝ => F (us k)) (Measure.pi fun _ : Fin n => μ) := by
    intro k _
    have hmp := measurePreserving_eval (μ := fun _ : Fin n => μ) k
    refine Integrable.of_bound (hFm.comp_measurePreserving hmp) 1 ?_
    refine Filter.Eventually.of_forall (fun us => ?_)
    simp only [hF]; split <;> simp
  rw [integral_finsetSum _ hint]
  simp only [integral_pi_eval μ F hFm, hFint]
  simp

/-! ### non-vacuity: the hypotheses are met by concrete inputs, and the model computes what the code does -/

/-- the docstring-sized example: `n = 4`, `w = [1/2, 1/4, 1/4]`, `u0 = 1/2` gives `[0, 0, 1, 2]` -/
theorem example_run : systematic 4 ([1/2, 1/4, 1/4] : List ℝ) (1/2) = some [0, 0, 1, 2] := by
  have hr : List.range 4 = [0, 1, 2, 3] := by decide
  simp [systematic, systematicWith, renorm, Sc.sum, ScReal.abs_def, hr, run, position]
  norm_num [advance.eq_def, Sc.ge, sqrtEps_real]

example : ([0, 0, 1, 2] : List ℕ).length = 4 :=
  C06_syst_length (α := ℝ) _ 4 [1/2, 1/4, 1/4] (1/2) _ example_run
example : ∀ r ∈ ([0, 0, 1, 2] : List ℕ), r < 3 :=
  C06_syst_range (α := ℝ) _ 4 [1/2, 1/4, 1/4] (1/2) _ example_run
example : ([0, 0, 1, 2] : List ℕ).Pairwise (· ≤ ·) :=
  C06_syst_monotone (α := ℝ) _ 4 [1/2, 1/4, 1/4] (1/2) _ example_run
example : List.Forall₂ (fun (i : ℕ) r => Cover (renorm (Sc.sum ([1/2, 1/4, 1/4] : List ℝ)) [1/2, 1/4, 1/4])
    ((1/2 + i) / (4 : ℕ)) r) (List.range 4) [0, 0, 1, 2] :=
  C06_syst_spec _ 4 [1/2, 1/4, 1/4] (1/2) _ example_run
example : ((([0, 0, 1, 2] : List ℕ).count 0 : ℕ) : ℤ) = ⌊((4 : ℕ) : ℝ) * (1/2)⌋ ∨
    ((([0, 0, 1, 2] : List ℕ).count 0 : ℕ) : ℤ) = ⌈((4 : ℕ) : ℝ) * (1/2)⌉ := by
  have := C06_syst_floor_ceil 4 [1/2, 1/4, 1/4] (1/2) _ (by norm_num)
    (by intro x hx; simp at hx; rcases hx with rfl | rfl | rfl <;> norm_num) (by norm_num) (by norm_num) (by norm_num)
    example_run 0 (by simp)
  simpa using this

/-- offset 0 (a value `numpy.random.random()` can return): position 0 goes to the first index with positive weight -/
example : systematic 1 ([0, 1] : List ℝ) 0 = some [1] := by
  have hr : List.range 1 = [0] := by decide
  simp [systematic, systematicWith, renorm, Sc.sum, ScReal.abs_def, hr, run, position]
  norm_num [advance.eq_def, Sc.ge, sqrtEps_real]

example : systematic 2 ([1/2, 1/2] : List ℝ) 0 = some [0, 1] := by
  have hr : List.range 2 = [0, 1] := by decide
  simp [systematic, systematicWith, renorm, Sc.sum, ScReal.abs_def, hr, run, position]
  norm_num [advance.eq_def, Sc.ge, sqrtEps_real]

/-- renormalising branch: `Σw = 2` -/
example : systematic 2 ([1, 1] : List ℝ) (1/2) = some [0, 1] := by
  have hr : List.range 2 = [0, 1] := by decide
  have hs : (sqrtEps : ℝ) < 1 := by rw [sqrtEps_real]; norm_num
  simp [systematic, systematicWith, renorm, Sc.sum, ScReal.abs_def, hr, run, position]
  norm_num [hs]
  norm_num [advance.eq_def, Sc.ge]

/-- the tolerance-band witness (known finding F20): `w = [2^-30, 1]`, `n = 2`, `u0 = 0` gives `[0, 1]` -/
theorem example_band_run : systematic 2 ([1 / 2 ^ 30, 1] : List ℝ) 0 = some [0, 1] := by
  have hr : List.range 2 = [0, 1] := by decide
  have hs : ¬ ((sqrtEps : ℝ) < |(1 / 2 ^ 30 + 1 : ℝ) - 1|) := by
    rw [sqrtEps_real]; norm_num [abs_le]
  simp only [systematic, systematicWith, renorm, Sc.sum, List.foldl, ScReal.abs_def, ScReal.add_def,
    ScReal.sub_def, ScReal.zero_def, ScReal.one_def, zero_add, Sc.gt, ScReal.lt_def, hs]
  simp [hr, run, position]
  norm_num [advance.eq_def, Sc.ge]

theorem example_band_hyp : (∀ x ∈ ([1 / 2 ^ 30, 1] : List ℝ), 0 ≤ x) ∧
    |([1 / 2 ^ 30, 1] : List ℝ).sum - 1| ≤ 1 / 2 ^ 26 := by
  constructor
  · intro x hx; simp at hx; rcases hx with rfl | rfl <;> norm_num
  · norm_num [abs_le]

/-- the hypothesis `Σw = 1` of the floor/ceil law cannot be relaxed to the tolerance band the routine accepts:
    `w = [2^-30, 1]` (sum `1 + 2^-30`, no renormalisation), `n = 2`, `u0 = 0` gives `[0, 1]`, so index 1 is copied
    once although `n·w_1 = 2`. -/
theorem C06_syst_floor_ceil_needs_exact_sum :
    ∃ (n : ℕ) (w : List ℝ) (u0 : ℝ) (idx : List ℕ), 1 ≤ n ∧ (∀ x ∈ w, 0 ≤ x) ∧ |w.sum - 1| ≤ 1 / 2 ^ 26 ∧
      0 ≤ u0 ∧ u0 < 1 ∧ systematic n w u0 = some idx ∧
      ∃ (j : ℕ) (hj : j < w.length), (idx.count j : ℤ) ≠ ⌊n * w[j]⌋ ∧ (idx.count j : ℤ) ≠ ⌈n * w[j]⌉ := by
  refine ⟨2, [1 / 2 ^ 30, 1], 0, [0, 1], by norm_num, example_band_hyp.1, example_band_hyp.2, le_refl _,
    by norm_num, example_band_run, 1, by simp, ?_, ?_⟩
  · norm_num
  · norm_num

/-- … while the quantitative law does hold there (and is nearly attained: `|1 − 2| < 1 + 2·2^-26`) -/
example : |(((([0, 1] : List ℕ).count 1 : ℕ) : ℝ)) - ((2 : ℕ) : ℝ) * ([1 / 2 ^ 30, 1] : List ℝ)[1]|
    < 1 + ((2 : ℕ) : ℝ) * (1 / 2 ^ 26) :=
  C06_syst_count_tolerance_band 2 [1 / 2 ^ 30, 1] 0 [0, 1] (by norm_num) example_band_hyp.1 example_band_hyp.2
    (le_refl _) (by norm_num) example_band_run 1 (by simp)

example : ((([0, 1] : List ℕ).count 1 : ℕ) : ℤ) =
    ⌈((2 : ℕ) : ℝ) * edge (renorm (Sc.sum ([1 / 2 ^ 30, 1] : List ℝ)) [1 / 2 ^ 30, 1]) 2 - 0⌉ -
    ⌈((2 : ℕ) : ℝ) * edge (renorm (Sc.sum ([1 / 2 ^ 30, 1] : List ℝ)) [1 / 2 ^ 30, 1]) 1 - 0⌉ :=
  C06_syst_count_any_sum _ 2 [1 / 2 ^ 30, 1] 0 [0, 1] (by norm_num)
    (by rw [sum_real, renorm_id _ _ example_band_hyp.2]; exact example_band_hyp.1) (le_refl _) (by norm_num)
    example_band_run 1

/-- mean number of copies inside the band: bias at most `n·|Σw − 1|` -/
example : |(∫ u in Set.Ico (0:ℝ) 1, copiesWith ([1 / 2 ^ 30, 1] : List ℝ).sum 2 [1 / 2 ^ 30, 1] 1 u)
      - ((2 : ℕ) : ℝ) * (renorm ([1 / 2 ^ 30, 1] : List ℝ).sum [1 / 2 ^ 30, 1])[1]'(by simp [renorm_length])|
    ≤ ((2 : ℕ) : ℝ) * |(renorm ([1 / 2 ^ 30, 1] : List ℝ).sum [1 / 2 ^ 30, 1]).sum - 1| :=
  C06_syst_mean_bias_bound _ 2 [1 / 2 ^ 30, 1] (by norm_num) (by simp)
    (by rw [renorm_id _ _ example_band_hyp.2]; exact example_band_hyp.1) 1 (by simp [renorm_length])

/-- renormalising branch, `Σw = 2`: mean copies of index 0 are `2·(1/2)` -/
example : ∫ u in Set.Ico (0:ℝ) 1, copies 2 ([1, 1] : List ℝ) 0 u = ((2 : ℕ) : ℝ) * (1 / (1 + (1 + 0))) := by
  have := C06_syst_unbiased_renormalised 2 [1, 1] (by norm_num)
    (by intro x hx; simp at hx; subst hx; norm_num) (by norm_num) (by norm_num) 0 (by simp)
  simpa using this

example : multinomial ([1/2, 1/4, 1/4] : List ℝ) [0, 1/2, 3/4, 7/8, 1/3] = some [0, 1, 2, 2, 0] := by
  simp [multinomial, normCdf, cumsum, cumsumFrom, searchsortedRight, List.countP_cons]
  norm_num

example : ∫ u in Set.Ico (0:ℝ) 1, copies 4 ([1/2, 1/4, 1/4] : List ℝ) 0 u = ((4:ℕ):ℝ) * (1/2) := by
  have := C06_syst_unbiased_integral 4 [1/2, 1/4, 1/4] (by norm_num)
    (by intro x hx; simp at hx; rcases hx with rfl | rfl | rfl <;> norm_num) (by norm_num) 0 (by simp)
  simpa using this

example : ∫ u in Set.Ico (0:ℝ) 1, (if multinomial ([1/2, 1/4, 1/4] : List ℝ) [u] = some [1] then (1:ℝ) else 0)
    = (1/4) / (1/2 + (1/4 + (1/4 + 0))) := by
  have := C06_mult_unbiased_integral [1/2, 1/4, 1/4]
    (by intro x hx; simp at hx; rcases hx with rfl | rfl | rfl <;> norm_num) (by norm_num) 1 (by simp)
  simpa using this

example : ([0, 1, 2, 2, 0] : List ℕ).count 2 =
    ([0, 1/2, 3/4, 7/8, 1/3] : List ℝ).countP (fun u => decide
      (P [1/2, 1/4, 1/4] 2 / ([1/2, 1/4, 1/4] : List ℝ).sum ≤ u ∧ u < P [1/2, 1/4, 1/4] 3 / ([1/2, 1/4, 1/4] : List ℝ).sum)) :=
  C06_mult_count [1/2, 1/4, 1/4] [0, 1/2, 3/4, 7/8, 1/3] [0, 1, 2, 2, 0]
    (by intro x hx; simp at hx; rcases hx with rfl | rfl | rfl <;> norm_num) (by norm_num)
    (by intro u hu; simp at hu; rcases hu with rfl | rfl | rfl | rfl | rfl <;> norm_num)
    (by simp [multinomial, normCdf, cumsum, cumsumFrom, searchsortedRight, List.countP_cons]; norm_num) 2 (by simp)

/-- five independent draws: `5 · (1/4)/1` expected copies of index 1 -/
example : ∫ us : Fin 5 → ℝ, multCopies ([1/2, 1/4, 1/4] : List ℝ) 1 (List.ofFn us)
      ∂(Measure.pi fun _ : Fin 5 => volume.restrict (Set.Ico (0:ℝ) 1))
    = ((5 : ℕ) : ℝ) * (([1/2, 1/4, 1/4] : List ℝ)[1] / ([1/2, 1/4, 1/4] : List ℝ).sum) :=
  C06_mult_expected_copies [1/2, 1/4, 1/4]
    (by intro x hx; simp at hx; rcases hx with rfl | rfl | rfl <;> norm_num) (by norm_num) 5 1 (by simp)

example : npSum ([1/2, 1/4, 1/8, 1/16, 1/32, 1/64, 1/128, 1/256, 1/256] : List ℝ) = 1 := by
  rw [npSum_real]; norm_num

/-! ### the callers: `Resampler.run` and `compute_posterior(resample=True)` -/

/-- `Resampler.run` (any scalar type): when it resamples, the systematic scheme hands the gather exactly `n_particles`
    indices, each valid for the weight vector, in non-decreasing order — whatever the weights, `np.sum`, offset -/
theorem C06_run_syst {α : Type} [Sc α] (n : ℕ) (w : List α) (u0 : α) (us : List α) (idx : List ℕ)
    (h : resamplerRun false Scheme.syst n w u0 us = RunResult.indices idx) :
    idx.length = n ∧ (∀ r ∈ idx, r < w.length) ∧ idx.Pairwise (· ≤ ·) := by
  unfold resamplerRun at h
  simp only [Bool.false_eq_true, if_false] at h
  cases hs : systematicNp n w u0 with
  | none => rw [hs] at h; cases h
  | some l =>
    rw [hs] at h
    injection h with h; subst h
    exact ⟨C06_syst_length _ n w u0 _ hs, C06_syst_range _ n w u0 _ hs, C06_syst_monotone _ n w u0 _ hs⟩

/-- `Resampler.run`, multinomial scheme: one index per uniform the generator supplied (`size = n_particles` of them) -/
theorem C06_run_mult_length {α : Type} [Sc α] (n : ℕ) (w : List α) (u0 : α) (us : List α) (idx : List ℕ)
    (hn : us.length = n) (h : resamplerRun false Scheme.mult n w u0 us = RunResult.indices idx) :
    idx.length = n := by
  unfold resamplerRun at h
  simp only [Bool.false_eq_true, if_false] at h
  cases hs : multinomial w us with
  | none => rw [hs] at h; cases h
  | some l =>
    rw [hs] at h
    injection h with h; subst h
    rw [C06_mult_length w us _ hs, hn]

theorem C06_run_mult_range (n : ℕ) (w : List ℝ) (u0 : ℝ) (us : List ℝ) (idx : List ℕ)
    (hw0 : ∀ x ∈ w, 0 ≤ x) (hpos : 0 < w.sum) (hus : ∀ u ∈ us, 0 ≤ u ∧ u < 1)
    (h : resamplerRun false Scheme.mult n w u0 us = RunResult.indices idx) : ∀ r ∈ idx, r < w.length := by
  unfold resamplerRun at h
  simp only [Bool.false_eq_true, if_false] at h
  cases hs : multinomial w us with
  | none => rw [hs] at h; cases h
  | some l =>
    rw [hs] at h
    injection h with h; subst h
    exact C06_mult_range w us _ hw0 hpos hus hs

/-- `Resampler.run` never fails on a non-empty weight vector with a valid scheme, and resamples iff `beta ≠ 0` -/
theorem C06_run_total {α : Type} [Sc α] (b : Bool) (n : ℕ) (w : List α) (u0 : α) (us : List α) (hw : w ≠ []) :
    (resamplerRun b Scheme.syst n w u0 us = RunResult.skipped ↔ b = true) ∧
    (b = false → ∃ idx, resamplerRun b Scheme.syst n w u0 us = RunResult.indices idx) := by
  constructor
  · constructor
    · intro h
      by_contra hb
      have hb' : b = false := by simpa using hb
      subst hb'
      obtain ⟨c0, t, _, h2⟩ := systematicWith_some (npSum w) n w u0 hw
      simp only [resamplerRun, systematicNp, h2] at h
      simp at h
    · rintro rfl; simp [resamplerRun]
  · rintro rfl
    obtain ⟨c0, t, _, h2⟩ := systematicWith_some (npSum w) n w u0 hw
    exact ⟨_, by simp only [resamplerRun, systematicNp, h2]; rfl⟩

/-- `compute_posterior(resample=True)`: as many indices as there are weights, all valid, non-decreasing -/
theorem C06_posterior_resample {α : Type} [Sc α] (w : List α) (u0 : α) (idx : List ℕ)
    (h : posteriorResample w u0 = some idx) :
    idx.length = w.length ∧ (∀ r ∈ idx, r < w.length) ∧ idx.Pairwise (· ≤ ·) :=
  ⟨C06_syst_length _ _ w u0 _ h, C06_syst_range _ _ w u0 _ h, C06_syst_monotone _ _ w u0 _ h⟩

/-- over `ℝ` the callers' index vectors are those of `systematic`, so the count law and unbiasedness apply verbatim -/
theorem posteriorResample_real (w : List ℝ) (u0 : ℝ) : posteriorResample w u0 = systematic w.length w u0 :=
  systematicNp_real _ w u0

theorem example_resampler_run :
    resamplerRun false Scheme.syst 4 ([1/2, 1/4, 1/4] : List ℝ) (1/2) [] = RunResult.indices [0, 0, 1, 2] := by
  simp only [resamplerRun, systematicNp_real, example_run]; rfl

example : ([0, 0, 1, 2] : List ℕ).length = 4 ∧ (∀ r ∈ ([0, 0, 1, 2] : List ℕ), r < 3) ∧
    ([0, 0, 1, 2] : List ℕ).Pairwise (· ≤ ·) :=
  C06_run_syst (α := ℝ) 4 [1/2, 1/4, 1/4] (1/2) [] _ example_resampler_run

end Props.C06
