import TempestVerif.Props.C03InvD
import TempestVerif.Lemmas.FoldPush
import Mathlib.Tactic
/-
  C03, clauses 7 and 9 (periodic coordinates, and periodic mixed with hard coordinates) — RWM, any dimension, correlated
  proposals: the law of one step of the executable list model leaves the tempered target invariant.  The proposal density after
  `% 1.0` is the sum over the integer translates (`Lemmas.FoldPush.map_foldP_withDensity`) — no longer a textbook hypothesis.
-/
set_option linter.unusedSimpArgs false
set_option linter.unusedVariables false
namespace Props.C03
open Real MeasureTheory ProbabilityTheory Set Model.Kernel Lemmas.MHKernel Matrix Lemmas.GaussianPi Lemmas.CholFactor
open Lemmas.FoldPush
open Lemmas.GaussJordan (matOf)
open scoped ENNReal NNReal

variable {d : ℕ}

/-- the periodic coordinates named by the list `per` of `apply_boundary_conditions` -/
def perSet (per : List Nat) : Finset (Fin d) := Finset.univ.filter fun i => i.val ∈ per

theorem mem_perSet (per : List Nat) (i : Fin d) : i ∈ perSet (d := d) per ↔ i.val ∈ per := by simp [perSet]

theorem periodic_eq_fract (x : ℝ) : Model.Boundary.periodic x = Int.fract x := by
  simp only [Model.Boundary.periodic, ScReal.sub_def, ScReal.floor_def]
  exact Int.self_sub_floor x

theorem modify_ofFn (g : V d) (i : Nat) (f : ℝ → ℝ) :
    (List.ofFn g).modify i f = List.ofFn fun j : Fin d => if j.val = i then f (g j) else g j := by
  apply List.ext_getElem?
  intro k
  rw [List.getElem?_modify, List.getElem?_ofFn, List.getElem?_ofFn]
  by_cases hk : k < d
  · simp only [hk, dite_true, Option.map_some]
    by_cases hik : i = k
    · subst hik; simp
    · have : ¬ k = i := fun h => hik h.symm
      simp [hik, this]
  · simp [hk]

theorem foldl_periodic_ofFn (per : List Nat) : ∀ g : V d,
    per.foldl (fun v i => v.modify i Model.Boundary.periodic) (List.ofFn g)
      = List.ofFn fun j : Fin d => if j.val ∈ per then Int.fract (g j) else g j := by
  induction per with
  | nil => intro g; simp
  | cons i rest ih =>
    intro g
    rw [List.foldl_cons, modify_ofFn, ih]
    congr 1
    funext j
    by_cases hji : j.val = i
    · by_cases hr : j.val ∈ rest
      · have hi : i ∈ rest := hji ▸ hr
        simp only [hji, hr, hi, if_true, List.mem_cons, true_or, periodic_eq_fract, Int.fract_fract]
      · have hi : i ∉ rest := hji ▸ hr
        simp only [hji, hr, hi, if_true, if_false, List.mem_cons, true_or, periodic_eq_fract]
    · have hne : ¬ j.val = i := hji
      by_cases hr : j.val ∈ rest
      · simp [hne, hr]
      · simp [hne, hr]

/-- `apply_boundary_conditions(u, periodic, None)` on a point is the periodic fold of the listed coordinates -/
theorem apply_per_ofFn (per : List Nat) (c : V d) :
    Model.Boundary.apply per [] (List.ofFn c) = List.ofFn (foldP (perSet per) c) := by
  unfold Model.Boundary.apply
  rw [List.foldl_nil, foldl_periodic_ofFn]
  congr 1
  funext j
  simp [foldP, mem_perSet]

/-- what `check_bounds(u, periodic, None)` tests: the coordinates that are not periodic -/
def hardOK (per : List Nat) (y : V d) : Prop := ∀ i : Fin d, i.val ∉ per → 0 ≤ y i ∧ y i ≤ 1

theorem checkBounds_per_ofFn (per : List Nat) (y : V d) :
    Model.Boundary.checkBounds per [] (List.ofFn y) = true ↔ hardOK per y := by
  simp only [Model.Boundary.checkBounds, List.all_eq_true, List.mem_range, List.length_ofFn, List.contains_nil,
    Bool.or_false, hardOK]
  constructor
  · intro h i hi
    have := h i.val i.isLt
    rw [List.getElem?_ofFn] at this
    simpa [Model.Boundary.inUnit, i.isLt, hi] using this
  · intro h k hk
    rw [List.getElem?_ofFn]
    by_cases hp : k ∈ per
    · simp [hp]
    · have := h ⟨k, hk⟩ hp
      simp [hp, hk, Model.Boundary.inUnit, this.1, this.2]

/-- model input with periodic coordinates `per` (no reflective ones), RWM -/
noncomputable def inDP (per : List Nat) (μ : V d) (L S : Matrix (Fin d) (Fin d) ℝ) (ν σ β lx lp : ℝ) (x : V d) (g : ℝ)
    (z : V d) (r : ℝ) : StepIn ℝ :=
  { kind := .rwm, u := List.ofFn x, mu := List.ofFn μ, chol := matOf L, invcov := matOf S, nu := ν, sigma := σ, beta := β,
    l := lx, lp := lp, g := g, r := r, z := List.ofFn z, per := per, refl := [] }

/-- acceptance probability as a function of the current point and the FOLDED candidate -/
noncomputable def accVP (ℓ : V d → ℝ) (β : ℝ) (per : List Nat) (x y : V d) : ℝ :=
  open Classical in
  if hardOK per y then min 1 (exp (β * (ℓ y - ℓ x))) else 0

theorem accVP_nonneg (ℓ : V d → ℝ) (β : ℝ) (per : List Nat) (x y : V d) : 0 ≤ accVP ℓ β per x y := by
  unfold accVP; split
  · exact le_min zero_le_one (exp_pos _).le
  · exact le_rfl

theorem accVP_le_one (ℓ : V d → ℝ) (β : ℝ) (per : List Nat) (x y : V d) : accVP ℓ β per x y ≤ 1 := by
  unfold accVP; split
  · exact min_le_left _ _
  · exact zero_le_one

/-- **the list model's RWM step with periodic coordinates IS an accept/reject step** on the folded candidate -/
theorem closedStep_rwm_per (ℓ : V d → ℝ) (per : List Nat) (μ : V d) (L S : Matrix (Fin d) (Fin d) ℝ) (ν σ β lx lp : ℝ)
    (x : V d) (g : ℝ) (z : V d) (r : ℝ) (hr : 0 ≤ r) :
    (closedStep (liftLV ℓ) (inDP per μ L S ν σ β lx lp x g z r)).newU
      = List.ofFn (acceptReject x (accVP ℓ β per x) (foldP (perSet per) (candVR L σ x z), r)) := by
  have hraw : Model.Boundary.apply per [] (rwmProposal (List.ofFn x) (matOf L) σ (List.ofFn z))
      = List.ofFn (foldP (perSet per) (candVR L σ x z)) := by
    rw [rwmProposal_ofFn, apply_per_ofFn]; rfl
  simp only [closedStep, step, inDP, finish, hraw]
  by_cases hin : hardOK per (foldP (perSet per) (candVR L σ x z))
  · have hb := (checkBounds_per_ofFn per _).2 hin
    simp only [hb, if_true, liftLV_ofFn, boundedAlpha, acceptDecision, model_acceptProb, acceptReject, accVP, hin,
      rwmLogFactor, ScReal.zero_def, add_zero]
    by_cases hlt : r < min 1 (exp (β * (ℓ (foldP (perSet per) (candVR L σ x z)) - ℓ x)))
    · simp [hlt]
    · simp [hlt]
  · have hb : Model.Boundary.checkBounds per [] (List.ofFn (foldP (perSet per) (candVR L σ x z))) = false := by
      rw [← Bool.not_eq_true, checkBounds_per_ofFn]; exact hin
    simp [hb, boundedAlpha, acceptDecision, alphaOutOfBounds, acceptReject, accVP, hin, not_lt.2 hr]

/-! ## the law of the step with periodic (and hard) coordinates -/

/-- the cube with the periodic coordinates half-open: `[0,1)` on `per`, `[0,1]` elsewhere -/
def cubeP (per : List Nat) : Set (V d) := {x | x ∈ cell (perSet per) 0 ∧ hardOK per x}

theorem measurableSet_hardOK (per : List Nat) : MeasurableSet {y : V d | hardOK per y} := by
  have : {y : V d | hardOK per y} = ⋂ i : Fin d, {y : V d | i.val ∉ per → 0 ≤ y i ∧ y i ≤ 1} := by
    ext y; simp [hardOK]
  rw [this]
  refine MeasurableSet.iInter fun i => ?_
  by_cases hi : i.val ∈ per
  · simp [hi]
  · simp only [hi, not_false_eq_true, forall_const]
    show MeasurableSet ((fun y : V d => y i) ⁻¹' Icc (0 : ℝ) 1)
    exact (measurable_pi_apply i) measurableSet_Icc

theorem measurableSet_cubeP (per : List Nat) : MeasurableSet (cubeP (d := d) per) :=
  (measurableSet_cell _ _).inter (measurableSet_hardOK per)

/-- target with the half-open cube (equal to `targetV` as a measure: `targetVP_eq`) -/
noncomputable def targetVP (ℓ : V d → ℝ) (β : ℝ) (per : List Nat) : Measure (V d) :=
  volume.withDensity fun x => ENNReal.ofReal ((cubeP per).indicator (fun x => exp (β * ℓ x)) x)

noncomputable def newStateVP (ℓ : V d → ℝ) (per : List Nat) (μ : V d) (L S : Matrix (Fin d) (Fin d) ℝ) (ν σ β : ℝ) (x : V d)
    (g : ℝ) (z : V d) (r : ℝ) : V d :=
  listToV (closedStep (liftLV ℓ) (inDP per μ L S ν σ β 0 0 x g z r)).newU x

theorem newStateVP_eq (ℓ : V d → ℝ) (per : List Nat) (μ : V d) (L S : Matrix (Fin d) (Fin d) ℝ) (ν σ β : ℝ) (x : V d)
    (g : ℝ) (z : V d) (r : ℝ) (hr : 0 ≤ r) :
    newStateVP ℓ per μ L S ν σ β x g z r
      = acceptReject x (accVP ℓ β per x) (foldP (perSet per) (candVR L σ x z), r) := by
  unfold newStateVP
  rw [closedStep_rwm_per ℓ per μ L S ν σ β 0 0 x g z r hr, listToV_ofFn]

/-- the law of the new state of one RWM step with periodic coordinates `per` -/
noncomputable def rwmLawVP (ℓ : V d → ℝ) (per : List Nat) (μ : V d) (L S : Matrix (Fin d) (Fin d) ℝ) (ν σ β : ℝ) (x : V d) :
    Measure (V d) :=
  ((stdN d).prod unif).map fun w => newStateVP ℓ per μ L S ν σ β x 0 w.1 w.2

/-- density of the folded candidate: sum of the Gaussian density over the integer translates in the periodic coordinates -/
noncomputable def qVP (L : Matrix (Fin d) (Fin d) ℝ) (σ : ℝ) (per : List Nat) (x y : V d) : ℝ≥0∞ :=
  foldDensity (perSet per) (fun y' => ENNReal.ofReal (affineGaussDensity L σ x y')) y

noncomputable def rwmSubVP (ℓ : V d → ℝ) (L : Matrix (Fin d) (Fin d) ℝ) (σ β : ℝ) (per : List Nat) (x y : V d) : ℝ≥0∞ :=
  qVP L σ per x y * ENNReal.ofReal (accVP ℓ β per x y)

theorem measurable_accVP {ℓ : V d → ℝ} (hℓ : Measurable ℓ) (β : ℝ) (per : List Nat) :
    Measurable (Function.uncurry (accVP ℓ β per)) := by
  unfold accVP Function.uncurry
  refine Measurable.ite (measurable_snd (measurableSet_hardOK per)) ?_ measurable_const
  exact measurable_const.min (measurable_exp.comp (measurable_const.mul
    ((hℓ.comp measurable_snd).sub (hℓ.comp measurable_fst))))

theorem measurable_qVP (L : Matrix (Fin d) (Fin d) ℝ) (σ : ℝ) (per : List Nat) :
    Measurable (Function.uncurry (qVP L σ per)) := by
  unfold qVP foldDensity Function.uncurry
  have hs : MeasurableSet {p : V d × V d | p.2 ∈ cell (perSet per) 0} := measurable_snd (measurableSet_cell _ _)
  have hsum : Measurable fun p : V d × V d =>
      ∑' m : MP (perSet (d := d) per), ENNReal.ofReal (affineGaussDensity L σ p.1 (p.2 + shift m.1)) := by
    refine Measurable.tsum fun m => ENNReal.measurable_ofReal.comp ?_
    exact (measurable_affineGaussDensity_pair L σ).comp
      (f := fun p : V d × V d => (p.1, p.2 + shift m.1)) (measurable_fst.prodMk (measurable_snd.add measurable_const))
  have : (fun p : V d × V d => (cell (perSet per) 0).indicator
        (fun y => ∑' m : MP (perSet (d := d) per), ENNReal.ofReal (affineGaussDensity L σ p.1 (y + shift m.1))) p.2)
      = {p : V d × V d | p.2 ∈ cell (perSet per) 0}.indicator fun p =>
        ∑' m : MP (perSet (d := d) per), ENNReal.ofReal (affineGaussDensity L σ p.1 (p.2 + shift m.1)) := by
    funext p
    by_cases hp : p.2 ∈ cell (perSet per) 0
    · have : p ∈ {p : V d × V d | p.2 ∈ cell (perSet per) 0} := hp
      simp [hp, this]
    · have : p ∉ {p : V d × V d | p.2 ∈ cell (perSet per) 0} := hp
      simp [hp, this]
  rw [this]
  exact hsum.indicator hs

theorem measurable_gaussDens_x (L : Matrix (Fin d) (Fin d) ℝ) (σ : ℝ) (x : V d) :
    Measurable fun y => ENNReal.ofReal (affineGaussDensity L σ x y) :=
  ENNReal.measurable_ofReal.comp ((measurable_affineGaussDensity_pair L σ).comp
    (f := fun y : V d => (x, y)) (measurable_const.prodMk measurable_id))

/-- **the law of the folded RWM candidate has the folded density** -/
theorem rwm_per_candidate_law (L : Matrix (Fin d) (Fin d) ℝ) (σ : ℝ) (per : List Nat) (x : V d) (hL : L.det ≠ 0)
    (hσ : σ ≠ 0) :
    (stdN d).map (fun z => foldP (perSet per) (candVR L σ x z)) = volume.withDensity (qVP L σ per x) := by
  have hlaw : (stdN d).map (candVR L σ x) = volume.withDensity fun y => ENNReal.ofReal (affineGaussDensity L σ x y) :=
    map_scaled_affine_pi_gaussian' L hL σ hσ x
  have hcomp : (fun z => foldP (perSet per) (candVR L σ x z)) = foldP (perSet per) ∘ candVR L σ x := rfl
  rw [hcomp, ← Measure.map_map (measurable_foldP _) (measurable_candVR L σ x), hlaw,
    map_foldP_withDensity _ (measurable_gaussDens_x L σ x)]
  rfl

theorem lintegral_qVP (L : Matrix (Fin d) (Fin d) ℝ) (σ : ℝ) (per : List Nat) (x : V d) (hL : L.det ≠ 0) (hσ : σ ≠ 0) :
    ∫⁻ y, qVP L σ per x y = 1 := by
  have hp : IsProbabilityMeasure ((stdN d).map fun z => foldP (perSet per) (candVR L σ x z)) :=
    Measure.isProbabilityMeasure_map ((measurable_foldP _).comp (measurable_candVR L σ x)).aemeasurable
  rw [rwm_per_candidate_law L σ per x hL hσ] at hp
  have := hp.measure_univ
  rwa [withDensity_apply _ MeasurableSet.univ, Measure.restrict_univ] at this

theorem rwmLawVP_eq_mhKernel {ℓ : V d → ℝ} (hℓ : Measurable ℓ) (per : List Nat) (μ : V d)
    (L S : Matrix (Fin d) (Fin d) ℝ) (ν σ β : ℝ) (hL : L.det ≠ 0) (hσ : σ ≠ 0) (x : V d) :
    rwmLawVP ℓ per μ L S ν σ β x = mhKernel volume (rwmSubVP ℓ L σ β per) x := by
  unfold rwmLawVP
  rw [tapeStep_law (stdN d) (c := fun z => foldP (perSet per) (candVR L σ x z))
    ((measurable_foldP _).comp (measurable_candVR L σ x)) x
    ((measurable_accVP hℓ β per).of_uncurry_left) (fun z r hr => newStateVP_eq ℓ per μ L S ν σ β x 0 z r hr),
    rwm_per_candidate_law L σ per x hL hσ]
  exact acceptReject_eq_mhKernel volume (q := qVP L σ per) (measurable_qVP L σ per)
    (fun x => lintegral_qVP L σ per x hL hσ) (measurable_accVP hℓ β per) (accVP_nonneg ℓ β per) (accVP_le_one ℓ β per) x

/-- negation of the integer shifts -/
def negMP (P : Finset (Fin d)) : MP P ≃ MP P where
  toFun m := ⟨-m.1, fun i hi => by simp [m.2 i hi]⟩
  invFun m := ⟨-m.1, fun i hi => by simp [m.2 i hi]⟩
  left_inv m := Subtype.ext (neg_neg m.1)
  right_inv m := Subtype.ext (neg_neg m.1)

theorem negMP_val (P : Finset (Fin d)) (m : MP P) : (negMP P m).1 = -m.1 := rfl

theorem affineGaussDensity_shift (L : Matrix (Fin d) (Fin d) ℝ) (c : ℝ) (x y s : V d) :
    affineGaussDensity L c x (y + s) = affineGaussDensity L c y (x + -s) := by
  unfold affineGaussDensity
  have : L⁻¹ *ᵥ (x + -s - y) = -(L⁻¹ *ᵥ (y + s - x)) := by rw [← Matrix.mulVec_neg]; congr 1; abel
  rw [this, neg_dotProduct_neg]

/-- **the folded proposal density is symmetric** (any dimension, any correlated `L`): reindex the translates by `m ↦ -m` -/
theorem qVP_sum_symm (L : Matrix (Fin d) (Fin d) ℝ) (σ : ℝ) (P : Finset (Fin d)) (x y : V d) :
    ∑' m : MP P, ENNReal.ofReal (affineGaussDensity L σ x (y + shift m.1))
      = ∑' m : MP P, ENNReal.ofReal (affineGaussDensity L σ y (x + shift m.1)) := by
  rw [← (negMP P).tsum_eq]
  refine tsum_congr fun m => ?_
  rw [affineGaussDensity_shift]
  congr 3
  funext i; simp [negMP_val, shift]

theorem rwmSubVP_detailed_balance (ℓ : V d → ℝ) (L : Matrix (Fin d) (Fin d) ℝ) (σ β : ℝ) (per : List Nat) (x y : V d) :
    ENNReal.ofReal ((cubeP per).indicator (fun x => exp (β * ℓ x)) x) * rwmSubVP ℓ L σ β per x y
      = ENNReal.ofReal ((cubeP per).indicator (fun x => exp (β * ℓ x)) y) * rwmSubVP ℓ L σ β per y x := by
  unfold rwmSubVP qVP foldDensity accVP
  by_cases hx : x ∈ cubeP per <;> by_cases hy : y ∈ cubeP per
  · obtain ⟨hx1, hx2⟩ := hx
    obtain ⟨hy1, hy2⟩ := hy
    have hx : x ∈ cubeP per := ⟨hx1, hx2⟩
    have hy : y ∈ cubeP per := ⟨hy1, hy2⟩
    simp only [hx, hy, hx1, hy1, hx2, hy2, indicator_of_mem, if_true]
    have e1 : exp (β * (ℓ y - ℓ x)) = exp (β * ℓ y) * 1 / (exp (β * ℓ x) * 1) := by
      rw [mul_one, mul_one, ← exp_sub]; congr 1; ring
    have e2 : exp (β * (ℓ x - ℓ y)) = exp (β * ℓ x) * 1 / (exp (β * ℓ y) * 1) := by
      rw [mul_one, mul_one, ← exp_sub]; congr 1; ring
    rw [e1, e2]
    exact mh_flow_symm _ _ 1 1 (exp_pos _) (exp_pos _) one_pos one_pos _ _ (by rw [qVP_sum_symm])
  · have : ¬ (y ∈ cell (perSet per) 0 ∧ hardOK per y) := hy
    by_cases h1 : y ∈ cell (perSet per) 0
    · have h2 : ¬ hardOK per y := fun h => this ⟨h1, h⟩
      simp [hx, hy, h2]
    · simp [hx, hy, h1]
  · have : ¬ (x ∈ cell (perSet per) 0 ∧ hardOK per x) := hx
    by_cases h1 : x ∈ cell (perSet per) 0
    · have h2 : ¬ hardOK per x := fun h => this ⟨h1, h⟩
      simp [hx, hy, h2]
    · simp [hx, hy, h1]
  · simp [hx, hy]

/-- RWM with periodic coordinates `per` (all other coordinates hard), any dimension, correlated proposals: the law of the
    model's step leaves `exp(β ℓ)` on the (half-open) cube invariant -/
theorem C03_rwm_periodic_step_law_invariant' {ℓ : V d → ℝ} (hℓ : Measurable ℓ) (per : List Nat) (μ : V d)
    (L S : Matrix (Fin d) (Fin d) ℝ) (ν σ β : ℝ) (hL : L.det ≠ 0) (hσ : σ ≠ 0) :
    (targetVP ℓ β per).bind (rwmLawVP ℓ per μ L S ν σ β) = targetVP ℓ β per := by
  have hfun : rwmLawVP ℓ per μ L S ν σ β = ⇑(mhKernel volume (rwmSubVP ℓ L σ β per)) :=
    funext fun x => rwmLawVP_eq_mhKernel hℓ per μ L S ν σ β hL hσ x
  have hk : Measurable (Function.uncurry (rwmSubVP ℓ L σ β per)) :=
    (measurable_qVP L σ per).mul (ENNReal.measurable_ofReal.comp (measurable_accVP hℓ β per))
  have hp : Measurable fun x => ENNReal.ofReal ((cubeP (d := d) per).indicator (fun x => exp (β * ℓ x)) x) :=
    ENNReal.measurable_ofReal.comp ((measurable_exp.comp (measurable_const.mul hℓ)).indicator (measurableSet_cubeP per))
  rw [hfun]
  exact mhKernel_invariant volume hk
    (moveMass_le_one volume (q := qVP L σ per) (fun x => lintegral_qVP L σ per x hL hσ) (accVP_le_one ℓ β per)) hp
    (rwmSubVP_detailed_balance ℓ L σ β per)

/-- the half-open cube differs from the closed cube by a Lebesgue-null set (faces `x i = 1`): same target measure -/
theorem targetVP_eq (ℓ : V d → ℝ) (β : ℝ) (per : List Nat) : targetVP ℓ β per = targetV ℓ β := by
  unfold targetVP targetV
  refine withDensity_congr_ae ?_
  have hae : ∀ᵐ x : V d ∂volume, ∀ i, x i ≠ 1 := by
    rw [ae_all_iff]
    intro i
    rw [volume_pi]
    exact Measure.ae_eval_ne (μ := fun _ : Fin d => (volume : Measure ℝ)) i 1
  refine hae.mono fun x hx => ?_
  have hiff : x ∈ cubeP per ↔ x ∈ cube d := by
    simp only [cubeP, cube, mem_ofPred_eq, mem_cell_zero, mem_perSet, hardOK, mem_Icc, Pi.le_def, Pi.zero_apply,
      Pi.one_apply]
    constructor
    · rintro ⟨h1, h2⟩
      refine ⟨fun i => ?_, fun i => ?_⟩
      · by_cases hi : i.val ∈ per
        · exact (h1 i hi).1
        · exact (h2 i hi).1
      · by_cases hi : i.val ∈ per
        · exact (h1 i hi).2.le
        · exact (h2 i hi).2
    · rintro ⟨h0, h1⟩
      exact ⟨fun i _ => ⟨h0 i, lt_of_le_of_ne (h1 i) (hx i)⟩, fun i _ => ⟨h0 i, h1 i⟩⟩
  by_cases hc : x ∈ cube d
  · simp [hc, hiff.2 hc]
  · have : x ∉ cubeP per := fun h => hc (hiff.1 h)
    simp [hc, this]

/-- **RWM with periodic coordinates (and hard walls in the others), any dimension, correlated proposals: the law of the
    model's step leaves the tempered target invariant.**  `per` is the list handed to `apply_boundary_conditions` /
    `check_bounds`; `per = []` is the all-hard case, `per = range d` the torus. -/
theorem C03_rwm_periodic_step_law_invariant {ℓ : V d → ℝ} (hℓ : Measurable ℓ) (per : List Nat) (μ : V d)
    (L S : Matrix (Fin d) (Fin d) ℝ) (ν σ β : ℝ) (hL : L.det ≠ 0) (hσ : σ ≠ 0) :
    (targetV ℓ β).bind (rwmLawVP ℓ per μ L S ν σ β) = targetV ℓ β := by
  rw [← targetVP_eq ℓ β per]
  exact C03_rwm_periodic_step_law_invariant' hℓ per μ L S ν σ β hL hσ

/-- non-vacuity: d = 2, coordinate 0 periodic, coordinate 1 hard, correlated factor -/
example : (targetV (fun x : V 2 => 3 * x 0 - x 1) 1).bind
      (rwmLawVP (fun x : V 2 => 3 * x 0 - x 1) [0] 0 !![1 / 5, 0; 1 / 10, 1 / 5] 1 3 (1 / 2) 1)
    = targetV (fun x : V 2 => 3 * x 0 - x 1) 1 :=
  C03_rwm_periodic_step_law_invariant (by fun_prop) _ _ _ _ _ _ _ (by simp [Matrix.det_fin_two]) (by norm_num)

end Props.C03
