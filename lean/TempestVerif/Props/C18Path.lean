import TempestVerif.Props.C18
import TempestVerif.Model.CtorPath
import TempestVerif.Gen.CtorPath
/-
  C18 (second part) — downstream of the validation: "a configuration the constructor accepts never meets an undefined
  dictionary lookup / name dispatch / division / index / conversion in the component constructors or in the per-iteration
  glue" — stated on the table of use sites REGENERATED from /repo (translate/g8_ctorpath.py → Gen/CtorPath.lean) and on the
  rule table of G2 (Gen/Validate.lean), interpreted by Model/CtorPath.lean.

  Structure:
    1. soundness of the abstract interpretation (`aeval_sound`, `ctxSafe_sound`, `useSafe_sound`): a table entry that passes
       the closed Boolean check `useSafe tyOf` is defined — or certainly unreachable — in EVERY configuration whose options
       have the types `tyOf`;
    2. the two typings: `accTy` = what acceptance by `Sampler(...)` guarantees about the stored configuration (proved:
       `C18_stored_accTy`), `docTy` = the documented types;
    3. the closed checks on the generated table (`decide`): every use is safe for `docTy` (`C18_uses_safe_documented`); for
       `accTy` every use is safe except those of the options in `gapFields` (`C18_uses_safe_accepted_except_gaps`), and for
       each of those a concrete accepted configuration with a certainly-reached undefined use (`C18_gap_*`);
    4. the name dispatches: the resampler / kernel names `validate()` accepts are exactly those `Resampler.run` /
       `mcmc.parallel_mcmc` dispatch to a defined branch (`C18_resample_dispatch_total`, `C18_kernel_dispatch_total`, …);
    5. the option → component-attribute wiring (`C18_component_flows`).
-/
set_option linter.unusedSimpArgs false
set_option linter.unusedVariables false
namespace Props.C18
open Model.ConfigSpec Model.CtorPath

/-! ### 1. soundness of the abstract interpretation -/


/-! ### three-valued logic -/

theorem and3_sound {x y x' y' : Option Bool} (hx : ∀ b, x = some b → x' = some b) (hy : ∀ b, y = some b → y' = some b)
    (r : Bool) (h : and3 x y = some r) : and3 x' y' = some r := by
  cases x with
  | none =>
    cases y with
    | none => simp [and3] at h
    | some b =>
      cases b
      · have := hy false rfl; subst this
        simp [and3] at h; subst h
        cases x' with
        | none => rfl
        | some b => cases b <;> rfl
      · simp [and3] at h
  | some a =>
    have := hx a rfl; subst this
    cases y with
    | none => cases a <;> simp [and3] at h ⊢; exact h
    | some b => have := hy b rfl; subst this; exact h

theorem or3_sound {x y x' y' : Option Bool} (hx : ∀ b, x = some b → x' = some b) (hy : ∀ b, y = some b → y' = some b)
    (r : Bool) (h : or3 x y = some r) : or3 x' y' = some r := by
  cases x with
  | none =>
    cases y with
    | none => simp [or3] at h
    | some b =>
      cases b
      · simp [or3] at h
      · have := hy true rfl; subst this
        simp [or3] at h; subst h
        cases x' with
        | none => rfl
        | some b => cases b <;> rfl
  | some a =>
    have := hx a rfl; subst this
    cases y with
    | none => cases a <;> simp [or3] at h ⊢; exact h
    | some b => have := hy b rfl; subst this; exact h

theorem cmpAbs_sound (op : Cmp) (lo hi : Option Int) (k n : Int) (b : Bool) (hb : inBounds lo hi n = true)
    (h : cmpAbs op lo hi k = some b) : op.int n k = b := by
  unfold inBounds at hb
  cases op <;> simp only [cmpAbs] at h <;> cases lo <;> cases hi <;>
    simp [geOpt, leOpt, Cmp.int] at h hb ⊢ <;> (try split at h) <;> simp_all <;> omega

theorem not_eval (e : Ext) (c : Cfg) (g : G) (hg : ∀ n, g ≠ .fact n) : G.eval e c (.not g) = (G.eval e c g).map (!·) := by
  cases g <;> simp [G.eval] at hg ⊢

theorem aeval_sound (e : Ext) (c : Cfg) (f : Field) (s : Shape) (hs : s.has e c (c f) = true) :
    ∀ (g : G) (b : Bool), G.aeval f s g = some b → G.eval e c g = some b := by
  intro g
  induction g with
  | tt => intro b h; simpa [G.aeval, G.eval] using h
  | unknown => intro b h; simp [G.aeval] at h
  | fact n => intro b h; simp [G.aeval] at h
  | truthy g => intro b h; simp [G.aeval] at h
  | isNone g =>
    intro b h
    simp only [G.aeval] at h
    by_cases hg : g = f
    · subst hg
      simp only [if_true] at h
      cases s <;> simp at h <;> subst h <;> cases hv : c g <;> simp_all [Shape.has, G.eval, V.isNone, V.isPath, V.isCallable, V.iter?]
    · simp [hg] at h
  | isInt g =>
    intro b h
    simp only [G.aeval] at h
    by_cases hg : g = f
    · subst hg
      simp only [if_true] at h
      cases s <;> simp at h <;> subst h <;> cases hv : c g <;> simp_all [Shape.has, G.eval, V.isNone, V.isInt, V.isPath, V.isCallable, V.iter?]
    · simp [hg] at h
  | cmpK op g k =>
    intro b h
    simp only [G.aeval] at h
    by_cases hg : g = f
    · subst hg
      simp only [if_true] at h
      cases s <;> simp at h
      rename_i lo hi
      cases hv : c g <;> simp [hv, Shape.has] at hs
      rename_i n
      have := cmpAbs_sound op lo hi k n b hs h
      simp [G.eval, hv, V.cmpNum, V.intVal?, this]
    · simp [hg] at h
  | eqStr g t =>
    intro b h
    simp only [G.aeval] at h
    by_cases hg : g = f
    · subst hg
      simp only [if_true] at h
      cases s <;> simp at h <;> (try subst h) <;> cases hv : c g <;> simp_all [Shape.has, G.eval, V.isNone, V.isPath, V.isCallable, V.iter?]
      intro heq; subst heq; exact h.1 hs

    · simp [hg] at h
  | not g ih =>
    intro b h
    simp only [G.aeval] at h
    cases hg : G.aeval f s g with
    | none => simp [hg] at h
    | some x =>
      simp [hg] at h
      have hx := ih x hg
      have hnf : ∀ n, g ≠ .fact n := by
        intro n hn; subst hn; simp [G.aeval] at hg
      rw [not_eval e c g hnf, hx]; simp [h]
  | and a b iha ihb =>
    intro r h
    simp only [G.aeval] at h
    simp only [G.eval]
    exact and3_sound iha ihb r h
  | or a b iha ihb =>
    intro r h
    simp only [G.aeval] at h
    simp only [G.eval]
    exact or3_sound iha ihb r h



theorem geOpt_le {lo hi : Option Int} {k n : Int} (h : geOpt lo k = true) (hb : inBounds lo hi n = true) : k ≤ n := by
  cases lo <;> simp [geOpt] at h
  cases hi <;> simp [inBounds] at hb <;> omega

theorem leOpt_le {lo hi : Option Int} {k n : Int} (h : leOpt hi k = true) (hb : inBounds lo hi n = true) : n ≤ k := by
  cases hi <;> simp [leOpt] at h
  cases lo <;> simp [inBounds] at hb <;> omega

theorem finiteNum_toFV (e : Ext) (c : Cfg) (s : Shape) (v : V) (hf : s.finiteNum = true) (hs : s.has e c v = true) :
    ∃ q, v.toFV? = some (.fin q) := by
  cases s <;> simp [Shape.finiteNum] at hf <;> cases v <;> simp_all [Shape.has, V.toFV?]
  all_goals (rename_i f; cases f <;> simp_all [Shape.has])

theorem ty_finite (e : Ext) (c : Cfg) (t : Ty) (v : V) (hf : t.all Shape.finiteNum = true) (hs : Ty.has e c t v = true) :
    ∃ q, v.toFV? = some (.fin q) := by
  simp only [Ty.has, List.any_eq_true] at hs
  obtain ⟨s, hmem, hhas⟩ := hs
  exact finiteNum_toFV e c s v (List.all_eq_true.mp hf s hmem) hhas

theorem firstBad_ok (f : V → R) (l : List V) (h : ∀ x ∈ l, f x = .ok) : firstBad f l = .ok := by
  induction l with
  | nil => rfl
  | cons x xs ih =>
    simp only [firstBad, h x (List.mem_cons_self ..)]
    exact ih fun y hy => h y (List.mem_cons_of_mem _ hy)

theorem elemSem_idxItem (d : Int) (x : V) (h : idxItem d x = true) : elemSem d x = .ok := by
  cases x <;> simp [idxItem] at h
  simp [elemSem]; omega

theorem elemSem_idxItemB (d : Int) (x : V) (h : idxItemB d x = true) : elemSem d x = .ok := by
  cases x <;> simp [idxItemB, V.intVal?] at h <;> simp [elemSem]
  omega

theorem hashable_idxItemB (d : Int) (x : V) (h : idxItemB d x = true) : x.hashable = true := by
  cases x <;> simp [idxItemB, V.intVal?] at h <;> rfl

theorem ctxSafe_sound (e : Ext) (c : Cfg) (tyOf : Field → Ty) (hty : ∀ f, Ty.has e c (tyOf f) (c f) = true)
    (ctx : Ctx) (s : Shape) (v : V) (hsafe : ctxSafe tyOf ctx s = true) (hs : s.has e c v = true) :
    sem e c ctx v = .ok := by
  cases ctx with
  | safe => rfl
  | call => cases s <;> simp [ctxSafe] at hsafe; simp_all [Shape.has, sem]
  | num => cases s <;> simp [ctxSafe] at hsafe <;> cases v <;> simp_all [Shape.has, sem, isNumV]
  | numStrict => cases s <;> simp [ctxSafe] at hsafe <;> cases v <;> simp_all [Shape.has, sem, isNumV]
  | numOrNone => cases s <;> simp [ctxSafe] at hsafe <;> cases v <;> simp_all [Shape.has, sem, isNumV, V.isNone]
  | modRight =>
    cases s <;> simp [ctxSafe] at hsafe <;> cases v <;> simp [Shape.has] at hs <;> simp [sem]
    · rename_i lo hi n
      rcases hsafe with h | h
      · have := geOpt_le h hs; omega
      · have := leOpt_le h hs; omega
    · exact hs
    · rename_i f; cases f <;> simp [Shape.has] at hs ⊢
      intro h0; subst h0; simp at hs
    · rename_i f; cases f <;> simp [FV.le] at hs ⊢
      intro h0; subst h0; simp at hs
  | intOfMul other =>
    simp only [ctxSafe, Bool.and_eq_true] at hsafe
    obtain ⟨q, hq⟩ := finiteNum_toFV e c s v hsafe.1 hs
    obtain ⟨r, hr⟩ := ty_finite e c (tyOf other) (c other) hsafe.2 (hty other)
    simp [sem, hq, hr, FV.mul]
  | intOfDerived =>
    simp only [ctxSafe] at hsafe
    obtain ⟨q, hq⟩ := finiteNum_toFV e c s v hsafe hs
    cases v <;> simp [V.toFV?] at hq <;> simp [sem]
    rename_i f; cases f <;> simp_all
  | shape =>
    cases s <;> simp [ctxSafe] at hsafe
    cases v <;> simp [Shape.has] at hs
    have := geOpt_le hsafe hs
    simp [sem]; omega
  | range => cases s <;> simp [ctxSafe] at hsafe <;> cases v <;> simp_all [Shape.has, sem]
  | arange => cases s <;> simp [ctxSafe] at hsafe <;> cases v <;> simp_all [Shape.has, sem] <;> (rename_i f; cases f <;> simp_all [Shape.has])
  | seed =>
    cases s <;> simp [ctxSafe] at hsafe <;> cases v <;> simp [Shape.has, V.isNone] at hs <;> simp [sem]
    have h1 := geOpt_le hsafe.1 hs
    have h2 := leOpt_le hsafe.2 hs
    omega
  | iter => cases s <;> simp [ctxSafe] at hsafe <;> cases v <;> simp_all [Shape.has, sem, V.iter?]
  | elemIndex =>
    cases s <;> simp [ctxSafe] at hsafe
    · cases v <;> simp [Shape.has] at hs
      rename_i l
      unfold idxAll at hs
      cases hd : (c .n_dim).intVal? with
      | none => simp [hd] at hs
      | some d =>
        simp only [hd, List.all_eq_true] at hs
        simp only [sem, V.iter?, hd]
        exact firstBad_ok _ _ fun x hx => elemSem_idxItem d x (hs x hx)
    · simp only [Shape.has] at hs
      cases hi : v.iter? with
      | none => simp [hi] at hs
      | some l =>
        simp only [hi] at hs
        unfold idxAll at hs
        cases hd : (c .n_dim).intVal? with
        | none => simp [hd] at hs
        | some d =>
          simp only [hd, List.all_eq_true] at hs
          simp only [sem, hi, hd]
          exact firstBad_ok _ _ fun x hx => elemSem_idxItemB d x (hs x hx)
  | setUpdate =>
    cases s <;> simp [ctxSafe] at hsafe
    · cases v <;> simp [Shape.has] at hs
      simp [sem, V.toSet, V.iter?, V.hashable]
    · cases v <;> simp [Shape.has] at hs
      simp [sem, V.toSet, V.iter?, V.hashable]
    · cases v <;> simp [Shape.has] at hs
      rename_i l
      unfold idxAll at hs
      cases hd : (c .n_dim).intVal? with
      | none => simp [hd] at hs
      | some d =>
        simp only [hd, List.all_eq_true] at hs
        have : l.all V.hashable = true := List.all_eq_true.mpr fun x hx => by
          have := hs x hx
          cases x <;> simp [idxItem] at this; rfl
        simp [sem, V.toSet, V.iter?, this]
    · simp only [Shape.has] at hs
      cases hi : v.iter? with
      | none => simp [hi] at hs
      | some l =>
        simp only [hi] at hs
        unfold idxAll at hs
        cases hd : (c .n_dim).intVal? with
        | none => simp [hd] at hs
        | some d =>
          simp only [hd, List.all_eq_true] at hs
          have : l.all V.hashable = true := List.all_eq_true.mpr fun x hx => hashable_idxItemB d x (hs x hx)
          simp [sem, V.toSet, hi, this]
  | attrMap => cases s <;> simp [ctxSafe] at hsafe; cases v <;> simp_all [Shape.has, sem]
  | poolCount =>
    cases s <;> simp [ctxSafe] at hsafe
    cases v <;> simp [Shape.has] at hs
    have := geOpt_le hsafe hs
    simp [sem]; omega
  | dtype =>
    cases s <;> simp [ctxSafe] at hsafe <;> cases v <;> simp [Shape.has, V.isNone] at hs <;> simp [sem]
    rename_i l t
    have := hsafe t hs
    simp [this]
  | pathDiv => cases s <;> simp [ctxSafe] at hsafe; simp_all [Shape.has, sem]
  | star => cases s <;> simp [ctxSafe] at hsafe <;> cases v <;> simp_all [Shape.has, sem, V.isNone, V.iter?]
  | dstar => cases s <;> simp [ctxSafe] at hsafe; simp_all [Shape.has, sem]
  | toFloat => cases s <;> simp [ctxSafe] at hsafe <;> cases v <;> simp_all [Shape.has, sem, V.toFloat]
  | unknown => simp [ctxSafe] at hsafe

theorem splitInt_covers (e : Ext) (c : Cfg) (lo hi : Option Int) (k : Int) (v : V) (h : (Shape.int lo hi).has e c v = true) :
    ∃ s' ∈ splitInt lo hi k, s'.has e c v = true := by
  cases v <;> simp [Shape.has] at h
  rename_i n
  by_cases hn : n ≤ k
  · refine ⟨_, List.mem_cons_self .., ?_⟩
    cases lo <;> cases hi <;> simp [Shape.has, inBounds] at h ⊢ <;> omega
  · refine ⟨_, List.mem_cons_of_mem _ (List.mem_cons_self ..), ?_⟩
    cases lo <;> cases hi <;> simp [Shape.has, inBounds] at h ⊢ <;> omega

theorem refine_covers (e : Ext) (c : Cfg) (g : G) (s : Shape) (v : V) (h : s.has e c v = true) :
    ∃ s' ∈ refineShape g s, s'.has e c v = true := by
  cases s <;> try exact ⟨_, List.mem_cons_self .., h⟩
  rename_i lo hi
  simp only [refineShape]
  cases cmpConsts g with
  | nil => exact ⟨_, List.mem_cons_self .., h⟩
  | cons k _ => exact splitInt_covers e c lo hi k v h

theorem emptyInt_has (e : Ext) (c : Cfg) (s : Shape) (v : V) (h : emptyInt s = true) : s.has e c v = false := by
  cases s <;> simp [emptyInt] at h
  rename_i lo hi
  cases lo <;> cases hi <;> simp at h
  cases v <;> simp [Shape.has, inBounds]
  omega

/-- **soundness of the closed check**: an entry that passes `useSafe` is defined (or unreachable) in every configuration
    whose options have the declared types -/
theorem useSafe_sound (e : Ext) (c : Cfg) (tyOf : Field → Ty) (hty : ∀ f, Ty.has e c (tyOf f) (c f) = true) (u : Use)
    (h : useSafe tyOf u = true) : useOK e c u = true := by
  have hv := hty u.opt
  simp only [Ty.has, List.any_eq_true] at hv
  obtain ⟨s, hmem, hhas⟩ := hv
  obtain ⟨s', hmem', hhas'⟩ := refine_covers e c u.guard s (c u.opt) hhas
  simp only [useSafe, List.all_eq_true] at h
  have h' := h s hmem s' hmem'
  simp only [Bool.or_eq_true] at h'
  simp only [useOK, Bool.or_eq_true]
  rcases h' with (h1 | h2) | h3
  · rw [emptyInt_has e c s' _ h1] at hhas'; cases hhas'
  · left
    have := aeval_sound e c u.opt s' hhas' u.guard false (by simpa using h2)
    simp [this]
  · right
    simp [useSem, ctxSafe_sound e c tyOf hty _ s' _ h3 hhas']

theorem glueTotal_of_safe (e : Ext) (c : Cfg) (tyOf : Field → Ty) (hty : ∀ f, Ty.has e c (tyOf f) (c f) = true) (uses : List Use)
    (h : uses.all (useSafe tyOf) = true) : glueTotal e uses c = true := by
  simp only [glueTotal, List.all_eq_true] at h ⊢
  exact fun u hu => useSafe_sound e c tyOf hty u (h u hu)


/-! ### 2. the two typings of the stored configuration -/

/-- the DOCUMENTED type of every option as the code downstream sees it (after the defaults of `__post_init__`): what
    `Sampler.__init__`'s docstring and the annotations of `SamplerConfig` say — genuine ints (not bools) for counts, finite
    positive numbers for targets, a positive int cadence, `None` / int / pool-like for `pool`, `None` or a 32-bit seed … -/
def docTy : Field → Ty
  | .prior_transform => [.callable]
  | .log_likelihood => [.callable]
  | .n_dim => [.int (some 1) none]
  | .n_particles => [.int (some 1) none]
  | .ess_ratio => [.int (some 1) none, .floatPosFin]
  | .volume_variation => [.none, .int (some 1) none, .floatPosFin]
  | .log_likelihood_args => [.none, .listAny]
  | .log_likelihood_kwargs => [.none]
  | .vectorize => [.boolAny]
  | .blobs_dtype => [.none, .strIn ["f8", "f4", "i8", "i4", "float", "int", "float64", "int64", "object", "O", "bool"]]
  | .periodic => [.none, .idxList]
  | .reflective => [.none, .idxList]
  | .pool => [.none, .int none none, .otherMap]
  | .clustering => [.boolAny]
  | .normalize => [.boolAny]
  | .cluster_every => [.int (some 1) none]
  | .split_threshold => [.int (some 1) none, .floatPosFin]
  | .n_max_clusters => [.none, .int (some 1) none]
  | .sample => [.strIn ["tpcn", "rwm"]]
  | .n_steps => [.int (some 1) none]
  | .n_max_steps => [.int (some 1) none]
  | .resample => [.strIn ["mult", "syst"]]
  | .output_dir => [.path]
  | .output_label => [.strAny]
  | .random_state => [.none, .int (some 0) (some 4294967295)]

/-- what ACCEPTANCE by `Sampler(...)` guarantees about the stored configuration — nothing at all for the options
    `validate()` does not look at.  Since /repo b8d82fc the two counts are genuine ints and the two targets finite; the step
    counts are still only "a number that is not `<= 0`" (`__post_init__` defaults, no rule) -/
def accTy : Field → Ty
  | .prior_transform => [.callable]
  | .n_dim => [.int (some 1) none]
  | .n_particles => [.int (some 1) none]
  | .ess_ratio => [.int (some 1) none, .boolTrue, .floatPosFin]
  | .volume_variation => [.none, .int (some 1) none, .boolTrue, .floatPosFin]
  | .periodic => [.none, .idxIter]
  | .reflective => [.none, .idxIter]
  | .sample => [.strIn ["tpcn", "rwm"]]
  | .resample => [.strIn ["mult", "syst"]]
  | .n_steps => [.int (some 1) none, .boolTrue, .floatNotLe0]
  | .n_max_steps => [.int (some 1) none, .boolTrue, .floatNotLe0]
  | .output_dir => [.path]
  | .output_label => [.strAny]
  | _ => [.any]

def Typed (tyOf : Field → Ty) (e : Ext) (c : Cfg) : Prop := ∀ f, Ty.has e c (tyOf f) (c f) = true

/-- every option has its documented type -/
abbrev Documented := Typed docTy

/-- the configuration the code downstream of the constructor works with: the stored `SamplerConfig` (defaults filled in),
    except that the options wrapped in a `FunctionWrapper` are looked at RAW (the wrapper itself is always callable; what
    `FunctionWrapper.__call__` calls is the user's object) -/
def glueCfg (c : Cfg) : Cfg :=
  match runCfg Gen.Validate.spec (wrapFields Gen.Validate.wrapped c) with
  | .ok c' => fun f => if Gen.Validate.wrapped.contains f then c f else c' f
  | .error _ => c

theorem postCfg_n_steps (c : Cfg) (d : Int) :
    postCfg c d .n_steps = if noneOrLe0 (c .n_steps) then .int 1 else c .n_steps := by
  simp [postCfg, updMax_other, updSteps, updNp_other, updLabel_other, updDir_other, ite_set_apply]

theorem postCfg_n_max_steps (c : Cfg) (d : Int) :
    postCfg c d .n_max_steps =
      if noneOrLe0 (c .n_max_steps) then mulNum 20 (if noneOrLe0 (c .n_steps) then .int 1 else c .n_steps) else c .n_max_steps := by
  have h1 : updSteps (updNp d (updLabel (updDir c))) .n_max_steps = c .n_max_steps := by
    simp [updSteps_other, updNp_other, updLabel_other, updDir_other]
  have h2 : updSteps (updNp d (updLabel (updDir c))) .n_steps = if noneOrLe0 (c .n_steps) then .int 1 else c .n_steps := by
    simp [updSteps, updNp_other, updLabel_other, updDir_other, ite_set_apply]
  simp only [postCfg, updMax, h1, h2]
  by_cases h : noneOrLe0 (c .n_max_steps) = true <;> simp [h, Cfg.set, h1]

/-- what the accepted constructor stores -/
theorem construct_accept_stored (c : Cfg)
    (h : construct Gen.Validate.spec Gen.Ctor.wiring Gen.Validate.wrapped c = .accept) :
    ∃ d, (c .n_dim).intVal? = some d ∧ 0 < d ∧
      runCfg Gen.Validate.spec (wrapFields Gen.Validate.wrapped c) = .ok (postCfg (wrapFields Gen.Validate.wrapped c) d) ∧
      ValidListed c ∧ SamplerTyped c ∧ WiringOK c := by
  obtain ⟨hL, hT, hW⟩ := (C18_construct_accept_iff c).mp h
  obtain ⟨d, hd, hpos⟩ := posInt_intVal hL.n_dim
  refine ⟨d, hd, hpos, ?_, hL, hT, hW⟩
  have key := C18_config_accept_iff (wrapFields Gen.Validate.wrapped c)
  rw [validListed_wrap, wellTyped_wrap, run_accept_iff_runCfg] at key
  obtain ⟨c', hc'⟩ := key.mpr ⟨hL, hT⟩
  have hdw : (wrapFields Gen.Validate.wrapped c .n_dim).intVal? = some d := by rw [wrap_other _ _ (by decide)]; exact hd
  have hpre := runCfg_ok_pre hc'
  rw [show Gen.Validate.spec.pre = Gen.Validate.pre from rfl, pre_closed _ d hdw] at hpre
  by_cases hb : (noneOrNum (wrapFields Gen.Validate.wrapped c .n_steps) &&
      noneOrNum (wrapFields Gen.Validate.wrapped c .n_max_steps)) = true
  · simp only [hb, if_true, Except.ok.injEq] at hpre
    rw [hc', hpre]
  · simp [hb] at hpre

theorem glueCfg_eq (c : Cfg) (d : Int)
    (h : runCfg Gen.Validate.spec (wrapFields Gen.Validate.wrapped c) = .ok (postCfg (wrapFields Gen.Validate.wrapped c) d)) (f : Field) :
    glueCfg c f = if f = .log_likelihood then c f else postCfg (wrapFields Gen.Validate.wrapped c) d f := by
  unfold glueCfg
  rw [h]
  by_cases hf : f = .log_likelihood <;> simp [hf, Gen.Validate.wrapped]

theorem posInt_shape (e : Ext) (c : Cfg) (v : V) (h : posInt v = true) :
    Ty.has e c [.int (some 1) none] v = true := by
  cases v <;> simp [posInt] at h <;> simp [Ty.has, Shape.has, inBounds, h]
  omega

theorem posNum_shape (e : Ext) (c : Cfg) (v : V) (h : posNum v = true) :
    Ty.has e c [.int (some 1) none, .boolTrue, .floatPosFin] v = true := by
  cases v with
  | int n => simp [posNum] at h; simp [Ty.has, Shape.has, inBounds]; omega
  | bool b => simp [posNum] at h; simp [Ty.has, Shape.has, h]
  | float f => cases f <;> simp [posNum] at h; simp [Ty.has, Shape.has, h]
  | _ => simp [posNum] at h

theorem ty_cons_of_tail (e : Ext) (c : Cfg) (s : Shape) (t : Ty) (v : V) (h : Ty.has e c t v = true) :
    Ty.has e c (s :: t) v = true := by
  simp only [Ty.has, List.any_cons, Bool.or_eq_true] at h ⊢
  exact Or.inr h

theorem indexList_idxIter (e : Ext) (c : Cfg) (d : Int) (hd : (c .n_dim).intVal? = some d) (v : V)
    (h : indexList d v = true) : Shape.has e c .idxIter v = true := by
  rw [indexList_def] at h
  simp only [Shape.has]
  cases hi : v.iter? with
  | none => simp [hi] at h
  | some l =>
    simp only [hi] at h
    simp only [idxAll, hd]
    rw [List.all_eq_true] at h ⊢
    intro x hx
    have := h x hx
    cases x <;> simp [intItem] at this
    simpa [idxItemB, V.intVal?] using this

theorem stepsShape (e : Ext) (c : Cfg) (v : V) (h1 : noneOrNum v = true) (h2 : noneOrLe0 v = false) :
    Ty.has e c [.int (some 1) none, .boolTrue, .floatNotLe0] v = true := by
  cases v <;> simp [noneOrNum, noneOrLe0, V.isNone, V.isNum] at h1 h2 <;> simp [Ty.has, Shape.has, inBounds, h2]
  omega

theorem mulNum20_shape (e : Ext) (c : Cfg) (v : V) (h : Ty.has e c [.int (some 1) none, .boolTrue, .floatNotLe0] v = true) :
    Ty.has e c [.int (some 1) none, .boolTrue, .floatNotLe0] (mulNum 20 v) = true := by
  cases v <;> simp [Ty.has, Shape.has, inBounds] at h <;> simp [Ty.has, Shape.has, inBounds, mulNum, h]
  · omega
  · rename_i f
    cases f with
    | fin q =>
      simp [FV.le] at h
      simp [FV.mulInt, FV.le]
      have : (0 : Rat) < 20 * q := Rat.mul_pos (by decide) (Rat.not_le.mp h)
      exact Rat.not_le.mpr this
    | inf neg => cases neg <;> simp [FV.le] at h <;> simp [FV.mulInt, FV.le]
    | nan => simp [FV.mulInt, FV.le]

/-- **C18 (what acceptance guarantees downstream).**  If `Sampler(...)` returns normally then every option of the
    configuration the components work with has the type `accTy` — positive ints (or `True`) for the two counts, numbers
    that are not `<= 0` for the targets, in-range int/bool items for the two index collections, one of the two accepted
    names for kernel and resampler, a `Path` and a `str` for the output location, positive numeric step counts. -/
theorem C18_stored_accTy (e : Ext) (c : Cfg)
    (h : construct Gen.Validate.spec Gen.Ctor.wiring Gen.Validate.wrapped c = .accept) : Typed accTy e (glueCfg c) := by
  obtain ⟨d, hd, hpos, hrun, hL, hT, hW⟩ := construct_accept_stored c h
  have hg := glueCfg_eq c d hrun
  have hw : ∀ g, g ≠ .log_likelihood → wrapFields Gen.Validate.wrapped c g = c g := fun g hg' => wrap_other c g hg'
  have hnd : (glueCfg c .n_dim).intVal? = some d := by
    rw [hg, if_neg (by decide), postCfg_frame _ _ _ (by decide) (by decide) (by decide) (by decide) (by decide), hw _ (by decide)]
    exact hd
  have hsteps : Ty.has e (glueCfg c) [.int (some 1) none, .boolTrue, .floatNotLe0]
      (if noneOrLe0 (c .n_steps) then .int 1 else c .n_steps) = true := by
    by_cases hs : noneOrLe0 (c .n_steps) = true
    · simp [hs, Ty.has, Shape.has, inBounds]
    · simp only [hs]
      exact stepsShape e _ _ hT.n_steps (by simpa using hs)
  intro f
  cases f
  case prior_transform =>
    rw [hg, if_neg (by decide), postCfg_frame _ _ _ (by decide) (by decide) (by decide) (by decide) (by decide), hw _ (by decide)]
    simp [accTy, Ty.has, Shape.has, hT.prior_transform]
  case n_dim =>
    rw [hg, if_neg (by decide), postCfg_frame _ _ _ (by decide) (by decide) (by decide) (by decide) (by decide), hw _ (by decide)]
    exact posInt_shape e _ _ hL.n_dim
  case n_particles =>
    rw [hg, if_neg (by decide), postCfg_n_particles, hw _ (by decide)]
    rcases hL.n_particles with hn | hp
    · simp [hn, accTy, Ty.has, Shape.has, inBounds]; omega
    · by_cases hn : (c .n_particles).isNone = true
      · simp [hn, accTy, Ty.has, Shape.has, inBounds]; omega
      · simp only [hn]; exact posInt_shape e _ _ hp
  case ess_ratio =>
    rw [hg, if_neg (by decide), postCfg_frame _ _ _ (by decide) (by decide) (by decide) (by decide) (by decide), hw _ (by decide)]
    exact posNum_shape e _ _ hL.ess_ratio
  case volume_variation =>
    rw [hg, if_neg (by decide), postCfg_frame _ _ _ (by decide) (by decide) (by decide) (by decide) (by decide), hw _ (by decide)]
    rcases hL.volume_variation with hn | hp
    · simp [accTy, Ty.has, Shape.has, hn]
    · exact ty_cons_of_tail e _ _ _ _ (posNum_shape e _ _ hp)
  case periodic =>
    rw [hg, if_neg (by decide), postCfg_frame _ _ _ (by decide) (by decide) (by decide) (by decide) (by decide), hw _ (by decide)]
    rcases hL.periodic with hn | ⟨d', hd', hi⟩
    · simp [accTy, Ty.has, Shape.has, hn]
    · rw [hd] at hd'; cases hd'
      have := indexList_idxIter e (glueCfg c) d hnd _ hi
      simp [accTy, Ty.has, this]
  case reflective =>
    rw [hg, if_neg (by decide), postCfg_frame _ _ _ (by decide) (by decide) (by decide) (by decide) (by decide), hw _ (by decide)]
    rcases hL.reflective with hn | ⟨d', hd', hi⟩
    · simp [accTy, Ty.has, Shape.has, hn]
    · rw [hd] at hd'; cases hd'
      have := indexList_idxIter e (glueCfg c) d hnd _ hi
      simp [accTy, Ty.has, this]
  case sample =>
    rw [hg, if_neg (by decide), postCfg_frame _ _ _ (by decide) (by decide) (by decide) (by decide) (by decide), hw _ (by decide)]
    have := hL.sample
    cases hv : c .sample <;> simp [hv, isOneOf] at this
    simp [accTy, Ty.has, Shape.has, this]
  case resample =>
    rw [hg, if_neg (by decide), postCfg_frame _ _ _ (by decide) (by decide) (by decide) (by decide) (by decide), hw _ (by decide)]
    have := hL.resample
    cases hv : c .resample <;> simp [hv, isOneOf] at this
    simp [accTy, Ty.has, Shape.has, this]
  case n_steps =>
    rw [hg, if_neg (by decide), postCfg_n_steps, hw _ (by decide)]
    exact hsteps
  case n_max_steps =>
    rw [hg, if_neg (by decide), postCfg_n_max_steps, hw _ (by decide), hw _ (by decide)]
    by_cases hs : noneOrLe0 (c .n_max_steps) = true
    · simp only [hs, if_true]
      exact mulNum20_shape e _ _ hsteps
    · simp only [hs]
      exact stepsShape e _ _ hT.n_max_steps (by simpa using hs)
  case output_dir =>
    rw [hg, if_neg (by decide), postCfg_output_dir, hw _ (by decide)]
    by_cases ho : ((c .output_dir).isNone || (c .output_dir).isStr) = true
    · simp [ho, accTy, Ty.has, Shape.has, V.isPath]
    · simp only [ho]
      have := hT.output_dir
      simp only [Bool.or_eq_true, not_or] at ho
      rcases this with h1 | h1 | h1
      · exact absurd h1 ho.1
      · exact absurd h1 ho.2
      · simp [accTy, Ty.has, Shape.has, h1]
  case output_label =>
    rw [hg, if_neg (by decide), postCfg_output_label, hw _ (by decide)]
    rcases hT.output_label with h1 | h1
    · simp [h1, accTy, Ty.has, Shape.has]
    · cases hv : c .output_label <;> simp [hv, V.isStr] at h1
      simp [V.isNone, accTy, Ty.has, Shape.has]
  all_goals simp [accTy, Ty.has, Shape.has]

/-! ### 3. the closed checks on the regenerated table of use sites -/

/-- every context tag the translator emitted for the current source has a semantics in `Model/CtorPath.lean` -/
theorem C18_uses_contexts_known : Gen.CtorPath.uses.all (fun u => ctxOf u.ctx != .unknown) = true := by decide +kernel

/-- every use site of the current source is defined (or certainly unreachable) for every value of the documented type -/
theorem C18_uses_safe_documented : Gen.CtorPath.uses.all (useSafe docTy) = true := by decide +kernel

/-- **C18 (documented configurations never meet an undefined use).**  In a configuration whose options have their
    documented types every consumption of an option downstream of the validation — in the component constructors, in
    `run_sampling` / `execute_iteration`, in the four steps, in the MCMC runners, in the boundary maps, in the pool dispatch,
    in `FunctionWrapper.__call__` — is defined, or sits behind a guard that is false.  The table of consumptions is the one
    regenerated from the source. -/
theorem C18_glue_total_documented (e : Ext) (c : Cfg) (h : Documented e c) : glueTotal e Gen.CtorPath.uses c = true :=
  glueTotal_of_safe e c docTy h _ C18_uses_safe_documented

/-- options for which acceptance by the constructor does NOT imply that every downstream use is defined -/
def gapFields : List Field :=
  [.n_steps, .n_max_steps, .cluster_every, .n_max_clusters, .split_threshold, .pool,
   .random_state, .blobs_dtype, .log_likelihood, .log_likelihood_args, .log_likelihood_kwargs]

theorem C18_uses_safe_accepted_except_gaps :
    Gen.CtorPath.uses.all (fun u => useSafe accTy u || gapFields.contains u.opt) = true := by decide +kernel

/-- the list is minimal: each of its options has a use site that the acceptance typing does not make safe -/
theorem C18_gapFields_minimal :
    gapFields.all (fun f => Gen.CtorPath.uses.any fun u => u.opt == f && !useSafe accTy u) = true := by decide +kernel

/-- **C18 (what acceptance alone buys).**  If `Sampler(...)` returned normally, every downstream consumption of an option
    OUTSIDE `gapFields` — kernel and resampler names, the two index collections, `volume_variation`, `prior_transform`,
    `vectorize`, `clustering`, `normalize`, output directory and label — is defined or unreachable. -/
theorem C18_glue_total_accepted (e : Ext) (c : Cfg)
    (h : construct Gen.Validate.spec Gen.Ctor.wiring Gen.Validate.wrapped c = .accept) :
    ∀ u ∈ Gen.CtorPath.uses, gapFields.contains u.opt = false → useOK e (glueCfg c) u = true := by
  intro u hu hg
  have h1 := List.all_eq_true.mp C18_uses_safe_accepted_except_gaps u hu
  simp only [hg, Bool.or_false] at h1
  exact useSafe_sound e (glueCfg c) accTy (C18_stored_accTy e c h) u h1

/-- the two gap options that are consumed at CONSTRUCTION time are covered by the constructor model itself: an accepted
    configuration with clustering on has a numeric-or-None cluster cap and a `split_threshold` that `float()` accepts -/
theorem C18_accept_wiring_uses (e : Ext) (c : Cfg)
    (h : construct Gen.Validate.spec Gen.Ctor.wiring Gen.Validate.wrapped c = .accept) (hc : (c .clustering).truthy = true) :
    sem e c .numOrNone (c .n_max_clusters) = .ok ∧ sem e c .toFloat (c .split_threshold) = .ok := by
  obtain ⟨_, _, hW⟩ := (C18_construct_accept_iff c).mp h
  obtain ⟨h1, m, hm, _⟩ := hW hc
  constructor
  · cases hv : c .n_max_clusters <;> simp [hv, noneOrNum, V.isNone, V.isNum] at h1 <;> simp [sem, isNumV, V.isNone]
  · simp [sem, hm]

/-! #### the gaps are real: accepted configurations with a use that is certainly reached and undefined -/

/-- no pool-like object, likelihood without blobs -/
def plainExt : Ext := ⟨false, false⟩

def accepts (c : Cfg) : Bool := construct Gen.Validate.spec Gen.Ctor.wiring Gen.Validate.wrapped c == .accept

def definiteErrs (e : Ext) (c : Cfg) : List PyErr := (predict e Gen.CtorPath.uses (glueCfg c)).definite

/-- the default configuration: accepted, and no use is undefined -/
theorem C18_default_glue_total :
    accepts exampleCfg = true ∧ predict plainExt Gen.CtorPath.uses (glueCfg exampleCfg) = ⟨[], [], 0⟩ := by decide +kernel

/-- **closed since /repo b8d82fc** (they were `C18_gap_bool_dimension` / `C18_gap_nonfinite_ess_ratio`: accepted, then a
    `TypeError` from `np.zeros((1, True))` resp. `OverflowError` / `ValueError` from `int(ess_ratio * n_particles)` in the first
    iteration): a bool dimension or particle count and a non-finite ESS ratio / volume-variation target are now REJECTED by the
    regenerated rule table, and `n_dim`, `n_particles`, `ess_ratio` have left `gapFields` (`C18_gapFields_minimal`) -/
theorem C18_closed_gaps_counts_and_targets :
    accepts (exampleCfg.set .n_dim (.bool true)) = false ∧ accepts (exampleCfg.set .n_particles (.bool true)) = false ∧
    accepts (exampleCfg.set .ess_ratio (.float (.inf false))) = false ∧ accepts (exampleCfg.set .ess_ratio (.float .nan)) = false ∧
    accepts (exampleCfg.set .volume_variation (.float (.inf false))) = false ∧
    accepts (exampleCfg.set .volume_variation (.float .nan)) = false ∧
    accepts (exampleCfg.set .periodic (.list [.bool true])) = false ∧
    accepts (exampleCfg.set .reflective (.list [.int 0, .bool false])) = false := by decide +kernel

/-- `cluster_every` is not validated: 0 is accepted and `iter % 0` raises at the first annealing iteration — unless
    clustering is off, in which case the expression is never evaluated -/
theorem C18_gap_cluster_every_zero :
    accepts (exampleCfg.set .cluster_every (.int 0)) = true ∧
      definiteErrs plainExt (exampleCfg.set .cluster_every (.int 0)) = [.zeroDivision] ∧
    accepts ((exampleCfg.set .cluster_every (.int 0)).set .clustering (.bool false)) = true ∧
      predict plainExt Gen.CtorPath.uses (glueCfg ((exampleCfg.set .cluster_every (.int 0)).set .clustering (.bool false))) = ⟨[], [], 0⟩ := by
  decide +kernel

/-- `pool`: anything is accepted; an object without `.map` fails at the first likelihood batch; ints and `None` never do -/
theorem C18_gap_pool :
    accepts (exampleCfg.set .pool (.str "x")) = true ∧ definiteErrs plainExt (exampleCfg.set .pool (.str "x")) = [.attributeError] ∧
    definiteErrs plainExt (exampleCfg.set .pool (.int 1)) = [] ∧ definiteErrs plainExt (exampleCfg.set .pool (.int 2)) = [] ∧
    definiteErrs ⟨true, false⟩ (exampleCfg.set .pool .other) = [] ∧
    definiteErrs plainExt (exampleCfg.set .pool .other) = [.attributeError] := by decide +kernel

/-- `random_state` is handed to `np.random.seed` unchecked -/
theorem C18_gap_random_state :
    accepts (exampleCfg.set .random_state (.int (-1))) = true ∧
      definiteErrs plainExt (exampleCfg.set .random_state (.int (-1))) = [.valueError] ∧
    definiteErrs plainExt (exampleCfg.set .random_state (.str "a")) = [.typeError] ∧
    definiteErrs plainExt (exampleCfg.set .random_state (.int 5)) = [] := by decide +kernel

/-- a non-callable likelihood is hidden by the `FunctionWrapper` until the first call; args / kwargs of the wrong kind too -/
theorem C18_gap_wrapped_likelihood :
    accepts (exampleCfg.set .log_likelihood (.int 5)) = true ∧
      definiteErrs plainExt (exampleCfg.set .log_likelihood (.int 5)) = [.typeError] ∧
    accepts (exampleCfg.set .log_likelihood_args (.int 5)) = true ∧
      definiteErrs plainExt (exampleCfg.set .log_likelihood_args (.int 5)) = [.typeError] ∧
    accepts (exampleCfg.set .log_likelihood_kwargs (.list [])) = true ∧
      definiteErrs plainExt (exampleCfg.set .log_likelihood_kwargs (.list [])) = [.typeError] := by decide +kernel

/-- `blobs_dtype`: any non-None value is accepted; an invalid dtype string fails when the first blobs are packed -/
theorem C18_gap_blobs_dtype :
    accepts (exampleCfg.set .blobs_dtype (.str "a")) = true ∧
      definiteErrs ⟨false, true⟩ (exampleCfg.set .blobs_dtype (.str "a")) = [.typeError] ∧
    definiteErrs ⟨false, true⟩ (exampleCfg.set .blobs_dtype (.str "f8")) = [] := by decide +kernel

theorem indexList_faithful (d : Int) (v : V) (h : indexList d v = true) : boolIndexMisread v = false := by
  rw [indexList_def] at h
  cases v <;> simp [V.iter?] at h <;> simp [boolIndexMisread]
  intro x hx
  have := h x hx
  cases x <;> simp [intItem] at this ⊢

/-- **C18 (accepted index collections are read as coordinates).**  Since /repo b8d82fc a Python bool among the boundary
    indices is rejected (it used to be accepted and read by numpy as a MASK: `periodic=[True]` wrapped every coordinate —
    `C18_bool_index_accepted_misread` of the previous round); whatever the constructor accepts now contains no bool. -/
theorem C18_accepted_index_faithful (c : Cfg)
    (h : construct Gen.Validate.spec Gen.Ctor.wiring Gen.Validate.wrapped c = .accept) :
    boolIndexMisread (c .periodic) = false ∧ boolIndexMisread (c .reflective) = false := by
  obtain ⟨hL, _, _⟩ := (C18_construct_accept_iff c).mp h
  constructor
  · rcases hL.periodic with hn | ⟨d, _, hi⟩
    · cases hv : c .periodic <;> simp [hv, V.isNone] at hn <;> simp [boolIndexMisread]
    · exact indexList_faithful d _ hi
  · rcases hL.reflective with hn | ⟨d, _, hi⟩
    · cases hv : c .reflective <;> simp [hv, V.isNone] at hn <;> simp [boolIndexMisread]
    · exact indexList_faithful d _ hi

/-- documented index lists contain no bool -/
theorem C18_documented_index_faithful (e : Ext) (c : Cfg) (v : V) (h : Shape.has e c .idxList v = true) :
    boolIndexMisread v = false := by
  cases v <;> simp [Shape.has] at h <;> simp [boolIndexMisread]
  rename_i l
  unfold idxAll at h
  cases hd : (c .n_dim).intVal? with
  | none => simp [hd] at h
  | some d =>
    simp only [hd, List.all_eq_true] at h
    intro x hx
    have := h x hx
    cases x <;> simp [idxItem] at this ⊢

/-! #### values computed by the wiring (`max_iterations`, `min_points`) -/

def slotVal (w : Wired) (slot : String) : V := if slot == "maxIter" then w.maxIter else w.minPoints

theorem C18_wired_uses_known :
    Gen.CtorPath.wiredUses.all (fun u =>
      (u.2.1 == "maxIter" && (ctxOf u.2.2 == .safe || ctxOf u.2.2 == .num || ctxOf u.2.2 == .numStrict || ctxOf u.2.2 == .numOrNone)) ||
      (u.2.1 == "minPoints" && (ctxOf u.2.2 == .safe || ctxOf u.2.2 == .numOrNone))) = true := by decide +kernel

theorem wire_slots (c : Cfg) (w : Wired) (h : wire Gen.Ctor.wiring c = .ok w) (hc : (c .clustering).truthy = true)
    (hd : (c .n_dim).isInt = true) : isNumV w.maxIter = true ∧ (w.minPoints.isNone = true ∨ isNumV w.minPoints = true) := by
  unfold wire at h
  simp only [Gen.Ctor.wiring, WExpr.eval, hc, if_true] at h
  cases hm : c .n_max_clusters <;> simp only [hm, V.isNone] at h <;>
    cases hn : c .n_dim <;> simp [hn, V.isInt] at hd <;> simp [hn, V.addInt, V.mulInt] at h <;>
    cases hs : (c .split_threshold).toFloat <;> simp [hs, FV.cmp] at h <;>
    (rename_i a; by_cases hle : a.le (.fin 0) = true <;> simp [hle] at h <;> subst h <;> simp [isNumV, V.isNone])

/-- **C18 (wired values).**  The values `SamplerCore.__init__` computes for the clusterer are consumed only where they are
    defined: `max_iterations` in an ordering against an int, `min_points` tested for `None` and, after its default, ordered -/
theorem C18_wired_uses_defined (e : Ext) (c : Cfg) (w : Wired) (h : wire Gen.Ctor.wiring c = .ok w)
    (hc : (c .clustering).truthy = true) (hd : (c .n_dim).isInt = true) :
    ∀ u ∈ Gen.CtorPath.wiredUses, sem e c (ctxOf u.2.2) (slotVal w u.2.1) = .ok := by
  obtain ⟨h1, h2⟩ := wire_slots c w h hc hd
  intro u hu
  have hk := List.all_eq_true.mp C18_wired_uses_known u hu
  simp only [Bool.or_eq_true, Bool.and_eq_true, beq_iff_eq] at hk
  rcases hk with ⟨hs, hk⟩ | ⟨hs, hk⟩
  · have : slotVal w u.2.1 = w.maxIter := by simp [slotVal, hs]
    rw [this]
    rcases hk with ((hk | hk) | hk) | hk <;> rw [hk] <;> simp [sem, h1]
  · have : slotVal w u.2.1 = w.minPoints := by simp [slotVal, hs]
    rw [this]
    rcases hk with hk | hk <;> rw [hk] <;> simp [sem]
    rcases h2 with h2 | h2 <;> simp [h2]

/-! #### before any likelihood call, read off the data flow -/

/-- functions that run while `Sampler(...)` is being constructed -/
def ctorSites : List String :=
  ["Sampler.__init__", "SamplerConfig.__post_init__", "SamplerConfig.validate", "StateManager.__init__", "SamplerCore.__init__",
   "Reweighter.__init__", "Trainer.__init__", "Resampler.__init__", "Mutator.__init__", "HierarchicalGaussianMixture.__init__",
   "FunctionWrapper.__init__"]

/-- contexts in which the consumed value is CALLED (or handed to `map` / a pool to be called) -/
def callingTags : List String :=
  ["call", "wrapped|call", "wrapped|arg:map:0", "wrapped|arg:self._get_distribute_func():0"]

/-- **C18 (before any likelihood call, second reading).**  G8 follows the two user functions through keyword arguments,
    constructor parameters, attribute stores and local aliases (G2's `C18_before_likelihood` goes by callee names): no site where
    `log_likelihood` or `prior_transform` is called lies in a function that runs during construction; the calls there are —
    the likelihood only in `FunctionWrapper.__call__` / `SamplerCore._log_like`, the prior transform only in `Mutator.run` /
    `BaseMCMCRunner.run`.  So every rejection raised by a constructor precedes every call of a user function. -/
theorem C18_user_functions_not_called_in_constructors :
    Gen.CtorPath.uses.all (fun u =>
      !((u.opt == .log_likelihood || u.opt == .prior_transform) && callingTags.contains u.ctx) || !ctorSites.contains u.site) = true ∧
    (Gen.CtorPath.uses.filter fun u => u.opt == .log_likelihood && callingTags.contains u.ctx).map (·.site)
      = ["FunctionWrapper.__call__", "SamplerCore._log_like", "SamplerCore._log_like", "SamplerCore._log_like"] ∧
    ((Gen.CtorPath.uses.filter fun u => u.opt == .prior_transform && callingTags.contains u.ctx).map (·.site)).eraseDups
      = ["BaseMCMCRunner.run", "Mutator.run"] := by decide +kernel

/-! ### 4. the name dispatches: accepted by `validate()` ⇔ dispatched to a defined branch -/

theorem resample_names : acceptedNames Gen.Validate.rules .resample = some ["mult", "syst"] := by decide +kernel
theorem sample_names : acceptedNames Gen.Validate.rules .sample = some ["tpcn", "rwm"] := by decide +kernel

theorem acceptedNames_mem (rules : List Rule) (f : Field) (lits : List String) (h : acceptedNames rules f = some lits) :
    ∃ r ∈ rules, r.cond = .notIn f lits := by
  unfold acceptedNames at h
  obtain ⟨r, hr, hx⟩ := List.exists_of_findSome?_eq_some h
  refine ⟨r, hr, ?_⟩
  cases hc : r.cond <;> simp [hc] at hx
  obtain ⟨h1, h2⟩ := hx
  subst h1; subst h2; rfl

/-- a configuration `validate()` accepts has, for an option with a name rule, one of the names of that rule -/
theorem accepted_name_of_validate (rules : List Rule) (c : Cfg) (f : Field) (lits : List String)
    (hn : acceptedNames rules f = some lits) (h : validate rules c = .accept) : (c f).notIn lits = false := by
  obtain ⟨r, hr, hc⟩ := acceptedNames_mem rules f lits hn
  have := (validate_accept_iff _ _).mp h r hr
  rw [hc] at this
  simpa [eval] using this

/-- what `Resampler.run` does with a value of the `resample` option (tables regenerated from the source) -/
def resampleDefined (v : V) : Bool :=
  resampleBound Gen.CtorPath.resampleLits Gen.CtorPath.resampleBinds Gen.CtorPath.resampleHasElse Gen.CtorPath.resampleNeeded v

/-- **C18 (resampler dispatch).**  The values of `resample` for which the `if … elif …` chain of `Resampler.run` binds the
    index array it uses afterwards are EXACTLY the values the rule table of `validate()` accepts: every accepted name has a
    branch (no `UnboundLocalError`), and nothing else would (there is no `else`: the rule is what keeps the chain total). -/
theorem C18_resample_dispatch_exact (v : V) (lits : List String)
    (h : acceptedNames Gen.Validate.rules .resample = some lits) : resampleDefined v = true ↔ v.notIn lits = false := by
  rw [resample_names] at h
  cases h
  cases v with
  | str s =>
    by_cases h1 : s = "mult"
    · subst h1; decide
    · by_cases h2 : s = "syst"
      · subst h2; decide
      · have e1 : ("mult" == s) = false := by simpa [beq_iff_eq] using fun h => h1 h.symm
        have e2 : ("syst" == s) = false := by simpa [beq_iff_eq] using fun h => h2 h.symm
        simp [resampleDefined, resampleBound, Gen.CtorPath.resampleLits, Gen.CtorPath.resampleHasElse, List.findIdx?_cons, e1, e2,
          V.notIn, h1, h2]
  | _ => simp [resampleDefined, resampleBound, Gen.CtorPath.resampleHasElse, V.notIn]

theorem C18_resample_dispatch_total (c : Cfg) (h : validate Gen.Validate.rules c = .accept) : resampleDefined (c .resample) = true := by
  exact (C18_resample_dispatch_exact _ _ resample_names).mpr (accepted_name_of_validate _ c _ _ resample_names h)

/-- the runner class `mcmc.parallel_mcmc` ends up instantiating for a value of the `sample` option, provided that class
    defines every abstract method of `BaseMCMCRunner` -/
def runnerOf (v : V) : Option String :=
  kernelRunner Gen.CtorPath.kernelBranches Gen.CtorPath.kernelElse Gen.CtorPath.kernelRunners Gen.CtorPath.abstractMethods
    Gen.CtorPath.runnerMethods v

/-- **C18 (kernel dispatch).**  Every kernel name `validate()` accepts is dispatched to a function that instantiates a
    concrete runner class with all abstract methods defined; distinct names reach distinct classes; and every concrete
    subclass of `BaseMCMCRunner` in the source is reached by an accepted name (no kernel without a name, no name without a
    kernel). -/
theorem C18_kernel_dispatch_total :
    (∀ lits, acceptedNames Gen.Validate.rules .sample = some lits →
      lits.all (fun n => (runnerOf (.str n)).isSome) = true ∧
      (lits.map fun n => runnerOf (.str n)).Nodup ∧
      Gen.CtorPath.runnerMethods.all (fun p => lits.any fun n => runnerOf (.str n) == some p.1) = true) := by
  intro lits h
  rw [sample_names] at h
  cases h
  decide +kernel

theorem C18_kernel_dispatch_accepted (c : Cfg) (h : validate Gen.Validate.rules c = .accept) : (runnerOf (c .sample)).isSome = true := by
  have := accepted_name_of_validate _ c _ _ sample_names h
  cases hv : c .sample <;> simp [hv, V.notIn] at this
  rename_i s
  by_cases h1 : s = "tpcn"
  · subst h1; decide +kernel
  · have h2 := this h1
    subst h2; decide +kernel

/-! ### 5. the option reaches the place that dispatches on it -/

/-- **C18 (flows).**  In the current source the attribute `Resampler.run` dispatches on holds the option `resample`, the
    parameter `parallel_mcmc` dispatches on receives the option `sample` (through `Mutator.sampler`), `have_blobs` of both
    steps is `blobs_dtype is not None`, the index collections reach `apply_boundary_conditions` / `check_bounds` unchanged, and
    every keyword `SamplerCore.__init__` passes to a component is a parameter of that component's constructor bound to the
    same option. -/
theorem C18_component_flows :
    Gen.CtorPath.stores.contains ("Resampler", "resample", "opt", "resample") = true ∧
    Gen.CtorPath.stores.contains ("Mutator", "sampler", "opt", "sample") = true ∧
    Gen.CtorPath.binds.contains ("parallel_mcmc", "sample", "opt", "sample") = true ∧
    Gen.CtorPath.componentArgs.contains ("Resampler", "have_blobs", "notNone", "blobs_dtype") = true ∧
    Gen.CtorPath.componentArgs.contains ("Mutator", "have_blobs", "notNone", "blobs_dtype") = true ∧
    (["periodic", "reflective"].all fun f =>
      Gen.CtorPath.binds.contains ("apply_boundary_conditions", f, "opt", f) && Gen.CtorPath.binds.contains ("check_bounds", f, "opt", f)) = true ∧
    Gen.CtorPath.componentArgs.all (fun a => a.2.2.1 != "opt" ||
      Gen.CtorPath.binds.contains (a.1 ++ ".__init__", a.2.1, "opt", a.2.2.2)) = true := by decide +kernel

/-! ### 6. from the user's input to the downstream configuration -/

/-- the documented types of the options AS GIVEN to `Sampler(...)` (before the defaults) -/
def docInTy : Field → Ty
  | .n_particles => [.none, .int (some 1) none]
  | .n_steps => [.none, .int none none]
  | .n_max_steps => [.none, .int none none]
  | .output_dir => [.none, .strAny, .path]
  | .output_label => [.none, .strAny]
  | f => docTy f

theorem ty_has_iff (e : Ext) (c : Cfg) (t : Ty) (v : V) : Ty.has e c t v = true ↔ ∃ s ∈ t, s.has e c v = true := by
  simp [Ty.has, List.any_eq_true]

/-- a configuration as the documentation describes a valid one: every option of its documented type, plus the two
    cross-option constraints of the statement -/
structure ValidInput (e : Ext) (c : Cfg) : Prop where
  typed : Typed docInTy e c
  vec_blobs : ¬ ((c .vectorize).truthy = true ∧ (c .blobs_dtype).isNone = false)
  disjoint : (c .periodic).isNone = false → (c .reflective).isNone = false → shareIndex (c .periodic) (c .reflective) = false

theorem has_posInt {e : Ext} {c : Cfg} {v : V} (h : Ty.has e c [.int (some 1) none] v = true) : ∃ n, v = .int n ∧ 1 ≤ n := by
  cases v <;> simp [Ty.has, Shape.has, inBounds] at h
  exact ⟨_, rfl, h⟩

theorem has_posNumFin {e : Ext} {c : Cfg} {v : V} (h : Ty.has e c [.int (some 1) none, .floatPosFin] v = true) :
    (∃ n, v = .int n ∧ 1 ≤ n) ∨ ∃ q, v = .float (.fin q) ∧ 0 < q := by
  cases v <;> simp [Ty.has, Shape.has, inBounds] at h
  · exact Or.inl ⟨_, rfl, h⟩
  · rename_i f; cases f <;> simp [Shape.has] at h
    exact Or.inr ⟨_, rfl, h⟩

theorem posNum_of_posNumFin {e : Ext} {c : Cfg} {v : V} (h : Ty.has e c [.int (some 1) none, .floatPosFin] v = true) :
    posNum v = true := by
  rcases has_posNumFin h with ⟨n, rfl, hn⟩ | ⟨q, rfl, hq⟩
  · simp [posNum]; omega
  · simpa [posNum] using hq

theorem idxList_indexList {e : Ext} {c : Cfg} {d : Int} (hd : (c .n_dim).intVal? = some d) {v : V}
    (h : Shape.has e c .idxList v = true) : indexList d v = true := by
  cases v <;> simp [Shape.has] at h
  rename_i l
  unfold idxAll at h
  simp only [hd, List.all_eq_true] at h
  rw [indexList_def]
  simp only [V.iter?, List.all_eq_true]
  intro x hx
  have := h x hx
  cases x <;> simp [idxItem] at this
  simp [intItem, V.intVal?, this]

theorem idxList_or_none {e : Ext} {c : Cfg} {v : V} (h : Ty.has e c [.none, .idxList] v = true) :
    v.isNone = true ∨ Shape.has e c .idxList v = true := by
  simp only [Ty.has, List.any_cons, List.any_nil, Bool.or_false, Bool.or_eq_true] at h
  rcases h with h | h
  · exact Or.inl (by simpa [Shape.has] using h)
  · exact Or.inr h

theorem validInput_listed (e : Ext) (c : Cfg) (h : ValidInput e c) : ValidListed c ∧ SamplerTyped c ∧ WiringOK c := by
  have ht := h.typed
  obtain ⟨d, hdv, hd1⟩ := has_posInt (ht .n_dim)
  have hd : (c .n_dim).intVal? = some d := by rw [hdv]; rfl
  refine ⟨⟨?_, ?_, ?_, ?_, ?_, ?_, h.vec_blobs, ?_, ?_, h.disjoint⟩, ⟨?_, ?_, ?_, ?_, ?_⟩, ?_⟩
  · rw [hdv]; simp [posInt]; omega
  · have := ht .n_particles
    simp only [docInTy, Ty.has, List.any_cons, List.any_nil, Bool.or_false, Bool.or_eq_true] at this
    rcases this with h1 | h1
    · exact Or.inl (by simpa [Shape.has] using h1)
    · cases hv : c .n_particles <;> simp [hv, Shape.has, inBounds] at h1
      exact Or.inr (by simp [posInt]; omega)
  · exact posNum_of_posNumFin (ht .ess_ratio)
  · have := ht .volume_variation
    simp only [docInTy, docTy] at this
    rw [show ([Shape.none, .int (some 1) none, .floatPosFin] : Ty) = Shape.none :: [.int (some 1) none, .floatPosFin] from rfl] at this
    simp only [Ty.has, List.any_cons, Bool.or_eq_true] at this
    rcases this with h1 | h1
    · exact Or.inl (by simpa [Shape.has] using h1)
    · exact Or.inr (posNum_of_posNumFin (by simpa [Ty.has] using h1))
  · have := ht .sample
    cases hv : c .sample <;> simp [docInTy, docTy, hv, Ty.has, Shape.has] at this
    simp [isOneOf, this]
  · have := ht .resample
    cases hv : c .resample <;> simp [docInTy, docTy, hv, Ty.has, Shape.has] at this
    simp [isOneOf, this]
  · rcases idxList_or_none (ht .periodic) with h1 | h1
    · exact Or.inl h1
    · exact Or.inr ⟨d, hd, idxList_indexList hd h1⟩
  · rcases idxList_or_none (ht .reflective) with h1 | h1
    · exact Or.inl h1
    · exact Or.inr ⟨d, hd, idxList_indexList hd h1⟩
  · have := ht .prior_transform
    simpa [docInTy, docTy, Ty.has, Shape.has] using this
  · have := ht .n_steps
    cases hv : c .n_steps <;> simp [docInTy, hv, Ty.has, Shape.has, V.isNone] at this <;> simp [noneOrNum, V.isNone, V.isNum]
  · have := ht .n_max_steps
    cases hv : c .n_max_steps <;> simp [docInTy, hv, Ty.has, Shape.has, V.isNone] at this <;> simp [noneOrNum, V.isNone, V.isNum]
  · have := ht .output_dir
    cases hv : c .output_dir <;> simp [docInTy, hv, Ty.has, Shape.has, V.isNone, V.isPath] at this <;> simp [V.isNone, V.isStr, V.isPath]
  · have := ht .output_label
    cases hv : c .output_label <;> simp [docInTy, hv, Ty.has, Shape.has, V.isNone] at this <;> simp [V.isNone, V.isStr]
  · intro _
    constructor
    · have := ht .n_max_clusters
      cases hv : c .n_max_clusters <;> simp [docInTy, docTy, hv, Ty.has, Shape.has, V.isNone] at this <;>
        simp [noneOrNum, V.isNone, V.isNum]
    · rcases has_posNumFin (ht .split_threshold) with ⟨n, hn, h1⟩ | ⟨q, hq, h1⟩
      · refine ⟨.fin (n : Rat), by rw [hn]; rfl, ?_⟩
        simp only [FV.le, decide_eq_false_iff_not]
        exact Rat.not_le.mpr (by exact_mod_cast (by omega : (0 : Int) < n))
      · exact ⟨.fin q, by rw [hq]; rfl, by simp [FV.le]; exact Rat.not_le.mpr h1⟩

theorem Shape.has_congr_ndim (e : Ext) (c c' : Cfg) (h : c .n_dim = c' .n_dim) (s : Shape) (v : V) :
    s.has e c v = s.has e c' v := by
  cases s <;> cases v <;> simp [Shape.has, idxAll, h, V.iter?]

theorem Ty.has_congr_ndim (e : Ext) (c c' : Cfg) (h : c .n_dim = c' .n_dim) (t : Ty) (v : V) :
    Ty.has e c t v = Ty.has e c' t v := by
  simp only [Ty.has]
  congr 1
  funext s
  exact Shape.has_congr_ndim e c c' h s v

theorem validInput_documented (e : Ext) (c : Cfg) (h : ValidInput e c) (d : Int) (hd : (c .n_dim).intVal? = some d)
    (hrun : runCfg Gen.Validate.spec (wrapFields Gen.Validate.wrapped c) = .ok (postCfg (wrapFields Gen.Validate.wrapped c) d)) :
    Documented e (glueCfg c) := by
  have ht := h.typed
  have hg := glueCfg_eq c d hrun
  have hw : ∀ g, g ≠ .log_likelihood → wrapFields Gen.Validate.wrapped c g = c g := fun g hg' => wrap_other c g hg'
  have hnd : glueCfg c .n_dim = c .n_dim := by
    rw [hg, if_neg (by decide), postCfg_frame _ _ _ (by decide) (by decide) (by decide) (by decide) (by decide), hw _ (by decide)]
  have hsame : ∀ (t : Ty) v, Ty.has e c t v = true → Ty.has e (glueCfg c) t v = true := by
    intro t v hv
    rw [Ty.has_congr_ndim e (glueCfg c) c hnd]; exact hv
  obtain ⟨dn, hdv, hd1⟩ := has_posInt (ht .n_dim)
  have hdd : d = dn := by rw [hdv] at hd; simpa [V.intVal?] using hd.symm
  intro f
  have hf := ht f
  by_cases hll : f = .log_likelihood
  · subst hll
    rw [hg, if_pos rfl]
    exact hsame _ _ (ht .log_likelihood)
  rw [hg, if_neg hll]
  cases f
  case log_likelihood => exact absurd rfl hll
  case n_particles =>
    rw [postCfg_n_particles, hw _ (by decide)]
    have := ht .n_particles
    cases hv : c .n_particles <;> simp [docInTy, hv, Ty.has, Shape.has, V.isNone, inBounds] at this <;>
      simp [docTy, V.isNone, Ty.has, Shape.has, inBounds, this]
    omega
  case n_steps =>
    rw [postCfg_n_steps, hw _ (by decide)]
    have := ht .n_steps
    cases hv : c .n_steps <;> simp [docInTy, hv, Ty.has, Shape.has, V.isNone] at this
    · rename_i n
      by_cases hn : n ≤ 0
      · simp [noneOrLe0, hn, docTy, Ty.has, Shape.has, inBounds]
      · simp [noneOrLe0, hn, docTy, Ty.has, Shape.has, inBounds]; omega
    · simp [noneOrLe0, docTy, Ty.has, Shape.has, inBounds]
  case n_max_steps =>
    rw [postCfg_n_max_steps, hw _ (by decide), hw _ (by decide)]
    have h1 := ht .n_steps
    have h2 := ht .n_max_steps
    have hs : ∃ k, (if noneOrLe0 (c .n_steps) = true then V.int 1 else c .n_steps) = .int k ∧ 1 ≤ k := by
      cases hv : c .n_steps <;> simp [docInTy, hv, Ty.has, Shape.has, V.isNone] at h1
      · rename_i n
        by_cases hn : n ≤ 0
        · exact ⟨1, by simp [noneOrLe0, hn], by omega⟩
        · exact ⟨n, by simp [noneOrLe0, hn], by omega⟩
      · exact ⟨1, by simp [noneOrLe0], by omega⟩
    obtain ⟨k, hk, hk1⟩ := hs
    rw [hk]
    cases hv : c .n_max_steps <;> simp [docInTy, hv, Ty.has, Shape.has, V.isNone] at h2
    · rename_i n
      by_cases hn : n ≤ 0
      · simp [noneOrLe0, hn, mulNum, docTy, Ty.has, Shape.has, inBounds]; omega
      · simp [noneOrLe0, hn, docTy, Ty.has, Shape.has, inBounds]; omega
    · simp [noneOrLe0, mulNum, docTy, Ty.has, Shape.has, inBounds]; omega
  case output_dir =>
    rw [postCfg_output_dir, hw _ (by decide)]
    have := ht .output_dir
    cases hv : c .output_dir <;> simp [docInTy, hv, Ty.has, Shape.has, V.isNone, V.isPath] at this <;>
      simp [docTy, V.isNone, V.isStr, Ty.has, Shape.has, V.isPath]
  case output_label =>
    rw [postCfg_output_label, hw _ (by decide)]
    have := ht .output_label
    cases hv : c .output_label <;> simp [docInTy, hv, Ty.has, Shape.has, V.isNone] at this <;>
      simp [docTy, V.isNone, Ty.has, Shape.has]
  case periodic =>
    rw [postCfg_frame _ _ _ (by decide) (by decide) (by decide) (by decide) (by decide), hw _ (by decide)]
    exact hsame _ _ (ht .periodic)
  case reflective =>
    rw [postCfg_frame _ _ _ (by decide) (by decide) (by decide) (by decide) (by decide), hw _ (by decide)]
    exact hsame _ _ (ht .reflective)
  all_goals
    rw [postCfg_frame _ _ _ (by decide) (by decide) (by decide) (by decide) (by decide), hw _ (by decide)]
    exact hsame _ _ hf

/-- **C18 (valid ⇒ constructed, and nothing undefined downstream).**  A configuration in which every option has its
    documented type, the likelihood is not both vectorised and blob-returning, and the two index lists are disjoint
    (i) is accepted by `Sampler(...)` and (ii) meets no undefined dictionary lookup / dispatch / division / index /
    conversion / attribute access at any of the use sites of the current source.  What this does NOT say: that the
    numerical linear algebra of the run succeeds (singular covariances etc.) — that part is executed, not proved. -/
theorem C18_valid_input_accepted_and_total (e : Ext) (c : Cfg) (h : ValidInput e c) :
    construct Gen.Validate.spec Gen.Ctor.wiring Gen.Validate.wrapped c = .accept ∧
    glueTotal e Gen.CtorPath.uses (glueCfg c) = true := by
  obtain ⟨hL, hT, hW⟩ := validInput_listed e c h
  have hacc := (C18_construct_accept_iff c).mpr ⟨hL, hT, hW⟩
  obtain ⟨d, hd, _, hrun, _⟩ := construct_accept_stored c hacc
  exact ⟨hacc, C18_glue_total_documented e _ (validInput_documented e c h d hd hrun)⟩


/-! ### non-vacuity -/

/-- the default configuration is a `ValidInput` -/
example : ValidInput plainExt exampleCfg :=
  ⟨fun f => by cases f <;> decide +kernel, by decide +kernel, by decide +kernel⟩

/-- a non-default one: boundary lists, dynamic mode, integer pool, cluster cap, cadence 3, seed, blobs dtype, `rwm`/`syst` -/
def exampleCfg2 : Cfg :=
  ((((((((((exampleCfg.set .periodic (.list [.int 0])).set .reflective (.list [.int 2, .int 1])).set .volume_variation
    (.float (.fin (1 / 2)))).set .pool (.int 2)).set .n_max_clusters (.int 2)).set .cluster_every (.int 3)).set .random_state
    (.int 7)).set .blobs_dtype (.str "f8")).set .sample (.str "rwm")).set .resample (.str "syst")).set .n_steps (.int 2)

example : ValidInput ⟨false, true⟩ exampleCfg2 :=
  ⟨fun f => by cases f <;> decide +kernel, by decide +kernel, by decide +kernel⟩

example : glueTotal ⟨false, true⟩ Gen.CtorPath.uses (glueCfg exampleCfg2) = true :=
  (C18_valid_input_accepted_and_total _ _ ⟨fun f => by cases f <;> decide +kernel, by decide +kernel, by decide +kernel⟩).2

-- hypotheses of `C18_stored_accTy` / `C18_glue_total_accepted` are satisfiable: the default configuration is accepted
example : Typed accTy plainExt (glueCfg exampleCfg) := C18_stored_accTy _ _ (by decide +kernel)
example : ∀ u ∈ Gen.CtorPath.uses, gapFields.contains u.opt = false → useOK plainExt (glueCfg exampleCfg) u = true :=
  C18_glue_total_accepted _ _ (by decide +kernel)
-- … and of `C18_wired_uses_defined`: with a cluster cap the clusterer is wired, and its computed values are consumed safely
example : ∃ w, wire Gen.Ctor.wiring (exampleCfg.set .n_max_clusters (.int 2)) = .ok w ∧
    ∀ u ∈ Gen.CtorPath.wiredUses, sem plainExt (exampleCfg.set .n_max_clusters (.int 2)) (ctxOf u.2.2) (slotVal w u.2.1) = .ok := by
  obtain ⟨w, hw⟩ := (wire_ok_iff (exampleCfg.set .n_max_clusters (.int 2)) (by decide +kernel)).mpr
    fun _ => ⟨by decide +kernel, .fin 1, rfl, by decide +kernel⟩
  exact ⟨w, hw, C18_wired_uses_defined _ _ w hw (by decide +kernel) (by decide +kernel)⟩

-- the abstract interpretation is not vacuous: a reachable, defined use; an unreachable one; an undefined one
example : useSafe docTy ⟨"Trainer.run", .cluster_every, "mod:right:expr", .and (.not (.fact "warmup")) (.truthy .clustering)⟩ = true := by
  decide +kernel
example : useSafe accTy ⟨"Trainer.run", .cluster_every, "mod:right:expr", .and (.not (.fact "warmup")) (.truthy .clustering)⟩ = false := by
  decide +kernel
example : useSafe docTy ⟨"SamplerCore._get_distribute_func", .pool, "attr:map",
    .and (.not (.or (.isNone .pool) (.and (.isInt .pool) (.cmpK .le .pool 1)))) (.not (.and (.isInt .pool) (.cmpK .gt .pool 1)))⟩ = true := by
  decide +kernel
-- … which needs the guard: without it `.map` on an int is an AttributeError
example : useSafe docTy ⟨"SamplerCore._get_distribute_func", .pool, "attr:map", .tt⟩ = false := by decide +kernel
-- dispatch: the real names, and a name the rule rejects
example : resampleDefined (.str "syst") = true ∧ resampleDefined (.str "systematic") = false ∧ resampleDefined (.int 0) = false := by
  decide +kernel
example : runnerOf (.str "rwm") = some "RWMRunner" ∧ runnerOf (.str "tpcn") = some "TPCNRunner" := by decide +kernel

end Props.C18
