import TempestVerif.Model.Weights
import TempestVerif.Model.WeightsKeys
import TempestVerif.Model.PosteriorX
import TempestVerif.Model.ClosedLoop
import TempestVerif.Gen.WeightSrc
/-
  C04 — the executable models `Model.Weights` / `Model.WeightsKeys` (the weight function) and the arithmetic / decision
  part of `Model.Posterior` / `Model.PosteriorX` (what `posterior()` / `evidence()` hand out) are built from the expressions
  that are in /repo's `state_manager.py: compute_logw_and_logz` and `core.py: compute_posterior / compute_evidence` NOW.

  `Gen/WeightSrc.lean` is regenerated from the source on every run of the check (translator G13b, second half of
  `translate/g13_wsites.py`): locals renamed `v0, v1, …` in order of first binding; every arithmetic right-hand side
  compiled, elementwise, to a term over `ScT α` (`logw_<path>`, `post_<path>`; `…_full` = with the arithmetic definitions of
  the locals substituted; parameters `a0 a1 …` = the leaves in a canonical order that does not depend on where a leaf stands in the
  expression — locals by number, then other leaves by text — so a swap of operands changes the TERM); every `if` test compiled to a Bool term (`…_test`); the `return` tree compiled to a function
  (`post_9_ret`); the statement skeleton, the source text of every parameter of every term (`…Leaves`) and the index gathers
  as tables.  The theorems below hold by `rfl` (or `cases <;> rfl` on Booleans / list constructors) for EVERY scalar type,
  `Float` — what the driver executes — included: the model's definitions unfold to the generated terms.  A changed operator,
  operand order, literal, test or branch in the source changes a generated term and breaks a theorem here; a dropped, added
  or reordered statement changes the paths (the names of the generated terms) and the skeleton tables.

  Canonical locals (rows of `logwCanon` / `postCanon`, pinned below):
    compute_logw_and_logz:  v0 beta  v1 logz_iter  v2 logl_all  v3 A  v4 logl_per_iter  v5 n_per_iter  (v6 comprehension index)
                            v7 N_total  v8 b  v9 log_mixture_weights  v10 b_weighted  v11 B  v12 logw  v13 logz_new
    compute_posterior:      v0 logw  v1 logz  v2 weights  v3 u  v4 x  v5 logl  v6 blobs  v7 idx

  Still hand-written (not part of /repo, or not arithmetic): numpy's primitives — `logaddexp` / `logaddexpReduce1`
  (`npy_logaddexp`, `ufunc.reduce` as a left fold), `Model.Ess.maxOf` / `Sc.sum` (`np.max`, `np.sum` as left folds),
  `np.ones(n)` = n ones, elementwise broadcasting as nested `map`, `get_history(.., flat=True)` as `flatMap` (`flatLogl`);
  and WHICH list each parameter of a generated term is instantiated with — that wiring is what the `…Leaves` tables and the
  skeletons pin as text.
-/
namespace Props.C04Src
open Gen.WeightSrc
variable {α : Type} [ScT α]

/-! ## `compute_logw_and_logz` → `Model.Weights` -/
section weights
open Model.Weights

/-- `b_weighted[s, t]`: statements 8–10 (`b`, `log_mixture_weights`, `b_weighted`), composed by the source's data flow
    (`logw_10_full`) and statement by statement.  `N` is `N_total` as a scalar; the model passes its logarithm. -/
theorem C04_src_entry (N l : α) (b : Batch α) :
    entry (ScT.log N) l b = logw_10_full b.beta b.logz l (Sc.ofNat b.logl.length) N ∧
    entry (ScT.log N) l b = logw_10 (logw_8 b.beta b.logz l) (logw_9 (Sc.ofNat b.logl.length) N) := ⟨rfl, rfl⟩

/-- `B[s] = np.logaddexp.reduce(b_weighted[s, :])` (statement 11: a leaf — numpy's reduction — over the generated entries) -/
theorem C04_src_mixLog (b0 : Batch α) (bs : List (Batch α)) (N l : α) :
    mixLog b0 bs (ScT.log N) l =
      logaddexpReduce1 (logw_10_full b0.beta b0.logz l (Sc.ofNat b0.logl.length) N)
        (bs.map fun b => logw_10_full b.beta b.logz l (Sc.ofNat b.logl.length) N) := rfl

/-- `A = logl_all * beta_final`, `logw = A - B` (statements 4, 12), with `N_total = n_per_iter.sum()` converted by `np.log` -/
theorem C04_src_rawLogw (b0 : Batch α) (bs : List (Batch α)) (beta : α) :
    rawLogw b0 bs beta =
      (flatLogl (b0 :: bs)).map (fun l =>
        logw_12 (logw_4 l beta) (mixLog b0 bs (ScT.log (Sc.ofNat (nTotal (b0 :: bs)))) l)) ∧
    rawLogw b0 bs beta =
      (flatLogl (b0 :: bs)).map (fun l =>
        logw_12_full l (mixLog b0 bs (ScT.log (Sc.ofNat (nTotal (b0 :: bs)))) l) beta) := ⟨rfl, rfl⟩

/-- the whole per-particle expression in the source's own terms: `β·ℓ − lae_t((ℓ·β_t − z_t) + (log n_t − log N))` -/
theorem C04_src_rawLogw_row (b0 : Batch α) (bs : List (Batch α)) (beta : α) :
    rawLogw b0 bs beta =
      (flatLogl (b0 :: bs)).map (fun l =>
        logw_12_full l
          (logaddexpReduce1
            (logw_10_full b0.beta b0.logz l (Sc.ofNat b0.logl.length) (Sc.ofNat (nTotal (b0 :: bs))))
            (bs.map fun b => logw_10_full b.beta b.logz l (Sc.ofNat b.logl.length) (Sc.ofNat (nTotal (b0 :: bs)))))
          beta) := rfl

/-- statements 13–15: `logz_new = lae(logw) − log(logw.size)`; `if normalize and logw.size: logw = logw − lae(logw)`.
    On the empty array the source's test is false (no normalisation) — the model returns `[]` there. -/
theorem C04_src_finish (w : List α) (normalize : Bool) :
    finish w normalize =
      (match w with
       | [] => ([], none)
       | w0 :: ws =>
         let lse := logaddexpReduce1 w0 ws
         (if logw_14_test normalize (w0 :: ws).length then (w0 :: ws).map (fun x => logw_14t_0 x lse) else w0 :: ws,
          some (logw_13 lse (Sc.ofNat (w0 :: ws).length)))) ∧
    logw_14_test normalize ([] : List α).length = false := by
  refine ⟨?_, by cases normalize <;> rfl⟩
  cases w with
  | nil => rfl
  | cons w0 ws => cases normalize <;> rfl

/-- statement 1 (`if beta.size == 0: return np.array([]), -np.inf`) and the rest of the function -/
theorem C04_src_logw (h : List (Batch α)) (beta : α) (normalize : Bool) :
    logw h beta normalize =
      if logw_1_test (h.map (·.beta)).length then ([], none)
      else match h with
        | [] => ([], none)
        | b0 :: bs => finish (rawLogw b0 bs beta) normalize := by
  cases h <;> rfl

end weights

/-! ## … → the key-level model `Model.WeightsKeys` -/
section keys
open Model.Weights Model.WeightsKeys

theorem C04_src_entryK (N l : α) (c : Col α) :
    entryK (ScT.log N) l c = logw_10_full c.beta c.logz l (Sc.ofNat c.n) N := rfl

theorem C04_src_rawK (c0 : Col α) (cr : List (Col α)) (N : α) (ls : List α) (betaF : α) :
    rawK (c0 :: cr) (ScT.log N) ls betaF =
      some (ls.map fun l =>
        logw_12_full l
          (logaddexpReduce1 (logw_10_full c0.beta c0.logz l (Sc.ofNat c0.n) N)
            (cr.map fun c => logw_10_full c.beta c.logz l (Sc.ofNat c.n) N))
          betaF) := rfl

/-- the early return is taken exactly when the source's test `beta.size == 0` holds, whatever the other keys hold -/
theorem C04_src_logwK_guard (k : KHist α) (betaF : α) (normalize : Bool) :
    k.beta.isEmpty = logw_1_test k.beta.length ∧
    (logw_1_test k.beta.length = true → logwK k betaF normalize = .ok [] none) := by
  rcases k with ⟨b, z, l⟩
  cases b with
  | nil => exact ⟨rfl, fun _ => rfl⟩
  | cons b0 bs => exact ⟨rfl, fun h => by cases h⟩

/-- `compute_results`: the cache test, then `logw, _ = self.compute_logw_and_logz(1.0)` — the literal target of the source and the
    signature's default `normalize=True` (no caller passes it: `C04_src_call_sites`) -/
theorem C04_src_computeResults (s : SMK α) :
    computeResults s =
      match s.cache with
      | some d => (s, .dict d)
      | none =>
        if ragged s.hist.logl then ({ s with cache := some .nologw }, .raised)
        else
          match logwK s.hist res_0t_2_arg0 logw_default_2 with
          | .ok w _ => ({ s with cache := some (.logw w) }, .dict (.logw w))
          | .outside => ({ s with cache := some .outside }, .dict .outside)
          | _ => ({ s with cache := some .nologw }, .raised) := rfl

omit [ScT α] in
/-- the cache is consulted exactly when the source's test `self._results_dict is None` fails -/
theorem C04_src_cache_test (s : SMK α) : res_0_test s.cache.isNone = s.cache.isNone := rfl

end keys

/-! ## the four observation points that fix the target temperature → `Model.ClosedLoop` (C10's closed-loop model, used by
      `Props/C04Post.lean`): the literal `1.0` and the default `normalize=True` are the source's -/
section sites
open Model.Weights Model.ClosedLoop
variable {P TS G : Type}

theorem C04_src_finalLogz (s : CState α P TS G) :
    finalLogz s = (logw (batchesOf s.hist) site0_arg0 logw_default_2).2 := rfl

theorem C04_src_posteriorArrs (s : CState α P TS G) :
    posteriorArrs s =
      ⟨poolOf s.hist, flatLogl (batchesOf s.hist), poolOf s.hist, (logw (batchesOf s.hist) post_0_arg0 logw_default_2).1, []⟩ ∧
    (post_0_arg0 : α) = site1_arg0 := ⟨rfl, rfl⟩

theorem C04_src_contGuard (c : CCfg α) (s : CState α P TS G) :
    contGuard c s =
      Model.Run.notTermination c.tolTerm s.beta (logw (batchesOf s.hist) site2_arg0 logw_default_2).1 c.nTotal := rfl

/-- closed world: these are all the calls, each passes ONE positional argument (so `normalize` is the default everywhere) -/
theorem C04_src_call_sites : callSites =
    [("site0", "SamplerCore.run_sampling", "1.0"),
     ("site1", "SamplerCore.compute_posterior", "1.0"),
     ("site2", "SamplerCore._not_termination", "1.0"),
     ("site3", "StateManager.compute_results", "1.0"),
     ("site4", "Reweighter._compute_metric_and_weights", "beta"),
     ("site5", "Reweighter.run", "beta"),
     ("site6", "Reweighter.run", "beta")] ∧ (site3_arg0 : α) = res_0t_2_arg0 := ⟨by decide, rfl⟩

end sites

/-! ## `compute_posterior` → `Model.Posterior` / `Model.PosteriorX` -/
section posterior
open Model.Posterior Model.PosteriorX
variable {X L B : Type}

/-- `weights = np.exp(logw - np.max(logw))` -/
theorem C04_src_expShift (x : α) (xs : List α) :
    expShift x xs = (x :: xs).map fun l => post_1 l (Model.Ess.maxOf x xs) := rfl

/-- `weights /= np.sum(weights)` (the expression `Model.Ess.normalise` is used for here) -/
theorem C04_src_normalise (w : List α) : Model.Ess.normalise w = w.map fun y => post_2 y (Sc.sum w) := rfl

/-- statements 1–2 together; `none` = `np.max` of an empty array raises -/
theorem C04_src_weights0 :
    weights0 ([] : List α) = none ∧
    ∀ (x : α) (xs : List α), weights0 (x :: xs) =
      some (((x :: xs).map fun l => post_1 l (Model.Ess.maxOf x xs)).map fun y =>
        post_2 y (Sc.sum ((x :: xs).map fun l => post_1 l (Model.Ess.maxOf x xs)))) := ⟨rfl, fun _ _ => rfl⟩

/-- `weights = np.ones(len(idx)) / len(idx)` (leaves: `len(v7)` ↦ n, `np.ones(len(v7))` ↦ 1) -/
theorem C04_src_uniformW (n : Nat) :
    (uniformW n : List α) = List.replicate n (post_8t_7 (Sc.ofNat n) (Sc.ofNat 1)) := rfl

omit [ScT α] in
/-- the blob gate `if config.blobs_dtype is not None or state.get_current('blobs') is not None` -/
theorem C04_src_blobsOf (h : Hist X L B α) :
    blobsOf h =
      if post_6_test h.declared h.curBlobs then
        (match h.blobsHist with
         | [] => none
         | bs => some (some bs.flatten))
      else some none := rfl

omit [ScT α] in
/-- `if trim_importance_weights: …` then `if resample: …`, in this order, each on its own flag -/
theorem C04_src_bodyOWith (trimFields resFields : List String) (trimFn : List α → Option (List Nat × List α))
    (resFn : List α → Option (List Nat)) (uniform : Nat → List α) (o : Opts) (a : ArrsO X L B α) :
    bodyOWith trimFields resFields trimFn resFn uniform o a =
      (if post_7_test o.trim then
          (trimFn a.w).bind fun t => (gatherArrsO trimFields t.1 a).map fun a' => { a' with w := t.2 }
        else some a).bind fun a1 =>
      if post_8_test o.resample then
        (resFn a1.w).bind fun idx => (gatherArrsO resFields idx a1).map fun a' => { a' with w := uniform idx.length }
      else some a1 := rfl

/-- `if blobs is not None: blobs = blobs[idx]` — blobs are gathered only when present (tests `post_7t_6_test`, `post_8t_6_test`) -/
theorem C04_src_gatherBlobs (fields : List String) (idx : List Nat) (b : Option (List B)) (hf : fields.contains "blobs" = true) :
    gatherBlobs fields idx b =
      (if post_7t_6_test b.isSome then b.bind fun v => (Model.Records.gather? v idx).map some else some none) ∧
    gatherBlobs fields idx b =
      (if post_8t_6_test b.isSome then b.bind fun v => (Model.Records.gather? v idx).map some else some none) := by
  cases b with
  | none => exact ⟨rfl, rfl⟩
  | some v =>
    have hm : "blobs" ∈ fields := by simpa using hf
    simp [gatherBlobs, hm, post_7t_6_test, post_8t_6_test]

/-- the model's name for a canonical local of `compute_posterior` (rows 0–6 of `postCanon`: `v0, v1 = compute_logw_and_logz(1.0)`,
    `v2 = np.exp(…)`, `v3/v4/v5 = get_history('u'/'x'/'logl', flat=True)`, `v6 = get_history('blobs', flat=True) | None`) -/
def postVar : String → String
  | "v0" => "logw" | "v2" => "weights" | "v3" => "u" | "v4" => "x" | "v5" => "logl" | "v6" => "blobs" | s => s

omit [ScT α] in
/-- the four `return` statements: `return_blobs and blobs is not None`, then `return_logw` -/
theorem C04_src_select (o : Opts) (a : ArrsO X L B α) :
    (select o a).map Col.name = (post_9_ret o.returnBlobs o.returnLogw a.b.isSome).map postVar := by
  rcases o with ⟨rs, tr, rb, rl⟩
  rcases a with ⟨x, l, b, lw, w⟩
  cases rb <;> cases rl <;> cases b <;> rfl

theorem C04_src_returnNames (haveBlobs : Bool) (o : Opts) :
    returnNames haveBlobs o = (post_9_ret o.returnBlobs o.returnLogw haveBlobs).map postVar := by
  rcases o with ⟨rs, tr, rb, rl⟩
  cases rb <;> cases rl <;> cases haveBlobs <;> rfl

/-- the tree at 9 is built from the two sub-trees and the three tests as written -/
theorem C04_src_ret_tree (rb present rl : Bool) :
    post_9_ret rb rl present = (if post_9_test rb present then post_9t_0_ret rl else post_9e_0_ret rl) ∧
    post_9t_0_test rl = rl ∧ post_9e_0_test rl = rl := ⟨rfl, rfl, rfl⟩

/-- which arrays each branch gathers, and by which index: the field lists the models are instantiated with
    (`Gen.Tables.posteriorTrimGather / posteriorResampleGather` of G5) re-derived with their paths; the blob gathers are the
    guarded ones (`7t.6t.0`, `8t.6t.0`) -/
theorem C04_src_post_gathers :
    postGathers.map (fun g => (g.1, postVar g.2.1, g.2.2)) =
      [("7t.2", "u", "v7"), ("7t.3", "x", "v7"), ("7t.4", "logl", "v7"), ("7t.5", "logw", "v7"), ("7t.6t.0", "blobs", "v7"),
       ("8t.2", "u", "v7"), ("8t.3", "x", "v7"), ("8t.4", "logl", "v7"), ("8t.5", "logw", "v7"), ("8t.6t.0", "blobs", "v7")] := by
  decide

end posterior

/-! ## the statement skeletons and the leaf tables the models were written against (locals canonical) -/

def expected_logwCanon : List String :=
  ["0: v0 = np.asarray(self.get_history('beta'))",
   "1: if v0.size == 0",
   "1t.0: return (np.array([]), -np.inf)",
   "2: v1 = np.asarray(self.get_history('logz'))",
   "3: v2 = self.get_history('logl', flat=True)",
   "4: v3 = v2 * beta_final",
   "5: v4 = self._history.get('logl')",
   "6: v5 = np.array([len(v4[v6]) for v6 in range(len(v0))])",
   "7: v7 = v5.sum()",
   "8: v8 = v2[:, None] * v0[None, :] - v1[None, :]",
   "9: v9 = np.log(v5) - np.log(v7)",
   "10: v10 = v8 + v9[None, :]",
   "11: v11 = np.logaddexp.reduce(v10, axis=1)",
   "12: v12 = v3 - v11",
   "13: v13 = np.logaddexp.reduce(v12) - np.log(v12.size)",
   "14: if normalize and v12.size",
   "14t.0: v12 = v12 - np.logaddexp.reduce(v12)",
   "15: return (v12, v13)"]

theorem C04_src_logw_canon : logwCanon = expected_logwCanon := rfl

/-- what every parameter of every generated term of `compute_logw_and_logz` IS in the source: in particular the axes
    (`v2[:, None]` per particle, `v0[None, :]`, `v1[None, :]`, `v5` per iteration), that `B` (`v11`) is the reduction of
    `b_weighted` (`v10`, row 11 of the skeleton), that the evidence and the normalisation reduce the SAME `v12`, and that the
    mean is over `v12.size` -/
def expected_logwLeaves : List (String × List String) :=
  [("logw_default_1", ["beta_final=1.0"]),
   ("logw_default_2", ["normalize=True"]),
   ("logw_1_test", ["v0.size"]),
   ("logw_4", ["v2", "beta_final"]),
   ("logw_8", ["v0[None, :]", "v1[None, :]", "v2[:, None]"]),
   ("logw_9", ["v5", "v7"]),
   ("logw_10", ["v8", "v9[None, :]"]),
   ("logw_10_full", ["v0[None, :]", "v1[None, :]", "v2[:, None]", "v5", "v7"]),
   ("logw_12", ["v3", "v11"]),
   ("logw_12_full", ["v2", "v11", "beta_final"]),
   ("logw_13", ["np.logaddexp.reduce(v12)", "v12.size"]),
   ("logw_14_test", ["normalize", "v12.size"]),
   ("logw_14t_0", ["v12", "np.logaddexp.reduce(v12)"]),
   ("logw_14t_0_full", ["v2", "v11", "beta_final", "np.logaddexp.reduce(v12)"])]

theorem C04_src_logw_leaves : logwLeaves = expected_logwLeaves := by decide

def expected_postCanon : List String :=
  ["0: v0, v1 = self.state.compute_logw_and_logz(1.0)",
   "1: v2 = np.exp(v0 - np.max(v0))",
   "2: v2 /= np.sum(v2)",
   "3: v3 = self.state.get_history('u', flat=True)",
   "4: v4 = self.state.get_history('x', flat=True)",
   "5: v5 = self.state.get_history('logl', flat=True)",
   "6: if self.config.blobs_dtype is not None or self.state.get_current('blobs') is not None",
   "6t.0: v6 = self.state.get_history('blobs', flat=True)",
   "6e.0: v6 = None",
   "7: if trim_importance_weights",
   "7t.0: from .tools import trim_weights",
   "7t.1: v7, v2 = trim_weights(np.arange(len(v2)), v2, ess=ess_trim, bins=bins_trim)",
   "7t.2: v3 = v3[v7]",
   "7t.3: v4 = v4[v7]",
   "7t.4: v5 = v5[v7]",
   "7t.5: v0 = v0[v7]",
   "7t.6: if v6 is not None",
   "7t.6t.0: v6 = v6[v7]",
   "8: if resample",
   "8t.0: from .tools import systematic_resample",
   "8t.1: v7 = systematic_resample(len(v2), v2)",
   "8t.2: v3 = v3[v7]",
   "8t.3: v4 = v4[v7]",
   "8t.4: v5 = v5[v7]",
   "8t.5: v0 = v0[v7]",
   "8t.6: if v6 is not None",
   "8t.6t.0: v6 = v6[v7]",
   "8t.7: v2 = np.ones(len(v7)) / len(v7)",
   "9: if return_blobs and v6 is not None",
   "9t.0: if return_logw",
   "9t.0t.0: return (v4, v2, v5, v6, v0)",
   "9t.0e.0: return (v4, v2, v5, v6)",
   "9e.0: if return_logw",
   "9e.0t.0: return (v4, v2, v5, v0)",
   "9e.0e.0: return (v4, v2, v5)"]

theorem C04_src_post_canon : postCanon = expected_postCanon := rfl

def expected_postLeaves : List (String × List String) :=
  [("post_default_1", ["resample=False"]),
   ("post_default_2", ["return_blobs=False"]),
   ("post_default_3", ["trim_importance_weights=True"]),
   ("post_default_4", ["return_logw=False"]),
   ("post_default_5", ["ess_trim=0.99"]),
   ("post_default_6", ["bins_trim=1000"]),
   ("post_0_arg0", []),
   ("post_1", ["v0", "np.max(v0)"]),
   ("post_2", ["v2", "np.sum(v2)"]),
   ("post_2_full", ["v0", "np.max(v0)", "np.sum(v2)"]),
   ("post_6_test", ["self.config.blobs_dtype is not None", "self.state.get_current('blobs') is not None"]),
   ("post_7_test", ["trim_importance_weights"]),
   ("post_7t_6_test", ["v6 is not None"]),
   ("post_8_test", ["resample"]),
   ("post_8t_6_test", ["v6 is not None"]),
   ("post_8t_7", ["len(v7)", "np.ones(len(v7))"]),
   ("post_9_test", ["return_blobs", "v6 is not None"]),
   ("post_9_ret", ["return_blobs", "return_logw", "v6 is not None"]),
   ("post_9t_0_test", ["return_logw"]),
   ("post_9t_0_ret", ["return_logw"]),
   ("post_9e_0_test", ["return_logw"]),
   ("post_9e_0_ret", ["return_logw"])]

theorem C04_src_post_leaves : postLeaves = expected_postLeaves := by decide

/-- `compute_results` (mirrored by `Model.WeightsKeys.computeResults`): the cache is assigned BEFORE the loop that can raise -/
theorem C04_src_res_canon : resCanon =
    ["0: if self._results_dict is None",
     "0t.0: self._results_dict = dict()",
     "0t.1: for v0 in self._history.keys()",
     "0t.1.0: self._results_dict[v0] = self.get_history(v0)",
     "0t.2: v1, _ = self.compute_logw_and_logz(1.0)",
     "0t.3: self._results_dict['logw'] = v1",
     "1: return {v2: self._ensure_copy(v3) for v2, v3 in self._results_dict.items()}"] ∧
    resLeaves = [("res_0_test", ["self._results_dict is None"]), ("res_0t_2_arg0", [])] := by decide

/-- `evidence()` hands out the current `logz` slot (what the epilogue of `run_sampling` wrote: `Model.ClosedLoop.evidence`) -/
theorem C04_src_evid_canon :
    evidCanon = ["0: v0 = self.state.get_current('logz')", "1: return (v0, getattr(self, 'logz_err', None))"] ∧
    evidLeaves = [] := by decide

/-! ## non-vacuity: the generated terms evaluate, at `Float`, to what the model computes -/

example : (Model.Weights.logw [⟨(0.0 : Float), 0.0, [1.0, 2.0]⟩, ⟨1.0, 0.5, [3.0]⟩] 1.0 true).1.length = 3 := by
  simp [Model.Weights.logw, Model.Weights.finish, Model.Weights.rawLogw, Model.Weights.flatLogl]

example : post_9_ret true false true = ["v4", "v2", "v5", "v6"] := rfl
example : logw_14_test true 3 = true ∧ logw_14_test true 0 = false ∧ logw_1_test 0 = true ∧ logw_1_test 2 = false := by decide

end Props.C04Src
