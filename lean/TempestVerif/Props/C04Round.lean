import TempestVerif.Model.Weights
import TempestVerif.Lemmas.Rounded
import Mathlib.Analysis.SpecialFunctions.Log.Basic
import Mathlib.Analysis.SpecialFunctions.Exp
import Mathlib.Tactic
/-
  C04, clause "stay finite for finite log-likelihoods of any magnitude" — at the level of ROUNDED
  arithmetic.  The same model `Model.Weights` is instantiated at `Rd rnd` (every inexact operation
  rounded by `rnd`), for an arbitrary rounding function obeying the standard model of floating-point
  arithmetic below the overflow threshold Ω and unconstrained above it (`RoundModel`).  The theorems
  bound every returned number by an explicit expression in the input magnitudes, show that `exp`
  is only ever called on arguments ≤ 0 and `log` only on arguments ≥ 1/2 (never 0 or negative:
  no −∞ / NaN), and — because nothing is assumed of `rnd` beyond Ω — that no intermediate leaves
  the range in which rounding is faithful.
-/
set_option linter.unusedSimpArgs false
namespace Props.C04Round
open Model.Weights

variable {rnd : ℝ → ℝ} {u η Ω : ℝ}

/-! ### one `logaddexp` -/

/-- the argument of `exp` is never positive, whatever the rounding -/
theorem C04_rounded_exp_arg_nonpos (a b : Rd rnd) : (laeArg a b).v ≤ 0 := by
  unfold laeArg
  by_cases h : (0 : ℝ) < rnd (a.v - b.v)
  · simp [h]; linarith
  · simp [h]; linarith

/-- value and rounded value of `exp (laeArg a b)` -/
theorem exp_arg_range (rm : RoundModel rnd u η Ω) (hΩ : 3 ≤ Ω) (a b : Rd rnd) :
    -(1 / 8) ≤ (ScT.exp (laeArg a b)).v ∧ (ScT.exp (laeArg a b)).v ≤ 5 / 4 := by
  have harg := C04_rounded_exp_arg_nonpos a b
  have h0 : 0 < Real.exp (laeArg a b).v := Real.exp_pos _
  have h1 : Real.exp (laeArg a b).v ≤ 1 := by
    rw [← Real.exp_zero]; exact Real.exp_le_exp.mpr harg
  have habs : |Real.exp (laeArg a b).v| ≤ Ω := by rw [abs_of_pos h0]; linarith
  have hl := rm.lower habs
  have hu := rm.upper habs
  rw [abs_of_pos h0] at hl hu
  simp only [Rd.exp_v]
  constructor <;> linarith

/-- the argument of `log` inside `logaddexp` lies in [1/2, 3]: never zero, never negative -/
theorem C04_rounded_log_arg_range (rm : RoundModel rnd u η Ω) (hΩ : 3 ≤ Ω) (a b : Rd rnd) :
    1 / 2 ≤ (Sc.add Sc.one (ScT.exp (laeArg a b)) : Rd rnd).v ∧
    (Sc.add Sc.one (ScT.exp (laeArg a b)) : Rd rnd).v ≤ 3 := by
  obtain ⟨he1, he2⟩ := exp_arg_range rm hΩ a b
  set e := (ScT.exp (laeArg a b)).v with he
  have hpos : 0 < 1 + e := by linarith
  have habs : |1 + e| ≤ Ω := by rw [abs_of_pos hpos]; linarith
  have hl := rm.lower habs
  have hu := rm.upper habs
  rw [abs_of_pos hpos] at hl hu
  simp only [Rd.add_v, Rd.one_v]
  constructor <;> linarith

theorem abs_log_le_two {s : ℝ} (h1 : 1 / 2 ≤ s) (h2 : s ≤ 3) : |Real.log s| ≤ 2 := by
  have hs : 0 < s := by linarith
  have hup := Real.log_le_sub_one_of_pos hs
  have hlo := Real.one_sub_inv_le_log_of_pos hs
  have hinv : s⁻¹ ≤ 2 := by
    rw [inv_le_comm₀ hs (by norm_num)]; linarith
  rw [abs_le]; constructor <;> linarith

/-- magnitude of one rounded `logaddexp`: it exceeds the larger operand by at most a constant, times (1+u) -/
theorem abs_logaddexp_le (rm : RoundModel rnd u η Ω) (a b : Rd rnd) (P : ℝ)
    (ha : |a.v| ≤ P) (hb : |b.v| ≤ P) (hΩ : 2 * P + 3 ≤ Ω) :
    |(logaddexp a b).v| ≤ (1 + u) * (P + 3) := by
  have hP : 0 ≤ P := (abs_nonneg _).trans ha
  have hΩ3 : 3 ≤ Ω := by linarith
  have hu0 := rm.u_nonneg
  have hη := rm.η_le
  -- common tail: result = rnd (c + t) with |c| ≤ P, |t| ≤ 19/8
  have tail : ∀ c t : ℝ, |c| ≤ P → |t| ≤ 19 / 8 → |rnd (c + t)| ≤ (1 + u) * (P + 3) := by
    intro c t hc ht
    have h1 : |c + t| ≤ P + 19 / 8 := (abs_add_le c t).trans (by linarith)
    have h2 := rm.abs_rnd_le h1 (by linarith)
    nlinarith
  unfold logaddexp
  by_cases heq : a.v ≤ b.v ∧ b.v ≤ a.v
  · have h2 : |Real.log 2| ≤ 2 := abs_log_le_two (by norm_num) (by norm_num)
    have ht : |rnd (Real.log 2)| ≤ 19 / 8 := by
      have := rm.abs_rnd_le' h2 (by linarith); linarith
    simp only [Rd.le_iff, heq, and_self, Bool.and_self, decide_true, if_true, Rd.add_v, Rd.log_v, Rd.two_v,
      Bool.and_eq_true]
    simpa using tail a.v _ ha ht
  · obtain ⟨hs1, hs2⟩ := C04_rounded_log_arg_range rm hΩ3 a b
    have hlog := abs_log_le_two hs1 hs2
    have ht : |rnd (Real.log (Sc.add Sc.one (ScT.exp (laeArg a b)) : Rd rnd).v)| ≤ 19 / 8 := by
      have := rm.abs_rnd_le' hlog (by linarith); linarith
    have hne : ¬ (Sc.le a b && Sc.le b a) = true := by
      simpa [Bool.and_eq_true] using heq
    simp only [hne, if_false]
    by_cases hlt : Sc.lt Sc.zero (Sc.sub a b) = true
    · simp only [hlt, if_true, Rd.add_v, Rd.log_v]
      exact tail a.v _ ha ht
    · simp only [hlt, if_false, Rd.add_v, Rd.log_v]
      exact tail b.v _ hb ht

/-! ### the reduction: magnitudes grow by at most a factor (1+u) and a constant per step -/

/-- bound on a fold of `k` further terms starting from magnitude `P` -/
noncomputable def foldBound (u P : ℝ) (k : ℕ) : ℝ := (1 + u) ^ k * (P + 3 * k)

theorem le_foldBound (hu : 0 ≤ u) {P : ℝ} (hP : 0 ≤ P) (k : ℕ) : P ≤ foldBound u P k := by
  unfold foldBound
  have h1 : (1 : ℝ) ≤ (1 + u) ^ k := one_le_pow₀ (by linarith)
  have h2 : (0 : ℝ) ≤ 3 * k := by positivity
  nlinarith

theorem foldBound_step (hu : 0 ≤ u) (P : ℝ) (k : ℕ) :
    foldBound u ((1 + u) * (P + 3)) k ≤ foldBound u P (k + 1) := by
  unfold foldBound
  have h1 : (0 : ℝ) ≤ (1 + u) ^ k := by positivity
  have h2 : (0 : ℝ) ≤ 3 * (k : ℝ) := by positivity
  rw [pow_succ]
  push_cast
  have : (1 + u) * (P + 3) + 3 * (k : ℝ) ≤ (1 + u) * (P + 3 * ((k : ℝ) + 1)) := by nlinarith
  calc (1 + u) ^ k * ((1 + u) * (P + 3) + 3 * (k : ℝ))
      ≤ (1 + u) ^ k * ((1 + u) * (P + 3 * ((k : ℝ) + 1))) := mul_le_mul_of_nonneg_left this h1
    _ = (1 + u) ^ k * (1 + u) * (P + 3 * ((k : ℝ) + 1)) := by ring

theorem abs_reduce1_le (rm : RoundModel rnd u η Ω) (xs : List (Rd rnd)) (x0 : Rd rnd) (P : ℝ)
    (h0 : |x0.v| ≤ P) (hx : ∀ x ∈ xs, |x.v| ≤ P) (hΩ : 2 * foldBound u P xs.length + 3 ≤ Ω) :
    |(logaddexpReduce1 x0 xs).v| ≤ foldBound u P xs.length := by
  have hu := rm.u_nonneg
  unfold logaddexpReduce1
  induction xs generalizing x0 P with
  | nil => simpa [foldBound] using h0
  | cons x xs ih =>
    have hP : 0 ≤ P := (abs_nonneg _).trans h0
    have hPle := le_foldBound hu hP (x :: xs).length
    have hstep := foldBound_step hu P xs.length
    simp only [List.length_cons] at hΩ hPle ⊢
    have h1 := abs_logaddexp_le rm x0 x P h0 (hx x (by simp)) (by linarith)
    have hP' : P ≤ (1 + u) * (P + 3) := by nlinarith
    rw [List.foldl_cons]
    refine (ih (logaddexp x0 x) ((1 + u) * (P + 3)) h1 ?_ ?_).trans hstep
    · intro y hy; exact (hx y (by simp [hy])).trans hP'
    · linarith

/-! ### the rows `b_weighted[s, ·]`, the unnormalised weights, the tail -/

/-- bound on `|b_weighted[s,t]|` from `|ℓ β_t| ≤ L`, `|z_t| ≤ Z`, `log N ≤ G` -/
noncomputable def entryBound (L Z G : ℝ) : ℝ := 2 * L + 2 * Z + 3 * G + 1

theorem abs_entry_le (rm : RoundModel rnd u η Ω) (N : ℕ) (l : Rd rnd) (b : Batch (Rd rnd)) (L Z G : ℝ)
    (hL : |l.v * b.beta.v| ≤ L) (hZ : |b.logz.v| ≤ Z) (hn : 1 ≤ b.logl.length) (hnN : b.logl.length ≤ N)
    (hG : Real.log (N : ℝ) ≤ G) (hΩ : entryBound L Z G ≤ Ω) :
    |(entry (ScT.log (Sc.ofNat N)) l b).v| ≤ entryBound L Z G := by
  unfold entryBound at *
  have hL0 : 0 ≤ L := (abs_nonneg _).trans hL
  have hZ0 : 0 ≤ Z := (abs_nonneg _).trans hZ
  have hn1 : (1 : ℝ) ≤ (b.logl.length : ℝ) := by exact_mod_cast hn
  have hN1 : (1 : ℝ) ≤ (N : ℝ) := by exact_mod_cast hn.trans hnN
  have hlogn0 : 0 ≤ Real.log (b.logl.length : ℝ) := Real.log_nonneg hn1
  have hlogN0 : 0 ≤ Real.log (N : ℝ) := Real.log_nonneg hN1
  have hlognN : Real.log (b.logl.length : ℝ) ≤ Real.log (N : ℝ) :=
    Real.log_le_log (by linarith) (by exact_mod_cast hnN)
  have hG0 : 0 ≤ G := hlogN0.trans hG
  -- m1 = rnd (l * β_t)
  have m1 := rm.abs_rnd_le' hL (by linarith)
  -- m2 = rnd (m1 - z)
  have m2a : |rnd (l.v * b.beta.v) - b.logz.v| ≤ 9 / 8 * L + 1 / 8 + Z :=
    (abs_sub _ _).trans (by linarith)
  have m2 := rm.abs_rnd_le' m2a (by linarith)
  -- g1 = rnd (log n), gN = rnd (log N)
  have g1 := rm.abs_rnd_le' (x := Real.log (b.logl.length : ℝ)) (B := G)
    (by rw [abs_of_nonneg hlogn0]; linarith) (by linarith)
  have gN := rm.abs_rnd_le' (x := Real.log (N : ℝ)) (B := G)
    (by rw [abs_of_nonneg hlogN0]; linarith) (by linarith)
  have g2a : |rnd (Real.log (b.logl.length : ℝ)) - rnd (Real.log (N : ℝ))| ≤ 2 * (9 / 8 * G + 1 / 8) :=
    (abs_sub _ _).trans (by linarith)
  have g2 := rm.abs_rnd_le' g2a (by linarith)
  have e1 : |rnd (rnd (l.v * b.beta.v) - b.logz.v)
      + rnd (rnd (Real.log (b.logl.length : ℝ)) - rnd (Real.log (N : ℝ)))|
      ≤ (9 / 8 * (9 / 8 * L + 1 / 8 + Z) + 1 / 8) + (9 / 8 * (2 * (9 / 8 * G + 1 / 8)) + 1 / 8) :=
    (abs_add_le _ _).trans (by linarith)
  have e2 := rm.abs_rnd_le' e1 (by linarith)
  simp only [entry, Rd.add_v, Rd.sub_v, Rd.mul_v, Rd.log_v, Rd.ofNat_v]
  linarith

/-- generic in the scalar type: one unnormalised weight per stored particle -/
theorem length_rawLogw {α : Type} [ScT α] (b0 : Batch α) (bs : List (Batch α)) (β : α) :
    (rawLogw b0 bs β).length = nTotal (b0 :: bs) := by
  simp [rawLogw, flatLogl, nTotal, List.length_flatMap]

theorem length_le_nTotal {α : Type} (h : List (Batch α)) (b : Batch α) (hb : b ∈ h) :
    b.logl.length ≤ nTotal h := by
  unfold nTotal
  exact List.single_le_sum (by intro x _; exact Nat.zero_le x) _ (List.mem_map_of_mem hb)

/-- bound on `|logw_s|` (unnormalised): `W = 9/8·(9/8·L + 1/8 + B_T) + 1/8`, `B_T` the bound on `B_s` -/
noncomputable def rawBound (u L Z G : ℝ) (T : ℕ) : ℝ :=
  9 / 8 * (9 / 8 * L + 1 / 8 + foldBound u (entryBound L Z G) (T - 1)) + 1 / 8

theorem abs_rawLogw_le (rm : RoundModel rnd u η Ω) (b0 : Batch (Rd rnd)) (bs : List (Batch (Rd rnd)))
    (β : Rd rnd) (L Z G : ℝ)
    (hn : ∀ b ∈ b0 :: bs, 1 ≤ b.logl.length)
    (hL : ∀ b ∈ b0 :: bs, ∀ l ∈ flatLogl (b0 :: bs), |l.v * b.beta.v| ≤ L)
    (hLβ : ∀ l ∈ flatLogl (b0 :: bs), |l.v * β.v| ≤ L)
    (hZ : ∀ b ∈ b0 :: bs, |b.logz.v| ≤ Z)
    (hG : Real.log (nTotal (b0 :: bs) : ℝ) ≤ G)
    (hΩ : 2 * rawBound u L Z G (b0 :: bs).length + 3 ≤ Ω) :
    ∀ w ∈ rawLogw b0 bs β, |w.v| ≤ rawBound u L Z G (b0 :: bs).length := by
  intro w hw
  unfold rawLogw at hw
  simp only [List.mem_map] at hw
  obtain ⟨l, hl, rfl⟩ := hw
  have hu := rm.u_nonneg
  have hLl := hLβ l hl
  have hL0 : 0 ≤ L := (abs_nonneg _).trans hLl
  have hZ0 : 0 ≤ Z := (abs_nonneg _).trans (hZ b0 (by simp))
  have hN1 : (1 : ℝ) ≤ (nTotal (b0 :: bs) : ℝ) := by
    have := (hn b0 (by simp)).trans (length_le_nTotal (b0 :: bs) b0 (by simp))
    exact_mod_cast this
  have hG0 : 0 ≤ G := (Real.log_nonneg hN1).trans hG
  have hE0 : 0 ≤ entryBound L Z G := by unfold entryBound; linarith
  have hT : (b0 :: bs).length - 1 = bs.length := by simp
  unfold rawBound at hΩ ⊢
  rw [hT] at hΩ ⊢
  have hEle := le_foldBound hu hE0 bs.length
  have hFB0 : 0 ≤ foldBound u (entryBound L Z G) bs.length := hE0.trans hEle
  have hEΩ : entryBound L Z G ≤ Ω := by linarith
  have hent : ∀ b ∈ b0 :: bs, |(entry (ScT.log (Sc.ofNat (nTotal (b0 :: bs)))) l b).v| ≤ entryBound L Z G := by
    intro b hb
    exact abs_entry_le rm _ l b L Z G (hL b hb l hl) (hZ b hb) (hn b hb) (length_le_nTotal _ b hb) hG hEΩ
  have hB : |(mixLog b0 bs (ScT.log (Sc.ofNat (nTotal (b0 :: bs)))) l).v|
      ≤ foldBound u (entryBound L Z G) bs.length := by
    unfold mixLog
    have := abs_reduce1_le rm (bs.map (entry (ScT.log (Sc.ofNat (nTotal (b0 :: bs)))) l))
      (entry (ScT.log (Sc.ofNat (nTotal (b0 :: bs)))) l b0) (entryBound L Z G) (hent b0 (by simp))
      (by
        intro x hx
        rw [List.mem_map] at hx
        obtain ⟨b, hb, rfl⟩ := hx
        exact hent b (by simp [hb]))
      (by rw [List.length_map]; linarith)
    simpa using this
  have m1 := rm.abs_rnd_le' hLl (by linarith)
  have d1 : |rnd (l.v * β.v) - (mixLog b0 bs (ScT.log (Sc.ofNat (nTotal (b0 :: bs)))) l).v|
      ≤ 9 / 8 * L + 1 / 8 + foldBound u (entryBound L Z G) bs.length :=
    (abs_sub _ _).trans (by linarith)
  have d2 := rm.abs_rnd_le' d1 (by linarith)
  simpa using d2

/-- bounds on what `finish` returns from a weight list bounded by `W`: with `K = foldBound u W (n−1)`
    the bound on the log-sum-exp, normalised weights are within `9/8·(W+K)+1/8` and the evidence
    within `9/8·(K + 9/8·G + 1/8) + 1/8` -/
theorem abs_finish_le (rm : RoundModel rnd u η Ω) (w : List (Rd rnd)) (nrm : Bool) (W G : ℝ)
    (hne : w ≠ []) (hW : ∀ x ∈ w, |x.v| ≤ W) (hG : Real.log (w.length : ℝ) ≤ G)
    (hΩ : 2 * foldBound u W (w.length - 1) + 3 + 2 * G ≤ Ω) :
    (∀ x ∈ (finish w nrm).1, |x.v| ≤ 9 / 8 * (W + foldBound u W (w.length - 1)) + 1 / 8) ∧
    (∃ z, (finish w nrm).2 = some z ∧ |z.v| ≤ 9 / 8 * (foldBound u W (w.length - 1) + 9 / 8 * G + 1 / 8) + 1 / 8) := by
  cases w with
  | nil => exact absurd rfl hne
  | cons w0 ws =>
    have hu := rm.u_nonneg
    have hW0 : 0 ≤ W := (abs_nonneg _).trans (hW w0 (by simp))
    have hlen : (w0 :: ws).length - 1 = ws.length := by simp
    rw [hlen] at hΩ ⊢
    have hK := le_foldBound hu hW0 ws.length
    have hN1 : (1 : ℝ) ≤ ((w0 :: ws).length : ℝ) := by simp
    have hlog0 : 0 ≤ Real.log ((w0 :: ws).length : ℝ) := Real.log_nonneg hN1
    have hG0 : 0 ≤ G := hlog0.trans hG
    have hlse := abs_reduce1_le rm ws w0 W (hW w0 (by simp)) (fun x hx => hW x (by simp [hx])) (by linarith)
    constructor
    · intro x hx
      cases nrm with
      | false =>
        simp only [finish] at hx
        have := hW x (by simpa using hx)
        linarith
      | true =>
        simp only [finish, if_true, List.mem_map] at hx
        obtain ⟨y, hy, rfl⟩ := hx
        have hy' := hW y hy
        have d1 : |y.v - (logaddexpReduce1 w0 ws).v| ≤ W + foldBound u W ws.length :=
          (abs_sub _ _).trans (by linarith)
        have := rm.abs_rnd_le' d1 (by linarith)
        simpa using this
    · refine ⟨_, rfl, ?_⟩
      have gN := rm.abs_rnd_le' (x := Real.log ((w0 :: ws).length : ℝ)) (B := G)
        (by rw [abs_of_nonneg hlog0]; exact hG) (by linarith)
      have d1 : |(logaddexpReduce1 w0 ws).v - rnd (Real.log ((w0 :: ws).length : ℝ))|
          ≤ foldBound u W ws.length + (9 / 8 * G + 1 / 8) :=
        (abs_sub _ _).trans (by linarith)
      have := rm.abs_rnd_le' d1 (by linarith)
      simp only [Rd.sub_v, Rd.log_v, Rd.ofNat_v]
      linarith

/-! ### C04 at rounded arithmetic -/

/-- **Finiteness under rounding.**  For every rounding function obeying the standard model below Ω
    (and arbitrary above), every history with T ≥ 1 iterations and batch sizes ≥ 1 whose inputs satisfy
    `|ℓ_s β_t| ≤ L`, `|ℓ_s β| ≤ L`, `|z_t| ≤ Z`, `log N ≤ G`, and whose explicit bound fits below Ω:
    every returned log-weight and the evidence are bounded by explicit expressions in `L, Z, G, T, N, u`;
    an evidence value IS returned (`some`). -/
theorem C04_rounded_bounded (rm : RoundModel rnd u η Ω) (h : List (Batch (Rd rnd))) (β : Rd rnd) (nrm : Bool)
    (L Z G : ℝ) (hne : h ≠ []) (hn : ∀ b ∈ h, 1 ≤ b.logl.length)
    (hL : ∀ b ∈ h, ∀ l ∈ flatLogl h, |l.v * b.beta.v| ≤ L)
    (hLβ : ∀ l ∈ flatLogl h, |l.v * β.v| ≤ L)
    (hZ : ∀ b ∈ h, |b.logz.v| ≤ Z)
    (hG : Real.log (nTotal h : ℝ) ≤ G)
    (hΩ : 2 * foldBound u (rawBound u L Z G h.length) (nTotal h - 1) + 3 + 2 * G ≤ Ω) :
    (∀ x ∈ (logw h β nrm).1,
        |x.v| ≤ 9 / 8 * (rawBound u L Z G h.length + foldBound u (rawBound u L Z G h.length) (nTotal h - 1)) + 1 / 8) ∧
    (∃ z, (logw h β nrm).2 = some z ∧
        |z.v| ≤ 9 / 8 * (foldBound u (rawBound u L Z G h.length) (nTotal h - 1) + 9 / 8 * G + 1 / 8) + 1 / 8) := by
  cases h with
  | nil => exact absurd rfl hne
  | cons b0 bs =>
    have hu := rm.u_nonneg
    have hlenw := length_rawLogw b0 bs β
    have hNpos : 1 ≤ nTotal (b0 :: bs) :=
      (hn b0 (by simp)).trans (length_le_nTotal (b0 :: bs) b0 (by simp))
    have hN1 : (1 : ℝ) ≤ (nTotal (b0 :: bs) : ℝ) := by exact_mod_cast hNpos
    have hG0 : 0 ≤ G := (Real.log_nonneg hN1).trans hG
    have hwne : rawLogw b0 bs β ≠ [] := by
      intro he; rw [he] at hlenw; simp at hlenw; omega
    -- W is non-negative: it bounds |w| of the first particle once we know the bound; get it structurally
    have hW0 : 0 ≤ rawBound u L Z G (b0 :: bs).length := by
      obtain ⟨l, hl⟩ := List.exists_mem_of_ne_nil _ (by
        intro he
        have : (flatLogl (b0 :: bs)).length = nTotal (b0 :: bs) := by
          simp [flatLogl, nTotal, List.length_flatMap]
        rw [he] at this; simp at this; omega : flatLogl (b0 :: bs) ≠ [])
      have hL0 : 0 ≤ L := (abs_nonneg _).trans (hLβ l hl)
      have hZ0 : 0 ≤ Z := (abs_nonneg _).trans (hZ b0 (by simp))
      have hE0 : 0 ≤ entryBound L Z G := by unfold entryBound; linarith
      have := le_foldBound hu hE0 ((b0 :: bs).length - 1)
      unfold rawBound; linarith
    have hKle := le_foldBound hu hW0 (nTotal (b0 :: bs) - 1)
    have hraw := abs_rawLogw_le rm b0 bs β L Z G hn hL hLβ hZ hG (by linarith)
    have := abs_finish_le rm (rawLogw b0 bs β) nrm (rawBound u L Z G (b0 :: bs).length) G hwne hraw
      (by rw [hlenw]; exact hG) (by rw [hlenw]; exact hΩ)
    rw [hlenw] at this
    simpa [logw] using this

/-! ### closed form for realistic unit round-offs: `N·u ≤ 1/2` makes every growth factor ≤ 2 -/

theorem exp_half_le_two : Real.exp (1 / 2) ≤ 2 := by
  have h1 : (1 : ℝ) / 2 ≤ Real.exp (-(1 / 2)) := by
    have := Real.add_one_le_exp (-(1 / 2) : ℝ); linarith
  have h2 : Real.exp (1 / 2) * Real.exp (-(1 / 2)) = 1 := by
    rw [← Real.exp_add]; simp
  have h3 := Real.exp_pos (1 / 2)
  nlinarith

theorem one_add_pow_le_two (hu : 0 ≤ u) (k : ℕ) (hk : (k : ℝ) * u ≤ 1 / 2) : (1 + u) ^ k ≤ 2 := by
  have h1 : 1 + u ≤ Real.exp u := by linarith [Real.add_one_le_exp u]
  have h2 : (1 + u) ^ k ≤ Real.exp u ^ k := pow_le_pow_left₀ (by linarith) h1 k
  have h3 : Real.exp u ^ k = Real.exp ((k : ℝ) * u) := (Real.exp_nat_mul u k).symm
  have h4 : Real.exp ((k : ℝ) * u) ≤ Real.exp (1 / 2) := Real.exp_le_exp.mpr hk
  linarith [exp_half_le_two]

theorem foldBound_le_two (hu : 0 ≤ u) {P : ℝ} (hP : 0 ≤ P) (k : ℕ) (hk : (k : ℝ) * u ≤ 1 / 2) :
    foldBound u P k ≤ 2 * (P + 3 * k) := by
  unfold foldBound
  have h1 := one_add_pow_le_two hu k hk
  have h2 : (0 : ℝ) ≤ P + 3 * k := by positivity
  exact mul_le_mul_of_nonneg_right h1 h2

theorem length_le_nTotal_of_pos {α : Type} (h : List (Batch α)) (hn : ∀ b ∈ h, 1 ≤ b.logl.length) :
    h.length ≤ nTotal h := by
  induction h with
  | nil => simp [nTotal]
  | cons b bs ih =>
    have h1 := hn b (by simp)
    have h2 := ih (fun b' hb' => hn b' (by simp [hb']))
    simp only [nTotal, List.map_cons, List.sum_cons, List.length_cons] at h2 ⊢
    omega

/-- **Closed form.**  If `N·u ≤ 1/2` (binary64: N ≤ 2·10^15 stored particles) and
    `40·(L + Z + G + N + 1) ≤ Ω`, every returned log-weight and the evidence have magnitude at most
    `30·(L + Z + G + N + 1)`.  With |ℓ| ≤ 10^6, β, β_t ∈ [0,1], |z_t| ≤ 10^5, N ≤ 10^9 this is < 3.1·10^10,
    some 297 orders of magnitude below the binary64 overflow threshold. -/
theorem C04_rounded_finite (rm : RoundModel rnd u η Ω) (h : List (Batch (Rd rnd))) (β : Rd rnd) (nrm : Bool)
    (L Z G : ℝ) (hne : h ≠ []) (hn : ∀ b ∈ h, 1 ≤ b.logl.length)
    (hL : ∀ b ∈ h, ∀ l ∈ flatLogl h, |l.v * b.beta.v| ≤ L)
    (hLβ : ∀ l ∈ flatLogl h, |l.v * β.v| ≤ L)
    (hZ : ∀ b ∈ h, |b.logz.v| ≤ Z)
    (hG : Real.log (nTotal h : ℝ) ≤ G)
    (hNu : (nTotal h : ℝ) * u ≤ 1 / 2)
    (hΩ : 40 * (L + Z + G + (nTotal h : ℝ) + 1) ≤ Ω) :
    (∀ x ∈ (logw h β nrm).1, |x.v| ≤ 30 * (L + Z + G + (nTotal h : ℝ) + 1)) ∧
    (∃ z, (logw h β nrm).2 = some z ∧ |z.v| ≤ 30 * (L + Z + G + (nTotal h : ℝ) + 1)) := by
  have hu := rm.u_nonneg
  obtain ⟨b0, hb0⟩ := List.exists_mem_of_ne_nil h hne
  have hTN := length_le_nTotal_of_pos h hn
  have hNpos : 1 ≤ nTotal h := (hn b0 hb0).trans (length_le_nTotal h b0 hb0)
  have hN1 : (1 : ℝ) ≤ (nTotal h : ℝ) := by exact_mod_cast hNpos
  have hG0 : 0 ≤ G := (Real.log_nonneg hN1).trans hG
  have hZ0 : 0 ≤ Z := (abs_nonneg _).trans (hZ b0 hb0)
  have hL0 : 0 ≤ L := by
    have hfl : flatLogl h ≠ [] := by
      intro he
      have : (flatLogl h).length = nTotal h := by simp [flatLogl, nTotal, List.length_flatMap]
      rw [he] at this; simp at this; omega
    obtain ⟨l, hl⟩ := List.exists_mem_of_ne_nil _ hfl
    exact (abs_nonneg _).trans (hLβ l hl)
  have hE0 : 0 ≤ entryBound L Z G := by unfold entryBound; linarith
  -- growth factors
  have hT1 : ((h.length - 1 : ℕ) : ℝ) ≤ (nTotal h : ℝ) := by
    have : h.length - 1 ≤ nTotal h := by omega
    exact_mod_cast this
  have hN1' : ((nTotal h - 1 : ℕ) : ℝ) ≤ (nTotal h : ℝ) := by
    have : nTotal h - 1 ≤ nTotal h := by omega
    exact_mod_cast this
  have hkT : ((h.length - 1 : ℕ) : ℝ) * u ≤ 1 / 2 :=
    (mul_le_mul_of_nonneg_right hT1 hu).trans hNu
  have hkN : ((nTotal h - 1 : ℕ) : ℝ) * u ≤ 1 / 2 :=
    (mul_le_mul_of_nonneg_right hN1' hu).trans hNu
  have hBT := foldBound_le_two hu hE0 (h.length - 1) hkT
  have hBT0 : 0 ≤ foldBound u (entryBound L Z G) (h.length - 1) := hE0.trans (le_foldBound hu hE0 _)
  have hW0 : 0 ≤ rawBound u L Z G h.length := by unfold rawBound; linarith
  have hBN := foldBound_le_two hu hW0 (nTotal h - 1) hkN
  have hWle : rawBound u L Z G h.length
      ≤ 9 / 8 * (9 / 8 * L + 1 / 8 + 2 * (entryBound L Z G + 3 * (nTotal h : ℝ))) + 1 / 8 := by
    unfold rawBound; linarith
  have hmain := C04_rounded_bounded rm h β nrm L Z G hne hn hL hLβ hZ hG (by
    unfold entryBound at hWle; linarith)
  obtain ⟨hw, z, hz, hzb⟩ := hmain
  unfold entryBound at hWle
  refine ⟨fun x hx => (hw x hx).trans (by linarith), z, hz, hzb.trans (by linarith)⟩

/-! ### non-vacuity: a rounding function that is NOT the identity, a history at |ℓ| = 10^6 -/

/-- a biased "rounding": every value is inflated by 2^-53 (and anything above 10^200 is destroyed) -/
noncomputable def rndEx (x : ℝ) : ℝ := if |x| ≤ 10 ^ 200 then x * (1 + 1 / 2 ^ 53) else 0

theorem rm_rndEx : RoundModel rndEx (1 / 2 ^ 52) 0 (10 ^ 200) where
  u_nonneg := by positivity
  u_le := by norm_num
  η_nonneg := le_refl 0
  η_le := by norm_num
  err := by
    intro x hx
    have h0 := abs_nonneg x
    have : rndEx x - x = x * (1 / 2 ^ 53) := by simp [rndEx, hx]; ring
    rw [this, abs_mul, abs_of_pos (by positivity : (0 : ℝ) < 1 / 2 ^ 53)]
    nlinarith

/-- β_t = (0, 1), z = (0, 10^5), sizes (2, 1), log-likelihoods ±10^6 -/
noncomputable def hEx : List (Batch (Rd rndEx)) :=
  [⟨⟨0⟩, ⟨0⟩, [⟨1000000⟩, ⟨-1000000⟩]⟩, ⟨⟨1⟩, ⟨100000⟩, [⟨999999⟩]⟩]

example : ∀ x ∈ (logw hEx (⟨1⟩ : Rd rndEx) true).1, |x.v| ≤ 30 * (1000000 + 100000 + 2 + 3 + 1) := by
  have hN : nTotal hEx = 3 := by simp [hEx, nTotal]
  have hfl : ∀ l ∈ flatLogl hEx, |l.v| ≤ 1000000 := by
    intro l hl
    simp only [hEx, flatLogl, List.flatMap_cons, List.flatMap_nil, List.append_nil, List.cons_append, List.nil_append,
      List.mem_cons, List.not_mem_nil, or_false] at hl
    rcases hl with rfl | rfl | rfl <;> norm_num [abs_le]
  have hb : ∀ b ∈ hEx, |b.beta.v| ≤ 1 ∧ |b.logz.v| ≤ 100000 ∧ 1 ≤ b.logl.length := by
    intro b hb
    simp only [hEx, List.mem_cons, List.not_mem_nil, or_false] at hb
    rcases hb with rfl | rfl <;> norm_num
  have hlog : Real.log (3 : ℝ) ≤ 2 := by
    have := Real.log_le_sub_one_of_pos (by norm_num : (0 : ℝ) < 3); linarith
  have := (C04_rounded_finite rm_rndEx hEx ⟨1⟩ true 1000000 100000 2 (by simp [hEx])
    (fun b hb' => (hb b hb').2.2)
    (by
      intro b hb' l hl
      rw [abs_mul]
      have := hfl l hl; have := (hb b hb').1
      nlinarith [abs_nonneg l.v, abs_nonneg b.beta.v])
    (by intro l hl; simpa using hfl l hl)
    (fun b hb' => (hb b hb').2.1)
    (by rw [hN]; exact_mod_cast hlog)
    (by rw [hN]; norm_num)
    (by rw [hN]; norm_num)).1
  rw [hN] at this
  exact_mod_cast this

example (a b : Rd rndEx) : (laeArg a b).v ≤ 0 := C04_rounded_exp_arg_nonpos a b
example (a b : Rd rndEx) : 1 / 2 ≤ (Sc.add Sc.one (ScT.exp (laeArg a b)) : Rd rndEx).v :=
  (C04_rounded_log_arg_range rm_rndEx (by norm_num) a b).1
example : ∃ z, (logw hEx (⟨1⟩ : Rd rndEx) false).2 = some z := by
  simp [logw, hEx, finish, rawLogw, flatLogl]

end Props.C04Round
