import TempestVerif.Model.ClosedResume
import TempestVerif.Props.C05Closed
import Mathlib.Tactic
/-
  C05 for resumed / continued / extended runs (closed-loop model + the prologue of `run_sampling`, /repo aeb0399).

    prologue_resume / prologue_continue / prologue_fresh    which β (and history) the loop starts from, per branch
    C05_resume_start              the prologue of a checkpoint of a start state is a start state with the checkpoint's β
    C05_resume_schedule           interrupted run + resumed run: the resumed schedule continues from the restored β, monotone, ≤ 1,
                                  whatever sampler object (trainer state, stream position, even likelihood/configuration) resumes it
    C05_continue_schedule         `load_state(); run()` / a second `run()`: same, through the `elif` branch
    C05_old_prologue_restarts     the pre-aeb0399 branch would restart the schedule at β = 0 over the kept history
    C05_resume_exact              same trainer state and stream position ⇒ the resumed run IS the remainder of the uninterrupted run
-/
namespace Props.C05
open Model.ClosedLoop Model.ClosedResume Model.Reweight

variable {P MS TS G : Type}

theorem prologue_resume (k : Ckpt ℝ P) (g : Option G) (seed : Option G) (s : CState ℝ P TS G) :
    (prologue (some (k, g)) seed s).beta = k.beta ∧ (prologue (some (k, g)) seed s).hist = k.hist ∧
    (prologue (some (k, g)) seed s).iter = k.iter ∧ (prologue (some (k, g)) seed s).ts = s.ts := ⟨rfl, rfl, rfl, rfl⟩

/-- `run()` without a path on a sampler that holds history (after `load_state()`, or after a finished run): NOTHING is reset -/
theorem prologue_continue (seed : Option G) (s : CState ℝ P TS G) (hne : s.hist ≠ []) : prologue none seed s = s := by
  have : s.hist.length > 0 := List.length_pos_of_ne_nil hne
  simp [prologue, this]

theorem prologue_fresh (seed : Option G) (s : CState ℝ P TS G) (he : s.hist = []) :
    (prologue none seed s).beta = 0 ∧ (prologue none seed s).hist = [] ∧ (prologue none seed s).iter = 0 := by
  simp [prologue, he, fresh]

/-- C10's `startState` (the prologue inside `Model.ClosedLoop.runSampling`) is this prologue without a path and without reseeding -/
theorem prologue_eq_startState (s : CState ℝ P TS G) : prologue none none s = startState s := by
  unfold prologue startState fresh
  cases h : s.hist with
  | nil => simp
  | cons b bs => simp

theorem checkpoint_load (s s' : CState ℝ P TS G) :
    load (checkpoint s) (some s.g) s' = { s with ts := s'.ts } := rfl

/-- whatever branch is taken, the loop starts from a start state — provided the restored checkpoint was taken from one -/
theorem C05_resume_start (a : CState ℝ P TS G) (ha : Start a) (g : Option G) (seed : Option G) (s : CState ℝ P TS G) :
    Start (prologue (some (checkpoint a, g)) seed s) ∧ (prologue (some (checkpoint a, g)) seed s).beta = a.beta ∧
    (prologue (some (checkpoint a, g)) seed s).hist = a.hist := ⟨ha, rfl, rfl⟩

theorem C05_prologue_start (seed : Option G) (s : CState ℝ P TS G) (hs : Start s) : Start (prologue none seed s) := by
  by_cases he : s.hist = []
  · obtain ⟨h1, h2, _⟩ := prologue_fresh seed s he
    exact ⟨by rw [h1], by rw [h1]; norm_num, fun _ => h1⟩
  · rw [prologue_continue seed s he]; exact hs

/-- **Interrupted and resumed.**  Run A (any world, configuration, start state) reached the loop-top state `a = trA[j]` — what the
    `save_every` checkpoint written there holds.  Run B is `run(resume_state_path=…)` of that checkpoint on ANY sampler object
    (its own trainer state and stream position; even another world / configuration): every β of run B lies in `[a.beta, 1]`, the
    sequence never decreases, so A's schedule up to the checkpoint followed by B's schedule is non-decreasing; B's first
    reweighting step starts from `β_prev = a.beta`. -/
theorem C05_resume_schedule (WA WB : World ℝ P MS TS G) (cA cB : CCfg ℝ) (fA fB : Nat) (s0 sfA : CState ℝ P TS G)
    (trA : List (CState ℝ P TS G)) (osA : List (CIterOut ℝ P)) (hA : runLoop WA cA fA s0 = some (sfA, trA, osA)) (h0 : Start s0)
    (j : Nat) (a : CState ℝ P TS G) (ha : trA[j]? = some a)
    (g : Option G) (seed : Option G) (sB sfB : CState ℝ P TS G) (trB : List (CState ℝ P TS G)) (osB : List (CIterOut ℝ P))
    (hB : runLoop WB cB fB (prologue (some (checkpoint a, g)) seed sB) = some (sfB, trB, osB)) :
    (∀ o ∈ osB, a.beta ≤ o.beta ∧ o.beta ≤ 1) ∧
    (∀ k x y, osB[k]? = some x → osB[k+1]? = some y → x.beta ≤ y.beta) ∧
    (∀ oa ∈ osA.take j, ∀ ob ∈ osB, oa.beta ≤ ob.beta) ∧
    (∃ b0, trB[0]? = some b0 ∧ b0.beta = a.beta ∧ b0.hist = a.hist) := by
  have hsa := (runLoop_states WA cA fA s0 sfA trA osA hA h0 j a ha).1
  obtain ⟨hst, hb, hh⟩ := C05_resume_start a hsa g seed sB
  obtain ⟨b1, b2, _, _, _, _, _⟩ := C05_cl_schedule_from WB cB fB _ sfB trB osB hB hst
  rw [hb] at b1
  obtain ⟨_, tB2, _, _⟩ := runLoop_trace WB cB fB _ sfB trB osB hB
  refine ⟨b1, b2, ?_, ⟨_, tB2, hb, hh⟩⟩
  intro oa hoa ob hob
  -- every β recorded by A before the checkpoint is ≤ the checkpointed β
  obtain ⟨_, _, a3, a4, _, _, _⟩ := C05_cl_schedule_from WA cA fA s0 sfA trA osA hA h0
  have hle : oa.beta ≤ a.beta := by
    obtain ⟨i, hi, rfl⟩ := List.getElem_of_mem hoa
    have hi' : i < j ∧ i < osA.length := by simpa using hi
    have hget : osA[i]? = some (osA.take j)[i] := by
      rw [List.getElem_take]; exact List.getElem?_eq_getElem hi'.2
    -- β of iteration i = β of loop-top state i+1 ≤ … ≤ β of loop-top state j
    obtain ⟨_, _, _, t4⟩ := runLoop_trace WA cA fA s0 sfA trA osA hA
    obtain ⟨x, x', _, hx', _, _⟩ := t4 i _ hget
    have e1 : x'.beta = ((osA.take j)[i]).beta := a3 i _ x' hget hx'
    rw [← e1]
    -- monotone along the loop-top states from i+1 to j
    have mono : ∀ d : Nat, ∀ y, trA[i + 1 + d]? = some y → x'.beta ≤ y.beta := by
      intro d
      induction d with
      | zero => intro y hy; rw [Nat.add_zero, hx'] at hy; simp only [Option.some.injEq] at hy; subst hy; exact le_refl _
      | succ d ih =>
        intro y hy
        have hlt : i + 1 + d < trA.length := by
          have := (List.getElem?_eq_some_iff.mp hy).1
          omega
        have := ih _ (List.getElem?_eq_getElem hlt)
        exact le_trans this (a4 (i + 1 + d) _ y (List.getElem?_eq_getElem hlt) hy)
    have hj : i + 1 + (j - (i + 1)) = j := by omega
    exact mono (j - (i + 1)) a (by rw [hj]; exact ha)
  exact le_trans hle (b1 ob hob).1

/-- **`load_state(path)` followed by `run()`, or a second `run()` on a finished sampler** (the `elif` branch added in /repo
    aeb0399): the loop starts from the loaded / reached state itself, so the schedule continues from its β. -/
theorem C05_continue_schedule (W : World ℝ P MS TS G) (c : CCfg ℝ) (fuel : Nat) (seed : Option G) (s sf : CState ℝ P TS G)
    (tr : List (CState ℝ P TS G)) (os : List (CIterOut ℝ P)) (hs : Start s) (hne : s.hist ≠ [])
    (h : runLoop W c fuel (prologue none seed s) = some (sf, tr, os)) :
    tr[0]? = some s ∧ (∀ o ∈ os, s.beta ≤ o.beta ∧ o.beta ≤ 1) ∧
    (∀ k x y, os[k]? = some x → os[k+1]? = some y → x.beta ≤ y.beta) := by
  rw [prologue_continue seed s hne] at h
  obtain ⟨b1, b2, _⟩ := C05_cl_schedule_from W c fuel s sf tr os h hs
  exact ⟨(runLoop_trace W c fuel s sf tr os h).2.1, b1, b2⟩

/-- what the `elif` branch repairs (finding F34): the two-way prologue sent `load_state(); run()` through `_initialize_fresh`,
    which resets β to 0 while the loaded history stays — the schedule of the continued run would restart below the temperatures
    already recorded in the history. -/
theorem C05_old_prologue_restarts (seed : Option G) (s : CState ℝ P TS G) :
    (prologueOld none seed s).beta = 0 ∧ (prologueOld none seed s).hist = s.hist := by
  simp [prologueOld, fresh]

/-- same trainer state and stream position ⇒ the resumed run is exactly the remainder of the uninterrupted one -/
theorem C05_resume_exact (W : World ℝ P MS TS G) (c : CCfg ℝ) (fuel : Nat) (seed : Option G) (a sB : CState ℝ P TS G)
    (hts : sB.ts = a.ts) :
    runLoop W c fuel (prologue (some (checkpoint a, some a.g)) seed sB) = runLoop W c fuel a := by
  have : prologue (some (checkpoint a, some a.g)) seed sB = a := by
    show load (checkpoint a) (some a.g) sB = a
    rw [checkpoint_load, hts]
  rw [this]

/-! ### non-vacuity: the continued run of `Props/C05Closed.lean` -/
section Examples
open Props.C10

-- `sCl2` is the loop-top state 0 of the evaluated run `runCl2`; resuming its checkpoint on a sampler object whose stream
-- position is the stored one reproduces the run, and `C05_resume_schedule` applies to the pair (A = B = that run)
theorem resumeCl2 : runLoop wEx2 cfgCl2 1 (prologue (some (checkpoint sCl2, some 2)) none (Model.ClosedLoop.init () 7))
    = some (sCl3, [sCl2, sCl3],
      [⟨1, 2, Lemmas.PipelineShift.Ex.z1, Lemmas.PipelineShift.Ex.z1, Branch.essUpper, [1/2, 1/2], some ([0, 1], [1/2, 1/2]), [0, 1],
        [[true, false]], [99 / 100]⟩]) := by
  have := C05_resume_exact wEx2 cfgCl2 1 none sCl2 (Model.ClosedLoop.init () 7) rfl
  rw [show sCl2.g = 2 from rfl] at this
  rw [this, runCl2]
example := C05_resume_schedule wEx2 wEx2 cfgCl2 cfgCl2 1 1 sCl2 _ _ _ runCl2 start_sCl2 0 sCl2 rfl (some 2) none
  (Model.ClosedLoop.init () 7) _ _ _ resumeCl2
example := C05_continue_schedule wEx2 cfgCl2 1 none sCl2 _ _ _ start_sCl2 sCl2_hist_ne
  (by rw [prologue_continue none sCl2 sCl2_hist_ne]; exact runCl2)
example : (prologueOld none (none : Option Nat) sCl3).beta = 0 ∧ (prologue none (none : Option Nat) sCl3).beta = 1 :=
  ⟨(C05_old_prologue_restarts none sCl3).1, by rw [prologue_continue none sCl3 (by simp [sCl3])]; simp [sCl3]⟩

end Examples

end Props.C05
