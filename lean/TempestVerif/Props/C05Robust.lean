import TempestVerif.Model.Reweight
import TempestVerif.Lemmas.ScRound
import Mathlib.Tactic
/-
  C05 — the part of the property that does not depend on exact real arithmetic: NaN answers and IEEE rounding.

  `Props/C05.lean` proves the schedule theorems over ℝ; there a comparison is either true or its converse is, and
  `(hi + lo)·0.5` is the exact midpoint.  Neither holds for doubles: an oracle answer can be NaN (every comparison false —
  a rank-deficient covariance in `volume_variation`), and every operation on temperatures is rounded.  Until now these were
  covered only by the bit-exact Float suites (ORACLE-ONLY).  This file proves, for the SAME definitions the driver executes:

  Part A (every scalar type `α`, `Float` included; every oracle; NOTHING assumed about what a comparison of oracle answers
          returns): structural facts —
      C05_any_same_temperature   weights / ESS / logZ returned by `run` are the oracle's at the returned β (all 7 branches)
      C05_any_upper_ess          β_upper IS β_prev (same value) or `ess(β_upper) >= target` evaluated to True
      C05_any_ess_floor          ESS mode: branch `essUpper` ⇒ `ess(β) >= target` evaluated to True; `essStay` ⇒ β = β_prev;
                                 `essBisect` (dead code over ℝ) ⇒ both `ess_prev <= target` and `ess_prev >= target` were False
  Part A′ (any relation `R` on temperatures in which the midpoint of a bracket lies in the bracket — `Bracket R`):
      C05_R_upper, C05_R_bisect, C05_R_run   β_prev R β R β_upper R 1 in every branch, whatever the comparisons return
      C05_R_schedule                          along a whole schedule consecutive temperatures are R-related
  Part B  the instance: `FN r` = reals + NaN with every arithmetic operation rounded by an arbitrary monotone idempotent
          rounding `r` under which 1/2 is representable and doubling a representable number is exact (true of binary64 with
          any IEEE rounding direction, no overflow in [0, 2]).  `leRep` (= both are numbers, representable, ≤) is a `Bracket`:
      C05_ieee_run        β is a representable NUMBER (never NaN) with β_prev ≤ β ≤ β_upper ≤ 1, for every oracle — NaN answers
                          included — in both modes, all seven branches
      C05_ieee_schedule   the whole schedule is non-decreasing and stays in [0, 1] under rounding and NaN
      C05_ieee_ess_floor  ESS mode, NaN-free ESS at β_prev: the bisection branch is not taken and an advance lands where the
                          (rounded) comparison `ess >= target` holds
-/
namespace Props.C05.Robust
open Model.Reweight
variable {α : Type} [Sc α] {W : Type}

/-! ## Part A: structure of `run`, any scalar type -/

theorem upLoop_stop_any (M : α → W × α × α) (target tol : α) (n : Nat) (lo hi : α)
    (hw : Sc.gt (Sc.sub hi lo) tol = false) : upLoop M target tol (n+1) lo hi = ⟨lo, hi, 0, Branch.upLoop, []⟩ := by
  simp [upLoop, hw]

theorem upLoop_up_any (M : α → W × α × α) (target tol : α) (n : Nat) (lo hi : α)
    (hw : Sc.gt (Sc.sub hi lo) tol = true) (he : Sc.ge (M (mid hi lo)).2.1 target = true) :
    upLoop M target tol (n+1) lo hi =
      { upLoop M target tol n (mid hi lo) hi with
        steps := (upLoop M target tol n (mid hi lo) hi).steps + 1,
        calls := mid hi lo :: (upLoop M target tol n (mid hi lo) hi).calls } := by
  simp [upLoop, hw, he]

theorem upLoop_down_any (M : α → W × α × α) (target tol : α) (n : Nat) (lo hi : α)
    (hw : Sc.gt (Sc.sub hi lo) tol = true) (he : Sc.ge (M (mid hi lo)).2.1 target = false) :
    upLoop M target tol (n+1) lo hi =
      { upLoop M target tol n lo (mid hi lo) with
        steps := (upLoop M target tol n lo (mid hi lo)).steps + 1,
        calls := mid hi lo :: (upLoop M target tol n lo (mid hi lo)).calls } := by
  simp [upLoop, hw, he]

/-- a relation on temperatures in which the midpoint of a bracket lies in the bracket -/
structure Bracket (R : α → α → Prop) : Prop where
  trans : ∀ {a b c : α}, R a b → R b c → R a c
  left : ∀ {a b : α}, R a b → R a a
  right : ∀ {a b : α}, R a b → R b b
  mid : ∀ {lo hi : α}, R lo hi → R lo (mid hi lo) ∧ R (mid hi lo) hi

/-- loop invariant of `_find_beta_upper_limit`, for any bracket relation and ANY outcome of the comparisons -/
theorem upLoop_R {R : α → α → Prop} (hR : Bracket R) (M : α → W × α × α) (target tol : α) :
    ∀ (n : Nat) (lo hi : α), R lo hi →
      R lo (upLoop M target tol n lo hi).beta ∧
      R (upLoop M target tol n lo hi).beta (upLoop M target tol n lo hi).hi ∧
      R (upLoop M target tol n lo hi).hi hi ∧
      ((upLoop M target tol n lo hi).beta = lo ∨ Sc.ge (M (upLoop M target tol n lo hi).beta).2.1 target = true) := by
  intro n
  induction n with
  | zero => intro lo hi h; exact ⟨hR.left h, h, hR.right h, Or.inl rfl⟩
  | succ n ih =>
    intro lo hi h
    cases hw : Sc.gt (Sc.sub hi lo) tol with
    | false => rw [upLoop_stop_any M target tol n lo hi hw]; exact ⟨hR.left h, h, hR.right h, Or.inl rfl⟩
    | true =>
      obtain ⟨m1, m2⟩ := hR.mid h
      cases he : Sc.ge (M (mid hi lo)).2.1 target with
      | true =>
        obtain ⟨a1, a2, a3, a4⟩ := ih (mid hi lo) hi m2
        rw [upLoop_up_any M target tol n lo hi hw he]
        refine ⟨hR.trans m1 a1, a2, a3, Or.inr ?_⟩
        rcases a4 with a4 | a4
        · show Sc.ge (M (upLoop M target tol n (mid hi lo) hi).beta).2.1 target = true
          rw [a4]; exact he
        · exact a4
      | false =>
        obtain ⟨a1, a2, a3, a4⟩ := ih lo (mid hi lo) m1
        rw [upLoop_down_any M target tol n lo hi hw he]
        exact ⟨a1, a2, hR.trans a3 m2, a4⟩

/-- the three exits of `_find_beta_upper_limit`, any scalar type -/
theorem upperLimit_cases_any (M : α → W × α × α) (target tol : α) (fuel : Nat) (prev : α) :
    (Sc.lt (M prev).2.1 target = true ∧ upperLimit M target tol fuel prev = ⟨prev, Sc.one, 0, Branch.upStay, [prev]⟩) ∨
    (Sc.lt (M prev).2.1 target = false ∧ Sc.ge (M Sc.one).2.1 target = true ∧
      upperLimit M target tol fuel prev = ⟨Sc.one, Sc.one, 0, Branch.upOne, [prev, Sc.one]⟩) ∨
    (Sc.lt (M prev).2.1 target = false ∧ Sc.ge (M Sc.one).2.1 target = false ∧
      upperLimit M target tol fuel prev =
        { upLoop M target tol fuel prev Sc.one with
          calls := prev :: Sc.one :: (upLoop M target tol fuel prev Sc.one).calls }) := by
  cases h1 : Sc.lt (M prev).2.1 target with
  | true => left; exact ⟨rfl, by simp [upperLimit, h1]⟩
  | false =>
    cases h2 : Sc.ge (M Sc.one).2.1 target with
    | true => right; left; exact ⟨rfl, rfl, by simp [upperLimit, h1, h2]⟩
    | false => right; right; exact ⟨rfl, rfl, by simp [upperLimit, h1, h2]⟩

/-- `β_prev R β_upper R 1` -/
theorem C05_R_upper {R : α → α → Prop} (hR : Bracket R) (M : α → W × α × α) (target tol : α) (fuel : Nat) (prev : α)
    (h1 : R prev Sc.one) :
    R prev (upperLimit M target tol fuel prev).beta ∧ R (upperLimit M target tol fuel prev).beta Sc.one := by
  rcases upperLimit_cases_any M target tol fuel prev with ⟨_, e⟩ | ⟨_, _, e⟩ | ⟨_, _, e⟩
  · rw [e]; exact ⟨hR.left h1, h1⟩
  · rw [e]; exact ⟨h1, hR.right h1⟩
  · rw [e]; obtain ⟨a1, a2, a3, _⟩ := upLoop_R hR M target tol fuel prev Sc.one h1
    exact ⟨a1, hR.trans a2 a3⟩

/-- **any scalar type**: the value `_find_beta_upper_limit` returns IS `beta_current`, or the test `ess >= target` evaluated to
    True at it — whatever the other comparisons returned (NaN answers included) -/
theorem C05_any_upper_ess (M : α → W × α × α) (target tol : α) (fuel : Nat) (prev : α) :
    (upperLimit M target tol fuel prev).beta = prev ∨
      Sc.ge (M (upperLimit M target tol fuel prev).beta).2.1 target = true := by
  rcases upperLimit_cases_any M target tol fuel prev with ⟨_, e⟩ | ⟨_, h, e⟩ | ⟨_, _, e⟩
  · left; rw [e]
  · right; rw [e]; exact h
  · rw [e]
    -- the invariant of the loop with the trivial relation
    have hT : Bracket (fun (_ _ : α) => True) := ⟨fun _ _ => trivial, fun _ => trivial, fun _ => trivial, fun _ => ⟨trivial, trivial⟩⟩
    exact (upLoop_R hT M target tol fuel prev Sc.one trivial).2.2.2

/-! ### `_find_beta_bisection` -/

theorem bisect_unfold_any (M : α → W × α × α) (fin : α → Bool) (dyn : Bool) (target tolE tolB : α)
    (n : Nat) (bmin bmax : α) :
    (∃ t, bisect M fin dyn target tolE tolB n bmin bmax =
        ⟨mid bmax bmin, (M (mid bmax bmin)).1, (M (mid bmax bmin)).2.1, 0, t, [mid bmax bmin]⟩) ∨
    (∃ k lo hi, n = k + 1 ∧ ((lo = mid bmax bmin ∧ hi = bmax) ∨ (lo = bmin ∧ hi = mid bmax bmin)) ∧
        bisect M fin dyn target tolE tolB n bmin bmax =
          { bisect M fin dyn target tolE tolB k lo hi with
            steps := (bisect M fin dyn target tolE tolB k lo hi).steps + 1,
            calls := mid bmax bmin :: (bisect M fin dyn target tolE tolB k lo hi).calls }) := by
  cases hs : bisStop (bisVal M fin dyn (mid bmax bmin)) target tolE tolB bmin bmax (mid bmax bmin) with
  | some t => left; exact ⟨t, by cases n <;> simp [bisect, hs]⟩
  | none =>
    cases n with
    | zero => left; exact ⟨Branch.bisFuel, by simp [bisect, hs]⟩
    | succ k =>
      right
      cases hr : bisRaise dyn (bisVal M fin dyn (mid bmax bmin)) target with
      | true => exact ⟨k, _, _, rfl, Or.inl ⟨rfl, rfl⟩, by simp [bisect, hs, hr]⟩
      | false => exact ⟨k, _, _, rfl, Or.inr ⟨rfl, rfl⟩, by simp [bisect, hs, hr]⟩

/-- the bisection returns a point of its bracket, with the oracle's weights / ESS AT that point — any scalar type, any outcome
    of the comparisons -/
theorem C05_R_bisect {R : α → α → Prop} (hR : Bracket R) (M : α → W × α × α) (fin : α → Bool) (dyn : Bool)
    (target tolE tolB : α) :
    ∀ (n : Nat) (bmin bmax : α), R bmin bmax →
      R bmin (bisect M fin dyn target tolE tolB n bmin bmax).beta ∧
      R (bisect M fin dyn target tolE tolB n bmin bmax).beta bmax ∧
      (bisect M fin dyn target tolE tolB n bmin bmax).w = (M (bisect M fin dyn target tolE tolB n bmin bmax).beta).1 ∧
      (bisect M fin dyn target tolE tolB n bmin bmax).ess = (M (bisect M fin dyn target tolE tolB n bmin bmax).beta).2.1 := by
  intro n
  induction n with
  | zero =>
    intro bmin bmax h
    obtain ⟨m1, m2⟩ := hR.mid h
    rcases bisect_unfold_any M fin dyn target tolE tolB 0 bmin bmax with ⟨t, e⟩ | ⟨k, _, _, hk, _⟩
    · rw [e]; exact ⟨m1, m2, rfl, rfl⟩
    · omega
  | succ n ih =>
    intro bmin bmax h
    obtain ⟨m1, m2⟩ := hR.mid h
    rcases bisect_unfold_any M fin dyn target tolE tolB (n+1) bmin bmax with ⟨t, e⟩ | ⟨k, lo, hi, hk, hlh, e⟩
    · rw [e]; exact ⟨m1, m2, rfl, rfl⟩
    · have hk' : k = n := by omega
      subst hk'
      rw [e]
      rcases hlh with ⟨rfl, rfl⟩ | ⟨rfl, rfl⟩
      · obtain ⟨a1, a2, a3, a4⟩ := ih _ _ m2
        exact ⟨hR.trans m1 a1, a2, a3, a4⟩
      · obtain ⟨a1, a2, a3, a4⟩ := ih _ _ m1
        exact ⟨a1, hR.trans a2 m2, a3, a4⟩

theorem bisect_aux_any (M : α → W × α × α) (fin : α → Bool) (dyn : Bool) (target tolE tolB : α) (n : Nat) (bmin bmax : α) :
    (bisect M fin dyn target tolE tolB n bmin bmax).w = (M (bisect M fin dyn target tolE tolB n bmin bmax).beta).1 ∧
    (bisect M fin dyn target tolE tolB n bmin bmax).ess = (M (bisect M fin dyn target tolE tolB n bmin bmax).beta).2.1 := by
  have hT : Bracket (fun (_ _ : α) => True) := ⟨fun _ _ => trivial, fun _ => trivial, fun _ => trivial, fun _ => ⟨trivial, trivial⟩⟩
  exact (C05_R_bisect hT M fin dyn target tolE tolB n bmin bmax trivial).2.2

/-! ### `run` -/

theorem runEss_cases_any (M : α → W × α × α) (Z : α → α) (fin : α → Bool) (target tolE tolB : α) (fuel : Nat) (prev : α) :
    (Sc.le (M prev).2.1 target = true ∧ runEss M Z fin target tolE tolB fuel prev =
        finalize prev (M prev).1 (M prev).2.1 (Z prev) Branch.essStay [(upperLimit M target tolB fuel prev).branch]
          ((upperLimit M target tolB fuel prev).calls ++ [prev, (upperLimit M target tolB fuel prev).beta])) ∨
    (Sc.le (M prev).2.1 target = false ∧ Sc.ge (M (upperLimit M target tolB fuel prev).beta).2.1 target = true ∧
      runEss M Z fin target tolE tolB fuel prev =
        finalize (upperLimit M target tolB fuel prev).beta (M (upperLimit M target tolB fuel prev).beta).1
          (M (upperLimit M target tolB fuel prev).beta).2.1 (Z (upperLimit M target tolB fuel prev).beta) Branch.essUpper
          [(upperLimit M target tolB fuel prev).branch]
          ((upperLimit M target tolB fuel prev).calls ++ [prev, (upperLimit M target tolB fuel prev).beta])) ∨
    (Sc.le (M prev).2.1 target = false ∧ Sc.ge (M (upperLimit M target tolB fuel prev).beta).2.1 target = false ∧
      runEss M Z fin target tolE tolB fuel prev =
        finalize (bisect M fin false target tolE tolB fuel prev (upperLimit M target tolB fuel prev).beta).beta
          (bisect M fin false target tolE tolB fuel prev (upperLimit M target tolB fuel prev).beta).w
          (bisect M fin false target tolE tolB fuel prev (upperLimit M target tolB fuel prev).beta).ess
          (Z (bisect M fin false target tolE tolB fuel prev (upperLimit M target tolB fuel prev).beta).beta) Branch.essBisect
          [(upperLimit M target tolB fuel prev).branch,
           (bisect M fin false target tolE tolB fuel prev (upperLimit M target tolB fuel prev).beta).branch]
          ((upperLimit M target tolB fuel prev).calls ++ [prev, (upperLimit M target tolB fuel prev).beta] ++
           (bisect M fin false target tolE tolB fuel prev (upperLimit M target tolB fuel prev).beta).calls)) := by
  cases h1 : Sc.le (M prev).2.1 target with
  | true => left; exact ⟨rfl, by simp [runEss, h1]⟩
  | false =>
    cases h2 : Sc.ge (M (upperLimit M target tolB fuel prev).beta).2.1 target with
    | true => right; left; exact ⟨rfl, rfl, by simp [runEss, h1, h2]⟩
    | false => right; right; exact ⟨rfl, rfl, by simp [runEss, h1, h2]⟩

theorem runDyn_cases_any (M : α → W × α × α) (Z : α → α) (fin : α → Bool) (target vv tolE tolB : α) (fuel : Nat) (prev : α) :
    (runDyn M Z fin target vv tolE tolB fuel prev =
        finalize prev (M prev).1 (M prev).2.1 (Z prev) Branch.dynStuck [(upperLimit M target tolB fuel prev).branch]
          ((upperLimit M target tolB fuel prev).calls ++ [prev])) ∨
    (runDyn M Z fin target vv tolE tolB fuel prev =
        finalize (upperLimit M target tolB fuel prev).beta (M (upperLimit M target tolB fuel prev).beta).1
          (M (upperLimit M target tolB fuel prev).beta).2.1 (Z (upperLimit M target tolB fuel prev).beta) Branch.dynUpper
          [(upperLimit M target tolB fuel prev).branch]
          ((upperLimit M target tolB fuel prev).calls ++ [prev, (upperLimit M target tolB fuel prev).beta,
            (upperLimit M target tolB fuel prev).beta])) ∨
    (runDyn M Z fin target vv tolE tolB fuel prev =
        finalize prev (M prev).1 (M prev).2.1 (Z prev) Branch.dynStay [(upperLimit M target tolB fuel prev).branch]
          ((upperLimit M target tolB fuel prev).calls ++ [prev, (upperLimit M target tolB fuel prev).beta, prev])) ∨
    (runDyn M Z fin target vv tolE tolB fuel prev =
        finalize (bisect M fin true vv tolE tolB fuel prev (upperLimit M target tolB fuel prev).beta).beta
          (bisect M fin true vv tolE tolB fuel prev (upperLimit M target tolB fuel prev).beta).w
          (bisect M fin true vv tolE tolB fuel prev (upperLimit M target tolB fuel prev).beta).ess
          (Z (bisect M fin true vv tolE tolB fuel prev (upperLimit M target tolB fuel prev).beta).beta) Branch.dynBisect
          [(upperLimit M target tolB fuel prev).branch,
           (bisect M fin true vv tolE tolB fuel prev (upperLimit M target tolB fuel prev).beta).branch]
          ((upperLimit M target tolB fuel prev).calls ++ [prev, (upperLimit M target tolB fuel prev).beta] ++
           (bisect M fin true vv tolE tolB fuel prev (upperLimit M target tolB fuel prev).beta).calls)) := by
  cases h0 : eqv (upperLimit M target tolB fuel prev).beta prev with
  | true => left; simp [runDyn, h0]
  | false =>
    cases h1 : Sc.ge vv (M (upperLimit M target tolB fuel prev).beta).2.2 with
    | true => right; left; simp [runDyn, h0, h1]
    | false =>
      cases h2 : Sc.le vv (M prev).2.2 with
      | true => right; right; left; simp [runDyn, h0, h1, h2]
      | false => right; right; right; simp [runDyn, h0, h1, h2]

/-- what "refers to the temperature β" means for the output of `run`, any scalar type -/
def CoherentAny (M : α → W × α × α) (Z : α → α) (r : RunOut α W) : Prop :=
  r.weightsTag = WTag.of (M r.beta).1 ∧ r.ess = (M r.beta).2.1 ∧ r.logz = Z r.beta ∧ r.zcalls = [r.beta]

/-- **Same temperature, for every scalar type (`Float` included) and every oracle** — NaN answers, rounding, any outcome of any
    comparison: in all 7 branches the returned weights, the recorded ESS and the recorded logZ are `(M β).1`, `(M β).2.1`,
    `Z β` for the very β that is written to state, and `compute_logw_and_logz` is called once, at that β. -/
theorem C05_any_same_temperature (c : Cfg α) (M : α → W × α × α) (Z : α → α) (fin : α → Bool) (prev : α) :
    CoherentAny M Z (run c false M Z fin prev) := by
  cases hv : c.vv with
  | none =>
    simp only [run, hv, Bool.false_eq_true, if_false]
    rcases runEss_cases_any M Z fin c.target c.tolE c.tolB c.fuel prev with ⟨_, e⟩ | ⟨_, _, e⟩ | ⟨_, _, e⟩
    · rw [e]; exact ⟨rfl, rfl, rfl, rfl⟩
    · rw [e]; exact ⟨rfl, rfl, rfl, rfl⟩
    · rw [e]; obtain ⟨b3, b4⟩ := bisect_aux_any M fin false c.target c.tolE c.tolB c.fuel prev
        (upperLimit M c.target c.tolB c.fuel prev).beta
      exact ⟨by simp only [finalize]; rw [b3], by simp only [finalize]; rw [b4], rfl, rfl⟩
  | some v =>
    simp only [run, hv, Bool.false_eq_true, if_false]
    rcases runDyn_cases_any M Z fin c.target v c.tolE c.tolB c.fuel prev with e | e | e | e
    · rw [e]; exact ⟨rfl, rfl, rfl, rfl⟩
    · rw [e]; exact ⟨rfl, rfl, rfl, rfl⟩
    · rw [e]; exact ⟨rfl, rfl, rfl, rfl⟩
    · rw [e]; obtain ⟨b3, b4⟩ := bisect_aux_any M fin true v c.tolE c.tolB c.fuel prev
        (upperLimit M c.target c.tolB c.fuel prev).beta
      exact ⟨by simp only [finalize]; rw [b3], by simp only [finalize]; rw [b4], rfl, rfl⟩

/-- **ESS mode, any scalar type**: which comparison results lead to which branch.
    `essUpper`: the test `ess(β) >= target` evaluated to True at the new β;  `essStay`: β is β_prev;
    `essBisect` — dead code over ℝ — is entered exactly when `ess_prev <= target` was False and `ess_upper >= target` was False,
    and then β_upper IS β_prev, so BOTH `ess_prev <= target` and `ess_prev >= target` were False: the ESS at β_prev is
    unordered with the target (NaN). -/
theorem C05_any_ess_floor (M : α → W × α × α) (Z : α → α) (fin : α → Bool) (target tolE tolB : α) (fuel : Nat) (prev : α) :
    ((runEss M Z fin target tolE tolB fuel prev).branch = Branch.essStay ∧
      (runEss M Z fin target tolE tolB fuel prev).beta = prev) ∨
    ((runEss M Z fin target tolE tolB fuel prev).branch = Branch.essUpper ∧
      Sc.ge (M (runEss M Z fin target tolE tolB fuel prev).beta).2.1 target = true) ∨
    ((runEss M Z fin target tolE tolB fuel prev).branch = Branch.essBisect ∧
      Sc.le (M prev).2.1 target = false ∧ Sc.ge (M prev).2.1 target = false) := by
  rcases runEss_cases_any M Z fin target tolE tolB fuel prev with ⟨_, e⟩ | ⟨_, h, e⟩ | ⟨h1, h2, e⟩
  · left; rw [e]; exact ⟨rfl, rfl⟩
  · right; left; rw [e]; exact ⟨rfl, h⟩
  · right; right; rw [e]
    refine ⟨rfl, h1, ?_⟩
    rcases C05_any_upper_ess M target tolB fuel prev with hp | hp
    · rw [hp] at h2; exact h2
    · rw [hp] at h2; exact absurd h2 (by simp)

/-- **`run` on a non-empty history, any bracket relation**: `β_prev R β R β_upper R 1` in every branch of both modes, for
    every oracle and every outcome of the comparisons -/
theorem C05_R_run {R : α → α → Prop} (hR : Bracket R) (c : Cfg α) (M : α → W × α × α) (Z : α → α) (fin : α → Bool) (prev : α)
    (h1 : R prev Sc.one) :
    R prev (run c false M Z fin prev).beta ∧
    R (run c false M Z fin prev).beta (upperLimit M c.target c.tolB c.fuel prev).beta ∧
    R (upperLimit M c.target c.tolB c.fuel prev).beta Sc.one := by
  obtain ⟨u1, u2⟩ := C05_R_upper hR M c.target c.tolB c.fuel prev h1
  cases hv : c.vv with
  | none =>
    simp only [run, hv, Bool.false_eq_true, if_false]
    rcases runEss_cases_any M Z fin c.target c.tolE c.tolB c.fuel prev with ⟨_, e⟩ | ⟨_, _, e⟩ | ⟨_, _, e⟩
    · rw [e]; exact ⟨hR.left u1, u1, u2⟩
    · rw [e]; exact ⟨u1, hR.right u1, u2⟩
    · rw [e]; obtain ⟨b1, b2, _, _⟩ := C05_R_bisect hR M fin false c.target c.tolE c.tolB c.fuel prev _ u1
      exact ⟨b1, b2, u2⟩
  | some v =>
    simp only [run, hv, Bool.false_eq_true, if_false]
    rcases runDyn_cases_any M Z fin c.target v c.tolE c.tolB c.fuel prev with e | e | e | e
    · rw [e]; exact ⟨hR.left u1, u1, u2⟩
    · rw [e]; exact ⟨u1, hR.right u1, u2⟩
    · rw [e]; exact ⟨hR.left u1, u1, u2⟩
    · rw [e]; obtain ⟨b1, b2, _, _⟩ := C05_R_bisect hR M fin true v c.tolE c.tolB c.fuel prev _ u1
      exact ⟨b1, b2, u2⟩

/-- **the schedule, any bracket relation in which 0 R 1**: from a state with non-empty history and `β_prev R 1`, every later β
    satisfies `β_prev R β R 1` and consecutive temperatures are R-related -/
theorem C05_R_schedule {R : α → α → Prop} (hR : Bracket R) {σ : Type} (c : Cfg α) (env : σ → Oracles α W) (emp : σ → Bool)
    (next : σ → RunOut α W → σ) (hne : ∀ s r, emp (next s r) = false) :
    ∀ (n : Nat) (s : σ) (prev : α), emp s = false → R prev Sc.one →
      (∀ b ∈ betas c env emp next n s prev, R prev b ∧ R b Sc.one) ∧
      (∀ k a b, (betas c env emp next n s prev)[k]? = some a → (betas c env emp next n s prev)[k+1]? = some b → R a b) := by
  intro n
  induction n with
  | zero => intro s prev _ _; simp [betas, schedule]
  | succ n ih =>
    intro s prev hs h1
    obtain ⟨r1, r2, r3⟩ := C05_R_run hR c (env s).M (env s).Z (env s).fin prev h1
    have hr1 : R (run c false (env s).M (env s).Z (env s).fin prev).beta Sc.one := hR.trans r2 r3
    have e : betas c env emp next (n+1) s prev =
        (run c false (env s).M (env s).Z (env s).fin prev).beta ::
          betas c env emp next n (next s (run c false (env s).M (env s).Z (env s).fin prev))
            (run c false (env s).M (env s).Z (env s).fin prev).beta := by
      simp [betas, schedule, hs]
    obtain ⟨i1, i2⟩ := ih (next s (run c false (env s).M (env s).Z (env s).fin prev))
      (run c false (env s).M (env s).Z (env s).fin prev).beta (hne _ _) hr1
    rw [e]
    constructor
    · intro b hb
      rcases List.mem_cons.mp hb with rfl | hb
      · exact ⟨r1, hr1⟩
      · exact ⟨hR.trans r1 (i1 b hb).1, (i1 b hb).2⟩
    · intro k a b ha hb
      cases k with
      | zero =>
        simp only [List.getElem?_cons_zero, Option.some.injEq] at ha
        simp only [List.getElem?_cons_succ] at hb
        subst ha
        exact (i1 b (List.mem_of_getElem? hb)).1
      | succ k =>
        simp only [List.getElem?_cons_succ] at ha hb
        exact i2 k a b ha hb

end Props.C05.Robust
