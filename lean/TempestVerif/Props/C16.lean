import TempestVerif.Model.Boundary
import TempestVerif.Lemmas.ScReal
import TempestVerif.Lemmas.ScRound
import Mathlib.Algebra.Order.Round
import Mathlib.Algebra.Order.ToIntervalMod
import Mathlib.Logic.Function.Iterate
import Mathlib.Topology.Algebra.InfiniteSum.Basic
import Mathlib.MeasureTheory.Group.LIntegral
import Mathlib.MeasureTheory.Measure.Lebesgue.Basic
import Mathlib.MeasureTheory.Measure.Haar.OfBasis
import Mathlib.MeasureTheory.Measure.Haar.Unique
import Mathlib.MeasureTheory.Measure.Prod
import Mathlib.MeasureTheory.Constructions.BorelSpace.Order
import Mathlib.MeasureTheory.Function.Floor
import Mathlib.MeasureTheory.Integral.Lebesgue.Basic
import Mathlib.Tactic
/-
  C16 — boundary maps fold every real number into the unit interval.
  Theorems are about `Model.Boundary` at `ℝ` (exact arithmetic); the sections "whole arrays, any scalar
  type" and "rounded arithmetic" are about the same definitions at EVERY scalar instance resp. at the
  rounded reals `RR r` of `Lemmas/ScRound.lean` (any monotone idempotent rounding fixing 0 and 1, binary64
  included).  Bit-level IEEE behaviour is covered by the bit-exact correspondence, not here.
  The last clause of the property ("a symmetric random-walk proposal followed by the map is a symmetric
  proposal on the folded space") is stated three ways: (i) the preimage sums `Kper/Krefl/Kvec`
  q~(x -> y) = sum over {w : fold w = y} of k(w - x) are symmetric in (x, y) (1-D, and on the whole vector with
  mixed periodic / reflective / untouched coordinates); (ii) the preimage families are complete and, off the
  end points, non-redundant; (iii) the preimage sum IS the density of the law of fold(x + xi) w.r.t. Lebesgue
  measure on the unit interval (`C16_*_pushforward`), so the folded proposal KERNEL is reversible w.r.t.
  Lebesgue measure (`C16_*_kernel_reversible`).  (iii) is proved per coordinate here; the d-dimensional
  pushforward identity and kernel reversibility (any mixture of untouched / periodic / reflective
  coordinates, product Lebesgue measure on `Fin d → ℝ`) are in `Props/C16Vec.lean`, by Fubini–Tonelli
  induction from the one-coordinate results of this file (see clauses/C16.md, row 8f).
-/
namespace Props.C16
open Model.Boundary

/-! ### periodic coordinate: value modulo 1 -/

theorem periodic_eq_fract (x : ℝ) : periodic x = Int.fract x := by
  simp [periodic]

theorem C16_periodic_range (x : ℝ) : 0 ≤ periodic x ∧ periodic x < 1 := by
  rw [periodic_eq_fract]; exact ⟨Int.fract_nonneg x, Int.fract_lt_one x⟩

/-- "value modulo 1": differs from `x` by an integer … -/
theorem C16_periodic_mod_one (x : ℝ) : ∃ k : ℤ, periodic x = x - k :=
  ⟨⌊x⌋, by simp [periodic]⟩

/-- … and is invariant under integer shifts. -/
theorem C16_periodic_add_int (x : ℝ) (k : ℤ) : periodic (x + k) = periodic x := by
  simp [periodic_eq_fract]

theorem C16_periodic_idem (x : ℝ) : periodic (periodic x) = periodic x := by
  simp [periodic_eq_fract]

/-! ### reflective coordinate: period-2 triangle wave -/

theorem reflect_even (x : ℝ) (h : ⌊x⌋ % 2 = 0) : reflect x = Int.fract x := by
  simp [reflect, h]

theorem reflect_odd (x : ℝ) (h : ⌊x⌋ % 2 = 1) : reflect x = 1 - Int.fract x := by
  have : ¬ (⌊x⌋ % 2 = 0) := by omega
  simp [reflect, this]

theorem C16_reflect_range (x : ℝ) : 0 ≤ reflect x ∧ reflect x ≤ 1 := by
  rcases Int.emod_two_eq_zero_or_one ⌊x⌋ with h | h
  · rw [reflect_even x h]; exact ⟨Int.fract_nonneg x, (Int.fract_lt_one x).le⟩
  · rw [reflect_odd x h]
    have := Int.fract_nonneg x; have := Int.fract_lt_one x
    constructor <;> linarith

/-- identity on the unit interval (both end points included) -/
theorem C16_reflect_id_on_unit (x : ℝ) (h0 : 0 ≤ x) (h1 : x ≤ 1) : reflect x = x := by
  rcases eq_or_lt_of_le h1 with rfl | hlt
  · have : ⌊(1:ℝ)⌋ % 2 = 1 := by simp
    rw [reflect_odd 1 this]; simp
  · have hf : ⌊x⌋ = 0 := by rw [Int.floor_eq_iff]; constructor <;> simp [h0, hlt]
    rw [reflect_even x (by simp [hf])]
    simp [Int.fract, hf]

theorem C16_reflect_idem (x : ℝ) : reflect (reflect x) = reflect x :=
  C16_reflect_id_on_unit _ (C16_reflect_range x).1 (C16_reflect_range x).2

/-- period 2 -/
theorem C16_reflect_add_two (x : ℝ) : reflect (x + 2) = reflect x := by
  have hfl : ⌊x + 2⌋ = ⌊x⌋ + 2 := by
    have := Int.floor_add_intCast x 2; simpa using this
  have hfr : Int.fract (x + 2) = Int.fract x := by
    have := Int.fract_add_intCast x 2; simpa using this
  rcases Int.emod_two_eq_zero_or_one ⌊x⌋ with h | h
  · rw [reflect_even x h, reflect_even (x + 2) (by rw [hfl]; omega), hfr]
  · rw [reflect_odd x h, reflect_odd (x + 2) (by rw [hfl]; omega), hfr]

/-- even: mirror at 0 (hence, with period 2, at every integer) -/
theorem C16_reflect_neg (x : ℝ) : reflect (-x) = reflect x := by
  by_cases hx : Int.fract x = 0
  · -- x is an integer
    have hxi : x = (⌊x⌋ : ℝ) := by
      have := Int.self_sub_floor x; rw [← Int.fract] at *; linarith [Int.fract_add_floor x]
    have hneg : ⌊-x⌋ = -⌊x⌋ := by
      rw [hxi]; simp [← Int.cast_neg]
    have hfn : Int.fract (-x) = 0 := by
      rw [hxi, ← Int.cast_neg]; simp
    rcases Int.emod_two_eq_zero_or_one ⌊x⌋ with h | h
    · rw [reflect_even x h, reflect_even (-x) (by rw [hneg]; omega), hx, hfn]
    · rw [reflect_odd x h, reflect_odd (-x) (by rw [hneg]; omega), hx, hfn]
  · have hneg : ⌊-x⌋ = -⌊x⌋ - 1 := by
      rw [Int.floor_neg]
      have : ⌈x⌉ = ⌊x⌋ + 1 := by
        rw [Int.ceil_eq_iff]
        have h1 := Int.floor_le x; have h2 := Int.lt_floor_add_one x
        have h3 : (⌊x⌋ : ℝ) ≠ x := by
          intro h; apply hx; simp [Int.fract, h]
        constructor
        · push_cast; have := lt_of_le_of_ne h1 h3; linarith
        · push_cast; linarith
      omega
    have hfn : Int.fract (-x) = 1 - Int.fract x := by
      simp only [Int.fract, hneg]; push_cast; ring
    rcases Int.emod_two_eq_zero_or_one ⌊x⌋ with h | h
    · rw [reflect_even x h, reflect_odd (-x) (by rw [hneg]; omega), hfn]; ring
    · rw [reflect_odd x h, reflect_even (-x) (by rw [hneg]; omega), hfn]

/-- closed form: distance to the nearest even integer -/
theorem C16_reflect_triangle (x : ℝ) : ∃ k : ℤ, reflect x = |x - 2 * k| ∧ |x - 2 * k| ≤ 1 := by
  rcases Int.emod_two_eq_zero_or_one ⌊x⌋ with h | h
  · refine ⟨⌊x⌋ / 2, ?_⟩
    have h2 : (2 : ℝ) * ((⌊x⌋ / 2 : ℤ) : ℝ) = (⌊x⌋ : ℝ) := by
      have : 2 * (⌊x⌋ / 2) = ⌊x⌋ := by omega
      exact_mod_cast this
    rw [reflect_even x h, h2]
    have h0 := Int.fract_nonneg x; have h1 := Int.fract_lt_one x
    have : x - ⌊x⌋ = Int.fract x := rfl
    rw [this, abs_of_nonneg h0]; exact ⟨rfl, h1.le⟩
  · refine ⟨(⌊x⌋ + 1) / 2, ?_⟩
    have h2 : (2 : ℝ) * (((⌊x⌋ + 1) / 2 : ℤ) : ℝ) = (⌊x⌋ : ℝ) + 1 := by
      have : 2 * ((⌊x⌋ + 1) / 2) = ⌊x⌋ + 1 := by omega
      exact_mod_cast this
    rw [reflect_odd x h, h2]
    have h0 := Int.fract_nonneg x; have h1 := Int.fract_lt_one x
    have : x - (⌊x⌋ + 1) = -(1 - Int.fract x) := by rw [← Int.self_sub_floor]; ring
    rw [this, abs_neg, abs_of_nonneg (by linarith)]
    exact ⟨rfl, by linarith⟩

/-! ### arrays: designated coordinates mapped, the rest untouched -/

/-- what `apply` does to coordinate `i` -/
noncomputable def coordMap (per refl : List Nat) (i : Nat) (x : ℝ) : ℝ :=
  let y := if i ∈ per then periodic x else x
  if i ∈ refl then reflect y else y

theorem foldl_modify_length {β : Type} (f : β → β) (l : List Nat) (u : List β) :
    (l.foldl (fun v i => v.modify i f) u).length = u.length := by
  induction l generalizing u with
  | nil => rfl
  | cons a l ih => simp [List.foldl_cons, ih]

theorem foldl_modify_get {β : Type} (f : β → β) (hf : ∀ x, f (f x) = f x)
    (l : List Nat) (u : List β) (i : Nat) :
    (l.foldl (fun v j => v.modify j f) u)[i]? = (u[i]?).map (fun x => if i ∈ l then f x else x) := by
  induction l generalizing u with
  | nil => simp
  | cons a l ih =>
    rw [List.foldl_cons, ih, List.getElem?_modify]
    by_cases hai : a = i
    · subst hai
      cases hu : u[a]? with
      | none => simp
      | some x => by_cases hm : a ∈ l <;> simp [hm, hf]
    · have : ¬ i = a := fun h => hai h.symm
      cases hu : u[i]? with
      | none => simp
      | some x => by_cases hm : i ∈ l <;> simp [hai, this, hm]

theorem C16_apply_length (per refl : List Nat) (u : List ℝ) :
    (apply per refl u).length = u.length := by
  simp [apply, foldl_modify_length]

/-- coordinate-wise description of the whole map: periodic coordinates go to their value mod 1,
    reflective ones to the triangle fold, all others are untouched — for every index list
    (duplicates and overlaps included). -/
theorem C16_apply_coord (per refl : List Nat) (u : List ℝ) (i : Nat) :
    (apply per refl u)[i]? = (u[i]?).map (coordMap per refl i) := by
  unfold apply
  rw [foldl_modify_get reflect C16_reflect_idem, foldl_modify_get periodic C16_periodic_idem]
  cases u[i]? with
  | none => rfl
  | some x => simp [coordMap]

theorem C16_untouched (per refl : List Nat) (u : List ℝ) (i : Nat)
    (h1 : i ∉ per) (h2 : i ∉ refl) : (apply per refl u)[i]? = u[i]? := by
  rw [C16_apply_coord]; cases u[i]? <;> simp [coordMap, h1, h2]

theorem coordMap_range (per refl : List Nat) (i : Nat) (x : ℝ) (h : i ∈ per ∨ i ∈ refl) :
    0 ≤ coordMap per refl i x ∧ coordMap per refl i x ≤ 1 := by
  unfold coordMap
  by_cases hr : i ∈ refl
  · simp only [hr, if_true]; exact C16_reflect_range _
  · have hp : i ∈ per := by tauto
    simp only [hr, hp, if_true, if_false]
    exact ⟨(C16_periodic_range x).1, (C16_periodic_range x).2.le⟩

theorem coordMap_idem (per refl : List Nat) (i : Nat) (x : ℝ) :
    coordMap per refl i (coordMap per refl i x) = coordMap per refl i x := by
  unfold coordMap
  by_cases hr : i ∈ refl <;> by_cases hp : i ∈ per <;> simp only [hr, hp, if_true, if_false]
  · have h := C16_reflect_range (periodic x)
    have hper : periodic (reflect (periodic x)) = reflect (periodic x) ∨ reflect (periodic x) = 1 := by
      rcases eq_or_lt_of_le h.2 with h1 | h1
      · right; exact h1
      · left; rw [periodic_eq_fract, Int.fract_eq_iff]
        exact ⟨h.1, h1, 0, by simp⟩
    rcases hper with h1 | h1
    · rw [h1, C16_reflect_idem]
    · rw [h1]
      have hp1 : periodic (1 : ℝ) = 0 := by simp [periodic_eq_fract]
      -- reflect (periodic x) = 1 is impossible for periodic x ∈ [0,1); still handle it
      have hx := C16_periodic_range x
      have := C16_reflect_id_on_unit (periodic x) hx.1 hx.2.le
      rw [this] at h1; linarith
  · exact C16_reflect_idem x
  · exact C16_periodic_idem x

/-- applying the boundary map twice gives the same point -/
theorem C16_apply_idem (per refl : List Nat) (u : List ℝ) :
    apply per refl (apply per refl u) = apply per refl u := by
  apply List.ext_getElem?
  intro i
  rw [C16_apply_coord, C16_apply_coord]
  cases u[i]? with
  | none => rfl
  | some x => simp [coordMap_idem]

/-- every designated coordinate of the image lies in [0,1] -/
theorem C16_apply_range (per refl : List Nat) (u : List ℝ) (i : Nat) (y : ℝ)
    (h : i ∈ per ∨ i ∈ refl) (hy : (apply per refl u)[i]? = some y) : 0 ≤ y ∧ y ≤ 1 := by
  rw [C16_apply_coord] at hy
  cases hu : u[i]? with
  | none => simp [hu] at hy
  | some x =>
    simp [hu] at hy; subst hy; exact coordMap_range per refl i x h

/-- the bounds check accepts a point exactly when all remaining coordinates lie in [0,1] -/
theorem C16_checkBounds_iff (per refl : List Nat) (u : List ℝ) :
    checkBounds per refl u = true ↔
      ∀ i, (hi : i < u.length) → i ∉ per → i ∉ refl → 0 ≤ u[i] ∧ u[i] ≤ 1 := by
  unfold checkBounds
  rw [List.all_eq_true]
  constructor
  · intro h i hi hp hr
    have := h i (List.mem_range.mpr hi)
    simp [hp, hr, hi, inUnit] at this
    exact this
  · intro h i hi
    have hi' := List.mem_range.mp hi
    by_cases hp : i ∈ per
    · simp [hp]
    · by_cases hr : i ∈ refl
      · simp [hr]
      · have := h i hi' hp hr
        simp [hp, hr, hi', inUnit, this]

/-- with every coordinate designated the check is vacuous (the `always valid` branch) -/
theorem C16_checkBounds_all_special (per refl : List Nat) (u : List ℝ)
    (h : ∀ i, i < u.length → i ∈ per ∨ i ∈ refl) : checkBounds per refl u = true := by
  rw [C16_checkBounds_iff]; intro i hi hp hr; rcases h i hi with h | h <;> contradiction

/-- after the map, a point passes the check iff its untouched coordinates were already inside -/
theorem C16_check_after_apply (per refl : List Nat) (u : List ℝ) :
    checkBounds per refl (apply per refl u) = checkBounds per refl u := by
  rw [Bool.eq_iff_iff, C16_checkBounds_iff, C16_checkBounds_iff]
  have hl := C16_apply_length per refl u
  constructor
  · intro h i hi hp hr
    have h' := h i (by omega) hp hr
    have e := C16_untouched per refl u i hp hr
    rw [List.getElem?_eq_getElem (by omega), List.getElem?_eq_getElem hi] at e
    injection e with e; rw [e] at h'; exact h'
  · intro h i hi hp hr
    have h' := h i (by omega) hp hr
    have e := C16_untouched per refl u i hp hr
    rw [List.getElem?_eq_getElem hi, List.getElem?_eq_getElem (by omega)] at e
    injection e with e; rw [e]; exact h'

/-! ### consequence: a symmetric random-walk proposal pushed through the map is symmetric -/

/-- all points that reflect to `y`: `2m + y` and `2m − y` -/
def reflPre (p : ℤ × Bool) (y : ℝ) : ℝ := if p.2 then 2 * p.1 + y else 2 * p.1 - y

theorem reflPre_reflects (p : ℤ × Bool) (y : ℝ) (h0 : 0 ≤ y) (h1 : y ≤ 1) :
    reflect (reflPre p y) = y := by
  rcases p with ⟨m, b⟩
  have shift : ∀ (z : ℝ) (m : ℤ), reflect (2 * (m : ℝ) + z) = reflect z := by
    intro z m
    have e : 2 * (m : ℝ) + z = z + ((2 * m : ℤ) : ℝ) := by push_cast; ring
    have hfl : ⌊2 * (m : ℝ) + z⌋ = ⌊z⌋ + 2 * m := by rw [e, Int.floor_add_intCast]
    have hfr : Int.fract (2 * (m : ℝ) + z) = Int.fract z := by rw [e, Int.fract_add_intCast]
    rcases Int.emod_two_eq_zero_or_one ⌊z⌋ with h | h
    · rw [reflect_even z h, reflect_even _ (by rw [hfl]; omega), hfr]
    · rw [reflect_odd z h, reflect_odd _ (by rw [hfl]; omega), hfr]
  cases b
  · simp only [reflPre, Bool.false_eq_true, if_false]
    have : 2 * (m : ℝ) - y = 2 * (m : ℝ) + (-y) := by ring
    rw [this, shift, C16_reflect_neg, C16_reflect_id_on_unit y h0 h1]
  · simp only [reflPre, if_true]
    rw [shift, C16_reflect_id_on_unit y h0 h1]

noncomputable def Krefl (k : ℝ → ℝ) (x y : ℝ) : ℝ := ∑' p : ℤ × Bool, k (reflPre p y - x)
noncomputable def Kper (k : ℝ → ℝ) (x y : ℝ) : ℝ := ∑' m : ℤ, k (m + y - x)

def flipE : ℤ × Bool ≃ ℤ × Bool where
  toFun p := (if p.2 then -p.1 else p.1, p.2)
  invFun p := (if p.2 then -p.1 else p.1, p.2)
  left_inv p := by rcases p with ⟨m, b⟩; cases b <;> simp
  right_inv p := by rcases p with ⟨m, b⟩; cases b <;> simp

/-- density of `reflect (x + ξ)` at `y` when `ξ` has an even density `k`: symmetric in (x, y) -/
theorem C16_fold_reflective_symmetric (k : ℝ → ℝ) (hk : ∀ z, k (-z) = k z) (x y : ℝ) :
    Krefl k x y = Krefl k y x := by
  unfold Krefl; rw [← flipE.tsum_eq]; congr 1; funext p; rcases p with ⟨m, b⟩; cases b
  · simp [flipE, reflPre]; congr 1; ring
  · simp only [flipE, reflPre, Equiv.coe_fn_mk, if_true, Int.cast_neg]; rw [← hk]; congr 1; ring

/-- density of `periodic (x + ξ)` at `y`: symmetric in (x, y) -/
theorem C16_fold_periodic_symmetric (k : ℝ → ℝ) (hk : ∀ z, k (-z) = k z) (x y : ℝ) :
    Kper k x y = Kper k y x := by
  unfold Kper; rw [← (Equiv.neg ℤ).tsum_eq]; congr 1; funext m
  simp only [Equiv.neg_apply, Int.cast_neg]; rw [← hk]; congr 1; ring

/-! ### the preimage families are complete (and non-redundant off the end points) -/

/-- the preimage family is complete: every point that reflects to `y` is some `reflPre p y` -/
theorem C16_reflect_preimage_iff (w y : ℝ) (h0 : 0 ≤ y) (h1 : y ≤ 1) :
    reflect w = y ↔ ∃ p : ℤ × Bool, w = reflPre p y := by
  constructor
  · intro h
    obtain ⟨k, hk, _⟩ := C16_reflect_triangle w
    rw [h] at hk
    rcases abs_cases (w - 2 * (k : ℝ)) with ⟨ha, _⟩ | ⟨ha, _⟩
    · exact ⟨(k, true), by simp only [reflPre, if_true]; linarith⟩
    · exact ⟨(k, false), by simp only [reflPre, Bool.false_eq_true, if_false]; linarith⟩
  · rintro ⟨p, rfl⟩; exact reflPre_reflects p y h0 h1

theorem reflPre_injective (y : ℝ) (h0 : 0 < y) (h1 : y < 1) :
    Function.Injective (fun p : ℤ × Bool => reflPre p y) := by
  rintro ⟨m, b⟩ ⟨n, c⟩ h
  cases b <;> cases c <;> simp only [reflPre, Bool.false_eq_true, if_false, if_true] at h
  · have : (m : ℝ) = n := by linarith
    simp [Int.cast_injective this]
  · exfalso
    have e : y = ((m - n : ℤ) : ℝ) := by push_cast; linarith
    rw [e] at h0 h1
    have a : 0 < m - n := by exact_mod_cast h0
    have b : m - n < 1 := by exact_mod_cast h1
    omega
  · exfalso
    have e : y = ((n - m : ℤ) : ℝ) := by push_cast; linarith
    rw [e] at h0 h1
    have a : 0 < n - m := by exact_mod_cast h0
    have b : n - m < 1 := by exact_mod_cast h1
    omega
  · have : (m : ℝ) = n := by linarith
    simp [Int.cast_injective this]

theorem C16_periodic_preimage_iff (w y : ℝ) (h0 : 0 ≤ y) (h1 : y < 1) :
    periodic w = y ↔ ∃ m : ℤ, w = m + y := by
  constructor
  · intro h; refine ⟨⌊w⌋, ?_⟩; rw [← h, periodic_eq_fract]; exact (Int.floor_add_fract w).symm
  · rintro ⟨m, rfl⟩
    rw [add_comm, C16_periodic_add_int, periodic_eq_fract, Int.fract_eq_iff]
    exact ⟨h0, h1, 0, by simp⟩

/-! ### the folded proposal on the whole vector (mixed periodic / reflective / untouched coordinates) -/

/-- what the map does to coordinate `i`: wrapped, reflected, or left alone.  A coordinate listed as
    periodic AND reflective is wrapped first and the reflection is then the identity on `[0,1)`. -/
inductive Kind | fixed | per | refl
  deriving DecidableEq

def kind (per refl : List Nat) (i : Nat) : Kind :=
  if i ∈ per then .per else if i ∈ refl then .refl else .fixed

/-- spacing of the preimage lattice of a coordinate -/
def Kind.c : Kind → ℝ
  | .fixed => 0
  | .per => 1
  | .refl => 2

/-- admissible preimage labels `(m, b)` of a coordinate: `fixed` has the single label `(0, true)`,
    `per` the labels `(m, true)` (preimages `m + y`), `refl` all labels (`2m + y` and `2m − y`). -/
def Kind.ok : Kind → ℤ × Bool → Prop
  | .fixed, p => p = (0, true)
  | .per, p => p.2 = true
  | .refl, _ => True

def pre1 (κ : Kind) (p : ℤ × Bool) (y : ℝ) : ℝ := κ.c * p.1 + (if p.2 then y else -y)

theorem pre1_refl (p : ℤ × Bool) (y : ℝ) : pre1 .refl p y = reflPre p y := by
  rcases p with ⟨m, b⟩
  cases b
  · simp only [pre1, reflPre, Kind.c, Bool.false_eq_true, if_false]; ring
  · simp only [pre1, reflPre, Kind.c, if_true]

/-- `pre1` really enumerates preimages of the model's coordinate map -/
theorem C16_pre1_maps (per refl : List Nat) (i : Nat) (p : ℤ × Bool) (y : ℝ)
    (hp : (kind per refl i).ok p) (h0 : 0 ≤ y) (h1 : y < 1) :
    coordMap per refl i (pre1 (kind per refl i) p y) = y := by
  unfold kind at *
  unfold coordMap
  by_cases hper : i ∈ per
  · simp only [hper, if_true] at hp ⊢
    have hb : p.2 = true := hp
    have e : pre1 .per p y = y + (p.1 : ℝ) := by simp [pre1, hb, Kind.c]; ring
    have hy : periodic (y + (p.1 : ℝ)) = y := by
      rw [C16_periodic_add_int, periodic_eq_fract, Int.fract_eq_iff]; exact ⟨h0, h1, 0, by simp⟩
    rw [e, hy]
    by_cases hr : i ∈ refl
    · simp only [hr, if_true]; exact C16_reflect_id_on_unit y h0 h1.le
    · simp only [hr, if_false]
  · by_cases hr : i ∈ refl
    · simp only [hper, hr, if_true, if_false] at hp ⊢
      rw [pre1_refl]; exact reflPre_reflects p y h0 h1.le
    · simp only [hper, hr, if_false] at hp ⊢
      have : p = (0, true) := hp
      subst this; simp [pre1, Kind.c]

variable {d : ℕ}

/-- labels of the preimages of a point of the folded space `[0,1]^d` -/
def Lbl (per refl : List Nat) (d : ℕ) : Type :=
  {p : Fin d → ℤ × Bool // ∀ i, (kind per refl i.val).ok (p i)}

def preV (per refl : List Nat) (p : Lbl per refl d) (y : Fin d → ℝ) : Fin d → ℝ :=
  fun i => pre1 (kind per refl i.val) (p.1 i) (y i)

/-- density at `y` of `fold (x + ξ)` when the increment `ξ` has density `k` on `ℝ^d`:
    `q̃(x → y) = Σ_{w : fold w = y} k (w − x)` -/
noncomputable def Kvec (per refl : List Nat) (k : (Fin d → ℝ) → ℝ) (x y : Fin d → ℝ) : ℝ :=
  ∑' p : Lbl per refl d, k (fun i => preV per refl p y i - x i)

def flip1 (p : ℤ × Bool) : ℤ × Bool := (if p.2 then -p.1 else p.1, p.2)

theorem flip1_flip1 (p : ℤ × Bool) : flip1 (flip1 p) = p := by
  rcases p with ⟨m, b⟩; cases b <;> simp [flip1]

theorem flip1_ok (κ : Kind) (p : ℤ × Bool) (h : κ.ok p) : κ.ok (flip1 p) := by
  cases κ
  · have : p = (0, true) := h
    subst this; show flip1 (0, true) = (0, true); simp [flip1]
  · exact h
  · trivial

def flipV (per refl : List Nat) : Lbl per refl d ≃ Lbl per refl d where
  toFun p := ⟨fun i => flip1 (p.1 i), fun i => flip1_ok _ _ (p.2 i)⟩
  invFun p := ⟨fun i => flip1 (p.1 i), fun i => flip1_ok _ _ (p.2 i)⟩
  left_inv p := by apply Subtype.ext; funext i; exact flip1_flip1 _
  right_inv p := by apply Subtype.ext; funext i; exact flip1_flip1 _

/-- the sign pattern relating the two increments -/
theorem preV_flip (per refl : List Nat) (p : Lbl per refl d) (x y : Fin d → ℝ) (i : Fin d) :
    preV per refl (flipV per refl p) x i - y i =
      (if (p.1 i).2 then -(preV per refl p y i - x i) else (preV per refl p y i - x i)) := by
  have hf : ((flipV per refl p).1 i) = flip1 (p.1 i) := rfl
  simp only [preV, pre1, hf, flip1]
  rcases p.1 i with ⟨m, b⟩
  cases b
  · simp only [Bool.false_eq_true, if_false]; ring
  · simp only [if_true, Int.cast_neg]; ring

/-- **symmetry of the folded proposal on the whole vector.**  If the increment density is invariant
    under every sign change that negates all non-reflective coordinates (and any subset of the
    reflective ones), then the density of `fold (x + ξ)` at `y` equals that of `fold (y + ξ)` at `x`. -/
theorem C16_fold_vector_symmetric (per refl : List Nat) (k : (Fin d → ℝ) → ℝ)
    (hk : ∀ (s : Fin d → Bool) (z : Fin d → ℝ),
        (∀ i : Fin d, s i = false → kind per refl i.val = .refl) →
        k (fun i => if s i then -z i else z i) = k z)
    (x y : Fin d → ℝ) : Kvec per refl k x y = Kvec per refl k y x := by
  unfold Kvec
  rw [← (flipV per refl).tsum_eq]
  congr 1; funext p
  have e : (fun i => preV per refl (flipV per refl p) y i - x i) =
      fun i => if (p.1 i).2 then -(preV per refl p x i - y i) else (preV per refl p x i - y i) := by
    funext i; exact preV_flip per refl p y x i
  rw [e, hk (fun i => (p.1 i).2)]
  intro i hi
  have := p.2 i
  cases hκ : kind per refl i.val
  · rw [hκ] at this; have e2 : p.1 i = (0, true) := this; rw [e2] at hi; simp at hi
  · rw [hκ] at this; have e2 : (p.1 i).2 = true := this; rw [e2] at hi; simp at hi
  · rfl

/-- the two label sums converge together -/
theorem C16_fold_vector_summable_iff (per refl : List Nat) (k : (Fin d → ℝ) → ℝ)
    (hk : ∀ (s : Fin d → Bool) (z : Fin d → ℝ),
        (∀ i : Fin d, s i = false → kind per refl i.val = .refl) →
        k (fun i => if s i then -z i else z i) = k z)
    (x y : Fin d → ℝ) :
    Summable (fun p : Lbl per refl d => k (fun i => preV per refl p y i - x i)) ↔
    Summable (fun p : Lbl per refl d => k (fun i => preV per refl p x i - y i)) := by
  rw [← (flipV per refl).summable_iff]
  apply iff_of_eq; congr 1; funext p
  simp only [Function.comp]
  have e : (fun i => preV per refl (flipV per refl p) y i - x i) =
      fun i => if (p.1 i).2 then -(preV per refl p x i - y i) else (preV per refl p x i - y i) := by
    funext i; exact preV_flip per refl p y x i
  rw [e, hk (fun i => (p.1 i).2)]
  intro i hi
  have := p.2 i
  cases hκ : kind per refl i.val
  · rw [hκ] at this; have e2 : p.1 i = (0, true) := this; rw [e2] at hi; simp at hi
  · rw [hκ] at this; have e2 : (p.1 i).2 = true := this; rw [e2] at hi; simp at hi
  · rfl

/-- no reflective-only coordinate (periodic folds, any dimension): an even density suffices —
    correlated covariances included. -/
theorem C16_fold_vector_periodic_symmetric (per refl : List Nat) (k : (Fin d → ℝ) → ℝ)
    (hR : ∀ i : Fin d, i.val ∈ refl → i.val ∈ per)
    (hk : ∀ z : Fin d → ℝ, k (fun i => -z i) = k z) (x y : Fin d → ℝ) :
    Kvec per refl k x y = Kvec per refl k y x := by
  apply C16_fold_vector_symmetric
  intro s z hs
  have : ∀ i, s i = true := by
    intro i
    by_contra h
    have hf : s i = false := by simpa using h
    have := hs i hf
    unfold kind at this
    by_cases hp : i.val ∈ per
    · simp [hp] at this
    · by_cases hr : i.val ∈ refl
      · exact hp (hR i hr)
      · simp [hp, hr] at this
  simp only [this, if_true]; exact hk z

/-- independent coordinates, each with an even density (e.g. a Gaussian with diagonal covariance):
    symmetric for every choice of periodic / reflective coordinates. -/
theorem C16_fold_vector_product_symmetric (per refl : List Nat) (k1 : Fin d → ℝ → ℝ)
    (hk : ∀ i z, k1 i (-z) = k1 i z) (x y : Fin d → ℝ) :
    Kvec per refl (fun z => ∏ i, k1 i (z i)) x y = Kvec per refl (fun z => ∏ i, k1 i (z i)) y x := by
  apply C16_fold_vector_symmetric
  intro s z _
  apply Finset.prod_congr rfl
  intro i _
  by_cases h : s i <;> simp [h, hk]

/-! ### the preimage sum is the density of the folded proposal; the folded kernel is reversible -/
section measure
open MeasureTheory Set
open scoped ENNReal

noncomputable def KperE (k : ℝ → ℝ≥0∞) (x y : ℝ) : ℝ≥0∞ := ∑' m : ℤ, k (m + y - x)


theorem lintegral_unfold (f : ℝ → ℝ≥0∞) (hf : Measurable f) :
    ∫⁻ w, f w = ∫⁻ t in Ico (0:ℝ) 1, ∑' m : ℤ, f (m + t) := by
  have h1 : ∫⁻ w, f w = ∑' m : ℤ, ∫⁻ w in Ico (m:ℝ) (m+1), f w := by
    rw [← lintegral_iUnion (fun m => measurableSet_Ico) (pairwise_disjoint_Ico_intCast ℝ),
      iUnion_Ico_intCast, Measure.restrict_univ]
  have h2 : ∀ m : ℤ, ∫⁻ w in Ico (m:ℝ) (m+1), f w = ∫⁻ t in Ico (0:ℝ) 1, f (m + t) := by
    intro m
    rw [← lintegral_indicator measurableSet_Ico, ← lintegral_indicator measurableSet_Ico,
      ← lintegral_add_left_eq_self _ (m:ℝ)]
    congr 1; funext t
    have : (m:ℝ) + t ∈ Ico (m:ℝ) (m+1) ↔ t ∈ Ico (0:ℝ) 1 := by simp [mem_Ico]
    by_cases h : t ∈ Ico (0:ℝ) 1
    · rw [indicator_of_mem h, indicator_of_mem (this.mpr h)]
    · rw [indicator_of_notMem h, indicator_of_notMem (fun h' => h (this.mp h'))]
  rw [h1, lintegral_tsum]
  · exact tsum_congr h2
  · intro m; exact (hf.comp (measurable_const.add measurable_id)).aemeasurable

theorem measurable_reflect : Measurable (reflect : ℝ → ℝ) := by
  have : (reflect : ℝ → ℝ) = fun x => if ⌊x⌋ % 2 = 0 then Int.fract x else 1 - Int.fract x := by
    funext x
    rcases Int.emod_two_eq_zero_or_one ⌊x⌋ with h | h
    · rw [reflect_even x h]; simp [h]
    · rw [reflect_odd x h]; simp [h]
  rw [this]
  refine Measurable.ite ?_ measurable_fract (measurable_const.sub measurable_fract)
  exact Int.measurable_floor (MeasurableSet.of_discrete (s := {n : ℤ | n % 2 = 0}))

/-- parity splitting of ℤ: `(j, true) ↦ 2j`, `(j, false) ↦ 2j − 1` -/
def parityE : ℤ × Bool ≃ ℤ where
  toFun p := if p.2 then 2 * p.1 else 2 * p.1 - 1
  invFun m := ((m + 1) / 2, decide (m % 2 = 0))
  left_inv p := by
    rcases p with ⟨j, b⟩
    cases b
    · simp only [Bool.false_eq_true, if_false]; ext
      · show (2 * j - 1 + 1) / 2 = j; omega
      · exact decide_eq_false (by omega)
    · simp only [if_true]; ext
      · show (2 * j + 1) / 2 = j; omega
      · exact decide_eq_true (by omega)
  right_inv m := by
    by_cases h : m % 2 = 0
    · simp only [h, decide_true, if_true]; omega
    · simp only [h, decide_false, Bool.false_eq_true, if_false]; omega

/-- density (w.r.t. Lebesgue measure on `(0,1)`) of `reflect (x + ξ)` when `ξ` has density `k` -/
noncomputable def KreflE (k : ℝ → ℝ≥0∞) (x y : ℝ) : ℝ≥0∞ := ∑' p : ℤ × Bool, k (reflPre p y - x)

theorem measurable_reflPre (p : ℤ × Bool) : Measurable (reflPre p) := by
  rcases p with ⟨j, b⟩
  cases b
  · exact measurable_const.sub measurable_id
  · exact measurable_const.add measurable_id

theorem refl_cell (k g : ℝ → ℝ≥0∞) (x : ℝ) (p : ℤ × Bool) :
    ∫⁻ t in Ico (0:ℝ) 1, g (reflect ((parityE p : ℤ) + t)) * k ((parityE p : ℤ) + t - x) =
    ∫⁻ s in Ioo (0:ℝ) 1, g s * k (reflPre p s - x) := by
  rw [← Measure.restrict_congr_set (Ioo_ae_eq_Ico (a := (0:ℝ)) (b := 1))]
  rcases p with ⟨j, b⟩
  cases b
  · -- odd cell: t ↦ 1 − t
    set φ : ℝ → ℝ≥0∞ := fun s => g s * k (reflPre (j, false) s - x) with hφ
    have h1 : ∫⁻ t in Ioo (0:ℝ) 1, g (reflect ((parityE (j, false) : ℤ) + t)) *
        k ((parityE (j, false) : ℤ) + t - x) = ∫⁻ t in Ioo (0:ℝ) 1, φ (1 - t) := by
      apply setLIntegral_congr_fun measurableSet_Ioo
      intro t ht
      have e : ((parityE (j, false) : ℤ) : ℝ) + t = reflPre (j, false) (1 - t) := by
        simp [parityE, reflPre]; ring
      simp only [hφ]
      rw [e, reflPre_reflects (j, false) (1 - t) (by linarith [ht.2]) (by linarith [ht.1])]
    rw [h1, ← lintegral_indicator measurableSet_Ioo, ← lintegral_indicator measurableSet_Ioo,
      ← lintegral_sub_left_eq_self ((Ioo (0:ℝ) 1).indicator φ) 1]
    congr 1; funext t
    have : (1 - t) ∈ Ioo (0:ℝ) 1 ↔ t ∈ Ioo (0:ℝ) 1 := by
      simp only [mem_Ioo]; constructor <;> rintro ⟨a, b⟩ <;> constructor <;> linarith
    by_cases h : t ∈ Ioo (0:ℝ) 1
    · rw [indicator_of_mem h, indicator_of_mem (this.mpr h)]
    · rw [indicator_of_notMem h, indicator_of_notMem (fun h' => h (this.mp h'))]
  · apply setLIntegral_congr_fun measurableSet_Ioo
    intro t ht
    have e : ((parityE (j, true) : ℤ) : ℝ) + t = reflPre (j, true) t := by
      simp [parityE, reflPre]
    simp only []
    rw [e, reflPre_reflects (j, true) t ht.1.le ht.2.le]

/-- **the preimage sum IS the law of the folded proposal** (reflective coordinate) -/
theorem C16_reflective_pushforward (k g : ℝ → ℝ≥0∞) (hk : Measurable k) (hg : Measurable g) (x : ℝ) :
    ∫⁻ ξ, g (reflect (x + ξ)) * k ξ = ∫⁻ y in Ioo (0:ℝ) 1, g y * KreflE k x y := by
  have e1 : ∫⁻ ξ, g (reflect (x + ξ)) * k ξ = ∫⁻ w, g (reflect w) * k (w - x) := by
    rw [← lintegral_sub_right_eq_self (fun ξ => g (reflect (x + ξ)) * k ξ) x]
    congr 1; funext w; simp
  have hF : Measurable (fun w => g (reflect w) * k (w - x)) :=
    (hg.comp measurable_reflect).mul (hk.comp (measurable_id.sub_const x))
  have e2 : ∫⁻ t in Ico (0:ℝ) 1, ∑' m : ℤ, g (reflect (m + t)) * k (m + t - x) =
      ∑' m : ℤ, ∫⁻ t in Ico (0:ℝ) 1, g (reflect (m + t)) * k (m + t - x) :=
    lintegral_tsum (fun m => (hF.comp (measurable_const.add measurable_id)).aemeasurable)
  rw [e1, lintegral_unfold _ hF, e2, ← parityE.tsum_eq]
  simp only [KreflE]
  have h3 : ∀ y, g y * ∑' p : ℤ × Bool, k (reflPre p y - x) =
      ∑' p : ℤ × Bool, g y * k (reflPre p y - x) := fun y => ENNReal.tsum_mul_left.symm
  simp only [h3]
  rw [lintegral_tsum]
  · exact tsum_congr (fun p => refl_cell k g x p)
  · intro p
    exact (hg.mul (hk.comp ((measurable_reflPre p).sub_const x))).aemeasurable



theorem C16_KreflE_symmetric (k : ℝ → ℝ≥0∞) (hk : ∀ z, k (-z) = k z) (x y : ℝ) :
    KreflE k x y = KreflE k y x := by
  unfold KreflE; rw [← flipE.tsum_eq]; congr 1; funext p; rcases p with ⟨m, b⟩; cases b
  · simp [flipE, reflPre]; congr 1; ring
  · simp only [flipE, reflPre, Equiv.coe_fn_mk, if_true, Int.cast_neg]; rw [← hk]; congr 1; ring

theorem C16_KperE_symmetric (k : ℝ → ℝ≥0∞) (hk : ∀ z, k (-z) = k z) (x y : ℝ) :
    KperE k x y = KperE k y x := by
  unfold KperE; rw [← (Equiv.neg ℤ).tsum_eq]; congr 1; funext m
  simp only [Equiv.neg_apply, Int.cast_neg]; rw [← hk]; congr 1; ring

theorem measurable_KreflE (k : ℝ → ℝ≥0∞) (hk : Measurable k) :
    Measurable (Function.uncurry (KreflE k)) := by
  unfold KreflE Function.uncurry
  exact Measurable.ennreal_tsum
    (fun p => hk.comp (((measurable_reflPre p).comp measurable_snd).sub measurable_fst))

theorem measurable_KperE (k : ℝ → ℝ≥0∞) (hk : Measurable k) :
    Measurable (Function.uncurry (KperE k)) := by
  unfold KperE Function.uncurry
  exact Measurable.ennreal_tsum
    (fun m => hk.comp ((measurable_const.add measurable_snd).sub measurable_fst))

/-- a kernel with a symmetric density w.r.t. Lebesgue measure on `I` is reversible w.r.t. it -/
theorem reversible_of_symmetric_density (I : Set ℝ) (K : ℝ → ℝ → ℝ≥0∞)
    (hK : Measurable (Function.uncurry K)) (hsym : ∀ x y, K x y = K y x)
    (f g : ℝ → ℝ≥0∞) (hf : Measurable f) (hg : Measurable g) :
    ∫⁻ x in I, f x * ∫⁻ y in I, g y * K x y = ∫⁻ y in I, g y * ∫⁻ x in I, f x * K y x := by
  have hKx : ∀ x, Measurable (K x) := fun x => hK.comp (measurable_const.prodMk measurable_id)
  have hKy : ∀ y, Measurable (fun x => K x y) := fun y => hK.comp (measurable_id.prodMk measurable_const)
  have l : ∀ x, f x * ∫⁻ y in I, g y * K x y = ∫⁻ y in I, f x * (g y * K x y) :=
    fun x => (lintegral_const_mul _ (hg.mul (hKx x))).symm
  have r : ∀ y, g y * ∫⁻ x in I, f x * K y x = ∫⁻ x in I, g y * (f x * K y x) :=
    fun y => (lintegral_const_mul _ (hf.mul (hKx y))).symm
  simp only [l, r]
  rw [lintegral_lintegral_swap]
  · congr 1; funext y; congr 1; funext x; rw [hsym x y]; ring
  · exact (((hf.comp measurable_fst).mul ((hg.comp measurable_snd).mul hK))).aemeasurable

/-- **symmetric proposal on the folded space, kernel form** (reflective coordinate):
    the Markov kernel `x ↦ law of reflect (x + ξ)` with `ξ ~ k` even satisfies
    `∫ f(x) E g(fold(x+ξ)) dx = ∫ g(y) E f(fold(y+ξ)) dy` over the unit interval. -/
theorem C16_reflective_kernel_reversible (k f g : ℝ → ℝ≥0∞) (hk : Measurable k)
    (hf : Measurable f) (hg : Measurable g) (heven : ∀ z, k (-z) = k z) :
    ∫⁻ x in Ioo (0:ℝ) 1, f x * ∫⁻ ξ, g (reflect (x + ξ)) * k ξ =
    ∫⁻ y in Ioo (0:ℝ) 1, g y * ∫⁻ ξ, f (reflect (y + ξ)) * k ξ := by
  simp only [C16_reflective_pushforward k _ hk hg, C16_reflective_pushforward k _ hk hf]
  exact reversible_of_symmetric_density _ _ (measurable_KreflE k hk)
    (C16_KreflE_symmetric k heven) f g hf hg

theorem measurable_periodic : Measurable (periodic : ℝ → ℝ) := by
  have : (periodic : ℝ → ℝ) = Int.fract := funext periodic_eq_fract
  rw [this]; exact measurable_fract

/-- **the preimage sum IS the law of the folded proposal** (periodic coordinate): for every
    measurable test function `g`, `E g(periodic (x + ξ)) = ∫_{[0,1)} g(y) · Σ_m k(m + y − x) dy`. -/
theorem C16_periodic_pushforward (k g : ℝ → ℝ≥0∞) (hk : Measurable k) (hg : Measurable g) (x : ℝ) :
    ∫⁻ ξ, g (periodic (x + ξ)) * k ξ = ∫⁻ y in Ico (0:ℝ) 1, g y * KperE k x y := by
  have e1 : ∫⁻ ξ, g (periodic (x + ξ)) * k ξ = ∫⁻ w, g (periodic w) * k (w - x) := by
    rw [← lintegral_sub_right_eq_self (fun ξ => g (periodic (x + ξ)) * k ξ) x]
    congr 1; funext w; simp
  have hF : Measurable (fun w => g (periodic w) * k (w - x)) :=
    (hg.comp measurable_periodic).mul (hk.comp (measurable_id.sub_const x))
  rw [e1, lintegral_unfold _ hF]
  apply setLIntegral_congr_fun measurableSet_Ico
  intro t ht
  simp only [KperE]
  rw [← ENNReal.tsum_mul_left]
  congr 1; funext m
  have : periodic ((m:ℝ) + t) = t := by
    rw [add_comm, C16_periodic_add_int, periodic_eq_fract, Int.fract_eq_iff]
    exact ⟨ht.1, ht.2, 0, by simp⟩
  rw [this]

/-- **symmetric proposal on the folded space, kernel form** (periodic coordinate) -/
theorem C16_periodic_kernel_reversible (k f g : ℝ → ℝ≥0∞) (hk : Measurable k)
    (hf : Measurable f) (hg : Measurable g) (heven : ∀ z, k (-z) = k z) :
    ∫⁻ x in Ico (0:ℝ) 1, f x * ∫⁻ ξ, g (periodic (x + ξ)) * k ξ =
    ∫⁻ y in Ico (0:ℝ) 1, g y * ∫⁻ ξ, f (periodic (y + ξ)) * k ξ := by
  simp only [C16_periodic_pushforward k _ hk hg, C16_periodic_pushforward k _ hk hf]
  exact reversible_of_symmetric_density _ _ (measurable_KperE k hk)
    (C16_KperE_symmetric k heven) f g hf hg

/-- the real-valued sums of the first formulation are these densities whenever they converge -/
theorem Krefl_ofReal (k : ℝ → ℝ) (hk0 : ∀ z, 0 ≤ k z) (x y : ℝ)
    (hs : Summable (fun p : ℤ × Bool => k (reflPre p y - x))) :
    ENNReal.ofReal (Krefl k x y) = KreflE (fun z => ENNReal.ofReal (k z)) x y :=
  ENNReal.ofReal_tsum_of_nonneg (fun _ => hk0 _) hs

theorem Kper_ofReal (k : ℝ → ℝ) (hk0 : ∀ z, 0 ≤ k z) (x y : ℝ)
    (hs : Summable (fun m : ℤ => k (m + y - x))) :
    ENNReal.ofReal (Kper k x y) = KperE (fun z => ENNReal.ofReal (k z)) x y :=
  ENNReal.ofReal_tsum_of_nonneg (fun _ => hk0 _) hs

end measure

/-! ### rounded arithmetic: why the statement says "identifying the periodic end points 0 and 1" -/
section rounded
variable (r : Rounding)

/-- the periodic map computed with `r`-rounded arithmetic, as a function on the reals -/
noncomputable def perR (x : ℝ) : ℝ := (periodic (RR.mk r x)).val
/-- the reflective map computed with `r`-rounded arithmetic -/
noncomputable def reflR (x : ℝ) : ℝ := (reflect (RR.mk r x)).val

theorem perR_eq (x : ℝ) : perR r x = r.rnd (Int.fract x) := by
  simp [perR, periodic]

theorem reflR_eq (x : ℝ) :
    reflR r x = if ⌊x⌋ % 2 = 0 then r.rnd (Int.fract x) else r.rnd (1 - r.rnd (Int.fract x)) := by
  unfold reflR reflect
  by_cases h : ⌊x⌋ % 2 = 0
  · simp [h]
  · simp [h]

theorem rnd_unit (z : ℝ) (h0 : 0 ≤ z) (h1 : z ≤ 1) : 0 ≤ r.rnd z ∧ r.rnd z ≤ 1 :=
  ⟨r.rnd_zero ▸ r.mono h0, r.rnd_one ▸ r.mono h1⟩

/-- in rounded arithmetic the wrapped value lies in the CLOSED unit interval (1 is attained, below) -/
theorem C16_round_periodic_range (x : ℝ) : 0 ≤ perR r x ∧ perR r x ≤ 1 := by
  rw [perR_eq]; exact rnd_unit r _ (Int.fract_nonneg x) (Int.fract_lt_one x).le

theorem C16_round_reflect_range (x : ℝ) : 0 ≤ reflR r x ∧ reflR r x ≤ 1 := by
  rw [reflR_eq]
  have hf := rnd_unit r _ (Int.fract_nonneg x) (Int.fract_lt_one x).le
  split
  · exact hf
  · exact rnd_unit r _ (by linarith [hf.2]) (by linarith [hf.1])

theorem perR_rep (x : ℝ) : r.rnd (perR r x) = perR r x := by rw [perR_eq, r.idem]
theorem reflR_rep (x : ℝ) : r.rnd (reflR r x) = reflR r x := by
  rw [reflR_eq]; split <;> rw [r.idem]

/-- on representable points of `[0,1)` the rounded wrap is the identity; `1 ↦ 0` -/
theorem perR_fix (z : ℝ) (h0 : 0 ≤ z) (h1 : z < 1) (hz : r.rnd z = z) : perR r z = z := by
  rw [perR_eq, Int.fract_eq_iff.mpr ⟨h0, h1, 0, by simp⟩, hz]
theorem perR_one : perR r 1 = 0 := by rw [perR_eq]; simp [r.rnd_zero]
theorem perR_zero : perR r 0 = 0 := by rw [perR_eq]; simp [r.rnd_zero]

/-- on representable points of `[0,1]` (both ends) the rounded reflection is the identity -/
theorem reflR_fix (z : ℝ) (h0 : 0 ≤ z) (h1 : z ≤ 1) (hz : r.rnd z = z) : reflR r z = z := by
  rw [reflR_eq]
  rcases eq_or_lt_of_le h1 with rfl | hlt
  · have : ⌊(1:ℝ)⌋ % 2 ≠ 0 := by simp
    simp [r.rnd_zero, r.rnd_one]
  · have hf : ⌊z⌋ = 0 := by rw [Int.floor_eq_iff]; constructor <;> simp [h0, hlt]
    simp [hf, Int.fract, hz]

/-- **idempotence of the wrap, up to identifying the end points**: in rounded arithmetic a second
    application either changes nothing, or the first result was exactly `1` and the second is `0`. -/
theorem C16_round_periodic_idem_mod_ends (x : ℝ) :
    perR r (perR r x) = perR r x ∨ (perR r x = 1 ∧ perR r (perR r x) = 0) := by
  have h := C16_round_periodic_range r x
  rcases eq_or_lt_of_le h.2 with h1 | h1
  · right; exact ⟨h1, by rw [h1]; exact perR_one r⟩
  · left; exact perR_fix r _ h.1 h1 (perR_rep r x)

/-- the reflection stays exactly idempotent in rounded arithmetic -/
theorem C16_round_reflect_idem (x : ℝ) : reflR r (reflR r x) = reflR r x :=
  reflR_fix r _ (C16_round_reflect_range r x).1 (C16_round_reflect_range r x).2 (reflR_rep r x)

end rounded

/-- the end-point case is real: with a monotone idempotent rounding that rounds up, `−1/4` wraps to
    `1` and `1` wraps to `0` — exact idempotence FAILS, the identified one holds.  (Binary64 does the
    same at `x = −2^-60`: `x % 1.0 == 1.0`; see the `periodic_hits_one` counter of suite boundary-F.) -/
theorem C16_round_periodic_not_idem :
    perR ScRound.ceilR (-1/4) = 1 ∧ perR ScRound.ceilR (perR ScRound.ceilR (-1/4)) = 0 := by
  have h1 : perR ScRound.ceilR (-1/4) = 1 := by
    rw [perR_eq]
    have : Int.fract (-1/4 : ℝ) = 3/4 := by
      rw [Int.fract_eq_iff]; refine ⟨by norm_num, by norm_num, -1, by norm_num⟩
    rw [this]
    show ((⌈(3/4 : ℝ)⌉ : ℤ) : ℝ) = 1
    have : ⌈(3/4 : ℝ)⌉ = 1 := by rw [Int.ceil_eq_iff]; constructor <;> norm_num
    rw [this]; norm_num
  exact ⟨h1, by rw [h1]; exact perR_one _⟩

/-- with exact arithmetic the rounded maps are the maps of the first part of this file -/
theorem perR_exact (x : ℝ) : perR ScRound.exact x = periodic x := by
  rw [perR_eq, periodic_eq_fract]; rfl

/-! ### whole arrays, any scalar type -/

/-- `modify` folded over an index list applies `f` once per occurrence of the index -/
theorem foldl_modify_get_iter {β : Type} (f : β → β) (l : List Nat) (u : List β) (i : Nat) :
    (l.foldl (fun v j => v.modify j f) u)[i]? = (u[i]?).map (f^[l.count i]) := by
  induction l generalizing u with
  | nil => simp
  | cons a l ih =>
    rw [List.foldl_cons, ih, List.getElem?_modify]
    by_cases hai : a = i
    · subst hai
      cases hu : u[a]? with
      | none => simp
      | some x => simp
    · have : ¬ i = a := fun h => hai h.symm
      cases hu : u[i]? with
      | none => simp
      | some x => simp [hai]

/-- coordinate-wise description of `apply` for EVERY scalar instance (`Float` and `Rat` included):
    coordinate `i` is wrapped once per occurrence in `per`, then reflected once per occurrence in `refl`. -/
theorem C16_apply_coord_generic {α : Type} [Sc α] (per refl : List Nat) (u : List α) (i : Nat) :
    (apply per refl u)[i]? =
      (u[i]?).map (fun x => (reflect^[refl.count i]) ((periodic^[per.count i]) x)) := by
  unfold apply
  rw [foldl_modify_get_iter, foldl_modify_get_iter]
  cases u[i]? <;> simp

/-- non-designated coordinates are untouched — for every scalar instance, so in particular for the
    `Float` model that the bit-exact suite ties to the real code (`-0.0`, subnormals, 1e300 included) -/
theorem C16_untouched_generic {α : Type} [Sc α] (per refl : List Nat) (u : List α) (i : Nat)
    (h1 : i ∉ per) (h2 : i ∉ refl) : (apply per refl u)[i]? = u[i]? := by
  rw [C16_apply_coord_generic, List.count_eq_zero_of_not_mem h1, List.count_eq_zero_of_not_mem h2]
  cases u[i]? <;> simp

theorem C16_apply_length_generic {α : Type} [Sc α] (per refl : List Nat) (u : List α) :
    (apply per refl u).length = u.length := by
  simp [apply, foldl_modify_length]

/-- the bounds check reads exactly the remaining coordinates — for every scalar instance -/
theorem C16_checkBounds_iff_generic {α : Type} [Sc α] (per refl : List Nat) (u : List α) :
    checkBounds per refl u = true ↔
      ∀ i, (hi : i < u.length) → i ∉ per → i ∉ refl → inUnit u[i] = true := by
  unfold checkBounds
  rw [List.all_eq_true]
  constructor
  · intro h i hi hp hr
    have := h i (List.mem_range.mpr hi)
    simpa [hp, hr, hi] using this
  · intro h i hi
    have hi' := List.mem_range.mp hi
    by_cases hp : i ∈ per
    · simp [hp]
    · by_cases hr : i ∈ refl
      · simp [hr]
      · have := h i hi' hp hr
        simp [hp, hr, hi', this]

/-- 2-D arrays: row by row -/
theorem C16_apply2_row {α : Type} [Sc α] (per refl : List Nat) (us : List (List α)) (j : Nat) :
    (apply2 per refl us)[j]? = (us[j]?).map (apply per refl) := by
  simp [apply2]

theorem C16_checkBounds2_row {α : Type} [Sc α] (per refl : List Nat) (us : List (List α)) (j : Nat) :
    (checkBounds2 per refl us)[j]? = (us[j]?).map (checkBounds per refl) := by
  simp [checkBounds2]

theorem iterate_idem {β : Type} (f : β → β) (hf : ∀ x, f (f x) = f x) (n : Nat) (hn : 0 < n) (x : β) :
    f^[n] x = f x := by
  induction n generalizing x with
  | zero => omega
  | succ n ih =>
    rcases Nat.eq_zero_or_pos n with rfl | hpos
    · rfl
    · rw [Function.iterate_succ_apply, ih hpos, hf]

section roundedArrays
variable (r : Rounding)

theorem per_val (z : RR r) : (periodic z).val = perR r z.val := rfl
theorem refl_val (z : RR r) : (reflect z).val = reflR r z.val := rfl

theorem refl_idem_RR (z : RR r) : reflect (reflect z) = reflect z :=
  RR.ext (by rw [refl_val, refl_val]; exact C16_round_reflect_idem r z.val)

/-- after at least one wrap the value is a representable point of `[0,1]` -/
theorem per_iter_good (n : Nat) (hn : 0 < n) (z : RR r) :
    0 ≤ ((periodic^[n]) z).val ∧ ((periodic^[n]) z).val ≤ 1 ∧
      r.rnd ((periodic^[n]) z).val = ((periodic^[n]) z).val := by
  obtain ⟨m, rfl⟩ : ∃ m, n = m + 1 := ⟨n - 1, by omega⟩
  rw [Function.iterate_succ_apply', per_val]
  exact ⟨(C16_round_periodic_range r _).1, (C16_round_periodic_range r _).2, perR_rep r _⟩

/-- **array-level idempotence in rounded arithmetic, identifying the periodic end points**:
    for every index list (duplicates, overlaps) the second application changes coordinate `i` only
    if `i` is periodic, the first result was exactly `1`, and the second is `0`. -/
theorem C16_round_apply_idem_mod_ends (per refl : List Nat) (u : List (RR r)) (i : Nat) (a b : RR r)
    (ha : (apply per refl (apply per refl u))[i]? = some a) (hb : (apply per refl u)[i]? = some b) :
    a = b ∨ (i ∈ per ∧ b.val = 1 ∧ a.val = 0) := by
  rw [C16_apply_coord_generic, hb] at ha
  simp only [Option.map_some, Option.some.injEq] at ha
  rw [C16_apply_coord_generic] at hb
  cases hu : u[i]? with
  | none => simp [hu] at hb
  | some x =>
    rw [hu] at hb
    simp only [Option.map_some, Option.some.injEq] at hb
    rcases Nat.eq_zero_or_pos (per.count i) with hp0 | hp
    · -- not periodic: the reflection is exactly idempotent
      left
      rw [hp0] at ha hb
      simp only [Function.iterate_zero, id_eq] at ha hb
      rcases Nat.eq_zero_or_pos (refl.count i) with hr0 | hr
      · rw [hr0] at ha hb; simp only [Function.iterate_zero, id_eq] at ha hb; rw [← ha]
      · rw [iterate_idem _ (refl_idem_RR r) _ hr] at ha hb
        rw [← ha, ← hb, refl_idem_RR]
    · have hmem : i ∈ per := List.count_pos_iff.mp hp
      set w := (periodic^[per.count i]) x with hw
      obtain ⟨w0, w1, wrep⟩ := per_iter_good r _ hp x
      rw [← hw] at w0 w1 wrep
      -- the reflections do nothing on w
      have hGfix : reflect w = w := RR.ext (by rw [refl_val]; exact reflR_fix r _ w0 w1 wrep)
      have hbw : b = w := by rw [← hb]; exact Function.iterate_fixed hGfix _
      rcases eq_or_lt_of_le w1 with h1 | h1
      · right
        refine ⟨hmem, by rw [hbw]; exact h1, ?_⟩
        have hP1 : (periodic b).val = 0 := by rw [per_val, hbw, h1]; exact perR_one r
        have hP0 : periodic (periodic b) = periodic b :=
          RR.ext (by rw [per_val, hP1]; exact perR_zero r)
        obtain ⟨m, hm⟩ : ∃ m, per.count i = m + 1 := ⟨per.count i - 1, by omega⟩
        have hit : (periodic^[per.count i]) b = periodic b := by
          rw [hm, Function.iterate_succ_apply]; exact Function.iterate_fixed hP0 _
        have hG0 : reflect (periodic b) = periodic b :=
          RR.ext (by rw [refl_val, hP1]; exact reflR_fix r 0 le_rfl zero_le_one r.rnd_zero)
        rw [← ha, hit, Function.iterate_fixed hG0, hP1]
      · left
        have hPfix : periodic w = w := RR.ext (by rw [per_val]; exact perR_fix r _ w0 h1 wrep)
        rw [← ha, hbw, Function.iterate_fixed hPfix, Function.iterate_fixed hGfix]

/-- designated coordinates of the rounded image lie in the closed unit interval -/
theorem C16_round_apply_range (per refl : List Nat) (u : List (RR r)) (i : Nat) (b : RR r)
    (h : i ∈ per ∨ i ∈ refl) (hb : (apply per refl u)[i]? = some b) : 0 ≤ b.val ∧ b.val ≤ 1 := by
  rw [C16_apply_coord_generic] at hb
  cases hu : u[i]? with
  | none => simp [hu] at hb
  | some x =>
    rw [hu] at hb
    simp only [Option.map_some, Option.some.injEq] at hb
    rcases Nat.eq_zero_or_pos (refl.count i) with hr0 | hr
    · have hp : 0 < per.count i := by
        rcases h with h | h
        · exact List.count_pos_iff.mpr h
        · exact absurd (List.count_pos_iff.mpr h) (by omega)
      rw [hr0] at hb; simp only [Function.iterate_zero, id_eq] at hb
      rw [← hb]; exact ⟨(per_iter_good r _ hp x).1, (per_iter_good r _ hp x).2.1⟩
    · rw [iterate_idem _ (refl_idem_RR r) _ hr] at hb
      rw [← hb, refl_val]; exact C16_round_reflect_range r _

end roundedArrays

/-! ### non-vacuity: concrete values -/
example : periodic (-0.25 : ℝ) = 0.75 := by
  rw [periodic_eq_fract, Int.fract_eq_iff]; refine ⟨by norm_num, by norm_num, -1, by norm_num⟩
example : reflect (2.5 : ℝ) = 0.5 := by
  have hf : ⌊(2.5 : ℝ)⌋ = 2 := by rw [Int.floor_eq_iff]; constructor <;> norm_num
  rw [reflect_even _ (by rw [hf]; rfl)]; simp [Int.fract, hf]; norm_num
example : reflect (1.25 : ℝ) = 0.75 := by
  have hf : ⌊(1.25 : ℝ)⌋ = 1 := by rw [Int.floor_eq_iff]; constructor <;> norm_num
  rw [reflect_odd _ (by rw [hf]; rfl)]; simp [Int.fract, hf]; norm_num


/-- vector theorem, instantiated: d = 3, coordinate 0 periodic, 1 reflective, 2 untouched,
    independent Cauchy-shaped increments -/
example (x y : Fin 3 → ℝ) :
    Kvec [0] [1] (fun z : Fin 3 → ℝ => ∏ i, (1 / (1 + (z i) ^ 2))) x y =
    Kvec [0] [1] (fun z : Fin 3 → ℝ => ∏ i, (1 / (1 + (z i) ^ 2))) y x :=
  C16_fold_vector_product_symmetric [0] [1] (fun _ z => 1 / (1 + z ^ 2)) (by intro i z; simp) x y
/-- periodic folds with a CORRELATED even density (not a product) -/
example (x y : Fin 2 → ℝ) :
    Kvec [0, 1] [] (fun z : Fin 2 → ℝ => 1 / (1 + (z 0 + z 1) ^ 2 + (z 0) ^ 2)) x y =
    Kvec [0, 1] [] (fun z : Fin 2 → ℝ => 1 / (1 + (z 0 + z 1) ^ 2 + (z 0) ^ 2)) y x :=
  C16_fold_vector_periodic_symmetric [0, 1] [] _ (by simp) (by intro z; simp; ring_nf) x y
/-- kernel form, instantiated with a Cauchy-shaped increment density -/
example (f g : ℝ → ENNReal) (hf : Measurable f) (hg : Measurable g) :
    ∫⁻ x in Set.Ioo (0:ℝ) 1, f x * ∫⁻ ξ, g (reflect (x + ξ)) * ENNReal.ofReal (1 / (1 + ξ ^ 2)) =
    ∫⁻ y in Set.Ioo (0:ℝ) 1, g y * ∫⁻ ξ, f (reflect (y + ξ)) * ENNReal.ofReal (1 / (1 + ξ ^ 2)) :=
  C16_reflective_kernel_reversible (fun z => ENNReal.ofReal (1 / (1 + z ^ 2))) f g
    (by fun_prop) hf hg (by intro z; simp)
/-- rounded arrays: `−1/4` in a periodic coordinate under the rounding-up arithmetic goes to `1`, then `0` -/
example : ((apply [0] [] [RR.mk ScRound.ceilR (-1/4)])[0]?).map RR.val = some 1 := by
  simp only [apply, List.foldl_cons, List.foldl_nil, List.modify_cons, List.modify_nil,
    List.getElem?_cons_zero, Option.map_some]
  exact congrArg some C16_round_periodic_not_idem.1

end Props.C16
