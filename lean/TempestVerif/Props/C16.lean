import TempestVerif.Model.Boundary
import TempestVerif.Lemmas.ScReal
import Mathlib.Algebra.Order.Round
import Mathlib.Topology.Algebra.InfiniteSum.Basic
import Mathlib.Tactic
/-
  C16 — boundary maps fold every real number into the unit interval.
  Theorems are about `Model.Boundary` at `ℝ` (exact arithmetic; IEEE rounding is covered by the
  bit-exact correspondence, not here).  Property theorems only; no helper lemmas of other properties.
-/
namespace Props.C16
open Model.Boundary

/-! ### periodic coordinate: value modulo 1 -/

theorem periodic_eq_fract (x : ℝ) : periodic x = Int.fract x := by
  simp [periodic]

theorem C16_periodic_range (x : ℝ) : 0 ≤ periodic x ∧ periodic x < 1 := by
  rw [periodic_eq_fract]; exact ⟨Int.fract_nonneg x, Int.fract_lt_one x⟩

/-- "value modulo 1": differs from `x` by an integer … -/
theorem C16_periodic_mod_one (x : ℝ) : ∃ k : ℤ, periodic x = x - k :=
  ⟨⌊x⌋, by simp [periodic]⟩

/-- … and is invariant under integer shifts. -/
theorem C16_periodic_add_int (x : ℝ) (k : ℤ) : periodic (x + k) = periodic x := by
  simp [periodic_eq_fract]

theorem C16_periodic_idem (x : ℝ) : periodic (periodic x) = periodic x := by
  simp [periodic_eq_fract]

/-! ### reflective coordinate: period-2 triangle wave -/

theorem reflect_even (x : ℝ) (h : ⌊x⌋ % 2 = 0) : reflect x = Int.fract x := by
  simp [reflect, h]

theorem reflect_odd (x : ℝ) (h : ⌊x⌋ % 2 = 1) : reflect x = 1 - Int.fract x := by
  have : ¬ (⌊x⌋ % 2 = 0) := by omega
  simp [reflect, this]

theorem C16_reflect_range (x : ℝ) : 0 ≤ reflect x ∧ reflect x ≤ 1 := by
  rcases Int.emod_two_eq_zero_or_one ⌊x⌋ with h | h
  · rw [reflect_even x h]; exact ⟨Int.fract_nonneg x, (Int.fract_lt_one x).le⟩
  · rw [reflect_odd x h]
    have := Int.fract_nonneg x; have := Int.fract_lt_one x
    constructor <;> linarith

/-- identity on the unit interval (both end points included) -/
theorem C16_reflect_id_on_unit (x : ℝ) (h0 : 0 ≤ x) (h1 : x ≤ 1) : reflect x = x := by
  rcases eq_or_lt_of_le h1 with rfl | hlt
  · have : ⌊(1:ℝ)⌋ % 2 = 1 := by simp
    rw [reflect_odd 1 this]; simp
  · have hf : ⌊x⌋ = 0 := by rw [Int.floor_eq_iff]; constructor <;> simp [h0, hlt]
    rw [reflect_even x (by simp [hf])]
    simp [Int.fract, hf]

theorem C16_reflect_idem (x : ℝ) : reflect (reflect x) = reflect x :=
  C16_reflect_id_on_unit _ (C16_reflect_range x).1 (C16_reflect_range x).2

/-- period 2 -/
theorem C16_reflect_add_two (x : ℝ) : reflect (x + 2) = reflect x := by
  have hfl : ⌊x + 2⌋ = ⌊x⌋ + 2 := by
    have := Int.floor_add_intCast x 2; simpa using this
  have hfr : Int.fract (x + 2) = Int.fract x := by
    have := Int.fract_add_intCast x 2; simpa using this
  rcases Int.emod_two_eq_zero_or_one ⌊x⌋ with h | h
  · rw [reflect_even x h, reflect_even (x + 2) (by rw [hfl]; omega), hfr]
  · rw [reflect_odd x h, reflect_odd (x + 2) (by rw [hfl]; omega), hfr]

/-- even: mirror at 0 (hence, with period 2, at every integer) -/
theorem C16_reflect_neg (x : ℝ) : reflect (-x) = reflect x := by
  by_cases hx : Int.fract x = 0
  · -- x is an integer
    have hxi : x = (⌊x⌋ : ℝ) := by
      have := Int.self_sub_floor x; rw [← Int.fract] at *; linarith [Int.fract_add_floor x]
    have hneg : ⌊-x⌋ = -⌊x⌋ := by
      rw [hxi]; simp [← Int.cast_neg]
    have hfn : Int.fract (-x) = 0 := by
      rw [hxi, ← Int.cast_neg]; simp
    rcases Int.emod_two_eq_zero_or_one ⌊x⌋ with h | h
    · rw [reflect_even x h, reflect_even (-x) (by rw [hneg]; omega), hx, hfn]
    · rw [reflect_odd x h, reflect_odd (-x) (by rw [hneg]; omega), hx, hfn]
  · have hneg : ⌊-x⌋ = -⌊x⌋ - 1 := by
      rw [Int.floor_neg]
      have : ⌈x⌉ = ⌊x⌋ + 1 := by
        rw [Int.ceil_eq_iff]
        have h1 := Int.floor_le x; have h2 := Int.lt_floor_add_one x
        have h3 : (⌊x⌋ : ℝ) ≠ x := by
          intro h; apply hx; simp [Int.fract, h]
        constructor
        · push_cast; have := lt_of_le_of_ne h1 h3; linarith
        · push_cast; linarith
      omega
    have hfn : Int.fract (-x) = 1 - Int.fract x := by
      simp only [Int.fract, hneg]; push_cast; ring
    rcases Int.emod_two_eq_zero_or_one ⌊x⌋ with h | h
    · rw [reflect_even x h, reflect_odd (-x) (by rw [hneg]; omega), hfn]; ring
    · rw [reflect_odd x h, reflect_even (-x) (by rw [hneg]; omega), hfn]

/-- closed form: distance to the nearest even integer -/
theorem C16_reflect_triangle (x : ℝ) : ∃ k : ℤ, reflect x = |x - 2 * k| ∧ |x - 2 * k| ≤ 1 := by
  rcases Int.emod_two_eq_zero_or_one ⌊x⌋ with h | h
  · refine ⟨⌊x⌋ / 2, ?_⟩
    have h2 : (2 : ℝ) * ((⌊x⌋ / 2 : ℤ) : ℝ) = (⌊x⌋ : ℝ) := by
      have : 2 * (⌊x⌋ / 2) = ⌊x⌋ := by omega
      exact_mod_cast this
    rw [reflect_even x h, h2]
    have h0 := Int.fract_nonneg x; have h1 := Int.fract_lt_one x
    have : x - ⌊x⌋ = Int.fract x := rfl
    rw [this, abs_of_nonneg h0]; exact ⟨rfl, h1.le⟩
  · refine ⟨(⌊x⌋ + 1) / 2, ?_⟩
    have h2 : (2 : ℝ) * (((⌊x⌋ + 1) / 2 : ℤ) : ℝ) = (⌊x⌋ : ℝ) + 1 := by
      have : 2 * ((⌊x⌋ + 1) / 2) = ⌊x⌋ + 1 := by omega
      exact_mod_cast this
    rw [reflect_odd x h, h2]
    have h0 := Int.fract_nonneg x; have h1 := Int.fract_lt_one x
    have : x - (⌊x⌋ + 1) = -(1 - Int.fract x) := by rw [← Int.self_sub_floor]; ring
    rw [this, abs_neg, abs_of_nonneg (by linarith)]
    exact ⟨rfl, by linarith⟩

/-! ### arrays: designated coordinates mapped, the rest untouched -/

/-- what `apply` does to coordinate `i` -/
noncomputable def coordMap (per refl : List Nat) (i : Nat) (x : ℝ) : ℝ :=
  let y := if i ∈ per then periodic x else x
  if i ∈ refl then reflect y else y

theorem foldl_modify_length {β : Type} (f : β → β) (l : List Nat) (u : List β) :
    (l.foldl (fun v i => v.modify i f) u).length = u.length := by
  induction l generalizing u with
  | nil => rfl
  | cons a l ih => simp [List.foldl_cons, ih]

theorem foldl_modify_get {β : Type} (f : β → β) (hf : ∀ x, f (f x) = f x)
    (l : List Nat) (u : List β) (i : Nat) :
    (l.foldl (fun v j => v.modify j f) u)[i]? = (u[i]?).map (fun x => if i ∈ l then f x else x) := by
  induction l generalizing u with
  | nil => simp
  | cons a l ih =>
    rw [List.foldl_cons, ih, List.getElem?_modify]
    by_cases hai : a = i
    · subst hai
      cases hu : u[a]? with
      | none => simp
      | some x => by_cases hm : a ∈ l <;> simp [hm, hf]
    · have : ¬ i = a := fun h => hai h.symm
      cases hu : u[i]? with
      | none => simp
      | some x => by_cases hm : i ∈ l <;> simp [hai, this, hm]

theorem C16_apply_length (per refl : List Nat) (u : List ℝ) :
    (apply per refl u).length = u.length := by
  simp [apply, foldl_modify_length]

/-- coordinate-wise description of the whole map: periodic coordinates go to their value mod 1,
    reflective ones to the triangle fold, all others are untouched — for every index list
    (duplicates and overlaps included). -/
theorem C16_apply_coord (per refl : List Nat) (u : List ℝ) (i : Nat) :
    (apply per refl u)[i]? = (u[i]?).map (coordMap per refl i) := by
  unfold apply
  rw [foldl_modify_get reflect C16_reflect_idem, foldl_modify_get periodic C16_periodic_idem]
  cases u[i]? with
  | none => rfl
  | some x => simp [coordMap]

theorem C16_untouched (per refl : List Nat) (u : List ℝ) (i : Nat)
    (h1 : i ∉ per) (h2 : i ∉ refl) : (apply per refl u)[i]? = u[i]? := by
  rw [C16_apply_coord]; cases u[i]? <;> simp [coordMap, h1, h2]

theorem coordMap_range (per refl : List Nat) (i : Nat) (x : ℝ) (h : i ∈ per ∨ i ∈ refl) :
    0 ≤ coordMap per refl i x ∧ coordMap per refl i x ≤ 1 := by
  unfold coordMap
  by_cases hr : i ∈ refl
  · simp only [hr, if_true]; exact C16_reflect_range _
  · have hp : i ∈ per := by tauto
    simp only [hr, hp, if_true, if_false]
    exact ⟨(C16_periodic_range x).1, (C16_periodic_range x).2.le⟩

theorem coordMap_idem (per refl : List Nat) (i : Nat) (x : ℝ) :
    coordMap per refl i (coordMap per refl i x) = coordMap per refl i x := by
  unfold coordMap
  by_cases hr : i ∈ refl <;> by_cases hp : i ∈ per <;> simp only [hr, hp, if_true, if_false]
  · have h := C16_reflect_range (periodic x)
    have hper : periodic (reflect (periodic x)) = reflect (periodic x) ∨ reflect (periodic x) = 1 := by
      rcases eq_or_lt_of_le h.2 with h1 | h1
      · right; exact h1
      · left; rw [periodic_eq_fract, Int.fract_eq_iff]
        exact ⟨h.1, h1, 0, by simp⟩
    rcases hper with h1 | h1
    · rw [h1, C16_reflect_idem]
    · rw [h1]
      have hp1 : periodic (1 : ℝ) = 0 := by simp [periodic_eq_fract]
      -- reflect (periodic x) = 1 is impossible for periodic x ∈ [0,1); still handle it
      have hx := C16_periodic_range x
      have := C16_reflect_id_on_unit (periodic x) hx.1 hx.2.le
      rw [this] at h1; linarith
  · exact C16_reflect_idem x
  · exact C16_periodic_idem x

/-- applying the boundary map twice gives the same point -/
theorem C16_apply_idem (per refl : List Nat) (u : List ℝ) :
    apply per refl (apply per refl u) = apply per refl u := by
  apply List.ext_getElem?
  intro i
  rw [C16_apply_coord, C16_apply_coord]
  cases u[i]? with
  | none => rfl
  | some x => simp [coordMap_idem]

/-- every designated coordinate of the image lies in [0,1] -/
theorem C16_apply_range (per refl : List Nat) (u : List ℝ) (i : Nat) (y : ℝ)
    (h : i ∈ per ∨ i ∈ refl) (hy : (apply per refl u)[i]? = some y) : 0 ≤ y ∧ y ≤ 1 := by
  rw [C16_apply_coord] at hy
  cases hu : u[i]? with
  | none => simp [hu] at hy
  | some x =>
    simp [hu] at hy; subst hy; exact coordMap_range per refl i x h

/-- the bounds check accepts a point exactly when all remaining coordinates lie in [0,1] -/
theorem C16_checkBounds_iff (per refl : List Nat) (u : List ℝ) :
    checkBounds per refl u = true ↔
      ∀ i, (hi : i < u.length) → i ∉ per → i ∉ refl → 0 ≤ u[i] ∧ u[i] ≤ 1 := by
  unfold checkBounds
  rw [List.all_eq_true]
  constructor
  · intro h i hi hp hr
    have := h i (List.mem_range.mpr hi)
    simp [hp, hr, hi, inUnit] at this
    exact this
  · intro h i hi
    have hi' := List.mem_range.mp hi
    by_cases hp : i ∈ per
    · simp [hp]
    · by_cases hr : i ∈ refl
      · simp [hr]
      · have := h i hi' hp hr
        simp [hp, hr, hi', inUnit, this]

/-- with every coordinate designated the check is vacuous (the `always valid` branch) -/
theorem C16_checkBounds_all_special (per refl : List Nat) (u : List ℝ)
    (h : ∀ i, i < u.length → i ∈ per ∨ i ∈ refl) : checkBounds per refl u = true := by
  rw [C16_checkBounds_iff]; intro i hi hp hr; rcases h i hi with h | h <;> contradiction

/-- after the map, a point passes the check iff its untouched coordinates were already inside -/
theorem C16_check_after_apply (per refl : List Nat) (u : List ℝ) :
    checkBounds per refl (apply per refl u) = checkBounds per refl u := by
  rw [Bool.eq_iff_iff, C16_checkBounds_iff, C16_checkBounds_iff]
  have hl := C16_apply_length per refl u
  constructor
  · intro h i hi hp hr
    have h' := h i (by omega) hp hr
    have e := C16_untouched per refl u i hp hr
    rw [List.getElem?_eq_getElem (by omega), List.getElem?_eq_getElem hi] at e
    injection e with e; rw [e] at h'; exact h'
  · intro h i hi hp hr
    have h' := h i (by omega) hp hr
    have e := C16_untouched per refl u i hp hr
    rw [List.getElem?_eq_getElem hi, List.getElem?_eq_getElem (by omega)] at e
    injection e with e; rw [e]; exact h'

/-! ### consequence: a symmetric random-walk proposal pushed through the map is symmetric -/

/-- all points that reflect to `y`: `2m + y` and `2m − y` -/
def reflPre (p : ℤ × Bool) (y : ℝ) : ℝ := if p.2 then 2 * p.1 + y else 2 * p.1 - y

theorem reflPre_reflects (p : ℤ × Bool) (y : ℝ) (h0 : 0 ≤ y) (h1 : y ≤ 1) :
    reflect (reflPre p y) = y := by
  rcases p with ⟨m, b⟩
  have shift : ∀ (z : ℝ) (m : ℤ), reflect (2 * (m : ℝ) + z) = reflect z := by
    intro z m
    have e : 2 * (m : ℝ) + z = z + ((2 * m : ℤ) : ℝ) := by push_cast; ring
    have hfl : ⌊2 * (m : ℝ) + z⌋ = ⌊z⌋ + 2 * m := by rw [e, Int.floor_add_intCast]
    have hfr : Int.fract (2 * (m : ℝ) + z) = Int.fract z := by rw [e, Int.fract_add_intCast]
    rcases Int.emod_two_eq_zero_or_one ⌊z⌋ with h | h
    · rw [reflect_even z h, reflect_even _ (by rw [hfl]; omega), hfr]
    · rw [reflect_odd z h, reflect_odd _ (by rw [hfl]; omega), hfr]
  cases b
  · simp only [reflPre, Bool.false_eq_true, if_false]
    have : 2 * (m : ℝ) - y = 2 * (m : ℝ) + (-y) := by ring
    rw [this, shift, C16_reflect_neg, C16_reflect_id_on_unit y h0 h1]
  · simp only [reflPre, if_true]
    rw [shift, C16_reflect_id_on_unit y h0 h1]

noncomputable def Krefl (k : ℝ → ℝ) (x y : ℝ) : ℝ := ∑' p : ℤ × Bool, k (reflPre p y - x)
noncomputable def Kper (k : ℝ → ℝ) (x y : ℝ) : ℝ := ∑' m : ℤ, k (m + y - x)

def flipE : ℤ × Bool ≃ ℤ × Bool where
  toFun p := (if p.2 then -p.1 else p.1, p.2)
  invFun p := (if p.2 then -p.1 else p.1, p.2)
  left_inv p := by rcases p with ⟨m, b⟩; cases b <;> simp
  right_inv p := by rcases p with ⟨m, b⟩; cases b <;> simp

/-- density of `reflect (x + ξ)` at `y` when `ξ` has an even density `k`: symmetric in (x, y) -/
theorem C16_fold_reflective_symmetric (k : ℝ → ℝ) (hk : ∀ z, k (-z) = k z) (x y : ℝ) :
    Krefl k x y = Krefl k y x := by
  unfold Krefl; rw [← flipE.tsum_eq]; congr 1; funext p; rcases p with ⟨m, b⟩; cases b
  · simp [flipE, reflPre]; congr 1; ring
  · simp only [flipE, reflPre, Equiv.coe_fn_mk, if_true, Int.cast_neg]; rw [← hk]; congr 1; ring

/-- density of `periodic (x + ξ)` at `y`: symmetric in (x, y) -/
theorem C16_fold_periodic_symmetric (k : ℝ → ℝ) (hk : ∀ z, k (-z) = k z) (x y : ℝ) :
    Kper k x y = Kper k y x := by
  unfold Kper; rw [← (Equiv.neg ℤ).tsum_eq]; congr 1; funext m
  simp only [Equiv.neg_apply, Int.cast_neg]; rw [← hk]; congr 1; ring

/-! ### non-vacuity: concrete values -/
example : periodic (-0.25 : ℝ) = 0.75 := by
  rw [periodic_eq_fract, Int.fract_eq_iff]; refine ⟨by norm_num, by norm_num, -1, by norm_num⟩
example : reflect (2.5 : ℝ) = 0.5 := by
  have hf : ⌊(2.5 : ℝ)⌋ = 2 := by rw [Int.floor_eq_iff]; constructor <;> norm_num
  rw [reflect_even _ (by rw [hf]; rfl)]; simp [Int.fract, hf]; norm_num
example : reflect (1.25 : ℝ) = 0.75 := by
  have hf : ⌊(1.25 : ℝ)⌋ = 1 := by rw [Int.floor_eq_iff]; constructor <;> norm_num
  rw [reflect_odd _ (by rw [hf]; rfl)]; simp [Int.fract, hf]; norm_num

end Props.C16
