import TempestVerif.Model.Reweight
import TempestVerif.Lemmas.ScReal
import Mathlib.Tactic
/-
  C05 — temperature schedule monotone, bounded, ESS-controlled; everything recorded for an iteration refers to
  the same temperature.

  Theorems are about `Model.Reweight` at `ℝ`, for EVERY metric oracle `M`, evidence oracle `Z` and finiteness
  predicate `fin` (no monotonicity, no continuity assumed).  IEEE rounding / NaN behaviour is covered by the
  bit-exact correspondence, not here.
-/
namespace Props.C05
open Model.Reweight
variable {W : Type}

theorem mid_real (hi lo : ℝ) : mid hi lo = (hi + lo) / 2 := by
  simp [mid]; ring

theorem eqv_real (a b : ℝ) : eqv a b = true ↔ a = b := by
  simp only [eqv, Bool.and_eq_true, ScReal.le_def]; exact le_antisymm_iff.symm

/-! ### `_find_beta_upper_limit` -/

theorem upLoop_stop (M : ℝ → W × ℝ × ℝ) (target tol : ℝ) (n : Nat) (lo hi : ℝ) (hw : ¬ tol < hi - lo) :
    upLoop M target tol (n+1) lo hi = ⟨lo, hi, 0, Branch.upLoop, []⟩ := by
  simp [upLoop, hw]

theorem upLoop_up (M : ℝ → W × ℝ × ℝ) (target tol : ℝ) (n : Nat) (lo hi : ℝ) (hw : tol < hi - lo)
    (he : target ≤ (M (mid hi lo)).2.1) :
    upLoop M target tol (n+1) lo hi =
      { upLoop M target tol n (mid hi lo) hi with
        steps := (upLoop M target tol n (mid hi lo) hi).steps + 1,
        calls := mid hi lo :: (upLoop M target tol n (mid hi lo) hi).calls } := by
  simp [upLoop, hw, he]

theorem upLoop_down (M : ℝ → W × ℝ × ℝ) (target tol : ℝ) (n : Nat) (lo hi : ℝ) (hw : tol < hi - lo)
    (he : ¬ target ≤ (M (mid hi lo)).2.1) :
    upLoop M target tol (n+1) lo hi =
      { upLoop M target tol n lo (mid hi lo) with
        steps := (upLoop M target tol n lo (mid hi lo)).steps + 1,
        calls := mid hi lo :: (upLoop M target tol n lo (mid hi lo)).calls } := by
  simp [upLoop, hw, he]

/-- loop invariant of the `while`: the iterate stays in the interval, `ess lo ≥ target` is preserved,
    and the interval is halved once per step -/
theorem upLoop_spec (M : ℝ → W × ℝ × ℝ) (target tol : ℝ) :
    ∀ (n : Nat) (lo hi : ℝ), lo ≤ hi →
      lo ≤ (upLoop M target tol n lo hi).beta ∧
      (upLoop M target tol n lo hi).beta ≤ (upLoop M target tol n lo hi).hi ∧
      (upLoop M target tol n lo hi).hi ≤ hi ∧
      ((upLoop M target tol n lo hi).beta = lo ∨ target ≤ (M (upLoop M target tol n lo hi).beta).2.1) ∧
      (upLoop M target tol n lo hi).hi - (upLoop M target tol n lo hi).beta
        = (hi - lo) / 2 ^ (upLoop M target tol n lo hi).steps := by
  intro n
  induction n with
  | zero => intro lo hi h; simp [upLoop, h]
  | succ n ih =>
    intro lo hi h
    by_cases hw : tol < hi - lo
    · have hm1 : lo ≤ mid hi lo := by rw [mid_real]; linarith
      have hm2 : mid hi lo ≤ hi := by rw [mid_real]; linarith
      by_cases he : target ≤ (M (mid hi lo)).2.1
      · obtain ⟨a1, a2, a3, a4, a5⟩ := ih (mid hi lo) hi hm2
        rw [upLoop_up M target tol n lo hi hw he]
        refine ⟨by simp only; linarith, a2, a3, ?_, ?_⟩
        · rcases a4 with a4 | a4
          · right; simp only; rw [a4]; exact he
          · right; exact a4
        · simp only; rw [a5, pow_succ, mid_real]; field_simp; ring
      · obtain ⟨a1, a2, a3, a4, a5⟩ := ih lo (mid hi lo) hm1
        rw [upLoop_down M target tol n lo hi hw he]
        refine ⟨a1, a2, by simp only; linarith, a4, ?_⟩
        simp only; rw [a5, pow_succ, mid_real]; field_simp; ring
    · rw [upLoop_stop M target tol n lo hi hw]; simp [h]

/-- the loop never needs more than `k` steps once `hi − lo ≤ 2^k · tol` -/
theorem upLoop_steps (M : ℝ → W × ℝ × ℝ) (target tol : ℝ) :
    ∀ (n : Nat) (lo hi : ℝ) (k : Nat), hi - lo ≤ 2 ^ k * tol →
      (upLoop M target tol n lo hi).steps ≤ k := by
  intro n
  induction n with
  | zero => intro lo hi k _; simp [upLoop]
  | succ n ih =>
    intro lo hi k hk
    by_cases hw : tol < hi - lo
    · cases k with
      | zero => simp at hk; linarith
      | succ k =>
        have hk' : (hi - lo) / 2 ≤ 2 ^ k * tol := by rw [pow_succ] at hk; linarith
        by_cases he : target ≤ (M (mid hi lo)).2.1
        · have := ih (mid hi lo) hi k (by rw [mid_real]; linarith)
          rw [upLoop_up M target tol n lo hi hw he]; simp only; omega
        · have := ih lo (mid hi lo) k (by rw [mid_real]; linarith)
          rw [upLoop_down M target tol n lo hi hw he]; simp only; omega
    · rw [upLoop_stop M target tol n lo hi hw]; simp

/-- with `hi − lo ≤ 2^n · tol` the fuel `n` is not what stops the loop -/
theorem upLoop_fuel (M : ℝ → W × ℝ × ℝ) (target tol : ℝ) :
    ∀ (n : Nat) (lo hi : ℝ), hi - lo ≤ 2 ^ n * tol →
      (upLoop M target tol n lo hi).branch = Branch.upLoop := by
  intro n
  induction n with
  | zero => intro lo hi hk; simp at hk; simp [upLoop]; exact hk
  | succ n ih =>
    intro lo hi hk
    by_cases hw : tol < hi - lo
    · have hk' : (hi - lo) / 2 ≤ 2 ^ n * tol := by rw [pow_succ] at hk; linarith
      by_cases he : target ≤ (M (mid hi lo)).2.1
      · have := ih (mid hi lo) hi (by rw [mid_real]; linarith)
        rw [upLoop_up M target tol n lo hi hw he]; exact this
      · have := ih lo (mid hi lo) (by rw [mid_real]; linarith)
        rw [upLoop_down M target tol n lo hi hw he]; exact this
    · rw [upLoop_stop M target tol n lo hi hw]

/-- the loop reports one of its own two tags -/
theorem upLoop_branch (M : ℝ → W × ℝ × ℝ) (target tol : ℝ) :
    ∀ (n : Nat) (lo hi : ℝ), (upLoop M target tol n lo hi).branch = Branch.upLoop ∨
      (upLoop M target tol n lo hi).branch = Branch.upFuel := by
  intro n
  induction n with
  | zero => intro lo hi; by_cases hw : tol < hi - lo <;> simp [upLoop, hw]
  | succ n ih =>
    intro lo hi
    by_cases hw : tol < hi - lo
    · by_cases he : target ≤ (M (mid hi lo)).2.1
      · rw [upLoop_up M target tol n lo hi hw he]; exact ih _ _
      · rw [upLoop_down M target tol n lo hi hw he]; exact ih _ _
    · rw [upLoop_stop M target tol n lo hi hw]; left; rfl

/-- leaving through the `while` condition means the final interval is no wider than the tolerance -/
theorem upLoop_width_le (M : ℝ → W × ℝ × ℝ) (target tol : ℝ) :
    ∀ (n : Nat) (lo hi : ℝ), (upLoop M target tol n lo hi).branch = Branch.upLoop →
      (upLoop M target tol n lo hi).hi - (upLoop M target tol n lo hi).beta ≤ tol := by
  intro n
  induction n with
  | zero =>
    intro lo hi hb
    by_cases hw : tol < hi - lo
    · simp [upLoop, hw] at hb
    · simp [upLoop]; linarith
  | succ n ih =>
    intro lo hi hb
    by_cases hw : tol < hi - lo
    · by_cases he : target ≤ (M (mid hi lo)).2.1
      · rw [upLoop_up M target tol n lo hi hw he] at hb ⊢; exact ih _ _ hb
      · rw [upLoop_down M target tol n lo hi hw he] at hb ⊢; exact ih _ _ hb
    · rw [upLoop_stop M target tol n lo hi hw]; simp only; linarith

/-- the three exits of `_find_beta_upper_limit` -/
theorem upperLimit_cases (M : ℝ → W × ℝ × ℝ) (target tol : ℝ) (fuel : Nat) (prev : ℝ) :
    ((M prev).2.1 < target ∧ upperLimit M target tol fuel prev = ⟨prev, 1, 0, Branch.upStay, [prev]⟩) ∨
    (target ≤ (M prev).2.1 ∧ target ≤ (M 1).2.1 ∧
      upperLimit M target tol fuel prev = ⟨1, 1, 0, Branch.upOne, [prev, 1]⟩) ∨
    (target ≤ (M prev).2.1 ∧ (M 1).2.1 < target ∧
      upperLimit M target tol fuel prev =
        { upLoop M target tol fuel prev 1 with calls := prev :: 1 :: (upLoop M target tol fuel prev 1).calls }) := by
  by_cases h1 : (M prev).2.1 < target
  · left; exact ⟨h1, by simp [upperLimit, h1]⟩
  · by_cases h2 : target ≤ (M 1).2.1
    · right; left; exact ⟨not_lt.mp h1, h2, by simp [upperLimit, h1, h2]⟩
    · right; right; exact ⟨not_lt.mp h1, not_le.mp h2, by simp [upperLimit, h1, h2]⟩

/-- `β_prev ≤ upperLimit ≤ 1` -/
theorem C05_upper_in_range (M : ℝ → W × ℝ × ℝ) (target tol : ℝ) (fuel : Nat) (prev : ℝ) (h1 : prev ≤ 1) :
    prev ≤ (upperLimit M target tol fuel prev).beta ∧ (upperLimit M target tol fuel prev).beta ≤ 1 := by
  rcases upperLimit_cases M target tol fuel prev with ⟨_, e⟩ | ⟨_, _, e⟩ | ⟨_, _, e⟩
  · rw [e]; exact ⟨le_refl _, h1⟩
  · rw [e]; exact ⟨h1, le_refl _⟩
  · rw [e]; obtain ⟨a1, a2, a3, _, _⟩ := upLoop_spec M target tol fuel prev 1 h1
    exact ⟨a1, le_trans a2 a3⟩

/-- either the upper limit is `β_prev` itself or the ESS there is at least the target -/
theorem upper_ess_or (M : ℝ → W × ℝ × ℝ) (target tol : ℝ) (fuel : Nat) (prev : ℝ) (h1 : prev ≤ 1) :
    (upperLimit M target tol fuel prev).beta = prev ∨
      target ≤ (M (upperLimit M target tol fuel prev).beta).2.1 := by
  rcases upperLimit_cases M target tol fuel prev with ⟨_, e⟩ | ⟨_, h, e⟩ | ⟨h, _, e⟩
  · left; rw [e]
  · right; rw [e]; exact h
  · rw [e]; obtain ⟨_, _, _, a4, _⟩ := upLoop_spec M target tol fuel prev 1 h1
    exact a4

/-- `upperLimit ≠ β_prev → ess(upperLimit) ≥ target` -/
theorem C05_upper_ess (M : ℝ → W × ℝ × ℝ) (target tol : ℝ) (fuel : Nat) (prev : ℝ) (h1 : prev ≤ 1)
    (hne : (upperLimit M target tol fuel prev).beta ≠ prev) :
    target ≤ (M (upperLimit M target tol fuel prev).beta).2.1 := by
  rcases upper_ess_or M target tol fuel prev h1 with h | h
  · exact absurd h hne
  · exact h

/-- if the ESS at `β_prev` is not below the target, it is not below the target at the upper limit either -/
theorem upper_ess_of_prev (M : ℝ → W × ℝ × ℝ) (target tol : ℝ) (fuel : Nat) (prev : ℝ) (h1 : prev ≤ 1)
    (hp : target ≤ (M prev).2.1) : target ≤ (M (upperLimit M target tol fuel prev).beta).2.1 := by
  rcases upper_ess_or M target tol fuel prev h1 with h | h
  · rw [h]; exact hp
  · exact h

/-- Fuel is never the reason the loop stops: with `BETA_TOLERANCE = 1e-4` (any tolerance ≥ 1e-4) and
    `β_prev ∈ [0,1]` the interval `[β_prev, 1]` is halved at most 14 times (2^-14 < 1e-4), after `k` steps
    its width is exactly `(1 − β_prev)/2^k`, and every fuel ≥ 14 (the driver uses 64) leaves through the
    `while` condition. -/
theorem C05_upper_fuel (M : ℝ → W × ℝ × ℝ) (target tol : ℝ) (fuel : Nat) (prev : ℝ)
    (h0 : 0 ≤ prev) (h1 : prev ≤ 1) (htol : 1 / 10000 ≤ tol) (hfuel : 14 ≤ fuel) :
    (upperLimit M target tol fuel prev).branch ≠ Branch.upFuel ∧
    (upperLimit M target tol fuel prev).steps ≤ 14 ∧
    ((upperLimit M target tol fuel prev).branch = Branch.upLoop →
      (upperLimit M target tol fuel prev).hi - (upperLimit M target tol fuel prev).beta
        = (1 - prev) / 2 ^ (upperLimit M target tol fuel prev).steps ∧
      (upperLimit M target tol fuel prev).hi - (upperLimit M target tol fuel prev).beta ≤ tol) := by
  have hw14 : (1 : ℝ) - prev ≤ 2 ^ 14 * tol := by nlinarith
  have hwf : (1 : ℝ) - prev ≤ 2 ^ fuel * tol := by
    have : (2 : ℝ) ^ 14 ≤ 2 ^ fuel := pow_le_pow_right₀ (by norm_num) hfuel
    have ht : 0 < tol := by linarith
    nlinarith
  rcases upperLimit_cases M target tol fuel prev with ⟨_, e⟩ | ⟨_, _, e⟩ | ⟨_, _, e⟩
  · rw [e]; simp
  · rw [e]; simp
  · rw [e]
    have hb := upLoop_fuel M target tol fuel prev 1 hwf
    have hs := upLoop_steps M target tol fuel prev 1 14 hw14
    obtain ⟨_, _, _, _, a5⟩ := upLoop_spec M target tol fuel prev 1 h1
    refine ⟨by simp only; rw [hb]; decide, hs, fun _ => ⟨a5, ?_⟩⟩
    simp only
    -- leaving through the `while` condition means the final width is ≤ tol
    exact upLoop_width_le M target tol fuel prev 1 hb

/-! ### `_find_beta_bisection` -/

theorem bisStop_some (m target tolE tolB bmin bmax b : ℝ) (t : Branch)
    (h : bisStop m target tolE tolB bmin bmax b = some t) : t ≠ Branch.bisFuel := by
  unfold bisStop at h
  split_ifs at h <;> (injection h with h; subst h; decide)

theorem bisStop_none (m target tolE tolB bmin bmax b : ℝ)
    (h : bisStop m target tolE tolB bmin bmax b = none) : ¬ (bmax - bmin < tolB) := by
  unfold bisStop at h
  split_ifs at h with h1 h2 h3
  simpa using h2

/-- one pass through the `while True:` body: either it returns the midpoint together with the oracle's
    weights/ESS *at that midpoint*, or (no fuel) the model gives up there, or it recurses on one of the halves -/
theorem bisect_unfold (M : ℝ → W × ℝ × ℝ) (fin : ℝ → Bool) (dyn : Bool) (target tolE tolB : ℝ)
    (n : Nat) (bmin bmax : ℝ) :
    (∃ t, t ≠ Branch.bisFuel ∧ bisect M fin dyn target tolE tolB n bmin bmax =
        ⟨mid bmax bmin, (M (mid bmax bmin)).1, (M (mid bmax bmin)).2.1, 0, t, [mid bmax bmin]⟩) ∨
    (n = 0 ∧ ¬ (bmax - bmin < tolB) ∧ bisect M fin dyn target tolE tolB n bmin bmax =
        ⟨mid bmax bmin, (M (mid bmax bmin)).1, (M (mid bmax bmin)).2.1, 0, Branch.bisFuel, [mid bmax bmin]⟩) ∨
    (∃ k lo hi, n = k + 1 ∧ ¬ (bmax - bmin < tolB) ∧
        ((lo = mid bmax bmin ∧ hi = bmax) ∨ (lo = bmin ∧ hi = mid bmax bmin)) ∧
        bisect M fin dyn target tolE tolB n bmin bmax =
          { bisect M fin dyn target tolE tolB k lo hi with
            steps := (bisect M fin dyn target tolE tolB k lo hi).steps + 1,
            calls := mid bmax bmin :: (bisect M fin dyn target tolE tolB k lo hi).calls }) := by
  cases hs : bisStop (bisVal M fin dyn (mid bmax bmin)) target tolE tolB bmin bmax (mid bmax bmin) with
  | some t =>
    left; refine ⟨t, bisStop_some _ _ _ _ _ _ _ _ hs, ?_⟩
    cases n <;> simp [bisect, hs]
  | none =>
    have hb := bisStop_none _ _ _ _ _ _ _ hs
    cases n with
    | zero => right; left; exact ⟨rfl, hb, by simp [bisect, hs]⟩
    | succ k =>
      right; right
      by_cases hr : bisRaise dyn (bisVal M fin dyn (mid bmax bmin)) target = true
      · exact ⟨k, _, _, rfl, hb, Or.inl ⟨rfl, rfl⟩, by simp [bisect, hs, hr]⟩
      · exact ⟨k, _, _, rfl, hb, Or.inr ⟨rfl, rfl⟩, by simp [bisect, hs, hr]⟩

/-- the bisection's iterate stays inside `[β_min, β_max]`, and the weights / ESS it hands back are the oracle's
    values at the returned β — for every oracle, both update directions, every fuel -/
theorem bisect_spec (M : ℝ → W × ℝ × ℝ) (fin : ℝ → Bool) (dyn : Bool) (target tolE tolB : ℝ) :
    ∀ (n : Nat) (bmin bmax : ℝ), bmin ≤ bmax →
      bmin ≤ (bisect M fin dyn target tolE tolB n bmin bmax).beta ∧
      (bisect M fin dyn target tolE tolB n bmin bmax).beta ≤ bmax ∧
      (bisect M fin dyn target tolE tolB n bmin bmax).w
        = (M (bisect M fin dyn target tolE tolB n bmin bmax).beta).1 ∧
      (bisect M fin dyn target tolE tolB n bmin bmax).ess
        = (M (bisect M fin dyn target tolE tolB n bmin bmax).beta).2.1 := by
  intro n
  induction n with
  | zero =>
    intro bmin bmax h
    have hm1 : bmin ≤ mid bmax bmin := by rw [mid_real]; linarith
    have hm2 : mid bmax bmin ≤ bmax := by rw [mid_real]; linarith
    rcases bisect_unfold M fin dyn target tolE tolB 0 bmin bmax with ⟨t, _, e⟩ | ⟨_, _, e⟩ | ⟨k, _, _, hk, _⟩
    · rw [e]; exact ⟨hm1, hm2, rfl, rfl⟩
    · rw [e]; exact ⟨hm1, hm2, rfl, rfl⟩
    · omega
  | succ n ih =>
    intro bmin bmax h
    have hm1 : bmin ≤ mid bmax bmin := by rw [mid_real]; linarith
    have hm2 : mid bmax bmin ≤ bmax := by rw [mid_real]; linarith
    rcases bisect_unfold M fin dyn target tolE tolB (n+1) bmin bmax with
      ⟨t, _, e⟩ | ⟨hk, _, _⟩ | ⟨k, lo, hi, hk, _, hlh, e⟩
    · rw [e]; exact ⟨hm1, hm2, rfl, rfl⟩
    · omega
    · have hk' : k = n := by omega
      subst hk'
      rw [e]
      rcases hlh with ⟨rfl, rfl⟩ | ⟨rfl, rfl⟩
      · obtain ⟨a1, a2, a3, a4⟩ := ih _ _ hm2
        exact ⟨le_trans hm1 a1, a2, a3, a4⟩
      · obtain ⟨a1, a2, a3, a4⟩ := ih _ _ hm1
        exact ⟨a1, le_trans a2 hm2, a3, a4⟩

/-- whatever the bracket, the weights / ESS the bisection hands back are the oracle's values at the β it returns -/
theorem bisect_aux (M : ℝ → W × ℝ × ℝ) (fin : ℝ → Bool) (dyn : Bool) (target tolE tolB : ℝ) :
    ∀ (n : Nat) (bmin bmax : ℝ),
      (bisect M fin dyn target tolE tolB n bmin bmax).w
        = (M (bisect M fin dyn target tolE tolB n bmin bmax).beta).1 ∧
      (bisect M fin dyn target tolE tolB n bmin bmax).ess
        = (M (bisect M fin dyn target tolE tolB n bmin bmax).beta).2.1 := by
  intro n
  induction n with
  | zero =>
    intro bmin bmax
    rcases bisect_unfold M fin dyn target tolE tolB 0 bmin bmax with ⟨t, _, e⟩ | ⟨_, _, e⟩ | ⟨k, _, _, hk, _⟩
    · rw [e]; exact ⟨rfl, rfl⟩
    · rw [e]; exact ⟨rfl, rfl⟩
    · omega
  | succ n ih =>
    intro bmin bmax
    rcases bisect_unfold M fin dyn target tolE tolB (n+1) bmin bmax with
      ⟨t, _, e⟩ | ⟨hk, _, _⟩ | ⟨k, lo, hi, hk, _, _, e⟩
    · rw [e]; exact ⟨rfl, rfl⟩
    · omega
    · have hk' : k = n := by omega
      subst hk'
      rw [e]; exact ih lo hi

/-- with `β_max − β_min < 2^n · BETA_TOLERANCE` the fuel `n` is not what stops the bisection, and it makes at
    most `n` halvings (the `beta_converged` test fires at the latest when the width drops below the tolerance) -/
theorem bisect_fuel (M : ℝ → W × ℝ × ℝ) (fin : ℝ → Bool) (dyn : Bool) (target tolE tolB : ℝ) :
    ∀ (n : Nat) (fuel : Nat) (bmin bmax : ℝ), n ≤ fuel → bmax - bmin < 2 ^ n * tolB →
      (bisect M fin dyn target tolE tolB fuel bmin bmax).branch ≠ Branch.bisFuel ∧
      (bisect M fin dyn target tolE tolB fuel bmin bmax).steps ≤ n := by
  intro n
  induction n with
  | zero =>
    intro fuel bmin bmax _ hw
    simp at hw
    rcases bisect_unfold M fin dyn target tolE tolB fuel bmin bmax with
      ⟨t, ht, e⟩ | ⟨_, hb, _⟩ | ⟨k, lo, hi, _, hb, _, _⟩
    · rw [e]; exact ⟨ht, le_refl _⟩
    · exact absurd hw hb
    · exact absurd hw hb
  | succ n ih =>
    intro fuel bmin bmax hf hw
    rcases bisect_unfold M fin dyn target tolE tolB fuel bmin bmax with
      ⟨t, ht, e⟩ | ⟨hk, _, _⟩ | ⟨k, lo, hi, hk, _, hlh, e⟩
    · rw [e]; exact ⟨ht, Nat.zero_le _⟩
    · omega
    · rw [e]
      have hw' : hi - lo < 2 ^ n * tolB := by
        rw [pow_succ] at hw
        rcases hlh with ⟨rfl, rfl⟩ | ⟨rfl, rfl⟩ <;> rw [mid_real] <;> linarith
      obtain ⟨b1, b2⟩ := ih k lo hi (by omega) hw'
      exact ⟨b1, by simp only; omega⟩

/-- the bisection only ever reports one of its own four tags -/
theorem bisect_branch_ne_upFuel (M : ℝ → W × ℝ × ℝ) (fin : ℝ → Bool) (dyn : Bool) (target tolE tolB : ℝ) :
    ∀ (n : Nat) (bmin bmax : ℝ), (bisect M fin dyn target tolE tolB n bmin bmax).branch ≠ Branch.upFuel := by
  intro n
  induction n with
  | zero =>
    intro bmin bmax
    rcases bisect_unfold M fin dyn target tolE tolB 0 bmin bmax with ⟨t, _, e⟩ | ⟨_, _, e⟩ | ⟨k, _, _, hk, _⟩
    · cases hs : bisStop (bisVal M fin dyn (mid bmax bmin)) target tolE tolB bmin bmax (mid bmax bmin) with
      | some t' =>
        have : (bisect M fin dyn target tolE tolB 0 bmin bmax).branch = t' := by simp [bisect, hs]
        rw [this]; unfold bisStop at hs; split_ifs at hs <;> (injection hs with hs; subst hs; decide)
      | none => simp [bisect, hs]
    · rw [e]; simp
    · omega
  | succ n ih =>
    intro bmin bmax
    cases hs : bisStop (bisVal M fin dyn (mid bmax bmin)) target tolE tolB bmin bmax (mid bmax bmin) with
    | some t' =>
      have : (bisect M fin dyn target tolE tolB (n+1) bmin bmax).branch = t' := by simp [bisect, hs]
      rw [this]; unfold bisStop at hs; split_ifs at hs <;> (injection hs with hs; subst hs; decide)
    | none =>
      by_cases hr : bisRaise dyn (bisVal M fin dyn (mid bmax bmin)) target = true
      · have : (bisect M fin dyn target tolE tolB (n+1) bmin bmax).branch
            = (bisect M fin dyn target tolE tolB n (mid bmax bmin) bmax).branch := by simp [bisect, hs, hr]
        rw [this]; exact ih _ _
      · have : (bisect M fin dyn target tolE tolB (n+1) bmin bmax).branch
            = (bisect M fin dyn target tolE tolB n bmin (mid bmax bmin)).branch := by simp [bisect, hs, hr]
        rw [this]; exact ih _ _

/-! ### `run`, ESS mode -/

/-- the three branches of ESS mode -/
theorem runEss_cases (M : ℝ → W × ℝ × ℝ) (Z : ℝ → ℝ) (fin : ℝ → Bool) (target tolE tolB : ℝ) (fuel : Nat)
    (prev : ℝ) :
    let up := upperLimit M target tolB fuel prev
    let b := bisect M fin false target tolE tolB fuel prev up.beta
    ((M prev).2.1 ≤ target ∧ runEss M Z fin target tolE tolB fuel prev =
        finalize prev (M prev).1 (M prev).2.1 (Z prev) Branch.essStay [up.branch]
          (up.calls ++ [prev, up.beta])) ∨
    (target < (M prev).2.1 ∧ target ≤ (M up.beta).2.1 ∧ runEss M Z fin target tolE tolB fuel prev =
        finalize up.beta (M up.beta).1 (M up.beta).2.1 (Z up.beta) Branch.essUpper [up.branch]
          (up.calls ++ [prev, up.beta])) ∨
    (target < (M prev).2.1 ∧ (M up.beta).2.1 < target ∧ runEss M Z fin target tolE tolB fuel prev =
        finalize b.beta b.w b.ess (Z b.beta) Branch.essBisect [up.branch, b.branch]
          (up.calls ++ [prev, up.beta] ++ b.calls)) := by
  intro up b
  by_cases h1 : (M prev).2.1 ≤ target
  · left; exact ⟨h1, by simp [runEss, h1, up]⟩
  · by_cases h2 : target ≤ (M (upperLimit M target tolB fuel prev).beta).2.1
    · right; left; exact ⟨not_le.mp h1, h2, by simp [runEss, h1, h2, up]⟩
    · right; right; exact ⟨not_le.mp h1, not_le.mp h2, by simp [runEss, h1, h2, up, b]⟩

/-- Side result: for a deterministic (function-valued, NaN-free) oracle the third branch of ESS mode —
    the call of `_find_beta_bisection` at `reweight.py:331` — is dead code: whenever the ESS at `β_prev` is
    above the target, `_find_beta_upper_limit` has already returned a point whose ESS is at least the target. -/
theorem C05_ess_bisection_unreachable (M : ℝ → W × ℝ × ℝ) (Z : ℝ → ℝ) (fin : ℝ → Bool)
    (target tolE tolB : ℝ) (fuel : Nat) (prev : ℝ) (h1 : prev ≤ 1) :
    (runEss M Z fin target tolE tolB fuel prev).branch ≠ Branch.essBisect := by
  rcases runEss_cases M Z fin target tolE tolB fuel prev with ⟨_, e⟩ | ⟨_, _, e⟩ | ⟨hp, hu, _⟩
  · rw [e]; simp [finalize]
  · rw [e]; simp [finalize]
  · have := upper_ess_of_prev M target tolB fuel prev h1 hp.le
    linarith

/-- ESS mode: `β_prev ≤ β ≤ β_upper ≤ 1`, and if β advanced, the ESS at the new β is at least the target -/
theorem C05_ess_mode (M : ℝ → W × ℝ × ℝ) (Z : ℝ → ℝ) (fin : ℝ → Bool) (target tolE tolB : ℝ) (fuel : Nat)
    (prev : ℝ) (h1 : prev ≤ 1) :
    prev ≤ (runEss M Z fin target tolE tolB fuel prev).beta ∧
    (runEss M Z fin target tolE tolB fuel prev).beta ≤ (upperLimit M target tolB fuel prev).beta ∧
    (upperLimit M target tolB fuel prev).beta ≤ 1 ∧
    ((runEss M Z fin target tolE tolB fuel prev).beta ≠ prev →
      target ≤ (M (runEss M Z fin target tolE tolB fuel prev).beta).2.1) := by
  obtain ⟨u1, u2⟩ := C05_upper_in_range M target tolB fuel prev h1
  rcases runEss_cases M Z fin target tolE tolB fuel prev with ⟨_, e⟩ | ⟨_, hu, e⟩ | ⟨hp, hu, _⟩
  · rw [e]; exact ⟨le_refl _, u1, u2, fun h => absurd rfl h⟩
  · rw [e]; exact ⟨u1, le_refl _, u2, fun _ => hu⟩
  · have := upper_ess_of_prev M target tolB fuel prev h1 hp.le
    linarith

/-! ### `run`, volume-variation mode -/

theorem runDyn_cases (M : ℝ → W × ℝ × ℝ) (Z : ℝ → ℝ) (fin : ℝ → Bool) (target vv tolE tolB : ℝ) (fuel : Nat)
    (prev : ℝ) :
    let up := upperLimit M target tolB fuel prev
    let b := bisect M fin true vv tolE tolB fuel prev up.beta
    (up.beta = prev ∧ runDyn M Z fin target vv tolE tolB fuel prev =
        finalize prev (M prev).1 (M prev).2.1 (Z prev) Branch.dynStuck [up.branch] (up.calls ++ [prev])) ∨
    (up.beta ≠ prev ∧ (M up.beta).2.2 ≤ vv ∧ runDyn M Z fin target vv tolE tolB fuel prev =
        finalize up.beta (M up.beta).1 (M up.beta).2.1 (Z up.beta) Branch.dynUpper [up.branch]
          (up.calls ++ [prev, up.beta, up.beta])) ∨
    (up.beta ≠ prev ∧ vv < (M up.beta).2.2 ∧ vv ≤ (M prev).2.2 ∧
      runDyn M Z fin target vv tolE tolB fuel prev =
        finalize prev (M prev).1 (M prev).2.1 (Z prev) Branch.dynStay [up.branch]
          (up.calls ++ [prev, up.beta, prev])) ∨
    (up.beta ≠ prev ∧ vv < (M up.beta).2.2 ∧ (M prev).2.2 < vv ∧
      runDyn M Z fin target vv tolE tolB fuel prev =
        finalize b.beta b.w b.ess (Z b.beta) Branch.dynBisect [up.branch, b.branch]
          (up.calls ++ [prev, up.beta] ++ b.calls)) := by
  intro up b
  by_cases h0 : (upperLimit M target tolB fuel prev).beta = prev
  · left; exact ⟨h0, by simp [runDyn, eqv_real, h0, up]⟩
  · have h0' : ¬ (eqv (upperLimit M target tolB fuel prev).beta prev = true) := by rw [eqv_real]; exact h0
    by_cases h1 : (M (upperLimit M target tolB fuel prev).beta).2.2 ≤ vv
    · right; left; exact ⟨h0, h1, by simp [runDyn, h0', h1, up]⟩
    · by_cases h2 : vv ≤ (M prev).2.2
      · right; right; left; exact ⟨h0, not_le.mp h1, h2, by simp [runDyn, h0', h1, h2, up]⟩
      · right; right; right
        exact ⟨h0, not_le.mp h1, not_le.mp h2, by simp [runDyn, h0', h1, h2, up, b]⟩

/-- volume-variation mode: `β_prev ≤ β ≤ β_upper ≤ 1` — never beyond the ESS-limited temperature — in every
    branch, the bisection included (its iterate stays in `[β_min, β_max] = [β_prev, β_upper]`) -/
theorem C05_dyn_mode (M : ℝ → W × ℝ × ℝ) (Z : ℝ → ℝ) (fin : ℝ → Bool) (target vv tolE tolB : ℝ) (fuel : Nat)
    (prev : ℝ) (h1 : prev ≤ 1) :
    prev ≤ (runDyn M Z fin target vv tolE tolB fuel prev).beta ∧
    (runDyn M Z fin target vv tolE tolB fuel prev).beta ≤ (upperLimit M target tolB fuel prev).beta ∧
    (upperLimit M target tolB fuel prev).beta ≤ 1 := by
  obtain ⟨u1, u2⟩ := C05_upper_in_range M target tolB fuel prev h1
  rcases runDyn_cases M Z fin target vv tolE tolB fuel prev with
    ⟨_, e⟩ | ⟨_, _, e⟩ | ⟨_, _, _, e⟩ | ⟨_, _, _, e⟩
  · rw [e]; exact ⟨le_refl _, u1, u2⟩
  · rw [e]; exact ⟨u1, le_refl _, u2⟩
  · rw [e]; exact ⟨le_refl _, u1, u2⟩
  · rw [e]; obtain ⟨b1, b2, _, _⟩ := bisect_spec M fin true vv tolE tolB fuel prev _ u1
    exact ⟨b1, b2, u2⟩

/-- In volume-variation mode too, an advance beyond `β_prev` implies the ESS-limited temperature itself advanced,
    hence the ESS *there* is at least the target (the bound the statement refers to is a genuine ESS bound). -/
theorem C05_dyn_upper_ess (M : ℝ → W × ℝ × ℝ) (Z : ℝ → ℝ) (fin : ℝ → Bool) (target vv tolE tolB : ℝ)
    (fuel : Nat) (prev : ℝ) (h1 : prev ≤ 1)
    (hadv : (runDyn M Z fin target vv tolE tolB fuel prev).beta ≠ prev) :
    target ≤ (M (upperLimit M target tolB fuel prev).beta).2.1 := by
  apply C05_upper_ess M target tolB fuel prev h1
  intro h
  obtain ⟨d1, d2, _⟩ := C05_dyn_mode M Z fin target vv tolE tolB fuel prev h1
  rw [h] at d2
  exact hadv (le_antisymm d2 d1)

/-! ### everything recorded for an iteration refers to the same temperature -/

/-- what "refers to the temperature β" means for the output of `run` -/
def Coherent (M : ℝ → W × ℝ × ℝ) (Z : ℝ → ℝ) (r : RunOut ℝ W) : Prop :=
  r.weightsTag = WTag.of (M r.beta).1 ∧ r.ess = (M r.beta).2.1 ∧ r.logz = Z r.beta ∧ r.zcalls = [r.beta]

theorem coherent_finalize (M : ℝ → W × ℝ × ℝ) (Z : ℝ → ℝ) (β : ℝ) (br : Branch) (sub : List Branch)
    (calls : List ℝ) : Coherent M Z (finalize β (M β).1 (M β).2.1 (Z β) br sub calls) :=
  ⟨rfl, rfl, rfl, rfl⟩

theorem runEss_coherent (M : ℝ → W × ℝ × ℝ) (Z : ℝ → ℝ) (fin : ℝ → Bool) (target tolE tolB : ℝ) (fuel : Nat)
    (prev : ℝ) : Coherent M Z (runEss M Z fin target tolE tolB fuel prev) := by
  rcases runEss_cases M Z fin target tolE tolB fuel prev with ⟨_, e⟩ | ⟨_, _, e⟩ | ⟨_, _, e⟩
  · rw [e]; exact coherent_finalize M Z _ _ _ _
  · rw [e]; exact coherent_finalize M Z _ _ _ _
  · rw [e]; obtain ⟨b3, b4⟩ := bisect_aux M fin false target tolE tolB fuel prev _
    rw [b3, b4]; exact coherent_finalize M Z _ _ _ _

theorem runDyn_coherent (M : ℝ → W × ℝ × ℝ) (Z : ℝ → ℝ) (fin : ℝ → Bool) (target vv tolE tolB : ℝ)
    (fuel : Nat) (prev : ℝ) : Coherent M Z (runDyn M Z fin target vv tolE tolB fuel prev) := by
  rcases runDyn_cases M Z fin target vv tolE tolB fuel prev with
    ⟨_, e⟩ | ⟨_, _, e⟩ | ⟨_, _, _, e⟩ | ⟨_, _, _, e⟩
  · rw [e]; exact coherent_finalize M Z _ _ _ _
  · rw [e]; exact coherent_finalize M Z _ _ _ _
  · rw [e]; exact coherent_finalize M Z _ _ _ _
  · rw [e]; obtain ⟨b3, b4⟩ := bisect_aux M fin true vv tolE tolB fuel prev _
    rw [b3, b4]; exact coherent_finalize M Z _ _ _ _

/-- In all 7 branches of `run` (3 in ESS mode, 4 in volume-variation mode) the returned weights, the recorded
    ESS and the recorded logZ are `(M β).1`, `(M β).2.1` and `Z β` for the SAME β that is written to state
    (and `compute_logw_and_logz` is called by `run` exactly once, at that β) — for every oracle and every β_prev. -/
theorem C05_same_temperature (c : Cfg ℝ) (M : ℝ → W × ℝ × ℝ) (Z : ℝ → ℝ) (fin : ℝ → Bool) (prev : ℝ) :
    (run c false M Z fin prev).weightsTag = WTag.of (M (run c false M Z fin prev).beta).1 ∧
    (run c false M Z fin prev).ess = (M (run c false M Z fin prev).beta).2.1 ∧
    (run c false M Z fin prev).logz = Z (run c false M Z fin prev).beta ∧
    (run c false M Z fin prev).zcalls = [(run c false M Z fin prev).beta] := by
  cases hv : c.vv with
  | none => simp only [run, hv, Bool.false_eq_true, if_false]; exact runEss_coherent M Z fin _ _ _ _ prev
  | some v => simp only [run, hv, Bool.false_eq_true, if_false]; exact runDyn_coherent M Z fin _ _ _ _ _ prev

/-- the first iteration (empty history): β = 0, logZ = 0, ESS = ess_ratio · n_particles, uniform weights of
    length n_particles, and no oracle is consulted -/
theorem C05_first_iteration (c : Cfg ℝ) (M : ℝ → W × ℝ × ℝ) (Z : ℝ → ℝ) (fin : ℝ → Bool) (prev : ℝ) :
    (run c true M Z fin prev).beta = 0 ∧ (run c true M Z fin prev).logz = 0 ∧
    (run c true M Z fin prev).ess = c.essRatio * c.nPart ∧
    (run c true M Z fin prev).weightsTag = WTag.uniform c.nPart ∧
    (run c true M Z fin prev).calls = [] ∧ (run c true M Z fin prev).zcalls = [] := by
  simp [run, Cfg.target]

/-- one `run` on a non-empty history: the new β lies between the old one and 1 -/
theorem C05_run_range (c : Cfg ℝ) (M : ℝ → W × ℝ × ℝ) (Z : ℝ → ℝ) (fin : ℝ → Bool) (prev : ℝ)
    (h1 : prev ≤ 1) :
    prev ≤ (run c false M Z fin prev).beta ∧ (run c false M Z fin prev).beta ≤ 1 := by
  cases hv : c.vv with
  | none =>
    simp only [run, hv, Bool.false_eq_true, if_false]
    obtain ⟨a, b, d, _⟩ := C05_ess_mode M Z fin c.target c.tolE c.tolB c.fuel prev h1
    exact ⟨a, le_trans b d⟩
  | some v =>
    simp only [run, hv, Bool.false_eq_true, if_false]
    obtain ⟨a, b, d⟩ := C05_dyn_mode M Z fin c.target v c.tolE c.tolB c.fuel prev h1
    exact ⟨a, le_trans b d⟩

/-- with the real constants (`BETA_TOLERANCE ≥ 1e-4`) and fuel ≥ 14 no loop of `run` is ever stopped by the
    model's fuel: the model's `while` loops and the Python's terminate together -/
theorem C05_fuel (c : Cfg ℝ) (hemp : Bool) (M : ℝ → W × ℝ × ℝ) (Z : ℝ → ℝ) (fin : ℝ → Bool) (prev : ℝ)
    (h0 : 0 ≤ prev) (h1 : prev ≤ 1) (htol : 1 / 10000 ≤ c.tolB) (hfuel : 14 ≤ c.fuel) :
    Branch.upFuel ∉ (run c hemp M Z fin prev).sub ∧ Branch.bisFuel ∉ (run c hemp M Z fin prev).sub := by
  cases hemp with
  | true => simp [run]
  | false =>
    have hup := (C05_upper_fuel M c.target c.tolB c.fuel prev h0 h1 htol hfuel).1
    obtain ⟨u1, u2⟩ := C05_upper_in_range M c.target c.tolB c.fuel prev h1
    have hbis : ∀ (dyn : Bool) (tg : ℝ),
        (bisect M fin dyn tg c.tolE c.tolB c.fuel prev (upperLimit M c.target c.tolB c.fuel prev).beta).branch
          ≠ Branch.bisFuel := by
      intro dyn tg
      refine (bisect_fuel M fin dyn tg c.tolE c.tolB 14 c.fuel prev _ hfuel ?_).1
      nlinarith
    have hupb : ∀ t : Branch, t ≠ Branch.upFuel → t ≠ Branch.bisFuel →
        ¬ Branch.upFuel = t ∧ ¬ Branch.bisFuel = t := fun t a b => ⟨fun h => a h.symm, fun h => b h.symm⟩
    have hupnb : (upperLimit M c.target c.tolB c.fuel prev).branch ≠ Branch.bisFuel := by
      rcases upperLimit_cases M c.target c.tolB c.fuel prev with ⟨_, e⟩ | ⟨_, _, e⟩ | ⟨_, _, e⟩
      · rw [e]; simp
      · rw [e]; simp
      · rw [e]; simp only
        have hwf : (1 : ℝ) - prev ≤ 2 ^ c.fuel * c.tolB := by
          have : (2 : ℝ) ^ 14 ≤ 2 ^ c.fuel := pow_le_pow_right₀ (by norm_num) hfuel
          nlinarith
        rw [upLoop_fuel M c.target c.tolB c.fuel prev 1 hwf]; decide
    cases hv : c.vv with
    | none =>
      simp only [run, hv, Bool.false_eq_true, if_false]
      rcases runEss_cases M Z fin c.target c.tolE c.tolB c.fuel prev with ⟨_, e⟩ | ⟨_, _, e⟩ | ⟨_, _, e⟩
      · rw [e]; simp [finalize]; exact hupb _ hup hupnb
      · rw [e]; simp [finalize]; exact hupb _ hup hupnb
      · rw [e]; simp [finalize]
        have hb := hbis false c.target
        have hbu := bisect_branch_ne_upFuel M fin false c.target c.tolE c.tolB c.fuel prev
          (upperLimit M c.target c.tolB c.fuel prev).beta
        exact ⟨⟨(hupb _ hup hupnb).1, fun h => hbu h.symm⟩, (hupb _ hup hupnb).2, fun h => hb h.symm⟩
    | some v =>
      simp only [run, hv, Bool.false_eq_true, if_false]
      rcases runDyn_cases M Z fin c.target v c.tolE c.tolB c.fuel prev with
        ⟨_, e⟩ | ⟨_, _, e⟩ | ⟨_, _, _, e⟩ | ⟨_, _, _, e⟩
      · rw [e]; simp [finalize]; exact hupb _ hup hupnb
      · rw [e]; simp [finalize]; exact hupb _ hup hupnb
      · rw [e]; simp [finalize]; exact hupb _ hup hupnb
      · rw [e]; simp [finalize]
        have hb := hbis true v
        have hbu := bisect_branch_ne_upFuel M fin true v c.tolE c.tolB c.fuel prev
          (upperLimit M c.target c.tolB c.fuel prev).beta
        exact ⟨⟨(hupb _ hup hupnb).1, fun h => hbu h.symm⟩, (hupb _ hup hupnb).2, fun h => hb h.symm⟩

/-! ### the schedule -/

/-- from any state with a non-empty history and `β_prev ≤ 1`: every later β lies in `[β_prev, 1]` and the
    sequence never decreases -/
theorem sched_mono {σ : Type} (c : Cfg ℝ) (env : σ → Oracles ℝ W) (emp : σ → Bool)
    (next : σ → RunOut ℝ W → σ) (hne : ∀ s r, emp (next s r) = false) :
    ∀ (n : Nat) (s : σ) (prev : ℝ), emp s = false → prev ≤ 1 →
      (∀ b ∈ betas c env emp next n s prev, prev ≤ b ∧ b ≤ 1) ∧
      (∀ k a b, (betas c env emp next n s prev)[k]? = some a →
        (betas c env emp next n s prev)[k+1]? = some b → a ≤ b) := by
  intro n
  induction n with
  | zero => intro s prev _ _; simp [betas, schedule]
  | succ n ih =>
    intro s prev hs h1
    have hr := C05_run_range c (env s).M (env s).Z (env s).fin prev h1
    have e : betas c env emp next (n+1) s prev =
        (run c false (env s).M (env s).Z (env s).fin prev).beta ::
          betas c env emp next n (next s (run c false (env s).M (env s).Z (env s).fin prev))
            (run c false (env s).M (env s).Z (env s).fin prev).beta := by
      simp [betas, schedule, hs]
    obtain ⟨i1, i2⟩ := ih (next s (run c false (env s).M (env s).Z (env s).fin prev))
      (run c false (env s).M (env s).Z (env s).fin prev).beta (hne _ _) hr.2
    rw [e]
    constructor
    · intro b hb
      rcases List.mem_cons.mp hb with rfl | hb
      · exact hr
      · exact ⟨le_trans hr.1 (i1 b hb).1, (i1 b hb).2⟩
    · intro k a b ha hb
      cases k with
      | zero =>
        simp only [List.getElem?_cons_zero, Option.some.injEq] at ha
        simp only [List.getElem?_cons_succ] at hb
        subst ha
        exact (i1 b (List.mem_of_getElem? hb)).1
      | succ k =>
        simp only [List.getElem?_cons_succ] at ha hb
        exact i2 k a b ha hb

/-- For every run of the schedule iteration (every environment: any pool dynamics `next`, any oracles `env`,
    provided the history is empty at the start and never empty after a commit; any configuration, either mode;
    any initial `state["beta"]`):  β_0 = 0,  0 ≤ β_k ≤ 1  and  β_k ≤ β_{k+1}. -/
theorem C05_schedule {σ : Type} (c : Cfg ℝ) (env : σ → Oracles ℝ W) (emp : σ → Bool)
    (next : σ → RunOut ℝ W → σ) (s0 : σ) (p0 : ℝ)
    (h0 : emp s0 = true) (hne : ∀ s r, emp (next s r) = false) (n : Nat) :
    (0 < n → (betas c env emp next n s0 p0)[0]? = some 0) ∧
    (∀ b ∈ betas c env emp next n s0 p0, 0 ≤ b ∧ b ≤ 1) ∧
    (∀ k a b, (betas c env emp next n s0 p0)[k]? = some a →
      (betas c env emp next n s0 p0)[k+1]? = some b → a ≤ b ∧ b ≤ 1) := by
  cases n with
  | zero => simp [betas, schedule]
  | succ n =>
    have hb0 : (run c true (env s0).M (env s0).Z (env s0).fin p0).beta = 0 :=
      (C05_first_iteration c _ _ _ p0).1
    have e : betas c env emp next (n+1) s0 p0 =
        0 :: betas c env emp next n (next s0 (run c true (env s0).M (env s0).Z (env s0).fin p0)) 0 := by
      simp only [betas, schedule, h0, List.map_cons, hb0]
    obtain ⟨i1, i2⟩ := sched_mono c env emp next hne n
      (next s0 (run c true (env s0).M (env s0).Z (env s0).fin p0)) 0 (hne _ _) (by norm_num)
    rw [e]
    refine ⟨fun _ => by simp, ?_, ?_⟩
    · intro b hb
      rcases List.mem_cons.mp hb with rfl | hb
      · exact ⟨le_refl _, by norm_num⟩
      · exact i1 b hb
    · intro k a b ha hb
      cases k with
      | zero =>
        simp only [List.getElem?_cons_zero, Option.some.injEq] at ha
        simp only [List.getElem?_cons_succ] at hb
        subst ha
        exact i1 b (List.mem_of_getElem? hb)
      | succ k =>
        simp only [List.getElem?_cons_succ] at ha hb
        exact ⟨i2 k a b ha hb, (i1 b (List.mem_of_getElem? hb)).2⟩

/-- resumed runs: starting from a non-empty history with `state["beta"] = β_start ≤ 1` the sequence continues
    monotonically from `β_start` -/
theorem C05_schedule_resume {σ : Type} (c : Cfg ℝ) (env : σ → Oracles ℝ W) (emp : σ → Bool)
    (next : σ → RunOut ℝ W → σ) (s0 : σ) (p0 : ℝ)
    (h0 : emp s0 = false) (hne : ∀ s r, emp (next s r) = false) (hp : p0 ≤ 1) (n : Nat) :
    (∀ b ∈ betas c env emp next n s0 p0, p0 ≤ b ∧ b ≤ 1) ∧
    (∀ k a b, (betas c env emp next n s0 p0)[k]? = some a →
      (betas c env emp next n s0 p0)[k+1]? = some b → a ≤ b) :=
  sched_mono c env emp next hne n s0 p0 h0 hp

/-! ### the ESS-limited temperature is tight, and for a monotone ESS it is the statement's supremum -/

/-- second loop invariant of `_find_beta_upper_limit`: the ESS at `beta_high` stays below the target -/
theorem upLoop_hi_below (M : ℝ → W × ℝ × ℝ) (target tol : ℝ) :
    ∀ (n : Nat) (lo hi : ℝ), (M hi).2.1 < target → (M (upLoop M target tol n lo hi).hi).2.1 < target := by
  intro n
  induction n with
  | zero => intro lo hi h; simpa [upLoop] using h
  | succ n ih =>
    intro lo hi h
    by_cases hw : tol < hi - lo
    · by_cases he : target ≤ (M (mid hi lo)).2.1
      · rw [upLoop_up M target tol n lo hi hw he]; exact ih _ _ h
      · rw [upLoop_down M target tol n lo hi hw he]; exact ih _ _ (not_le.mp he)
    · rw [upLoop_stop M target tol n lo hi hw]; exact h

/-- The ESS-limited temperature is not slack: unless it is 1, there is a temperature at most `BETA_TOLERANCE`
    above it at which the ESS is BELOW the target (for `upStay` that temperature is `β_prev` itself).
    Needs only that the loop was not stopped by the model's fuel (`C05_upper_fuel`). -/
theorem C05_upper_tight (M : ℝ → W × ℝ × ℝ) (target tol : ℝ) (fuel : Nat) (prev : ℝ) (h1 : prev ≤ 1)
    (htol : 0 ≤ tol) (hf : (upperLimit M target tol fuel prev).branch ≠ Branch.upFuel) :
    (upperLimit M target tol fuel prev).beta = 1 ∨
    ∃ b, (upperLimit M target tol fuel prev).beta ≤ b ∧ b ≤ (upperLimit M target tol fuel prev).beta + tol ∧
      b ≤ 1 ∧ (M b).2.1 < target := by
  rcases upperLimit_cases M target tol fuel prev with ⟨h, e⟩ | ⟨_, _, e⟩ | ⟨_, h, e⟩
  · right; rw [e]; exact ⟨prev, le_refl _, by simp only; linarith, h1, h⟩
  · left; rw [e]
  · right
    rw [e] at hf ⊢
    simp only at hf ⊢
    obtain ⟨_, a2, a3, _, _⟩ := upLoop_spec M target tol fuel prev 1 h1
    have hb : (upLoop M target tol fuel prev 1).branch = Branch.upLoop := by
      rcases upLoop_branch M target tol fuel prev 1 with hb | hb
      · exact hb
      · exact absurd hb hf
    have hw := upLoop_width_le M target tol fuel prev 1 hb
    exact ⟨(upLoop M target tol fuel prev 1).hi, a2, by linarith, a3, upLoop_hi_below M target tol fuel prev 1 h⟩

/-- ESS non-increasing in β on `[β_prev, 1]` (the situation the algorithm is designed for) -/
def EssAntitone (M : ℝ → W × ℝ × ℝ) (prev : ℝ) : Prop :=
  ∀ a b, prev ≤ a → a ≤ b → b ≤ 1 → (M b).2.1 ≤ (M a).2.1

/-- For a non-increasing ESS the upper limit is the statement's "largest temperature with ESS ≥ target" up to
    `BETA_TOLERANCE`: the ESS is ≥ target on all of `[β_prev, β_upper]` (if the limit moved at all) and < target
    everywhere from `β_upper + BETA_TOLERANCE` on. -/
theorem C05_upper_antitone (M : ℝ → W × ℝ × ℝ) (target tol : ℝ) (fuel : Nat) (prev : ℝ) (h1 : prev ≤ 1)
    (htol : 0 ≤ tol) (hf : (upperLimit M target tol fuel prev).branch ≠ Branch.upFuel)
    (hmono : EssAntitone M prev) :
    ((upperLimit M target tol fuel prev).beta ≠ prev →
      ∀ b, prev ≤ b → b ≤ (upperLimit M target tol fuel prev).beta → target ≤ (M b).2.1) ∧
    (∀ b, (upperLimit M target tol fuel prev).beta + tol ≤ b → b ≤ 1 →
      (upperLimit M target tol fuel prev).beta = 1 ∨ (M b).2.1 < target) := by
  obtain ⟨u1, u2⟩ := C05_upper_in_range M target tol fuel prev h1
  constructor
  · intro hne b hb1 hb2
    have := C05_upper_ess M target tol fuel prev h1 hne
    exact le_trans this (hmono b _ hb1 hb2 u2)
  · intro b hb1 hb2
    rcases C05_upper_tight M target tol fuel prev h1 htol hf with h | ⟨x, x1, x2, x3, x4⟩
    · left; exact h
    · right; exact lt_of_le_of_lt (hmono x b (le_trans u1 x1) (le_trans x2 hb1) hb2) x4

/-- volume-variation mode with a non-increasing ESS: an advance always lands on a temperature whose ESS is at
    least the target (because it lands in `[β_prev, β_upper]`) -/
theorem C05_dyn_ess_antitone (M : ℝ → W × ℝ × ℝ) (Z : ℝ → ℝ) (fin : ℝ → Bool) (target vv tolE tolB : ℝ)
    (fuel : Nat) (prev : ℝ) (h1 : prev ≤ 1) (hmono : EssAntitone M prev)
    (hadv : (runDyn M Z fin target vv tolE tolB fuel prev).beta ≠ prev) :
    target ≤ (M (runDyn M Z fin target vv tolE tolB fuel prev).beta).2.1 := by
  obtain ⟨d1, d2, d3⟩ := C05_dyn_mode M Z fin target vv tolE tolB fuel prev h1
  have hu := C05_dyn_upper_ess M Z fin target vv tolE tolB fuel prev h1 hadv
  exact le_trans hu (hmono _ _ d1 d2 d3)

/-! ### non-vacuity: a concrete oracle  (ESS(β) = 100·(1 − β), metric(β) = β, target 40) -/

noncomputable def Mex : ℝ → Unit × ℝ × ℝ := fun β => ((), 100 * (1 - β), β)

-- the upper limit really advances (tolerance 1/4, so that the loop is short enough to evaluate by hand) …
example : (upperLimit Mex 40 (1/4) 3 0).beta = 1/2 := by
  norm_num [upperLimit, upLoop, Mex, mid]
example : (upperLimit Mex 40 (1/4) 3 0).branch = Branch.upLoop := by
  norm_num [upperLimit, upLoop, Mex, mid]
-- … so the hypothesis of `C05_upper_ess` is met and its conclusion is `40 ≤ 50`
example : (40 : ℝ) ≤ (Mex (upperLimit Mex 40 (1/4) 3 0).beta).2.1 :=
  C05_upper_ess Mex 40 (1/4) 3 0 (by norm_num) (by norm_num [upperLimit, upLoop, Mex, mid])
-- with the real tolerance and fuel 64 the loop is entered, leaves through its own condition within 14 steps,
-- and the final bracket has width 2^-steps ≤ 1e-4
example : (upperLimit Mex 40 (1/10000) 64 0).branch = Branch.upLoop ∧
    (upperLimit Mex 40 (1/10000) 64 0).steps ≤ 14 ∧
    (upperLimit Mex 40 (1/10000) 64 0).hi - (upperLimit Mex 40 (1/10000) 64 0).beta ≤ 1/10000 := by
  have hb : (upperLimit Mex 40 (1/10000) 64 0).branch = Branch.upLoop := by
    rcases upperLimit_cases Mex 40 (1/10000) 64 0 with ⟨h, _⟩ | ⟨_, h, _⟩ | ⟨_, _, e⟩
    · norm_num [Mex] at h
    · norm_num [Mex] at h
    · rw [e]; exact upLoop_fuel Mex 40 (1/10000) 64 0 1 (by norm_num)
  obtain ⟨_, h2, h3⟩ := C05_upper_fuel Mex 40 (1/10000) 64 0 (by norm_num) (by norm_num) (by norm_num) (by norm_num)
  exact ⟨hb, h2, (h3 hb).2⟩
-- ESS mode advances to the upper limit (second branch); `C05_ess_mode` then says 40 ≤ ESS(1/2) = 50
example : (runEss Mex id (fun _ => true) 40 (1/100) (1/4) 3 0).beta = 1/2 ∧
    (runEss Mex id (fun _ => true) 40 (1/100) (1/4) 3 0).branch = Branch.essUpper := by
  constructor <;> norm_num [runEss, finalize, upperLimit, upLoop, Mex, mid]
example : (40 : ℝ) ≤ (Mex (runEss Mex id (fun _ => true) 40 (1/100) (1/4) 3 0).beta).2.1 :=
  (C05_ess_mode Mex id (fun _ => true) 40 (1/100) (1/4) 3 0 (by norm_num)).2.2.2
    (by norm_num [runEss, finalize, upperLimit, upLoop, Mex, mid])
-- volume-variation mode, bisection branch: target 0.3 lies strictly between metric(0) = 0 and metric(1/2) = 1/2
example : (runDyn Mex id (fun _ => true) 40 (3/10) (1/100) (1/4) 3 0).beta = 5/16 ∧
    (runDyn Mex id (fun _ => true) 40 (3/10) (1/100) (1/4) 3 0).branch = Branch.dynBisect ∧
    (runDyn Mex id (fun _ => true) 40 (3/10) (1/100) (1/4) 3 0).sub = [Branch.upLoop, Branch.bisBeta] := by
  refine ⟨?_, ?_, ?_⟩ <;>
  norm_num [runDyn, bisect, bisStop, bisVal, bisRaise, eqv, finalize, upperLimit, upLoop, Mex, mid, ScReal.abs_def]
-- the same-temperature statement on that run: recorded ESS is ESS(5/16) = 68.75, logZ is Z(5/16)
example : (run ⟨2, 20, some (3/10), 1/100, 1/4, 3⟩ false Mex id (fun _ => true) 0).ess = 100 * (1 - 5/16) := by
  have h := (C05_same_temperature ⟨2, 20, some (3/10), 1/100, 1/4, 3⟩ Mex id (fun _ => true) 0).2.1
  rw [h]
  norm_num [run, Cfg.target, runDyn, bisect, bisStop, bisVal, bisRaise, eqv, finalize, upperLimit, upLoop, Mex,
    mid, ScReal.abs_def]
-- a schedule: state = number of commits, the same pool oracle throughout; β = 0, 1/2, 1/2
example : betas (σ := Nat) ⟨2, 20, none, 1/100, 1/4, 3⟩ (fun _ => ⟨Mex, id, fun _ => true⟩) (fun s => s == 0)
    (fun s _ => s + 1) 3 0 0 = [0, 1/2, 1/2] := by
  norm_num [betas, schedule, run, Cfg.target, runEss, finalize, upperLimit, upLoop, Mex, mid]
example := C05_schedule (σ := Nat) ⟨2, 20, none, 1/100, 1/4, 3⟩ (fun _ => ⟨Mex, id, fun _ => true⟩)
    (fun s => s == 0) (fun s _ => s + 1) 0 0 (by simp) (by simp) 3

-- tightness / monotone characterisation on the same oracle (it is non-increasing): the limit 1/2 found with
-- tolerance 1/4 has ESS 50 ≥ 40, and ESS(3/4) = 25 < 40 one tolerance above it
example : EssAntitone Mex 0 := by
  intro a b _ hab _; simp only [Mex]; linarith
example : ∀ b, (0 : ℝ) ≤ b → b ≤ 1/2 → (40 : ℝ) ≤ (Mex b).2.1 := by
  have h := (C05_upper_antitone Mex 40 (1/4) 3 0 (by norm_num) (by norm_num)
    (by norm_num [upperLimit, upLoop, Mex, mid]; decide) (by intro a b _ hab _; simp only [Mex]; linarith)).1
    (by norm_num [upperLimit, upLoop, Mex, mid])
  have e : (upperLimit Mex 40 (1/4) 3 0).beta = 1/2 := by norm_num [upperLimit, upLoop, Mex, mid]
  rw [e] at h; exact h
example : (40 : ℝ) ≤ (Mex (runDyn Mex id (fun _ => true) 40 (3/10) (1/100) (1/4) 3 0).beta).2.1 :=
  C05_dyn_ess_antitone Mex id (fun _ => true) 40 (3/10) (1/100) (1/4) 3 0 (by norm_num)
    (by intro a b _ hab _; simp only [Mex]; linarith)
    (by norm_num [runDyn, bisect, bisStop, bisVal, bisRaise, eqv, finalize, upperLimit, upLoop, Mex, mid,
      ScReal.abs_def])

end Props.C05
