import TempestVerif.Lemmas.MIS
import Mathlib.Algebra.BigOperators.Ring.Finset
import Mathlib.Data.Fintype.BigOperators
import Mathlib.Analysis.Convex.Jensen
import Mathlib.Analysis.Convex.SpecificFunctions.Basic
import Mathlib.Analysis.SpecialFunctions.Log.Basic
import Mathlib.Probability.Independence.Basic
import Mathlib.Probability.Moments.Variance
import Mathlib.Tactic
/-
  C02 — statistics of the reported log-evidence.

  * Jensen: an unbiased evidence estimator yields a log-evidence that is biased LOW;
  * independent runs (each a function of its OWN random tape, product law on the tapes): the mean of `R` runs is
    unbiased for the one-run mean, its variance is EXACTLY `v / R`, and the mean-square error against any target `z`
    is `(m - z)² + v / R` (the systematic part does not shrink with `R`);
  * measure-theoretic form: functions of separate coordinates of a product measure are mutually independent.
-/
namespace Props.C02
open Finset

/-! ### (2a) Jensen: the log-evidence is biased low -/

/-- `E log X ≤ log E X` for a positive random variable on a finite probability space: with `X = Ẑ` an unbiased
    evidence estimate (`E Ẑ = Z`), the reported log-evidence satisfies `E log Ẑ ≤ log Z` — it is biased low -/
theorem C02_log_evidence_biased_low {ι : Type} [Fintype ι] (μ : ι → ℝ) (hμ : ∀ i, 0 ≤ μ i) (hμ1 : ∑ i, μ i = 1)
    (X : ι → ℝ) (hX : ∀ i, 0 < X i) :
    ∑ i, μ i * Real.log (X i) ≤ Real.log (∑ i, μ i * X i) := by
  have h := strictConcaveOn_log_Ioi.concaveOn.le_map_sum (t := Finset.univ) (w := μ) (p := X)
    (fun i _ => hμ i) hμ1 (fun i _ => hX i)
  simpa [smul_eq_mul] using h

/-- non-vacuity, and the bias is STRICT as soon as the estimate is not constant: `μ = (1/2,1/2)`, `X = (1,4)` gives
    `E log X = log 2 < log (5/2) = log E X` -/
example : ∑ i, (![1/2, 1/2] : Fin 2 → ℝ) i * Real.log ((![1, 4] : Fin 2 → ℝ) i)
    < Real.log (∑ i, (![1/2, 1/2] : Fin 2 → ℝ) i * (![1, 4] : Fin 2 → ℝ) i) := by
  have h4 : Real.log 4 = 2 * Real.log 2 := by
    rw [show (4 : ℝ) = 2 ^ 2 by norm_num, Real.log_pow]; norm_num
  simp only [Fin.sum_univ_two, Matrix.cons_val_zero, Matrix.cons_val_one, Real.log_one, h4]
  have : Real.log 2 < Real.log (1 / 2 * 1 + 1 / 2 * 4) := Real.log_lt_log (by norm_num) (by norm_num)
  linarith

example : ∑ i, (![1/2, 1/2] : Fin 2 → ℝ) i * Real.log ((![1, 4] : Fin 2 → ℝ) i)
    ≤ Real.log (∑ i, (![1/2, 1/2] : Fin 2 → ℝ) i * (![1, 4] : Fin 2 → ℝ) i) :=
  C02_log_evidence_biased_low _ (by intro i; fin_cases i <;> norm_num) (by norm_num [Fin.sum_univ_two]) _
    (by intro i; fin_cases i <;> norm_num)

/-! ### (2b) independent runs: the `1/R` law on a finite tape space -/

section helpers
variable {ι T : Type} [Fintype ι] [DecidableEq ι] [Fintype T]

/-- Fubini on a finite product -/
theorem runs_sum_pi_prod (F : ι → T → ℝ) : ∑ x : ι → T, ∏ i, F i (x i) = ∏ i, ∑ t, F i t := by
  rw [Finset.prod_univ_sum, Fintype.piFinset_univ]

/-- the product law of the tapes has total mass one -/
theorem runs_law_total (μ : T → ℝ) (hμ1 : ∑ t, μ t = 1) : ∑ ω : ι → T, ∏ r, μ (ω r) = 1 := by
  rw [runs_sum_pi_prod (fun _ t => μ t)]
  simp [hμ1]

/-- a function of ONE run's tape has its one-run expectation -/
theorem runs_law_coord (μ : T → ℝ) (hμ1 : ∑ t, μ t = 1) (g : T → ℝ) (j : ι) :
    ∑ ω : ι → T, (∏ r, μ (ω r)) * g (ω j) = ∑ t, μ t * g t := by
  have h1 : ∀ x : ι → T, (∏ i, μ (x i)) * g (x j) = ∏ i, (μ (x i) * if i = j then g (x i) else 1) := by
    intro x
    rw [Finset.prod_mul_distrib, Finset.prod_ite_eq' Finset.univ j (fun i => g (x i))]
    simp
  simp_rw [h1]
  rw [runs_sum_pi_prod (fun i t => μ t * if i = j then g t else 1)]
  rw [Fintype.prod_eq_single j]
  · simp
  · intro i hij
    simp [hij, hμ1]

/-- functions of two DIFFERENT runs' tapes are uncorrelated: the expectation of the product factorises -/
theorem runs_law_pair_ne (μ : T → ℝ) (hμ1 : ∑ t, μ t = 1) (a b : T → ℝ) (r s : ι) (hrs : r ≠ s) :
    ∑ ω : ι → T, (∏ i, μ (ω i)) * (a (ω r) * b (ω s)) = (∑ t, μ t * a t) * (∑ t, μ t * b t) := by
  have h1 : ∀ x : ι → T, (∏ i, μ (x i)) * (a (x r) * b (x s))
      = ∏ i, (μ (x i) * (if i = r then a (x i) else 1) * (if i = s then b (x i) else 1)) := by
    intro x
    rw [Finset.prod_mul_distrib, Finset.prod_mul_distrib,
      Finset.prod_ite_eq' Finset.univ r (fun i => a (x i)),
      Finset.prod_ite_eq' Finset.univ s (fun i => b (x i))]
    simp [mul_assoc]
  simp_rw [h1]
  rw [runs_sum_pi_prod (fun i t => μ t * (if i = r then a t else 1) * (if i = s then b t else 1))]
  rw [Fintype.prod_eq_mul r s hrs]
  · simp [hrs, hrs.symm]
  · intro i hi
    simp [hi.1, hi.2, hμ1]

/-- same run twice: the expectation of the product is the one-run expectation of the product -/
theorem runs_law_pair_eq (μ : T → ℝ) (hμ1 : ∑ t, μ t = 1) (a b : T → ℝ) (r : ι) :
    ∑ ω : ι → T, (∏ i, μ (ω i)) * (a (ω r) * b (ω r)) = ∑ t, μ t * (a t * b t) :=
  runs_law_coord μ hμ1 (fun t => a t * b t) r

end helpers

section runs
variable {T : Type} [Fintype T]

/-- the mean of `R` independent runs is unbiased for the one-run mean `m` -/
theorem C02_mean_of_runs_unbiased (μ : T → ℝ) (hμ1 : ∑ t, μ t = 1) (e : T → ℝ) (R : ℕ) (hR : 0 < R) :
    ∑ ω : Fin R → T, (∏ r, μ (ω r)) * ((1 / (R : ℝ)) * ∑ r, e (ω r)) = ∑ t, μ t * e t := by
  have hR0 : (R : ℝ) ≠ 0 := by exact_mod_cast hR.ne'
  have h1 : ∀ x : Fin R → T, (∏ i, μ (x i)) * ((1 / (R : ℝ)) * ∑ i, e (x i))
      = (1 / (R : ℝ)) * ∑ j, (∏ i, μ (x i)) * e (x j) := by
    intro x
    rw [Finset.mul_sum, Finset.mul_sum, Finset.mul_sum]
    refine Finset.sum_congr rfl fun j _ => ?_
    ring
  simp_rw [h1]
  rw [← Finset.mul_sum, Finset.sum_comm]
  simp_rw [runs_law_coord μ hμ1 e]
  rw [Finset.sum_const, Finset.card_univ, Fintype.card_fin, nsmul_eq_mul]
  field_simp

/-- second moment of a centred sum of independent runs: `E (Σ_r d(ω_r))² = R · E d²` when `E d = 0` -/
theorem runs_centred_sum_sq (μ : T → ℝ) (hμ1 : ∑ t, μ t = 1) (d : T → ℝ) (hd : ∑ t, μ t * d t = 0) (R : ℕ) :
    ∑ ω : Fin R → T, (∏ r, μ (ω r)) * (∑ r, d (ω r)) ^ 2 = (R : ℝ) * ∑ t, μ t * d t ^ 2 := by
  have h1 : ∀ x : Fin R → T, (∏ i, μ (x i)) * (∑ r, d (x r)) ^ 2
      = ∑ r, ∑ s, (∏ i, μ (x i)) * (d (x r) * d (x s)) := by
    intro x
    rw [sq, Finset.sum_mul_sum, Finset.mul_sum]
    refine Finset.sum_congr rfl fun r _ => ?_
    rw [Finset.mul_sum]
  simp_rw [h1]
  rw [Finset.sum_comm]
  have h2 : ∀ r : Fin R, ∑ ω : Fin R → T, ∑ s, (∏ i, μ (ω i)) * (d (ω r) * d (ω s)) = ∑ t, μ t * d t ^ 2 := by
    intro r
    rw [Finset.sum_comm]
    rw [Finset.sum_eq_single r]
    · rw [runs_law_pair_eq μ hμ1 d d r]
      refine Finset.sum_congr rfl fun t _ => ?_
      ring
    · intro s _ hsr
      rw [runs_law_pair_ne μ hμ1 d d r s (Ne.symm hsr), hd]
      ring
    · intro h; exact absurd (Finset.mem_univ r) h
  simp_rw [h2]
  rw [Finset.sum_const, Finset.card_univ, Fintype.card_fin, nsmul_eq_mul]

/-- the variance of the mean of `R` independent runs is EXACTLY the one-run variance divided by `R` -/
theorem C02_mean_of_runs_variance (μ : T → ℝ) (hμ1 : ∑ t, μ t = 1) (e : T → ℝ) (R : ℕ) (hR : 0 < R) :
    ∑ ω : Fin R → T, (∏ r, μ (ω r)) * ((1 / (R : ℝ)) * ∑ r, e (ω r) - ∑ t, μ t * e t) ^ 2
      = (∑ t, μ t * (e t - ∑ t', μ t' * e t') ^ 2) / R := by
  have hR0 : (R : ℝ) ≠ 0 := by exact_mod_cast hR.ne'
  set m : ℝ := ∑ t, μ t * e t with hm
  have hd : ∑ t, μ t * (e t - m) = 0 := by
    simp_rw [mul_sub]
    rw [Finset.sum_sub_distrib, ← Finset.sum_mul, hμ1, ← hm]
    ring
  have h1 : ∀ x : Fin R → T, (∏ i, μ (x i)) * ((1 / (R : ℝ)) * ∑ r, e (x r) - m) ^ 2
      = (1 / (R : ℝ)) ^ 2 * ((∏ i, μ (x i)) * (∑ r, (e (x r) - m)) ^ 2) := by
    intro x
    rw [Finset.sum_sub_distrib, Finset.sum_const, Finset.card_univ, Fintype.card_fin, nsmul_eq_mul]
    field_simp
  simp_rw [h1]
  rw [← Finset.mul_sum, runs_centred_sum_sq μ hμ1 (fun t => e t - m) hd R]
  field_simp

/-- mean-square error of the mean of `R` independent runs against ANY target `z`: the systematic part `(m - z)²`
    does not shrink with `R`, the random part is `v / R` (RMS ∝ 1/√R) -/
theorem C02_mean_of_runs_mse (μ : T → ℝ) (hμ1 : ∑ t, μ t = 1) (e : T → ℝ) (R : ℕ) (hR : 0 < R) (z : ℝ) :
    ∑ ω : Fin R → T, (∏ r, μ (ω r)) * ((1 / (R : ℝ)) * ∑ r, e (ω r) - z) ^ 2
      = (∑ t, μ t * e t - z) ^ 2 + (∑ t, μ t * (e t - ∑ t', μ t' * e t') ^ 2) / R := by
  set m : ℝ := ∑ t, μ t * e t with hm
  have h1 : ∀ x : Fin R → T, (∏ i, μ (x i)) * ((1 / (R : ℝ)) * ∑ r, e (x r) - z) ^ 2
      = (∏ i, μ (x i)) * ((1 / (R : ℝ)) * ∑ r, e (x r) - m) ^ 2
        + (2 * (m - z)) * ((∏ i, μ (x i)) * ((1 / (R : ℝ)) * ∑ r, e (x r)))
        + ((m - z) ^ 2 - 2 * (m - z) * m) * (∏ i, μ (x i)) := by
    intro x; ring
  simp_rw [h1]
  rw [Finset.sum_add_distrib, Finset.sum_add_distrib, ← Finset.mul_sum, ← Finset.mul_sum,
    C02_mean_of_runs_variance μ hμ1 e R hR, C02_mean_of_runs_unbiased μ hμ1 e R hR,
    runs_law_total μ hμ1, ← hm]
  ring

end runs

/-! non-vacuity of the `1/R` law: tape space `Fin 2`, law `(1/3, 2/3)`, reported value `e = (0, 3)` (one-run mean `2`,
    one-run variance `2`), `R = 4` runs -/

noncomputable def muEx : Fin 2 → ℝ := ![1/3, 2/3]
noncomputable def eEx : Fin 2 → ℝ := ![0, 3]

theorem muEx_sum : ∑ t, muEx t = 1 := by norm_num [muEx, Fin.sum_univ_two]
theorem muEx_mean : ∑ t, muEx t * eEx t = 2 := by norm_num [muEx, eEx, Fin.sum_univ_two]
theorem muEx_var : ∑ t, muEx t * (eEx t - 2) ^ 2 = 2 := by norm_num [muEx, eEx, Fin.sum_univ_two]

example : ∑ ω : Fin 4 → Fin 2, (∏ r, muEx (ω r)) * ((1 / ((4 : ℕ) : ℝ)) * ∑ r, eEx (ω r)) = 2 := by
  rw [C02_mean_of_runs_unbiased muEx muEx_sum eEx 4 (by norm_num), muEx_mean]

example : ∑ ω : Fin 4 → Fin 2, (∏ r, muEx (ω r)) * ((1 / ((4 : ℕ) : ℝ)) * ∑ r, eEx (ω r) - 2) ^ 2 = 1 / 2 := by
  have h := C02_mean_of_runs_variance muEx muEx_sum eEx 4 (by norm_num)
  rw [muEx_mean, muEx_var] at h
  rw [h]; norm_num

/-- against the target `z = 5/2` the systematic error `(2 - 5/2)² = 1/4` stays, whatever `R`; here `R = 4` -/
example : ∑ ω : Fin 4 → Fin 2, (∏ r, muEx (ω r)) * ((1 / ((4 : ℕ) : ℝ)) * ∑ r, eEx (ω r) - 5 / 2) ^ 2
    = 1 / 4 + 1 / 2 := by
  have h := C02_mean_of_runs_mse muEx muEx_sum eEx 4 (by norm_num) (5 / 2)
  rw [muEx_mean, muEx_var] at h
  rw [h]; norm_num

/-! ### (2c) measure-theoretic form: runs with separate tapes are independent -/

section measure
open MeasureTheory ProbabilityTheory

/-- the values reported by `R` runs, each a measurable function of ITS OWN coordinate of the product measure of the
    tapes, are mutually independent random variables (any tape space, not only finite) -/
theorem C02_runs_independent {T : Type*} [MeasurableSpace T] (μ : Measure T) [IsProbabilityMeasure μ] (R : ℕ)
    (f : T → ℝ) (hf : Measurable f) :
    iIndepFun (fun (r : Fin R) (ω : Fin R → T) => f (ω r)) (Measure.pi fun _ : Fin R => μ) :=
  iIndepFun_pi (μ := fun _ : Fin R => μ) (X := fun _ => f) (fun _ => hf.aemeasurable)

/-- non-vacuity: three runs on the real line with a Dirac tape law and `f = exp`; in particular any two are independent -/
example : iIndepFun (fun (r : Fin 3) (ω : Fin 3 → ℝ) => Real.exp (ω r)) (Measure.pi fun _ : Fin 3 => Measure.dirac 0) :=
  C02_runs_independent (Measure.dirac (0 : ℝ)) 3 Real.exp Real.measurable_exp

example : IndepFun (fun ω : Fin 3 → ℝ => Real.exp (ω 0)) (fun ω : Fin 3 → ℝ => Real.exp (ω 2))
    (Measure.pi fun _ : Fin 3 => Measure.dirac 0) :=
  (C02_runs_independent (Measure.dirac (0 : ℝ)) 3 Real.exp Real.measurable_exp).indepFun (by decide)

/-- general `1/R` law: under the product measure of the tapes the variance of the mean of `R` runs is the one-run
    variance divided by `R`, for any square-integrable reported value -/
theorem C02_runs_variance_general {T : Type*} [MeasurableSpace T] (μ : Measure T) [IsProbabilityMeasure μ] (R : ℕ)
    (hR : 0 < R) (f : T → ℝ) (hf : MemLp f 2 μ) :
    Var[fun ω : Fin R → T => (1 / (R : ℝ)) * ∑ r, f (ω r); Measure.pi fun _ : Fin R => μ] = Var[f; μ] / R := by
  have hR0 : (R : ℝ) ≠ 0 := by exact_mod_cast hR.ne'
  have h := variance_sum_pi (μ := fun _ : Fin R => μ) (X := fun _ => f) (fun _ => hf)
  have h2 : (fun ω : Fin R → T => (1 / (R : ℝ)) * ∑ r, f (ω r))
      = fun ω => (1 / (R : ℝ)) * (∑ i : Fin R, fun ω : Fin R → T => f (ω i)) ω := by
    funext ω; simp [Finset.sum_apply]
  rw [h2, variance_const_mul, h, Finset.sum_const, Finset.card_univ, Fintype.card_fin, nsmul_eq_mul]
  field_simp

/-- non-vacuity: ANY tape law on the real line, bounded reported value `sin`, five runs -/
example (μ : Measure ℝ) [IsProbabilityMeasure μ] :
    Var[fun ω : Fin 5 → ℝ => (1 / ((5 : ℕ) : ℝ)) * ∑ r, Real.sin (ω r); Measure.pi fun _ : Fin 5 => μ]
      = Var[Real.sin; μ] / (5 : ℕ) :=
  C02_runs_variance_general μ 5 (by norm_num) Real.sin
    (MemLp.of_bound Real.measurable_sin.aestronglyMeasurable 1
      (Filter.Eventually.of_forall fun x => by simpa [Real.norm_eq_abs] using Real.abs_sin_le_one x))

end measure

end Props.C02
