import TempestVerif.Props.C13Source
import TempestVerif.Props.C13Run
import TempestVerif.Drv.C13
/-
  C13 — the tables `Props/C13Source.lean` states its theorems about are the ones the other C13 theorems are about and the ones
  the compiled driver hands to the model (kept in a module of its own so that `Props/C13Source.lean` depends on no other
  `Props` module).
-/
namespace Props.C13.Src

theorem C13_src_runTable_same : runTable = Props.C13.runTable ∧ runTable = Drv.C13.runTable := ⟨rfl, rfl⟩

theorem C13_src_callTable_same : callTable = Props.C13.callTable ∧ callTable = Drv.C13.callTable := ⟨rfl, rfl⟩

end Props.C13.Src
