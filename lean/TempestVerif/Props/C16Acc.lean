import TempestVerif.Props.C16
/-
  C16, second pass — clause 2/3 in floating point: HOW CLOSE the computed fold is to the exact one.
  The `C16_round_*` theorems of `Props/C16.lean` deliberately assume nothing about the accuracy of the rounding.
  Here the accuracy is a named hypothesis
      H_acc(ε):  |rnd z − z| ≤ ε  for every z in [0,1]
  (binary64: ε = 2^-54, binary32: ε = 2^-25 — half an ulp of [1/2,1)), and the conclusion is what suites
  property-F / property-S check on the real code on every run (thresholds 2^-52 / 2^-23):
      |computed periodic − exact| ≤ ε,   |computed reflect − exact| ≤ 2ε.
  `gridR k` (round to the nearest multiple of 2^-k — which IS binary64 rounding on [1/2,1] for k = 53) is a
  `Rounding` satisfying H_acc(2^-(k+1)), so the hypotheses are jointly satisfiable by a genuinely inexact arithmetic.
-/
namespace Props.C16
open Model.Boundary

/-- accuracy hypothesis on a rounding: absolute error at most `ε` on the unit interval -/
def Hacc (r : Rounding) (ε : ℝ) : Prop := ∀ z : ℝ, 0 ≤ z → z ≤ 1 → |r.rnd z - z| ≤ ε

/-- computed wrap vs exact wrap -/
theorem C16_round_periodic_accuracy (r : Rounding) (ε : ℝ) (h : Hacc r ε) (x : ℝ) :
    |perR r x - periodic x| ≤ ε := by
  rw [perR_eq, periodic_eq_fract]
  exact h _ (Int.fract_nonneg x) (Int.fract_lt_one x).le

/-- computed reflection vs exact reflection (two roundings on the odd branch) -/
theorem C16_round_reflect_accuracy (r : Rounding) (ε : ℝ) (h : Hacc r ε) (x : ℝ) :
    |reflR r x - reflect x| ≤ 2 * ε := by
  have hf0 := Int.fract_nonneg x
  have hf1 := (Int.fract_lt_one x).le
  have e1 := h _ hf0 hf1
  have hε : 0 ≤ ε := le_trans (abs_nonneg _) e1
  rw [reflR_eq]
  rcases Int.emod_two_eq_zero_or_one ⌊x⌋ with hp | hp
  · rw [if_pos hp, reflect_even x hp]; linarith
  · have hne : ¬ (⌊x⌋ % 2 = 0) := by omega
    rw [if_neg hne, reflect_odd x hp]
    have hu := rnd_unit r _ hf0 hf1
    have e2 := h (1 - r.rnd (Int.fract x)) (by linarith [hu.2]) (by linarith [hu.1])
    have : r.rnd (1 - r.rnd (Int.fract x)) - (1 - Int.fract x) =
        (r.rnd (1 - r.rnd (Int.fract x)) - (1 - r.rnd (Int.fract x))) - (r.rnd (Int.fract x) - Int.fract x) := by ring
    rw [this]
    calc |(r.rnd (1 - r.rnd (Int.fract x)) - (1 - r.rnd (Int.fract x))) - (r.rnd (Int.fract x) - Int.fract x)|
        ≤ |r.rnd (1 - r.rnd (Int.fract x)) - (1 - r.rnd (Int.fract x))| + |r.rnd (Int.fract x) - Int.fract x| := abs_sub _ _
      _ ≤ 2 * ε := by linarith

/-- round to the nearest multiple of `2^-k` (ties up) -/
noncomputable def gridR (k : ℕ) : Rounding where
  rnd := fun x => (⌊x * 2 ^ k + 1 / 2⌋ : ℝ) / 2 ^ k
  mono := fun a b hab => by
    have hk : (0 : ℝ) < 2 ^ k := by positivity
    show (⌊a * 2 ^ k + 1 / 2⌋ : ℝ) / 2 ^ k ≤ (⌊b * 2 ^ k + 1 / 2⌋ : ℝ) / 2 ^ k
    apply div_le_div_of_nonneg_right _ hk.le
    exact_mod_cast Int.floor_mono (by nlinarith)
  idem := fun x => by
    have hk : (0 : ℝ) < 2 ^ k := by positivity
    show (⌊(⌊x * 2 ^ k + 1 / 2⌋ : ℝ) / 2 ^ k * 2 ^ k + 1 / 2⌋ : ℝ) / 2 ^ k = (⌊x * 2 ^ k + 1 / 2⌋ : ℝ) / 2 ^ k
    rw [div_mul_cancel₀ _ hk.ne']
    have : ⌊(⌊x * 2 ^ k + 1 / 2⌋ : ℝ) + 1 / 2⌋ = ⌊x * 2 ^ k + 1 / 2⌋ := by
      rw [Int.floor_eq_iff]; constructor <;> norm_num
    rw [this]
  rnd_zero := by
    show (⌊(0 : ℝ) * 2 ^ k + 1 / 2⌋ : ℝ) / 2 ^ k = 0
    have : ⌊(0 : ℝ) * 2 ^ k + 1 / 2⌋ = 0 := by rw [Int.floor_eq_iff]; constructor <;> norm_num
    rw [this]; simp
  rnd_one := by
    have hk : (0 : ℝ) < 2 ^ k := by positivity
    show (⌊(1 : ℝ) * 2 ^ k + 1 / 2⌋ : ℝ) / 2 ^ k = 1
    have : ⌊(1 : ℝ) * 2 ^ k + 1 / 2⌋ = (2 ^ k : ℤ) := by
      rw [Int.floor_eq_iff]; push_cast; constructor <;> linarith
    rw [this]; push_cast; exact div_self hk.ne'

/-- the grid rounding is accurate to half a grid step — everywhere, so in particular `Hacc` holds -/
theorem gridR_Hacc (k : ℕ) : Hacc (gridR k) (1 / 2 ^ (k + 1)) := by
  intro z _ _
  have hk : (0 : ℝ) < 2 ^ k := by positivity
  show |(⌊z * 2 ^ k + 1 / 2⌋ : ℝ) / 2 ^ k - z| ≤ 1 / 2 ^ (k + 1)
  have h1 := Int.floor_le (z * 2 ^ k + 1 / 2)
  have h2 := Int.lt_floor_add_one (z * 2 ^ k + 1 / 2)
  have e : (⌊z * 2 ^ k + 1 / 2⌋ : ℝ) / 2 ^ k - z = ((⌊z * 2 ^ k + 1 / 2⌋ : ℝ) - z * 2 ^ k) / 2 ^ k := by
    field_simp
  rw [e, abs_div, abs_of_pos hk, div_le_iff₀ hk, pow_succ]
  have : (1 : ℝ) / (2 ^ k * 2) * 2 ^ k = 1 / 2 := by field_simp
  rw [this, abs_le]
  constructor <;> linarith

/-- non-vacuity: the accuracy theorems instantiated with binary64's grid on [1/2,1] -/
example (x : ℝ) : |perR (gridR 53) x - periodic x| ≤ 1 / 2 ^ 54 :=
  C16_round_periodic_accuracy _ _ (gridR_Hacc 53) x
example (x : ℝ) : |reflR (gridR 53) x - reflect x| ≤ 2 * (1 / 2 ^ 54) :=
  C16_round_reflect_accuracy _ _ (gridR_Hacc 53) x
/-- … and the grid rounding is genuinely inexact: 1/3 is moved -/
example : (gridR 1).rnd (1 / 3) = 1 / 2 := by
  show (⌊(1 / 3 : ℝ) * 2 ^ 1 + 1 / 2⌋ : ℝ) / 2 ^ 1 = 1 / 2
  have : ⌊(1 / 3 : ℝ) * 2 ^ 1 + 1 / 2⌋ = 1 := by rw [Int.floor_eq_iff]; constructor <;> norm_num
  rw [this]; norm_num

end Props.C16
