import TempestVerif.Model.RngSites
import TempestVerif.Gen.Rng
import TempestVerif.Props.C09Run
import Mathlib.Tactic
/-
  C09, call-site level — the iteration program of `Model.RngSites` (every RNG call site of one sampler iteration, in
  program order, with adaptive control flow):
    * it never seeds the process-wide stream (so the run-level theorems of `Props/C09Run.lean` apply to the real
      iteration shape, for every `Numerics`);
    * what it requests from the process-wide stream is `iterReqs cfg obs` for the observables `obs` of that execution —
      the per-site draw counts as a function of the configuration (`iterValues`);
    * it requests at least `n_particles` values, hence at least one: the hypothesis "every iteration draws" of
      `C09_iteration_starts_distinct` is a theorem for this program.
-/
namespace Props.C09
open Model.RngRun Model.RngSites

variable {S V D M : Type}

theorem gkinds_bind {K R A : Type} (g : KGen K S V) (p : Prog K S V A) (f : A → Prog K S V R) (st : St S) :
    gkinds (run g (p.bind f) st).log =
      gkinds (run g p st).log ++ gkinds (run g (f (run g p st).res) (run g p st).st).log := by
  rw [run_bind_log, gkinds_append]

/-! ### the iteration never seeds -/

theorem seedFree_forEach {X Y : Type} (f : X → Prog Kind S V Y) (hf : ∀ x, SeedFree (f x)) (xs : List X) :
    SeedFree (forEach f xs) := by
  induction xs with
  | nil => exact .ret _
  | cons x xs ih => exact (hf x).bind fun y => ih.bind fun ys => .ret _

theorem seedFree_warmRedraw (c : Cfg) (nu : Numerics V D M) (d : D) (fuel k : Nat) (us : List V) :
    SeedFree (warmRedraw c nu d fuel k us : Prog Kind S V _) := by
  induction fuel generalizing k us with
  | zero => exact .ret _
  | succ f ih =>
    simp only [warmRedraw]
    split
    · exact (seedFree_drawN _ _).bind fun us' => ih _ us'
    · exact .ret _

theorem seedFree_warmIter (c : Cfg) (nu : Numerics V D M) (d : D) : SeedFree (warmIter c nu d : Prog Kind S V D) := by
  refine (seedFree_drawN _ _).bind fun us => (seedFree_warmRedraw c nu d _ _ us).bind fun r => ?_
  match r with
  | none => exact .ret _
  | some (k, us') =>
    simp only
    split
    · exact (seedFree_drawN _ _).bind fun _ => .ret _
    · exact .ret _

theorem seedFree_trainDraws (c : Cfg) (nu : Numerics V D M) (d : D) : SeedFree (trainDraws c nu d : Prog Kind S V _) := by
  unfold trainDraws
  split
  · refine SeedFree.bind ?_ fun _ => seedFree_forEach _ (fun n => seedFree_drawN _ _) _
    split
    · exact seedFree_hgmmFit _ _ _
    · exact .ret _
  · exact (seedFree_drawN _ _).bind fun _ => .ret _

theorem seedFree_resampleDraws (c : Cfg) : SeedFree (resampleDraws c : Prog Kind S V (List V)) := by
  unfold resampleDraws
  split
  · exact (C09_syst_unseeded_seedfree _).bind fun _ => .ret _
  · exact seedFree_drawN _ _

theorem seedFree_propose (c : Cfg) : SeedFree (propose c : Prog Kind S V _) := by
  unfold propose
  split
  · exact (seedFree_draw1 _).bind fun _ => (seedFree_drawN _ _).bind fun _ => .ret _
  · exact (seedFree_drawN _ _).bind fun _ => .ret _

theorem seedFree_proposeAll (c : Cfg) (n : Nat) : SeedFree (proposeAll c n : Prog Kind S V _) := by
  induction n with
  | zero => exact .ret _
  | succ n ih => exact (seedFree_propose c).bind fun _ => ih.bind fun _ => .ret _

theorem seedFree_mcmcLoop (c : Cfg) (nu : Numerics V D M) (m : M) (fuel : Nat) (d : D) :
    SeedFree (mcmcLoop c nu m fuel d : Prog Kind S V D) := by
  induction fuel generalizing d with
  | zero => exact (seedFree_proposeAll c _).bind fun _ => (seedFree_drawN _ _).bind fun _ => .ret _
  | succ f ih =>
    refine (seedFree_proposeAll c _).bind fun ps => (seedFree_drawN _ _).bind fun us => ?_
    split
    · exact .ret _
    · exact ih _

/-- **One sampler iteration never seeds the process-wide stream** — for every configuration (clustering on/off, both
    kernels, both resamplers), every data state and every numerics. -/
theorem C09_iteration_seedfree (c : Cfg) (nu : Numerics V D M) (fuel : Nat) (d : D) :
    SeedFree (iteration c nu fuel d : Prog Kind S V D) := by
  unfold iteration
  split
  · exact seedFree_warmIter c nu _
  · exact (seedFree_trainDraws c nu _).bind fun _ => (seedFree_resampleDraws c).bind fun _ =>
      (seedFree_mcmcLoop c nu _ fuel _).bind fun _ => .ret _

/-- **Writing checkpoints does not perturb the run**: an iteration that first saves a checkpoint leaves the same streams,
    the same data state and the same log as the iteration without the save (so a run with `save_every=k` is the run without) -/
theorem C09_saving_does_not_perturb (g : KGen Kind S V) (c : Cfg) (nu : Numerics V D M) (fuel : Nat) (saving : D → Bool)
    (d : D) (st : St S) :
    (run g (execIteration c nu fuel saving d) st).st = (run g (iteration c nu fuel d) st).st ∧
    (run g (execIteration c nu fuel saving d) st).res = (run g (iteration c nu fuel d) st).res ∧
    (run g (execIteration c nu fuel saving d) st).log = (run g (iteration c nu fuel d) st).log := by
  unfold execIteration
  split
  · obtain ⟨h1, h2, _⟩ := C09_save_reads_position (V := V) g d st
    rw [run_bind]
    simp only [h1, h2, List.nil_append, and_self]
  · exact ⟨rfl, rfl, rfl⟩

theorem C09_execIteration_seedfree (c : Cfg) (nu : Numerics V D M) (fuel : Nat) (saving : D → Bool) (d : D) :
    SeedFree (execIteration c nu fuel saving d : Prog Kind S V D) := by
  unfold execIteration
  split
  · exact (seedFree_saveState d).bind fun _ => C09_iteration_seedfree c nu fuel d
  · exact C09_iteration_seedfree c nu fuel d

/-! ### what each step requests -/

theorem gkinds_drawN (g : KGen Kind S V) (k : Kind) (n : Nat) (st : St S) :
    gkinds (run g (drawN k n) st).log = List.replicate n k := (run_drawN g k n st).2.2.1

theorem gkinds_forEach_drawN (g : KGen Kind S V) (rf : Nat) (xs : List Nat) (st : St S) :
    gkinds (run g (forEach (fun n => (drawN Kind.uniform (rf * n) : Prog Kind S V _)) xs) st).log =
      (xs.map fun n => List.replicate (rf * n) Kind.uniform).flatten := by
  induction xs generalizing st with
  | nil => simp [forEach, run, gkinds]
  | cons x xs ih => simp [forEach, gkinds_bind, gkinds_drawN, ih, run, gkinds]

theorem gkinds_trainDraws (g : KGen Kind S V) (c : Cfg) (nu : Numerics V D M) (d : D) (st : St S) :
    gkinds (run g (trainDraws c nu d) st).log =
      ((if c.clustering then nu.groups d else [nu.pool d]).map fun n =>
        List.replicate (c.resampleFactor * n) Kind.uniform).flatten := by
  unfold trainDraws
  by_cases hc : c.clustering = true
  · simp only [hc, if_true]
    rw [gkinds_bind, gkinds_forEach_drawN]
    by_cases hr : nu.refit d = true
    · simp [hr, (C09_hgmm_fit_global_untouched g Kind.uniform c.clusterInit (nu.fits d) st).2.1]
    · simp [hr, run, gkinds]
  · simp [hc, gkinds_bind, gkinds_drawN, run, gkinds]

theorem gkinds_resampleDraws (g : KGen Kind S V) (c : Cfg) (st : St S) :
    gkinds (run g (resampleDraws c) st).log = List.replicate (if c.syst then 1 else c.nParticles) Kind.uniform := by
  unfold resampleDraws
  by_cases hs : c.syst = true
  · simp [hs, systematicResample, draw1, Prog.bind, run, Out.cons, gkinds]
  · simp [hs, gkinds_drawN]

theorem gkinds_propose (g : KGen Kind S V) (c : Cfg) (st : St S) :
    gkinds (run g (propose c) st).log =
      (if c.tpcn then [Kind.gamma] else []) ++ List.replicate c.nDim Kind.normal := by
  unfold propose
  by_cases ht : c.tpcn = true
  · simp only [ht, if_true]
    rw [gkinds_bind, gkinds_bind, gkinds_drawN]
    simp [draw1, run, Out.cons, gkinds]
  · simp [ht, gkinds_bind, gkinds_drawN, run, gkinds]

theorem gkinds_proposeAll (g : KGen Kind S V) (c : Cfg) (n : Nat) (st : St S) :
    gkinds (run g (proposeAll c n) st).log =
      (List.replicate n ((if c.tpcn then [Kind.gamma] else []) ++ List.replicate c.nDim Kind.normal)).flatten := by
  induction n generalizing st with
  | zero => simp [proposeAll, run, gkinds]
  | succ n ih =>
    simp only [proposeAll, gkinds_bind, gkinds_propose, ih, List.replicate_succ, List.flatten_cons]
    simp [run, gkinds]

/-- the redraw loop of the warm-up: `j ≤ fuel` further batches, each `n_particles·n_dim` uniforms; the batch it keeps (if any)
    has index `k + j` and holds a finite draw -/
theorem gkinds_warmRedraw (g : KGen Kind S V) (c : Cfg) (nu : Numerics V D M) (d : D) (fuel k : Nat) (us : List V) (st : St S) :
    ∃ j, j ≤ fuel ∧
      gkinds (run g (warmRedraw c nu d fuel k us) st).log = List.replicate (j * (c.nParticles * c.nDim)) Kind.uniform ∧
      (∀ k' us', (run g (warmRedraw c nu d fuel k us) st).res = some (k', us') → k' = k + j ∧ (nu.infFin d k' us').2 ≠ 0) := by
  induction fuel generalizing k us st with
  | zero =>
    refine ⟨0, le_refl _, by simp [warmRedraw, run, gkinds], ?_⟩
    intro k' us' h
    simp only [warmRedraw, run] at h
    split at h
    · cases h
    · cases h; exact ⟨rfl, by assumption⟩
  | succ f ih =>
    by_cases hz : (nu.infFin d k us).2 = 0
    · obtain ⟨j, hj, hk, hres⟩ := ih (k + 1) (run g (drawN Kind.uniform (c.nParticles * c.nDim)) st).res
        (run g (drawN Kind.uniform (c.nParticles * c.nDim)) st).st
      refine ⟨j + 1, by omega, ?_, ?_⟩
      · simp only [warmRedraw, hz, if_true]
        rw [gkinds_bind, gkinds_drawN, hk, ← List.replicate_add]
        congr 1; ring
      · intro k' us' h
        simp only [warmRedraw, hz, if_true, run_bind_res] at h
        obtain ⟨e1, e2⟩ := hres k' us' h
        exact ⟨by omega, e2⟩
    · refine ⟨0, by omega, by simp [warmRedraw, hz, run, gkinds], ?_⟩
      intro k' us' h
      simp only [warmRedraw, hz, if_false, run] at h
      cases h; exact ⟨rfl, hz⟩

/-- one MCMC sweep requests `sweepReqs` -/
theorem gkinds_sweep (g : KGen Kind S V) (c : Cfg) {R : Type} (f : List (Option V × List V) → List V → Prog Kind S V R)
    (st : St S) :
    ∃ ps us st', gkinds (run g ((proposeAll c c.nParticles).bind fun ps => (drawN Kind.uniform c.nParticles).bind (f ps)) st).log
      = sweepReqs c ++ gkinds (run g (f ps us) st').log := by
  refine ⟨(run g (proposeAll c c.nParticles) st).res,
    (run g (drawN Kind.uniform c.nParticles) (run g (proposeAll c c.nParticles) st).st).res,
    (run g (drawN Kind.uniform c.nParticles) (run g (proposeAll c c.nParticles) st).st).st, ?_⟩
  rw [gkinds_bind, gkinds_bind, gkinds_proposeAll, gkinds_drawN, ← List.append_assoc]
  rfl

/-- the MCMC loop runs between 1 and `fuel + 1` sweeps, each requesting `sweepReqs` -/
theorem gkinds_mcmcLoop (g : KGen Kind S V) (c : Cfg) (nu : Numerics V D M) (m : M) (fuel : Nat) (d : D) (st : St S) :
    ∃ steps, 1 ≤ steps ∧ steps ≤ fuel + 1 ∧
      gkinds (run g (mcmcLoop c nu m fuel d) st).log = (List.replicate steps (sweepReqs c)).flatten := by
  induction fuel generalizing d st with
  | zero =>
    obtain ⟨ps, us, st', h⟩ := gkinds_sweep g c (fun ps us => (.ret (nu.mcmcStep d m ps us) : Prog Kind S V D)) st
    refine ⟨1, le_refl _, le_refl _, ?_⟩
    simp only [mcmcLoop]
    rw [h]
    simp [run, gkinds]
  | succ f ih =>
    obtain ⟨ps, us, st', h⟩ := gkinds_sweep g c (fun ps us =>
      (if nu.mcmcStop (nu.mcmcStep d m ps us) then .ret (nu.mcmcStep d m ps us)
        else mcmcLoop c nu m f (nu.mcmcStep d m ps us) : Prog Kind S V D)) st
    simp only [mcmcLoop]
    rw [h]
    by_cases hs : nu.mcmcStop (nu.mcmcStep d m ps us) = true
    · refine ⟨1, le_refl _, by omega, ?_⟩
      simp [hs, run, gkinds]
    · obtain ⟨k, hk1, hk2, hk⟩ := ih (nu.mcmcStep d m ps us) st'
      refine ⟨k + 1, by omega, by omega, ?_⟩
      simp [hs, hk, List.replicate_succ]

/-- **Per-site draw counts as a function of the configuration.**  Whatever the numerics and the generator, the requests
    one iteration makes of the process-wide stream are `iterReqs cfg obs`, where `obs` is what happened in that
    execution: a warm-up iteration with the number of batches it threw away for lack of a finite draw (at most `warmCap − 1`)
    and the (outside-support, inside-support) counts of the batch it kept, or an annealing iteration with its
    label-group sizes and its number of MCMC sweeps (between 1 and `fuel + 1`). -/
theorem C09_iteration_requests (g : KGen Kind S V) (c : Cfg) (nu : Numerics V D M) (fuel : Nat) (d : D) (st : St S) :
    (∃ disc nInf nFin, disc + 1 ≤ max c.warmCap 1 ∧ nu.isWarm (nu.reweight d) = true ∧
        gkinds (run g (iteration c nu fuel d) st).log = iterReqs c (.warm disc nInf nFin)) ∨
    (∃ steps, 1 ≤ steps ∧ steps ≤ fuel + 1 ∧ nu.isWarm (nu.reweight d) = false ∧
        gkinds (run g (iteration c nu fuel d) st).log =
          iterReqs c (.anneal (if c.clustering then nu.groups (nu.reweight d) else [nu.pool (nu.reweight d)]) steps)) := by
  by_cases hw : nu.isWarm (nu.reweight d) = true
  · left
    obtain ⟨_, hres, hk, _⟩ := run_drawN g Kind.uniform (c.nParticles * c.nDim) st
    obtain ⟨j, hj, hkr, hresr⟩ := gkinds_warmRedraw g c nu (nu.reweight d) (c.warmCap - 1) 0
      (run g (drawN Kind.uniform (c.nParticles * c.nDim)) st).res (run g (drawN Kind.uniform (c.nParticles * c.nDim)) st).st
    have hpre : ∀ (tail : List Kind),
        List.replicate (c.nParticles * c.nDim) Kind.uniform ++ (List.replicate (j * (c.nParticles * c.nDim)) Kind.uniform ++ tail)
          = List.replicate ((j + 1) * (c.nParticles * c.nDim)) Kind.uniform ++ tail := by
      intro tail
      rw [← List.append_assoc, ← List.replicate_add]
      congr 2; ring
    simp only [iteration, hw, if_true, warmIter]
    rw [gkinds_bind, hk, gkinds_bind, hkr]
    cases hr : (run g (warmRedraw c nu (nu.reweight d) (c.warmCap - 1) 0
        (run g (drawN Kind.uniform (c.nParticles * c.nDim)) st).res)
        (run g (drawN Kind.uniform (c.nParticles * c.nDim)) st).st).res with
    | none =>
      refine ⟨j, 0, 0, by omega, trivial, ?_⟩
      simp only [iterReqs]
      rw [hpre]
      simp [run, gkinds]
    | some p =>
      obtain ⟨k', us'⟩ := p
      obtain ⟨_, hfin⟩ := hresr k' us' hr
      refine ⟨j, (nu.infFin (nu.reweight d) k' us').1, (nu.infFin (nu.reweight d) k' us').2, by omega, trivial, ?_⟩
      simp only [iterReqs]
      rw [hpre]
      congr 1
      have hpos : 0 < (nu.infFin (nu.reweight d) k' us').2 := Nat.pos_of_ne_zero hfin
      by_cases hi : 0 < (nu.infFin (nu.reweight d) k' us').1
      · simp only [hi, if_true, hpos, and_self]
        rw [gkinds_bind, gkinds_drawN]; simp [run, gkinds]
      · simp [hi, run, gkinds]
  · right
    simp only [Bool.not_eq_true] at hw
    simp only [iteration, hw, Bool.false_eq_true, if_false]
    obtain ⟨k, hk1, hk2, hk⟩ := gkinds_mcmcLoop g c nu
      (nu.train (nu.reweight d) (run g (trainDraws c nu (nu.reweight d)) st).res) fuel
      (nu.resampled (nu.reweight d) (nu.train (nu.reweight d) (run g (trainDraws c nu (nu.reweight d)) st).res)
        (run g (resampleDraws c) (run g (trainDraws c nu (nu.reweight d)) st).st).res)
      (run g (resampleDraws c) (run g (trainDraws c nu (nu.reweight d)) st).st).st
    refine ⟨k, hk1, hk2, trivial, ?_⟩
    rw [gkinds_bind, gkinds_bind, gkinds_bind, gkinds_trainDraws, gkinds_resampleDraws, hk]
    simp [iterReqs, run, gkinds]

/-! ### counting -/

theorem length_flatten_replicate {α : Type} (n : Nat) (l : List α) : (List.replicate n l).flatten.length = n * l.length := by
  induction n with
  | zero => simp
  | succ n ih => simp [List.replicate_succ, ih]; ring

theorem sweepReqs_length (c : Cfg) :
    (sweepReqs c).length = c.nParticles * ((if c.tpcn then 1 else 0) + c.nDim) + c.nParticles := by
  unfold sweepReqs
  rw [List.length_append, length_flatten_replicate, List.length_append, List.length_replicate, List.length_replicate]
  by_cases h : c.tpcn = true <;> simp [h]

/-- the number of values requested is the closed form `iterValues` -/
theorem C09_iterReqs_length (c : Cfg) (o : Obs) : (iterReqs c o).length = iterValues c o := by
  cases o with
  | warm disc nInf nFin =>
    simp only [iterReqs, iterValues, List.length_append, List.length_replicate]
    split <;> simp
  | anneal groups steps =>
    simp only [iterReqs, iterValues, List.length_append, List.length_replicate, length_flatten_replicate,
      sweepReqs_length]
    congr 2
    induction groups with
    | nil => simp
    | cons x xs ih => simp [List.length_append, ih]; ring

/-- every iteration takes at least `n_particles` values from the process-wide stream -/
theorem C09_iterValues_ge (c : Cfg) (o : Obs) (hD : 1 ≤ c.nDim) (hsteps : ∀ gr k, o = .anneal gr k → 1 ≤ k) :
    c.nParticles ≤ iterValues c o := by
  cases o with
  | warm disc nInf nFin =>
    simp only [iterValues]
    have h1 : c.nParticles * 1 ≤ c.nParticles * c.nDim := Nat.mul_le_mul_left _ hD
    have h2 : 1 * (c.nParticles * c.nDim) ≤ (disc + 1) * (c.nParticles * c.nDim) := Nat.mul_le_mul_right _ (by omega)
    omega
  | anneal groups steps =>
    have h1 := hsteps groups steps rfl
    simp only [iterValues]
    have : 1 * (c.nParticles * ((if c.tpcn then 1 else 0) + c.nDim) + c.nParticles)
        ≤ steps * (c.nParticles * ((if c.tpcn then 1 else 0) + c.nDim) + c.nParticles) := Nat.mul_le_mul_right _ h1
    omega

/-- … so, with `n_particles ≥ 1` and `n_dim ≥ 1` (enforced by `SamplerConfig.validate`), EVERY iteration draws: the
    hypothesis `hdraws` of `C09_iteration_starts_distinct` holds for the real iteration shape -/
theorem C09_iteration_draws (g : KGen Kind S V) (c : Cfg) (nu : Numerics V D M) (fuel : Nat) (d : D) (st : St S)
    (hN : 1 ≤ c.nParticles) (hD : 1 ≤ c.nDim) :
    gkinds (run g (iteration c nu fuel d) st).log ≠ [] := by
  intro h
  have hlen : (gkinds (run g (iteration c nu fuel d) st).log).length = 0 := by rw [h]; rfl
  rcases C09_iteration_requests g c nu fuel d st with ⟨j, a, b, _, _, e⟩ | ⟨k, hk1, _, _, e⟩
  · rw [e, C09_iterReqs_length] at hlen
    have := C09_iterValues_ge c (.warm j a b) hD (by intro _ _ h; cases h)
    omega
  · rw [e, C09_iterReqs_length] at hlen
    have := C09_iterValues_ge c
      (.anneal (if c.clustering then nu.groups (nu.reweight d) else [nu.pool (nu.reweight d)]) k) hD
      (by intro _ _ h; cases h; exact hk1)
    omega

/-- the run-level "never replay" theorem instantiated with the real iteration shape: in a run of `n` iterations no two
    iterations start from the same generator state, provided the stream does not cycle within the run -/
theorem C09_sampler_iterations_never_replay (g : KGen Kind S V) (c : Cfg) (nu : Numerics V D M) (fuel : Nat)
    (hN : 1 ≤ c.nParticles) (hD : 1 ≤ c.nDim) (n : Nat) (d : D) (st : St S)
    (hnocycle : ∀ p q, p < q → q ≤ (gkinds (iterLogs g (iteration c nu fuel) n d st).flatten).length →
      advance g ((gkinds (iterLogs g (iteration c nu fuel) n d st).flatten).take p) st.glob ≠
        advance g ((gkinds (iterLogs g (iteration c nu fuel) n d st).flatten).take q) st.glob)
    (i j : Nat) (hij : i < j) (hj : j < n) :
    (iterStarts g (iteration c nu fuel) n d st)[i]? ≠ (iterStarts g (iteration c nu fuel) n d st)[j]? := by
  refine C09_iteration_starts_distinct g _ (C09_iteration_seedfree c nu fuel) n d st ?_ hnocycle i j hij hj
  intro l hl
  have : ∀ (n : Nat) (d : D) (st : St S), ∀ l ∈ iterLogs g (iteration c nu fuel) n d st, gkinds l ≠ [] := by
    intro n
    induction n with
    | zero => intro d st l hl; simp [iterLogs] at hl
    | succ n ih =>
      intro d st l hl
      simp only [iterLogs, List.mem_cons] at hl
      rcases hl with rfl | hl
      · exact C09_iteration_draws g c nu fuel d st hN hD
      · exact ih _ _ l hl
  exact this n d st l hl


/-! ### the model's call sites are the table's call sites -/

/-- the drawing call sites the programs of `Model.RngRun` / `Model.RngSites` mirror: (enclosing function, numpy call) -/
def modelledDraws : List (String × String) :=
  [("GaussianMixture._initialize_parameters", "self._rng.rand"),   -- gmmInits (first centre, remaining centres)
   ("BaseMCMCRunner.run", "np.random.rand"),                        -- mcmcLoop: accept uniforms
   ("TPCNRunner._propose", "np.random.gamma"),                      -- propose (tpCN)
   ("TPCNRunner._propose", "np.random.randn"),
   ("RWMRunner._propose", "np.random.randn"),                       -- propose (RWM)
   ("ModeStatistics.from_particles", "np.random.choice"),           -- trainDraws (clustering)
   ("ModeStatistics.from_global", "np.random.choice"),              -- trainDraws (no clustering)
   ("Mutator.run", "np.random.rand"),                               -- warmIter: prior draws
   ("Mutator.run", "np.random.choice"),                             -- warmIter: replacement picks
   ("Resampler.run", "np.random.choice"),                           -- resampleDraws (mult)
   ("systematic_resample", "np.random.random")]                     -- systematicResample (syst, posterior(resample=True))

/-- **No drawing call site outside the model, none modelled that does not exist**: the draw sites of the effect table
    regenerated from /repo are exactly the sites the model programs mirror.  A new `np.random.<f>` anywhere in the package
    breaks this obligation before any run is made. -/
theorem C09_model_sites_are_table_sites :
    (∀ s ∈ Gen.Rng.sites, s.kind = "draw" → (s.func, s.what) ∈ modelledDraws) ∧
    (∀ m ∈ modelledDraws, ∃ s ∈ Gen.Rng.sites, s.kind = "draw" ∧ (s.func, s.what) = m) := by decide

/-- **the adaptive call sites are the ones modelled by a loop**: the draw sites that sit lexically inside a `while` / `for`
    of their function are exactly the Metropolis uniforms (`mcmcLoop`), the k-means++ centres (`gmmInits`), the per-label
    resample (`forEach` over the label groups) and — since 959029e — the warm-up redraw (`warmRedraw`); and `Mutator.run` has
    exactly two `np.random.rand` sites (first batch, redraw) and one `np.random.choice` -/
theorem C09_loop_sites_are_modelled_loops :
    Gen.Rng.loopDrawSites =
      [("BaseMCMCRunner.run", "np.random.rand", "while"), ("GaussianMixture._initialize_parameters", "self._rng.rand", "for"),
       ("ModeStatistics.from_particles", "np.random.choice", "for"), ("Mutator.run", "np.random.rand", "while")] ∧
    ((Gen.Rng.sites.filter fun s => s.func == "Mutator.run" && s.kind == "draw").map fun s => s.what) =
      ["np.random.rand", "np.random.rand", "np.random.choice"] := by decide

/-- … and so are the seeding sites (`initFresh`, `systematicResample`), the save / restore pair (`saveState`, `loadState`)
    and the private-generator site (`gmmFit`) -/
theorem C09_model_seed_sites_are_table_sites :
    (Gen.Rng.sites.filter fun s => s.kind == "seed").map (fun s => (s.func, s.arg)) =
      [("SamplerCore._initialize_fresh", "config:random_state"), ("systematic_resample", "param:random_state")] ∧
    (Gen.Rng.sites.filter fun s => s.kind == "getstate").map (fun s => s.func) = ["SamplerCore.save_sampler_state"] ∧
    (Gen.Rng.sites.filter fun s => s.kind == "setstate").map (fun s => (s.func, s.arg)) =
      [("SamplerCore.load_sampler_state", "loaded:rng_state")] ∧
    (Gen.Rng.sites.filter fun s => s.kind == "private").map (fun s => (s.func, s.arg)) =
      [("GaussianMixture.fit", "attr:random_state")] := by decide

/-! ### non-vacuity: the scripted numerics on the counting generator -/

theorem advance_counter (ks : List Kind) (s : Nat) : advance counter ks s = s + ks.length := by
  induction ks generalizing s with
  | nil => rfl
  | cons k ks ih =>
    have h : (counter.next k s).1 = s + 1 := rfl
    simp only [advance, h, ih, List.length_cons]
    omega

/-- the no-cycle hypothesis is satisfiable: on the counting generator it holds for every run, so there
    `C09_sampler_iterations_never_replay` applies to every configuration with `n_particles, n_dim ≥ 1` -/
example (c : Cfg) (nu : Numerics Nat D M) (fuel : Nat) (hN : 1 ≤ c.nParticles) (hD : 1 ≤ c.nDim) (n : Nat) (d : D)
    (i j : Nat) (hij : i < j) (hj : j < n) :
    (iterStarts counter (iteration c nu fuel) n d ⟨0, none⟩)[i]? ≠ (iterStarts counter (iteration c nu fuel) n d ⟨0, none⟩)[j]? := by
  refine C09_sampler_iterations_never_replay counter c nu fuel hN hD n d ⟨0, none⟩ ?_ i j hij hj
  intro p q hpq hq
  rw [advance_counter, advance_counter, List.length_take, List.length_take]
  omega

def cfgEx : Cfg := ⟨3, 2, true, false, true, 4, 1, 1000⟩
def warmEx : Script := ⟨true, 2, 1, 2, false, [], [], 0, 0⟩
def annealEx : Script := ⟨false, 0, 0, 0, true, [1, 2, 1], [2, 1], 3, 2⟩

example : gkinds (run counter (iteration cfgEx scripted 5 warmEx) ⟨0, none⟩).log = iterReqs cfgEx (.warm 2 1 2) := by decide
example : gkinds (run counter (iteration cfgEx scripted 5 annealEx) ⟨0, none⟩).log = iterReqs cfgEx (.anneal [2, 1] 2) := by
  decide
example : iterValues cfgEx (.anneal [2, 1] 2) = 4 * 3 + 3 + 2 * (3 * (1 + 2) + 3) := by decide
/-- two successive iterations: the second starts where the first stopped (position 19 = 3 batches of 3·2 prior draws, two of
    them discarded, + 1 replacement pick) -/
example : iterStarts counter (iteration cfgEx scripted 5) 2 warmEx ⟨0, none⟩ = [0, 19] := by decide
/-- the cap: with `warmCap = 2` and no finite draw ever, the iteration draws exactly 2 batches and takes no pick -/
example : gkinds (run counter (iteration { cfgEx with warmCap := 2 } scripted 5 { warmEx with disc := 9 }) ⟨0, none⟩).log
    = iterReqs cfgEx (.warm 1 0 0) := by decide
/-- the clustering fit inside the annealing iteration drew 1 + 2 + 1 numbers, all from the private generator -/
example : (pvals (run counter (iteration cfgEx scripted 5 annealEx) ⟨0, none⟩).log).length = 4 := by decide

end Props.C09
