import TempestVerif.Model.BoundaryPy
import TempestVerif.Props.C16
/-
  C16, second pass — the glue of `apply_boundary_conditions` / `check_bounds` (`Model/BoundaryPy.lean`:
  `None` arguments, column-at-a-time updates of 2-D arrays, the early exit of `check_bounds`, its two
  `np.all` passes, scalar-vs-vector results, and the call site in `BaseMCMCRunner.run`) IS the core model
  `Model/Boundary.lean` that all other C16 / C03 / C07 theorems are about.  Every theorem here holds for
  every scalar instance (`Float`, `Float32`, `Rat`, `ℝ`, `RR r`), so in particular for the executed ones.
-/
namespace Props.C16Py
open Model.Boundary Model.BoundaryPy

variable {α : Type} [Sc α]

/-- `None` is the empty index list -/
def idx (o : Option (List Nat)) : List Nat := match o with | none => [] | some l => l

omit [Sc α] in
theorem foldl_colModify_d1 (f : α → α) (l : List Nat) (u : List α) :
    l.foldl (fun v i => colModify i f v) (Arr.d1 u) = Arr.d1 (l.foldl (fun v i => v.modify i f) u) := by
  induction l generalizing u with
  | nil => rfl
  | cons a l ih => rw [List.foldl_cons]; exact ih (u.modify a f)

omit [Sc α] in
theorem foldl_colModify_d2 (f : α → α) (l : List Nat) (n : Nat) (us : List (List α)) :
    l.foldl (fun v i => colModify i f v) (Arr.d2 n us) =
      Arr.d2 n (us.map fun row => l.foldl (fun v i => v.modify i f) row) := by
  induction l generalizing us with
  | nil => simp
  | cons a l ih =>
    rw [List.foldl_cons]
    show List.foldl _ (Arr.d2 n (us.map fun row => row.modify a f)) l = _
    rw [ih, List.map_map]; rfl

omit [Sc α] in
theorem loop_d1 (o : Option (List Nat)) (f : α → α) (u : List α) :
    loop o f (Arr.d1 u) = Arr.d1 ((idx o).foldl (fun v i => v.modify i f) u) := by
  cases o with
  | none => rfl
  | some l => exact foldl_colModify_d1 f l u

omit [Sc α] in
theorem loop_d2 (o : Option (List Nat)) (f : α → α) (n : Nat) (us : List (List α)) :
    loop o f (Arr.d2 n us) = Arr.d2 n (us.map fun row => (idx o).foldl (fun v i => v.modify i f) row) := by
  cases o with
  | none => simp [loop, idx]
  | some l => exact foldl_colModify_d2 f l n us

/-- **1-D call**: `apply_boundary_conditions(u, periodic, reflective)` is the core `apply` (`None` = no index) -/
theorem C16_applyPy_d1 (per refl : Option (List Nat)) (u : List α) :
    applyPy per refl (Arr.d1 u) = Arr.d1 (apply (idx per) (idx refl) u) := by
  simp only [applyPy, loop_d1, apply]

/-- **2-D call**: updating whole columns `u[..., idx]`, index after index, is the 1-D map on every row -/
theorem C16_applyPy_d2 (per refl : Option (List Nat)) (n : Nat) (us : List (List α)) :
    applyPy per refl (Arr.d2 n us) = Arr.d2 n (apply2 (idx per) (idx refl) us) := by
  simp only [applyPy, loop_d2, apply2, List.map_map]; rfl

theorem special_eq (per refl : Option (List Nat)) (i : Nat) :
    special per refl i = ((idx per).contains i || (idx refl).contains i) := by
  cases per <;> cases refl <;> simp [special, idx]

theorem all_and_all {β : Type} (l : List β) (p q : β → Bool) :
    (l.all p && l.all q) = l.all fun i => p i && q i := by
  induction l with
  | nil => rfl
  | cons a l ih =>
    simp only [List.all_cons, ← ih]
    cases p a <;> cases q a <;> simp

/-- the two `np.all` passes over the strict indices are one pass of the conjunction, and the filter by
    `strict_indices` is the `if special then true` of the core model -/
theorem rowCheck_strictIdx (per refl : Option (List Nat)) (u : List α) :
    rowCheck (strictIdx per refl u.length) u = checkBounds (idx per) (idx refl) u := by
  unfold rowCheck strictIdx checkBounds
  rw [all_and_all, List.all_filter]
  apply List.all_congr rfl
  intro i
  rw [special_eq]
  cases h : ((idx per).contains i || (idx refl).contains i)
  · cases hu : u[i]? <;> simp [inUnit]
  · simp

theorem rowCheck_nil (u : List α) : rowCheck [] u = true := by simp [rowCheck]

/-- **1-D check**: `check_bounds` returns a scalar, equal to the core `checkBounds`; the early exit
    (`len(strict_indices) == 0`) agrees with the general formula -/
theorem C16_checkPy_d1 (per refl : Option (List Nat)) (u : List α) :
    checkPy per refl (Arr.d1 u) = Res.scalar (checkBounds (idx per) (idx refl) u) := by
  unfold checkPy
  simp only
  have h := rowCheck_strictIdx per refl u
  by_cases he : (strictIdx per refl u.length).isEmpty = true
  · rw [if_pos he]
    have : strictIdx per refl u.length = [] := List.isEmpty_iff.mp he
    rw [this, rowCheck_nil] at h
    rw [← h]
  · rw [if_neg he, h]

/-- **2-D check**: one flag per row (walker), each the core `checkBounds` of that row; in the early exit
    `np.ones(u.shape[0], dtype=bool)` is the same vector -/
theorem C16_checkPy_d2 (per refl : Option (List Nat)) (n : Nat) (us : List (List α))
    (hrows : ∀ row ∈ us, row.length = n) :
    checkPy per refl (Arr.d2 n us) = Res.vec (checkBounds2 (idx per) (idx refl) us) := by
  unfold checkPy checkBounds2
  simp only
  have h : ∀ row ∈ us, rowCheck (strictIdx per refl n) row = checkBounds (idx per) (idx refl) row := by
    intro row hr
    rw [← hrows row hr]; exact rowCheck_strictIdx per refl row
  by_cases he : (strictIdx per refl n).isEmpty = true
  · rw [if_pos he]
    have hnil : strictIdx per refl n = [] := List.isEmpty_iff.mp he
    congr 1
    apply List.ext_getElem
    · simp
    · intro i h1 h2
      have hm : us[i]'(by simpa using h2) ∈ us := List.getElem_mem _
      have := h _ hm
      rw [hnil, rowCheck_nil] at this
      simp [← this]
  · rw [if_neg he]
    congr 1
    exact List.map_congr_left h

/-- the result of a 2-D check always has exactly one entry per row — also in the early exit and for 0 rows
    (what `u_prime[~in_bounds] = …` at the call site needs) -/
theorem C16_checkPy_d2_shape (per refl : Option (List Nat)) (n : Nat) (us : List (List α)) :
    ∃ bs, checkPy per refl (Arr.d2 n us) = Res.vec bs ∧ bs.length = us.length := by
  unfold checkPy
  simp only
  by_cases he : (strictIdx per refl n).isEmpty = true
  · exact ⟨_, by rw [if_pos he], by simp⟩
  · exact ⟨_, by rw [if_neg he], by simp⟩

/-- **the call site** (`BaseMCMCRunner.run`, after fix 9001dc4): one 1-D fold per walker, ONE 2-D check, rejected
    walkers replaced by their current position — is, walker by walker, "fold; check the folded point; keep it if
    accepted, else the current point", i.e. exactly the per-walker form of `Model/Kernel.lean` (C03) and of
    `Props.C07Cube.C07_evaluated_points_in_cube` (C07). -/
theorem C16_proposeAll_rowwise (per refl : Option (List Nat)) (n : Nat) (cur raws : List (List α))
    (hraw : ∀ raw ∈ raws, raw.length = n) :
    proposeAll per refl n cur raws =
      some ((List.zip (raws.map (apply (idx per) (idx refl)))
              (List.zip ((raws.map (apply (idx per) (idx refl))).map (checkBounds (idx per) (idx refl))) cur)).map
                (fun t => if t.2.1 then t.1 else t.2.2),
            (raws.map (apply (idx per) (idx refl))).map (checkBounds (idx per) (idx refl))) := by
  unfold proposeAll
  have hf : raws.map (proposeRow per refl) = raws.map (apply (idx per) (idx refl)) := by
    apply List.map_congr_left
    intro raw _
    unfold proposeRow
    rw [C16_applyPy_d1]
  simp only [hf]
  have hlen : ∀ row ∈ raws.map (apply (idx per) (idx refl)), row.length = n := by
    intro row hr
    obtain ⟨raw, hm, rfl⟩ := List.mem_map.mp hr
    rw [Props.C16.C16_apply_length_generic]; exact hraw raw hm
  rw [C16_checkPy_d2 per refl n _ hlen]
  simp [checkBounds2]

/-! ### non-vacuity (executed at `Rat`) -/
example : applyPy (some [0]) none (Arr.d2 2 [[(5/2 : Rat), 3], [-1/4, 7]]) = Arr.d2 2 [[1/2, 3], [3/4, 7]] := by decide +kernel
example : checkPy (some [0]) (some [1]) (Arr.d2 2 [[(5 : Rat), -3], [0, 0]]) = Res.vec [true, true] := by decide +kernel
example : checkPy none none (Arr.d1 [(1/2 : Rat), 3/2]) = Res.scalar false := by decide +kernel
example : proposeAll none (some [0]) 2 [[(1/4 : Rat), 1/4], [1/2, 1/2]] [[5/4, 1/3], [1/8, 9/8]] =
    some ([[3/4, 1/3], [1/2, 1/2]], [true, false]) := by decide +kernel

end Props.C16Py
