import TempestVerif.Props.C19Twin
import TempestVerif.Model.StudentModes
/-
  C19, clause audit — from the weighted particles to the degrees of freedom the kernel reads
  (`Model/StudentModes.lean`: `ModeStatistics.from_global / from_particles`, the four paths of `Trainer.run`, the hand-off
  to `TPCNRunner`), tied to the real code by suites `modes-F`, `trainer-dof-paths`, `kernel-handoff`, `dof-fallback`.

  * "Non-finite degrees of freedom are replaced by the configured fallback before they reach the kernel", on EVERY path:
    `C19_fitOne_dof`, `C19_trainer_dofs` (each stored dof is `applyFallback fb` of what a fit returned, or the configured
    value itself on the `beta = 0` path), `C19_kernel_dof_finite` (whatever index the kernel reads with).
    These hold for every scalar type and every fit function.
  * equivariance of the WHOLE construction (resampling included) under coordinate permutation × per-coordinate scaling ×
    translation of the particles: the resampling probabilities and the drawn indices do not depend on the positions, the
    gather commutes with a row-wise map, and the fit is equivariant (`C19_fitF_equivariant`):
    `C19_construction_equivariant_generic` (any scalar type, given an equivariant fit), `C19_fromGlobal_equivariant`,
    `C19_fromParticles_equivariant` (the executable model at `ℝ`, the fit being `fitF` with the modelled `opt_nu` and median).
-/
namespace Props.C19
open Model.Student Model.StudentModes

/-! ### the fallback, on every path (any scalar type, any fit) -/

section Generic
variable {α : Type} [Sc α]

/-- what one resample–fit–fallback step stores is the fit's answer with `applyFallback fb` applied to its dof -/
theorem C19_fitOne_dof (fitFn : Mat α → Option (FitOut α)) (fb : α) (rf : ℕ) (uc : Mat α) (p us : List α)
    (o : FitOut α) (us' : List α) (h : fitOne fitFn fb rf uc p us = some (o, us')) :
    ∃ rows o0, fitFn rows = some o0 ∧ o = ⟨o0.mu, o0.sigma, applyFallback fb o0.dof⟩ ∧ o.dof.isFinite = true := by
  unfold fitOne at h
  cases h1 : Model.Resample.multinomial p (us.take (uc.length * rf)) with
  | none => simp [h1] at h
  | some idx =>
    cases h2 : gather uc idx with
    | none => simp [h1, h2] at h
    | some ur =>
      cases h3 : fitFn ur with
      | none => simp [h1, h2, h3] at h
      | some o0 =>
        simp [h1, h2, h3] at h
        refine ⟨ur, o0, h3, h.1.symm, ?_⟩
        rw [← h.1]
        cases o0.dof <;> simp [applyFallback, Dof.isFinite]

theorem clusterLoop_dofs (u : Mat α) (wn : List α) (labels : List ℕ) (fb : α) (rf : ℕ) :
    ∀ (labs : List ℕ) (fits : List (Mat α → Option (FitOut α))) (us : List α) (os : List (FitOut α)),
      clusterLoop u wn labels fb rf labs fits us = some os →
      os.length = labs.length ∧ ∀ o ∈ os, o.dof.isFinite = true ∧
        ∃ fitFn ∈ fits, ∃ rows o0, fitFn rows = some o0 ∧ o.dof = applyFallback fb o0.dof := by
  intro labs
  induction labs with
  | nil => intro fits us os h; simp [clusterLoop] at h; subst h; simp
  | cons lab rest ih =>
    intro fits us os h
    cases fits with
    | nil => simp [clusterLoop] at h
    | cons fitFn fits =>
      simp only [clusterLoop] at h
      cases h1 : gather u (Model.Modes.indicesOf labels lab) with
      | none => simp [h1] at h
      | some uc =>
        cases h2 : gather wn (Model.Modes.indicesOf labels lab) with
        | none => simp [h1, h2] at h
        | some wc =>
          cases h3 : fitOne fitFn fb rf uc (normalise wc) us with
          | none => simp [h1, h2, h3] at h
          | some ou =>
            obtain ⟨o, us'⟩ := ou
            cases h4 : clusterLoop u wn labels fb rf rest fits us' with
            | none => simp [h1, h2, h3, h4] at h
            | some os' =>
              simp [h1, h2, h3, h4] at h
              subst h
              obtain ⟨hl, hd⟩ := ih fits us' os' h4
              obtain ⟨rows, o0, hf, ho, hfin⟩ := C19_fitOne_dof fitFn fb rf uc _ us o us' h3
              refine ⟨by simp [hl], ?_⟩
              intro o' ho'
              simp only [List.mem_cons] at ho'
              rcases ho' with rfl | ho'
              · exact ⟨hfin, fitFn, by simp, rows, o0, hf, by rw [ho]⟩
              · obtain ⟨h5, f', hf', rest'⟩ := hd o' ho'
                exact ⟨h5, f', by simp [hf'], rest'⟩

/-- **every path of `Trainer.run`.**  Whatever branch is taken (beta = 0 dummy, fit + predict, predict only, no clustering),
    whatever the fits return (finite, `inf`, NaN), every degrees-of-freedom entry of the `ModeStatistics` produced is finite:
    it is the configured `Trainer.DOF_FALLBACK` itself (dummy path) or `applyFallback DOF_FALLBACK` of what a fit returned -/
theorem C19_trainer_dofs (path : Path) (fitFns : List (Mat α → Option (FitOut α))) (d : ℕ) (u : Mat α) (w : List α)
    (labels : List ℕ) (cfgFb : α) (us : List α) (ms : MS α)
    (h : trainerRun path fitFns d u w labels cfgFb us = .ok ms) :
    ∀ t ∈ ms.dofs, t.isFinite = true ∧
      (t = .fin cfgFb ∨ ∃ fitFn ∈ fitFns, ∃ rows o0, fitFn rows = some o0 ∧ t = applyFallback cfgFb o0.dof) := by
  have hpart : ∀ ms : MS α, fromParticles fitFns u w labels cfgFb 4 us = .ok ms →
      ∀ t ∈ ms.dofs, t.isFinite = true ∧
        (t = .fin cfgFb ∨ ∃ fitFn ∈ fitFns, ∃ rows o0, fitFn rows = some o0 ∧ t = applyFallback cfgFb o0.dof) := by
    intro ms h t ht
    unfold fromParticles at h
    split_ifs at h
    cases hc : clusterLoop u (normalise w) labels cfgFb 4 (Model.Modes.uniqueSorted labels) fitFns us with
    | none => simp [hc] at h
    | some os =>
      simp [hc] at h
      subst h
      simp only [List.mem_map] at ht
      obtain ⟨o, ho, rfl⟩ := ht
      obtain ⟨h1, f, hf, rows, o0, h2, h3⟩ := (clusterLoop_dofs u _ labels cfgFb 4 _ fitFns us os hc).2 o ho
      exact ⟨h1, Or.inr ⟨f, hf, rows, o0, h2, h3⟩⟩
  cases path with
  | dummy =>
    simp only [trainerRun, Built.ok.injEq] at h
    subst h
    intro t ht
    simp only [List.mem_singleton] at ht
    subst ht
    exact ⟨rfl, Or.inl rfl⟩
  | fitPredict => exact hpart ms h
  | predictOnly => exact hpart ms h
  | global =>
    cases fitFns with
    | nil => simp [trainerRun] at h
    | cons fitFn rest =>
      simp only [trainerRun] at h
      unfold fromGlobal at h
      split_ifs at h
      cases hf : fitOne fitFn cfgFb 4 u (normalise w) us with
      | none => simp [hf] at h
      | some ou =>
        obtain ⟨o, us'⟩ := ou
        simp [hf] at h
        subst h
        obtain ⟨rows, o0, h1, h2, h3⟩ := C19_fitOne_dof fitFn cfgFb 4 u _ us o us' hf
        intro t ht
        simp only [List.mem_singleton] at ht
        subst ht
        exact ⟨h3, Or.inr ⟨fitFn, by simp, rows, o0, h1, by rw [h2]⟩⟩

/-- **before they reach the kernel**: whatever mode index the tpCN runner reads `degrees_of_freedom` with, the value is finite -/
theorem C19_kernel_dof_finite (path : Path) (fitFns : List (Mat α → Option (FitOut α))) (d : ℕ) (u : Mat α) (w : List α)
    (labels : List ℕ) (cfgFb : α) (us : List α) (ms : MS α)
    (h : trainerRun path fitFns d u w labels cfgFb us = .ok ms) (i : ℕ) (t : Dof α) (ht : kernelDof ms i = some t) :
    t.isFinite = true :=
  (C19_trainer_dofs path fitFns d u w labels cfgFb us ms h t (List.mem_of_getElem? ht)).1

/-- the branch of `Trainer.run` is a function of four booleans; the `ModeStatistics.from_global` branch is taken exactly
    when clustering is off and beta ≠ 0 -/
theorem trainerPath_global_iff (bz cl oc ft : Bool) : trainerPath bz cl oc ft = .global ↔ (bz = false ∧ cl = false) := by
  cases bz <;> cases cl <;> cases oc <;> cases ft <;> simp [trainerPath]

theorem trainerPath_dummy_iff (bz cl oc ft : Bool) : trainerPath bz cl oc ft = .dummy ↔ bz = true := by
  cases bz <;> cases cl <;> cases oc <;> cases ft <;> simp [trainerPath]

end Generic

/-! ### equivariance of the whole construction, given an equivariant fit (any scalar type) -/

section Equivariance
variable {α : Type} [Sc α]

/-- image of a fit result: location and scale transformed, degrees of freedom untouched -/
def mapOut (T : List α → List α) (TS : Mat α → Mat α) (o : FitOut α) : FitOut α := ⟨T o.mu, TS o.sigma, o.dof⟩

def mapBuilt (T : List α → List α) (TS : Mat α → Mat α) : Built α → Built α
  | .ok ms => .ok ⟨ms.means.map T, ms.covs.map TS, ms.dofs, ms.labels⟩
  | .valueError => .valueError
  | .raised => .raised

theorem gather_map {β γ : Type} (g : β → γ) (a : List β) (idx : List ℕ) :
    gather (a.map g) idx = (gather a idx).map (List.map g) := by
  unfold gather
  induction idx with
  | nil => rfl
  | cons i rest ih =>
    rw [List.mapM_cons, List.mapM_cons, ih, List.getElem?_map]
    cases a[i]? <;> cases List.mapM (fun i => a[i]?) rest <;> rfl

theorem gather_mem {β : Type} (a : List β) (idx : List ℕ) (rows : List β) (h : gather a idx = some rows) :
    ∀ r ∈ rows, r ∈ a := by
  unfold gather at h
  induction idx generalizing rows with
  | nil => simp at h; subst h; simp
  | cons i rest ih =>
    rw [List.mapM_cons] at h
    cases h1 : a[i]? with
    | none => simp [h1] at h
    | some r0 =>
      cases h2 : List.mapM (fun i => a[i]?) rest with
      | none => simp [h1, h2] at h
      | some rs =>
        simp [h1, h2] at h
        subst h
        intro r hr
        simp only [List.mem_cons] at hr
        rcases hr with rfl | hr
        · exact List.mem_of_getElem? h1
        · exact ih rs h2 r hr

/-- the fit commutes with the row map `T` on every sample drawn from the rows `u` -/
def FitEquivariantOn (fitFn : Mat α → Option (FitOut α)) (T : List α → List α) (TS : Mat α → Mat α) (u : Mat α) : Prop :=
  ∀ rows : Mat α, (∀ r ∈ rows, r ∈ u) → fitFn (rows.map T) = (fitFn rows).map (mapOut T TS)

theorem fitOne_equivariant (fitFn : Mat α → Option (FitOut α)) (T : List α → List α) (TS : Mat α → Mat α) (fb : α)
    (rf : ℕ) (uc : Mat α) (p us : List α) (hfit : FitEquivariantOn fitFn T TS uc) :
    fitOne fitFn fb rf (uc.map T) p us =
      (fitOne fitFn fb rf uc p us).map fun ou => (mapOut T TS ou.1, ou.2) := by
  unfold fitOne
  simp only [List.length_map]
  cases h1 : Model.Resample.multinomial p (us.take (uc.length * rf)) with
  | none => simp
  | some idx =>
    simp only [Option.bind_eq_bind, Option.bind_some, gather_map]
    cases h2 : gather uc idx with
    | none => simp
    | some ur =>
      simp only [Option.map_some, Option.bind_some]
      rw [hfit ur (gather_mem uc idx ur h2)]
      cases fitFn ur with
      | none => simp
      | some o0 => simp [mapOut]

/-- **`from_global` commutes with every row-wise transformation of the particles under which the fit is equivariant**: the
    probabilities, the uniforms consumed and the indices drawn do not depend on the positions; same dof, same labels -/
theorem C19_fromGlobal_equivariant_generic (fitFn : Mat α → Option (FitOut α)) (T : List α → List α) (TS : Mat α → Mat α)
    (u : Mat α) (w : List α) (fb : α) (rf : ℕ) (us : List α) (hfit : FitEquivariantOn fitFn T TS u) :
    fromGlobal fitFn (u.map T) w fb rf us = mapBuilt T TS (fromGlobal fitFn u w fb rf us) := by
  unfold fromGlobal
  simp only [List.length_map]
  split_ifs
  · rfl
  · rw [fitOne_equivariant fitFn T TS fb rf u _ us hfit]
    cases fitOne fitFn fb rf u (normalise w) us with
    | none => rfl
    | some ou => simp [mapBuilt, mapOut]

theorem clusterLoop_equivariant (T : List α → List α) (TS : Mat α → Mat α) (u : Mat α) (wn : List α) (labels : List ℕ)
    (fb : α) (rf : ℕ) :
    ∀ (labs : List ℕ) (fits : List (Mat α → Option (FitOut α))) (us : List α),
      (∀ f ∈ fits, FitEquivariantOn f T TS u) →
      clusterLoop (u.map T) wn labels fb rf labs fits us =
        (clusterLoop u wn labels fb rf labs fits us).map (List.map (mapOut T TS)) := by
  intro labs
  induction labs with
  | nil => intro fits us _; simp [clusterLoop]
  | cons lab rest ih =>
    intro fits us hf
    cases fits with
    | nil => simp [clusterLoop]
    | cons fitFn fits =>
      simp only [clusterLoop, gather_map]
      cases h1 : gather u (Model.Modes.indicesOf labels lab) with
      | none => simp
      | some uc =>
        simp only [Option.map_some, Option.bind_eq_bind, Option.bind_some]
        cases h2 : gather wn (Model.Modes.indicesOf labels lab) with
        | none => simp
        | some wc =>
          simp only [Option.bind_some]
          have hsub : FitEquivariantOn fitFn T TS uc := fun rows hrows =>
            hf fitFn (by simp) rows fun r hr => gather_mem u _ uc h1 r (hrows r hr)
          rw [fitOne_equivariant fitFn T TS fb rf uc _ us hsub]
          cases fitOne fitFn fb rf uc (normalise wc) us with
          | none => simp
          | some ou =>
            obtain ⟨o, us'⟩ := ou
            simp only [Option.map_some, Option.bind_some]
            rw [ih fits us' (fun f hf' => hf f (by simp [hf']))]
            cases clusterLoop u wn labels fb rf rest fits us' with
            | none => simp
            | some os => simp

/-- **`from_particles` commutes with the same transformations**: same clusters (the labels are not touched), same
    resampling, every mode transformed, same degrees of freedom and stored labels -/
theorem C19_fromParticles_equivariant_generic (fitFns : List (Mat α → Option (FitOut α))) (T : List α → List α)
    (TS : Mat α → Mat α) (u : Mat α) (w : List α) (labels : List ℕ) (fb : α) (rf : ℕ) (us : List α)
    (hfit : ∀ f ∈ fitFns, FitEquivariantOn f T TS u) :
    fromParticles fitFns (u.map T) w labels fb rf us = mapBuilt T TS (fromParticles fitFns u w labels fb rf us) := by
  unfold fromParticles
  simp only [List.length_map]
  split_ifs
  · rfl
  · rw [clusterLoop_equivariant T TS u _ labels fb rf _ fitFns us hfit]
    cases clusterLoop u (normalise w) labels fb rf (Model.Modes.uniqueSorted labels) fitFns us with
    | none => rfl
    | some os =>
      simp only [Option.map_some, mapBuilt, List.map_map]
      congr 1

end Equivariance

/-! ### … and the fit IS equivariant: the executable construction at `ℝ` with `fitF` inside -/

section Real
open Matrix
variable {d : ℕ}

/-- `fit_mvstud(rows)` the way `modes.py` calls it (default tolerance and iteration limit), with the modelled `opt_nu`
    and median; `none` = it raised (fewer than two rows, ragged rows) -/
noncomputable def fitRowsF (psi : ℝ → ℝ) (d : ℕ) (rows : Mat ℝ) : Option (FitOut ℝ) := do
  let X ← columnsOf d rows
  let r ← (fitF psi defaultTol defaultMaxIter rows.length X).join
  outOf r

/-- list form of `m` particles -/
def rowsOf {m : ℕ} (y : Fin m → Fin d → ℝ) : Mat ℝ := List.ofFn fun i => vecOf (y i)

/-- reading a list as a vector / a list of lists as a matrix (only ever applied to lists of the right shape) -/
noncomputable def vecFn (d : ℕ) (r : List ℝ) : Fin d → ℝ := fun a => r.getD a.val 0
noncomputable def matFn (d : ℕ) (M : Mat ℝ) : Matrix (Fin d) (Fin d) ℝ := of fun a c => (M.getD a.val []).getD c.val 0

/-- the affine map `v ↦ A v + b` on the list form of a particle, and `Σ ↦ A Σ Aᵀ` on the list form of a matrix -/
noncomputable def rowT (A : Matrix (Fin d) (Fin d) ℝ) (b : Fin d → ℝ) (r : List ℝ) : List ℝ := vecOf (A *ᵥ vecFn d r + b)
noncomputable def sigT (A : Matrix (Fin d) (Fin d) ℝ) (M : Mat ℝ) : Mat ℝ := matOf (A * matFn d M * Aᵀ)

@[simp] theorem vecFn_vecOf (v : Fin d → ℝ) : vecFn d (vecOf v) = v := by
  funext a; simp [vecFn, vecOf, List.getD_eq_getElem?_getD]

@[simp] theorem matFn_matOf (M : Matrix (Fin d) (Fin d) ℝ) : matFn d (matOf M) = M := by
  ext a c; simp [matFn, matOf, List.getD_eq_getElem?_getD]

@[simp] theorem rowT_vecOf (A : Matrix (Fin d) (Fin d) ℝ) (b v : Fin d → ℝ) : rowT A b (vecOf v) = vecOf (A *ᵥ v + b) := by
  simp [rowT]

@[simp] theorem sigT_matOf (A M : Matrix (Fin d) (Fin d) ℝ) : sigT A (matOf M) = matOf (A * M * Aᵀ) := by
  simp [sigT]

theorem rowsOf_aff {m : ℕ} (A : Matrix (Fin d) (Fin d) ℝ) (b : Fin d → ℝ) (y : Fin m → Fin d → ℝ) :
    rowsOf (aff A b y) = (rowsOf y).map (rowT A b) := by
  unfold rowsOf
  rw [List.map_ofFn]
  congr 1
  funext i
  simp [aff]

theorem columnsOf_rowsOf {m : ℕ} (y : Fin m → Fin d → ℝ) : columnsOf d (rowsOf y) = some (colsOf y) := by
  unfold columnsOf
  rw [Lemmas.GaussJordan.mapM_some_of_forall _ _
    (fun a => if h : a < d then List.ofFn (fun i => y i ⟨a, h⟩) else [])]
  · congr 1
    unfold colsOf
    apply List.ext_getElem
    · simp
    · intro a h1 h2
      have ha : a < d := by simpa using h2
      simp [ha]
  · intro a ha
    have ha' : a < d := List.mem_range.mp ha
    rw [dif_pos ha']
    unfold rowsOf
    rw [Lemmas.GaussJordan.mapM_some_of_forall _ _ (fun r => r.getD a 0)]
    · congr 1
      rw [List.map_ofFn]
      congr 1
      funext i
      simp [vecOf, List.getD_eq_getElem?_getD, ha']
    · intro r hr
      rw [List.mem_ofFn] at hr
      obtain ⟨i, rfl⟩ := hr
      simp [vecOf, List.getD_eq_getElem?_getD, ha']

theorem rowsOf_length {m : ℕ} (y : Fin m → Fin d → ℝ) : (rowsOf y).length = m := by simp [rowsOf]

/-- the degrees of freedom as `fit_mvstud` hands them back -/
def dofOf : Option ℝ → Dof ℝ
  | none => .inf
  | some x => .fin x

/-- the model's `fit_mvstud` on the list form of `m ≥ 2` particles is the list form of the matrix-level fit -/
theorem fitRowsF_rowsOf (psi : ℝ → ℝ) {m : ℕ} (y : Fin m → Fin d → ℝ) (hm : 2 ≤ m) :
    fitRowsF psi d (rowsOf y) =
      some ⟨vecOf (fit (optNuR psi d m) medR defaultTol defaultMaxIter y).1.mu,
            matOf (fit (optNuR psi d m) medR defaultTol defaultMaxIter y).1.sigma,
            dofOf (fit (optNuR psi d m) medR defaultTol defaultMaxIter y).2⟩ := by
  obtain ⟨r, hr, h1, h2⟩ := C19_twin_fit psi defaultTol defaultMaxIter y hm
  unfold fitRowsF
  rw [columnsOf_rowsOf, rowsOf_length]
  simp only [Option.bind_eq_bind, Option.bind_some, hr, Option.join]
  show outOf r = _
  unfold outOf
  rw [h1, List.getLast?_map]
  have hne := loop_ne_nil (optNuR psi d m) defaultTol y defaultMaxIter (init medR y) 20 0
  have hlast : (fitTrace (optNuR psi d m) medR defaultTol defaultMaxIter y).1.getLast? =
      some (fit (optNuR psi d m) medR defaultTol defaultMaxIter y).1 := by
    unfold fit fitTrace
    rw [List.getLast?_eq_some_getLast hne]
  rw [hlast]
  simp only [Option.map_some, toL]
  rw [h2]
  unfold fit
  cases (fitTrace (optNuR psi d m) medR defaultTol defaultMaxIter y).2 <;> rfl

/-- with fewer than two particles the model's `fit_mvstud` raises (`np.cov` of a single row) — on both sides of a map -/
theorem fitRowsF_small (psi : ℝ → ℝ) {m : ℕ} (y : Fin m → Fin d → ℝ) (hm : m < 2) : fitRowsF psi d (rowsOf y) = none := by
  unfold fitRowsF
  rw [columnsOf_rowsOf, rowsOf_length]
  simp only [Option.bind_eq_bind, Option.bind_some]
  have : fitF psi defaultTol defaultMaxIter m (colsOf y) = none := by
    unfold fitF fitWith Model.Student.init
    simp [hm]
  rw [this]
  rfl

/-- every sample drawn (with repetition) from the list form of particles is the list form of particles -/
theorem rows_of_mem_rowsOf {N : ℕ} (U : Fin N → Fin d → ℝ) (rows : Mat ℝ) (h : ∀ r ∈ rows, r ∈ rowsOf U) :
    ∃ y : Fin rows.length → Fin d → ℝ, rows = rowsOf y := by
  refine ⟨fun i => vecFn d (rows[i]), ?_⟩
  unfold rowsOf
  apply List.ext_getElem
  · simp
  · intro i h1 h2
    simp only [List.getElem_ofFn]
    have := h rows[i] (List.getElem_mem h1)
    unfold rowsOf at this
    rw [List.mem_ofFn] at this
    obtain ⟨j, hj⟩ := this
    show rows[i] = vecOf (vecFn d rows[i])
    rw [← hj, vecFn_vecOf]

/-- **the model's fit is equivariant on every resample of the particles** under coordinate permutation × non-zero
    per-coordinate scaling × translation -/
theorem fitRowsF_equivariantOn (psi : ℝ → ℝ) {N : ℕ} (U : Fin N → Fin d → ℝ) (σ : Equiv.Perm (Fin d)) (s b : Fin d → ℝ)
    (hs : ∀ a, s a ≠ 0) :
    FitEquivariantOn (fitRowsF psi d) (rowT (mono σ s) b) (sigT (mono σ s)) (rowsOf U) := by
  intro rows hrows
  obtain ⟨y, hy⟩ := rows_of_mem_rowsOf U rows hrows
  rw [hy, ← rowsOf_aff]
  by_cases hm : 2 ≤ rows.length
  · rw [fitRowsF_rowsOf psi _ hm, fitRowsF_rowsOf psi _ hm]
    have he := (C19_equivariant_modelled psi defaultTol defaultMaxIter y hm σ s b hs).2
    rw [he]
    simp [mapOut, St.map]
  · rw [fitRowsF_small psi _ (by omega), fitRowsF_small psi _ (by omega)]
    rfl

/-- **equivariance of the whole `ModeStatistics.from_global` construction** (executable model at `ℝ`: normalisation of the
    weights, legacy `np.random.choice` on the uniform stream, gather, `fit_mvstud` with modelled `opt_nu`/median, fallback):
    transforming the particles as `u ↦ A u + b` with `A` a coordinate permutation times non-zero per-coordinate scalings
    transforms the mode as `(A μ + b, A Σ Aᵀ)` (`rowT_vecOf`, `sigT_matOf`) and leaves the degrees of freedom — after the
    fallback — unchanged.  Every weight vector, fallback, resample factor and stream of uniforms. -/
theorem C19_fromGlobal_equivariant (psi : ℝ → ℝ) {N : ℕ} (U : Fin N → Fin d → ℝ) (w : List ℝ) (fb : ℝ) (rf : ℕ) (us : List ℝ)
    (σ : Equiv.Perm (Fin d)) (s b : Fin d → ℝ) (hs : ∀ a, s a ≠ 0) :
    fromGlobal (fitRowsF psi d) (rowsOf (aff (mono σ s) b U)) w fb rf us =
      mapBuilt (rowT (mono σ s) b) (sigT (mono σ s)) (fromGlobal (fitRowsF psi d) (rowsOf U) w fb rf us) := by
  rw [rowsOf_aff]
  exact C19_fromGlobal_equivariant_generic _ _ _ _ w fb rf us (fitRowsF_equivariantOn psi U σ s b hs)

/-- **… and of `ModeStatistics.from_particles`**: any labels, any number of clusters -/
theorem C19_fromParticles_equivariant (psi : ℝ → ℝ) {N : ℕ} (U : Fin N → Fin d → ℝ) (w : List ℝ) (labels : List ℕ)
    (fb : ℝ) (rf : ℕ) (us : List ℝ) (K : ℕ) (σ : Equiv.Perm (Fin d)) (s b : Fin d → ℝ) (hs : ∀ a, s a ≠ 0) :
    fromParticles (List.replicate K (fitRowsF psi d)) (rowsOf (aff (mono σ s) b U)) w labels fb rf us =
      mapBuilt (rowT (mono σ s) b) (sigT (mono σ s))
        (fromParticles (List.replicate K (fitRowsF psi d)) (rowsOf U) w labels fb rf us) := by
  rw [rowsOf_aff]
  refine C19_fromParticles_equivariant_generic _ _ _ _ w labels fb rf us ?_
  intro f hf
  rw [List.eq_of_mem_replicate hf]
  exact fitRowsF_equivariantOn psi U σ s b hs

end Real

/-- non-vacuity: a fit that answers NaN / inf / 3.5 on the three paths that fit -/
example : applyFallback (7.5 : ℝ) (.nan) = .fin 7.5 ∧ applyFallback (7.5 : ℝ) .inf = .fin 7.5 ∧
    applyFallback (7.5 : ℝ) (.fin 3.5) = .fin 3.5 := by simp [applyFallback, Dof.isFinite]

/-- the whole `from_global` construction under a coordinate swap with scalings `2`, `-3` and a shift: 7 particles in the plane -/
example (psi : ℝ → ℝ) (U : Fin 7 → Fin 2 → ℝ) (w us : List ℝ) (b : Fin 2 → ℝ) :
    fromGlobal (fitRowsF psi 2) (rowsOf (aff (mono (Equiv.swap 0 1) ![2, -3]) b U)) w 1000000 4 us =
      mapBuilt (rowT (mono (Equiv.swap 0 1) ![2, -3]) b) (sigT (mono (Equiv.swap 0 1) ![2, -3]))
        (fromGlobal (fitRowsF psi 2) (rowsOf U) w 1000000 4 us) :=
  C19_fromGlobal_equivariant psi U w 1000000 4 us _ _ b (by intro a; fin_cases a <;> norm_num)

example : trainerRun (α := ℝ) .dummy [] 2 [] [] [] 7.5 [] =
    .ok ⟨[[0, 0]], [[[1, 0], [0, 1]]], [.fin 7.5], none⟩ := by
  simp [trainerRun, identRow, List.range, List.range.loop]

end Props.C19
