import TempestVerif.Props.C05Robust
import TempestVerif.Lemmas.ScNaN
import TempestVerif.Lemmas.ScReal
import Mathlib.Tactic
/-
  C05 under IEEE-like arithmetic with NaN (Part B of `Props/C05Robust.lean`): the instance `FN r`.

  `Model.Reweight.run` — the definition the driver executes — is evaluated at `α = FN r`: reals + NaN, every `+ − ·` rounded by an
  arbitrary monotone idempotent rounding `r` with `BinaryRounding r` (1/2 representable, doubling exact).  The oracle is ANY
  function `FN r → W × FN r × FN r` (it may answer NaN anywhere), `fin` (np.isfinite) is any predicate.

    bracket_leRep        the midpoint of a bracket of representable numbers is a representable number inside the bracket
    C05_ieee_run         β is a representable number (never NaN), β_prev ≤ β ≤ β_upper ≤ 1 — both modes, all 7 branches
    C05_ieee_schedule    the whole schedule: β₀ = 0, every β a number in [0, 1], non-decreasing
    C05_ieee_ess_floor   ESS mode with a NaN-free ESS at β_prev and a NaN-free target: never `essBisect`; an advance lands where
                         the rounded test `ess >= target` is True
    C05_nan_ess_reaches_bisection   … and with a NaN ESS the branch that is dead over ℝ IS taken (why it must stay in the model)
-/
namespace Props.C05.Robust
open Model.Reweight FN
variable {r : Rounding} {W : Type}

theorem mid_num (hb : BinaryRounding r) (x y : ℝ) :
    mid (num r y) (num r x) = num r (r.rnd (r.rnd (y + x) * (1 / 2))) := by
  have h5 : r.rnd ((5 : ℝ) / 10 ^ 1) = 1 / 2 := by
    have : ((5 : ℝ) / 10 ^ 1) = 1 / 2 := by norm_num
    rw [this, hb.half]
  simp only [mid, add_num, lit_num, mul_num]
  norm_num at h5 ⊢
  rw [h5]

/-- **the midpoint lemma under rounding**: for representable `x ≤ y`, `fl(fl(y + x)·0.5)` is representable and lies in `[x, y]` -/
theorem mid_in_bracket (hb : BinaryRounding r) (x y : ℝ) (hx : r.rnd x = x) (hy : r.rnd y = y) (hxy : x ≤ y) :
    r.rnd (r.rnd (r.rnd (y + x) * (1 / 2))) = r.rnd (r.rnd (y + x) * (1 / 2)) ∧
    x ≤ r.rnd (r.rnd (y + x) * (1 / 2)) ∧ r.rnd (r.rnd (y + x) * (1 / 2)) ≤ y := by
  have h2x := hb.dbl x hx
  have h2y := hb.dbl y hy
  have s1 : 2 * x ≤ r.rnd (y + x) := by rw [← h2x]; exact r.mono (by linarith)
  have s2 : r.rnd (y + x) ≤ 2 * y := by rw [← h2y]; exact r.mono (by linarith)
  refine ⟨r.idem _, ?_, ?_⟩
  · have := r.mono (show x ≤ r.rnd (y + x) * (1 / 2) by linarith)
    rw [hx] at this; exact this
  · have := r.mono (show r.rnd (y + x) * (1 / 2) ≤ y by linarith)
    rw [hy] at this; exact this

/-- `leRep` (both numbers, both representable, ≤) is a bracket relation for the rounded midpoint -/
theorem bracket_leRep (hb : BinaryRounding r) : Bracket (leRep : FN r → FN r → Prop) where
  trans := by
    rintro a b c ⟨x, y, ha, hb', hx, _, hxy⟩ ⟨y', z, hb'', hc, _, hz, hyz⟩
    rw [hb'] at hb''
    simp only [Option.some.injEq] at hb''
    subst hb''
    exact ⟨x, z, ha, hc, hx, hz, le_trans hxy hyz⟩
  left := by rintro a b ⟨x, y, ha, _, hx, _, _⟩; exact ⟨x, x, ha, ha, hx, hx, le_refl _⟩
  right := by rintro a b ⟨x, y, _, hb', _, hy, _⟩; exact ⟨y, y, hb', hb', hy, hy, le_refl _⟩
  mid := by
    rintro ⟨lo⟩ ⟨hi⟩ ⟨x, y, ha, hb', hx, hy, hxy⟩
    simp only at ha hb'
    subst ha; subst hb'
    obtain ⟨m0, m1, m2⟩ := mid_in_bracket hb x y hx hy hxy
    have e : mid (⟨some y⟩ : FN r) ⟨some x⟩ = num r (r.rnd (r.rnd (y + x) * (1 / 2))) := mid_num hb x y
    rw [e]
    exact ⟨⟨x, _, rfl, rfl, hx, m0, m1⟩, ⟨_, y, rfl, rfl, m0, hy, m2⟩⟩

/-- **One reweighting step under IEEE-like arithmetic with NaN.**  For every oracle (NaN answers anywhere), every `fin`, every
    configuration (even NaN tolerances / targets), both modes: starting from a representable number `p ≤ 1`, the new β is a
    representable NUMBER `b` — never NaN — with `p ≤ b ≤ u ≤ 1`, `u` the value `_find_beta_upper_limit` returned. -/
theorem C05_ieee_run (hb : BinaryRounding r) (c : Cfg (FN r)) (M : FN r → W × FN r × FN r) (Z : FN r → FN r)
    (fin : FN r → Bool) (p : ℝ) (hp : r.rnd p = p) (hp1 : p ≤ 1) :
    ∃ b u : ℝ, (run c false M Z fin (num r p)).beta = num r b ∧
      (upperLimit M c.target c.tolB c.fuel (num r p)).beta = num r u ∧
      r.rnd b = b ∧ r.rnd u = u ∧ p ≤ b ∧ b ≤ u ∧ u ≤ 1 := by
  have h1 : leRep (num r p) (Sc.one : FN r) := by rw [one_num]; exact leRep_num.mpr ⟨hp, r.rnd_one, hp1⟩
  obtain ⟨⟨x, b, hx, hbv, _, hbr, hxb⟩, ⟨b', u, hbv', huv, _, hur, hbu⟩, ⟨u', o, huv', ho, _, _, huo⟩⟩ :=
    C05_R_run (bracket_leRep hb) c M Z fin (num r p) h1
  have hxp : x = p := by simp only [num, Option.some.injEq] at hx; exact hx.symm
  have hbb : b' = b := by rw [hbv] at hbv'; simp only [Option.some.injEq] at hbv'; exact hbv'.symm
  have huu : u' = u := by rw [huv] at huv'; simp only [Option.some.injEq] at huv'; exact huv'.symm
  have ho' : o = 1 := by
    rw [one_num] at ho; simp only [num, Option.some.injEq] at ho; exact ho.symm
  rw [hxp] at hxb; rw [hbb] at hbu; rw [huu, ho'] at huo
  refine ⟨b, u, ?_, ?_, hbr, hur, hxb, hbu, huo⟩
  · cases hβ : (run c false M Z fin (num r p)).beta with | mk v => rw [hβ] at hbv; simp only at hbv; rw [hbv]; rfl
  · cases hβ : (upperLimit M c.target c.tolB c.fuel (num r p)).beta with | mk v => rw [hβ] at huv; simp only at huv; rw [huv]; rfl

/-- **The whole schedule under IEEE-like arithmetic with NaN** (any environment: any pool dynamics `next`, any oracles `env` —
    NaN answers anywhere —, history empty at the start and never empty after a commit; any configuration, either mode):
    β₀ = 0, every β is a representable number in [0, 1] (never NaN), and the sequence never decreases. -/
theorem C05_ieee_schedule (hb : BinaryRounding r) {σ : Type} (c : Cfg (FN r)) (env : σ → Oracles (FN r) W) (emp : σ → Bool)
    (next : σ → RunOut (FN r) W → σ) (s0 : σ) (p0 : FN r) (h0 : emp s0 = true) (hne : ∀ s q, emp (next s q) = false) (n : Nat) :
    (0 < n → (betas c env emp next n s0 p0)[0]? = some (num r 0)) ∧
    (∀ b ∈ betas c env emp next n s0 p0, ∃ x : ℝ, b = num r x ∧ r.rnd x = x ∧ 0 ≤ x ∧ x ≤ 1) ∧
    (∀ k a b, (betas c env emp next n s0 p0)[k]? = some a → (betas c env emp next n s0 p0)[k+1]? = some b →
      ∃ x y : ℝ, a = num r x ∧ b = num r y ∧ x ≤ y) := by
  have unpack : ∀ a b : FN r, leRep a b → ∃ x y : ℝ, a = num r x ∧ b = num r y ∧ r.rnd x = x ∧ r.rnd y = y ∧ x ≤ y := by
    rintro ⟨a⟩ ⟨b⟩ ⟨x, y, ha, hb', hx, hy, hxy⟩
    simp only at ha hb'
    subst ha; subst hb'
    exact ⟨x, y, rfl, rfl, hx, hy, hxy⟩
  cases n with
  | zero => simp [betas, schedule]
  | succ n =>
    have hb0 : (run c true (env s0).M (env s0).Z (env s0).fin p0).beta = num r 0 := by
      simp [run, zero_num]
    have e : betas c env emp next (n+1) s0 p0 =
        num r 0 :: betas c env emp next n (next s0 (run c true (env s0).M (env s0).Z (env s0).fin p0)) (num r 0) := by
      simp only [betas, schedule, h0, List.map_cons, hb0]
    have h01 : leRep (num r 0) (Sc.one : FN r) := by
      rw [one_num]; exact leRep_num.mpr ⟨r.rnd_zero, r.rnd_one, by norm_num⟩
    obtain ⟨i1, i2⟩ := C05_R_schedule (bracket_leRep hb) c env emp next hne n
      (next s0 (run c true (env s0).M (env s0).Z (env s0).fin p0)) (num r 0) (hne _ _) h01
    rw [e]
    refine ⟨fun _ => by simp, ?_, ?_⟩
    · intro b hbm
      rcases List.mem_cons.mp hbm with rfl | hbm
      · exact ⟨0, rfl, r.rnd_zero, le_refl _, by norm_num⟩
      · obtain ⟨x, y, hx, hy, _, hyr, hxy⟩ := unpack _ _ (i1 b hbm).1
        obtain ⟨y', o, hy', ho, _, _, hyo⟩ := unpack _ _ (i1 b hbm).2
        have hx0 : x = 0 := by simp only [num, FN.mk.injEq, Option.some.injEq] at hx; exact hx.symm
        have ho1 : o = 1 := by rw [one_num] at ho; simp only [num, FN.mk.injEq, Option.some.injEq] at ho; exact ho.symm
        have hyy : y' = y := by rw [hy] at hy'; simp only [num, FN.mk.injEq, Option.some.injEq] at hy'; exact hy'.symm
        subst hx0; subst ho1; subst hyy
        exact ⟨y', hy, hyr, hxy, hyo⟩
    · intro k a b ha hb'
      cases k with
      | zero =>
        simp only [List.getElem?_cons_zero, Option.some.injEq] at ha
        simp only [List.getElem?_cons_succ] at hb'
        subst ha
        obtain ⟨x, y, hx, hy, _, _, hxy⟩ := unpack _ _ (i1 b (List.mem_of_getElem? hb')).1
        exact ⟨x, y, hx, hy, hxy⟩
      | succ k =>
        simp only [List.getElem?_cons_succ] at ha hb'
        obtain ⟨x, y, hx, hy, _, _, hxy⟩ := unpack _ _ (i2 k a b ha hb')
        exact ⟨x, y, hx, hy, hxy⟩

/-- **ESS mode, NaN-free ESS at β_prev and NaN-free target**: `_find_beta_bisection` is not entered, and the returned β is
    β_prev itself or a point where the (rounded) test `ess >= target` evaluated to True — for every rounding, the ESS elsewhere
    may be NaN. -/
theorem C05_ieee_ess_floor (M : FN r → W × FN r × FN r) (Z : FN r → FN r) (fin : FN r → Bool) (target tolE tolB : FN r)
    (fuel : Nat) (prev : FN r) (e t : ℝ) (he : (M prev).2.1 = num r e) (ht : target = num r t) :
    (runEss M Z fin target tolE tolB fuel prev).branch ≠ Branch.essBisect ∧
    ((runEss M Z fin target tolE tolB fuel prev).beta = prev ∨
      Sc.ge (M (runEss M Z fin target tolE tolB fuel prev).beta).2.1 target = true) := by
  rcases C05_any_ess_floor M Z fin target tolE tolB fuel prev with ⟨h1, h2⟩ | ⟨h1, h2⟩ | ⟨_, h2, h3⟩
  · exact ⟨by rw [h1]; decide, Or.inl h2⟩
  · exact ⟨by rw [h1]; decide, Or.inr h2⟩
  · exfalso
    rw [he, ht] at h2 h3
    have a1 : ¬ e ≤ t := by intro h; rw [(le_num e t).mpr h] at h2; exact absurd h2 (by simp)
    have a2 : ¬ t ≤ e := by
      intro h
      have : Sc.ge (num r e) (num r t) = true := (le_num t e).mpr h
      rw [this] at h3; exact absurd h3 (by simp)
    exact a1 (le_of_lt (not_le.mp a2))

/-- with a NaN ESS everywhere, ESS mode DOES enter the bisection branch that is dead code over ℝ (`C05_ess_bisection_unreachable`)
    — and by `C05_ieee_run` β still is a number in [β_prev, 1] -/
theorem C05_nan_ess_reaches_bisection (M : FN r → W × FN r × FN r) (hM : ∀ b, (M b).2.1 = nan) (Z : FN r → FN r)
    (fin : FN r → Bool) (target tolE tolB : FN r) (fuel : Nat) (prev : FN r) :
    (runEss M Z fin target tolE tolB fuel prev).branch = Branch.essBisect := by
  rcases C05_any_ess_floor M Z fin target tolE tolB fuel prev with ⟨h1, _⟩ | ⟨_, h2⟩ | ⟨h1, _⟩
  · exfalso
    rcases runEss_cases_any M Z fin target tolE tolB fuel prev with ⟨h, _⟩ | ⟨_, _, e⟩ | ⟨_, _, e⟩
    · rw [hM, le_nan_left] at h; exact absurd h (by simp)
    · rw [e] at h1; simp [finalize] at h1
    · rw [e] at h1; simp [finalize] at h1
  · exfalso
    rw [hM] at h2
    have : Sc.ge (nan : FN r) target = false := le_nan_right target
    rw [this] at h2; exact absurd h2 (by simp)
  · exact h1

/-! ### non-vacuity -/

/-- exact arithmetic is a binary rounding (so every statement above specialises to exact reals + NaN) -/
theorem exact_binary : BinaryRounding ScRound.exact := ⟨rfl, fun _ _ => rfl⟩

/-- a genuinely rounding instance: round UP to a multiple of 1/4 — monotone, idempotent, fixes 0, 1, 1/2, and doubling a
    multiple of 1/4 gives a multiple of 1/4.  (Coarser than binary64 by 50 binary digits: the theorems do not need accuracy.) -/
noncomputable def quarterUp : Rounding where
  rnd := fun x => (⌈4 * x⌉ : ℝ) / 4
  mono := fun a b h => by
    show ((⌈4 * a⌉ : ℤ) : ℝ) / 4 ≤ ((⌈4 * b⌉ : ℤ) : ℝ) / 4
    have : (⌈4 * a⌉ : ℤ) ≤ ⌈4 * b⌉ := Int.ceil_mono (by linarith)
    have h' : ((⌈4 * a⌉ : ℤ) : ℝ) ≤ ((⌈4 * b⌉ : ℤ) : ℝ) := by exact_mod_cast this
    linarith
  idem := fun x => by
    show ((⌈4 * (((⌈4 * x⌉ : ℤ) : ℝ) / 4)⌉ : ℤ) : ℝ) / 4 = ((⌈4 * x⌉ : ℤ) : ℝ) / 4
    have : 4 * (((⌈4 * x⌉ : ℤ) : ℝ) / 4) = ((⌈4 * x⌉ : ℤ) : ℝ) := by ring
    rw [this, Int.ceil_intCast]
  rnd_zero := by simp
  rnd_one := by
    show ((⌈(4 : ℝ) * 1⌉ : ℤ) : ℝ) / 4 = 1
    have : ((4 : ℝ) * 1) = ((4 : ℤ) : ℝ) := by norm_num
    rw [this, Int.ceil_intCast]; norm_num

theorem quarterUp_binary : BinaryRounding quarterUp where
  half := by
    show ((⌈(4 : ℝ) * (1 / 2)⌉ : ℤ) : ℝ) / 4 = 1 / 2
    have : ((4 : ℝ) * (1 / 2)) = ((2 : ℤ) : ℝ) := by norm_num
    rw [this, Int.ceil_intCast]; norm_num
  dbl := by
    intro x hx
    show ((⌈(4 : ℝ) * (2 * x)⌉ : ℤ) : ℝ) / 4 = 2 * x
    have hx' : ((⌈4 * x⌉ : ℤ) : ℝ) / 4 = x := hx
    have : (4 : ℝ) * (2 * x) = ((2 * ⌈4 * x⌉ : ℤ) : ℝ) := by push_cast; linarith
    rw [this, Int.ceil_intCast]; push_cast; linarith

-- an oracle that answers NaN everywhere, ESS mode, from β_prev = 0 under the coarse rounding: the dead branch is taken, and
-- still β is a representable number between 0 and 1
example : (runEss (fun _ => ((), (nan : FN quarterUp), (nan : FN quarterUp))) id (fun _ => false) (num _ 40) (num _ (1/100))
    (num _ (1/4)) 8 (num _ 0)).branch = Branch.essBisect :=
  C05_nan_ess_reaches_bisection _ (fun _ => rfl) _ _ _ _ _ _ _
example := C05_ieee_run quarterUp_binary ⟨num _ 2, 20, none, num _ (1/100), num _ (1/4), 8⟩
  (fun _ => ((), (nan : FN quarterUp), (nan : FN quarterUp))) id (fun _ => false) 0 quarterUp.rnd_zero (by norm_num)
-- a NaN-free ESS at β_prev: hypotheses of `C05_ieee_ess_floor` (ESS 100·(1−β) computed with rounding, target 40)
example := C05_ieee_ess_floor (r := quarterUp)
  (fun b => ((), Sc.mul (num _ 100) (Sc.sub (num _ 1) b), (nan : FN quarterUp))) id (fun _ => true) (num _ 40) (num _ (1/100))
  (num _ (1/4)) 8 (num _ 0) (quarterUp.rnd (100 * quarterUp.rnd (1 - 0))) 40 rfl rfl
example := C05_ieee_schedule (σ := Nat) quarterUp_binary ⟨num _ 2, 20, some (num _ (1/2)), num _ (1/100), num _ (1/4), 8⟩
  (fun _ => ⟨fun _ => ((), (nan : FN quarterUp), (nan : FN quarterUp)), id, fun _ => false⟩) (fun s => s == 0) (fun s _ => s + 1)
  0 nan (by simp) (by simp) 5

/-! ### Part A at the two other scalar types of interest -/

/-- the structural theorems hold at `Float` — the type at which the driver executes the model against the real code -/
example (c : Cfg Float) (M : Float → Unit × Float × Float) (Z : Float → Float) (prev : Float) :
    CoherentAny M Z (run c false M Z Float.isFinite prev) := C05_any_same_temperature c M Z Float.isFinite prev
example (M : Float → Unit × Float × Float) (target tol : Float) (prev : Float) :
    (upperLimit M target tol 64 prev).beta = prev ∨ Sc.ge (M (upperLimit M target tol 64 prev).beta).2.1 target = true :=
  C05_any_upper_ess M target tol 64 prev

/-- over ℝ, `≤` is a bracket relation: Part A′ specialises to the range theorems of `Props/C05.lean` -/
theorem bracket_real : Bracket (fun a b : ℝ => a ≤ b) where
  trans := fun h1 h2 => le_trans h1 h2
  left := fun _ => le_refl _
  right := fun _ => le_refl _
  mid := by
    intro lo hi h
    have : mid hi lo = (hi + lo) / 2 := by simp [mid]; ring
    rw [this]; constructor <;> linarith
example (c : Cfg ℝ) (M : ℝ → Unit × ℝ × ℝ) (Z : ℝ → ℝ) (fin : ℝ → Bool) (prev : ℝ) (h : prev ≤ 1) :=
  C05_R_run bracket_real c M Z fin prev (by simpa using h)

end Props.C05.Robust
