import TempestVerif.Model.Student
import TempestVerif.Lemmas.Maha
import Mathlib.LinearAlgebra.Matrix.PosDef
import Mathlib.Analysis.Matrix.Order
import Mathlib.Algebra.Order.Star.Real
import Mathlib.LinearAlgebra.Matrix.NonsingularInverse
import TempestVerif.Lemmas.ScReal
import Mathlib.Algebra.BigOperators.Fin
import Mathlib.Tactic
/-
  C19 — the Student-t proposal fit (`tempest/student.py: fit_mvstud`, `tempest/modes.py`) is well-posed and
  equivariant.

  Objects: exact real arithmetic, Mathlib matrices (`Matrix (Fin d) (Fin d) ℝ`), data `x : Fin n → Fin d → ℝ`.
  The definitions below (`delta`, `weight`, `sigmaNext`, `muNext`, `step`, `loop`, `init`, `fit`) are the
  matrix form of the executable list twin `Model/Student.lean` (same formulas, same control flow; the twin is
  what the correspondence check runs against the Python; `C19_twin_step` proves that one iteration of the twin at `ℝ`
  IS the matrix iteration, given that its Gauss–Jordan inverse is the inverse).  `np.linalg.solve(Σ, v)` is `Σ⁻¹ v`.

  Uninterpreted, with the hypotheses used stated where they are used:
  * `optNu : (Fin n → ℝ) → NuAns` — `opt_nu` (scipy `psi` + `bisect` on `[1e-300, 1e6]`): a value, `inf` (early
    return) or `fail` (`bisect` raising `ValueError`, which the loop catches); only its dependence on the `δ`'s is
    used, plus `hopt : optNu δ = .val ν → 0 < ν` (the bracket is positive) wherever positivity of the weights is
    needed.  `ν ∈ (0, ∞]` is therefore a property of the *assumed* contract of scipy's bisection (returns a point
    of its bracket), not proved about scipy.
  * the exits added in commit 3acbd02 are modelled in exact arithmetic: `np.linalg.solve` raises iff `Σ` is
    singular (`¬ IsUnit Σ.det`) → stop before any update; `np.linalg.cholesky(new_Σ)` raises iff `new_Σ` is not
    positive definite → stop, keeping the previous `(μ, Σ, ν)`.  Consequently the well-posedness and equivariance
    theorems hold for EVERY data set with `n ≥ 2` (degenerate ones included); non-degeneracy is only needed for
    "positive definite, always".
  * `med : (Fin n → ℝ) → ℝ` — `np.median` of one coordinate, with `med (a·f + c) = a·med f + c` (true of the
    median for every real `a`, also negative: the order statistics reverse and the middle one / the mean of
    the two middle ones is preserved) and `min f ≤ med f ≤ max f`.

  NOT provable here: the clause "recovers the generating parameters of large t-distributed samples"
  (statistical consistency of the maximum-likelihood estimator; it needs the law of the sample and the
  behaviour of scipy's root finder) — covered only by a fixed-seed regression witness and a loose sanity
  check in the harness.  IEEE rounding is bridged by the correspondence check, not here.
-/
namespace Props.C19
open Matrix Lemmas.Maha
variable {d n : ℕ}


/-- the affine image `A x_i + b` of a data set -/
def aff (A : Matrix (Fin d) (Fin d) ℝ) (b : Fin d → ℝ) (x : Fin n → Fin d → ℝ) : Fin n → Fin d → ℝ :=
  fun i => A *ᵥ x i + b

noncomputable def delta (x : Fin n → Fin d → ℝ) (μ : Fin d → ℝ) (S : Matrix (Fin d) (Fin d) ℝ) (i : Fin n) : ℝ :=
  maha S (x i - μ)

noncomputable def weight (d : ℕ) (ν δ : ℝ) : ℝ := (ν + d) / (ν + δ)

noncomputable def sigmaNext (x : Fin n → Fin d → ℝ) (μ : Fin d → ℝ) (w : Fin n → ℝ) : Matrix (Fin d) (Fin d) ℝ :=
  (1 / (n : ℝ)) • ∑ i, w i • vecMulVec (x i - μ) (x i - μ)

noncomputable def muNext (x : Fin n → Fin d → ℝ) (w : Fin n → ℝ) : Fin d → ℝ :=
  (∑ i, w i)⁻¹ • ∑ i, w i • x i

theorem C19_delta_affine_invariant (A S : Matrix (Fin d) (Fin d) ℝ) (b μ : Fin d → ℝ) (x : Fin n → Fin d → ℝ)
    (hA : IsUnit A.det) (i : Fin n) :
    delta (aff A b x) (A *ᵥ μ + b) (A * S * Aᵀ) i = delta x μ S i := by
  unfold delta aff
  have : A *ᵥ x i + b - (A *ᵥ μ + b) = A *ᵥ (x i - μ) := by rw [mulVec_sub]; abel
  rw [this, maha_affine A S _ hA]

theorem sigmaNext_aff (A : Matrix (Fin d) (Fin d) ℝ) (b μ : Fin d → ℝ) (x : Fin n → Fin d → ℝ) (w : Fin n → ℝ) :
    sigmaNext (aff A b x) (A *ᵥ μ + b) w = A * sigmaNext x μ w * Aᵀ := by
  unfold sigmaNext aff
  have h : ∀ i, A *ᵥ x i + b - (A *ᵥ μ + b) = A *ᵥ (x i - μ) := fun i => by rw [mulVec_sub]; abel
  simp only [h]
  rw [Matrix.mul_smul, Matrix.smul_mul, Matrix.mul_sum, Matrix.sum_mul]
  congr 1
  refine Finset.sum_congr rfl fun i _ => ?_
  rw [Matrix.mul_smul, Matrix.smul_mul]
  congr 1
  rw [mul_vecMulVec, vecMulVec_mul, vecMul_transpose]

theorem muNext_aff (A : Matrix (Fin d) (Fin d) ℝ) (b : Fin d → ℝ) (x : Fin n → Fin d → ℝ) (w : Fin n → ℝ)
    (hw : ∑ i, w i ≠ 0) :
    muNext (aff A b x) w = A *ᵥ muNext x w + b := by
  unfold muNext aff
  simp only [smul_add, Finset.sum_add_distrib, ← Finset.sum_smul]
  rw [← smul_assoc, smul_eq_mul, inv_mul_cancel₀ hw, one_smul]
  congr 1
  rw [mulVec_smul, mulVec_sum]
  congr 1
  refine Finset.sum_congr rfl fun i _ => ?_
  rw [mulVec_smul]


def NonDegenerate (x : Fin n → Fin d → ℝ) : Prop :=
  ∀ v : Fin d → ℝ, v ≠ 0 → ∀ c : ℝ, ∃ i, v ⬝ᵥ x i ≠ c

theorem delta_nonneg (x : Fin n → Fin d → ℝ) (μ : Fin d → ℝ) {S : Matrix (Fin d) (Fin d) ℝ} (hS : S.PosDef)
    (i : Fin n) : 0 ≤ delta x μ S i := by
  unfold delta maha
  have := hS.inv.posSemidef.dotProduct_mulVec_nonneg (x i - μ)
  simpa using this

theorem weight_pos {ν δ : ℝ} (hν : 0 < ν) (hδ : 0 ≤ δ) : 0 < weight d ν δ := by
  unfold weight; positivity

theorem C19_sigma_symm (x : Fin n → Fin d → ℝ) (μ : Fin d → ℝ) (w : Fin n → ℝ) :
    (sigmaNext x μ w).IsSymm := by
  unfold sigmaNext Matrix.IsSymm
  simp [transpose_smul, transpose_sum]

theorem sigmaNext_quadForm (x : Fin n → Fin d → ℝ) (μ : Fin d → ℝ) (w : Fin n → ℝ) (v : Fin d → ℝ) :
    v ⬝ᵥ (sigmaNext x μ w *ᵥ v) = (1 / (n : ℝ)) * ∑ i, w i * (v ⬝ᵥ (x i - μ)) ^ 2 := by
  unfold sigmaNext
  rw [smul_mulVec, dotProduct_smul, sum_mulVec, dotProduct_sum, smul_eq_mul]
  congr 1
  refine Finset.sum_congr rfl fun i _ => ?_
  rw [smul_mulVec, dotProduct_smul, vecMulVec_mulVec, smul_eq_mul]
  rw [dotProduct_smul, MulOpposite.smul_eq_mul_unop, MulOpposite.unop_op, dotProduct_comm (x i - μ) v]
  ring

theorem C19_sigma_psd (x : Fin n → Fin d → ℝ) (μ : Fin d → ℝ) (w : Fin n → ℝ) (hw : ∀ i, 0 ≤ w i)
    (v : Fin d → ℝ) : 0 ≤ v ⬝ᵥ (sigmaNext x μ w *ᵥ v) := by
  rw [sigmaNext_quadForm]
  have : 0 ≤ ∑ i, w i * (v ⬝ᵥ (x i - μ)) ^ 2 :=
    Finset.sum_nonneg fun i _ => mul_nonneg (hw i) (sq_nonneg _)
  positivity

theorem sigmaNext_quadForm_pos (x : Fin n → Fin d → ℝ) (μ : Fin d → ℝ) (w : Fin n → ℝ) (hw : ∀ i, 0 < w i)
    (v : Fin d → ℝ) (hv : ∃ i, v ⬝ᵥ (x i - μ) ≠ 0) : 0 < v ⬝ᵥ (sigmaNext x μ w *ᵥ v) := by
  rw [sigmaNext_quadForm]
  obtain ⟨j, hj⟩ := hv
  have hn : 0 < (n : ℝ) := by
    have : 0 < n := Fin.pos j
    exact_mod_cast this
  have : 0 < ∑ i, w i * (v ⬝ᵥ (x i - μ)) ^ 2 :=
    Finset.sum_pos' (fun i _ => mul_nonneg (hw i).le (sq_nonneg _))
      ⟨j, Finset.mem_univ j, mul_pos (hw j) (by positivity)⟩
  positivity

theorem C19_sigma_pd (x : Fin n → Fin d → ℝ) (μ : Fin d → ℝ) (w : Fin n → ℝ) (hw : ∀ i, 0 < w i)
    (hx : ∀ v : Fin d → ℝ, v ≠ 0 → ∃ i, v ⬝ᵥ (x i - μ) ≠ 0) : (sigmaNext x μ w).PosDef := by
  refine PosDef.of_dotProduct_mulVec_pos ?_ fun v hv => ?_
  · have := C19_sigma_symm x μ w
    simpa [Matrix.IsHermitian, Matrix.IsSymm] using this
  · simpa using sigmaNext_quadForm_pos x μ w hw v (hx v hv)

theorem nonDegenerate_centred {x : Fin n → Fin d → ℝ} (hx : NonDegenerate x) (μ : Fin d → ℝ) :
    ∀ v : Fin d → ℝ, v ≠ 0 → ∃ i, v ⬝ᵥ (x i - μ) ≠ 0 := by
  intro v hv
  obtain ⟨i, hi⟩ := hx v hv (v ⬝ᵥ μ)
  exact ⟨i, by rw [dotProduct_sub]; exact sub_ne_zero.mpr hi⟩

theorem muNext_apply (x : Fin n → Fin d → ℝ) (w : Fin n → ℝ) (a : Fin d) :
    muNext x w a = (∑ i, w i * x i a) / ∑ i, w i := by
  unfold muNext
  simp [Finset.sum_apply, div_eq_inv_mul]

theorem muNext_between (x : Fin n → Fin d → ℝ) (w : Fin n → ℝ) (hw : ∀ i, 0 < w i) (hn : 0 < n)
    (a : Fin d) (lo hi : ℝ) (hlo : ∀ i, lo ≤ x i a) (hhi : ∀ i, x i a ≤ hi) :
    lo ≤ muNext x w a ∧ muNext x w a ≤ hi := by
  have hs : 0 < ∑ i, w i := by
    have : Nonempty (Fin n) := ⟨⟨0, hn⟩⟩
    exact Finset.sum_pos (fun i _ => hw i) Finset.univ_nonempty
  rw [muNext_apply, le_div_iff₀ hs, div_le_iff₀ hs, Finset.mul_sum, Finset.mul_sum]
  constructor
  · exact Finset.sum_le_sum fun i _ => by nlinarith [hw i, hlo i]
  · exact Finset.sum_le_sum fun i _ => by nlinarith [hw i, hhi i]

/-- coordinate-wise inside the bounding box of the data -/
def InBox (x : Fin n → Fin d → ℝ) (μ : Fin d → ℝ) : Prop :=
  ∀ a, ∃ i j, x i a ≤ μ a ∧ μ a ≤ x j a

theorem C19_mu_in_bbox (x : Fin n → Fin d → ℝ) (w : Fin n → ℝ) (hw : ∀ i, 0 < w i) (hn : 0 < n) :
    InBox x (muNext x w) := by
  intro a
  have : Nonempty (Fin n) := ⟨⟨0, hn⟩⟩
  obtain ⟨i, _, hi⟩ := Finset.exists_min_image Finset.univ (fun i => x i a) Finset.univ_nonempty
  obtain ⟨j, _, hj⟩ := Finset.exists_max_image Finset.univ (fun i => x i a) Finset.univ_nonempty
  have := muNext_between x w hw hn a (x i a) (x j a) (fun k => hi k (Finset.mem_univ k))
    (fun k => hj k (Finset.mem_univ k))
  exact ⟨i, j, this⟩


/-! ### the fuel-indexed loop (`fuel = max_iter − i`), `opt_nu` uninterpreted

Exits of the Python loop (commit 3acbd02) in exact arithmetic: `np.linalg.solve` raises iff `Σ` is singular;
`np.linalg.cholesky(new_Σ)` succeeds iff `new_Σ` is positive definite; `opt_nu` may answer a value, `inf`
(early return) or fail (`bisect` raising `ValueError`, caught). -/

structure St (d : ℕ) where
  mu : Fin d → ℝ
  sigma : Matrix (Fin d) (Fin d) ℝ

/-- image of a state under `y = A x + b` -/
def St.map (A : Matrix (Fin d) (Fin d) ℝ) (b : Fin d → ℝ) (s : St d) : St d :=
  ⟨A *ᵥ s.mu + b, A * s.sigma * Aᵀ⟩

/-- what `opt_nu` does in one iteration -/
inductive NuAns where
  | val (ν : ℝ)
  | inf
  | fail

noncomputable def wts (x : Fin n → Fin d → ℝ) (s : St d) (ν : ℝ) : Fin n → ℝ :=
  fun i => weight d ν (delta x s.mu s.sigma i)

/-- `new_Sigma` / `mu` update of one iteration once the new `ν` is known -/
noncomputable def update (x : Fin n → Fin d → ℝ) (s : St d) (ν : ℝ) : St d :=
  ⟨muNext x (wts x s ν), sigmaNext x s.mu (wts x s ν)⟩

open Classical in
/-- all `(μ, Σ)` iterates (initial one first) and the returned `ν` (`none` = ∞) -/
noncomputable def loop (optNu : (Fin n → ℝ) → NuAns) (tol : ℝ) (x : Fin n → Fin d → ℝ) :
    ℕ → St d → ℝ → ℝ → List (St d) × Option ℝ
  | 0, s, ν, _ => ([s], some ν)
  | k+1, s, ν, lastν =>
    if tol < |lastν - ν| then
      if IsUnit s.sigma.det then                       -- `solve` does not raise
        match optNu (delta x s.mu s.sigma) with
        | .fail => ([s], some ν)                       -- `except ValueError: break`
        | .inf => ([s], none)                          -- early return
        | .val ν' =>
          if (update x s ν').sigma.PosDef then         -- `cholesky(new_Sigma)` succeeds
            let r := loop optNu tol x k (update x s ν') ν' ν
            (s :: r.1, r.2)
          else ([s], some ν)                           -- `nu = last_nu; break`
      else ([s], some ν)                               -- `except LinAlgError: break`
    else ([s], some ν)

theorem delta_aff_eq (A : Matrix (Fin d) (Fin d) ℝ) (b : Fin d → ℝ) (x : Fin n → Fin d → ℝ) (s : St d)
    (hA : IsUnit A.det) :
    delta (aff A b x) (s.map A b).mu (s.map A b).sigma = delta x s.mu s.sigma :=
  funext fun i => C19_delta_affine_invariant A s.sigma b s.mu x hA i

theorem wts_pos (x : Fin n → Fin d → ℝ) (s : St d) (hS : s.sigma.PosDef) {ν : ℝ} (hν : 0 < ν) (i : Fin n) :
    0 < wts x s ν i :=
  weight_pos hν (delta_nonneg x s.mu hS i)

theorem sum_wts_ne_zero (x : Fin n → Fin d → ℝ) (s : St d) (hS : s.sigma.PosDef) {ν : ℝ} (hν : 0 < ν)
    (hn : 0 < n) : ∑ i, wts x s ν i ≠ 0 := by
  have : Nonempty (Fin n) := ⟨⟨0, hn⟩⟩
  exact (Finset.sum_pos (fun i _ => wts_pos x s hS hν i) Finset.univ_nonempty).ne'

theorem isUnit_det_conj (A S : Matrix (Fin d) (Fin d) ℝ) (hA : IsUnit A.det) :
    IsUnit (A * S * Aᵀ).det ↔ IsUnit S.det := by
  have hA' : A.det ≠ 0 := hA.ne_zero
  simp only [det_mul, det_transpose, isUnit_iff_ne_zero, ne_eq, mul_eq_zero, hA', false_or, or_false]

theorem posDef_conj (A S : Matrix (Fin d) (Fin d) ℝ) (hA : IsUnit A.det) :
    (A * S * Aᵀ).PosDef ↔ S.PosDef := by
  have hU : IsUnit A := (Matrix.isUnit_iff_isUnit_det A).mpr hA
  have := Matrix.IsUnit.posDef_star_right_conjugate_iff (x := S) hU
  simpa [star_eq_conjTranspose] using this

/-- one iteration commutes with every invertible affine map: the `δ`'s (hence `opt_nu`'s answer) are the same,
    the updated state is the image of the updated state, and both exit tests decide the same -/
theorem C19_step_equivariant (A : Matrix (Fin d) (Fin d) ℝ) (b : Fin d → ℝ)
    (x : Fin n → Fin d → ℝ) (s : St d) (hA : IsUnit A.det) (hS : s.sigma.PosDef) (hn : 0 < n)
    {ν' : ℝ} (hν : 0 < ν') :
    delta (aff A b x) (s.map A b).mu (s.map A b).sigma = delta x s.mu s.sigma ∧
    update (aff A b x) (s.map A b) ν' = (update x s ν').map A b ∧
    (IsUnit (s.map A b).sigma.det ↔ IsUnit s.sigma.det) ∧
    (((update x s ν').map A b).sigma.PosDef ↔ (update x s ν').sigma.PosDef) := by
  refine ⟨delta_aff_eq A b x s hA, ?_, isUnit_det_conj A _ hA, posDef_conj A _ hA⟩
  have hw : wts (aff A b x) (s.map A b) ν' = wts x s ν' := by
    unfold wts; rw [delta_aff_eq A b x s hA]
  unfold update
  rw [hw]
  simp only [St.map]
  rw [muNext_aff A b x _ (sum_wts_ne_zero x s hS hν hn), sigmaNext_aff]

theorem C19_loop_equivariant (optNu : (Fin n → ℝ) → NuAns) (tol : ℝ) (A : Matrix (Fin d) (Fin d) ℝ)
    (b : Fin d → ℝ) (x : Fin n → Fin d → ℝ) (hA : IsUnit A.det)
    (hopt : ∀ δ ν, optNu δ = .val ν → 0 < ν) (hn : 0 < n)
    (k : ℕ) (s : St d) (hS : s.sigma.PosDef) (ν lastν : ℝ) :
    loop optNu tol (aff A b x) k (s.map A b) ν lastν =
      ((loop optNu tol x k s ν lastν).1.map (St.map A b), (loop optNu tol x k s ν lastν).2) := by
  induction k generalizing s ν lastν with
  | zero => simp [loop]
  | succ k ih =>
    unfold loop
    by_cases hc : tol < |lastν - ν|
    · rw [if_pos hc, if_pos hc]
      have hdet : IsUnit (s.map A b).sigma.det ↔ IsUnit s.sigma.det := isUnit_det_conj A _ hA
      by_cases hu : IsUnit s.sigma.det
      · rw [if_pos hu, if_pos (hdet.mpr hu), delta_aff_eq A b x s hA]
        cases h : optNu (delta x s.mu s.sigma) with
        | fail => rfl
        | inf => rfl
        | val ν' =>
          have hν := hopt _ _ h
          obtain ⟨-, hup, -, hpd⟩ := C19_step_equivariant A b x s hA hS hn hν
          have hpd' : (update (aff A b x) (s.map A b) ν').sigma.PosDef ↔ (update x s ν').sigma.PosDef := by
            rw [hup]; exact hpd
          by_cases hp : (update x s ν').sigma.PosDef
          · simp only [if_pos hp, if_pos (hpd'.mpr hp)]
            rw [hup, ih (update x s ν') hp ν' ν]
            rfl
          · simp only [if_neg hp, if_neg (fun h => hp (hpd'.mp h))]
            rfl
      · rw [if_neg hu, if_neg (fun h => hu (hdet.mp h))]
        rfl
    · rw [if_neg hc, if_neg hc]
      rfl

/-- every iterate of the loop — in particular the returned one, whichever exit is taken — has a positive
    definite scale matrix and a location inside the bounding box of the data, if the initial state has
    (no hypothesis on the data: a `new_Σ` that is not positive definite is never accepted) -/
theorem C19_loop_sound (optNu : (Fin n → ℝ) → NuAns) (tol : ℝ) (x : Fin n → Fin d → ℝ)
    (hopt : ∀ δ ν, optNu δ = .val ν → 0 < ν) (hn : 0 < n)
    (k : ℕ) (s : St d) (hS : s.sigma.PosDef) (hμ : InBox x s.mu) (ν lastν : ℝ) :
    ∀ s' ∈ (loop optNu tol x k s ν lastν).1, s'.sigma.PosDef ∧ InBox x s'.mu := by
  induction k generalizing s ν lastν with
  | zero => intro s' hs'; simp [loop] at hs'; subst hs'; exact ⟨hS, hμ⟩
  | succ k ih =>
    intro s' hs'
    unfold loop at hs'
    split_ifs at hs' with hc hu
    · cases h : optNu (delta x s.mu s.sigma) with
      | fail => simp [h] at hs'; subst hs'; exact ⟨hS, hμ⟩
      | inf => simp [h] at hs'; subst hs'; exact ⟨hS, hμ⟩
      | val ν1 =>
        have hν1 := hopt _ _ h
        simp only [h] at hs'
        split_ifs at hs' with hp
        · simp only [List.mem_cons] at hs'
          rcases hs' with rfl | hs'
          · exact ⟨hS, hμ⟩
          · exact ih (update x s ν1) hp (C19_mu_in_bbox x _ (wts_pos x s hS hν1) hn) ν1 ν s' hs'
        · simp at hs'; subst hs'; exact ⟨hS, hμ⟩
    · simp at hs'; subst hs'; exact ⟨hS, hμ⟩
    · simp at hs'; subst hs'; exact ⟨hS, hμ⟩

/-- for non-degenerate data the positive-definiteness exit is never taken: `new_Σ` is always positive definite -/
theorem update_posDef (x : Fin n → Fin d → ℝ) (s : St d) (hS : s.sigma.PosDef) {ν : ℝ} (hν : 0 < ν)
    (hx : NonDegenerate x) : (update x s ν).sigma.PosDef :=
  C19_sigma_pd x s.mu _ (wts_pos x s hS hν) (nonDegenerate_centred hx s.mu)

/-- the returned degrees of freedom lie in `(0, ∞]` (`none` = ∞) on every exit, given that `opt_nu` answers in
    `(0, ∞]` when it answers (a property of scipy's bisection bracket `[1e-300, 1e6]`, assumed here) -/
theorem C19_nu_range (optNu : (Fin n → ℝ) → NuAns) (tol : ℝ) (x : Fin n → Fin d → ℝ)
    (hopt : ∀ δ ν, optNu δ = .val ν → 0 < ν) (k : ℕ) (s : St d) (ν lastν : ℝ) (hν : 0 < ν) :
    ∀ ν', (loop optNu tol x k s ν lastν).2 = some ν' → 0 < ν' := by
  induction k generalizing s ν lastν with
  | zero => intro ν' h; simp [loop] at h; exact h ▸ hν
  | succ k ih =>
    intro ν' h
    unfold loop at h
    split_ifs at h with hc hu
    · cases h3 : optNu (delta x s.mu s.sigma) with
      | fail => simp [h3] at h; exact h ▸ hν
      | inf => simp [h3] at h
      | val ν1 =>
        simp only [h3] at h
        split_ifs at h with hp
        · exact ih (update x s ν1) ν1 ν (hopt _ _ h3) ν' h
        · simp at h; exact h ▸ hν
    · simp at h; exact h ▸ hν
    · simp at h; exact h ▸ hν

theorem loop_ne_nil (optNu : (Fin n → ℝ) → NuAns) (tol : ℝ) (x : Fin n → Fin d → ℝ)
    (k : ℕ) (s : St d) (ν lastν : ℝ) : (loop optNu tol x k s ν lastν).1 ≠ [] := by
  cases k with
  | zero => simp [loop]
  | succ k =>
    unfold loop
    split_ifs
    · cases optNu (delta x s.mu s.sigma) with
      | fail => simp
      | inf => simp
      | val ν1 => simp only []; split_ifs <;> simp
    · simp
    · simp

/-- a singular `Σ` (where `solve` raises) ends the loop at once with the state and `ν` it was entered with -/
theorem loop_singular (optNu : (Fin n → ℝ) → NuAns) (tol : ℝ) (x : Fin n → Fin d → ℝ)
    (k : ℕ) (s : St d) (hu : ¬ IsUnit s.sigma.det) (ν lastν : ℝ) :
    loop optNu tol x k s ν lastν = ([s], some ν) := by
  cases k with
  | zero => simp [loop]
  | succ k =>
    unfold loop
    by_cases hc : tol < |lastν - ν|
    · rw [if_pos hc, if_neg hu]
    · rw [if_neg hc]

/-! ### initialisation: coordinate-wise median, `cov·(n−1)/n + diag(var)/n` -/

noncomputable def colMean (x : Fin n → Fin d → ℝ) (a : Fin d) : ℝ := (∑ i, x i a) / (n : ℝ)

/-- `np.cov(data)` (`ddof = 1`) -/
noncomputable def covM (x : Fin n → Fin d → ℝ) : Matrix (Fin d) (Fin d) ℝ :=
  of fun a b => (∑ i, (x i a - colMean x a) * (x i b - colMean x b)) / ((n : ℝ) - 1)

/-- `np.var(data, axis=1)` (`ddof = 0`) -/
noncomputable def varV (x : Fin n → Fin d → ℝ) (a : Fin d) : ℝ := (∑ i, (x i a - colMean x a) ^ 2) / (n : ℝ)

noncomputable def initSigma (x : Fin n → Fin d → ℝ) : Matrix (Fin d) (Fin d) ℝ :=
  of fun a b => covM x a b * ((n : ℝ) - 1) / (n : ℝ) + (1 / (n : ℝ)) * diagonal (varV x) a b

/-- `med` stands for `np.median` of one coordinate (uninterpreted; see the hypotheses where it is used) -/
noncomputable def init (med : (Fin n → ℝ) → ℝ) (x : Fin n → Fin d → ℝ) : St d :=
  ⟨fun a => med fun i => x i a, initSigma x⟩

/-- monomial matrix: row `a` has the single entry `s a` in column `σ a`
    (coordinate permutation followed by per-coordinate scaling) -/
def mono (σ : Equiv.Perm (Fin d)) (s : Fin d → ℝ) : Matrix (Fin d) (Fin d) ℝ :=
  of fun a j => if j = σ a then s a else 0

theorem mono_mulVec (σ : Equiv.Perm (Fin d)) (s v : Fin d → ℝ) (a : Fin d) :
    (mono σ s *ᵥ v) a = s a * v (σ a) := by
  simp [mono, mulVec, dotProduct]

theorem mono_conj_apply (σ : Equiv.Perm (Fin d)) (s : Fin d → ℝ) (M : Matrix (Fin d) (Fin d) ℝ) (a c : Fin d) :
    (mono σ s * M * (mono σ s)ᵀ) a c = s a * s c * M (σ a) (σ c) := by
  simp [mono, Matrix.mul_apply]
  ring

theorem mono_isUnit_det (σ : Equiv.Perm (Fin d)) (s : Fin d → ℝ) (hs : ∀ a, s a ≠ 0) :
    IsUnit (mono σ s).det := by
  apply isUnit_det_of_right_inverse (B := of fun j a => if j = σ a then (s a)⁻¹ else 0)
  ext a c
  simp only [mono, Matrix.mul_apply, of_apply, one_apply]
  by_cases hac : a = c
  · subst hac; simp [hs a]
  · have hca : ¬ c = a := fun h => hac h.symm
    simp [hac, hca]

theorem aff_mono_apply (σ : Equiv.Perm (Fin d)) (s b : Fin d → ℝ) (x : Fin n → Fin d → ℝ) (i : Fin n) (a : Fin d) :
    aff (mono σ s) b x i a = s a * x i (σ a) + b a := by
  simp [aff, mono_mulVec]

theorem colMean_aff_mono (σ : Equiv.Perm (Fin d)) (s b : Fin d → ℝ) (x : Fin n → Fin d → ℝ) (hn : 0 < n)
    (a : Fin d) : colMean (aff (mono σ s) b x) a = s a * colMean x (σ a) + b a := by
  have hn' : (n : ℝ) ≠ 0 := by exact_mod_cast hn.ne'
  simp only [colMean, aff_mono_apply, Finset.sum_add_distrib, ← Finset.mul_sum, Finset.sum_const,
    Finset.card_univ, Fintype.card_fin, nsmul_eq_mul]
  field_simp

theorem initSigma_aff_mono (σ : Equiv.Perm (Fin d)) (s b : Fin d → ℝ) (x : Fin n → Fin d → ℝ) (hn : 0 < n) :
    initSigma (aff (mono σ s) b x) = mono σ s * initSigma x * (mono σ s)ᵀ := by
  ext a c
  rw [mono_conj_apply]
  have hcen : ∀ i e, aff (mono σ s) b x i e - colMean (aff (mono σ s) b x) e
      = s e * (x i (σ e) - colMean x (σ e)) := fun i e => by
    rw [colMean_aff_mono σ s b x hn, aff_mono_apply]; ring
  simp only [initSigma, covM, varV, of_apply, hcen, diagonal_apply]
  have e1 : ∑ i, s a * (x i (σ a) - colMean x (σ a)) * (s c * (x i (σ c) - colMean x (σ c)))
      = s a * s c * ∑ i, (x i (σ a) - colMean x (σ a)) * (x i (σ c) - colMean x (σ c)) := by
    rw [Finset.mul_sum]; exact Finset.sum_congr rfl fun i _ => by ring
  have e2 : ∑ i, (s a * (x i (σ a) - colMean x (σ a))) ^ 2
      = s a * s a * ∑ i, (x i (σ a) - colMean x (σ a)) ^ 2 := by
    rw [Finset.mul_sum]; exact Finset.sum_congr rfl fun i _ => by ring
  rw [e1, e2]
  by_cases hac : a = c
  · subst hac; simp; ring
  · have : σ a ≠ σ c := fun h => hac (σ.injective h)
    simp [hac, this]; ring

/-- the initial state transforms like the data under coordinate permutations, per-coordinate scalings
    (any sign) and translations; `hmed` is the corresponding (true) property of `np.median` -/
theorem C19_init_equivariant (med : (Fin n → ℝ) → ℝ)
    (hmed : ∀ (f : Fin n → ℝ) (a c : ℝ), med (fun i => a * f i + c) = a * med f + c)
    (σ : Equiv.Perm (Fin d)) (s b : Fin d → ℝ) (x : Fin n → Fin d → ℝ) (hn : 0 < n) :
    init med (aff (mono σ s) b x) = (init med x).map (mono σ s) b := by
  unfold init St.map
  congr 1
  · funext a
    simp only [aff_mono_apply, hmed, Pi.add_apply, mono_mulVec]
  · exact initSigma_aff_mono σ s b x hn


theorem initSigma_eq (x : Fin n → Fin d → ℝ) (hn : 2 ≤ n) :
    initSigma x = sigmaNext x (colMean x) (fun _ => 1) + (1 / (n : ℝ)) • diagonal (varV x) := by
  have h1 : ((n : ℝ) - 1) ≠ 0 := by
    have : (2 : ℝ) ≤ n := by exact_mod_cast hn
    linarith
  have h0 : (n : ℝ) ≠ 0 := by
    have : (2 : ℝ) ≤ n := by exact_mod_cast hn
    linarith
  ext a c
  simp only [initSigma, covM, sigmaNext, of_apply, Matrix.add_apply, Matrix.smul_apply, Matrix.sum_apply,
    vecMulVec_apply, Pi.sub_apply, one_smul, smul_eq_mul]
  field_simp

theorem varV_nonneg (x : Fin n → Fin d → ℝ) : 0 ≤ varV x := by
  intro a
  simp only [Pi.zero_apply, varV]
  exact div_nonneg (Finset.sum_nonneg fun i _ => sq_nonneg _) (Nat.cast_nonneg n)

/-- the initial scale matrix is positive definite for non-degenerate data -/
theorem initSigma_posDef (x : Fin n → Fin d → ℝ) (hx : NonDegenerate x) (hn : 2 ≤ n) :
    (initSigma x).PosDef := by
  rw [initSigma_eq x hn]
  refine PosDef.add_posSemidef ?_ ?_
  · exact C19_sigma_pd x _ _ (fun _ => one_pos) (nonDegenerate_centred hx _)
  · exact (PosSemidef.diagonal (varV_nonneg x)).smul (by positivity)

/-! ### the whole fit -/

theorem sigmaNext_posSemidef (x : Fin n → Fin d → ℝ) (μ : Fin d → ℝ) (w : Fin n → ℝ) (hw : ∀ i, 0 ≤ w i) :
    (sigmaNext x μ w).PosSemidef := by
  refine PosSemidef.of_dotProduct_mulVec_nonneg ?_ fun v => ?_
  · have := C19_sigma_symm x μ w
    simpa [Matrix.IsHermitian, Matrix.IsSymm] using this
  · simpa using C19_sigma_psd x μ w hw v

/-- the initial scale matrix is positive semidefinite for every data set … -/
theorem initSigma_posSemidef (x : Fin n → Fin d → ℝ) (hn : 2 ≤ n) : (initSigma x).PosSemidef := by
  rw [initSigma_eq x hn]
  exact (sigmaNext_posSemidef x _ _ fun _ => zero_le_one).add
    ((PosSemidef.diagonal (varV_nonneg x)).smul (by positivity))

/-- … hence positive definite as soon as it is non-singular (i.e. as soon as the first `solve` does not raise) -/
theorem initSigma_posDef_of_isUnit (x : Fin n → Fin d → ℝ) (hn : 2 ≤ n) (hu : IsUnit (initSigma x).det) :
    (initSigma x).PosDef :=
  (initSigma_posSemidef x hn).posDef_iff_isUnit.mpr ((Matrix.isUnit_iff_isUnit_det _).mpr hu)

/-- `fit_mvstud(data, tol, max_iter)`: all `(μ, Σ)` iterates and the returned `ν` (`none` = ∞) -/
noncomputable def fitTrace (optNu : (Fin n → ℝ) → NuAns) (med : (Fin n → ℝ) → ℝ) (tol : ℝ) (maxIter : ℕ)
    (x : Fin n → Fin d → ℝ) : List (St d) × Option ℝ :=
  loop optNu tol x maxIter (init med x) 20 0

/-- the returned triple `(μ, Σ, ν)` -/
noncomputable def fit (optNu : (Fin n → ℝ) → NuAns) (med : (Fin n → ℝ) → ℝ) (tol : ℝ) (maxIter : ℕ)
    (x : Fin n → Fin d → ℝ) : St d × Option ℝ :=
  ((fitTrace optNu med tol maxIter x).1.getLast (loop_ne_nil _ _ _ _ _ _ _), (fitTrace optNu med tol maxIter x).2)

theorem fit_singular (optNu : (Fin n → ℝ) → NuAns) (med : (Fin n → ℝ) → ℝ) (tol : ℝ) (maxIter : ℕ)
    (x : Fin n → Fin d → ℝ) (hu : ¬ IsUnit (initSigma x).det) :
    fitTrace optNu med tol maxIter x = ([init med x], some 20) ∧
    fit optNu med tol maxIter x = (init med x, some 20) := by
  have h : fitTrace optNu med tol maxIter x = ([init med x], some 20) :=
    loop_singular optNu tol x maxIter (init med x) hu 20 0
  refine ⟨h, ?_⟩
  unfold fit
  simp only [h, List.getLast_singleton]

/-- **well-posedness**, for EVERY data set with `n ≥ 2` (median inside the range of each coordinate, `opt_nu`
    answering in `(0, ∞]` when it answers), whichever exit the loop takes:
    * every iterate — in particular the returned one — has its location inside the bounding box and a symmetric
      positive semidefinite scale matrix;
    * the returned scale matrix is positive definite, except in the one degenerate case where the initial matrix is
      singular (some coordinate combination has zero spread), in which case the initial state and `ν = 20` are returned;
    * the returned `ν` is in `(0, ∞]`;
    * for non-degenerate data every iterate is positive definite. -/
theorem C19_fit_wellposed (optNu : (Fin n → ℝ) → NuAns) (med : (Fin n → ℝ) → ℝ) (tol : ℝ) (maxIter : ℕ)
    (x : Fin n → Fin d → ℝ) (hopt : ∀ δ ν, optNu δ = .val ν → 0 < ν)
    (hmedbox : ∀ f : Fin n → ℝ, ∃ i j, f i ≤ med f ∧ med f ≤ f j) (hn : 2 ≤ n) :
    (∀ s ∈ (fitTrace optNu med tol maxIter x).1, InBox x s.mu ∧ s.sigma.IsSymm ∧ s.sigma.PosSemidef) ∧
    (fit optNu med tol maxIter x).1 ∈ (fitTrace optNu med tol maxIter x).1 ∧
    ((fit optNu med tol maxIter x).1.sigma.PosDef ∨
      (¬ IsUnit (initSigma x).det ∧ fit optNu med tol maxIter x = (init med x, some 20))) ∧
    (∀ ν, (fit optNu med tol maxIter x).2 = some ν → 0 < ν) ∧
    (NonDegenerate x → ∀ s ∈ (fitTrace optNu med tol maxIter x).1, s.sigma.PosDef) := by
  have hsymm : ∀ M : Matrix (Fin d) (Fin d) ℝ, M.PosSemidef → M.IsSymm := fun M hM => by
    have hH := hM.isHermitian
    simpa [Matrix.IsHermitian, Matrix.IsSymm] using hH
  have hbox0 : InBox x (init med x).mu := fun a => hmedbox fun i => x i a
  have hmem : (fit optNu med tol maxIter x).1 ∈ (fitTrace optNu med tol maxIter x).1 := List.getLast_mem _
  have hnu : ∀ ν, (fit optNu med tol maxIter x).2 = some ν → 0 < ν :=
    C19_nu_range optNu tol x hopt maxIter (init med x) 20 0 (by norm_num)
  by_cases hu : IsUnit (initSigma x).det
  · have hall := C19_loop_sound optNu tol x hopt (by omega) maxIter (init med x)
      (initSigma_posDef_of_isUnit x hn hu) hbox0 20 0
    exact ⟨fun s hs => ⟨(hall s hs).2, hsymm _ (hall s hs).1.posSemidef, (hall s hs).1.posSemidef⟩, hmem,
      Or.inl (hall _ hmem).1, hnu, fun _ s hs => (hall s hs).1⟩
  · obtain ⟨h1, h2⟩ := fit_singular optNu med tol maxIter x hu
    refine ⟨fun s hs => ?_, hmem, Or.inr ⟨hu, h2⟩, hnu, fun hx => absurd ?_ hu⟩
    · rw [h1] at hs
      simp only [List.mem_singleton] at hs
      subst hs
      exact ⟨hbox0, hsymm _ (initSigma_posSemidef x hn), initSigma_posSemidef x hn⟩
    · exact (Matrix.isUnit_iff_isUnit_det _).mp (initSigma_posDef x hx hn).isUnit

/-- **equivariance**, for EVERY data set with `n ≥ 2`.  Under `y_i = A x_i + b` with `A` monomial (coordinate
    permutation × non-zero per-coordinate scalings) every iterate and the returned triple transform as
    `(A μ + b, A Σ Aᵀ, ν)`; `ν` and the exit taken are unchanged. -/
theorem C19_equivariant (optNu : (Fin n → ℝ) → NuAns) (med : (Fin n → ℝ) → ℝ) (tol : ℝ) (maxIter : ℕ)
    (x : Fin n → Fin d → ℝ) (hopt : ∀ δ ν, optNu δ = .val ν → 0 < ν)
    (hmed : ∀ (f : Fin n → ℝ) (a c : ℝ), med (fun i => a * f i + c) = a * med f + c)
    (hn : 2 ≤ n) (σ : Equiv.Perm (Fin d)) (s b : Fin d → ℝ) (hs : ∀ a, s a ≠ 0) :
    fitTrace optNu med tol maxIter (aff (mono σ s) b x) =
        ((fitTrace optNu med tol maxIter x).1.map (St.map (mono σ s) b), (fitTrace optNu med tol maxIter x).2) ∧
    fit optNu med tol maxIter (aff (mono σ s) b x) =
        ((fit optNu med tol maxIter x).1.map (mono σ s) b, (fit optNu med tol maxIter x).2) := by
  have hA := mono_isUnit_det σ s hs
  have h1 : fitTrace optNu med tol maxIter (aff (mono σ s) b x) =
      ((fitTrace optNu med tol maxIter x).1.map (St.map (mono σ s) b), (fitTrace optNu med tol maxIter x).2) := by
    unfold fitTrace
    rw [C19_init_equivariant med hmed σ s b x (by omega)]
    by_cases hu : IsUnit (initSigma x).det
    · exact C19_loop_equivariant optNu tol _ b x hA hopt (by omega) maxIter _
        (initSigma_posDef_of_isUnit x hn hu) 20 0
    · have hu' : ¬ IsUnit ((init med x).map (mono σ s) b).sigma.det :=
        fun h => hu ((isUnit_det_conj _ _ hA).mp h)
      rw [loop_singular _ _ _ _ _ hu', loop_singular _ _ _ _ _ (show ¬ IsUnit (init med x).sigma.det from hu)]
      rfl
  refine ⟨h1, ?_⟩
  unfold fit
  simp only [h1, List.getLast_map]

/-! ### `if ~np.isfinite(dof): dof = dof_fallback` -/

open Model.Student in
/-- the value handed to the kernel is finite; it is the fallback when the fit's `ν` was `inf` **or** NaN,
    and the fitted value otherwise -/
theorem C19_dof_fallback (fb : ℝ) (t : Dof ℝ) :
    (applyFallback fb t).isFinite = true ∧
    (t = .inf ∨ t = .nan → applyFallback fb t = .fin fb) ∧
    (∀ x, t = .fin x → applyFallback fb t = .fin x) := by
  cases t <;> simp [applyFallback, Dof.isFinite]

open Model.Student in
theorem C19_dof_fallback_iff (fb : ℝ) (t : Dof ℝ) :
    applyFallback fb t = .fin fb ↔ (t.isFinite = false ∨ t = .fin fb) := by
  cases t <;> simp [applyFallback, Dof.isFinite]



/-! ### link to the executable twin `Model/Student.lean` (evaluated at `ℝ`)

The list twin that the correspondence check runs against the Python computes, on the list form of the data,
exactly the matrix iteration the theorems above are about — provided its Gauss–Jordan inverse is the inverse. -/

section Twin
open Model.Student

theorem zipWith_ofFn {α β γ : Type} (g : α → β → γ) {m : ℕ} (f : Fin m → α) (h : Fin m → β) :
    List.zipWith g (List.ofFn f) (List.ofFn h) = List.ofFn fun i => g (f i) (h i) := by
  apply List.ext_getElem <;> simp

theorem sc_sum_ofFn {m : ℕ} (f : Fin m → ℝ) : Sc.sum (List.ofFn f) = ∑ i, f i := by
  unfold Sc.sum
  have : ∀ (l : List ℝ) (a : ℝ), l.foldl Sc.add a = a + l.sum := by
    intro l; induction l with
    | nil => intro a; simp
    | cons x xs ih => intro a; simp [ih, add_assoc]
  rw [this, List.sum_ofFn]; simp

theorem dot_ofFn {m : ℕ} (f g : Fin m → ℝ) : dot (List.ofFn f) (List.ofFn g) = ∑ i, f i * g i := by
  unfold dot vmul; rw [zipWith_ofFn, sc_sum_ofFn]; simp

theorem foldl_vadd_ofFn {m k : ℕ} (f : Fin k → Fin m → ℝ) (g : Fin m → ℝ) :
    (List.ofFn fun j => List.ofFn (f j)).foldl vadd (List.ofFn g) = List.ofFn fun i => g i + ∑ j, f j i := by
  induction k generalizing g with
  | zero => simp
  | succ k ih =>
    rw [List.ofFn_succ, List.foldl_cons]
    unfold vadd
    rw [zipWith_ofFn]
    have := ih (fun j => f j.succ) (fun i => g i + f 0 i)
    unfold vadd at this
    simp only [ScReal.add_def]
    rw [this]
    congr 1; funext i
    rw [Fin.sum_univ_succ]; ring

/-- list forms -/
def colsOf (x : Fin n → Fin d → ℝ) : List (List ℝ) := List.ofFn fun a => List.ofFn fun i => x i a
def vecOf {m : ℕ} (v : Fin m → ℝ) : List ℝ := List.ofFn v
def matOf (M : Matrix (Fin d) (Fin d) ℝ) : List (List ℝ) := List.ofFn fun a => List.ofFn fun b => M a b

theorem twin_diffs (x : Fin n → Fin d → ℝ) (μ : Fin d → ℝ) :
    diffs (colsOf x) (vecOf μ) = List.ofFn fun a => List.ofFn fun i => x i a - μ a := by
  unfold diffs colsOf vecOf
  rw [zipWith_ofFn]
  simp [List.map_ofFn, Function.comp_def]

theorem twin_lincomb {k m : ℕ} (c : Fin k → ℝ) (V : Fin k → Fin m → ℝ) :
    lincomb m (List.ofFn c) (List.ofFn fun j => List.ofFn (V j)) = List.ofFn fun i => ∑ j, c j * V j i := by
  unfold lincomb
  rw [zipWith_ofFn]
  have h0 : List.replicate m (Sc.zero : ℝ) = List.ofFn fun _ : Fin m => (0 : ℝ) := by
    apply List.ext_getElem <;> simp
  have h1 : (fun j => Model.Student.smul (c j) (List.ofFn (V j))) = fun j => List.ofFn fun i => c j * V j i := by
    funext j; unfold Model.Student.smul; simp [List.map_ofFn, Function.comp_def]
  rw [h0, h1, foldl_vadd_ofFn]
  simp

theorem twin_deltas (x : Fin n → Fin d → ℝ) (μ : Fin d → ℝ) (S : Matrix (Fin d) (Fin d) ℝ) :
    deltas n (diffs (colsOf x) (vecOf μ)) (matOf S⁻¹) = List.ofFn (delta x μ S) := by
  rw [twin_diffs]
  unfold deltas matOf
  simp only [List.map_ofFn, Function.comp_def, twin_lincomb]
  rw [zipWith_ofFn]
  have h0 : List.replicate n (Sc.zero : ℝ) = List.ofFn fun _ : Fin n => (0 : ℝ) := by
    apply List.ext_getElem <;> simp
  have h1 : (fun a : Fin d => vmul (List.ofFn fun i => x i a - μ a) (List.ofFn fun i => ∑ j, S⁻¹ a j * (x i j - μ j)))
      = fun a => List.ofFn fun i => (x i a - μ a) * ∑ j, S⁻¹ a j * (x i j - μ j) := by
    funext a; unfold vmul; rw [zipWith_ofFn]; simp
  rw [h0, h1, foldl_vadd_ofFn]
  congr 1; funext i
  simp [delta, maha, dotProduct, mulVec]

theorem twin_weights (ν : ℝ) (δ : Fin n → ℝ) :
    weights d ν (List.ofFn δ) = List.ofFn fun i => weight d ν (δ i) := by
  unfold weights weight; simp [List.map_ofFn, Function.comp_def]

theorem twin_update (x : Fin n → Fin d → ℝ) (μ : Fin d → ℝ) (w : Fin n → ℝ) :
    Model.Student.update n (colsOf x) (diffs (colsOf x) (vecOf μ)) (List.ofFn w)
      = (⟨vecOf (muNext x w), matOf (sigmaNext x μ w)⟩ : Model.Student.State ℝ) := by
  rw [twin_diffs]
  unfold Model.Student.update colsOf vecOf matOf
  simp only [List.map_ofFn, Function.comp_def, vmul, zipWith_ofFn, dot, sc_sum_ofFn, ScReal.mul_def,
    ScReal.div_def, ScReal.ofNat_def]
  congr 1
  · congr 1; funext a; rw [muNext_apply]
  · congr 1; funext a; congr 1; funext b
    simp [sigmaNext, Matrix.sum_apply, vecMulVec_apply, Finset.mul_sum, div_eq_inv_mul, mul_assoc]


/-- **link to the executable twin.**  One iteration of `Model.Student` at `ℝ` on the list form of the data is the
    matrix iteration `update` of this file, whenever the twin's Gauss–Jordan inverse of `Σ` is `Σ⁻¹`
    (the counterpart of trusting `np.linalg.solve`). -/
theorem C19_twin_step (x : Fin n → Fin d → ℝ) (s : St d) (ν : ℝ)
    (hinv : Model.Student.inv (matOf s.sigma) = some (matOf s.sigma⁻¹)) :
    Model.Student.step n (colsOf x) ⟨vecOf s.mu, matOf s.sigma⟩ ν
      = some ⟨vecOf (update x s ν).mu, matOf (update x s ν).sigma⟩ := by
  unfold Model.Student.step stateDeltas
  simp only [hinv, Option.map_some, twin_deltas]
  have hl : (colsOf x).length = d := by simp [colsOf]
  rw [hl, twin_weights, twin_update]
  rfl

/-- the hypothesis of `C19_twin_step` is satisfiable: the twin inverts a `2 × 2` scale matrix exactly -/
example : Model.Student.inv (matOf (!![2, 1; 1, 2] : Matrix (Fin 2) (Fin 2) ℝ))
    = some (matOf (!![2, 1; 1, 2] : Matrix (Fin 2) (Fin 2) ℝ)⁻¹) := by
  have h : (!![2, 1; 1, 2] : Matrix (Fin 2) (Fin 2) ℝ)⁻¹ = !![2 / 3, -1 / 3; -1 / 3, 2 / 3] := by
    apply Matrix.inv_eq_right_inv
    ext i j; fin_cases i <;> fin_cases j <;> simp <;> norm_num
  rw [h]
  simp [Model.Student.inv, matOf, gj, gjStep, identRow, List.zipIdx, List.range, List.range.loop]
  norm_num

end Twin

/-! ### non-vacuity: the hypotheses of the main theorems hold on concrete values -/

/-- two points on a line (`d = 1`, `n = 2`) -/
def exX : Fin 2 → Fin 1 → ℝ := ![![0], ![1]]
/-- `np.median` of two numbers -/
noncomputable def exMed (f : Fin 2 → ℝ) : ℝ := (f 0 + f 1) / 2

theorem exX_nonDegenerate : NonDegenerate exX := by
  intro v hv c
  have hv0 : v 0 ≠ 0 := fun h => hv (funext fun a => by rw [Subsingleton.elim a 0, h]; rfl)
  by_cases hc : c = 0
  · exact ⟨1, by simp [exX, dotProduct, hc, hv0]⟩
  · exact ⟨0, by simpa [exX, dotProduct] using Ne.symm hc⟩

theorem exMed_aff (f : Fin 2 → ℝ) (a c : ℝ) : exMed (fun i => a * f i + c) = a * exMed f + c := by
  unfold exMed; ring

theorem exMed_box (f : Fin 2 → ℝ) : ∃ i j, f i ≤ exMed f ∧ exMed f ≤ f j := by
  unfold exMed
  rcases le_total (f 0) (f 1) with h | h
  · exact ⟨0, 1, by linarith, by linarith⟩
  · exact ⟨1, 0, by linarith, by linarith⟩

example (tol : ℝ) (k : ℕ) :
    InBox exX (fit (fun _ => .val 3) exMed tol k exX).1.mu ∧
    (∀ s ∈ (fitTrace (fun _ => .val 3) exMed tol k exX).1, s.sigma.PosDef) :=
  let h := C19_fit_wellposed (fun _ => .val 3) exMed tol k exX (by intro δ ν h; cases h; norm_num)
    exMed_box le_rfl
  ⟨(h.1 _ h.2.1).1, h.2.2.2.2 exX_nonDegenerate⟩

/-- scaling by `-2` and shifting by `5`, whatever `opt_nu` does (a value, the `inf` early return, a failure) -/
example (tol : ℝ) (k : ℕ) (optNu : (Fin 2 → ℝ) → NuAns)
    (h : optNu = (fun _ => .val 3) ∨ optNu = (fun _ => .inf) ∨ optNu = fun _ => .fail) :
    fit optNu exMed tol k (aff (mono 1 ![-2]) ![5] exX) =
      ((fit optNu exMed tol k exX).1.map (mono 1 ![-2]) ![5], (fit optNu exMed tol k exX).2) :=
  (C19_equivariant optNu exMed tol k exX
    (by rcases h with rfl | rfl | rfl <;> intro δ ν h <;> simp at h; subst h; norm_num)
    exMed_aff le_rfl 1 ![-2] ![5]
    (by intro a; rw [Subsingleton.elim a 0]; norm_num)).2

/-- a degenerate data set (the same point twice): the initial matrix is singular, `solve` raises, and the fit
    returns the initial state with `ν = 20` — the second alternative of `C19_fit_wellposed` is the one that holds -/
def exD : Fin 2 → Fin 1 → ℝ := ![![1], ![1]]

example : ¬ IsUnit (initSigma exD).det := by
  have : initSigma exD = 0 := by
    ext a c
    have ha : a = 0 := Subsingleton.elim _ _
    have hc : c = 0 := Subsingleton.elim _ _
    subst ha hc
    simp [initSigma, covM, varV, colMean, exD, Fin.sum_univ_two]
  simp [this]

example (optNu : (Fin 2 → ℝ) → NuAns) (tol : ℝ) (k : ℕ) (hu : ¬ IsUnit (initSigma exD).det) :
    fit optNu exMed tol k exD = (init exMed exD, some 20) :=
  (fit_singular optNu exMed tol k exD hu).2

/-- a genuine coordinate swap with scalings of both signs is an admissible `A` -/
example : IsUnit (mono (Equiv.swap (0 : Fin 2) 1) ![2, -3]).det :=
  mono_isUnit_det _ _ (by intro a; fin_cases a <;> norm_num)

example (a : Fin 2) (v : Fin 2 → ℝ) :
    (mono (Equiv.swap (0 : Fin 2) 1) ![2, -3] *ᵥ v) a = ![2 * v 1, -3 * v 0] a := by
  rw [mono_mulVec]; fin_cases a <;> simp

/-- `δ` is invariant under a non-monomial invertible map as well -/
example (S : Matrix (Fin 2) (Fin 2) ℝ) (b μ : Fin 2 → ℝ) (x : Fin 3 → Fin 2 → ℝ) (i : Fin 3) :
    delta (aff !![1, 2; 0, 1] b x) (!![1, 2; 0, 1] *ᵥ μ + b) (!![1, 2; 0, 1] * S * !![1, 2; 0, 1]ᵀ) i
      = delta x μ S i :=
  C19_delta_affine_invariant _ S b μ x (by simp [det_fin_two]) i

/-- the guard of `C19_sigma_pd` holds for the two points at `μ = 1/2`, all weights `1` -/
example : (sigmaNext exX ![1 / 2] fun _ => 1).PosDef :=
  C19_sigma_pd exX _ _ (fun _ => one_pos) (nonDegenerate_centred exX_nonDegenerate _)

open Model.Student in
example : applyFallback (1e6 : ℝ) .nan = .fin 1e6 ∧ applyFallback (1e6 : ℝ) .inf = .fin 1e6 ∧
    applyFallback (1e6 : ℝ) (.fin 3.5) = .fin 3.5 := by
  simp [applyFallback, Dof.isFinite]

end Props.C19
