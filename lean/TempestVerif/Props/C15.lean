import TempestVerif.Model.EM
import TempestVerif.Model.HGMM
import TempestVerif.Lemmas.ScReal
import Mathlib.Tactic
/-
  C15 — mixture and hierarchical clustering invariants.
  Part 1 (any scalar type `[Sc α]`): the split loop of `HierarchicalGaussianMixture.fit` with the numerics
    supplied by an oracle — partition invariant, cluster cap, minimum child size, label assembly, and the
    range (and, at `ℝ`, first-maximum semantics) of `np.argmax` / `np.argmin` in `predict`.
  Part 2 (at `ℝ`): the M-step algebra of `GaussianMixture` as the code is now (no shrink in the means,
    `+eps` in the covariances): simplex, symmetric PSD covariances, mean in the bounding box, E-step rows,
    scale (in)variance under `sample_weight / sum`, integer weights ≡ replication.
  The initial soft assignment (log-domain, max-shifted) is a probability vector per row
  (`C15_init_rows_simplex_full`).  What is *not* proved: that every later E-step of a whole `fit` delivers
  finite responsibilities of positive total — scipy's density is outside the model.
-/
namespace Props.C15
open Model.HGMM Model.EM

/-! ## Part 1 — hierarchical split loop -/
section HGMM
variable {α : Type} [Sc α]

/-- what `child_gmm.predict(data)` returns for a two-component mixture: one label in {0,1} per member
    (that the labels are < 2 is `C15_predict_range` with K = 2) -/
def LabelsOK (members labels : List Nat) : Prop :=
  labels.length = members.length ∧ ∀ l ∈ labels, l < 2

/-- `clusters` is a partition of the index set `0 … n-1` -/
def IsPartition (n : Nat) (clusters : List (List Nat)) : Prop :=
  clusters.flatten.Perm (List.range n)

theorem pick_append_perm (members labels : List Nat) (h : LabelsOK members labels) :
    (pick members labels 0 ++ pick members labels 1).Perm members := by
  obtain ⟨hlen, hl⟩ := h
  unfold pick
  rw [← List.map_append]
  have hfst : (members.zip labels).map (fun p => p.1) = members := by
    simpa using List.map_fst_zip (l₁ := members) (l₂ := labels) (by omega)
  have hcongr : (members.zip labels).filter (fun p => p.2 == 1)
      = (members.zip labels).filter (fun p => !(p.2 == 0)) := by
    apply List.filter_congr
    intro p hp
    have h2 : p.2 < 2 := hl _ (List.of_mem_zip hp).2
    rcases p with ⟨a, b⟩
    simp only at h2 ⊢
    interval_cases b <;> simp
  rw [hcongr]
  have := List.filter_append_perm (fun p : Nat × Nat => p.2 == 0) (members.zip labels)
  have h2 := this.map (fun p => p.1)
  rw [hfst] at h2
  exact h2

/-- a recorded best split is sound with respect to the cluster list it was found in -/
def Good (oracle : Nat → List Nat → Entry α) (minPts : Nat) (clusters : List (List Nat))
    (b : Best α) : Prop :=
  ∃ c, clusters[b.parentIdx]? = some c ∧ minPts ≤ c.length ∧
    b.child1 = pick c (oracle b.parentIdx c).childLabels 0 ∧
    b.child2 = pick c (oracle b.parentIdx c).childLabels 1 ∧
    minPts ≤ b.child1.length ∧ minPts ≤ b.child2.length ∧
    Sc.lt (oracle b.parentIdx c).threshold (oracle b.parentIdx c).improvement = true

theorem examine_good (oracle : Nat → List Nat → Entry α) (minPts : Nat) (clusters : List (List Nat))
    (idx : Nat) (c : List Nat) (best : Option (Best α)) (hc : clusters[idx]? = some c)
    (hb : ∀ b, best = some b → Good oracle minPts clusters b) :
    ∀ b, examine oracle minPts idx c best = some b → Good oracle minPts clusters b := by
  intro b hex
  unfold examine at hex
  by_cases h1 : c.length < minPts
  · simp only [h1, if_true] at hex; exact hb b hex
  · simp only [h1, if_false] at hex
    by_cases h2 : (Sc.lt (oracle idx c).threshold (oracle idx c).improvement
        && beats (oracle idx c).improvement best) = true
    · simp only [h2, if_true] at hex
      by_cases h3 : (decide (minPts ≤ (pick c (oracle idx c).childLabels 0).length)
          && decide (minPts ≤ (pick c (oracle idx c).childLabels 1).length)) = true
      · simp only [h3, if_true] at hex
        injection hex with hex
        subst hex
        simp only [Bool.and_eq_true, decide_eq_true_eq] at h2 h3
        exact ⟨c, hc, by omega, rfl, rfl, h3.1, h3.2, h2.1⟩
      · simp only [h3] at hex; exact hb b hex
    · simp only [h2] at hex; exact hb b hex

theorem scan_good (oracle : Nat → List Nat → Entry α) (minPts : Nat) (clusters : List (List Nat)) :
    ∀ (cs : List (List Nat)) (idx : Nat) (best : Option (Best α)),
      (∀ j c, cs[j]? = some c → clusters[idx + j]? = some c) →
      (∀ b, best = some b → Good oracle minPts clusters b) →
      ∀ b, scan oracle minPts idx cs best = some b → Good oracle minPts clusters b := by
  intro cs
  induction cs with
  | nil => intro idx best _ hb b h; simp only [scan] at h; exact hb b h
  | cons c cs ih =>
    intro idx best hcs hb b h
    simp only [scan] at h
    apply ih (idx + 1) (examine oracle minPts idx c best) _ _ b h
    · intro j c' hj
      have := hcs (j + 1) c' (by simpa using hj)
      rw [← this]; congr 1; omega
    · exact examine_good oracle minPts clusters idx c best (by simpa using hcs 0 c (by simp)) hb

/-- **no accepted split leaves a child below the minimum size** (and the parent it replaces is a
    cluster of the current list, large enough to be examined, whose score passed the threshold) -/
theorem C15_min_points (oracle : Nat → List Nat → Entry α) (minPts : Nat) (clusters : List (List Nat))
    (b : Best α) (h : scan oracle minPts 0 clusters none = some b) :
    minPts ≤ b.child1.length ∧ minPts ≤ b.child2.length ∧ Good oracle minPts clusters b := by
  have hg := scan_good oracle minPts clusters clusters 0 none (by intro j c hj; simpa using hj)
    (by intro b hb; cases hb) b h
  have hg' := hg
  obtain ⟨c, _, _, _, _, h1, h2, _⟩ := hg'
  exact ⟨h1, h2, hg⟩

theorem flatten_applySplit_perm (clusters : List (List Nat)) (i : Nat) (c c1 c2 : List Nat)
    (hc : clusters[i]? = some c) (hp : (c1 ++ c2).Perm c) :
    (clusters.eraseIdx i ++ [c1, c2]).flatten.Perm clusters.flatten := by
  induction clusters generalizing i with
  | nil => simp at hc
  | cons c0 cs ih =>
    cases i with
    | zero =>
      simp only [List.getElem?_cons_zero, Option.some.injEq] at hc
      subst hc
      simp only [List.eraseIdx_cons_zero, List.flatten_append, List.flatten_cons, List.flatten_nil,
        List.append_nil]
      exact (List.perm_append_comm).trans (List.Perm.append_right _ hp)
    | succ i =>
      simp only [List.getElem?_cons_succ] at hc
      simp only [List.eraseIdx_cons_succ, List.cons_append, List.flatten_cons]
      exact List.Perm.append_left _ (ih i hc)

/-- **a split keeps the cluster list a partition**: the two children partition the parent's index list -/
theorem C15_split_preserves_partition (oracle : Nat → List Nat → Entry α) (n minPts : Nat)
    (clusters : List (List Nat)) (b : Best α)
    (hlab : ∀ idx c, minPts ≤ c.length → LabelsOK c (oracle idx c).childLabels)
    (hpart : IsPartition n clusters) (h : scan oracle minPts 0 clusters none = some b) :
    IsPartition n (applySplit clusters b) := by
  obtain ⟨_, _, c, hc, hlen, h1, h2, _⟩ := C15_min_points oracle minPts clusters b h
  have hp := pick_append_perm c _ (hlab b.parentIdx c hlen)
  rw [← h1, ← h2] at hp
  exact (flatten_applySplit_perm clusters b.parentIdx c b.child1 b.child2 hc hp).trans hpart

theorem length_applySplit (oracle : Nat → List Nat → Entry α) (minPts : Nat)
    (clusters : List (List Nat)) (b : Best α) (h : scan oracle minPts 0 clusters none = some b) :
    (applySplit clusters b).length = clusters.length + 1 := by
  obtain ⟨_, _, c, hc, _⟩ := C15_min_points oracle minPts clusters b h
  have hi : b.parentIdx < clusters.length := by
    by_contra hcon
    rw [List.getElem?_eq_none (by omega)] at hc; cases hc
  simp only [applySplit, List.length_append, List.length_eraseIdx, hi, if_true, List.length_cons,
    List.length_nil]
  omega

/-- loop invariant: partition, size bound, and "root only, or every cluster has at least `minPts` members" -/
theorem loop_inv (oracle : Nat → Nat → List Nat → Entry α) (n minPts : Nat)
    (hlab : ∀ it idx c, minPts ≤ c.length → LabelsOK c (oracle it idx c).childLabels) :
    ∀ (fuel it : Nat) (clusters : List (List Nat)),
      IsPartition n clusters →
      (clusters = [List.range n] ∨ ∀ c ∈ clusters, minPts ≤ c.length) →
      IsPartition n (loop oracle minPts fuel it clusters) ∧
      (loop oracle minPts fuel it clusters).length ≤ clusters.length + fuel ∧
      clusters.length ≤ (loop oracle minPts fuel it clusters).length ∧
      (loop oracle minPts fuel it clusters = [List.range n] ∨
        ∀ c ∈ loop oracle minPts fuel it clusters, minPts ≤ c.length) := by
  intro fuel
  induction fuel with
  | zero => intro it clusters hp hm; simp only [loop]; exact ⟨hp, by omega, le_refl _, hm⟩
  | succ fuel ih =>
    intro it clusters hp hm
    cases hs : scan (oracle (it + 1)) minPts 0 clusters none with
    | none => simp only [loop, hs]; exact ⟨hp, by omega, le_refl _, hm⟩
    | some b =>
      simp only [loop, hs]
      have hp' := C15_split_preserves_partition (oracle (it + 1)) n minPts clusters b (hlab (it + 1)) hp hs
      have hl' := length_applySplit (oracle (it + 1)) minPts clusters b hs
      obtain ⟨hc1, hc2, c, hc, hlen, _⟩ := C15_min_points (oracle (it + 1)) minPts clusters b hs
      have hm' : ∀ c' ∈ applySplit clusters b, minPts ≤ c'.length := by
        intro c' hc'
        simp only [applySplit, List.mem_append, List.mem_cons, List.not_mem_nil, or_false] at hc'
        rcases hc' with hmem | rfl | rfl
        · have hmem' := List.mem_of_mem_eraseIdx hmem
          rcases hm with hroot | hall
          · -- the root was the only cluster and it has just been removed
            subst hroot
            have hi : b.parentIdx = 0 := by
              by_contra hne
              rw [List.getElem?_eq_none (by simp; omega)] at hc; cases hc
            rw [hi] at hmem; simp at hmem
          · exact hall _ hmem'
        · exact hc1
        · exact hc2
      obtain ⟨r1, r2, r3, r4⟩ := ih (it + 1) (applySplit clusters b) hp' (Or.inr hm')
      exact ⟨r1, by omega, by omega, r4⟩

theorem isPartition_root (n : Nat) : IsPartition n [List.range n] := by
  simp [IsPartition]

/-- the final cluster list is a partition of the training indices -/
theorem C15_partition (oracle : Nat → Nat → List Nat → Entry α) (n minPts maxIt : Nat)
    (hlab : ∀ it idx c, minPts ≤ c.length → LabelsOK c (oracle it idx c).childLabels) :
    IsPartition n (fitClusters oracle n minPts maxIt) :=
  (loop_inv oracle n minPts hlab maxIt 0 [List.range n] (isPartition_root n) (Or.inl rfl)).1

/-- **the number of clusters never exceeds the cap**: `1 ≤ K ≤ max_iterations + 1` -/
theorem C15_cap (oracle : Nat → Nat → List Nat → Entry α) (n minPts maxIt : Nat)
    (hlab : ∀ it idx c, minPts ≤ c.length → LabelsOK c (oracle it idx c).childLabels) :
    1 ≤ (fitClusters oracle n minPts maxIt).length ∧ (fitClusters oracle n minPts maxIt).length ≤ maxIt + 1 := by
  obtain ⟨_, h2, h3, _⟩ :=
    loop_inv oracle n minPts hlab maxIt 0 [List.range n] (isPartition_root n) (Or.inl rfl)
  simp only [List.length_cons, List.length_nil] at h2 h3
  exact ⟨by unfold fitClusters; omega, by unfold fitClusters; omega⟩

/-- either nothing was split, or every final cluster has at least `min_points` members -/
theorem C15_min_points_final (oracle : Nat → Nat → List Nat → Entry α) (n minPts maxIt : Nat)
    (hlab : ∀ it idx c, minPts ≤ c.length → LabelsOK c (oracle it idx c).childLabels) :
    fitClusters oracle n minPts maxIt = [List.range n] ∨
      ∀ c ∈ fitClusters oracle n minPts maxIt, minPts ≤ c.length :=
  (loop_inv oracle n minPts hlab maxIt 0 [List.range n] (isPartition_root n) (Or.inl rfl)).2.2.2

/-! ### label assembly -/

theorem foldl_set_length (k : Nat) (c : List Nat) (labels : List (Option Nat)) :
    (c.foldl (fun l i => l.set i (some k)) labels).length = labels.length := by
  induction c generalizing labels with
  | nil => rfl
  | cons a c ih => simp [List.foldl_cons, ih]

theorem foldl_set_get (k : Nat) (c : List Nat) (labels : List (Option Nat)) (i : Nat)
    (hi : i < labels.length) :
    (c.foldl (fun l j => l.set j (some k)) labels)[i]? = if i ∈ c then some (some k) else labels[i]? := by
  induction c generalizing labels with
  | nil => simp
  | cons a c ih =>
    rw [List.foldl_cons, ih _ (by simpa using hi)]
    by_cases hm : i ∈ c
    · simp [hm]
    · by_cases hai : a = i
      · subst hai; simp [hm, hi]
      · have : ¬ i = a := fun h => hai h.symm
        simp [hm, this, hai]

theorem assignFrom_length (k : Nat) (cs : List (List Nat)) (labels : List (Option Nat)) :
    (assignFrom k cs labels).length = labels.length := by
  induction cs generalizing k labels with
  | nil => rfl
  | cons c cs ih => simp [assignFrom, ih, foldl_set_length]

theorem assignFrom_untouched (i : Nat) (cs : List (List Nat)) :
    ∀ (k : Nat) (labels : List (Option Nat)), i < labels.length → (∀ c ∈ cs, i ∉ c) →
      (assignFrom k cs labels)[i]? = labels[i]? := by
  induction cs with
  | nil => intro k labels _ _; rfl
  | cons c cs ih =>
    intro k labels hi hno
    simp only [assignFrom]
    rw [ih (k + 1) _ (by rw [foldl_set_length]; exact hi) (fun c' hc' => hno c' (List.mem_cons_of_mem _ hc')),
      foldl_set_get k c labels i hi]
    simp [hno c (List.mem_cons_self)]

theorem assignFrom_unique (i : Nat) (cs : List (List Nat)) :
    ∀ (k : Nat) (labels : List (Option Nat)) (j : Nat) (c : List Nat), i < labels.length →
      cs[j]? = some c → i ∈ c → (∀ j' c', cs[j']? = some c' → i ∈ c' → j' = j) →
      (assignFrom k cs labels)[i]? = some (some (k + j)) := by
  induction cs with
  | nil => intro k labels j c _ hc; simp at hc
  | cons c0 cs ih =>
    intro k labels j c hi hc hmem huniq
    simp only [assignFrom]
    cases j with
    | zero =>
      simp only [List.getElem?_cons_zero, Option.some.injEq] at hc
      subst hc
      rw [assignFrom_untouched i cs (k + 1) _ (by rw [foldl_set_length]; exact hi), foldl_set_get k _ labels i hi]
      · simp [hmem]
      · intro c' hc' hin
        obtain ⟨j', hj'⟩ := List.getElem?_of_mem hc'
        have := huniq (j' + 1) c' (by simpa using hj') hin
        omega
    | succ j =>
      simp only [List.getElem?_cons_succ] at hc
      rw [ih (k + 1) _ j c (by rw [foldl_set_length]; exact hi) hc hmem]
      · congr 2; omega
      · intro j' c' hj' hin
        have := huniq (j' + 1) c' (by simpa using hj') hin
        omega

theorem flatten_nodup_unique (cs : List (List Nat)) (hnd : cs.flatten.Nodup) (i : Nat) :
    ∀ (j j' : Nat) (c c' : List Nat), cs[j]? = some c → cs[j']? = some c' → i ∈ c → i ∈ c' → j' = j := by
  induction cs with
  | nil => intro j j' c c' h; simp at h
  | cons c0 cs ih =>
    rw [List.flatten_cons, List.nodup_append] at hnd
    obtain ⟨_, hnd2, hdisj⟩ := hnd
    have hflat : ∀ (j : Nat) (c : List Nat), cs[j]? = some c → i ∈ c → i ∈ cs.flatten := by
      intro j c hj hin
      exact List.mem_flatten.mpr ⟨c, List.mem_of_getElem? hj, hin⟩
    intro j j' c c' hj hj' hin hin'
    cases j with
    | zero =>
      cases j' with
      | zero => rfl
      | succ j' =>
        simp only [List.getElem?_cons_zero, Option.some.injEq] at hj
        simp only [List.getElem?_cons_succ] at hj'
        subst hj
        exact absurd rfl (hdisj i hin i (hflat j' c' hj' hin'))
    | succ j =>
      cases j' with
      | zero =>
        simp only [List.getElem?_cons_zero, Option.some.injEq] at hj'
        simp only [List.getElem?_cons_succ] at hj
        subst hj'
        exact absurd rfl (hdisj i hin' i (hflat j c hj hin))
      | succ j' =>
        simp only [List.getElem?_cons_succ] at hj hj'
        have := ih hnd2 j j' c c' hj hj' hin hin'
        omega

/-- label assembly over a partition: every point `i < n` receives exactly one label `k`, `k < K`,
    it is the index of the one cluster containing `i`, and no `-1` is left -/
theorem labels_total_of_partition (n : Nat) (clusters : List (List Nat)) (hp : IsPartition n clusters)
    (i : Nat) (hi : i < n) :
    ∃ k c, k < clusters.length ∧ (assemble n clusters)[i]? = some (some k) ∧ clusters[k]? = some c ∧ i ∈ c ∧
      ∀ k' c', clusters[k']? = some c' → i ∈ c' → k' = k := by
  have hnd : clusters.flatten.Nodup := hp.nodup_iff.mpr List.nodup_range
  have hin : i ∈ clusters.flatten := hp.mem_iff.mpr (List.mem_range.mpr hi)
  obtain ⟨c, hc, hic⟩ := List.mem_flatten.mp hin
  obtain ⟨k, hk⟩ := List.getElem?_of_mem hc
  have hklt : k < clusters.length := by
    by_contra hcon
    rw [List.getElem?_eq_none (by omega)] at hk; cases hk
  have huniq : ∀ k' c', clusters[k']? = some c' → i ∈ c' → k' = k :=
    fun k' c' hk' hin' => flatten_nodup_unique clusters hnd i k k' c c' hk hk' hic hin'
  refine ⟨k, c, hklt, ?_, hk, hic, huniq⟩
  have := assignFrom_unique i clusters 0 (List.replicate n none) k c (by simpa using hi) hk hic huniq
  simpa [assemble] using this

/-- **every training point gets exactly one label in `[0, K)`** -/
theorem C15_labels_total (oracle : Nat → Nat → List Nat → Entry α) (n minPts maxIt : Nat)
    (hlab : ∀ it idx c, minPts ≤ c.length → LabelsOK c (oracle it idx c).childLabels)
    (i : Nat) (hi : i < n) :
    (assemble n (fitClusters oracle n minPts maxIt)).length = n ∧
    ∃ k c, k < (fitClusters oracle n minPts maxIt).length ∧
      (assemble n (fitClusters oracle n minPts maxIt))[i]? = some (some k) ∧
      (fitClusters oracle n minPts maxIt)[k]? = some c ∧ i ∈ c ∧
      ∀ k' c', (fitClusters oracle n minPts maxIt)[k']? = some c' → i ∈ c' → k' = k :=
  ⟨by simp [assemble, assignFrom_length],
   labels_total_of_partition n _ (C15_partition oracle n minPts maxIt hlab) i hi⟩

/-! ### `predict`: `np.argmax` / `np.argmin` over K ≥ 1 columns -/

theorem argmaxFrom_lt (xs : List α) : ∀ (i bi : Nat) (bv : α), bi < i →
    argmaxFrom i bi bv xs < i + xs.length := by
  induction xs with
  | nil => intro i bi bv h; simpa [argmaxFrom] using h
  | cons x xs ih =>
    intro i bi bv h
    simp only [argmaxFrom, List.length_cons]
    split
    · have := ih (i + 1) i x (by omega); omega
    · have := ih (i + 1) bi bv (by omega); omega

theorem argminFrom_lt (xs : List α) : ∀ (i bi : Nat) (bv : α), bi < i →
    argminFrom i bi bv xs < i + xs.length := by
  induction xs with
  | nil => intro i bi bv h; simpa [argminFrom] using h
  | cons x xs ih =>
    intro i bi bv h
    simp only [argminFrom, List.length_cons]
    split
    · have := ih (i + 1) i x (by omega); omega
    · have := ih (i + 1) bi bv (by omega); omega

theorem argmax_range (row : List α) (h : row ≠ []) : ∃ k, argmax row = some k ∧ k < row.length := by
  cases row with
  | nil => exact absurd rfl h
  | cons x xs =>
    refine ⟨_, rfl, ?_⟩
    have := argmaxFrom_lt xs 1 0 x (by omega)
    simp only [List.length_cons]; omega

theorem argmin_range (row : List α) (h : row ≠ []) : ∃ k, argmin row = some k ∧ k < row.length := by
  cases row with
  | nil => exact absurd rfl h
  | cons x xs =>
    refine ⟨_, rfl, ?_⟩
    have := argminFrom_lt xs 1 0 x (by omega)
    simp only [List.length_cons]; omega

/-- **predicted labels lie in `[0, K)`** for arbitrary query points, on the mixture path (`argmax` of the
    probability matrix) and on the nearest-centre fallback (`argmin` of the distance matrix) -/
theorem C15_predict_range (K : Nat) (hK : 1 ≤ K) (P : List (List α)) (hP : ∀ row ∈ P, row.length = K) :
    (predict P).length = P.length ∧ (predictNearest P).length = P.length ∧
    (∀ l ∈ predict P, ∃ k, l = some k ∧ k < K) ∧ (∀ l ∈ predictNearest P, ∃ k, l = some k ∧ k < K) := by
  refine ⟨by simp [predict], by simp [predictNearest], ?_, ?_⟩
  · intro l hl
    simp only [predict, List.mem_map] at hl
    obtain ⟨row, hrow, rfl⟩ := hl
    have hne : row ≠ [] := by intro h; have := hP row hrow; rw [h] at this; simp at this; omega
    obtain ⟨k, hk, hlt⟩ := argmax_range row hne
    exact ⟨k, hk, by rw [← hP row hrow]; exact hlt⟩
  · intro l hl
    simp only [predictNearest, List.mem_map] at hl
    obtain ⟨row, hrow, rfl⟩ := hl
    have hne : row ≠ [] := by intro h; have := hP row hrow; rw [h] at this; simp at this; omega
    obtain ⟨k, hk, hlt⟩ := argmin_range row hne
    exact ⟨k, hk, by rw [← hP row hrow]; exact hlt⟩

end HGMM

/-- at `ℝ` the index returned by `argmax` holds a maximal entry, and it is the first one -/
theorem argmaxFrom_spec (xs : List ℝ) : ∀ (pre : List ℝ) (bi : Nat) (bv : ℝ),
    pre[bi]? = some bv → (∀ y ∈ pre, y ≤ bv) → (∀ j y, j < bi → pre[j]? = some y → y < bv) →
    ∃ v, (pre ++ xs)[argmaxFrom pre.length bi bv xs]? = some v ∧ (∀ y ∈ pre ++ xs, y ≤ v) ∧
      ∀ j y, j < argmaxFrom pre.length bi bv xs → (pre ++ xs)[j]? = some y → y < v := by
  induction xs with
  | nil =>
    intro pre bi bv h1 h2 h3
    exact ⟨bv, by simpa [argmaxFrom] using h1, by simpa using h2, by simpa [argmaxFrom] using h3⟩
  | cons x xs ih =>
    intro pre bi bv h1 h2 h3
    have hbi : bi < pre.length := by
      by_contra hcon
      rw [List.getElem?_eq_none (by omega)] at h1; cases h1
    simp only [argmaxFrom]
    have hl : (pre ++ [x]).length = pre.length + 1 := by simp
    by_cases hlt : bv < x
    · have hdec : Sc.lt bv x = true := by simpa using hlt
      simp only [hdec, if_true]
      have := ih (pre ++ [x]) pre.length x (by simp)
        (by intro y hy; rcases List.mem_append.mp hy with hy | hy
            · exact (h2 y hy).trans hlt.le
            · simp at hy; rw [hy])
        (by intro j y hj hy
            rw [List.getElem?_append_left hj] at hy
            exact lt_of_le_of_lt (h2 y (List.mem_of_getElem? hy)) hlt)
      rw [hl, List.append_assoc] at this
      simpa using this
    · have hdec : Sc.lt bv x = false := by simpa using hlt
      simp only [hdec]
      have := ih (pre ++ [x]) bi bv (by rw [List.getElem?_append_left hbi]; exact h1)
        (by intro y hy; rcases List.mem_append.mp hy with hy | hy
            · exact h2 y hy
            · simp at hy; rw [hy]; exact not_lt.mp hlt)
        (by intro j y hj hy
            rw [List.getElem?_append_left (by omega)] at hy
            exact h3 j y hj hy)
      rw [hl, List.append_assoc] at this
      simpa using this

/-- `np.argmax` semantics at `ℝ`: the chosen column holds the maximum and is the first to do so -/
theorem C15_argmax_is_first_max (row : List ℝ) (k : Nat) (h : argmax row = some k) :
    ∃ v, row[k]? = some v ∧ (∀ y ∈ row, y ≤ v) ∧ ∀ j y, j < k → row[j]? = some y → y < v := by
  cases row with
  | nil => simp [argmax] at h
  | cons x xs =>
    simp only [argmax, Option.some.injEq] at h
    have := argmaxFrom_spec xs [x] 0 x (by simp) (by simp) (by intro j y hj; omega)
    simpa [h] using this


/-! ## Part 2 — M-step algebra at `ℝ` -/
section EM
open Finset (range)

theorem sum_eq (l : List ℝ) : Sc.sum l = l.sum := by
  unfold Sc.sum
  have : ∀ (acc : ℝ), List.foldl Sc.add acc l = acc + l.sum := by
    induction l with
    | nil => intro acc; simp
    | cons a l ih => intro acc; simp [List.foldl_cons, ih, add_assoc]
  simpa using this 0

theorem mul_fun : (Sc.mul : ℝ → ℝ → ℝ) = fun a b => a * b := rfl

/-! ### shapes -/

theorem col_mem {β : Type} (M : List (List β)) (k : Nat) (x : β) (h : x ∈ col M k) :
    ∃ row ∈ M, x ∈ row := by
  simp only [col, List.mem_filterMap] at h
  obtain ⟨row, hrow, hx⟩ := h
  exact ⟨row, hrow, List.mem_of_getElem? hx⟩

theorem col_cons_getD (r : List ℝ) (D : List (List ℝ)) (a : Nat) (h : a < r.length) :
    col (r :: D) a = r.getD a 0 :: col D a := by
  simp [col, List.getElem?_eq_getElem h, List.getD_eq_getElem?_getD]

theorem col_length {β : Type} (M : List (List β)) (k : Nat) (h : ∀ row ∈ M, k < row.length) :
    (col M k).length = M.length := by
  induction M with
  | nil => rfl
  | cons r M ih =>
    have hr : k < r.length := h r (by simp)
    have := ih (fun row hrow => h row (List.mem_cons_of_mem _ hrow))
    simp only [col] at this
    simp [col, List.getElem?_eq_getElem hr, this]

theorem col_map (f : ℝ → ℝ) (M : List (List ℝ)) (k : Nat) :
    col (M.map fun row => row.map f) k = (col M k).map f := by
  induction M with
  | nil => rfl
  | cons r M ih =>
    simp only [col] at ih
    simp only [col, List.map_cons, List.filterMap_cons, List.getElem?_map]
    cases r[k]? <;> simp [ih]

theorem weightedResp_rows (R : List (List ℝ)) (s : List ℝ) (P : List ℝ → Prop)
    (hP : ∀ row ∈ R, ∀ a ∈ s, P (row.map fun r => r * a)) : ∀ row ∈ weightedResp R s, P row := by
  induction R generalizing s with
  | nil => simp [weightedResp]
  | cons r R ih =>
    cases s with
    | nil => simp [weightedResp]
    | cons a s =>
      intro row hrow
      simp only [weightedResp, List.zipWith_cons_cons, List.mem_cons] at hrow
      rcases hrow with rfl | hrow
      · exact hP r (by simp) a (by simp)
      · exact ih s (fun row h a ha => hP row (List.mem_cons_of_mem _ h) a (List.mem_cons_of_mem _ ha)) row hrow

theorem weightedResp_nonneg (R : List (List ℝ)) (s : List ℝ) (hR : ∀ row ∈ R, ∀ r ∈ row, 0 ≤ r)
    (hs : ∀ x ∈ s, 0 ≤ x) : ∀ row ∈ weightedResp R s, ∀ w ∈ row, 0 ≤ w := by
  apply weightedResp_rows R s (fun row => ∀ w ∈ row, 0 ≤ w)
  intro row hrow a ha w hw
  simp only [List.mem_map] at hw
  obtain ⟨x, hx, rfl⟩ := hw
  exact mul_nonneg (hR row hrow x hx) (hs a ha)

theorem weightedResp_row_length (K : Nat) (R : List (List ℝ)) (s : List ℝ) (hR : ∀ row ∈ R, row.length = K) :
    ∀ row ∈ weightedResp R s, row.length = K := by
  apply weightedResp_rows R s (fun row => row.length = K)
  intro row hrow a _
  simpa using hR row hrow

theorem weightedResp_length (R : List (List ℝ)) (s : List ℝ) :
    (weightedResp R s).length = min R.length s.length := by
  simp [weightedResp]

theorem wcol_nonneg (R : List (List ℝ)) (s : List ℝ) (k : Nat) (hR : ∀ row ∈ R, ∀ r ∈ row, 0 ≤ r)
    (hs : ∀ x ∈ s, 0 ≤ x) : ∀ w ∈ col (weightedResp R s) k, 0 ≤ w := by
  intro w hw
  obtain ⟨row, hrow, hin⟩ := col_mem _ _ _ hw
  exact weightedResp_nonneg R s hR hs row hrow w hin

/-! ### mixing weights -/

theorem normalise_simplex (S : List ℝ) (h0 : ∀ x ∈ S, 0 ≤ x) (ht : 0 < S.sum) :
    (∀ p ∈ normalise S, 0 ≤ p) ∧ Sc.sum (normalise S) = 1 := by
  constructor
  · intro p hp
    simp only [normalise, sum_eq, List.mem_map] at hp
    obtain ⟨x, hx, rfl⟩ := hp
    exact div_nonneg (h0 x hx) ht.le
  · simp only [normalise, sum_eq, ScReal.div_def]
    have : (S.map fun x => x / S.sum) = S.map (fun x => id x * (S.sum)⁻¹) := by simp [div_eq_mul_inv]
    rw [this, List.sum_map_mul_right]
    simpa using mul_inv_cancel₀ ht.ne'

/-- **mixing weights lie on the simplex**: `π_k ≥ 0`, `Σ_k π_k = 1`, K of them — whenever responsibilities
    and sample weights are non-negative and the total weighted responsibility is positive -/
theorem C15_mstep_weights_simplex (K : Nat) (R : List (List ℝ)) (s : List ℝ)
    (hR : ∀ row ∈ R, ∀ r ∈ row, 0 ≤ r) (hs : ∀ x ∈ s, 0 ≤ x)
    (htot : 0 < Sc.sum (colSums K (weightedResp R s))) :
    (∀ p ∈ mstepWeights K R s, 0 ≤ p) ∧ Sc.sum (mstepWeights K R s) = 1 ∧ (mstepWeights K R s).length = K := by
  rw [sum_eq] at htot
  have h0 : ∀ x ∈ colSums K (weightedResp R s), 0 ≤ x := by
    intro x hx
    simp only [colSums, List.mem_map] at hx
    obtain ⟨k, _, rfl⟩ := hx
    rw [sum_eq]
    exact List.sum_nonneg (wcol_nonneg R s k hR hs)
  obtain ⟨h1, h2⟩ := normalise_simplex _ h0 htot
  exact ⟨h1, h2, by simp [mstepWeights, normalise, colSums]⟩

theorem mstep_weights_eq (tiny eps : ℝ) (d K : Nat) (X R : List (List ℝ)) (s : List ℝ) :
    (mstep tiny eps d K X R s).weights = mstepWeights K R s := rfl

theorem mstep_means_eq (tiny eps : ℝ) (d K : Nat) (X R : List (List ℝ)) (s : List ℝ) :
    (mstep tiny eps d K X R s).means = mstepMeans tiny d K X R s := rfl

/-! ### means -/

theorem dot_bounds (lo hi : ℝ) : ∀ (ω xs : List ℝ), ω.length = xs.length → (∀ w ∈ ω, 0 ≤ w) →
    (∀ x ∈ xs, lo ≤ x ∧ x ≤ hi) →
    lo * ω.sum ≤ (List.zipWith (fun a b => a * b) ω xs).sum ∧
      (List.zipWith (fun a b => a * b) ω xs).sum ≤ hi * ω.sum := by
  intro ω
  induction ω with
  | nil => intro xs _ _ _; simp
  | cons w ω ih =>
    intro xs hlen hω hx
    cases xs with
    | nil => simp at hlen
    | cons x xs =>
      have hw : 0 ≤ w := hω w (by simp)
      obtain ⟨hx1, hx2⟩ := hx x (by simp)
      obtain ⟨i1, i2⟩ := ih xs (by simpa using hlen) (fun w h => hω w (List.mem_cons_of_mem _ h))
        (fun x h => hx x (List.mem_cons_of_mem _ h))
      simp only [List.zipWith_cons_cons, List.sum_cons]
      constructor <;> nlinarith [mul_le_mul_of_nonneg_left hx1 hw, mul_le_mul_of_nonneg_left hx2 hw]

/-- one coordinate of a component mean is a convex combination of that coordinate of the data -/
theorem wmean_in_bounds (tiny lo hi : ℝ) (ω xs : List ℝ) (hlen : ω.length = xs.length)
    (hω : ∀ w ∈ ω, 0 ≤ w) (htiny : 0 < tiny) (hS : tiny ≤ Sc.sum ω)
    (hx : ∀ x ∈ xs, lo ≤ x ∧ x ≤ hi) : lo ≤ wmean tiny ω xs ∧ wmean tiny ω xs ≤ hi := by
  rw [sum_eq] at hS
  have hpos : 0 < ω.sum := lt_of_lt_of_le htiny hS
  have hmax : Sc.max (Sc.sum ω) tiny = ω.sum := by rw [ScReal.max_def, sum_eq]; exact max_eq_left hS
  obtain ⟨h1, h2⟩ := dot_bounds lo hi ω xs hlen hω hx
  unfold wmean dot
  rw [hmax, sum_eq, mul_fun, ScReal.div_def]
  exact ⟨(le_div_iff₀ hpos).mpr h1, (div_le_iff₀ hpos).mpr h2⟩

/-- **the mean of a component of non-negligible weight lies in the data's bounding box**
    (coordinate `j` of component `k`; `lo`, `hi` any bounds on coordinate `j` of the data, in particular
    its minimum and maximum).  `S_k = Σ_i ω_ik ≥ tiny` is "non-negligible weight". -/
theorem C15_mean_in_bbox (tiny lo hi : ℝ) (d K : Nat) (X R : List (List ℝ)) (s : List ℝ) (k j : Nat)
    (hk : k < K) (hj : j < d)
    (hX : ∀ x ∈ X, x.length = d) (hRl : R.length = X.length) (hsl : s.length = X.length)
    (hRK : ∀ row ∈ R, row.length = K)
    (hR0 : ∀ row ∈ R, ∀ r ∈ row, 0 ≤ r) (hs0 : ∀ x ∈ s, 0 ≤ x)
    (htiny : 0 < tiny) (hS : tiny ≤ Sc.sum (col (weightedResp R s) k))
    (hbox : ∀ v ∈ col X j, lo ≤ v ∧ v ≤ hi) :
    ∃ m, ((mstepMeans tiny d K X R s)[k]?.bind (·[j]?)) = some m ∧ lo ≤ m ∧ m ≤ hi := by
  refine ⟨wmean tiny (col (weightedResp R s) k) (col X j), ?_, ?_⟩
  · simp [mstepMeans, meanVec, List.getElem?_map, List.getElem?_range hk, List.getElem?_range hj]
  · apply wmean_in_bounds tiny lo hi _ _ _ (wcol_nonneg R s k hR0 hs0) htiny hS hbox
    rw [col_length _ _ (fun row hrow => by rw [weightedResp_row_length K R s hRK row hrow]; exact hk),
      col_length _ _ (fun row hrow => by rw [hX row hrow]; exact hj), weightedResp_length]
    omega

/-! ### covariances -/

theorem scatter_nil_left (da db : List ℝ) : scatter [] da db = 0 := by
  simp [scatter, sum_eq]

theorem scatter_nil_mid (ω db : List ℝ) : scatter ω [] db = 0 := by
  simp [scatter, sum_eq]

theorem scatter_nil_right (ω da : List ℝ) : scatter ω da [] = 0 := by
  simp [scatter, sum_eq]

theorem scatter_cons (w x y : ℝ) (ω da db : List ℝ) :
    scatter (w :: ω) (x :: da) (y :: db) = w * x * y + scatter ω da db := by
  simp [scatter, sum_eq, mul_fun]

theorem scatter_comm : ∀ (ω da db : List ℝ), scatter ω da db = scatter ω db da := by
  intro ω
  induction ω with
  | nil => intro da db; rw [scatter_nil_left, scatter_nil_left]
  | cons w ω ih =>
    intro da db
    cases da with
    | nil => rw [scatter_nil_mid, scatter_nil_right]
    | cons x da =>
      cases db with
      | nil => rw [scatter_nil_mid, scatter_nil_right]
      | cons y db => rw [scatter_cons, scatter_cons, ih da db]; ring

/-- the quadratic form of the scatter matrix is `Σ_i ω_i (v·d_i)²`, hence non-negative -/
theorem scatter_quad_nonneg (d : Nat) (v : ℕ → ℝ) : ∀ (D : List (List ℝ)) (ω : List ℝ),
    (∀ w ∈ ω, 0 ≤ w) → (∀ r ∈ D, r.length = d) →
    0 ≤ ∑ a ∈ range d, ∑ b ∈ range d, v a * scatter ω (col D a) (col D b) * v b := by
  intro D
  induction D with
  | nil =>
    intro ω _ _
    have : ∀ a b, scatter ω (col ([] : List (List ℝ)) a) (col ([] : List (List ℝ)) b) = 0 := by
      intro a b; simp [col, scatter_nil_mid]
    simp [this]
  | cons r D ih =>
    intro ω hω hD
    cases ω with
    | nil => simp [scatter_nil_left]
    | cons w ω =>
      have hr : r.length = d := hD r (by simp)
      have hw : 0 ≤ w := hω w (by simp)
      have key : ∑ a ∈ range d, ∑ b ∈ range d,
            v a * scatter (w :: ω) (col (r :: D) a) (col (r :: D) b) * v b
          = w * (∑ a ∈ range d, v a * r.getD a 0) ^ 2
            + ∑ a ∈ range d, ∑ b ∈ range d, v a * scatter ω (col D a) (col D b) * v b := by
        rw [sq, Finset.sum_mul_sum, Finset.mul_sum, ← Finset.sum_add_distrib]
        apply Finset.sum_congr rfl
        intro a ha
        rw [Finset.mul_sum, ← Finset.sum_add_distrib]
        apply Finset.sum_congr rfl
        intro b hb
        rw [col_cons_getD r D a (by rw [hr]; exact Finset.mem_range.mp ha),
          col_cons_getD r D b (by rw [hr]; exact Finset.mem_range.mp hb), scatter_cons]
        ring
      rw [key]
      have := ih ω (fun w h => hω w (List.mem_cons_of_mem _ h)) (fun r h => hD r (List.mem_cons_of_mem _ h))
      positivity

theorem covFull_entry (eps : ℝ) (d : Nat) (ω : List ℝ) (D : List (List ℝ)) (a b : Nat)
    (ha : a < d) (hb : b < d) :
    ((covFull eps d ω D)[a]?.bind (·[b]?)) = some (covEntry eps ω D a b) := by
  simp [covFull, List.getElem?_map, List.getElem?_range ha, List.getElem?_range hb]

theorem covDiag_entry (eps : ℝ) (d : Nat) (ω : List ℝ) (D : List (List ℝ)) (a : Nat) (ha : a < d) :
    (covDiag eps d ω D)[a]? = some (covDiagEntry eps ω D a) := by
  simp [covDiag, List.getElem?_map, List.getElem?_range ha]

theorem diag_sum_nonneg : ∀ (ω xs : List ℝ), (∀ w ∈ ω, 0 ≤ w) →
    0 ≤ (List.zipWith (fun w x => w * (x * x)) ω xs).sum := by
  intro ω xs hω
  apply List.sum_nonneg
  intro y hy
  obtain ⟨i, hi, rfl⟩ := List.mem_iff_getElem.mp hy
  simp only [List.getElem_zipWith]
  exact mul_nonneg (hω _ (List.getElem_mem _)) (mul_self_nonneg _)

/-- **covariances are symmetric positive semidefinite** ('full': `C = Σ_i ω_i d_i d_iᵀ / (Σ_i ω_i + eps)`
    with `vᵀ C v = Σ_i ω_i (v·d_i)² / (Σ_i ω_i + eps) ≥ 0` for every `v`; 'diag': entries ≥ 0), for
    any non-negative weighted responsibilities `ω` and any difference rows `D` (whatever the mean is) -/
theorem C15_cov_sym_psd (eps : ℝ) (d : Nat) (ω : List ℝ) (D : List (List ℝ)) (heps : 0 < eps)
    (hω : ∀ w ∈ ω, 0 ≤ w) (hD : ∀ r ∈ D, r.length = d) :
    (∀ a b, covEntry eps ω D a b = covEntry eps ω D b a) ∧
    (∀ v : ℕ → ℝ, 0 ≤ ∑ a ∈ range d, ∑ b ∈ range d, v a * covEntry eps ω D a b * v b) ∧
    (∀ a, 0 ≤ covDiagEntry eps ω D a) := by
  have hS : 0 < ω.sum + eps := by have := List.sum_nonneg hω; linarith
  refine ⟨?_, ?_, ?_⟩
  · intro a b; simp only [covEntry]; rw [scatter_comm]
  · intro v
    have h := scatter_quad_nonneg d v D ω hω hD
    have e : ∑ a ∈ range d, ∑ b ∈ range d, v a * covEntry eps ω D a b * v b
        = (∑ a ∈ range d, ∑ b ∈ range d, v a * scatter ω (col D a) (col D b) * v b) / (ω.sum + eps) := by
      rw [Finset.sum_div]
      apply Finset.sum_congr rfl; intro a _
      rw [Finset.sum_div]
      apply Finset.sum_congr rfl; intro b _
      simp only [covEntry, sum_eq, ScReal.div_def, ScReal.add_def]
      ring
    rw [e]
    exact div_nonneg h hS.le
  · intro a
    simp only [covDiagEntry, sum_eq, ScReal.div_def, ScReal.add_def, mul_fun]
    exact div_nonneg (diag_sum_nonneg ω _ hω) hS.le

theorem meanVec_length (tiny : ℝ) (d : Nat) (ω : List ℝ) (X : List (List ℝ)) :
    (meanVec tiny d ω X).length = d := by simp [meanVec]

theorem diffRows_shape (d : Nat) (X : List (List ℝ)) (m : List ℝ) (hX : ∀ x ∈ X, x.length = d)
    (hm : m.length = d) : ∀ r ∈ diffRows X m, r.length = d := by
  intro r hr
  simp only [diffRows, List.mem_map] at hr
  obtain ⟨x, hx, rfl⟩ := hr
  simp [hX x hx, hm]

/-- the covariances the M-step returns for component `k` are `covFull` / `covDiag` of non-negative weighted
    responsibilities and well-shaped difference rows: `C15_cov_sym_psd` applies to them -/
theorem C15_mstep_cov_psd (tiny eps : ℝ) (d K : Nat) (X R : List (List ℝ)) (s : List ℝ) (k : Nat)
    (hk : k < K) (heps : 0 < eps) (hX : ∀ x ∈ X, x.length = d)
    (hR0 : ∀ row ∈ R, ∀ r ∈ row, 0 ≤ r) (hs0 : ∀ x ∈ s, 0 ≤ x) :
    ∃ (ω : List ℝ) (D : List (List ℝ)),
      (mstep tiny eps d K X R s).covFull[k]? = some (covFull eps d ω D) ∧
      (mstep tiny eps d K X R s).covDiag[k]? = some (covDiag eps d ω D) ∧
      (∀ a b, covEntry eps ω D a b = covEntry eps ω D b a) ∧
      (∀ v : ℕ → ℝ, 0 ≤ ∑ a ∈ range d, ∑ b ∈ range d, v a * covEntry eps ω D a b * v b) ∧
      (∀ a, 0 ≤ covDiagEntry eps ω D a) := by
  refine ⟨col (weightedResp R s) k,
    diffRows X (meanVec tiny d (col (weightedResp R s) k) X), ?_, ?_, ?_⟩
  · simp [mstep, List.getElem?_map, List.getElem?_range hk]
  · simp [mstep, List.getElem?_map, List.getElem?_range hk]
  · exact C15_cov_sym_psd eps d _ _ heps (wcol_nonneg R s k hR0 hs0)
      (diffRows_shape d X _ hX (meanVec_length tiny d _ X))

/-! ### E-step normalisation -/

/-- normalised responsibilities are non-negative and every row sums to `T/(T+eps) ≤ 1` -/
theorem C15_estep_rows (eps : ℝ) (P : List (List ℝ)) (heps : 0 < eps) (hP : ∀ row ∈ P, ∀ p ∈ row, 0 ≤ p) :
    ∀ row ∈ estepNormalise eps P, (∀ r ∈ row, 0 ≤ r) ∧ Sc.sum row ≤ 1 := by
  intro row hrow
  simp only [estepNormalise, List.mem_map] at hrow
  obtain ⟨p, hp, rfl⟩ := hrow
  have h0 : 0 ≤ p.sum := List.sum_nonneg (hP p hp)
  have ht : 0 < p.sum + eps := by linarith
  constructor
  · intro r hr
    simp only [List.mem_map] at hr
    obtain ⟨x, hx, rfl⟩ := hr
    simp only [sum_eq, ScReal.div_def, ScReal.add_def]
    exact div_nonneg (hP p hp x hx) ht.le
  · simp only [sum_eq, ScReal.div_def, ScReal.add_def]
    have : (p.map fun x => x / (p.sum + eps)) = p.map (fun x => id x * (p.sum + eps)⁻¹) := by
      simp [div_eq_mul_inv]
    rw [this, List.sum_map_mul_right, List.map_id, ← div_eq_mul_inv, div_le_one ht]
    linarith

/-! ### the soft assignment of `_initialize_parameters` (log-domain, shifted by the row maximum) -/

theorem rowMax_spec (xs : List ℝ) : ∀ x : ℝ, rowMax x xs ∈ x :: xs ∧ ∀ y ∈ x :: xs, y ≤ rowMax x xs := by
  induction xs with
  | nil => intro x; simp [rowMax]
  | cons a xs ih =>
    intro x
    have h := ih (Sc.max x a)
    simp only [rowMax, List.foldl_cons] at h ⊢
    rw [ScReal.max_def] at h ⊢
    obtain ⟨hm, hle⟩ := h
    constructor
    · rcases List.mem_cons.mp hm with hm | hm
      · rw [hm]
        rcases max_choice x a with h1 | h1 <;> simp [h1]
      · simp [hm]
    · intro y hy
      have hmx : max x a ≤ List.foldl Sc.max (max x a) xs := hle _ List.mem_cons_self
      rcases List.mem_cons.mp hy with rfl | hy
      · exact (le_max_left _ a).trans hmx
      · rcases List.mem_cons.mp hy with rfl | hy
        · exact (le_max_right x _).trans hmx
        · exact hle y (List.mem_cons_of_mem _ hy)

/-- after the shift every entry is in (0, 1] and the entry of the row maximum is exactly `exp 0 = 1`:
    the normaliser is ≥ 1, never 0 (this is what the `fix:` bought over the doubles) -/
theorem C15_init_shift_has_one (row : List ℝ) (h : row ≠ []) :
    (1 : ℝ) ∈ shiftExp row ∧ ∀ e ∈ shiftExp row, 0 < e ∧ e ≤ 1 := by
  cases row with
  | nil => exact absurd rfl h
  | cons x xs =>
    obtain ⟨hm, hle⟩ := rowMax_spec xs x
    simp only [shiftExp, List.mem_map, ScReal.exp_def, ScReal.sub_def]
    refine ⟨⟨rowMax x xs, hm, by simp⟩, ?_⟩
    rintro e ⟨l, hl, rfl⟩
    exact ⟨Real.exp_pos _, by rw [Real.exp_le_one_iff]; linarith [hle l hl]⟩

/-- **every row of the initial responsibilities is a probability vector** (entries ≥ 0, sum exactly 1),
    for every real matrix of log-values with K ≥ 1 columns -/
theorem C15_init_rows_simplex_full (L : List (List ℝ)) (hL : ∀ row ∈ L, row ≠ []) :
    ∀ row ∈ initNormalise L, (∀ r ∈ row, 0 ≤ r) ∧ Sc.sum row = 1 := by
  intro row hrow
  simp only [initNormalise, List.mem_map] at hrow
  obtain ⟨l, hl, rfl⟩ := hrow
  obtain ⟨h1, hpos⟩ := C15_init_shift_has_one l (hL l hl)
  have h0 : ∀ e ∈ shiftExp l, 0 ≤ e := fun e he => (hpos e he).1.le
  have ht : 0 < (shiftExp l).sum :=
    lt_of_lt_of_le one_pos (List.single_le_sum h0 1 h1)
  have := normalise_simplex (shiftExp l) h0 ht
  simpa [normalise] using this

theorem initNormalise_shape (L : List (List ℝ)) :
    (initNormalise L).length = L.length := by simp [initNormalise]

/-! ### a common positive factor in the sample weights (`sample_weight / np.sum(sample_weight)`) -/

theorem weightedResp_scale (c : ℝ) (R : List (List ℝ)) (s : List ℝ) :
    weightedResp R (s.map fun x => c * x) = (weightedResp R s).map fun row => row.map fun w => c * w := by
  induction R generalizing s with
  | nil => simp [weightedResp]
  | cons r R ih =>
    cases s with
    | nil => simp [weightedResp]
    | cons a s =>
      have := ih s
      simp only [weightedResp] at this
      simp only [weightedResp, List.map_cons, List.zipWith_cons_cons, List.map_map, mul_fun]
      congr 1
      apply List.map_congr_left
      intro x _
      simp only [Function.comp]; ring

theorem wcol_scale (c : ℝ) (R : List (List ℝ)) (s : List ℝ) (k : Nat) :
    col (weightedResp R (s.map fun x => c * x)) k = (col (weightedResp R s) k).map fun w => c * w := by
  rw [weightedResp_scale, col_map]

/-- **mixing weights do not depend on the scale of the sample weights** -/
theorem C15_mstep_weight_scale_invariant (c : ℝ) (hc : 0 < c) (K : Nat) (R : List (List ℝ)) (s : List ℝ) :
    mstepWeights K R (s.map fun x => c * x) = mstepWeights K R s := by
  have hS : colSums K (weightedResp R (s.map fun x => c * x))
      = (colSums K (weightedResp R s)).map fun x => c * x := by
    simp only [colSums, List.map_map]
    apply List.map_congr_left
    intro k _
    simp only [Function.comp, wcol_scale, sum_eq]
    rw [List.sum_map_mul_left]; simp
  simp only [mstepWeights, hS, normalise, sum_eq, List.map_map]
  apply List.map_congr_left
  intro x _
  simp only [Function.comp, ScReal.div_def]
  rw [List.sum_map_mul_left]
  simp only [List.map_id']
  exact mul_div_mul_left _ _ hc.ne'

theorem zipWith_scale_sum (c : ℝ) : ∀ (ω xs : List ℝ),
    (List.zipWith (fun a b => a * b) (ω.map fun w => c * w) xs).sum
      = c * (List.zipWith (fun a b => a * b) ω xs).sum := by
  intro ω
  induction ω with
  | nil => intro xs; simp
  | cons w ω ih =>
    intro xs
    cases xs with
    | nil => simp
    | cons x xs => simp only [List.map_cons, List.zipWith_cons_cons, List.sum_cons, ih xs]; ring

theorem scatter_scale (c : ℝ) : ∀ (ω da db : List ℝ),
    scatter (ω.map fun w => c * w) da db = c * scatter ω da db := by
  intro ω
  induction ω with
  | nil => intro da db; simp [scatter_nil_left]
  | cons w ω ih =>
    intro da db
    cases da with
    | nil => simp [scatter_nil_mid]
    | cons x da =>
      cases db with
      | nil => simp [scatter_nil_right]
      | cons y db => simp only [List.map_cons, scatter_cons, ih da db]; ring

/-- **means do not depend on the scale of the sample weights** as long as the `tiny` guard is inactive
    before and after scaling -/
theorem C15_mstep_mean_scale_invariant (c tiny : ℝ) (hc : 0 < c) (ω xs : List ℝ) (htiny : 0 < tiny)
    (h1 : tiny ≤ Sc.sum ω) (h2 : tiny ≤ c * Sc.sum ω) :
    wmean tiny (ω.map fun w => c * w) xs = wmean tiny ω xs := by
  rw [sum_eq] at h1 h2
  have hsum : (ω.map fun w => c * w).sum = c * ω.sum := by rw [List.sum_map_mul_left]; simp
  have hpos : 0 < ω.sum := lt_of_lt_of_le htiny h1
  unfold wmean dot
  rw [ScReal.max_def, ScReal.max_def, sum_eq, sum_eq, sum_eq, sum_eq, mul_fun, hsum, zipWith_scale_sum,
    max_eq_left h1, max_eq_left h2, ScReal.div_def, ScReal.div_def]
  exact mul_div_mul_left _ _ hc.ne'

/-- covariances carry the `+eps`: scaling the sample weights by `c` is the same as replacing `eps` by
    `eps / c`.  So they are scale invariant exactly only for `eps = 0`; with `eps = 1e-10` and normalised
    weights the two differ by the relative amount `eps·|1/c − 1| / (S + eps/c)`. -/
theorem C15_cov_scale (c eps : ℝ) (hc : 0 < c) (ω : List ℝ) (D : List (List ℝ)) (a b : Nat) :
    covEntry eps (ω.map fun w => c * w) D a b = covEntry (eps / c) ω D a b ∧
    covDiagEntry eps (ω.map fun w => c * w) D a = covDiagEntry (eps / c) ω D a := by
  have hsum : (ω.map fun w => c * w).sum = c * ω.sum := by rw [List.sum_map_mul_left]; simp
  have hden : c * ω.sum + eps = c * (ω.sum + eps / c) := by field_simp
  constructor
  · simp only [covEntry, sum_eq, ScReal.div_def, ScReal.add_def, scatter_scale, hsum, hden]
    exact mul_div_mul_left _ _ hc.ne'
  · have hd : ∀ xs : List ℝ, (List.zipWith (fun w x => w * (x * x)) (ω.map fun w => c * w) xs).sum
        = c * (List.zipWith (fun w x => w * (x * x)) ω xs).sum := by
      intro xs
      induction ω generalizing xs with
      | nil => simp
      | cons w ω ih =>
        cases xs with
        | nil => simp
        | cons x xs =>
          have hs' : (ω.map fun w => c * w).sum = c * ω.sum := by rw [List.sum_map_mul_left]; simp
          simp only [List.map_cons, List.zipWith_cons_cons, List.sum_cons]
          rw [ih hs' (by field_simp) xs]; ring
    simp only [covDiagEntry, sum_eq, ScReal.div_def, ScReal.add_def, mul_fun, hd, hsum, hden]
    exact mul_div_mul_left _ _ hc.ne'

/-- exact scale invariance of the covariances when there is no `eps` -/
theorem C15_cov_scale_eps0 (c : ℝ) (hc : 0 < c) (ω : List ℝ) (D : List (List ℝ)) (a b : Nat) :
    covEntry 0 (ω.map fun w => c * w) D a b = covEntry 0 ω D a b := by
  have := (C15_cov_scale c 0 hc ω D a b).1
  simpa using this
/-! ### integer sample weights ≡ replicated points -/

theorem replicateBy_nil_left {β : Type} (l : List β) : replicateBy [] l = [] := by simp [replicateBy]

theorem replicateBy_nil_right {β : Type} (c : List ℕ) : replicateBy c ([] : List β) = [] := by
  simp [replicateBy]

theorem replicateBy_cons {β : Type} (n : ℕ) (c : List ℕ) (x : β) (l : List β) :
    replicateBy (n :: c) (x :: l) = List.replicate n x ++ replicateBy c l := by simp [replicateBy]

/-- **integer weights are replication**: for natural-number weights `c_i`, every weighted sum
    `Σ_i c_i · g(x_i)` is the plain sum of `g` over the list in which `x_i` is repeated `c_i` times -/
theorem C15_replicate_equiv {β : Type} (g : β → ℝ) : ∀ (c : List ℕ) (l : List β),
    ((replicateBy c l).map g).sum = (List.zipWith (fun (ci : ℕ) x => (ci : ℝ) * g x) c l).sum := by
  intro c
  induction c with
  | nil => intro l; simp [replicateBy_nil_left]
  | cons n c ih =>
    intro l
    cases l with
    | nil => simp [replicateBy_nil_right]
    | cons x l =>
      simp only [replicateBy_cons, List.map_append, List.sum_append, List.map_replicate, List.sum_replicate,
        List.zipWith_cons_cons, List.sum_cons, ih l, nsmul_eq_mul]

theorem map_replicateBy {β γ : Type} (f : β → γ) : ∀ (c : List ℕ) (l : List β),
    (replicateBy c l).map f = replicateBy c (l.map f) := by
  intro c
  induction c with
  | nil => intro l; simp [replicateBy_nil_left]
  | cons n c ih =>
    intro l
    cases l with
    | nil => simp [replicateBy_nil_right]
    | cons x l => simp [replicateBy_cons, ih l]

theorem length_replicateBy {β : Type} : ∀ (c : List ℕ) (l : List β), c.length = l.length →
    (replicateBy c l).length = c.sum := by
  intro c
  induction c with
  | nil => intro l _; simp [replicateBy_nil_left]
  | cons n c ih =>
    intro l hl
    cases l with
    | nil => simp at hl
    | cons x l => simp [replicateBy_cons, ih l (by simpa using hl)]

theorem mem_replicateBy {β : Type} (y : β) : ∀ (c : List ℕ) (l : List β), y ∈ replicateBy c l → y ∈ l := by
  intro c
  induction c with
  | nil => intro l h; simp [replicateBy_nil_left] at h
  | cons n c ih =>
    intro l h
    cases l with
    | nil => simp [replicateBy_nil_right] at h
    | cons x l =>
      simp only [replicateBy_cons, List.mem_append, List.mem_replicate] at h
      rcases h with ⟨_, rfl⟩ | h
      · simp
      · exact List.mem_cons_of_mem _ (ih l h)

theorem col_cons_lt {β : Type} (r : List β) (M : List (List β)) (k : Nat) (h : k < r.length) :
    col (r :: M) k = r[k] :: col M k := by
  simp [col, List.getElem?_eq_getElem h]

theorem col_append {β : Type} (A B : List (List β)) (k : Nat) : col (A ++ B) k = col A k ++ col B k := by
  simp [col]

theorem col_replicate {β : Type} (n : ℕ) (r : List β) (k : Nat) (h : k < r.length) :
    col (List.replicate n r) k = List.replicate n r[k] := by
  induction n with
  | zero => simp [col]
  | succ n ih => rw [List.replicate_succ, col_cons_lt _ _ _ h, ih, List.replicate_succ]

theorem col_replicateBy {β : Type} (k : Nat) : ∀ (c : List ℕ) (M : List (List β)),
    (∀ row ∈ M, k < row.length) → col (replicateBy c M) k = replicateBy c (col M k) := by
  intro c
  induction c with
  | nil => intro M _; simp [replicateBy_nil_left, col]
  | cons n c ih =>
    intro M hM
    cases M with
    | nil => simp [replicateBy_nil_right, col]
    | cons r M =>
      have hr : k < r.length := hM r (by simp)
      rw [replicateBy_cons, col_append, col_replicate n r k hr, col_cons_lt r M k hr, replicateBy_cons,
        ih M (fun row h => hM row (List.mem_cons_of_mem _ h))]

/-- `weighted_resp[:, k] = responsibilities[:, k] * sample_weight` -/
theorem wcol_eq (k : Nat) : ∀ (R : List (List ℝ)) (s : List ℝ), (∀ row ∈ R, k < row.length) →
    col (weightedResp R s) k = List.zipWith (fun r a => r * a) (col R k) s := by
  intro R
  induction R with
  | nil => intro s _; simp [weightedResp, col]
  | cons r R ih =>
    intro s hR
    have hr : k < r.length := hR r (by simp)
    cases s with
    | nil => simp [weightedResp, col]
    | cons a s =>
      have := ih s (fun row h => hR row (List.mem_cons_of_mem _ h))
      simp only [weightedResp] at this
      simp only [weightedResp, List.zipWith_cons_cons]
      rw [col_cons_lt _ _ k (by simpa using hr), col_cons_lt r R k hr, this]
      simp

theorem zipWith_replicate_right (f : ℝ → ℝ → ℝ) (t : ℝ) : ∀ (l : List ℝ) (n : ℕ), l.length ≤ n →
    List.zipWith f l (List.replicate n t) = l.map fun x => f x t := by
  intro l
  induction l with
  | nil => intro n _; simp
  | cons x l ih =>
    intro n hn
    cases n with
    | zero => simp at hn
    | succ n => simp [List.replicate_succ, ih n (by simpa using hn)]

/-- the weighted column of component `k`: replicated unit-weight data … -/
theorem wcol_replicated (k : Nat) (t : ℝ) (c : List ℕ) (R : List (List ℝ)) (hR : ∀ row ∈ R, k < row.length)
    (hc : c.length = R.length) :
    col (weightedResp (replicateBy c R) (List.replicate c.sum t)) k
      = replicateBy c ((col R k).map fun r => r * t) := by
  rw [wcol_eq k _ _ (fun row h => hR row (mem_replicateBy row c R h)), col_replicateBy k c R hR,
    zipWith_replicate_right _ t _ _ (by
      rw [length_replicateBy c _ (by rw [col_length R k hR]; exact hc)]), map_replicateBy]

/-- … and integer-weighted original data -/
theorem wcol_weighted (k : Nat) (t : ℝ) : ∀ (c : List ℕ) (R : List (List ℝ)), (∀ row ∈ R, k < row.length) →
    col (weightedResp R (c.map fun (ci : ℕ) => (ci : ℝ) * t)) k
      = List.zipWith (fun (ci : ℕ) u => (ci : ℝ) * u) c ((col R k).map fun r => r * t) := by
  intro c R hR
  rw [wcol_eq k R _ hR]
  generalize col R k = u
  induction u generalizing c with
  | nil => simp
  | cons x u ih =>
    cases c with
    | nil => simp
    | cons n c => simp only [List.map_cons, List.zipWith_cons_cons, ih c]; congr 1; ring

/-- sums over replicated lists (`n` copies contribute `n` times) -/
theorem sum_rep (c : List ℕ) (u : List ℝ) :
    Sc.sum (replicateBy c u) = Sc.sum (List.zipWith (fun (ci : ℕ) x => (ci : ℝ) * x) c u) := by
  have := C15_replicate_equiv (fun x : ℝ => x) c u
  simpa [sum_eq] using this

theorem dot_rep : ∀ (c : List ℕ) (u xs : List ℝ),
    dot (replicateBy c u) (replicateBy c xs) = dot (List.zipWith (fun (ci : ℕ) x => (ci : ℝ) * x) c u) xs := by
  intro c
  induction c with
  | nil => intro u xs; simp [replicateBy_nil_left, dot]
  | cons n c ih =>
    intro u xs
    cases u with
    | nil => simp [replicateBy_nil_right, dot]
    | cons w u =>
      cases xs with
      | nil => simp [replicateBy_nil_right, dot]
      | cons x xs =>
        have ih' := ih u xs
        simp only [dot, sum_eq, mul_fun] at ih' ⊢
        rw [replicateBy_cons, replicateBy_cons, List.zipWith_append (by simp), List.sum_append, ih']
        simp [List.sum_replicate, nsmul_eq_mul, mul_assoc]

theorem scatter_rep : ∀ (c : List ℕ) (u da db : List ℝ),
    scatter (replicateBy c u) (replicateBy c da) (replicateBy c db)
      = scatter (List.zipWith (fun (ci : ℕ) x => (ci : ℝ) * x) c u) da db := by
  intro c
  induction c with
  | nil => intro u da db; simp [replicateBy_nil_left, scatter_nil_left]
  | cons n c ih =>
    intro u da db
    cases u with
    | nil => simp [replicateBy_nil_right, scatter_nil_left]
    | cons w u =>
      cases da with
      | nil => simp [replicateBy_nil_right, scatter_nil_mid]
      | cons x da =>
        cases db with
        | nil => simp [replicateBy_nil_right, scatter_nil_right]
        | cons y db =>
          have ih' := ih u da db
          simp only [List.zipWith_cons_cons, scatter_cons]
          rw [← ih']
          simp only [scatter, sum_eq, mul_fun]
          rw [replicateBy_cons, replicateBy_cons, replicateBy_cons, List.zipWith_append (by simp),
            List.zipWith_append (by simp), List.sum_append]
          simp [List.sum_replicate, nsmul_eq_mul, mul_assoc]

theorem diag_rep : ∀ (c : List ℕ) (u da : List ℝ),
    Sc.sum (List.zipWith (fun w x => Sc.mul w (Sc.mul x x)) (replicateBy c u) (replicateBy c da))
      = Sc.sum (List.zipWith (fun w x => Sc.mul w (Sc.mul x x))
          (List.zipWith (fun (ci : ℕ) x => (ci : ℝ) * x) c u) da) := by
  intro c
  induction c with
  | nil => intro u da; simp [replicateBy_nil_left]
  | cons n c ih =>
    intro u da
    cases u with
    | nil => simp [replicateBy_nil_right]
    | cons w u =>
      cases da with
      | nil => simp [replicateBy_nil_right]
      | cons x da =>
        have ih' := ih u da
        simp only [sum_eq, ScReal.mul_def] at ih' ⊢
        rw [replicateBy_cons, replicateBy_cons, List.zipWith_append (by simp), List.sum_append, ih']
        simp [List.sum_replicate, nsmul_eq_mul, mul_assoc]

/-- **the M-step factors through weighted sums, so integer weights and replication give the same
    parameters**: the M-step on the data with `x_i` (and its responsibilities) repeated `c_i` times, every
    copy carrying the weight `t`, returns exactly the weights, means and covariances ('full' and 'diag')
    of the M-step on the original data with sample weights `c_i · t`.
    (`GaussianMixture.fit` normalises the sample weights first: `c_i/Σc` on one side and `1/N` with
    `N = Σc` on the other, i.e. `t = 1/Σc` on both sides — so even the `+eps` terms agree.) -/
theorem C15_em_factors_through_wsum (tiny eps t : ℝ) (d K : Nat) (X R : List (List ℝ)) (c : List ℕ)
    (hX : ∀ x ∈ X, x.length = d) (hR : ∀ row ∈ R, row.length = K)
    (hcR : c.length = R.length) :
    mstep tiny eps d K (replicateBy c X) (replicateBy c R) (List.replicate c.sum t)
      = mstep tiny eps d K X R (c.map fun (ci : ℕ) => (ci : ℝ) * t) := by
  have hRk : ∀ k, k < K → ∀ row ∈ R, k < row.length := fun k hk row h => by rw [hR row h]; exact hk
  have hXj : ∀ j, j < d → ∀ x ∈ X, j < x.length := fun j hj x h => by rw [hX x h]; exact hj
  -- the three kinds of sums agree component by component
  have hsum : ∀ k, k < K →
      Sc.sum (col (weightedResp (replicateBy c R) (List.replicate c.sum t)) k)
        = Sc.sum (col (weightedResp R (c.map fun (ci : ℕ) => (ci : ℝ) * t)) k) := by
    intro k hk
    rw [wcol_replicated k t c R (hRk k hk) hcR, wcol_weighted k t c R (hRk k hk), sum_rep]
  have hmean : ∀ k, k < K →
      meanVec tiny d (col (weightedResp (replicateBy c R) (List.replicate c.sum t)) k) (replicateBy c X)
        = meanVec tiny d (col (weightedResp R (c.map fun (ci : ℕ) => (ci : ℝ) * t)) k) X := by
    intro k hk
    simp only [meanVec]
    apply List.map_congr_left
    intro j hj
    have hj' : j < d := List.mem_range.mp hj
    simp only [wmean]
    rw [hsum k hk, col_replicateBy j c X (hXj j hj'), wcol_replicated k t c R (hRk k hk) hcR,
      wcol_weighted k t c R (hRk k hk), dot_rep]
  have hdiff : ∀ m : List ℝ, diffRows (replicateBy c X) m = replicateBy c (diffRows X m) := by
    intro m; simp only [diffRows, map_replicateBy]
  have hDshape : ∀ m : List ℝ, m.length = d → ∀ a, a < d → ∀ r ∈ diffRows X m, a < r.length := by
    intro m hm a ha r hr
    rw [diffRows_shape d X m hX hm r hr]; exact ha
  simp only [mstep]
  congr 1
  · congr 1
    simp only [colSums]
    apply List.map_congr_left
    intro k hk
    exact hsum k (List.mem_range.mp hk)
  · apply List.map_congr_left
    intro k hk
    exact hmean k (List.mem_range.mp hk)
  · apply List.map_congr_left
    intro k hk
    have hk' : k < K := List.mem_range.mp hk
    simp only [hmean k hk', hdiff, covFull]
    apply List.map_congr_left
    intro a ha
    apply List.map_congr_left
    intro b hb
    have hm := meanVec_length tiny d (col (weightedResp R (c.map fun (ci : ℕ) => (ci : ℝ) * t)) k) X
    simp only [covEntry]
    rw [hsum k hk', col_replicateBy a c _ (hDshape _ hm a (List.mem_range.mp ha)),
      col_replicateBy b c _ (hDshape _ hm b (List.mem_range.mp hb)),
      wcol_replicated k t c R (hRk k hk') hcR, wcol_weighted k t c R (hRk k hk'), scatter_rep]
  · apply List.map_congr_left
    intro k hk
    have hk' : k < K := List.mem_range.mp hk
    simp only [hmean k hk', hdiff, covDiag]
    apply List.map_congr_left
    intro a ha
    have hm := meanVec_length tiny d (col (weightedResp R (c.map fun (ci : ℕ) => (ci : ℝ) * t)) k) X
    simp only [covDiagEntry]
    rw [hsum k hk', col_replicateBy a c _ (hDshape _ hm a (List.mem_range.mp ha)),
      wcol_replicated k t c R (hRk k hk') hcR, wcol_weighted k t c R (hRk k hk'), diag_rep]
/-- the form met in `GaussianMixture.fit`, which first divides the sample weights by their sum: counts `c_i`
    become `c_i / N`, the `N = Σ c_i` replicated unit weights become `1 / N` — the same factor on both sides -/
theorem C15_replicate_normalised (tiny eps : ℝ) (d K : Nat) (X R : List (List ℝ)) (c : List ℕ)
    (hX : ∀ x ∈ X, x.length = d) (hR : ∀ row ∈ R, row.length = K) (hcR : c.length = R.length) :
    mstep tiny eps d K (replicateBy c X) (replicateBy c R) (List.replicate c.sum (1 / (c.sum : ℝ)))
      = mstep tiny eps d K X R (c.map fun (ci : ℕ) => (ci : ℝ) / (c.sum : ℝ)) := by
  rw [C15_em_factors_through_wsum tiny eps (1 / (c.sum : ℝ)) d K X R c hX hR hcR]
  congr 1
  apply List.map_congr_left
  intro ci _
  ring

/-! ### non-vacuity: a concrete weighted data set (3 points in 1-D, 2 components) -/

noncomputable def exX : List (List ℝ) := [[1], [3], [5]]
noncomputable def exR : List (List ℝ) := [[1, 0], [1/2, 1/2], [0, 1]]
noncomputable def exS : List ℝ := [1, 2, 1]

example : mstepWeights 2 exR exS = [1/2, 1/2] := by
  simp [mstepWeights, normalise, colSums, weightedResp, col, Sc.sum, List.range_succ, exR, exS]
  norm_num

example : 0 < Sc.sum (colSums 2 (weightedResp exR exS)) := by
  simp [colSums, weightedResp, col, Sc.sum, List.range_succ, exR, exS]

example : mstepMeans (1/1000) 1 2 exX exR exS = [[2], [4]] := by
  simp [mstepMeans, meanVec, wmean, dot, weightedResp, col, Sc.sum, ScReal.max_def, List.range_succ,
    exX, exR, exS]
  norm_num

/-- the hypotheses of `C15_mean_in_bbox` hold for this data: component 0 has `S_0 = 2 ≥ tiny` and its
    mean 2 lies in the bounding box [1, 5] -/
example : ∃ m, ((mstepMeans (1/1000) 1 2 exX exR exS)[0]?.bind (·[0]?)) = some m ∧ 1 ≤ m ∧ m ≤ 5 := by
  apply C15_mean_in_bbox (1/1000) 1 5 1 2 exX exR exS 0 0 (by norm_num) (by norm_num)
  · simp [exX]
  · simp [exX, exR]
  · simp [exX, exS]
  · simp [exR]
  · simp [exR]
  · simp [exS]
  · norm_num
  · simp [weightedResp, col, Sc.sum, exR, exS]; norm_num
  · simp [col, exX]; norm_num

/-- the log soft assignment of a point 40 and 50 away from the two centres (`exp` of either underflows in
    doubles) and of a point at a centre: the hypothesis of `C15_init_rows_simplex_full` holds, rows sum to 1 -/
example : ∀ row ∈ initNormalise ([[-800, -1250], [0, -2]] : List (List ℝ)),
    (∀ r ∈ row, 0 ≤ r) ∧ Sc.sum row = 1 :=
  C15_init_rows_simplex_full _ (by simp)

example : shiftExp ([-800, -1250] : List ℝ) = [1, Real.exp (-450)] := by
  simp [shiftExp, rowMax, ScReal.max_def]
  norm_num

/-- a full covariance entry of the example (component 0, mean 2): (1·1 + 1·1)/(2 + 1/10) -/
example : covEntry (1/10) (col (weightedResp exR exS) 0) (diffRows exX [2]) 0 0 = 20/21 := by
  simp [covEntry, scatter, diffRows, weightedResp, col, Sc.sum, exX, exR, exS]
  norm_num

/-- integer weights (1, 2, 1) against the list with the middle point doubled -/
example : replicateBy [1, 2, 1] exX = [[1], [3], [3], [5]] := by
  simp [replicateBy, exX, List.replicate]

example : (mstep (1/1000) (1/10) 1 2 (replicateBy [1, 2, 1] exX) (replicateBy [1, 2, 1] exR)
      (List.replicate 4 (1/4))).weights = [1/2, 1/2] := by
  rw [show (4 : ℕ) = ([1, 2, 1] : List ℕ).sum by rfl,
    C15_em_factors_through_wsum (1/1000) (1/10) (1/4) 1 2 exX exR [1, 2, 1] (by simp [exX]) (by simp [exR])
      (by simp [exR])]
  simp [mstep, normalise, colSums, weightedResp, col, Sc.sum, List.range_succ, exR]
  norm_num

end EM

/-! ### non-vacuity of Part 1: a concrete run of the split loop (scores in `Rat`) -/
section Example

/-- in iteration 1 the root scores 5 against a threshold of 1 and is cut at index 3; later nothing passes -/
def exOracle : Nat → Nat → List Nat → Entry Rat :=
  fun it _ c => ⟨if it = 1 then 5 else 0, 1, c.map fun i => if i < 3 then 0 else 1⟩

example : ∀ it idx c, 2 ≤ c.length → LabelsOK c (exOracle it idx c).childLabels := by
  intro it idx c _
  refine ⟨by simp [exOracle], ?_⟩
  intro l hl
  simp only [exOracle, List.mem_map] at hl
  obtain ⟨i, _, rfl⟩ := hl
  split <;> omega

example : fitClusters exOracle 6 2 3 = [[0, 1, 2], [3, 4, 5]] := by decide +kernel
example : assemble 6 (fitClusters exOracle 6 2 3) = [some 0, some 0, some 0, some 1, some 1, some 1] := by
  decide +kernel
/-- with `min_points = 4` the same split would leave children of size 3 and is refused -/
example : fitClusters exOracle 6 4 3 = [[0, 1, 2, 3, 4, 5]] := by decide +kernel
/-- `max_iterations = 0`: the loop body never runs -/
example : fitClusters exOracle 6 2 0 = [[0, 1, 2, 3, 4, 5]] := by decide +kernel
example : argmax ([1, 3, 3, 2] : List Rat) = some 1 := by decide +kernel
example : argmin ([4, 3, 3, 5] : List Rat) = some 1 := by decide +kernel
example : predict ([[1, 3], [2, 2], [7, 0]] : List (List Rat)) = [some 1, some 0, some 0] := by decide +kernel

end Example

end Props.C15
