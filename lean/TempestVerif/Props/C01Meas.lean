import Mathlib.MeasureTheory.Integral.Lebesgue.Add
import Mathlib.MeasureTheory.Function.SpecialFunctions.Basic
import Mathlib.Analysis.SpecialFunctions.Pow.Real
import Mathlib.Data.ENNReal.BigOperators
import Mathlib.Tactic
/-
  C01 — the balance-heuristic identity on an ARBITRARY measurable state space (continuous targets), not only on a finite one.

  `μ` is the prior (any measure on `Ω`), `L > 0` a measurable likelihood, batch `t` has `n t` particles and density
  `q_t = L^{β_t} / z_t` with respect to `μ` (`z_t > 0`; `q_t` is a probability density exactly when `z_t = ∫ L^{β_t} dμ`,
  but the identity does not need that), and the weight is the code's `w = L^β / Σ_t (n_t/N) L^{β_t}/z_t`.
  Test functions are `[0, ∞]`-valued and integrals are Lebesgue integrals `∫⁻`, so NO integrability side condition is needed
  (a real bounded test function is the difference of two such).
-/
namespace Props.C01
open MeasureTheory ENNReal

section measure
variable {Ω T : Type} [MeasurableSpace Ω] [Fintype T]

/-- the mixture denominator `Σ_t (n_t/N) L(x)^{β_t} / z_t` -/
noncomputable def denC (L : Ω → ℝ) (n bt z : T → ℝ) (x : Ω) : ℝ := ∑ t, (n t / ∑ s, n s) * (L x ^ bt t / z t)

/-- the weight of `compute_logw_and_logz` in linear space, on any state space -/
noncomputable def wC (L : Ω → ℝ) (n bt z : T → ℝ) (β : ℝ) (x : Ω) : ℝ := L x ^ β / denC L n bt z x

omit [MeasurableSpace Ω] in
theorem denC_pos (L : Ω → ℝ) (hL : ∀ x, 0 < L x) (n bt z : T → ℝ) (hn : ∀ t, 0 ≤ n t) (hN : 0 < ∑ s, n s)
    (hz : ∀ t, 0 < z t) (x : Ω) : 0 < denC L n bt z x := by
  have hex : ∃ t, 0 < n t := by
    by_contra h
    simp only [not_exists, not_lt] at h
    have : ∑ s, n s ≤ 0 := Finset.sum_nonpos fun s _ => h s
    linarith
  obtain ⟨t0, ht0⟩ := hex
  apply Finset.sum_pos'
  · intro t _
    exact mul_nonneg (div_nonneg (hn t) hN.le) (div_nonneg (Real.rpow_nonneg (hL x).le _) (hz t).le)
  · exact ⟨t0, Finset.mem_univ _, mul_pos (div_pos ht0 hN) (div_pos (Real.rpow_pos_of_pos (hL x) _) (hz t0))⟩

/-- **the weighted pool is unbiased for the unnormalised target on any measurable space**: with batch `t` distributed with
    density `L^{β_t}/z_t` w.r.t. the prior `μ`,
        `Σ_t (n_t/N) ∫ q_t · f · w dμ  =  ∫ L^β · f dμ`
    for every measurable `f ≥ 0` and every target β.  With `f = 1` the mean unnormalised weight is `∫ L^β dμ = Z_β`. -/
theorem C01_mis_unbiased_measure (μ : Measure Ω) (L : Ω → ℝ) (hLm : Measurable L) (hL : ∀ x, 0 < L x)
    (n bt z : T → ℝ) (hn : ∀ t, 0 ≤ n t) (hN : 0 < ∑ s, n s) (hz : ∀ t, 0 < z t) (β : ℝ)
    (f : Ω → ℝ≥0∞) (hf : Measurable f) :
    ∑ t, ENNReal.ofReal (n t / ∑ s, n s) *
        ∫⁻ x, ENNReal.ofReal (L x ^ bt t / z t) * (f x * ENNReal.ofReal (wC L n bt z β x)) ∂μ
      = ∫⁻ x, ENNReal.ofReal (L x ^ β) * f x ∂μ := by
  have hwm : Measurable fun x => ENNReal.ofReal (wC L n bt z β x) := by
    apply ENNReal.measurable_ofReal.comp
    unfold wC denC
    exact (hLm.pow_const β).div (Finset.measurable_sum _ fun t _ =>
      measurable_const.mul ((hLm.pow_const (bt t)).div_const (z t)))
  have hterm : ∀ t, Measurable fun x => ENNReal.ofReal (L x ^ bt t / z t) * (f x * ENNReal.ofReal (wC L n bt z β x)) :=
    fun t => (ENNReal.measurable_ofReal.comp ((hLm.pow_const (bt t)).div_const (z t))).mul (hf.mul hwm)
  simp_rw [← lintegral_const_mul _ (hterm _)]
  rw [← lintegral_finsetSum _ fun t _ => (hterm t).const_mul _]
  refine lintegral_congr fun x => ?_
  have hd := denC_pos L hL n bt z hn hN hz x
  have hnonneg : ∀ t, 0 ≤ (n t / ∑ s, n s) * (L x ^ bt t / z t) := fun t =>
    mul_nonneg (div_nonneg (hn t) hN.le) (div_nonneg (Real.rpow_nonneg (hL x).le _) (hz t).le)
  have hsum : ∑ t, ENNReal.ofReal (n t / ∑ s, n s) * ENNReal.ofReal (L x ^ bt t / z t) = ENNReal.ofReal (denC L n bt z x) := by
    unfold denC
    rw [ENNReal.ofReal_sum_of_nonneg fun t _ => hnonneg t]
    refine Finset.sum_congr rfl fun t _ => ?_
    rw [ENNReal.ofReal_mul (div_nonneg (hn t) hN.le)]
  calc ∑ t, ENNReal.ofReal (n t / ∑ s, n s) * (ENNReal.ofReal (L x ^ bt t / z t) * (f x * ENNReal.ofReal (wC L n bt z β x)))
      = (∑ t, ENNReal.ofReal (n t / ∑ s, n s) * ENNReal.ofReal (L x ^ bt t / z t)) * (f x * ENNReal.ofReal (wC L n bt z β x)) := by
        rw [Finset.sum_mul]; refine Finset.sum_congr rfl fun t _ => ?_; ring
    _ = ENNReal.ofReal (denC L n bt z x) * (f x * ENNReal.ofReal (wC L n bt z β x)) := by rw [hsum]
    _ = ENNReal.ofReal (denC L n bt z x * wC L n bt z β x) * f x := by
        rw [ENNReal.ofReal_mul hd.le]; ring
    _ = ENNReal.ofReal (L x ^ β) * f x := by
        congr 2
        unfold wC
        field_simp

/-- `f = 1`: the expected mean unnormalised weight is the tempered normaliser `∫ L^β dμ` — on any state space -/
theorem C01_mean_weight_is_Z_measure (μ : Measure Ω) (L : Ω → ℝ) (hLm : Measurable L) (hL : ∀ x, 0 < L x)
    (n bt z : T → ℝ) (hn : ∀ t, 0 ≤ n t) (hN : 0 < ∑ s, n s) (hz : ∀ t, 0 < z t) (β : ℝ) :
    ∑ t, ENNReal.ofReal (n t / ∑ s, n s) *
        ∫⁻ x, ENNReal.ofReal (L x ^ bt t / z t) * ENNReal.ofReal (wC L n bt z β x) ∂μ
      = ∫⁻ x, ENNReal.ofReal (L x ^ β) ∂μ := by
  have := C01_mis_unbiased_measure μ L hLm hL n bt z hn hN hz β (fun _ => 1) measurable_const
  simpa using this

/-- non-vacuity: Lebesgue measure on the real line restricted to nothing in particular, the likelihood `exp(−x²/2)`
    (a continuous, bounded, positive likelihood), two batches of sizes 2 and 1 at β = 0 and β = 1/2, any positive `z` -/
example (f : ℝ → ℝ≥0∞) (hf : Measurable f) (μ : Measure ℝ) :
    ∑ t : Fin 2, ENNReal.ofReal ((![2, 1] : Fin 2 → ℝ) t / ∑ s, (![2, 1] : Fin 2 → ℝ) s) *
        ∫⁻ x, ENNReal.ofReal (Real.exp (-(x ^ 2) / 2) ^ (![0, 1/2] : Fin 2 → ℝ) t / (![1, 3] : Fin 2 → ℝ) t) *
          (f x * ENNReal.ofReal (wC (fun x => Real.exp (-(x ^ 2) / 2)) ![2, 1] ![0, 1/2] ![1, 3] 1 x)) ∂μ
      = ∫⁻ x, ENNReal.ofReal (Real.exp (-(x ^ 2) / 2) ^ (1 : ℝ)) * f x ∂μ :=
  C01_mis_unbiased_measure μ (fun x => Real.exp (-(x ^ 2) / 2)) (by fun_prop) (fun x => Real.exp_pos _)
    ![2, 1] ![0, 1/2] ![1, 3] (by intro t; fin_cases t <;> simp) (by simp [Fin.sum_univ_two]; norm_num)
    (by intro t; fin_cases t <;> simp) 1 f hf

end measure

end Props.C01
