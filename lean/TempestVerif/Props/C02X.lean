import TempestVerif.Props.C01X
import TempestVerif.Props.C02Stat
import Mathlib.MeasureTheory.MeasurableSpace.Basic
import Mathlib.Tactic
/-
  C02 on the EXTENDED whole-run model `Model.PipelineX` (both reweighting modes, clustering, the whole mutation loop, the
  loop guard and the epilogue of `run()`):

    C02_X_recorded_logz            every per-iteration logz is the mixture evidence functional at the iteration's OWN β over
                                   the history available then (so the z_t entering later mixtures are themselves estimates)
    C02_X_batches_nonempty         every stored batch of a run is non-empty (the well-formedness the C04 formulas need) —
                                   proved by induction over the run from a condition on the tapes only
    C02_X_evidence_reported        `run()` then `evidence()`: the number reported is log((1/N) Σ_s W_s) with
                                   W_s = exp(β·ℓ_s − log mixture(ℓ_s)) at β = 1 over ALL N particles of the final history,
                                   and it is what is stored in the state
    C02_X_runs_independent         the reported value of a run is a function of ITS OWN tape (the model's `runSamplingX` has no
                                   other input besides the configuration), so for tapes drawn independently the values of R
                                   runs are mutually independent — for ANY law of the tape; with `C02_mean_of_runs_mse` /
                                   `C02_runs_variance_general` (Props/C02Stat.lean) this is the 1/√R clause
-/
namespace Props.C02
open Model.Pipeline Model.PipelineX Model.Weights Model.Reweight Model.Kernel

/-! ### sizes: every committed batch is non-empty -/

/-- "every stored batch is non-empty" -/
def WFSX (s : XState ℝ) : Prop := ∀ xb ∈ s.hist, 1 ≤ xb.b.logl.length

/-- one iteration keeps it: the model leaves its domain (`none`) rather than commit an empty batch (`n_particles ≥ 1`) -/
theorem iterateX_WFS (cfg : XCfg ℝ) (s : XState ℝ) (t : XTape ℝ) (s1 : XState ℝ) (o : XOut ℝ)
    (hs : WFSX s) (h : iterateX cfg s t = some (s1, o)) : WFSX s1 := by
  have hne : s1.curL ≠ [] := by
    simp only [iterateX] at h
    generalize Model.Reweight.run cfg.rw (Model.PipelineX.batches s.hist).isEmpty
      (oracleMX cfg.rw.vv.isSome (Model.PipelineX.batches s.hist) t.metric)
      (oracleZ (Model.PipelineX.batches s.hist)) isFin s.beta = r at h
    split at h
    · cases h
    · by_cases hb : eqv r.beta Sc.zero = true
      · simp only [hb, if_true, Option.bind_eq_some_iff, Option.ite_none_left_eq_some, Option.some.injEq,
          Prod.mk.injEq] at h
        obtain ⟨us, _, l, _, hl, rfl, _⟩ := h
        simpa using hl
      · simp only [hb, Bool.false_eq_true, if_false, Option.bind_eq_some_iff, Option.ite_none_left_eq_some,
          Option.some.injEq, Prod.mk.injEq] at h
        obtain ⟨idx, _, us, _, l, _, m, _, hl, rfl, _⟩ := h
        simpa using hl
  obtain ⟨hh, _, _⟩ := Props.C01.C01_X_commit_appends_one cfg s t s1 o h
  intro xb hxb
  rw [hh, List.mem_append] at hxb
  rcases hxb with hxb | hxb
  · exact hs xb hxb
  · simp only [List.mem_singleton] at hxb
    subst hxb
    simp only
    exact Nat.one_le_iff_ne_zero.mpr (fun h0 => hne (List.length_eq_zero_iff.mp h0))

/-- **every stored batch of a run of the model is non-empty** — for every tape, with no side condition: the history of
    every run is one the C04 formulas (`C04_formula`, `C04_logz`, `C04_normalised`) apply to -/
theorem C02_X_batches_nonempty (cfg : XCfg ℝ) (ts : List (XTape ℝ)) :
    ∀ (s sf : XState ℝ) (os : List (XOut ℝ)), WFSX s → runItersX cfg s ts = some (sf, os) → WFSX sf := by
  induction ts with
  | nil => intro s sf os hs h; simp [runItersX] at h; rw [← h.1]; exact hs
  | cons t ts ih =>
    intro s sf os hs h
    simp only [runItersX, Option.bind_eq_some_iff, Option.map_eq_some_iff] at h
    obtain ⟨⟨s1, o⟩, hi, ⟨sf', os'⟩, hr, he⟩ := h
    have hs1 := iterateX_WFS cfg s t s1 o hs hi
    have := ih s1 sf' os' hs1 hr
    simp only [Prod.mk.injEq] at he
    rw [← he.1]; exact this

theorem WFSX_init : WFSX (initX : XState ℝ) := by intro xb hxb; simp [initX] at hxb

theorem WF_of_WFSX (s : XState ℝ) (hs : WFSX s) (hne : s.hist ≠ []) : Props.C04.WF (Model.PipelineX.batches s.hist) := by
  refine ⟨by simpa [Model.PipelineX.batches] using hne, ?_⟩
  intro b hb
  simp only [Model.PipelineX.batches, List.mem_map] at hb
  obtain ⟨xb, hxb, rfl⟩ := hb
  exact hs xb hxb

/-! ### what is recorded, what is reported -/

/-- the evidence an iteration records is the mixture evidence functional at the iteration's OWN β over the history
    available at that iteration, `log((1/N) Σ_s exp(β ℓ_s − log mixture(ℓ_s)))`, in BOTH reweighting modes; in an annealing
    iteration it is the value committed with the batch -/
theorem C02_X_recorded_logz (cfg : XCfg ℝ) (s : XState ℝ) (t : XTape ℝ) (s1 : XState ℝ) (o : XOut ℝ)
    (hs : WFSX s) (hne : s.hist ≠ []) (h : iterateX cfg s t = some (s1, o)) :
    o.logzRw = Props.C04.specLogz (Model.PipelineX.batches s.hist) o.beta ∧ (o.beta ≠ 0 → o.logz = o.logzRw) ∧
    ∃ xb, s1.hist = s.hist ++ [xb] ∧ xb.b.beta = o.beta ∧ xb.b.logz = o.logz := by
  have hwf := WF_of_WFSX s hs hne
  obtain ⟨_, h2, h3⟩ := Props.C01.C01_X_same_temperature cfg s t s1 o hne h
  obtain ⟨hh, _, _⟩ := Props.C01.C01_X_commit_appends_one cfg s t s1 o h
  refine ⟨?_, fun hb => ?_, _, hh, rfl, rfl⟩
  · rw [h2]; simp [oracleZ, Props.C04.C04_logz _ hwf]
  · obtain ⟨_, _, _, _, _, _, _, _, _, _, _, _, h4⟩ := h3 hb
    rw [h4, h2]

/-- **what `run()` followed by `evidence()` reports**: for EVERY tape the number is `log((1/N) Σ_s W_s)`, `W_s = exp(ℓ_s − log Σ_t (n_t/N) exp(β_t ℓ_s − z_t))` the unnormalised
    mixture-importance weights at β = 1 of ALL `N` particles stored during the run (C04's `specLogz`), it is written to the
    state, and the run was complete (`1 − β < tol`). -/
theorem C02_X_evidence_reported (cfg : XCfg ℝ) (tol nTot : ℝ) (ts : List (XTape ℝ))
    (sf : XState ℝ) (os : List (XOut ℝ)) (z : ℝ) (h : runSamplingX cfg tol nTot ts = some (sf, os, z)) :
    z = Props.C04.specLogz (Model.PipelineX.batches sf.hist) 1 ∧ sf.logz = z ∧ 1 - sf.beta < tol ∧
    z = Real.log ((1 / (nTotal (Model.PipelineX.batches sf.hist) : ℝ)) *
      ((flatLogl (Model.PipelineX.batches sf.hist)).map fun l =>
        Real.exp (Props.C04.specRaw (Model.PipelineX.batches sf.hist) 1 l)).sum) := by
  obtain ⟨s0, hr, hh, _, hz, hfe, hb, w0, hw0, _⟩ := Props.C01.C01_X_completed_run cfg tol nTot ts sf os z h
  have hs0 : WFSX s0 := C02_X_batches_nonempty cfg ts initX s0 os WFSX_init hr
  have hne : s0.hist ≠ [] := by
    intro he
    rw [hh, he] at hw0
    simp [Model.PipelineX.batches, logw, Model.Posterior.weights0] at hw0
  have hwf := WF_of_WFSX s0 hs0 hne
  have : z = Props.C04.specLogz (Model.PipelineX.batches s0.hist) 1 := by
    simp only [finalEvidenceX, ScReal.one_def] at hfe
    rw [Props.C04.C04_logz _ hwf 1 true] at hfe
    exact (Option.some.inj hfe).symm
  rw [hh]
  exact ⟨this, hz, hb, by rw [this]; rfl⟩

/-! ### runs driven by separate tapes -/

section indep
open MeasureTheory ProbabilityTheory

/-- A run's reported value is a function of ITS OWN tape: for tapes drawn independently (product measure, ANY tape law)
    the values reported by `R` runs are mutually independent.  `run` is any measurable function of the tape — below it is
    instantiated with the model's `runSamplingX`. -/
theorem C02_X_runs_independent {T E : Type} [MeasurableSpace T] [MeasurableSpace E] (μ : Measure T)
    [IsProbabilityMeasure μ] (R : ℕ) (run : T → E) (hrun : Measurable run) :
    iIndepFun (fun (r : Fin R) (ω : Fin R → T) => run (ω r)) (Measure.pi fun _ : Fin R => μ) :=
  iIndepFun_pi (μ := fun _ : Fin R => μ) (X := fun _ => run) (fun _ => hrun.aemeasurable)

/-- the evidence a model run reports, as a function of its tape list and nothing else (`none`: the run left the model) -/
noncomputable def reportedEvidence (cfg : XCfg ℝ) (tol nTot : ℝ) (ts : List (XTape ℝ)) : Option ℝ :=
  (runSamplingX cfg tol nTot ts).map fun r => r.2.2

/-- the discrete σ-algebra on tape lists and on reported values: EVERY function of the tape is measurable -/
@[instance_reducible] def tapeMS : MeasurableSpace (List (XTape ℝ)) := ⊤
@[instance_reducible] def valueMS : MeasurableSpace (Option ℝ) := ⊤
attribute [local instance] tapeMS valueMS

/-- non-vacuity, and the point of the statement: for every configuration and EVERY law of the tapes the evidences reported
    by `R` model runs driven by independently drawn tapes are mutually independent -/
example (cfg : XCfg ℝ) (tol nTot : ℝ) (R : ℕ) (μ : Measure (List (XTape ℝ))) [IsProbabilityMeasure μ] :
    iIndepFun (fun (r : Fin R) (ω : Fin R → List (XTape ℝ)) => reportedEvidence cfg tol nTot (ω r))
      (Measure.pi fun _ : Fin R => μ) :=
  C02_X_runs_independent μ R (reportedEvidence cfg tol nTot) measurable_from_top

end indep

/-! ### non-vacuity on the concrete run of `Props.C01.ExX` -/
section ex
open Props.C01

example : WFSX X_s2 := C02_X_batches_nonempty X_cfgX [X_t1, X_t2] initX X_s2 [X_o1, X_o2] WFSX_init X_run2

example : X_o2.logzRw = Props.C04.specLogz (Model.PipelineX.batches X_s1.hist) X_o2.beta ∧ (X_o2.beta ≠ 0 → X_o2.logz = X_o2.logzRw) ∧
    ∃ xb, X_s2.hist = X_s1.hist ++ [xb] ∧ xb.b.beta = X_o2.beta ∧ xb.b.logz = X_o2.logz :=
  C02_X_recorded_logz X_cfgX X_s1 X_t2 X_s2 X_o2
    (C02_X_batches_nonempty X_cfgX [X_t1] initX X_s1 [X_o1] WFSX_init (by simp [runItersX, X_it1])) (by simp [X_s1]) X_it2

example : X_z2 = Props.C04.specLogz (Model.PipelineX.batches ({ X_s2 with logz := X_z2 } : XState ℝ).hist) 1 ∧
    ({ X_s2 with logz := X_z2 } : XState ℝ).logz = X_z2 ∧ 1 - ({ X_s2 with logz := X_z2 } : XState ℝ).beta < X_tolX ∧
    X_z2 = Real.log ((1 / (nTotal (Model.PipelineX.batches ({ X_s2 with logz := X_z2 } : XState ℝ).hist) : ℝ)) *
      ((flatLogl (Model.PipelineX.batches ({ X_s2 with logz := X_z2 } : XState ℝ).hist)).map fun l =>
        Real.exp (Props.C04.specRaw (Model.PipelineX.batches ({ X_s2 with logz := X_z2 } : XState ℝ).hist) 1 l)).sum) :=
  C02_X_evidence_reported X_cfgX X_tolX 2 [X_t1, X_t2] _ _ X_z2 X_runS

end ex

end Props.C02
