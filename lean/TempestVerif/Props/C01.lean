import TempestVerif.Model.Pipeline
import Mathlib.Algebra.BigOperators.Field
import Mathlib.Tactic
/-
  C01 — weighted posterior samples estimate posterior expectations consistently (PARTIAL).
  (placeholder header; theorems follow)
-/
namespace Props.C01

/-- balance-heuristic identity on a finite space: with batch `t` drawn from `q t` (`n t` draws) and weights
    `f·g / Σ_s n_s q_s`, the summed expectation of the weighted test function is exactly `Σ_x f x · g x` -/
theorem C01_mis_identity {Ω T : Type} [Fintype Ω] [Fintype T] (n : T → ℝ) (q : T → Ω → ℝ) (g f : Ω → ℝ)
    (hpos : ∀ x, 0 < ∑ s, n s * q s x) :
    ∑ t, n t * ∑ x, q t x * (f x * g x / ∑ s, n s * q s x) = ∑ x, f x * g x := by
  simp_rw [Finset.mul_sum]; rw [Finset.sum_comm]
  refine Finset.sum_congr rfl fun x _ => ?_
  have h := (hpos x).ne'
  have : ∀ t, n t * (q t x * (f x * g x / ∑ s, n s * q s x))
      = (n t * q t x) * (f x * g x / ∑ s, n s * q s x) := by intro t; ring
  simp_rw [this, ← Finset.sum_mul]; field_simp

end Props.C01
