import TempestVerif.Model.Pipeline
import TempestVerif.Lemmas.ScReal
import TempestVerif.Lemmas.MIS
import TempestVerif.Lemmas.PipelineShift
import TempestVerif.Props.C04
import TempestVerif.Props.C05
import TempestVerif.Props.C06
import Mathlib.Algebra.BigOperators.Field
import Mathlib.Tactic
/-
  C01 — weighted posterior samples estimate posterior expectations consistently.      **PARTIAL**

  The statement is about the sampling distribution of an adaptive finite-particle estimator on continuous targets.
  What is proved here is its exact-arithmetic skeleton, on a finite state space `Ω` (prior mass `p`, likelihood `L`,
  `γ_β = p·L^β`, `Z_β = Σ γ_β`, `π_β = γ_β/Z_β`; definitions in `Lemmas/MIS.lean`) and on `Model.Pipeline`:

    C01_mis_identity, C01_mis_unbiased, C01_mean_weight_is_Z, C01_mis_unbiased_boundary
        balance-heuristic identity: with batch t distributed as π_{β_t} and exact recorded normalisers, the
        size-weighted mean of f·w over the batches is Σ γ_β f  (f = 1: the mean unnormalised weight is Z_β)
    C01_weight_bridge       exp(specRaw h β (log L x)) — the log-weight formula proved of the code's model in C04 —
                            IS that linear-space weight when z_t = log Z_{β_t}
    C01_support, C01_first_batch_beta_zero, C01_run_first_batch_beta_zero
        the identity's positivity hypothesis follows from one β = 0 batch, and every run's first batch has β = 0
    C01_kernel_invariance   detailed balance + stochastic rows ⇒ invariance (what C03 delivers for the mutation)
    C01_resample_unbiased (+ _syst, _mult)   expected empirical measure after resampling = weighted empirical measure
    C01_meanfield_step, C01_meanfield_fixed  the infinite-particle recursion keeps every batch law exactly π_{β_t} and
                            every recorded normaliser exactly Z_{β_t}, for ANY temperature schedule
    C01_pipeline_same_temperature, C01_commit_appends_one
        in `Model.Pipeline.iterate` weights, resampling, every accept/reject step and the committed (β, logz) belong
        to ONE β; exactly one batch is appended, earlier batches are untouched

  NOT a theorem (named, not proved): a rate for the deviation of the finite-N pipeline from the mean-field recursion
  (self-normalisation ratio, estimated normalisers z_t, data-dependent β) — the statement's "finite-particle allowance
  that shrinks as the particle count grows" — nor anything about continuous state spaces or floating point.
-/
namespace Props.C01
open Lemmas.MIS Model.Pipeline Model.Weights Model.Reweight

/-! ### balance-heuristic identity -/

/-- balance-heuristic identity on a finite space: with batch `t` drawn from `q t` (`n t` draws) and weights
    `f·g / Σ_s n_s q_s`, the summed expectation of the weighted test function is exactly `Σ_x f x · g x` -/
theorem C01_mis_identity {Ω T : Type} [Fintype Ω] [Fintype T] (n : T → ℝ) (q : T → Ω → ℝ) (g f : Ω → ℝ)
    (hpos : ∀ x, 0 < ∑ s, n s * q s x) :
    ∑ t, n t * ∑ x, q t x * (f x * g x / ∑ s, n s * q s x) = ∑ x, f x * g x := by
  simp_rw [Finset.mul_sum]; rw [Finset.sum_comm]
  refine Finset.sum_congr rfl fun x _ => ?_
  have h := (hpos x).ne'
  have : ∀ t, n t * (q t x * (f x * g x / ∑ s, n s * q s x))
      = (n t * q t x) * (f x * g x / ∑ s, n s * q s x) := by intro t; ring
  simp_rw [this, ← Finset.sum_mul]; field_simp

section mis
variable {Ω T : Type} [Fintype Ω] [Fintype T]

/-- **the weighted pool is unbiased for the unnormalised target** (positive likelihood): batches `t` of sizes `n t`
    with laws `π_{β_t}`, weight `w(x) = L(x)^β / Σ_t (n_t/N) L(x)^{β_t}/Z_{β_t}`:
    `Σ_t (n_t/N) E_{π_{β_t}}[f·w] = Σ_x γ_β(x) f(x)` for every test function `f` and every target β -/
theorem C01_mis_unbiased (p L : Ω → ℝ) (n bt : T → ℝ) (β : ℝ) (f : Ω → ℝ)
    (hp : ∀ x, 0 ≤ p x) (hp1 : ∃ x, 0 < p x) (hL : ∀ x, 0 < L x) (hn : ∀ t, 0 ≤ n t) (hN : 0 < ∑ s, n s) :
    ∑ t, (n t / ∑ s, n s) * ∑ x, piB p L (bt t) x * (f x * misW p L n bt β x) = ∑ x, gam p L β x * f x :=
  mis_core p L n bt β f fun x _ =>
    (den_pos p L n bt hn hN hL (fun t => Zf_pos p L hp hp1 hL (bt t)) x).ne'

/-- `f = 1`: the mean unnormalised weight is exactly `Z_β` -/
theorem C01_mean_weight_is_Z (p L : Ω → ℝ) (n bt : T → ℝ) (β : ℝ)
    (hp : ∀ x, 0 ≤ p x) (hp1 : ∃ x, 0 < p x) (hL : ∀ x, 0 < L x) (hn : ∀ t, 0 ≤ n t) (hN : 0 < ∑ s, n s) :
    ∑ t, (n t / ∑ s, n s) * ∑ x, piB p L (bt t) x * misW p L n bt β x = Zf p L β := by
  have := C01_mis_unbiased p L n bt β (fun _ => 1) hp hp1 hL hn hN
  simpa [Zf] using this

/-- hence the self-normalised estimator is a ratio of two exactly unbiased sums: numerator `Σ γ_β f`,
    denominator `Z_β`, whose ratio is the posterior expectation `Σ π_β f` -/
theorem C01_ratio_is_posterior_mean (p L : Ω → ℝ) (n bt : T → ℝ) (β : ℝ) (f : Ω → ℝ)
    (hp : ∀ x, 0 ≤ p x) (hp1 : ∃ x, 0 < p x) (hL : ∀ x, 0 < L x) (hn : ∀ t, 0 ≤ n t) (hN : 0 < ∑ s, n s) :
    (∑ t, (n t / ∑ s, n s) * ∑ x, piB p L (bt t) x * (f x * misW p L n bt β x)) /
      (∑ t, (n t / ∑ s, n s) * ∑ x, piB p L (bt t) x * misW p L n bt β x) = ∑ x, piB p L β x * f x := by
  rw [C01_mis_unbiased p L n bt β f hp hp1 hL hn hN, C01_mean_weight_is_Z p L n bt β hp hp1 hL hn hN,
    Finset.sum_div]
  refine Finset.sum_congr rfl fun x _ => ?_
  rw [piB]; ring

/-- the same identity for a likelihood that may VANISH on part of `Ω` (hard boundary inside the prior support),
    provided one batch has `β_t = 0` -/
theorem C01_mis_unbiased_boundary (p L : Ω → ℝ) (n bt : T → ℝ) (β : ℝ) (f : Ω → ℝ)
    (hp : ∀ x, 0 ≤ p x) (hp1 : ∃ x, 0 < p x) (hL : ∀ x, 0 ≤ L x) (hn : ∀ t, 0 ≤ n t)
    (t0 : T) (hb0 : bt t0 = 0) (hn0 : 0 < n t0) :
    ∑ t, (n t / ∑ s, n s) * ∑ x, piB p L (bt t) x * (f x * misW p L n bt β x) = ∑ x, gam p L β x * f x :=
  mis_core p L n bt β f fun x _ => (den_pos_of_beta_zero p L n bt hn hp hp1 hL t0 hb0 hn0 x).ne'

/-- **support**: the positivity hypothesis of `C01_mis_identity` (`0 < Σ_s n_s q_s(x)` with `q_s = π_{β_s}`) holds
    at every point of the prior's support as soon as one batch has `β = 0` — whatever the likelihood does there -/
theorem C01_support (p L : Ω → ℝ) (n bt : T → ℝ) (hp : ∀ x, 0 ≤ p x) (hL : ∀ x, 0 ≤ L x) (hn : ∀ t, 0 ≤ n t)
    (t0 : T) (hb0 : bt t0 = 0) (hn0 : 0 < n t0) (x : Ω) (hx : 0 < p x) :
    0 < ∑ s, n s * piB p L (bt s) x := by
  have hZ0 : 0 < Zf p L 0 := by
    rw [Zf_zero]; exact Finset.sum_pos' (fun x _ => hp x) ⟨x, Finset.mem_univ _, hx⟩
  apply Finset.sum_pos'
  · intro s _
    exact mul_nonneg (hn s) (div_nonneg (gam_nonneg p L hp hL _ x) (Zf_nonneg p L hp hL _))
  · refine ⟨t0, Finset.mem_univ _, mul_pos hn0 ?_⟩
    rw [piB, hb0, gam, Real.rpow_zero, mul_one]
    exact div_pos hx hZ0

/-- the identity through `C01_mis_identity` itself (strictly positive prior): same conclusion as
    `C01_mis_unbiased_boundary`, showing that `C01_support` is exactly the hypothesis that identity needs -/
theorem C01_mis_identity_applies (p L : Ω → ℝ) (n bt : T → ℝ) (β : ℝ) (f : Ω → ℝ)
    (hp : ∀ x, 0 < p x) (hL : ∀ x, 0 ≤ L x) (hn : ∀ t, 0 ≤ n t) (t0 : T) (hb0 : bt t0 = 0) (hn0 : 0 < n t0) :
    ∑ t, n t * ∑ x, piB p L (bt t) x * (f x * gam p L β x / ∑ s, n s * piB p L (bt s) x) = ∑ x, f x * gam p L β x :=
  C01_mis_identity n (fun t => piB p L (bt t)) (gam p L β) f
    fun x => C01_support p L n bt (fun x => (hp x).le) hL hn t0 hb0 hn0 x (hp x)

end mis

/-! ### the bridge to the code's log-weight formula (C04) -/

/-- `exp (specRaw h β (log L x))` — C04's `β ℓ − log Σ_t (n_t/N) exp(β_t ℓ − z_t)`, which `C04_formula` proves of the
    model of `compute_logw_and_logz` — is the linear-space weight `misW` when `ℓ = log L(x)` and every recorded
    `z_t` is the exact `log Z_{β_t}`; batches are indexed by their position in the history -/
theorem C01_weight_bridge {Ω : Type} [Fintype Ω] (p L : Ω → ℝ) (h : List (Batch ℝ)) (hwf : Props.C04.WF h)
    (hz : ∀ b ∈ h, b.logz = Real.log (Zf p L b.beta)) (hZ : ∀ b ∈ h, 0 < Zf p L b.beta)
    (β : ℝ) (x : Ω) (hL : 0 < L x) :
    Real.exp (Props.C04.specRaw h β (Real.log (L x)))
      = misW p L (fun t : Fin h.length => (h[t.1].logl.length : ℝ)) (fun t : Fin h.length => h[t.1].beta) β x := by
  have hN : (nTotal h : ℝ) = ∑ s : Fin h.length, (h[s.1].logl.length : ℝ) := by
    rw [Fin.sum_univ_fun_getElem h (fun b => (b.logl.length : ℝ))]
    simp [nTotal, Nat.cast_list_sum, List.map_map, Function.comp_def]
  have hmix : Props.C04.mix h (Real.log (L x))
      = den p L (fun t : Fin h.length => (h[t.1].logl.length : ℝ)) (fun t : Fin h.length => h[t.1].beta) x := by
    unfold Props.C04.mix den
    rw [← hN, Fin.sum_univ_fun_getElem h
      (fun b => (b.logl.length : ℝ) / (nTotal h : ℝ) * (L x ^ b.beta / Zf p L b.beta))]
    congr 1
    apply List.map_congr_left
    intro b hb
    rw [hz b hb, Real.exp_sub, Real.exp_log (hZ b hb), Real.rpow_def_of_pos hL, mul_comm b.beta]
  unfold Props.C04.specRaw misW
  rw [Real.exp_sub, Real.exp_log (Props.C04.mix_pos h hwf _), hmix, Real.rpow_def_of_pos hL, mul_comm]

/-! ### the first batch of every run has β = 0 (any scalar type) -/

theorem C01_first_batch_beta_zero {α : Type} [ScT α] (cfg : PCfg α) (t : Tape α) (s1 : PState α) (o : IterOut α)
    (h : iterate cfg init t = some (s1, o)) :
    o.beta = Sc.zero ∧ s1.hist = [⟨⟨Sc.zero, o.logz, s1.curL⟩, s1.curTags⟩] := by
  have hb : o.beta = Sc.zero := by
    simp only [iterate, init, batches, List.map_nil, List.isEmpty_nil, Model.Reweight.run, if_true] at h
    by_cases he : eqv (Sc.zero : α) Sc.zero = true
    · simp only [he, if_true, Option.map_eq_some_iff, Prod.mk.injEq] at h
      obtain ⟨l, _, _, rfl⟩ := h
      rfl
    · simp only [he, Bool.false_eq_true, if_false, Option.bind_eq_some_iff, Option.map_eq_some_iff,
        Prod.mk.injEq] at h
      obtain ⟨idx, _, tg, _, l, _, _, rfl⟩ := h
      rfl
  obtain ⟨hh, _, _⟩ := Lemmas.PipelineShift.iterate_commit cfg init t s1 o h
  refine ⟨hb, ?_⟩
  rw [hh, hb]; rfl

/-- … and it stays the first entry of the history for the rest of the run -/
theorem C01_run_first_batch_beta_zero {α : Type} [ScT α] (cfg : PCfg α) (t : Tape α) (ts : List (Tape α))
    (sf : PState α) (os : List (IterOut α)) (h : runIters cfg init (t :: ts) = some (sf, os)) :
    ∃ pb rest, sf.hist = pb :: rest ∧ pb.b.beta = Sc.zero := by
  simp only [runIters, Option.bind_eq_some_iff, Option.map_eq_some_iff] at h
  obtain ⟨⟨s1, o⟩, hi, ⟨sf', os'⟩, hr, he⟩ := h
  simp only [Prod.mk.injEq] at he
  obtain ⟨rfl, rfl⟩ := he
  obtain ⟨_, h1⟩ := C01_first_batch_beta_zero cfg t s1 o hi
  obtain ⟨ext, h2, _, _⟩ := Lemmas.PipelineShift.runIters_hist cfg ts s1 sf' os' hr
  exact ⟨_, ext, by rw [h2, h1]; rfl, rfl⟩

/-! ### mutation and resampling, in the form the induction uses -/

/-- a Markov kernel on a finite space with detailed balance w.r.t. `π` and stochastic rows leaves `π` invariant —
    the finite-space form of what `C03_mh_detailed_balance` / `C03_*_interior` deliver for the two mutation kernels -/
theorem C01_kernel_invariance {Ω : Type} [Fintype Ω] (π : Ω → ℝ) (K : Ω → Ω → ℝ)
    (hdb : ∀ x y, π x * K x y = π y * K y x) (hrow : ∀ x, ∑ y, K x y = 1) :
    Invariant π K := by
  intro y
  calc ∑ x, π x * K x y = ∑ x, π y * K y x := Finset.sum_congr rfl fun x _ => hdb x y
    _ = π y * ∑ x, K y x := by rw [Finset.mul_sum]
    _ = π y := by rw [hrow y, mul_one]

/-- expected empirical measure after resampling = `n` × weighted empirical measure, given the expected-copies law
    `E[count_j] = n·w_j` (algebraic form; the two instances below supply the law from C06) -/
theorem C01_resample_unbiased {J : Type} [Fintype J] (n : ℝ) (w Ecount g : J → ℝ) (hE : ∀ j, Ecount j = n * w j) :
    ∑ j, Ecount j * g j = n * ∑ j, w j * g j := by
  rw [Finset.mul_sum]
  exact Finset.sum_congr rfl fun j _ => by rw [hE j]; ring

/-- systematic scheme: the mean over the offset `u0 ~ U[0,1)` of `Σ_j count_j(u0)·g_j` (taken term by term) is
    `n·Σ_j w_j g_j` (re-export of `C06_syst_unbiased_integral`) -/
theorem C01_resample_unbiased_syst (n : ℕ) (w : List ℝ) (hn : 1 ≤ n) (hw0 : ∀ x ∈ w, 0 ≤ x) (hw1 : w.sum = 1)
    (g : Fin w.length → ℝ) :
    ∑ j : Fin w.length, (∫ u in Set.Ico (0:ℝ) 1, Props.C06.copies n w j.1 u) * g j
      = (n : ℝ) * ∑ j : Fin w.length, w[j.1] * g j :=
  C01_resample_unbiased (n : ℝ) (fun j : Fin w.length => w[j.1]) _ g
    fun j => Props.C06.C06_syst_unbiased_integral n w hn hw0 hw1 j.1 j.2

/-- multinomial scheme: one draw lands on index `j` with probability `w_j/Σw`, so the expected value of `g` at the
    drawn index is the weighted mean (re-export of `C06_mult_unbiased_integral`) -/
theorem C01_resample_unbiased_mult (w : List ℝ) (hw0 : ∀ x ∈ w, 0 ≤ x) (hpos : 0 < w.sum) (g : Fin w.length → ℝ) :
    ∑ j : Fin w.length,
        (∫ u in Set.Ico (0:ℝ) 1, (if Model.Resample.multinomial w [u] = some [j.1] then (1:ℝ) else 0)) * g j
      = 1 * ∑ j : Fin w.length, (w[j.1] / w.sum) * g j :=
  C01_resample_unbiased 1 (fun j : Fin w.length => w[j.1] / w.sum) _ g
    fun j => by rw [Props.C06.C06_mult_unbiased_integral w hw0 hpos j.1 j.2, one_mul]

/-! ### the mean-field (infinite-particle) recursion -/

section meanfield
variable {Ω : Type} [Fintype Ω]

/-- one iteration of the idealised algorithm from a history in which every batch has law `π_{β_t}` and recorded
    normaliser `Z_{β_t}`: for ANY next β, the evidence functional `Σ_x m(x) w(x)` is exactly `Z_β`, the reweighted
    pool law is exactly `π_β`, and after mutation with any `π_β`-invariant kernel the committed batch is again exact -/
theorem C01_meanfield_step (p L : Ω → ℝ) (hp : ∀ x, 0 ≤ p x) (hp1 : ∃ x, 0 < p x) (hL : ∀ x, 0 < L x)
    (h : List (MBatch Ω)) (hne : h ≠ []) (hex : ∀ b ∈ h, Exact p L b) (β : ℝ) (K : Ω → Ω → ℝ)
    (hK : Invariant (piB p L β) K) (n : ℝ) (hn : 0 < n) :
    mfZ L h β = Zf p L β ∧ mfReweighted L h β = piB p L β ∧ ∀ b ∈ mfStep L h β K n, Exact p L b :=
  ⟨mfZ_exact p L hp hp1 hL h hne hex β, mfReweighted_exact p L hp hp1 hL h hne hex β,
    mfStep_exact p L hp hp1 hL h hne hex β K hK n hn⟩

/-- **fixed point of the mean-field pipeline**: by induction over the iterations, for any schedule of temperatures,
    any `π_β`-invariant kernels and any batch sizes, every batch law stays exactly `π_{β_t}` and every recorded
    normaliser exactly `Z_{β_t}` -/
theorem C01_meanfield_fixed (p L : Ω → ℝ) (hp : ∀ x, 0 ≤ p x) (hp1 : ∃ x, 0 < p x) (hL : ∀ x, 0 < L x)
    (h : List (MBatch Ω)) (hne : h ≠ []) (hex : ∀ b ∈ h, Exact p L b)
    (steps : List (ℝ × (Ω → Ω → ℝ) × ℝ)) (hst : ∀ st ∈ steps, Invariant (piB p L st.1) st.2.1 ∧ 0 < st.2.2) :
    ∀ b ∈ mfRun L h steps, Exact p L b :=
  mfRun_exact p L hp hp1 hL steps h hne hex hst

/-- the warm-up batch (prior draws, `β = 0`, normaliser = prior mass of the finite-likelihood region) is exact -/
theorem C01_meanfield_start (p L : Ω → ℝ) (n : ℝ) (hn : 0 < n) :
    ∀ b ∈ [(⟨n, 0, piB p L 0, Zf p L 0⟩ : MBatch Ω)], Exact p L b := by
  intro b hb
  simp only [List.mem_singleton] at hb
  subst hb
  exact ⟨hn, rfl, rfl⟩

end meanfield

/-! ### the real pipeline: one temperature per iteration, one batch per commit -/

/-- the resampling call of `iterate`, given the weight vector -/
noncomputable def resampled (cfg : PCfg ℝ) (t : Tape ℝ) (w : List ℝ) : Option (List Nat) :=
  if cfg.syst then (match t.resU with | [u0] => Model.Resample.systematic cfg.rw.nPart w u0 | _ => none)
  else Model.Resample.multinomial w t.resU

/-- On a non-empty history everything an iteration does refers to the SAME β (the one it reports): the recorded ESS
    and evidence are the pool's oracles at that β; in an annealing iteration the resampler receives the normalised
    pool weights at that β, every accept/reject step runs at that β on the gathered records, and the batch is
    committed with `(β, Z(β))`. -/
theorem C01_pipeline_same_temperature (cfg : PCfg ℝ) (s : PState ℝ) (t : Tape ℝ) (s1 : PState ℝ) (o : IterOut ℝ)
    (hne : s.hist ≠ []) (h : iterate cfg s t = some (s1, o)) :
    o.ess = (oracleM (batches s.hist) o.beta).2.1 ∧ o.logzRw = oracleZ (batches s.hist) o.beta ∧
    (o.beta ≠ 0 →
      resampled cfg t (Model.Ess.normalise (oracleM (batches s.hist) o.beta).1) = some o.idx ∧
      ∃ tg l, Model.Records.gather? (poolTags s.hist) o.idx = some tg ∧
        Model.Records.gather? (flatLogl (batches s.hist)) o.idx = some l ∧
        mcmcSteps o.beta t.steps tg l = (s1.curTags, s1.curL, o.masks) ∧
        o.logz = oracleZ (batches s.hist) o.beta) := by
  have hE : (batches s.hist).isEmpty = false := by
    cases hs : s.hist with
    | nil => exact absurd hs hne
    | cons _ _ => rfl
  obtain ⟨c1, c2, c3, _⟩ := Props.C05.C05_same_temperature cfg.rw (oracleM (batches s.hist))
    (oracleZ (batches s.hist)) isFin s.beta
  simp only [iterate, hE] at h
  generalize Model.Reweight.run cfg.rw false (oracleM (batches s.hist)) (oracleZ (batches s.hist)) isFin s.beta
    = r at h c1 c2 c3
  by_cases hb : eqv r.beta Sc.zero = true
  · have hb0 : r.beta = 0 := (Props.C05.eqv_real r.beta 0).mp (by simpa using hb)
    simp only [hb, if_true, Option.map_eq_some_iff, Prod.mk.injEq] at h
    obtain ⟨l, _, _, rfl⟩ := h
    exact ⟨c2, c3, fun hn0 => absurd hb0 hn0⟩
  · simp only [hb, Bool.false_eq_true, if_false, Option.bind_eq_some_iff, Option.map_eq_some_iff,
      Prod.mk.injEq] at h
    obtain ⟨idx, hidx, tg, htg, l, hl, rfl, rfl⟩ := h
    refine ⟨c2, c3, fun _ => ⟨?_, tg, l, htg, hl, rfl, c3⟩⟩
    rw [c1] at hidx
    unfold resampled
    simp only [returnedWeights] at hidx
    by_cases hsy : cfg.syst = true
    · simp only [hsy, if_true] at hidx ⊢
      rcases hu : t.resU with _ | ⟨u0, _ | ⟨u1, us⟩⟩ <;> rw [hu] at hidx <;> exact hidx
    · simp only [hsy, Bool.false_eq_true, if_false] at hidx ⊢
      exact hidx

/-- `iterate` appends exactly one batch — the current particles, with the β and evidence it reports — and leaves
    every earlier batch untouched (any scalar type) -/
theorem C01_commit_appends_one {α : Type} [ScT α] (cfg : PCfg α) (s : PState α) (t : Tape α) (s1 : PState α)
    (o : IterOut α) (h : iterate cfg s t = some (s1, o)) :
    s1.hist = s.hist ++ [⟨⟨o.beta, o.logz, s1.curL⟩, s1.curTags⟩] ∧ s1.beta = o.beta ∧ s1.logz = o.logz :=
  Lemmas.PipelineShift.iterate_commit cfg s t s1 o h

/-! ### non-vacuity: a two-point space, two batches of unequal size at β = 0 and β = 1/2 -/

noncomputable def pEx : Fin 2 → ℝ := ![1/3, 2/3]
noncomputable def LEx : Fin 2 → ℝ := ![1, 2]
noncomputable def L0Ex : Fin 2 → ℝ := ![0, 2]      -- a likelihood that vanishes at one point
noncomputable def nEx : Fin 2 → ℝ := ![2, 1]
noncomputable def btEx : Fin 2 → ℝ := ![0, 1/2]

theorem pEx_nonneg : ∀ x, 0 ≤ pEx x := by intro x; fin_cases x <;> simp [pEx]; norm_num
theorem pEx_pos : ∀ x, 0 < pEx x := by intro x; fin_cases x <;> simp [pEx]
theorem LEx_pos : ∀ x, 0 < LEx x := by intro x; fin_cases x <;> simp [LEx]
theorem L0Ex_nonneg : ∀ x, 0 ≤ L0Ex x := by intro x; fin_cases x <;> simp [L0Ex]
theorem nEx_nonneg : ∀ t, 0 ≤ nEx t := by intro x; fin_cases x <;> simp [nEx]
theorem nEx_sum : 0 < ∑ s, nEx s := by simp [nEx, Fin.sum_univ_two]; norm_num

example (f : Fin 2 → ℝ) :
    ∑ t, (nEx t / ∑ s, nEx s) * ∑ x, piB pEx LEx (btEx t) x * (f x * misW pEx LEx nEx btEx 1 x)
      = ∑ x, gam pEx LEx 1 x * f x :=
  C01_mis_unbiased pEx LEx nEx btEx 1 f pEx_nonneg ⟨0, pEx_pos 0⟩ LEx_pos nEx_nonneg nEx_sum

/-- the right-hand side is not trivial: `Z_1 = (1/3)·1 + (2/3)·2 = 5/3` -/
example : Zf pEx LEx 1 = 5 / 3 := by
  simp [Zf, gam, pEx, LEx, Fin.sum_univ_two]; norm_num
example : ∑ t, (nEx t / ∑ s, nEx s) * ∑ x, piB pEx LEx (btEx t) x * misW pEx LEx nEx btEx 1 x = 5 / 3 := by
  rw [C01_mean_weight_is_Z pEx LEx nEx btEx 1 pEx_nonneg ⟨0, pEx_pos 0⟩ LEx_pos nEx_nonneg nEx_sum]
  simp [Zf, gam, pEx, LEx, Fin.sum_univ_two]; norm_num

/-- hard boundary: likelihood 0 at the first point; the β = 0 batch (index 0, size 2) gives the support -/
example (f : Fin 2 → ℝ) :
    ∑ t, (nEx t / ∑ s, nEx s) * ∑ x, piB pEx L0Ex (btEx t) x * (f x * misW pEx L0Ex nEx btEx 1 x)
      = ∑ x, gam pEx L0Ex 1 x * f x :=
  C01_mis_unbiased_boundary pEx L0Ex nEx btEx 1 f pEx_nonneg ⟨0, pEx_pos 0⟩ L0Ex_nonneg nEx_nonneg 0
    (by simp [btEx]) (by simp [nEx])
example : 0 < ∑ s, nEx s * piB pEx L0Ex (btEx s) 0 :=
  C01_support pEx L0Ex nEx btEx pEx_nonneg L0Ex_nonneg nEx_nonneg 0 (by simp [btEx]) (by simp [nEx]) 0 (pEx_pos 0)
example (f : Fin 2 → ℝ) := C01_mis_identity_applies pEx L0Ex nEx btEx 1 f pEx_pos L0Ex_nonneg nEx_nonneg 0
  (by simp [btEx]) (by simp [nEx])

/-- a reversible two-state kernel: `π = (1/3, 2/3)`, `K = [[1/2, 1/2], [1/4, 3/4]]` -/
noncomputable def KEx : Fin 2 → Fin 2 → ℝ := ![![1/2, 1/2], ![1/4, 3/4]]
example : Invariant pEx KEx :=
  C01_kernel_invariance pEx KEx
    (by intro x y; fin_cases x <;> fin_cases y <;> simp [pEx, KEx] <;> norm_num)
    (by intro x; fin_cases x <;> simp [KEx, Fin.sum_univ_two] <;> norm_num)

example (g : Fin 3 → ℝ) :
    ∑ j : Fin 3, (∫ u in Set.Ico (0:ℝ) 1, Props.C06.copies 4 [1/2, 1/4, 1/4] j.1 u) * g j
      = ((4 : ℕ) : ℝ) * ∑ j : Fin 3, ([1/2, 1/4, 1/4] : List ℝ)[j.1] * g j :=
  C01_resample_unbiased_syst 4 [1/2, 1/4, 1/4] (by norm_num)
    (by intro x hx; simp at hx; rcases hx with rfl | rfl | rfl <;> norm_num) (by norm_num) g

/-- mean-field run: start from the warm-up batch, go to β = 1/2 with the identity kernel, then to β = 1 with the
    independence kernel `K x y = π_1 y`; every batch of the result is exact -/
theorem piB_sum_one {Ω : Type} [Fintype Ω] (p L : Ω → ℝ) (b : ℝ) (hZ : Zf p L b ≠ 0) : ∑ x, piB p L b x = 1 := by
  simp only [piB, ← Finset.sum_div]
  exact div_self hZ

theorem invariant_id {Ω : Type} [Fintype Ω] [DecidableEq Ω] (π : Ω → ℝ) :
    Invariant π (fun x y => if x = y then 1 else 0) := by
  intro y; simp

theorem invariant_indep {Ω : Type} [Fintype Ω] (π : Ω → ℝ) (h1 : ∑ x, π x = 1) : Invariant π (fun _ y => π y) := by
  intro y; rw [← Finset.sum_mul, h1, one_mul]

example : ∀ b ∈ mfRun LEx [(⟨2, 0, piB pEx LEx 0, Zf pEx LEx 0⟩ : MBatch (Fin 2))]
    [(1/2, fun x y => if x = y then 1 else 0, 2), (1, fun _ y => piB pEx LEx 1 y, 3)], Exact pEx LEx b :=
  C01_meanfield_fixed pEx LEx pEx_nonneg ⟨0, pEx_pos 0⟩ LEx_pos _ (by simp)
    (C01_meanfield_start pEx LEx 2 (by norm_num)) _ (by
      intro st hst
      simp only [List.mem_cons, List.not_mem_nil, or_false] at hst
      rcases hst with rfl | rfl
      · exact ⟨invariant_id _, by norm_num⟩
      · exact ⟨invariant_indep _ (piB_sum_one pEx LEx 1
          (Zf_pos pEx LEx pEx_nonneg ⟨0, pEx_pos 0⟩ LEx_pos 1).ne'), by norm_num⟩)

/-- bridge on a concrete stored history whose recorded evidences are the exact `log Z_{β_t}` -/
noncomputable def hEx : List (Batch ℝ) :=
  [⟨0, Real.log (Zf pEx LEx 0), [0, Real.log 2]⟩, ⟨1/2, Real.log (Zf pEx LEx (1/2)), [Real.log 2]⟩]
theorem wf_hEx : Props.C04.WF hEx := by
  refine ⟨by simp [hEx], ?_⟩
  intro b hb
  simp only [hEx, List.mem_cons, List.not_mem_nil, or_false] at hb
  rcases hb with rfl | rfl <;> simp
example : Real.exp (Props.C04.specRaw hEx 1 (Real.log (LEx 1)))
    = misW pEx LEx (fun t : Fin hEx.length => (hEx[t.1].logl.length : ℝ)) (fun t : Fin hEx.length => hEx[t.1].beta)
        1 1 :=
  C01_weight_bridge pEx LEx hEx wf_hEx
    (by intro b hb; simp only [hEx, List.mem_cons, List.not_mem_nil, or_false] at hb; rcases hb with rfl | rfl <;> rfl)
    (by intro b _; exact Zf_pos pEx LEx pEx_nonneg ⟨0, pEx_pos 0⟩ LEx_pos _) 1 1 (LEx_pos 1)

/-! ### non-vacuity of the pipeline statements: the concrete two-iteration run of `Lemmas.PipelineShift.Ex` -/
section pipelineEx
open Lemmas.PipelineShift.Ex

example : (0 : ℝ) = Sc.zero ∧ s1.hist = [⟨⟨Sc.zero, 0, s1.curL⟩, s1.curTags⟩] :=
  C01_first_batch_beta_zero cfgEx t1 s1 _ it1
example : ∃ pb rest, s2.hist = pb :: rest ∧ pb.b.beta = Sc.zero :=
  C01_run_first_batch_beta_zero cfgEx t1 [t2] s2 _ run2
/-- the annealing iteration of the example: β = 1 ≠ 0, so all clauses of the statement are exercised -/
example : (2 : ℝ) = (oracleM (batches s1.hist) 1).2.1 ∧ z1 = oracleZ (batches s1.hist) 1 ∧
    ((1 : ℝ) ≠ 0 →
      resampled cfgEx t2 (Model.Ess.normalise (oracleM (batches s1.hist) 1).1) = some [0, 1] ∧
      ∃ tg l, Model.Records.gather? (poolTags s1.hist) [0, 1] = some tg ∧
        Model.Records.gather? (flatLogl (batches s1.hist)) [0, 1] = some l ∧
        mcmcSteps 1 t2.steps tg l = (s2.curTags, s2.curL, [[true, false]]) ∧
        z1 = oracleZ (batches s1.hist) 1) :=
  C01_pipeline_same_temperature cfgEx s1 t2 s2 _ (by simp [s1]) it2
example : s2.hist = s1.hist ++ [⟨⟨1, z1, s2.curL⟩, s2.curTags⟩] ∧ s2.beta = 1 ∧ s2.logz = z1 :=
  C01_commit_appends_one cfgEx s1 t2 s2 _ it2
end pipelineEx

end Props.C01
