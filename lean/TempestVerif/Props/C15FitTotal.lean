import TempestVerif.Props.C15Fit
import Mathlib.Tactic
/-
  C15 (clause audit) — the model of `GaussianMixture.fit` is TOTAL on the statement's domain.

  `Props/C15Fit.lean` proves: IF `Model.GMM.fit c X w tape = some o` THEN the fitted parameters satisfy the invariant.
  This file discharges the hypothesis: on the statement's domain (`d`-dimensional points, non-negative sample weights of
  positive sum, `K ≥ 1`, `max_iter ≥ 1`, `n_init ≥ 1`, `reg_covar > 0`, a tape of `K · n_init` uniform draws in `[0, 1)`,
  a refusal oracle that accepts `reg·I`) the fit returns (`C15_fit_returns`, `C15_fit_total`), and under the loop
  invariant the model's own Cholesky factorisation never fails: the first attempt `cov + reg·I` of the E-step is refused
  only if the oracle `sing` refuses it (`C15_no_model_fallback`, `C15_fallback_iff_oracle`).
-/
namespace Props.C15
open Model.EM Model.GMM Lemmas.CholList

/-! ## 1. under the invariant the model's Cholesky never fails -/

theorem tot_getElem?_lt {β : Type} {l : List β} {k : ℕ} {x : β} (h : l[k]? = some x) : k < l.length := by
  by_contra hcon
  rw [List.getElem?_eq_none (by omega)] at h; cases h

/-- every matrix `_get_covariance(covariances, k)` hands to the density is a `d × d` symmetric PSD matrix -/
theorem tot_cov_psd (c : Cfg ℝ) (p : MStep ℝ) (hp : Inv c.eps c.d c.K p) (heps : 0 < c.eps) (k : ℕ) (C : Mat ℝ)
    (hC : (covMats c.diagT p)[k]? = some C) : IsSq c.d C ∧ SymL C ∧ PSDL c.d C := by
  have hk : k < c.K := by
    have := tot_getElem?_lt hC
    rwa [covMats_length _ _ _ _ _ hp] at this
  obtain ⟨ω, D, hω, hD, hf, hd⟩ := hp.cov k hk
  unfold covMats at hC
  split at hC
  · rw [List.getElem?_map, hd] at hC
    simp only [Option.map_some, Option.some.injEq] at hC
    subst hC
    have hv : ∀ x ∈ covDiag c.eps c.d ω D, 0 ≤ x := by
      intro x hx
      simp only [covDiag, List.mem_map] at hx
      obtain ⟨a, _, rfl⟩ := hx
      exact (C15_cov_sym_psd c.eps c.d ω D heps hω hD).2.2 a
    have hl : (covDiag c.eps c.d ω D).length = c.d := by simp [covDiag]
    have := diagMat_psd _ hv
    rwa [hl] at this
  · rw [hf] at hC
    simp only [Option.some.injEq] at hC
    subst hC
    exact covFull_psd c.eps c.d ω D heps hω hD

/-- **no fall-back of the model's own making**: for parameters satisfying the loop invariant, every component `k`, the
    first attempt of the E-step (density with covariance `cov_k + reg·I`) succeeds whenever the oracle accepts that matrix:
    the list Cholesky finds only positive pivots.  So the `except` branch (`cov = reg·I`) is taken only on the oracle's
    demand. -/
theorem C15_no_model_fallback (c : Cfg ℝ) (p : MStep ℝ) (hp : Inv c.eps c.d c.K p) (heps : 0 < c.eps)
    (hreg : 0 < c.reg) (k : ℕ) (w : ℝ) (m : List ℝ) (C : Mat ℝ)
    (hk : (List.zip p.weights (List.zip p.means (covMats c.diagT p)))[k]? = some (w, m, C))
    (X : Mat ℝ) (hX : ∀ x ∈ X, x.length = c.d) (hs : c.sing (addDiag c.reg C) = false) :
    ∃ l, logpdfCol c.sing c.d (addDiag c.reg C) m X = some l ∧ l.length = X.length := by
  obtain ⟨_, h2⟩ := List.getElem?_zip_eq_some.mp hk
  obtain ⟨hm, hC⟩ := List.getElem?_zip_eq_some.mp h2
  obtain ⟨h1, h2, h3⟩ := tot_cov_psd c p hp heps k C hC
  exact logpdfCol_addDiag_some c.sing c.d C c.reg m X hs h1 h2 h3 hreg hX (hp.mrow m (List.mem_of_getElem? hm))

/-- the same as an equivalence: the first attempt is refused **iff** the oracle refuses `cov_k + reg·I` -/
theorem C15_fallback_iff_oracle (c : Cfg ℝ) (p : MStep ℝ) (hp : Inv c.eps c.d c.K p) (heps : 0 < c.eps)
    (hreg : 0 < c.reg) (k : ℕ) (w : ℝ) (m : List ℝ) (C : Mat ℝ)
    (hk : (List.zip p.weights (List.zip p.means (covMats c.diagT p)))[k]? = some (w, m, C))
    (X : Mat ℝ) (hX : ∀ x ∈ X, x.length = c.d) :
    logpdfCol c.sing c.d (addDiag c.reg C) m X = none ↔ c.sing (addDiag c.reg C) = true := by
  constructor
  · intro hnone
    by_contra hcon
    have hs : c.sing (addDiag c.reg C) = false := by simpa using hcon
    obtain ⟨l, hl, _⟩ := C15_no_model_fallback c p hp heps hreg k w m C hk X hX hs
    rw [hnone] at hl; cases hl
  · intro hs
    simp [logpdfCol, hs]

/-! ## 2. the E-step returns -/

theorem tot_estepCol_some (sing : Mat ℝ → Bool) (reg : ℝ) (d : ℕ) (w : ℝ) (m : List ℝ) (C : Mat ℝ) (X : Mat ℝ)
    (hs : sing (scaledEye d reg) = false) (hreg : 0 < reg) (hX : ∀ x ∈ X, x.length = d) (hm : m.length = d) :
    ∃ col, estepCol sing reg d w m C X = some col := by
  cases h1 : logpdfCol sing d (addDiag reg C) m X with
  | some l =>
    simp only [estepCol, h1]
    exact ⟨_, rfl⟩
  | none =>
    obtain ⟨l, h2, _⟩ := logpdfCol_scaledEye_some sing d reg m X hs hreg hX hm
    simp only [estepCol, h1, h2]
    exact ⟨_, rfl⟩

theorem tot_estepCols_some (sing : Mat ℝ → Bool) (reg : ℝ) (d : ℕ) (ws : List ℝ) (ms : Mat ℝ) (Cs : List (Mat ℝ))
    (X : Mat ℝ) (hs : sing (scaledEye d reg) = false) (hreg : 0 < reg) (hX : ∀ x ∈ X, x.length = d)
    (hm : ∀ m ∈ ms, m.length = d) : ∃ cols, estepCols sing reg d ws ms Cs X = some cols := by
  unfold estepCols
  obtain ⟨ys, hys, _⟩ := mapOpt_some_of_forall
    (fun t : ℝ × List ℝ × Mat ℝ => estepCol sing reg d t.1 t.2.1 t.2.2 X) (List.zip ws (List.zip ms Cs)) (by
      intro t ht
      obtain ⟨a, b, C⟩ := t
      have h2 := (List.of_mem_zip ht).2
      have h3 := (List.of_mem_zip h2).1
      exact tot_estepCol_some sing reg d a b C X hs hreg hX (hm _ h3))
  exact ⟨ys, hys⟩

/-- **the E-step never raises** under the loop invariant, if the oracle accepts `reg·I` -/
theorem tot_estep_some (c : Cfg ℝ) (X : Mat ℝ) (s : List ℝ) (p : MStep ℝ) (hp : Inv c.eps c.d c.K p)
    (hf : FitHyp c X s) (hreg : 0 < c.reg) (hs : c.sing (scaledEye c.d c.reg) = false) :
    ∃ R, estep c.sing c.reg c.d p.weights p.means (covMats c.diagT p) X = some R := by
  obtain ⟨cols, hcols⟩ := tot_estepCols_some c.sing c.reg c.d p.weights p.means (covMats c.diagT p) X hs hreg
    hf.hX hp.mrow
  obtain ⟨hclen, hcol⟩ := estepCols_form _ _ _ _ _ _ _ _ hcols
  have hzl : (List.zip p.weights (List.zip p.means (covMats c.diagT p))).length = c.K := by
    simp [hp.wlen, hp.mlen, covMats_length _ _ _ _ _ hp]
  obtain ⟨k0, w0, hk0, hw0⟩ := exists_pos_of_sum_one _ hp.wnn hp.wsum
  have hrows : ∀ row ∈ rowsOfCols X.length cols, ∃ y, softRow row = some y := by
    intro row hrow
    simp only [rowsOfCols, List.mem_map, List.mem_range] at hrow
    obtain ⟨i, hin, rfl⟩ := hrow
    have hall : ∀ c' ∈ cols, i < c'.length := by
      intro c' hc
      obtain ⟨k, hk⟩ := List.getElem?_of_mem hc
      obtain ⟨w, _, hok⟩ := hcol k c' hk
      rw [hok.1]; exact hin
    obtain ⟨_, hget⟩ := col_get i cols hall
    have hk0K : k0 < cols.length := by
      have : k0 < p.weights.length := tot_getElem?_lt hk0
      have := hp.wlen
      omega
    obtain ⟨c0, hc0⟩ : ∃ c', cols[k0]? = some c' := ⟨_, List.getElem?_eq_getElem hk0K⟩
    obtain ⟨w', hw', hok⟩ := hcol k0 c0 hc0
    rw [hk0] at hw'; simp only [Option.some.injEq] at hw'; subst hw'
    have hi0 : i < c0.length := by rw [hok.1]; exact hin
    obtain ⟨t, ht⟩ := hok.2.1 hw0 c0[i] (List.getElem_mem _)
    have hfin : ∃ t, some t ∈ col cols i := by
      refine ⟨t, ?_⟩
      have := hget k0 c0 hc0
      rw [List.getElem?_eq_getElem hi0, ht] at this
      exact List.mem_of_getElem? this
    obtain ⟨r, hr, _⟩ := C15_softRow_simplex (col cols i) hfin
    exact ⟨r, hr⟩
  obtain ⟨R, hR, _⟩ := mapOpt_some_of_forall softRow _ hrows
  exact ⟨R, by simp [estep, hcols, hR]⟩

/-! ## 3. one EM iteration and the loop return -/

theorem tot_emIter_some (c : Cfg ℝ) (X : Mat ℝ) (s : List ℝ) (p : MStep ℝ) (hp : Inv c.eps c.d c.K p)
    (hf : FitHyp c X s) (hreg : 0 < c.reg) (hs : c.sing (scaledEye c.d c.reg) = false) :
    ∃ p' new, emIter c X s p = some (p', new) := by
  obtain ⟨R, hR⟩ := tot_estep_some c X s p hp hf hreg hs
  simp only [emIter, hR]
  exact ⟨_, _, rfl⟩

/-- **the EM loop returns**, for every `max_iter ≥ 1`, and its final `lower_bound` is finite (never `-inf`): the first
    iteration cannot break (`new − (−inf) < tol` is false), a break keeps the previous finite bound, exhausting the
    iterations keeps the last one -/
theorem tot_emLoop_some (c : Cfg ℝ) (X : Mat ℝ) (s : List ℝ) (hf : FitHyp c X s) (hreg : 0 < c.reg)
    (hs : c.sing (scaledEye c.d c.reg) = false) :
    ∀ (fuel it : ℕ) (lb : Option ℝ) (p : MStep ℝ), 1 ≤ fuel → Inv c.eps c.d c.K p →
      ∃ o, emLoop c X s fuel it lb p = some o ∧ o.lb.isSome := by
  intro fuel
  induction fuel with
  | zero => intro it lb p h; omega
  | succ fuel ih =>
    intro it lb p _ hp
    obtain ⟨p', new, hit⟩ := tot_emIter_some c X s p hp hf hreg hs
    have hp' := (emIter_inv c X s hf p p' new hp hit).1
    simp only [emLoop, hit]
    by_cases hc : converged c.tol new lb = true
    · rw [if_pos hc]
      refine ⟨_, rfl, ?_⟩
      cases lb with
      | none => simp [converged] at hc
      | some l => rfl
    · rw [if_neg hc]
      by_cases h0 : fuel = 0
      · rw [if_pos h0]; exact ⟨_, rfl, rfl⟩
      · rw [if_neg h0]; exact ih (it + 1) (some new) p' (by omega) hp'

/-! ## 4. the weighted draw -/

theorem tot_npLt_real (a b : ℝ) : npLt a b = decide (a < b) := by
  rw [Bool.eq_iff_iff]; simp [npLt]

/-- `searchsorted` counts LEADING entries `< v`: it stops at or before any entry `≥ v` -/
theorem tot_searchsorted_le : ∀ (l : List ℝ) (v : ℝ) (j : ℕ) (x : ℝ), l[j]? = some x → v ≤ x →
    searchsorted l v ≤ j := by
  intro l
  induction l with
  | nil => intro v j x h; simp at h
  | cons y ys ih =>
    intro v j x h hv
    simp only [searchsorted, tot_npLt_real, decide_eq_true_eq]
    split
    · rename_i hlt
      cases j with
      | zero => simp at h; subst h; linarith
      | succ j => simp at h; have := ih v j x h hv; omega
    · omega

theorem tot_cumsumFrom_length : ∀ (l : List ℝ) (acc : ℝ), (cumsumFrom acc l).length = l.length := by
  intro l
  induction l with
  | nil => intro acc; simp [cumsumFrom]
  | cons x l ih => intro acc; simp [cumsumFrom, ih]

theorem tot_cumsumFrom_getLast? : ∀ (l : List ℝ) (acc : ℝ), l ≠ [] →
    (cumsumFrom acc l).getLast? = some (acc + l.sum) := by
  intro l
  induction l with
  | nil => intro acc h; exact absurd rfl h
  | cons x l ih =>
    intro acc _
    cases l with
    | nil => simp [cumsumFrom]
    | cons y l =>
      have := ih (acc + x) (by simp)
      rw [cumsumFrom] at this
      rw [cumsumFrom, cumsumFrom, ScReal.add_def, List.getLast?_cons_cons, this]
      simp [add_assoc]

/-- **the weighted draw returns a valid index**: non-empty non-negative probabilities, `u ∈ [0, 1)` -/
theorem tot_pickIdx_lt (p : List ℝ) (u : ℝ) (hp : p ≠ []) (h0 : ∀ x ∈ p, 0 ≤ x) (_hu0 : 0 ≤ u) (hu1 : u < 1) :
    ∃ i, pickIdx p u = some i ∧ i < p.length := by
  have hT : 0 ≤ p.sum := List.sum_nonneg h0
  have hlast := tot_cumsumFrom_getLast? p 0 hp
  have hlen := tot_cumsumFrom_length p 0
  simp only [pickIdx, ScReal.zero_def, ScReal.mul_def, hlast, Option.map_some]
  refine ⟨_, rfl, ?_⟩
  have hget : (cumsumFrom 0 p)[p.length - 1]? = some (0 + p.sum) := by
    rw [← hlen, ← List.getLast?_eq_getElem?]; exact hlast
  have h1 := tot_searchsorted_le _ (u * (0 + p.sum)) _ _ hget (by nlinarith)
  have h2 : 0 < p.length := List.length_pos_of_ne_nil hp
  omega

/-! ## 5. the k-means++ initialisation returns -/

theorem tot_sqdist_nonneg (x m : List ℝ) : 0 ≤ sqdist x m := by
  simp only [sqdist, sum_eq]
  apply List.sum_nonneg
  intro y hy
  simp only [List.mem_map] at hy
  obtain ⟨t, _, rfl⟩ := hy
  exact mul_self_nonneg _

theorem tot_nearestDist_nonneg (c0 : List ℝ) (cs : Mat ℝ) (x : List ℝ) : 0 ≤ nearestDist c0 cs x := by
  have : ∀ (cs : Mat ℝ) (a : ℝ), 0 ≤ a → 0 ≤ cs.foldl (fun acc c => Sc.min acc (sqdist x c)) a := by
    intro cs
    induction cs with
    | nil => intro a ha; simpa using ha
    | cons c cs ih =>
      intro a ha
      rw [List.foldl_cons]
      apply ih
      rw [ScReal.min_def]
      exact le_min ha (tot_sqdist_nonneg x c)
  exact this cs _ (tot_sqdist_nonneg x c0)

/-- one draw of a later centre: probabilities `f(x_i)·s_i / Σ` with `f ≥ 0`, `s ≥ 0` -/
theorem tot_draw_some (X : Mat ℝ) (s : List ℝ) (f : List ℝ → ℝ) (u : ℝ) (hX : X ≠ []) (hsl : s.length = X.length)
    (hs0 : ∀ x ∈ s, 0 ≤ x) (hf : ∀ x, 0 ≤ f x) (hu0 : 0 ≤ u) (hu1 : u < 1) :
    ∃ (i : ℕ) (ctr : List ℝ),
      pickIdx ((List.zipWith Sc.mul (X.map f) s).map fun p => Sc.div p (Sc.sum (List.zipWith Sc.mul (X.map f) s))) u
        = some i ∧ X[i]? = some ctr := by
  have hprob : ∀ y ∈ List.zipWith Sc.mul (X.map f) s, 0 ≤ y := by
    intro y hy
    obtain ⟨j, hj, rfl⟩ := List.mem_iff_getElem.mp hy
    simp only [List.getElem_zipWith, ScReal.mul_def, List.getElem_map]
    exact mul_nonneg (hf _) (hs0 _ (List.getElem_mem _))
  have hplen : (List.zipWith Sc.mul (X.map f) s).length = X.length := by simp [hsl]
  have htot : 0 ≤ (List.zipWith Sc.mul (X.map f) s).sum := List.sum_nonneg hprob
  have hq0 : ∀ y ∈ (List.zipWith Sc.mul (X.map f) s).map
      (fun p => Sc.div p (Sc.sum (List.zipWith Sc.mul (X.map f) s))), 0 ≤ y := by
    intro y hy
    simp only [List.mem_map] at hy
    obtain ⟨a, ha, rfl⟩ := hy
    rw [ScReal.div_def, sum_eq]
    exact div_nonneg (hprob a ha) htot
  have hqne : (List.zipWith Sc.mul (X.map f) s).map
      (fun p => Sc.div p (Sc.sum (List.zipWith Sc.mul (X.map f) s))) ≠ [] := by
    intro h
    have h1 := congrArg List.length h
    rw [List.length_map, hplen] at h1
    exact hX (List.eq_nil_of_length_eq_zero h1)
  obtain ⟨i, hi, hilt⟩ := tot_pickIdx_lt _ u hqne hq0 hu0 hu1
  rw [List.length_map, hplen] at hilt
  exact ⟨i, X[i], hi, List.getElem?_eq_getElem hilt⟩

theorem tot_moreCentres_some (X : Mat ℝ) (s c0 : List ℝ) (hX : X ≠ []) (hsl : s.length = X.length)
    (hs0 : ∀ x ∈ s, 0 ≤ x) :
    ∀ (k : ℕ) (tape : List ℝ) (cs : Mat ℝ) (picks : List ℕ), k ≤ tape.length → (∀ u ∈ tape, 0 ≤ u ∧ u < 1) →
      ∃ r, moreCentres X s c0 k tape cs picks = some r ∧ r.2.2 = tape.drop k := by
  intro k
  induction k with
  | zero =>
    intro tape cs picks _ _
    exact ⟨(cs, picks, tape), by simp [moreCentres], by simp⟩
  | succ k ih =>
    intro tape cs picks hlen htape
    cases tape with
    | nil => simp at hlen
    | cons u tape =>
      obtain ⟨hu0, hu1⟩ := htape u (by simp)
      obtain ⟨i, ctr, hi, hctr⟩ := tot_draw_some X s (nearestDist c0 cs) u hX hsl hs0
        (tot_nearestDist_nonneg c0 cs) hu0 hu1
      obtain ⟨r, hr, hdrop⟩ := ih tape (cs ++ [ctr]) (picks ++ [i]) (by simpa using hlen)
        (fun v hv => htape v (List.mem_cons_of_mem _ hv))
      refine ⟨r, ?_, by simpa using hdrop⟩
      simp only [moreCentres, hi, hctr]
      exact hr

/-- **all `K` centres are drawn**, consuming exactly `K` entries of the tape -/
theorem tot_centres_some (X : Mat ℝ) (s : List ℝ) (K : ℕ) (tape : List ℝ) (hX : X ≠ []) (hsl : s.length = X.length)
    (hs0 : ∀ x ∈ s, 0 ≤ x) (hK : 1 ≤ K) (hlen : K ≤ tape.length) (htape : ∀ u ∈ tape, 0 ≤ u ∧ u < 1) :
    ∃ r, centres X s K tape = some r ∧ r.2.2 = tape.drop K := by
  cases K with
  | zero => omega
  | succ K =>
    cases tape with
    | nil => simp at hlen
    | cons u tape =>
      obtain ⟨hu0, hu1⟩ := htape u (by simp)
      have hsne : s ≠ [] := by
        intro h
        rw [h] at hsl
        exact hX (List.eq_nil_of_length_eq_zero hsl.symm)
      obtain ⟨i, hi, hilt⟩ := tot_pickIdx_lt s u hsne hs0 hu0 hu1
      rw [hsl] at hilt
      obtain ⟨r, hr, hdrop⟩ := tot_moreCentres_some X s X[i] hX hsl hs0 K tape [] [i] (by simpa using hlen)
        (fun v hv => htape v (List.mem_cons_of_mem _ hv))
      refine ⟨(X[i] :: r.1, r.2.1, r.2.2), ?_, by simpa using hdrop⟩
      simp only [centres, hi, List.getElem?_eq_getElem hilt, hr, Option.map_some]

/-- **`_initialize_parameters` returns**, consuming exactly `K` entries of the tape -/
theorem tot_initFit_some (c : Cfg ℝ) (X : Mat ℝ) (s : List ℝ) (tape : List ℝ) (hX : X ≠ [])
    (hsl : s.length = X.length) (hs0 : ∀ x ∈ s, 0 ≤ x) (hK : 1 ≤ c.K) (hlen : c.K ≤ tape.length)
    (htape : ∀ u ∈ tape, 0 ≤ u ∧ u < 1) :
    ∃ r, initFit c X s tape = some r ∧ r.2.2 = tape.drop c.K := by
  obtain ⟨r, hr, hd⟩ := tot_centres_some X s c.K tape hX hsl hs0 hK hlen htape
  exact ⟨(initParams c.tiny c.eps c.d c.K X (logResp X r.1) s, r.2.1, r.2.2), by simp [initFit, hr], hd⟩

/-! ## 6. the whole fit returns -/

theorem tot_fitInits_some (c : Cfg ℝ) (X : Mat ℝ) (s : List ℝ) (hf : FitHyp c X s) (hreg : 0 < c.reg)
    (hs : c.sing (scaledEye c.d c.reg) = false) (hX : X ≠ []) (hmax : 1 ≤ c.maxIter) :
    ∀ (n : ℕ) (tape : List ℝ) (best : Option (Best ℝ)) (picks : List (List ℕ)), c.K * n ≤ tape.length →
      (∀ u ∈ tape, 0 ≤ u ∧ u < 1) → (1 ≤ n ∨ best.isSome) →
      ∃ res, fitInits c X s n tape best picks = some res ∧ res.1.isSome := by
  intro n
  induction n with
  | zero =>
    intro tape best picks _ _ hb
    refine ⟨(best, picks), by simp [fitInits], ?_⟩
    rcases hb with hb | hb
    · omega
    · exact hb
  | succ n ih =>
    intro tape best picks hlen htape _
    rw [Nat.mul_succ] at hlen
    have hK : c.K ≤ tape.length := by omega
    obtain ⟨r, hr, hdrop⟩ := tot_initFit_some c X s tape hX hf.hsl hf.hs0 hf.hK hK htape
    obtain ⟨p0, pk, tape'⟩ := r
    simp only at hdrop
    subst hdrop
    have h0 := initFit_inv c X s hf tape _ hr
    obtain ⟨o, ho, hlb⟩ := tot_emLoop_some c X s hf hreg hs c.maxIter 0 none p0 hmax h0.1
    simp only [fitInits, hr, ho]
    apply ih
    · rw [List.length_drop]; omega
    · intro u hu; exact htape u (List.mem_of_mem_drop hu)
    · right
      obtain ⟨l, hl⟩ := Option.isSome_iff_exists.mp hlb
      rw [hl]
      cases best with
      | none => simp [better]
      | some b =>
        by_cases hb : better (some l) (Option.map (·.lb) (some b)) = true
        · rw [if_pos hb]; rfl
        · rw [if_neg hb]; rfl

/-- **`fit` returns**: on the statement's domain the model of `GaussianMixture.fit` never "raises" — for every data set of
    `d`-dimensional points, non-negative sample weights of positive sum, `K ≥ 1`, `max_iter ≥ 1`, `n_init ≥ 1`,
    `reg_covar > 0`, both covariance structures, every tolerance, every tape of `K · n_init` uniform draws in `[0, 1)`,
    every refusal oracle that accepts `reg·I` -/
theorem C15_fit_returns (c : Cfg ℝ) (X : Mat ℝ) (w : List ℝ) (tape : List ℝ) (heps : 0 < c.eps) (hreg : 0 < c.reg)
    (hK : 1 ≤ c.K) (hmax : 1 ≤ c.maxIter) (hinit : 1 ≤ c.nInit) (hs : c.sing (scaledEye c.d c.reg) = false)
    (hX : ∀ x ∈ X, x.length = c.d) (hwl : w.length = X.length) (hw0 : ∀ x ∈ w, 0 ≤ x) (hwpos : 0 < Sc.sum w)
    (hlen : c.K * c.nInit ≤ tape.length) (htape : ∀ u ∈ tape, 0 ≤ u ∧ u < 1) :
    ∃ o, fit c X w tape = some o := by
  obtain ⟨hl, hn, hp⟩ := normWeights_hyp w hw0 hwpos
  have hf : FitHyp c X (normWeights w) := ⟨heps, hK, hX, by rw [hl, hwl], hn, hp⟩
  have hXne : X ≠ [] := by
    rintro rfl
    have : w = [] := List.eq_nil_of_length_eq_zero (by simpa using hwl)
    subst this
    simp [Sc.sum] at hwpos
  obtain ⟨res, hres, hsome⟩ := tot_fitInits_some c X _ hf hreg hs hXne hmax c.nInit tape none [] hlen htape
    (Or.inl hinit)
  obtain ⟨b, picks⟩ := res
  obtain ⟨b', hb'⟩ := Option.isSome_iff_exists.mp hsome
  simp only at hb'
  subst hb'
  simp only [fit, hres]
  exact ⟨_, rfl⟩

/-- **`fit` is total and its result satisfies the invariant** (`C15_fit_returns` + `C15_fit_invariants`) -/
theorem C15_fit_total (c : Cfg ℝ) (X : Mat ℝ) (w : List ℝ) (tape : List ℝ) (heps : 0 < c.eps) (hreg : 0 < c.reg)
    (hK : 1 ≤ c.K) (hmax : 1 ≤ c.maxIter) (hinit : 1 ≤ c.nInit) (hs : c.sing (scaledEye c.d c.reg) = false)
    (hX : ∀ x ∈ X, x.length = c.d) (hwl : w.length = X.length) (hw0 : ∀ x ∈ w, 0 ≤ x) (hwpos : 0 < Sc.sum w)
    (hlen : c.K * c.nInit ≤ tape.length) (htape : ∀ u ∈ tape, 0 ≤ u ∧ u < 1) :
    ∃ o, fit c X w tape = some o ∧ FromMStep c X (normWeights w) o.params ∧ 1 ≤ o.nIter ∧ o.nIter ≤ c.maxIter := by
  obtain ⟨o, ho⟩ := C15_fit_returns c X w tape heps hreg hK hmax hinit hs hX hwl hw0 hwpos hlen htape
  obtain ⟨h1, h2, h3, _⟩ := C15_fit_invariants c X w tape heps hK hX hwl hw0 hwpos o ho
  exact ⟨o, ho, h1, h2, h3⟩

/-! ## 7. non-vacuity -/

noncomputable def tot_exCfg : Cfg ℝ :=
  { sing := fun _ => false, diagT := false, tiny := 1 / 10 ^ 300, eps := 1 / 10 ^ 10, reg := 1 / 10 ^ 6,
    tol := 1 / 1000, d := 1, K := 2, maxIter := 5, nInit := 1 }

/-- the hypotheses of `C15_fit_returns` / `C15_fit_total` hold on a concrete configuration: three 1-d points, weights
    `1, 2, 1`, two components, five iterations, one restart, a tape of two draws -/
example : ∃ o, fit tot_exCfg [[0], [1], [4]] [1, 2, 1] [1 / 2, 1 / 4] = some o ∧
    FromMStep tot_exCfg [[0], [1], [4]] (normWeights [1, 2, 1]) o.params ∧ 1 ≤ o.nIter ∧ o.nIter ≤ 5 := by
  refine C15_fit_total tot_exCfg [[0], [1], [4]] [1, 2, 1] [1 / 2, 1 / 4] ?_ ?_ ?_ ?_ ?_ ?_ ?_ ?_ ?_ ?_ ?_ ?_
  · simp only [tot_exCfg]; positivity
  · simp only [tot_exCfg]; positivity
  · simp [tot_exCfg]
  · simp [tot_exCfg]
  · simp [tot_exCfg]
  · rfl
  · simp [tot_exCfg]
  · simp
  · intro x hx; simp at hx; rcases hx with rfl | rfl | rfl <;> norm_num
  · simp [Sc.sum]; norm_num
  · simp [tot_exCfg]
  · intro u hu; simp at hu; rcases hu with rfl | rfl <;> norm_num

/-! ### non-vacuity of the property-level theorems of `Props/C15Fit.lean` on that configuration -/

theorem tot_ex_returns : ∃ o, fit tot_exCfg [[0], [1], [4]] [1, 2, 1] [1 / 2, 1 / 4] = some o := by
  refine C15_fit_returns tot_exCfg [[0], [1], [4]] [1, 2, 1] [1 / 2, 1 / 4] ?_ ?_ ?_ ?_ ?_ ?_ ?_ ?_ ?_ ?_ ?_ ?_
  · simp only [tot_exCfg]; positivity
  · simp only [tot_exCfg]; positivity
  · simp [tot_exCfg]
  · simp [tot_exCfg]
  · simp [tot_exCfg]
  · rfl
  · simp [tot_exCfg]
  · simp
  · intro x hx; simp at hx; rcases hx with rfl | rfl | rfl <;> norm_num
  · simp [Sc.sum]; norm_num
  · simp [tot_exCfg]
  · intro u hu; simp at hu; rcases hu with rfl | rfl <;> norm_num

/-- the fitted mixture of the example: weights on the simplex, both covariances symmetric PSD, and the mean of every
    component whose weight is at least `tiny` inside the bounding box [0, 4] -/
example : ∃ o, fit tot_exCfg [[0], [1], [4]] [1, 2, 1] [1 / 2, 1 / 4] = some o ∧
    (∀ p ∈ o.params.weights, 0 ≤ p) ∧ Sc.sum o.params.weights = 1 ∧
    (∀ k, k < 2 → ∃ (M : Mat ℝ) (v : List ℝ), o.params.covFull[k]? = some M ∧ o.params.covDiag[k]? = some v ∧
        IsSq 1 M ∧ SymL M ∧ PSDL 1 M ∧ v.length = 1 ∧ ∀ x ∈ v, 0 ≤ x) ∧
    (∀ k, k < 2 → ∃ π : ℝ, o.params.weights[k]? = some π ∧
        (1 / 10 ^ 300 ≤ π → ∃ m : ℝ, (o.params.means[k]?.bind (·[0]?)) = some m ∧ 0 ≤ m ∧ m ≤ 4)) := by
  obtain ⟨o, ho⟩ := tot_ex_returns
  have heps : 0 < tot_exCfg.eps := by simp only [tot_exCfg]; positivity
  have hK : 1 ≤ tot_exCfg.K := by simp [tot_exCfg]
  have hX : ∀ x ∈ ([[0], [1], [4]] : Mat ℝ), x.length = tot_exCfg.d := by simp [tot_exCfg]
  have hw0 : ∀ x ∈ ([1, 2, 1] : List ℝ), 0 ≤ x := by
    intro x hx; simp at hx; rcases hx with rfl | rfl | rfl <;> norm_num
  have hwpos : 0 < Sc.sum ([1, 2, 1] : List ℝ) := by simp [Sc.sum]; norm_num
  obtain ⟨_, h1, h2⟩ := C15_fit_weights_simplex tot_exCfg _ _ _ heps hK hX (by simp) hw0 hwpos o ho
  refine ⟨o, ho, h1, h2, ?_, ?_⟩
  · intro k hk
    exact C15_fit_cov_sym_psd tot_exCfg _ _ _ heps hK hX (by simp) hw0 hwpos o ho k (by simpa [tot_exCfg] using hk)
  · intro k hk
    have := C15_fit_mean_in_bbox tot_exCfg _ _ _ heps hK (by simp only [tot_exCfg]; positivity) hX (by simp) hw0 hwpos o ho
      k 0 (by simpa [tot_exCfg] using hk) (by simp [tot_exCfg]) 0 4
      (by intro v hv; simp [col] at hv; rcases hv with rfl | rfl | rfl <;> norm_num)
    simpa [tot_exCfg] using this

/-- a row of `log_resp` with a `-inf` entry (a zero-weight component) and two finite ones -/
example : ∃ r : List ℝ, softRow [some (-800), none, some (-1250)] = some r ∧ r.length = 3 ∧ (∀ p ∈ r, 0 ≤ p) ∧ Sc.sum r = 1 := by
  obtain ⟨r, h1, h2, h3, h4, _⟩ := C15_softRow_simplex [some (-800), none, some (-1250)] ⟨-800, by simp⟩
  exact ⟨r, h1, by simpa using h2, h3, h4⟩

/-- the rounded-arithmetic statement instantiated with the rounding to the next integer upwards (monotone, idempotent, fixes 0
    and 1): every responsibility is 0 or 1 there, and the normaliser is ≥ 1 -/
example (row : List (Option (Rd fun x : ℝ => (⌈x⌉ : ℝ)))) (h : ∃ t, some t ∈ row) :
    ∃ (r e : List (Rd fun x : ℝ => (⌈x⌉ : ℝ))), softRow row = some r ∧ r = e.map (fun p => Sc.div p (Sc.sum e)) ∧
      e.length = row.length ∧ 1 ≤ (Sc.sum e).v ∧ ∀ p ∈ r, 0 ≤ p.v ∧ p.v ≤ 1 :=
  C15_softRow_rounded (fun a b hab => by exact_mod_cast Int.ceil_mono hab) (fun x => by simp) (by simp) (by simp) row h


end Props.C15
