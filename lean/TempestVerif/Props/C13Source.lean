import TempestVerif.Gen.LogLikeSrc
import TempestVerif.Gen.Dispatch
import Mathlib.Tactic
/-
  C13 — the executable model is built from the tests and the arithmetic that are in /repo's source NOW.

  `Gen/LogLikeSrc.lean` is regenerated on every run of the check by translator G21 (translate/g21_loglike.py): a symbolic
  evaluation of `FunctionWrapper.__init__/__call__`, `SamplerCore._get_distribute_func`, `SamplerCore._log_like`,
  `SamplerCore.run_sampling`, `BaseMCMCRunner._evaluate_likelihood` and `Mutator.run` whose results — every branch test, every
  literal, every index, the counter arithmetic — are compiled to Lean terms over the model's value domains (`PoolV`, `Res`,
  `Nat`), with one hand-written definition per Python primitive (Model/LLPy.lean).

  The theorems below say that the model the driver executes — `Model.LLEval`, `Model.CallsRun`, `Model.Dispatch`, interpreting
  the string tables of translator G6 (`Gen/Dispatch.lean`) — computes exactly those terms, FOR EVERY INPUT.  They are equalities
  of functions, proved by case analysis (not by comparing texts): an equivalent way of writing the same tests (guard clauses
  instead of if/elif/else, a helper extracted, `<= 1` tested after `isinstance` in a separate statement, …) regenerates different
  terms for which the same proofs go through, while a different literal, comparison, operand, index, branch order or a
  dropped / duplicated counter statement makes a theorem false and the build fail.
-/
set_option linter.unusedSimpArgs false
set_option linter.unusedVariables false

namespace Props.C13.Src
open Model.LLEval Model.LLPy Model.CallsRun Model.Dispatch
open Gen.LogLikeSrc

variable {X Y B R A S M V : Type}

/-! This module imports no other `Props` module on purpose: its theorems are then checked (and reported by name) even when a
    change of the source already breaks a theorem of `Props/C13*.lean`.  The two tables below are verbatim those of
    `Props/C13Run.lean`, `Props/C13.lean` and of the driver (`Drv/C13.lean`); `Props/C13SourceTie.lean` proves the identities. -/

/-- the accounting expressions regenerated from /repo by G6, as the run model receives them -/
def runTable : RunTable :=
  ⟨⟨Gen.Dispatch.warmupIncrement, Gen.Dispatch.warmupBatch, Gen.Dispatch.stepIncrement, Gen.Dispatch.stepBatch⟩,
   Gen.Dispatch.nCallsInit, Gen.Dispatch.freshCalls, Gen.Dispatch.resumeDefault,
   Gen.Dispatch.warmupDrawnInit, Gen.Dispatch.warmupDrawnStep,
   Gen.Dispatch.warmupCap⟩

/-- the table of the op-list accounting model -/
def callTable : CallTable :=
  ⟨Gen.Dispatch.warmupDrawnStep, Gen.Dispatch.warmupBatch, Gen.Dispatch.stepIncrement, Gen.Dispatch.stepBatch⟩

theorem stepInc_eval (nP nw : Nat) : exprSize ⟨nP, nw⟩ runTable.calls.stepIncrement = some nw := by
  simp [runTable, Gen.Dispatch.stepIncrement, exprSize]

theorem warmInit_eval (nP nw : Nat) : exprSize ⟨nP, nw⟩ runTable.warmDrawnInit = some nP := by
  simp [runTable, Gen.Dispatch.warmupDrawnInit, exprSize]

theorem warmStep_eval (nP nw : Nat) : exprSize ⟨nP, nw⟩ runTable.warmDrawnStep = some nP := by
  simp [runTable, Gen.Dispatch.warmupDrawnStep, exprSize]

theorem warmInc_eval (e : Env) (nDrawn : Nat) : warmIncrement e nDrawn runTable.calls.warmupIncrement = some nDrawn := by
  simp [runTable, Gen.Dispatch.warmupIncrement, warmIncrement]

/-! ### `FunctionWrapper` (tools.py) -/

/-- `__init__`: the function is stored as it is, `None` extras become empty -/
theorem C13_src_wrapper_init (f : R) (args : Option (List A)) (kwargs : Option (List (String × A))) :
    (Wrapper.init f args kwargs).f = f ∧ (Wrapper.init f args kwargs).args = wrapArgs args ∧
    (Wrapper.init f args kwargs).kwargs = wrapKwargs kwargs := ⟨rfl, rfl, rfl⟩

/-- `__call__`: `self.f(x, *self.args, **self.kwargs)` -/
theorem C13_src_wrapper_call (f : X → List A → List (String × A) → R) (args : Option (List A))
    (kwargs : Option (List (String × A))) (x : X) :
    (Wrapper.init f args kwargs).call x = wrapCall f args kwargs x := rfl

example : wrapCall (fun (x : Nat) (a : List Nat) (k : List (String × Nat)) => (x, a, k)) (some [4, 5]) none 3 = (3, [4, 5], []) := rfl

/-! ### `_get_distribute_func` and the dispatch of `_log_like` (core.py) -/

theorem pIf_some {β : Type} (b : Bool) (t e : Option β) : pIf (some b) t e = if b then t else e := by cases b <;> rfl
theorem pAnd_some (a : Bool) (x : Option Bool) : pAnd (some a) x = if a then x else some false := by cases a <;> rfl
theorem pOr_some (a : Bool) (x : Option Bool) : pOr (some a) x = if a then some true else x := by cases a <;> rfl
theorem pNot_some (a : Bool) : pNot (some a) = some (!a) := rfl
theorem pIf_none {β : Type} (t e : Option β) : pIf none t e = none := rfl
theorem pAnd_none (x : Option Bool) : pAnd none x = none := rfl
theorem pOr_none (x : Option Bool) : pOr none x = none := rfl
theorem pNot_none : pNot none = none := rfl

/-- unfolds the generated pool tests (and the model's interpreter of G6's table) down to comparisons of the integer -/
macro "pool_simp" : tactic =>
  `(tactic| simp [getDistribute, Gen.LogLikeSrc.logLikeHow, logLikeHowV, distributeV, testHoldsV, Gen.Dispatch.logLike,
      Gen.Dispatch.distribute, pIf_some, pOr_some, pAnd_some, pNot_some, pIf_none, pAnd_none, pOr_none, pNot_none,
      builtinMap, PoolV.isNone, PoolV.isInt, PoolV.hasMap, PoolV.le?, PoolV.lt?,
      PoolV.gt?, PoolV.ge?, PoolV.eq?, PoolV.newPoolMap, PoolV.attrMap, Model.Dispatch.logLikeHow, distributeHow, testHolds])

/-- closes what is left: each side is a chain of `if`s on comparisons of one integer with literals -/
macro "pool_close" : tactic =>
  `(tactic| (try pool_simp) <;> (try split_ifs) <;> first | rfl | omega | (simp_all; done) | (simp_all; omega))

/-- every branch test of `_get_distribute_func` on every pool value: `None`, every int (bools and negatives included), objects
    with and without a `map` attribute — the table of G6 interpreted by the model is the function the source computes -/
theorem C13_src_distribute (p : PoolV) : distributeV Gen.Dispatch.distribute p = getDistribute p := by
  cases p with
  | none => pool_close
  | obj h => cases h <;> pool_close
  | int k => pool_close

/-- the three dispatch branches of `_log_like` (with `_get_distribute_func` inlined) for every `vectorize` and pool value -/
theorem C13_src_logLikeHow (v : Bool) (p : PoolV) :
    logLikeHowV Gen.Dispatch.logLike Gen.Dispatch.distribute v p = Gen.LogLikeSrc.logLikeHow v p := by
  cases v <;> cases p with
  | none => pool_close
  | obj h => cases h <;> pool_close
  | int k => pool_close

/-- the older dispatch model of Props/C13.lean (`pool` an unsigned int, any object has `map`) is the same function, through the
    obvious embedding of its pool values and the forgetting of which pool is used -/
def embedPool : PoolCfg → PoolV
  | .none => .none
  | .int k => .int k
  | .obj => .obj true

def forgetHow : HowV → How
  | .direct => .direct
  | .map => .map
  | .newPoolMap _ => .poolMap
  | .objMap => .poolMap

theorem C13_src_logLikeHow_cfg (c : Cfg) :
    Model.Dispatch.logLikeHow Gen.Dispatch.logLike Gen.Dispatch.distribute c =
      (Gen.LogLikeSrc.logLikeHow c.vectorize (embedPool c.pool)).map forgetHow := by
  rw [← C13_src_logLikeHow]
  rcases c with ⟨v, p⟩
  cases v <;> cases p with
  | none => simp [embedPool, forgetHow, logLikeHowV, Model.Dispatch.logLikeHow, Gen.Dispatch.logLike]
  | obj => simp [embedPool, forgetHow, logLikeHowV, Model.Dispatch.logLikeHow, Gen.Dispatch.logLike, Gen.Dispatch.distribute,
      distributeV, testHoldsV, distributeHow, testHolds]
  | int k =>
    simp only [embedPool, logLikeHowV, Model.Dispatch.logLikeHow, Gen.Dispatch.logLike, Gen.Dispatch.distribute,
      distributeV, testHoldsV, distributeHow, testHolds]
    by_cases h : k ≤ 1
    · have h' : (k : Int) ≤ 1 := by omega
      simp [h, h', forgetHow]
    · have h' : ¬ (k : Int) ≤ 1 := by omega
      have h2 : k > 1 := by omega
      have h2' : (k : Int) > 1 := by omega
      simp [h, h', h2, h2', forgetHow]

/-- the pool class comes from `multiprocess` (dill-pickled callables), as the suites' doubles assume -/
theorem C13_src_poolModule : poolModule = ["multiprocess"] := by decide

example : Gen.LogLikeSrc.logLikeHow false (.int 1) = some .map ∧ Gen.LogLikeSrc.logLikeHow false (.int (-2)) = some .map ∧
    Gen.LogLikeSrc.logLikeHow false (.int 2) = some (.newPoolMap 2) ∧ Gen.LogLikeSrc.logLikeHow false (.obj false) = none ∧
    Gen.LogLikeSrc.logLikeHow true (.obj false) = some .direct ∧ Gen.LogLikeSrc.logLikeHow false .none = some .map := by decide

/-! ### `_log_like`: from the per-point results to the returned pair -/

/-- the vectorised path returns the user's value unconverted, and no blobs -/
theorem C13_src_direct (sched : List Nat) (f : X → Res Y B) (fvec : List X → List Y) (xs : List X) :
    logLike .direct sched f fvec xs = some (directOut fvec xs) := rfl

/-- the model's per-point primitives are the source's subscripts: `float(item[0])` and `item[1:]` -/
theorem C13_src_split (r : Res Y B) :
    r.split? = (Res.floatAt? r 0).bind fun y => (Res.tailFrom? r 1).map fun bs => (y, bs) := by
  cases r <;> rfl

/-- the blob test `results and isinstance(results[0], (tuple, list)) and len(results[0]) > 1`: decided by the FIRST result only,
    true exactly for a tuple/list with at least one blob (literal `1`, index `0`, both classes, the emptiness guard) -/
theorem C13_src_hasBlobs (r0 : Res Y B) (rs : List (Res Y B)) :
    blobTest (r0 :: rs) = some r0.hasBlobs ∧ blobTest ([] : List (Res Y B)) = some false := by
  constructor
  · cases r0 with
    | val y => simp [blobTest, Res.hasBlobs, Res.isInst, Res.len?, pIf_some, pAnd_some, pOr_some, pNot_some]
    | bad => simp [blobTest, Res.hasBlobs, Res.isInst, Res.len?, pIf_some, pAnd_some, pOr_some, pNot_some]
    | seq y bs =>
      cases bs <;> simp [blobTest, Res.hasBlobs, Res.isInst, Res.len?, pIf_some, pAnd_some, pOr_some, pNot_some]
  · simp [blobTest, pIf_some, pAnd_some, pOr_some, pNot_some]

theorem tailFrom_seq (y : Y) (bs : List B) : Res.tailFrom? (.seq y bs : Res Y B) 1 = some bs := rfl
theorem floatAt_seq (y : Y) (bs : List B) : Res.floatAt? (.seq y bs : Res Y B) 0 = some y := rfl

theorem allSome_split (rs : List (Res Y B)) :
    allSome (rs.map Res.split?) =
      (allSome (rs.map fun item => Res.tailFrom? item 1)).bind fun rows =>
        (allSome (rs.map fun item => Res.floatAt? item 0)).map fun l => l.zip rows := by
  induction rs with
  | nil => rfl
  | cons r rs ih =>
    cases r with
    | val y => simp [allSome, Res.split?, Res.tailFrom?]
    | bad => simp [allSome, Res.split?, Res.tailFrom?]
    | seq y bs =>
      have hh : ∀ (a : Option (List (List B))) (b : Option (List Y)),
          Option.map (fun x => (y, bs) :: x) (a.bind fun rows => b.map fun l => l.zip rows) =
          (a.map (bs :: ·)).bind fun rows => (b.map (y :: ·)).map fun l => l.zip rows := by
        intro a b; cases a <;> cases b <;> rfl
      simp only [List.map_cons, allSome, Res.split?, ih, tailFrom_seq, floatAt_seq]
      exact hh _ _

theorem allSome_length {R : Type} : ∀ (l : List (Option R)) (r : List R), allSome l = some r → r.length = l.length
  | [], r, h => by simp [allSome] at h; subst h; rfl
  | none :: _, _, h => by simp [allSome] at h
  | some x :: xs, r, h => by
    simp only [allSome, Option.map_eq_some_iff] at h
    obtain ⟨r', hr', rfl⟩ := h
    simp [allSome_length xs r' hr']

/-- everything `_log_like` does after the results exist — which path is taken, `float(value)` on the plain path,
    `item[1:]` / `float(item[0])` on the blobs path, what is returned in which component — is the model's `assemble`, with the
    numpy part (dtype, `np.array`, squeeze) standing as `mkBlobs` -/
theorem C13_src_assemble (rs : List (Res Y B)) : Model.LLEval.assemble rs = Gen.LogLikeSrc.assemble mkBlobs rs := by
  cases rs with
  | nil => simp [Model.LLEval.assemble, Gen.LogLikeSrc.assemble, allSome, pIf_some, pAnd_some, pOr_some, pNot_some]
  | cons r0 rs =>
    have hb : ∀ (t e : Option (Out Y B)),
        pIf (blobTest (r0 :: rs)) t e = if r0.hasBlobs then t else e := by
      intro t e; rw [(C13_src_hasBlobs r0 rs).1, pIf_some]
    have key : Gen.LogLikeSrc.assemble mkBlobs (r0 :: rs) =
        if r0.hasBlobs then
          ((allSome ((r0 :: rs).map fun item => Res.tailFrom? item 1)).bind fun rows =>
            (allSome ((r0 :: rs).map fun item => Res.floatAt? item 0)).bind fun l =>
              (mkBlobs rows).map fun b => (⟨l, some b⟩ : Out Y B))
        else ((allSome ((r0 :: rs).map fun item => Res.float? item)).map fun l => (⟨l, none⟩ : Out Y B)) := by
      cases r0 with
      | val y => simp [Gen.LogLikeSrc.assemble, Res.hasBlobs, Res.isInst, Res.len?, pIf_some, pAnd_some, pOr_some, pNot_some]
      | bad => simp [Gen.LogLikeSrc.assemble, Res.hasBlobs, Res.isInst, Res.len?, pIf_some, pAnd_some, pOr_some, pNot_some]
      | seq y bs =>
        cases bs <;>
          simp [Gen.LogLikeSrc.assemble, Res.hasBlobs, Res.isInst, Res.len?, pIf_some, pAnd_some, pOr_some, pNot_some]
    rw [key]
    simp only [Model.LLEval.assemble]
    split
    · rw [allSome_split]
      cases h1 : allSome ((r0 :: rs).map fun item => Res.tailFrom? item 1) with
      | none => rfl
      | some rows =>
        cases h2 : allSome ((r0 :: rs).map fun item => Res.floatAt? item 0) with
        | none => rfl
        | some l =>
          have e1 := allSome_length _ _ h1
          have e2 := allSome_length _ _ h2
          have hl : l.length = rows.length := by rw [e1, e2]; simp
          simp only [Option.bind_some, Option.map_some]
          have z1 : (l.zip rows).map (·.2) = rows := by
            simpa using List.map_snd_zip (l₁ := l) (l₂ := rows) (by omega)
          have z2 : (l.zip rows).map (·.1) = l := by
            simpa using List.map_fst_zip (l₁ := l) (l₂ := rows) (by omega)
          rw [z1, z2]
    · rfl

/-- `_log_like` on the point-by-point strategies: the list of results (serial map, or a pool's map) then the source's assembly -/
theorem C13_src_logLike (sched : List Nat) (f : X → Res Y B) (fvec : List X → List Y) (xs : List X) (k : Int) :
    logLike .map sched f fvec xs = Gen.LogLikeSrc.assemble mkBlobs (xs.map f) ∧
    logLike (.newPoolMap k) sched f fvec xs = (poolMap sched f xs).bind (Gen.LogLikeSrc.assemble mkBlobs) ∧
    logLike .objMap sched f fvec xs = (poolMap sched f xs).bind (Gen.LogLikeSrc.assemble mkBlobs) := by
  refine ⟨?_, ?_, ?_⟩ <;> simp only [logLike] <;> first | exact C13_src_assemble _ | (congr 1; funext rs; exact C13_src_assemble rs)

example : Gen.LogLikeSrc.assemble (Y := Int) (B := Int) mkBlobs [.seq 5 [6, 7], .seq 8 [9, 10]] =
    some ⟨[5, 8], some (.rows 2 [[6, 7], [9, 10]])⟩ := by decide
example : Gen.LogLikeSrc.assemble (Y := Int) (B := Int) mkBlobs [.val 5, .seq 8 [9]] = none := by decide
example : Gen.LogLikeSrc.assemble (Y := Int) (B := Int) mkBlobs [.seq 5 [], .seq 8 []] = none := by decide
example : Gen.LogLikeSrc.assemble (Y := Int) (B := Int) mkBlobs [.val 5, .val 8] = some ⟨[5, 8], none⟩ := by decide

/-! ### `_evaluate_likelihood` (mcmc.py) and the per-run counter -/

/-- both paths: one `self.log_likelihood(x_prime)`, the blobs handed on only when the runner tracks blobs,
    `self.n_calls += self.n_walkers` -/
theorem C13_src_evaluateLikelihood (haveBlobs : Bool) (ll : List X → Option (Out Y B)) (xp : List X) (n w : Nat) :
    evaluateLikelihood haveBlobs ll xp n w = evalLik haveBlobs ll xp n w := by
  cases haveBlobs <;> simp [evaluateLikelihood, evalLik]

/-- exactly one likelihood call on every path of `_evaluate_likelihood` -/
theorem C13_src_evalLik_calls : evalLikCallsMax = 1 ∧ evalLikCallsMin = 1 := by decide

/-- `self.n_calls = 0` at construction -/
theorem C13_src_nCallsInit : litNat runTable.nCallsInit = some nCallsInit := by decide

/-- the increment the run model reads from G6's table is the source's `self.n_calls += self.n_walkers` -/
theorem C13_src_nCallsStep (nP nW n : Nat) :
    (exprSize ⟨nP, nW⟩ runTable.calls.stepIncrement).map (n + ·) = some (nCallsStep n nW) := by
  simp [stepInc_eval, nCallsStep]

/-- one pass of `BaseMCMCRunner.run`'s loop in the run model, written with the source-derived counter step -/
theorem C13_src_mcmcLoop_succ (A : Algo S M X V) (ev : Nat → List X → Option V) (nP nW fuel : Nat) (m : M) (n : Nat)
    (asked : List (List X)) :
    mcmcLoop runTable A ev ⟨nP, nW⟩ (fuel + 1) m n asked =
      (ev asked.length (A.propose m)).bind fun v =>
        let m' := A.accept m (A.propose m) v
        if A.converged m' then some (m', nCallsStep n nW, asked ++ [A.propose m])
        else mcmcLoop runTable A ev ⟨nP, nW⟩ fuel m' (nCallsStep n nW) (asked ++ [A.propose m]) := by
  simp only [mcmcLoop, stepInc_eval, nCallsStep, Option.bind_some]

/-- the counter travels unchanged from the runner to `Mutator.run`: `run` returns `self.n_calls` in the slot that
    `Mutator.run` unpacks as the increment, through `parallel_mcmc` and the kernel functions that return their callee's value -/
theorem C13_src_slots :
    runNCallsSlot = mutateCallsSlot ∧ runArity = mutateArity ∧ runNCallsSlot < runArity ∧
    mcmcReturnChain = ["parallel_mcmc -> parallel_random_walk_metropolis",
                       "parallel_mcmc -> parallel_t_preconditioned_crank_nicolson",
                       "parallel_random_walk_metropolis -> RWMRunner(…).run",
                       "parallel_t_preconditioned_crank_nicolson -> TPCNRunner(…).run"] ∧
    mcmcLikelihoodArg = "self.log_likelihood" := by decide

/-! ### `Mutator.run` (mutate.py): the warm-up redraw loop and the two updates of `calls` -/

/-- `n_drawn = self.n_particles` -/
theorem C13_src_nDrawnInit (nP nW : Nat) : exprSize ⟨nP, nW⟩ runTable.warmDrawnInit = some (nDrawnInit nP) := by
  simp [warmInit_eval, nDrawnInit]

/-- the cap test `n_drawn >= 1000 * self.n_particles` and the step `n_drawn += self.n_particles`, as the run model reads them
    from G6's table, are the source's -/
theorem C13_src_warmStep (nP nW : Nat) :
    ∃ cap, capValue nP runTable.warmCap = some cap ∧
      ∀ nDrawn, (if capReached cap nDrawn then none else (exprSize ⟨nP, nW⟩ runTable.warmDrawnStep).map (nDrawn + ·)) =
        warmStep nDrawn nP := by
  refine ⟨some (1000 * nP), by simp [runTable, Gen.Dispatch.warmupCap, capValue], fun nDrawn => ?_⟩
  simp only [warmStep_eval, capReached, warmStep]
  by_cases h : 1000 * nP ≤ nDrawn <;> simp [h]

/-- one pass of the redraw loop in the run model, written with the source-derived step -/
theorem C13_src_warmLoop_succ (A : Algo S M X V) (ev : Nat → List X → Option V) (nP nW fuel : Nat) (s : S) (x : List X) (v : V)
    (nDrawn : Nat) (asked : List (List X)) :
    warmLoop runTable A ev ⟨nP, nW⟩ (some (1000 * nP)) (fuel + 1) s x v nDrawn asked =
      if A.allInf v then
        match warmStep nDrawn nP with
        | none => none
        | some n' => (ev asked.length (A.draw s)).bind fun v' =>
            warmLoop runTable A ev ⟨nP, nW⟩ (some (1000 * nP)) fuel (A.afterDraw s) (A.draw s) v' n' (asked ++ [A.draw s])
      else some (s, x, v, nDrawn, asked) := by
  obtain ⟨cap, hc, hs⟩ := C13_src_warmStep nP nW
  have hcap : cap = some (1000 * nP) := by
    have : capValue nP runTable.warmCap = some (some (1000 * nP)) := by simp [runTable, Gen.Dispatch.warmupCap, capValue]
    rw [this] at hc; exact (Option.some.inj hc).symm
  subst hcap
  rw [← hs nDrawn]
  simp only [warmLoop, warmStep_eval]
  by_cases hi : A.allInf v <;> by_cases hr : capReached (some (1000 * nP)) nDrawn <;> simp [hi, hr]

/-- both updates of `state["calls"]`: `get_current("calls") + n_drawn` and `get_current("calls") + mcmc_calls` -/
theorem C13_src_calls (e : Env) (c nDrawn m : Nat) :
    (warmIncrement e nDrawn runTable.calls.warmupIncrement).map (c + ·) = some (warmCalls c nDrawn e.nParticles) ∧
    c + m = mcmcCalls c m e.nParticles := by
  simp [warmInc_eval, warmCalls, mcmcCalls]

/-- `Mutator.run` in the run model, written with the source-derived terms only: initial `n_drawn`, cap, what is added to
    `calls` on either path, initial `n_calls` -/
theorem C13_src_mutate (A : Algo S M X V) (ev : Nat → List X → Option V) (nP fuel : Nat) (r : RS S X) (wfuel : Nat) :
    mutate runTable A ev nP fuel r wfuel =
      if A.beta0 r.s then
        (ev r.asked.length (A.draw r.s)).bind fun v =>
          (warmLoop runTable A ev ⟨nP, A.nWalkers r.s⟩ (some (1000 * nP)) wfuel (A.afterDraw r.s) (A.draw r.s) v (nDrawnInit nP)
              (r.asked ++ [A.draw r.s])).map fun (s', x', v', nDrawn, asked') =>
            { s := A.warmStore s' x' v' nDrawn, calls := warmCalls r.calls nDrawn nP, asked := asked' }
      else
        (mcmcLoop runTable A ev ⟨nP, A.nWalkers r.s⟩ fuel (A.mcmcInit r.s) nCallsInit r.asked).map fun (m, mc, asked') =>
          { s := A.mcmcStore r.s m, calls := mcmcCalls r.calls mc nP, asked := asked' } := by
  have hcap : capValue nP runTable.warmCap = some (some (1000 * nP)) := by simp [runTable, Gen.Dispatch.warmupCap, capValue]
  have hn0 : litNat runTable.nCallsInit = some nCallsInit := C13_src_nCallsInit
  unfold mutate
  by_cases hb : A.beta0 r.s
  · simp only [hb, if_true, warmInit_eval, hcap, Option.bind_some, warmInc_eval, Option.map_some, nDrawnInit, warmCalls]
    congr 1; funext v
    cases warmLoop runTable A ev ⟨nP, A.nWalkers r.s⟩ (some (1000 * nP)) wfuel (A.afterDraw r.s) (A.draw r.s) v nP
      (r.asked ++ [A.draw r.s]) <;> rfl
  · simp only [hb, hn0, Option.bind_some, mcmcCalls]
    rfl

/-- the likelihood is called once before the redraw loop, once per completed pass, never in the loop test, never before the
    ValueError of the cap, never by `Mutator.run` itself on the annealing path; the redraw loop carries a counter -/
theorem C13_src_evals :
    warmOutsideEvals = [1] ∧ warmPassEvals = [1] ∧ warmRaiseEvals = [0] ∧ warmTestEvals = 0 ∧ coldOutsideEvals = [0] ∧
    counterCarried = true := by decide

example : warmStep 3000 3 = none ∧ warmStep 2997 3 = some 3000 ∧ warmCalls 10 6 3 = 16 ∧ mcmcCalls 10 6 3 = 16 := by decide

/-! ### the accounting model of Props/C13.lean (`Model.Dispatch.stepAcc`) -/

theorem C13_src_stepAcc (e : Env) (a : Acc) :
    stepAcc callTable e a .warmup = some ⟨warmCalls a.calls (nDrawnInit e.nParticles) e.nParticles, a.evaluated + e.nParticles⟩ ∧
    stepAcc callTable e a (.mcmc 1) = some ⟨nCallsStep a.calls e.nWalkers, a.evaluated + e.nWalkers⟩ := by
  constructor <;>
    simp [stepAcc, callTable, Gen.Dispatch.warmupDrawnStep, Gen.Dispatch.warmupBatch, Gen.Dispatch.stepIncrement,
      Gen.Dispatch.stepBatch, exprSize, warmCalls, nDrawnInit, nCallsStep]

/-! ### how a run starts (core.py `run_sampling`, `_initialize_fresh`, `load_sampler_state`) -/

/-- the if-chain at the top of `run_sampling`: a resume path wins, else a committed history continues, else a fresh start -/
theorem C13_src_startKind (havePath : Bool) (n : Nat) :
    Model.CallsRun.startKind Gen.Dispatch.runStart havePath n = Gen.LogLikeSrc.startKind havePath n := by
  cases havePath <;> by_cases h : n > 0 <;>
    simp [Model.CallsRun.startKind, Gen.Dispatch.runStart, Gen.LogLikeSrc.startKind, startOf, h]

/-- initial value of the counter: `set_current("calls", 0)` on a fresh start, the default `0` of `load_sampler_state` for a
    state file without the entry -/
theorem C13_src_begin (s : S) :
    begin (X := X) runTable (.fresh s) = some ⟨s, freshCalls, []⟩ ∧
    begin (X := X) runTable (.resume s none) = some ⟨s, resumeDefaultCalls, []⟩ := by
  constructor <;> simp [begin, runTable, Gen.Dispatch.freshCalls, Gen.Dispatch.resumeDefault, litNat, freshCalls, resumeDefaultCalls]

end Props.C13.Src
