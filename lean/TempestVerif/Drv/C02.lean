import TempestVerif.Drv.Util
import TempestVerif.Model.PipelineX
/- line-protocol handlers of properties C01 / C02: the EXTENDED whole-run model (`Model.PipelineX`) at Float.

   pipex.F ratio=<f> n=<nat> vv=<f|none> tolE=<f> tolB=<f> fuel=<nat> syst=<0|1> kind=<tpcn|rwm> d=<nat> nsteps=<nat>
           nmax=<nat> per=<nats> refl=<nats> guard=<0|1> tol=<f> ntotal=<f> post=<spec>&<spec>… tapes=<tape>|<tape>|…
     tape (warm-up):    D/<u rows `;`>/<draw logl, `x` = -inf>/<picks>/<metric table | ->/<discarded draws>
     tape (annealing):  A/<resampling uniforms>/<metric table `b:m,b:m…` | ->/<mode>&<mode>…/<assign>/<step>+<step>…
       mode:            <mu>~<chol rows `;`>~<invcov rows `;`>~<nu>
       step:            <gammas>~<z rows `;`>~<logl at the evaluated points, `x` = -inf>~<uniforms>
     post spec:         <trim 0|1>:<resample 0|1>:<ess_trim f>:<bins nat>:<u0 f>            (`-` = no posterior call)
   → <iter>|<iter>|…#<batch>|<batch>|…#<final evidence | none>#<post>|<post>|…
         or  error:<k>  (iteration k left the model)   or  guard:<k>  (the loop guard disagrees before iteration k / at the end)
       iter:  <beta>;<ess>;<logz after reweight>;<logz committed>;<idx>;<mask>+<mask>…;<branch>;<nsteps>;<sigmas>;
              <acceptance>;<efficiency>;<cands of step 1 `:` rows>+<cands of step 2>…
       batch: <u rows `;`>/<logl>
       post:  <pool positions>/<weights>/<logw>   |  none
-/
namespace Drv.C02
open Drv Model.Pipeline Model.PipelineX Model.Reweight Model.Kernel

def parseOptF? (s : String) : Option (Option Float) :=
  if s == "x" then some none else (parseFloat? s).map some

def parseRows? (s : String) : Option (List (List Float)) :=
  if s.isEmpty || s == "-" then some [] else (s.splitOn ";").mapM (parseList? parseFloat?)

def parseMode? (s : String) : Option (Mode Float) :=
  match s.splitOn "~" with
  | [a, b, c, d] => do
    let mu ← parseList? parseFloat? a
    let chol ← parseRows? b
    let inv ← parseRows? c
    let nu ← parseFloat? d
    pure ⟨mu, chol, inv, nu⟩
  | _ => none

def parseXStep? (s : String) : Option (XStep Float) :=
  match s.splitOn "~" with
  | [a, b, c, d] => do
    let g ← parseList? parseFloat? a
    let z ← parseRows? b
    let lp ← parseList? parseOptF? c
    let r ← parseList? parseFloat? d
    pure ⟨g, z, lp, r⟩
  | _ => none

def parsePair? (s : String) : Option (Float × Float) :=
  match s.splitOn ":" with
  | [a, b] => do pure ((← parseFloat? a), (← parseFloat? b))
  | _ => none

def parseXTape? (s : String) : Option (XTape Float) :=
  match s.splitOn "/" with
  | ["D", a, b, c, m, dd] => do
    let us ← parseRows? a
    let l ← parseList? parseOptF? b
    let p ← parseNatList? c
    let tbl ← parseList? parsePair? m
    let disc ← dd.toNat?
    pure ⟨us, l, p, [], tbl, [], [], [], disc⟩
  | ["A", a, m, md, asg, st] => do
    let u ← parseList? parseFloat? a
    let tbl ← parseList? parsePair? m
    let modes ← if md == "-" then some [] else (md.splitOn "&").mapM parseMode?
    let assign ← parseNatList? asg
    let steps ← if st == "-" then some [] else (st.splitOn "+").mapM parseXStep?
    pure ⟨[], [], [], u, tbl, modes, assign, steps, 0⟩
  | _ => none

def showRows (m : List (List Float)) : String :=
  if m.isEmpty then "-" else ";".intercalate (m.map (showList showFloat))

def showCands (m : List (List Float)) : String :=
  if m.isEmpty then "-" else ":".intercalate (m.map (showList showFloat))

def showMask (m : List Bool) : String := if m.isEmpty then "-" else String.ofList (m.map fun b => if b then '1' else '0')

def showXIter (o : XOut Float) : String :=
  ";".intercalate [showFloat o.beta, showFloat o.ess, showFloat o.logzRw, showFloat o.logz,
    showList toString o.idx, (if o.masks.isEmpty then "-" else "+".intercalate (o.masks.map showMask)), o.branch.name,
    toString o.nsteps, showList showFloat o.sigmas, showFloat o.acceptance, showFloat o.efficiency,
    (if o.cands.isEmpty then "-" else "+".intercalate (o.cands.map showCands))]

structure PostSpec where
  trim : Bool
  res : Bool
  essTrim : Float
  bins : Nat
  u0 : Float

def parsePost? (s : String) : Option PostSpec :=
  match s.splitOn ":" with
  | [a, b, c, d, e] => do
    let et ← parseFloat? c
    let bins ← d.toNat?
    let u0 ← parseFloat? e
    pure ⟨a == "1", b == "1", et, bins, u0⟩
  | _ => none

def showPost (s : XState Float) (p : PostSpec) : String :=
  match posteriorX s p.essTrim p.bins p.u0 ⟨p.res, p.trim, false, true⟩ with
  | none => "none"
  | some a => s!"{showList toString a.x}/{showList showFloat a.w}/{showList showFloat a.lw}"

inductive Stop where
  | err (k : Nat)
  | guard (k : Nat)

def pipex (args : List (String × String)) : Option String := do
  let ratio ← (getArg args "ratio").bind parseFloat?
  let n ← (getArg args "n").bind String.toNat?
  let vv ← (getArg args "vv").bind fun s => if s == "none" then some none else (parseFloat? s).map some
  let tolE ← (getArg args "tolE").bind parseFloat?
  let tolB ← (getArg args "tolB").bind parseFloat?
  let fuel ← (getArg args "fuel").bind String.toNat?
  let syst ← (getArg args "syst").map (· == "1")
  let kind ← match getArg args "kind" with | some "tpcn" => some Kind.tpcn | some "rwm" => some Kind.rwm | _ => none
  let d ← (getArg args "d").bind String.toNat?
  let nsteps ← (getArg args "nsteps").bind String.toNat?
  let nmax ← (getArg args "nmax").bind String.toNat?
  let per ← (getArg args "per").bind parseNatList?
  let refl ← (getArg args "refl").bind parseNatList?
  let guard ← (getArg args "guard").map (· == "1")
  let tol ← (getArg args "tol").bind parseFloat?
  let ntotal ← (getArg args "ntotal").bind parseFloat?
  let posts ← (getArg args "post").bind fun s => if s == "-" then some [] else (s.splitOn "&").mapM parsePost?
  let tapes ← (getArg args "tapes").bind fun s => (s.splitOn "|").mapM parseXTape?
  let c : XCfg Float := ⟨⟨ratio, n, vv, tolE, tolB, fuel⟩, syst, kind, d, nsteps, nmax, per, refl⟩
  -- iteration by iteration (same composition as `runGuardedX` / `runItersX`), so that the failing iteration can be named
  let rec go (s : XState Float) (k : Nat) (acc : List (XOut Float)) : List (XTape Float) → Sum Stop (XState Float × List (XOut Float))
    | [] => if guard && contX tol ntotal s then .inl (.guard k) else .inr (s, acc.reverse)
    | t :: ts =>
      if guard && !(contX tol ntotal s) then .inl (.guard k) else
      match iterateX c s t with
      | some (s', o) => go s' (k + 1) (o :: acc) ts
      | none => .inl (.err k)
  match go initX 0 [] tapes with
  | .inl (.err k) => pure s!"error:{k}"
  | .inl (.guard k) => pure s!"guard:{k}"
  | .inr (s, outs) =>
    let its := "|".intercalate (outs.map showXIter)
    let hs := "|".intercalate (s.hist.map fun b => s!"{showRows b.us}/{showList showFloat b.b.logl}")
    let ev := match finalEvidenceX s with | some z => showFloat z | none => "none"
    let ps := if posts.isEmpty then "-" else "|".intercalate (posts.map (showPost s))
    pure s!"{its}#{hs}#{ev}#{ps}"

def handle (cmd : String) (args : List (String × String)) : Option String :=
  match cmd with
  | "pipex.F" => some ((pipex args).getD "bad-op")
  | _ => none

end Drv.C02
