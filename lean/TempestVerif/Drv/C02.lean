import TempestVerif.Drv.Util
/- line-protocol handlers of property C02 (stub: no commands yet) -/
namespace Drv.C02
open Drv

def handle (cmd : String) (args : List (String × String)) : Option String :=
  match cmd with
  | _ => none

end Drv.C02
