import TempestVerif.Drv.Util
import TempestVerif.Model.Records
import TempestVerif.Gen.Tables
/- line-protocol handlers of property C07: particle movement on TAGS.
   A particle is a natural-number tag; `T u = u`, `Lk x = (x, x)`, so a coherent record is one whose four
   tags agree.  The field tables are the ones regenerated from /repo (`Gen.Tables`).

   rec.run ops=<op>;<op>;…      ops:  draw:<tags>   commit   res:<idx>   mut:<tags>:<mask bits>   rep:<tgt>:<src>
   → after the whole sequence:   cur=<u>/<x>/<l>/<b> hist=<batch>|<batch>…   (each batch u/x/l/b)   or  error:<op index>
-/
namespace Drv.C07
open Drv Model.Records

def genTables : Tables :=
  { resampleGather := Gen.Tables.resampleGather
    mcmcMasked := Gen.Tables.mcmcMasked
    warmupReplace := Gen.Tables.warmupReplace }

def parseBits? (s : String) : Option (List Bool) :=
  if s == "-" then some [] else
  s.toList.mapM fun c => if c == '1' then some true else if c == '0' then some false else none

def parseOp? (s : String) : Option (Op Nat) :=
  match s.splitOn ":" with
  | ["commit"] => some .commit
  | ["draw", ts] => (parseNatList? ts).map .priorDraw
  | ["res", is] => (parseNatList? is).map .resample
  | ["mut", ts, m] => match parseNatList? ts, parseBits? m with
    | some t, some b => some (.mutate t b)
    | _, _ => none
  | ["rep", t, s] => match parseNatList? t, parseNatList? s with
    | some t, some s => some (.replaceInf t s)
    | _, _ => none
  | _ => none

def showPop (p : Pop Nat Nat Nat Nat) : String :=
  s!"{showList toString p.u}/{showList toString p.x}/{showList toString p.l}/{showList toString p.b}"

def runOps (ops : List (Op Nat)) : String :=
  let T : Nat → Nat := id
  let Lk : Nat → Nat × Nat := fun x => (x, x)
  let rec go (s : St Nat Nat Nat Nat) (k : Nat) : List (Op Nat) → String
    | [] => s!"cur={showPop s.cur} hist={if s.hist.isEmpty then "-" else "|".intercalate (s.hist.map showPop)}"
    | o :: os => match step genTables T Lk s o with
      | some s' => go s' (k + 1) os
      | none => s!"error:{k}"
  go ⟨[], ⟨[], [], [], []⟩⟩ 0 ops

def handle (cmd : String) (args : List (String × String)) : Option String :=
  match cmd with
  | "rec.run" =>
    match (getArg args "ops").bind fun s => (s.splitOn ";").mapM parseOp? with
    | some ops => some (runOps ops)
    | none => some "bad-op"
  | _ => none

end Drv.C07
