import TempestVerif.Drv.Util
import TempestVerif.Model.Records
import TempestVerif.Model.RecSM
import TempestVerif.Model.RecSM2
import TempestVerif.Model.LogLike
import TempestVerif.Model.Boundary
import TempestVerif.Gen.Tables
/- line-protocol handlers of property C07: particle movement on TAGS.
   A particle is a natural-number tag; `T u = u`, `Lk x = (x, x)`, so a coherent record is one whose four
   tags agree.  The field tables are the ones regenerated from /repo (`Gen.Tables`).

   rec.run ops=<op>;<op>;…      ops:  draw:<tags>   commit   res:<idx>   mut:<tags>:<mask bits>   rep:<tgt>:<src>
   → after the whole sequence:   cur=<u>/<x>/<l>/<b> hist=<batch>|<batch>…   (each batch u/x/l/b)   or  error:<op index>
-/
namespace Drv.C07
open Drv Model.Records

def genTables : Tables :=
  { resampleGather := Gen.Tables.resampleGather
    mcmcMasked := Gen.Tables.mcmcMasked
    warmupReplace := Gen.Tables.warmupReplace }

def parseBits? (s : String) : Option (List Bool) :=
  if s == "-" then some [] else
  s.toList.mapM fun c => if c == '1' then some true else if c == '0' then some false else none

def parseOp? (s : String) : Option (Op Nat) :=
  match s.splitOn ":" with
  | ["commit"] => some .commit
  | ["draw", ts] => (parseNatList? ts).map .priorDraw
  | ["res", is] => (parseNatList? is).map .resample
  | ["mut", ts, m] => match parseNatList? ts, parseBits? m with
    | some t, some b => some (.mutate t b)
    | _, _ => none
  | ["rep", t, s] => match parseNatList? t, parseNatList? s with
    | some t, some s => some (.replaceInf t s)
    | _, _ => none
  | _ => none

def showPop (p : Pop Nat Nat Nat Nat) : String :=
  s!"{showList toString p.u}/{showList toString p.x}/{showList toString p.l}/{showList toString p.b}"

def runOps (ops : List (Op Nat)) : String :=
  let T : Nat → Nat := id
  let Lk : Nat → Nat × Nat := fun x => (x, x)
  let rec go (s : St Nat Nat Nat Nat) (k : Nat) : List (Op Nat) → String
    | [] => s!"cur={showPop s.cur} hist={if s.hist.isEmpty then "-" else "|".intercalate (s.hist.map showPop)}"
    | o :: os => match step genTables T Lk s o with
      | some s' => go s' (k + 1) os
      | none => s!"error:{k}"
  go ⟨[], ⟨[], [], [], []⟩⟩ 0 ops

/-! ### StateManager-level model (`Model.RecSM`) at exact rationals, with the real boundary maps (`Model.Boundary`)

   c07sm.run hb=<0|1> lb=<0|1> sg=<0|1> per=<idx list> refl=<idx list> inf=<tags> d=<dim> tapes=<tape>;<tape>…
          [logw=<tok,…> posts=<trim>:<res>:<rb>;…]
     tape  W:<tags>/<tags>…:<picks>                warm-up: the successive batches of draws (redraw loop), u(t) = (t+1/2)/2^20 in every coordinate
           A:<idx>:<step>!<step>…                  annealing; step = <raw vectors>&<accept bits>; a vector = q_q_q
     posts <trim> / <res> = N or an index list, rb = 0|1
   → cur=U|X|L|B hist=U|X|L|B ret=B;B… mid=<cur after resampler.run>~<cur after mutator.run>;… [post=X|L|B|LW;…]
     (history: batches joined by `;`; rows by `,`; coordinates by `_`; `N` = None; `-` = empty) or error:<iteration>
-/
section sm
open Model.RecSM

def M : Rat := 1048576

def uOf (d : Nat) (t : Nat) : List Rat := List.replicate d (((t : Rat) + 1 / 2) / M)
def tT (u : List Rat) : List Rat := u.map fun c => 10 * c - 5
/-- logl = −(x0+5)·3 − 1 (`none` = −inf on the tags listed in `inf`), blob = 2·x0 + 7 -/
def tLk (inf : List Nat) (x : List Rat) : Option Rat × Rat :=
  match x with
  | [] => (some 0, 0)
  | x0 :: _ =>
    let t := ((x0 + 5) / 10) * M - 1 / 2
    (if inf.any (fun k => (k : Rat) == t) then none else some (-(x0 + 5) * 3 - 1), x0 * 2 + 7)

def parseVec? (s : String) : Option (List Rat) := (s.splitOn "_").mapM parseRat?
def parseVecs? (s : String) : Option (List (List Rat)) := if s == "-" then some [] else (s.splitOn ",").mapM parseVec?

def parseStep? (s : String) : Option (Step (List Rat)) :=
  match s.splitOn "&" with
  | [r, a] => match parseVecs? r, parseBits? a with
    | some r, some a => some ⟨r, a⟩
    | _, _ => none
  | _ => none

def parseTape? (d : Nat) (s : String) : Option (TapeR (List Rat)) :=
  match s.splitOn ":" with
  | ["W", bs, pk] => match (bs.splitOn "/").mapM parseNatList?, parseNatList? pk with
    | some bs, some pk => some ⟨true, bs.map fun ts => ts.map (uOf d), pk, [], []⟩
    | _, _ => none
  | ["A", ix, sts] => match parseNatList? ix, (if sts == "-" then some [] else (sts.splitOn "!").mapM parseStep?) with
    | some ix, some sts => some ⟨false, [], [], ix, sts⟩
    | _, _ => none
  | _ => none

def showVec (v : List Rat) : String := "_".intercalate (v.map showRat)
def showRows {β : Type} (f : β → String) (l : List β) : String := if l.isEmpty then "-" else ",".intercalate (l.map f)
def showL (l : Option Rat) : String := match l with | some v => showRat v | none => "ninf"
def showOpt {β : Type} (f : β → String) : Option β → String
  | none => "N"
  | some v => f v

abbrev SmSt := Model.RecSM.St (List Rat) (List Rat) (Option Rat) Rat
abbrev SmCur := Cur (List Rat) (List Rat) (Option Rat) Rat

def showCur (c : SmCur) : String :=
  s!"{showOpt (showRows showVec) c.u}|{showOpt (showRows showVec) c.x}|{showOpt (showRows showL) c.l}|{showOpt (showRows showRat) c.b}"

def showBatches {β : Type} (f : β → String) (h : List (List β)) : String :=
  if h.isEmpty then "-" else ";".intercalate (h.map (showRows f))

def showHist (h : Hist (List Rat) (List Rat) (Option Rat) Rat) : String :=
  s!"{showBatches showVec h.u}|{showBatches showVec h.x}|{showBatches showL h.l}|{showBatches showRat h.b}"

def parseOptIdx? (s : String) : Option (Option (List Nat)) :=
  if s == "N" then some none else (parseNatList? s).map some

def parsePost? (s : String) : Option (Option (List Nat) × Option (List Nat) × Bool) :=
  match s.splitOn ":" with
  | [t, r, b] => match parseOptIdx? t, parseOptIdx? r with
    | some t, some r => some (t, r, b == "1")
    | _, _ => none
  | _ => none

def showPost (p : Post (List Rat) (Option Rat) Rat String) : String :=
  s!"{showRows showVec p.x}|{showRows showL p.l}|{showOpt (showRows showRat) p.b}|{showRows id p.lw}"

def smRun (cfg : Cfg) (per refl : List Nat) (inf : List Nat) (tapes : List (TapeR (List Rat)))
    (logw : List String) (posts : List (Option (List Nat) × Option (List Nat) × Bool)) : String :=
  let fold := Model.Boundary.apply (α := Rat) per refl
  let chk := Model.Boundary.checkBounds (α := Rat) per refl
  let isInf : Option Rat → Bool := Option.isNone
  let rec go (s : SmSt) (k : Nat) (rets : List String) (mids : List String) : List (TapeR (List Rat)) → String
    | [] =>
      let ps := posts.map fun q => match posterior cfg logw q.1 q.2.1 q.2.2 s with
        | some p => showPost p
        | none => "error"
      let tail := if posts.isEmpty then "" else " post=" ++ ";".intercalate ps
      s!"cur={showCur s.cur} hist={showHist s.hist} ret={";".intercalate rets.reverse} mid={";".intercalate mids.reverse}{tail}"
    | t :: ts =>
      match iterateStatesR cfg tT (tLk inf) isInf fold chk s t with
      | some r => go r.2.2 (k + 1) (showOpt (showRows showRat) r.2.2.cur.b :: rets)
                    (s!"{showCur r.1.cur}~{showCur r.2.1.cur}" :: mids) ts
      | none => s!"error:{k}"
  go init 0 [] [] tapes

/-! ### `_log_like` (`Model.LogLike`) on integers

   c07ll.run mode=<v|p|s> rets=<ret>;<ret>…     ret = n:<int>  |  t:<int>:<item>+<item>…  (item = ints joined by `_`; `t:<int>:-` = 1-tuple)
   → logl=<ints> blobs=N|<row>;<row>…  (row = ints joined by `_`)   or   error
-/
open Model.LogLike in
def parseRet? (s : String) : Option (Ret Int (List Int)) :=
  match s.splitOn ":" with
  | ["n", l] => (parseInt? l).map Ret.num
  | ["t", l, items] =>
    match parseInt? l, (if items == "-" then some [] else (items.splitOn "+").mapM fun it => (it.splitOn "_").mapM parseInt?) with
    | some l, some its => some (Ret.tup l its)
    | _, _ => none
  | _ => none

open Model.LogLike in
def llRun (mode : Mode) (rets : List (Ret Int (List Int))) : String :=
  -- the "points" are positions; the user's function returns the scripted result of that position
  let xs := List.range rets.length
  let lk : Nat → Ret Int (List Int) := fun i => (rets[i]?).getD (Ret.num 0)
  let lkVec : List Nat → List Int := fun xs => xs.map fun i => (lk i).logl
  match logLike mode lkVec lk packFlat xs with
  | none => "error"
  | some (ls, b) =>
    let bs := match b with
      | none => "N"
      | some rows => if rows.isEmpty then "-" else ";".intercalate (rows.map fun (r : List Int) => if r.isEmpty then "-" else "_".intercalate (r.map toString))
    s!"logl={showList toString ls} blobs={bs}"

end sm

def handle (cmd : String) (args : List (String × String)) : Option String :=
  match cmd with
  | "rec.run" =>
    match (getArg args "ops").bind fun s => (s.splitOn ";").mapM parseOp? with
    | some ops => some (runOps ops)
    | none => some "bad-op"
  | "c07sm.run" =>
    let b (k : String) : Option Bool := (getArg args k).map (· == "1")
    match b "hb", b "lb", b "sg", (getArg args "per").bind parseNatList?, (getArg args "refl").bind parseNatList?,
          (getArg args "inf").bind parseNatList?, (getArg args "d").bind String.toNat? with
    | some hb, some lb, some sg, some per, some refl, some inf, some d =>
      match (getArg args "tapes").bind fun s => (if s == "-" then some [] else (s.splitOn ";").mapM (parseTape? d)) with
      | none => some "bad-op"
      | some tapes =>
        let logw := match getArg args "logw" with
          | some s => if s == "-" then [] else s.splitOn ","
          | none => []
        match (match getArg args "posts" with
               | some s => (s.splitOn ";").mapM parsePost?
               | none => some []) with
        | some posts => some (smRun ⟨hb, lb, sg⟩ per refl inf tapes logw posts)
        | none => some "bad-op"
    | _, _, _, _, _, _, _ => some "bad-op"
  | "c07ll.run" =>
    let mode : Option Model.LogLike.Mode := match getArg args "mode" with
      | some "v" => some .vectorized
      | some "p" => some .pool
      | some "s" => some .serial
      | _ => none
    match mode, (getArg args "rets").bind fun s => (if s == "-" then some [] else (s.splitOn ";").mapM parseRet?) with
    | some m, some rets => some (llRun m rets)
    | _, _ => some "bad-op"
  | _ => none

end Drv.C07
