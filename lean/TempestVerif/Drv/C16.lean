import TempestVerif.Drv.Util
import TempestVerif.Model.Boundary
namespace Drv.C16
open Drv Model.Boundary

/-- `bc per=<nats> refl=<nats> u=<scalars>`  →  `<scalars> <check before> <check after>` -/
def bc (α : Type) [Sc α] [Codec α] (args : List (String × String)) : String :=
  match (getArg args "per").bind parseNatList?, (getArg args "refl").bind parseNatList?,
        (getArg args "u").bind (parseList? (Codec.parse (α := α))) with
  | some per, some refl, some u =>
    let v := apply per refl u
    s!"{showList Codec.shw v} {showBool (checkBounds per refl u)} {showBool (checkBounds per refl v)}"
  | _, _, _ => "bad-op"

def handle (cmd : String) (args : List (String × String)) : Option String :=
  match cmd with
  | "bc.F" => some (bc Float args)
  | "bc.Q" => some (bc Rat args)
  | _ => none

end Drv.C16
