import TempestVerif.Drv.Util
import TempestVerif.Model.Boundary
import TempestVerif.Model.BoundaryPy
namespace Drv.C16
open Drv Model.Boundary Model.BoundaryPy

/-- `bc per=<nats> refl=<nats> u=<scalars>`  →  `<scalars> <check before> <check after>` -/
def bc (α : Type) [Sc α] [Codec α] (args : List (String × String)) : String :=
  match (getArg args "per").bind parseNatList?, (getArg args "refl").bind parseNatList?,
        (getArg args "u").bind (parseList? (Codec.parse (α := α))) with
  | some per, some refl, some u =>
    let v := apply per refl u
    s!"{showList Codec.shw v} {showBool (checkBounds per refl u)} {showBool (checkBounds per refl v)}"
  | _, _, _ => "bad-op"

/-! second pass: whole calls (`None` arguments, 1-D / 2-D dispatch, float32) and the call site -/

def toHex8 (n : Nat) : String :=
  let rec go (k : Nat) (n : Nat) (acc : List Char) : List Char :=
    match k with
    | 0 => acc
    | k+1 => go k (n / 16) (hexChar (n % 16) :: acc)
  String.ofList (go 8 n [])

/-- binary32 values cross as 8 hex digits of their bit pattern -/
instance : Codec Float32 :=
  ⟨fun s => (parseHex? s).map fun n => Float32.ofBits n.toUInt32, fun x => toHex8 x.toBits.toNat⟩

/-- `None` | `-` (empty) | `i,j,…` -/
def parseOptIdx? (s : String) : Option (Option (List Nat)) :=
  if s == "None" then some none else (parseNatList? s).map some

/-- rows separated by `;`, `!` = no row at all -/
def parseRows? {β : Type} (f : String → Option β) (s : String) : Option (List (List β)) :=
  if s == "!" then some [] else (s.splitOn ";").mapM (parseList? f)

def showRows {β : Type} (f : β → String) (rows : List (List β)) : String :=
  if rows.isEmpty then "!" else ";".intercalate (rows.map (showList f))

def showBits (bs : List Bool) : String := String.ofList (bs.map fun b => if b then '1' else '0')

def showRes : Res → String
  | .scalar b => "s" ++ showBool b
  | .vec bs => "v" ++ showBits bs

def showArr {β : Type} (f : β → String) : Arr β → String
  | .d1 u => "1:" ++ showList f u
  | .d2 n us => s!"2:{n}:" ++ showRows f us

/-- `c16py per=<optidx> refl=<optidx> nd=<1|2> ncols=<n> u=<rows>` →
    `<result array> <check_bounds(u)> <check_bounds(result)>` -/
def py (α : Type) [Sc α] [Codec α] (args : List (String × String)) : String :=
  match (getArg args "per").bind parseOptIdx?, (getArg args "refl").bind parseOptIdx?,
        (getArg args "nd").bind String.toNat?, (getArg args "ncols").bind String.toNat?,
        (getArg args "u").bind (parseRows? (Codec.parse (α := α))) with
  | some per, some refl, some nd, some n, some rows =>
    let a : Option (Arr α) :=
      if nd == 1 then (match rows with | [u] => some (.d1 u) | _ => none) else some (.d2 n rows)
    match a with
    | some a =>
      let v := applyPy per refl a
      s!"{showArr Codec.shw v} {showRes (checkPy per refl a)} {showRes (checkPy per refl v)}"
    | none => "bad-op"
  | _, _, _, _, _ => "bad-op"

/-- `c16site per=<optidx> refl=<optidx> ncols=<n> cur=<rows> raws=<rows>` → `<u_prime rows> <in_bounds bits>` | `none` -/
def site (α : Type) [Sc α] [Codec α] (args : List (String × String)) : String :=
  match (getArg args "per").bind parseOptIdx?, (getArg args "refl").bind parseOptIdx?,
        (getArg args "ncols").bind String.toNat?,
        (getArg args "cur").bind (parseRows? (Codec.parse (α := α))),
        (getArg args "raws").bind (parseRows? (Codec.parse (α := α))) with
  | some per, some refl, some n, some cur, some raws =>
    match proposeAll per refl n cur raws with
    | some (up, inb) => s!"{showRows Codec.shw up} {showBits inb}"
    | none => "none"
  | _, _, _, _, _ => "bad-op"

def handle (cmd : String) (args : List (String × String)) : Option String :=
  match cmd with
  | "bc.F" => some (bc Float args)
  | "bc.Q" => some (bc Rat args)
  | "bc.S" => some (bc Float32 args)
  | "c16py.F" => some (py Float args)
  | "c16py.Q" => some (py Rat args)
  | "c16py.S" => some (py Float32 args)
  | "c16site.F" => some (site Float args)
  | "c16site.Q" => some (site Rat args)
  | _ => none

end Drv.C16
