import TempestVerif.Drv.Util
import TempestVerif.Model.Modes
import TempestVerif.Model.Cadence
/- line-protocol handlers of property C14

   modes.from labels=<nats> [tapes=<nats>;<nats>;…]
       → `K=<n> modes=<idx list>|<idx list>|…`  (one index list per mode, in mode order; `-` = empty)
         and, when tapes are given (one tape of LOCAL indices per mode), ` fed=<ids>|<ids>|…` = what each fit received
         (`fed=error` if the number of tapes differs from K or a draw is out of range)
   modes.lookup labels=<nats> assign=<nat> near=<idx> [stored=none] [old=1]
       the path as it is now: `ModeStatistics.mode_index` (near = the nearest-mean argmin the caller observed/computed; only
       consulted for a label without a mode), then the kernel's `means[index]`
       → `index=<i> label=<relabelled assignment> mode=<idx list>`   or   `IndexError` (index has no mode)
       stored=none: the `self.labels is None` path (index = assignment, label = assignment)
       old=1: the raw-index lookup used before commit 88d298f  → `index=<a> label=<label of that mode> mode=…` or `IndexError`
   (instead of near=: d2=<rationals> = the particle's row of SQUARED distances to the K mode means; the model takes the first minimum)
   modes.dof nu=<rational|inf> fb=<rational>   → the stored degrees of freedom (`if ~isfinite(dof): dof = dof_fallback`)
   wire.maxit cap=<n|none>                      → `max_iterations` the core hands to the clusterer
   cad.trace ce=<k> sched=<bits> resume=<idx or -> iter0=<n> [clustering=0|1] [old=1]
       → `<events> <verdict> fitted=<0|1> iter=<n>`   events: N = fresh clusterer object, F = fit, P = predict;
         verdict ok | predictBeforeFit.   sched: 1 = an iteration with β = 0, 0 = β > 0; resume = index of the schedule
         entry BEFORE which a fresh Trainer/Resampler/clusterer is constructed.  old=1: the model without the
         `not self._clusterer_fitted` disjunct.
-/
namespace Drv.C14
open Drv Model.Modes Model.Cadence

def showModes (ms : List (List Nat)) : String :=
  if ms.isEmpty then "none" else "|".intercalate (ms.map (showList toString))

def parseTapes? (s : String) : Option (List (List Nat)) :=
  if s == "none" then some [] else (s.splitOn ";").mapM parseNatList?

def modesFrom (args : List (String × String)) : String :=
  match (getArg args "labels").bind parseNatList? with
  | some labels =>
    let ms := fromParticles labels
    let base := s!"K={numModes labels} modes={showModes ms}"
    match getArg args "tapes" with
    | none => base
    | some t => match parseTapes? t with
      | none => "bad-op"
      | some tapes => match fitInputs ms tapes with
        | some fed => s!"{base} fed={showModes fed}"
        | none => s!"{base} fed=error"
  | none => "bad-op"

def modesLookup (args : List (String × String)) : String :=
  match (getArg args "labels").bind parseNatList?, (getArg args "assign").bind String.toNat? with
  | some labels, some a =>
    let old := (getArg args "old") == some "1"
    let noStored := (getArg args "stored") == some "none"
    let idx? : Option Nat :=
      if old then some a else
      match getArg args "d2" with
      | some ds => match parseList? parseRat? ds with
        | some drow => if noStored then some a else modeIndexD (labelsOf labels) drow a
        | none => none
      | none => ((getArg args "near").bind String.toNat?).map fun near =>
          modeIndexOpt (if noStored then none else some (labelsOf labels)) near a
    match idx? with
    | none => "bad-op"
    | some i =>
      match modeOfRaw (fromParticles labels) i, (if noStored then some a else (labelsOf labels)[i]?) with
      | some m, some l => s!"index={i} label={l} mode={showList toString m}"
      | _, _ => "IndexError"
  | _, _ => "bad-op"

def modesDof (args : List (String × String)) : String :=
  match getArg args "nu", (getArg args "fb").bind parseRat? with
  | some nu, some fb =>
    if nu == "inf" then showRat (applyDofFallback (none : Option Rat) fb) else
    match parseRat? nu with
    | some v => showRat (applyDofFallback (some v) fb)
    | none => "bad-op"
  | _, _ => "bad-op"

def wireMaxit (args : List (String × String)) : String :=
  match getArg args "cap" with
  | some "none" => toString (wiredMaxIterations none)
  | some c => match c.toNat? with
    | some n => toString (wiredMaxIterations (some n))
    | none => "bad-op"
  | none => "bad-op"

def parseBits? (s : String) : Option (List Bool) :=
  if s == "-" then some [] else
  s.toList.mapM fun c => if c == '1' then some true else if c == '0' then some false else none

def showEvent : Event → String
  | .fresh => "N" | .fit => "F" | .predict => "P"

def parseResume? (s : String) : Option (Option Nat) :=
  if s == "-" then some none else s.toNat?.map some

def cadTrace (args : List (String × String)) : String :=
  match (getArg args "ce").bind String.toNat?, (getArg args "sched").bind parseBits?,
        (getArg args "resume").bind parseResume?, (getArg args "iter0").bind String.toNat? with
  | some ce, some sched, some r, some iter0 =>
    if ce = 0 then "bad-op" else   -- `iter % 0` raises ZeroDivisionError in Python; outside the statement
    let clustering := (getArg args "clustering") != some "0"
    let old := (getArg args "old") == some "1"
    let s := run { clusterEvery := ce, clustering := clustering, useFlag := !old } iter0 (withResume sched r)
    let v := match s.verdict with | .ok => "ok" | .predictBeforeFit => "predictBeforeFit"
    s!"{String.join (s.trace.map showEvent)} {v} fitted={showBool s.clFitted} iter={s.iter}"
  | _, _, _, _ => "bad-op"

def handle (cmd : String) (args : List (String × String)) : Option String :=
  match cmd with
  | "modes.from" => some (modesFrom args)
  | "modes.lookup" => some (modesLookup args)
  | "modes.dof" => some (modesDof args)
  | "wire.maxit" => some (wireMaxit args)
  | "cad.trace" => some (cadTrace args)
  | _ => none

end Drv.C14
