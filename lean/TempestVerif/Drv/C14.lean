import TempestVerif.Drv.Util
import TempestVerif.Model.Modes
import TempestVerif.Model.Cadence
import TempestVerif.Model.CadenceX
import TempestVerif.Model.TrainStep
import TempestVerif.Model.ModeGate
/- line-protocol handlers of property C14

   modes.from labels=<nats> [tapes=<nats>;<nats>;…]
       → `K=<n> modes=<idx list>|<idx list>|…`  (one index list per mode, in mode order; `-` = empty)
         and, when tapes are given (one tape of LOCAL indices per mode), ` fed=<ids>|<ids>|…` = what each fit received
         (`fed=error` if the number of tapes differs from K or a draw is out of range)
   modes.lookup labels=<nats> assign=<nat> near=<idx> [stored=none] [old=1]
       the path as it is now: `ModeStatistics.mode_index` (near = the nearest-mean argmin the caller observed/computed; only
       consulted for a label without a mode), then the kernel's `means[index]`
       → `index=<i> label=<relabelled assignment> mode=<idx list>`   or   `IndexError` (index has no mode)
       stored=none: the `self.labels is None` path (index = assignment, label = assignment)
       old=1: the raw-index lookup used before commit 88d298f  → `index=<a> label=<label of that mode> mode=…` or `IndexError`
   (instead of near=: d2=<rationals> = the particle's row of SQUARED distances to the K mode means; the model takes the first minimum)
   modes.dof nu=<rational|inf> fb=<rational>   → the stored degrees of freedom (`if ~isfinite(dof): dof = dof_fallback`)
   wire.maxit cap=<n|none>                      → `max_iterations` the core hands to the clusterer
   cad.trace ce=<k> sched=<bits> resume=<idx or -> iter0=<n> [clustering=0|1] [old=1]
       → `<events> <verdict> fitted=<0|1> iter=<n>`   events: N = fresh clusterer object, F = fit, P = predict;
         verdict ok | predictBeforeFit.   sched: 1 = an iteration with β = 0, 0 = β > 0; resume = index of the schedule
         entry BEFORE which a fresh Trainer/Resampler/clusterer is constructed.  old=1: the model without the
         `not self._clusterer_fitted` disjunct.
   c14x.trace ce=<k> steps=<tok,tok,…> iter0=<n> [clustering=0|1]      (second pass: Model.CadenceX)
       tokens: w = complete iteration at β = 0, a = complete annealing iteration, R = fresh Sampler restored from the current
       state, R<k> = fresh Sampler restored from a checkpoint with iter = k, L<k> = the state of the SAME core replaced
       (iter = k), ce / ct / cl = an annealing iteration that raised early / inside Trainer.run after the clusterer calls /
       in Mutator.run
       → `<events> <verdict> gen=<g|-> iter=<n> coherent=<0|1>`   events: N, F<g>, P<g> (P- = predict on an unfitted object)
   c14i.iter d=<dim> hist=<n·d rationals> w=<n rationals> keep=<ids> wt=<rationals> res=<ids> iter=<n> ce=<k> flag=<0|1>
             prevgen=<g|-> prevk=<k> prevu=<ids> kfit=<k>                      (second pass: Model.TrainStep.annealIter)
       one annealing iteration on tagging components: particles are history rows (id = position), `trim` keeps the rows `keep`
       with weights `wt` (observed from the real trim_weights), a fit of generation g with k clusters made on the ids `fitU` labels
       id p with (5·p + g) % max(1, k−1) if p ∈ fitU, else (p + g) % k, `from_particles` builds one mode per distinct label with stub mean ((c+1)/8,…), distances are squared
       → `fit=<0|1> gen=<g> fitu=<ids> fitw=<rationals> labels=<nats> K=<n> stored=<nats> modes=<ids|ids|…> raw=<nats>
          index=<nats> relabel=<nats>`   or `raised`
   c14g.gate d=<dim> m=<d·d floats, row-major>     → `built` | `raised`   (Model.ModeGate.pdGate at Float)
   c14w.minpts cap=<n|none> d=<dim>                → `min_points` the core hands to the clusterer (`none` | n)
-/
namespace Drv.C14
open Drv Model.Modes Model.Cadence

def showModes (ms : List (List Nat)) : String :=
  if ms.isEmpty then "none" else "|".intercalate (ms.map (showList toString))

def parseTapes? (s : String) : Option (List (List Nat)) :=
  if s == "none" then some [] else (s.splitOn ";").mapM parseNatList?

def modesFrom (args : List (String × String)) : String :=
  match (getArg args "labels").bind parseNatList? with
  | some labels =>
    let ms := fromParticles labels
    let base := s!"K={numModes labels} modes={showModes ms}"
    match getArg args "tapes" with
    | none => base
    | some t => match parseTapes? t with
      | none => "bad-op"
      | some tapes => match fitInputs ms tapes with
        | some fed => s!"{base} fed={showModes fed}"
        | none => s!"{base} fed=error"
  | none => "bad-op"

def modesLookup (args : List (String × String)) : String :=
  match (getArg args "labels").bind parseNatList?, (getArg args "assign").bind String.toNat? with
  | some labels, some a =>
    let old := (getArg args "old") == some "1"
    let noStored := (getArg args "stored") == some "none"
    let idx? : Option Nat :=
      if old then some a else
      match getArg args "d2" with
      | some ds => match parseList? parseRat? ds with
        | some drow => if noStored then some a else modeIndexD (labelsOf labels) drow a
        | none => none
      | none => ((getArg args "near").bind String.toNat?).map fun near =>
          modeIndexOpt (if noStored then none else some (labelsOf labels)) near a
    match idx? with
    | none => "bad-op"
    | some i =>
      match modeOfRaw (fromParticles labels) i, (if noStored then some a else (labelsOf labels)[i]?) with
      | some m, some l => s!"index={i} label={l} mode={showList toString m}"
      | _, _ => "IndexError"
  | _, _ => "bad-op"

def modesDof (args : List (String × String)) : String :=
  match getArg args "nu", (getArg args "fb").bind parseRat? with
  | some nu, some fb =>
    if nu == "inf" then showRat (applyDofFallback (none : Option Rat) fb) else
    match parseRat? nu with
    | some v => showRat (applyDofFallback (some v) fb)
    | none => "bad-op"
  | _, _ => "bad-op"

def wireMaxit (args : List (String × String)) : String :=
  match getArg args "cap" with
  | some "none" => toString (wiredMaxIterations none)
  | some c => match c.toNat? with
    | some n => toString (wiredMaxIterations (some n))
    | none => "bad-op"
  | none => "bad-op"

def parseBits? (s : String) : Option (List Bool) :=
  if s == "-" then some [] else
  s.toList.mapM fun c => if c == '1' then some true else if c == '0' then some false else none

def showEvent : Event → String
  | .fresh => "N" | .fit => "F" | .predict => "P"

def parseResume? (s : String) : Option (Option Nat) :=
  if s == "-" then some none else s.toNat?.map some

def cadTrace (args : List (String × String)) : String :=
  match (getArg args "ce").bind String.toNat?, (getArg args "sched").bind parseBits?,
        (getArg args "resume").bind parseResume?, (getArg args "iter0").bind String.toNat? with
  | some ce, some sched, some r, some iter0 =>
    if ce = 0 then "bad-op" else   -- `iter % 0` raises ZeroDivisionError in Python; outside the statement
    let clustering := (getArg args "clustering") != some "0"
    let old := (getArg args "old") == some "1"
    let s := run { clusterEvery := ce, clustering := clustering, useFlag := !old } iter0 (withResume sched r)
    let v := match s.verdict with | .ok => "ok" | .predictBeforeFit => "predictBeforeFit"
    s!"{String.join (s.trace.map showEvent)} {v} fitted={showBool s.clFitted} iter={s.iter}"
  | _, _, _, _ => "bad-op"

/-! ### second pass -/

def parseStepX? (t : String) : Option Model.CadenceX.StepX :=
  if t == "w" then some (.iter true) else if t == "a" then some (.iter false)
  else if t == "R" then some (.fresh none)
  else if t == "ce" then some .crashEarly else if t == "ct" then some .crashTrained else if t == "cl" then some .crashLate
  else if t.startsWith "R" then ((t.drop 1).toNat?).map fun k => .fresh (some k)
  else if t.startsWith "L" then ((t.drop 1).toNat?).map .load
  else none

def showEvX : Model.CadenceX.Ev → String
  | .fresh => "N"
  | .fit g => s!"F{g}"
  | .predict (some g) => s!"P{g}"
  | .predict none => "P-"

def cadTraceX (args : List (String × String)) : String :=
  match (getArg args "ce").bind String.toNat?, getArg args "steps", (getArg args "iter0").bind String.toNat? with
  | some ce, some stepsS, some iter0 =>
    if ce = 0 then "bad-op" else
    match (if stepsS == "-" then some [] else (stepsS.splitOn ",").mapM parseStepX?) with
    | none => "bad-op"
    | some steps =>
      let clustering := (getArg args "clustering") != some "0"
      let s := Model.CadenceX.run { clusterEvery := ce, clustering := clustering } iter0 steps
      let v := match s.verdict with | .ok => "ok" | .predictBeforeFit => "predictBeforeFit"
      let g := match s.gen with | some g => toString g | none => "-"
      s!"{" ".intercalate (s.trace.map showEvX)} {v} gen={g} iter={s.iter} coherent={showBool (Model.CadenceX.coherentTrace s.trace)}"
  | _, _, _ => "bad-op"

/-- a tagged particle: its position in the flat history and its row of `u` -/
structure TP where
  id : Nat
  pos : List Rat

/-- a tagging fit: generation and number of clusters -/
structure TF where
  gen : Nat
  k : Nat
  fitU : List Nat
  fitW : List Rat

/-- the tagging mode object: labels present, members (ids of the training pool) per mode, stub means -/
structure TO where
  stored : List Nat
  members : List (List Nat)
  means : List (List Rat)

def tagLabel (f : TF) (p : TP) : Nat :=
  if f.k = 0 then 0 else if f.fitU.contains p.id then (5 * p.id + f.gen) % (max 1 (f.k - 1)) else (p.id + f.gen) % f.k

def rowsOfFlat (d n : Nat) (flat : Array Rat) : Option (List (List Rat)) :=
  if flat.size != n * d then none else
  (List.range n).mapM fun i => (List.range d).mapM fun a => flat[i * d + a]?

def iterX (args : List (String × String)) : String :=
  let nat := fun k => (getArg args k).bind String.toNat?
  let rats := fun k => (getArg args k).bind (parseList? parseRat?)
  let nats := fun k => (getArg args k).bind parseNatList?
  match nat "d", rats "hist", rats "w", nats "keep", rats "wt", nats "res", nat "iter", nat "ce", nat "kfit", nat "prevk" with
  | some d, some hist, some w, some keep, some wt, some res, some iter, some ce, some kfit, some prevk =>
    if ce = 0 || d = 0 then "bad-op" else
    match rowsOfFlat d w.length hist.toArray with
    | none => "bad-op"
    | some rows =>
      let ps : List TP := rows.zipIdx.map fun (r, i) => ⟨i, r⟩
      let flag := (getArg args "flag") == some "1"
      let prevGen := (getArg args "prevgen").bind String.toNat?
      let prevU := ((getArg args "prevu").bind parseNatList?).getD []
      let prev : Option TF := prevGen.map fun g => ⟨g, prevk, prevU, []⟩
      let newGen := (match prevGen with | some g => g | none => 0) + 1
      let mustFit := (iter % ce == 0 || iter == 0) || !flag
      let pt : Model.TrainStep.Parts TP Rat TF TO Rat :=
        { trim := fun h _ => (Model.Records.gather? h keep).map fun u => (u, wt)
          cfit := fun u wt => some ⟨newGen, kfit, u.map (·.id), wt⟩
          cpredict := fun f X => some (X.map (tagLabel f))
          build := fun u _ labels =>
            let ms := fromParticles labels
            if ms.isEmpty then none else
            some ⟨labelsOf labels, ms.map (fun m => m.filterMap fun j => (u[j]?).map (·.id)),
                  (List.range ms.length).map fun c => List.replicate d (((c : Nat) + 1 : Rat) / 8)⟩
          stored := fun o => o.stored
          dist := fun o p => Model.TrainStep.sqDistRow o.means p.pos }
      match Model.TrainStep.annealIter pt prev mustFit ps w res with
      | none => "raised"
      | some o =>
        let fu := if o.didFit then showList toString o.clf.fitU else "-"
        let fw := if o.didFit then showList showRat o.clf.fitW else "-"
        s!"fit={showBool o.didFit} gen={o.clf.gen} fitu={fu} fitw={fw} labels={showList toString o.trainLabels} K={o.obj.stored.length} stored={showList toString o.obj.stored} modes={showModes o.obj.members} raw={showList toString (o.active.map (·.raw))} index={showList toString (o.active.map (·.index))} relabel={showList toString (o.active.map (·.label))}"
  | _, _, _, _, _, _, _, _, _, _ => "bad-op"

def gateF (args : List (String × String)) : String :=
  match (getArg args "d").bind String.toNat?, (getArg args "m").bind (parseList? parseFloat?) with
  | some d, some flat =>
    if flat.length != d * d then "bad-op" else
    let M : List (List Float) := (List.range d).map fun i => (List.range d).map fun j => flat.getD (i * d + j) 0.0
    if Model.ModeGate.pdGate M then "built" else "raised"
  | _, _ => "bad-op"

def wireMinPts (args : List (String × String)) : String :=
  match getArg args "cap", (getArg args "d").bind String.toNat? with
  | some c, some d =>
    let cap? : Option (Option Nat) := if c == "none" then some none else c.toNat?.map some
    match cap? with
    | some cap => (match Model.TrainStep.wiredMinPoints cap d with | none => "none" | some m => toString m)
    | none => "bad-op"
  | _, _ => "bad-op"

def handle (cmd : String) (args : List (String × String)) : Option String :=
  match cmd with
  | "modes.from" => some (modesFrom args)
  | "modes.lookup" => some (modesLookup args)
  | "modes.dof" => some (modesDof args)
  | "wire.maxit" => some (wireMaxit args)
  | "cad.trace" => some (cadTrace args)
  | "c14x.trace" => some (cadTraceX args)
  | "c14i.iter" => some (iterX args)
  | "c14g.gate" => some (gateF args)
  | "c14w.minpts" => some (wireMinPts args)
  | _ => none

end Drv.C14
