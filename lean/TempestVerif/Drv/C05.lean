import TempestVerif.Drv.Util
import TempestVerif.Model.Reweight
/-
  line-protocol handlers of property C05

    rw.F | rw.Q   mode=<ess|dyn> empty=<0|1> prev=<β> ratio=<ess_ratio> n=<n_particles> vv=<volume_variation | ->
                  tolE=<ESS_TOLERANCE> tolB=<BETA_TOLERANCE> fuel=<nat>
                  knots=<k1,…,kK> ess=<e0,…,eK> met=<m0,…,mK>
      The oracle is the piecewise-constant table  β ↦ (tag β, e_i, m_i)  with  i = #{j : k_j ≤ β}
      (value e_0 left of the first knot, e_i on [k_i, k_{i+1})).  `Z` is the identity, so the printed
      `logz` is the β that was handed to `compute_logw_and_logz`.  `np.isfinite` is `Float.isFinite`
      in regime F and constantly true in regime Q (rationals are finite).
    →  <beta> <branch> <sub-branches joined by +> <weights tag: U<n> | β the weights were computed for>
       <ess> <logz> <oracle calls in order> <Z calls in order>

    bis.F | bis.Q  dyn=<0|1> bmin=<β> bmax=<β> target=<t> tolE=<..> tolB=<..> fuel=<nat> knots=.. ess=.. met=..
      a DIRECT call of `_find_beta_bisection(bmin, bmax, target, metric_fn)` on the same kind of table
      (dyn=0: `metric_fn = ess_fn`, `volume_variation is None`; dyn=1: `volume_variation_fn`)
    →  <beta> <stop tag> <β the returned weights were computed for> <aux ess> <steps> <oracle calls>

    up.F | up.Q    prev=<β> target=<t> tol=<BETA_TOLERANCE> fuel=<nat> knots=.. ess=.. met=..
      a DIRECT call of `_find_beta_upper_limit(prev, target)`
    →  <beta> <branch> <beta_high at exit> <steps> <oracle calls>
-/
namespace Drv.C05
open Drv Model.Reweight

def table {α : Type} [Sc α] (knots es ms : List α) (b : α) : α × α × α :=
  let i := (knots.filter (fun k => Sc.le k b)).length
  (b, es.getD i Sc.zero, ms.getD i Sc.zero)   -- lengths are validated before use: i ≤ knots.length < es.length

def showTag {α : Type} [Codec α] : WTag α → String
  | .uniform n => s!"U{n}"
  | .of w => Codec.shw w

def showOut {α : Type} [Codec α] (r : RunOut α α) : String :=
  let sub := if r.sub.isEmpty then "-" else "+".intercalate (r.sub.map Branch.name)
  s!"{Codec.shw r.beta} {r.branch.name} {sub} {showTag r.weightsTag} {Codec.shw r.ess} {Codec.shw r.logz} {showList Codec.shw r.calls} {showList Codec.shw r.zcalls}"

def rw (α : Type) [Sc α] [Codec α] (fin : α → Bool) (args : List (String × String)) : String :=
  let sc := fun k => (getArg args k).bind (Codec.parse (α := α))
  let scl := fun k => (getArg args k).bind (parseList? (Codec.parse (α := α)))
  match getArg args "mode", getArg args "empty", sc "prev", sc "ratio", (getArg args "n").bind String.toNat?,
        sc "tolE", sc "tolB", (getArg args "fuel").bind String.toNat?, scl "knots", scl "ess", scl "met" with
  | some mode, some empty, some prev, some ratio, some n, some tolE, some tolB, some fuel,
    some knots, some es, some ms =>
    if es.length ≠ knots.length + 1 || ms.length ≠ knots.length + 1 then "bad-op" else
    if empty ≠ "0" && empty ≠ "1" then "bad-op" else
    let vv? : Option (Option α) :=
      match mode, getArg args "vv" with
      | "ess", some "-" => some none
      | "dyn", some v => (Codec.parse (α := α) v).map some
      | _, _ => none
    match vv? with
    | none => "bad-op"
    | some vv =>
      let c : Cfg α := ⟨ratio, n, vv, tolE, tolB, fuel⟩
      showOut (run c (empty == "1") (table knots es ms) id fin prev)
  | _, _, _, _, _, _, _, _, _, _, _ => "bad-op"

def bis (α : Type) [Sc α] [Codec α] (fin : α → Bool) (args : List (String × String)) : String :=
  let sc := fun k => (getArg args k).bind (Codec.parse (α := α))
  let scl := fun k => (getArg args k).bind (parseList? (Codec.parse (α := α)))
  match getArg args "dyn", sc "bmin", sc "bmax", sc "target", sc "tolE", sc "tolB",
        (getArg args "fuel").bind String.toNat?, scl "knots", scl "ess", scl "met" with
  | some dyn, some bmin, some bmax, some target, some tolE, some tolB, some fuel, some knots, some es, some ms =>
    if es.length ≠ knots.length + 1 || ms.length ≠ knots.length + 1 then "bad-op" else
    if dyn ≠ "0" && dyn ≠ "1" then "bad-op" else
    let q := bisect (table knots es ms) fin (dyn == "1") target tolE tolB fuel bmin bmax
    s!"{Codec.shw q.beta} {q.branch.name} {Codec.shw q.w} {Codec.shw q.ess} {q.steps} {showList Codec.shw q.calls}"
  | _, _, _, _, _, _, _, _, _, _ => "bad-op"

def up (α : Type) [Sc α] [Codec α] (args : List (String × String)) : String :=
  let sc := fun k => (getArg args k).bind (Codec.parse (α := α))
  let scl := fun k => (getArg args k).bind (parseList? (Codec.parse (α := α)))
  match sc "prev", sc "target", sc "tol", (getArg args "fuel").bind String.toNat?, scl "knots", scl "ess", scl "met" with
  | some prev, some target, some tol, some fuel, some knots, some es, some ms =>
    if es.length ≠ knots.length + 1 || ms.length ≠ knots.length + 1 then "bad-op" else
    let r := upperLimit (table knots es ms) target tol fuel prev
    s!"{Codec.shw r.beta} {r.branch.name} {Codec.shw r.hi} {r.steps} {showList Codec.shw r.calls}"
  | _, _, _, _, _, _, _ => "bad-op"

def handle (cmd : String) (args : List (String × String)) : Option String :=
  match cmd with
  | "rw.F" => some (rw Float Float.isFinite args)
  | "rw.Q" => some (rw Rat (fun _ => true) args)
  | "bis.F" => some (bis Float Float.isFinite args)
  | "bis.Q" => some (bis Rat (fun _ => true) args)
  | "up.F" => some (up Float args)
  | "up.Q" => some (up Rat args)
  | _ => none

end Drv.C05
