import TempestVerif.Drv.Util
/- line-protocol handlers of property C05 (stub: no commands yet) -/
namespace Drv.C05
open Drv

def handle (cmd : String) (args : List (String × String)) : Option String :=
  match cmd with
  | _ => none

end Drv.C05
