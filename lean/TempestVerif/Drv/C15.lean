import TempestVerif.Drv.Util
/- line-protocol handlers of property C15 (stub: no commands yet) -/
namespace Drv.C15
open Drv

def handle (cmd : String) (args : List (String × String)) : Option String :=
  match cmd with
  | _ => none

end Drv.C15
