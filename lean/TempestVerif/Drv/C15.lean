import TempestVerif.Drv.Util
import TempestVerif.Model.EM
import TempestVerif.Model.HGMM
/-
  line-protocol handlers of property C15.
  Matrices cross as rows separated by `;` (entries by `,`), stacks of matrices by `|`.

  mstep.F / mstep.Q   d=<nat> k=<nat> x=<n×d> r=<n×K> s=<n> tiny=<scalar> eps=<scalar>
        →  <weights> <means K×d> <covFull K×(d×d)> <covDiag K×d>
  init.F              d= k= x= u=<n×K log soft assignment -0.5·dist²> s= tiny= eps=   →  as mstep
  estep.F / estep.Q   p=<n×K> eps=<scalar>          →  <normalised n×K>
  hgmm.F / hgmm.Q     n=<nat> minpts=<nat> maxit=<nat> script=<m.m.m>:<improvement>:<threshold>:<labels>;…
        (one entry per distinct examined member list; labels: a string of digits, one per member)
        →  <K> <clusters> <labels> <trace it:idx:m.m.m;…>     or  bad-script…
  argmax.F / argmin.F  p=<rows>                      →  <index per row, -1 for an empty row>
-/
namespace Drv.C15
open Drv Model.EM Model.HGMM

def parseMat? {β : Type} (f : String → Option β) (s : String) : Option (List (List β)) :=
  if s.isEmpty || s == "-" then some [] else (s.splitOn ";").mapM (parseList? f)

def showMat {β : Type} (f : β → String) (m : List (List β)) : String :=
  if m.isEmpty then "-" else ";".intercalate (m.map (showList f))

def showStack {β : Type} (f : β → String) (m : List (List (List β))) : String :=
  if m.isEmpty then "-" else "|".intercalate (m.map (showMat f))

def mstepH (α : Type) [Sc α] [Codec α] (args : List (String × String)) : String :=
  let sc := Codec.parse (α := α)
  match (getArg args "d").bind String.toNat?, (getArg args "k").bind String.toNat?,
        (getArg args "x").bind (parseMat? sc), (getArg args "r").bind (parseMat? sc),
        (getArg args "s").bind (parseList? sc), (getArg args "tiny").bind sc, (getArg args "eps").bind sc with
  | some d, some k, some x, some r, some s, some tiny, some eps =>
    let m := mstep tiny eps d k x r s
    s!"{showList Codec.shw m.weights} {showMat Codec.shw m.means} {showStack Codec.shw m.covFull} {showMat Codec.shw m.covDiag}"
  | _, _, _, _, _, _, _ => "bad-op"

/-- `init.F d= k= x= u=<n×K matrix of -0.5·dist²> s= tiny= eps=`  →  as `mstep` (needs `exp`: Float only) -/
def initH (α : Type) [ScT α] [Codec α] (args : List (String × String)) : String :=
  let sc := Codec.parse (α := α)
  match (getArg args "d").bind String.toNat?, (getArg args "k").bind String.toNat?,
        (getArg args "x").bind (parseMat? sc), (getArg args "u").bind (parseMat? sc),
        (getArg args "s").bind (parseList? sc), (getArg args "tiny").bind sc, (getArg args "eps").bind sc with
  | some d, some k, some x, some u, some s, some tiny, some eps =>
    let m := initParams tiny eps d k x u s
    s!"{showList Codec.shw m.weights} {showMat Codec.shw m.means} {showStack Codec.shw m.covFull} {showMat Codec.shw m.covDiag}"
  | _, _, _, _, _, _, _ => "bad-op"

def estepH (α : Type) [Sc α] [Codec α] (args : List (String × String)) : String :=
  let sc := Codec.parse (α := α)
  match (getArg args "p").bind (parseMat? sc), (getArg args "eps").bind sc with
  | some p, some eps => showMat Codec.shw (estepNormalise eps p)
  | _, _ => "bad-op"

/-- one script line `members:improvement:threshold:labels` (members separated by `.`).  The numerics of the
    real code are a deterministic function of the member list, so the script is keyed by it. -/
def parseEntry? (α : Type) [Codec α] (s : String) : Option (List Nat × Entry α) :=
  match s.splitOn ":" with
  | [mem, imp, thr, lab] =>
    match (mem.splitOn ".").mapM String.toNat?, Codec.parse (α := α) imp, Codec.parse (α := α) thr with
    | some mem, some imp, some thr =>
      let labs : Option (List Nat) :=
        if lab == "-" then some [] else lab.toList.mapM fun c => (hexDigit? c)
      labs.map fun l => (mem, ⟨imp, thr, l⟩)
    | _, _, _ => none
  | _ => none

def parseScript? (α : Type) [Codec α] (s : String) : Option (List (List Nat × Entry α)) :=
  if s.isEmpty || s == "-" then some [] else (s.splitOn ";").mapM (parseEntry? α)

/-- which `(idx, members)` one pass examines (the clusters that are not skipped) -/
def examined (minPts : Nat) (clusters : List (List Nat)) : List (Nat × List Nat) :=
  (clusters.zipIdx.filter fun p => !(p.1.length < minPts)).map fun p => (p.2, p.1)

/-- the model's loop, stepping with the model's own `scan`/`applySplit`, recording what was examined -/
def traceLoop {α : Type} [Sc α] (oracle : Nat → Nat → List Nat → Entry α) (minPts : Nat) :
    Nat → Nat → List (List Nat) → List (Nat × Nat × List Nat) → List (List Nat) × List (Nat × Nat × List Nat)
  | 0, _, cl, tr => (cl, tr)
  | fuel + 1, it, cl, tr =>
    let tr' := tr ++ (examined minPts cl).map fun p => (it + 1, p.1, p.2)
    match scan (oracle (it + 1)) minPts 0 cl none with
    | none => (cl, tr')
    | some b => traceLoop oracle minPts fuel (it + 1) (applySplit cl b) tr'

def showLabel (l : Option Nat) : String := match l with | some k => toString k | none => "-1"

def hgmmH (α : Type) [Sc α] [Codec α] (zero : α) (args : List (String × String)) : String :=
  match (getArg args "n").bind String.toNat?, (getArg args "minpts").bind String.toNat?,
        (getArg args "maxit").bind String.toNat?, (getArg args "script").bind (parseScript? α) with
  | some n, some minPts, some maxIt, some script =>
    let find (mem : List Nat) : Option (Entry α) := (script.find? fun p => p.1 == mem).map (·.2)
    -- a key the script lacks is reported below (never silently defaulted)
    let oracle : Nat → Nat → List Nat → Entry α := fun _ _ mem => (find mem).getD ⟨zero, zero, []⟩
    let clusters := fitClusters oracle n minPts maxIt
    let (cl2, tr) := traceLoop oracle minPts maxIt 0 [List.range n] []
    let missing := tr.filter fun t => (find t.2.2).isNone
    let badLen := tr.filter fun t => match find t.2.2 with
      | some e => e.childLabels.length != t.2.2.length
      | none => false
    if cl2 != clusters then "bad-op"
    else if !missing.isEmpty then
      s!"bad-script-missing {showList (fun t : Nat × Nat × List Nat => s!"{t.1}:{t.2.1}") missing}"
    else if !badLen.isEmpty then
      s!"bad-script-labels {showList (fun t : Nat × Nat × List Nat => s!"{t.1}:{t.2.1}") badLen}"
    else
      let labels := assemble n clusters
      let trS := if tr.isEmpty then "-" else
        ";".intercalate (tr.map fun t => s!"{t.1}:{t.2.1}:{".".intercalate (t.2.2.map toString)}")
      s!"{clusters.length} {showMat toString clusters} {showList showLabel labels} {trS}"
  | _, _, _, _ => "bad-op"

def argH (α : Type) [Sc α] [Codec α] (useMax : Bool) (args : List (String × String)) : String :=
  match (getArg args "p").bind (parseMat? (Codec.parse (α := α))) with
  | some p => showList showLabel (if useMax then predict p else predictNearest p)
  | none => "bad-op"

def handle (cmd : String) (args : List (String × String)) : Option String :=
  match cmd with
  | "mstep.F" => some (mstepH Float args)
  | "mstep.Q" => some (mstepH Rat args)
  | "init.F" => some (initH Float args)
  | "estep.F" => some (estepH Float args)
  | "estep.Q" => some (estepH Rat args)
  | "hgmm.F" => some (hgmmH Float 0.0 args)
  | "hgmm.Q" => some (hgmmH Rat 0 args)
  | "argmax.F" => some (argH Float true args)
  | "argmin.F" => some (argH Float false args)
  | "argmax.Q" => some (argH Rat true args)
  | "argmin.Q" => some (argH Rat false args)
  | _ => none

end Drv.C15
