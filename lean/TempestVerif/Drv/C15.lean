import TempestVerif.Drv.Util
import TempestVerif.Model.EM
import TempestVerif.Model.HGMM
import TempestVerif.Model.GMM
import TempestVerif.Model.HFit
import TempestVerif.Model.ClusterLits
/-
  line-protocol handlers of property C15.
  Matrices cross as rows separated by `;` (entries by `,`), stacks of matrices by `|`.

  mstep.F / mstep.Q   d=<nat> k=<nat> x=<n×d> r=<n×K> s=<n> tiny=<scalar> eps=<scalar>
        →  <weights> <means K×d> <covFull K×(d×d)> <covDiag K×d>
  init.F              d= k= x= u=<n×K log soft assignment -0.5·dist²> s= tiny= eps=   →  as mstep
  estep.F / estep.Q   p=<n×K> eps=<scalar>          →  <normalised n×K>
  hgmm.F / hgmm.Q     n=<nat> minpts=<nat> maxit=<nat> script=<m.m.m>:<improvement>:<threshold>:<labels>;…
        (one entry per distinct examined member list; labels: a string of digits, one per member)
        →  <K> <clusters> <labels> <trace it:idx:m.m.m;…>     or  bad-script…
  argmax.F / argmin.F  p=<rows>                      →  <index per row, -1 for an empty row>
-/
namespace Drv.C15
open Drv Model.EM Model.HGMM

def parseMat? {β : Type} (f : String → Option β) (s : String) : Option (List (List β)) :=
  if s.isEmpty || s == "-" then some [] else (s.splitOn ";").mapM (parseList? f)

def showMat {β : Type} (f : β → String) (m : List (List β)) : String :=
  if m.isEmpty then "-" else ";".intercalate (m.map (showList f))

def showStack {β : Type} (f : β → String) (m : List (List (List β))) : String :=
  if m.isEmpty then "-" else "|".intercalate (m.map (showMat f))

def mstepH (α : Type) [Sc α] [Codec α] (args : List (String × String)) : String :=
  let sc := Codec.parse (α := α)
  match (getArg args "d").bind String.toNat?, (getArg args "k").bind String.toNat?,
        (getArg args "x").bind (parseMat? sc), (getArg args "r").bind (parseMat? sc),
        (getArg args "s").bind (parseList? sc), (getArg args "tiny").bind sc, (getArg args "eps").bind sc with
  | some d, some k, some x, some r, some s, some tiny, some eps =>
    let m := mstep tiny eps d k x r s
    s!"{showList Codec.shw m.weights} {showMat Codec.shw m.means} {showStack Codec.shw m.covFull} {showMat Codec.shw m.covDiag}"
  | _, _, _, _, _, _, _ => "bad-op"

/-- `init.F d= k= x= u=<n×K matrix of -0.5·dist²> s= tiny= eps=`  →  as `mstep` (needs `exp`: Float only) -/
def initH (α : Type) [ScT α] [Codec α] (args : List (String × String)) : String :=
  let sc := Codec.parse (α := α)
  match (getArg args "d").bind String.toNat?, (getArg args "k").bind String.toNat?,
        (getArg args "x").bind (parseMat? sc), (getArg args "u").bind (parseMat? sc),
        (getArg args "s").bind (parseList? sc), (getArg args "tiny").bind sc, (getArg args "eps").bind sc with
  | some d, some k, some x, some u, some s, some tiny, some eps =>
    let m := initParams tiny eps d k x u s
    s!"{showList Codec.shw m.weights} {showMat Codec.shw m.means} {showStack Codec.shw m.covFull} {showMat Codec.shw m.covDiag}"
  | _, _, _, _, _, _, _ => "bad-op"

def estepH (α : Type) [Sc α] [Codec α] (args : List (String × String)) : String :=
  let sc := Codec.parse (α := α)
  match (getArg args "p").bind (parseMat? sc), (getArg args "eps").bind sc with
  | some p, some eps => showMat Codec.shw (estepNormalise eps p)
  | _, _ => "bad-op"

/-- one script line `members:improvement:threshold:labels` (members separated by `.`).  The numerics of the
    real code are a deterministic function of the member list, so the script is keyed by it. -/
def parseEntry? (α : Type) [Codec α] (s : String) : Option (List Nat × Entry α) :=
  match s.splitOn ":" with
  | [mem, imp, thr, lab] =>
    match (mem.splitOn ".").mapM String.toNat?, Codec.parse (α := α) imp, Codec.parse (α := α) thr with
    | some mem, some imp, some thr =>
      let labs : Option (List Nat) :=
        if lab == "-" then some [] else lab.toList.mapM fun c => (hexDigit? c)
      labs.map fun l => (mem, ⟨imp, thr, l⟩)
    | _, _, _ => none
  | _ => none

def parseScript? (α : Type) [Codec α] (s : String) : Option (List (List Nat × Entry α)) :=
  if s.isEmpty || s == "-" then some [] else (s.splitOn ";").mapM (parseEntry? α)

/-- which `(idx, members)` one pass examines (the clusters that are not skipped) -/
def examined (minPts : Nat) (clusters : List (List Nat)) : List (Nat × List Nat) :=
  (clusters.zipIdx.filter fun p => !(p.1.length < minPts)).map fun p => (p.2, p.1)

/-- the model's loop, stepping with the model's own `scan`/`applySplit`, recording what was examined -/
def traceLoop {α : Type} [Sc α] (oracle : Nat → Nat → List Nat → Entry α) (minPts : Nat) :
    Nat → Nat → List (List Nat) → List (Nat × Nat × List Nat) → List (List Nat) × List (Nat × Nat × List Nat)
  | 0, _, cl, tr => (cl, tr)
  | fuel + 1, it, cl, tr =>
    let tr' := tr ++ (examined minPts cl).map fun p => (it + 1, p.1, p.2)
    match scan (oracle (it + 1)) minPts 0 cl none with
    | none => (cl, tr')
    | some b => traceLoop oracle minPts fuel (it + 1) (applySplit cl b) tr'

def showLabel (l : Option Nat) : String := match l with | some k => toString k | none => "-1"

def hgmmH (α : Type) [Sc α] [Codec α] (zero : α) (args : List (String × String)) : String :=
  match (getArg args "n").bind String.toNat?, (getArg args "minpts").bind String.toNat?,
        (getArg args "maxit").bind String.toNat?, (getArg args "script").bind (parseScript? α) with
  | some n, some minPts, some maxIt, some script =>
    let find (mem : List Nat) : Option (Entry α) := (script.find? fun p => p.1 == mem).map (·.2)
    -- a key the script lacks is reported below (never silently defaulted)
    let oracle : Nat → Nat → List Nat → Entry α := fun _ _ mem => (find mem).getD ⟨zero, zero, []⟩
    let clusters := fitClusters oracle n minPts maxIt
    let (cl2, tr) := traceLoop oracle minPts maxIt 0 [List.range n] []
    let missing := tr.filter fun t => (find t.2.2).isNone
    let badLen := tr.filter fun t => match find t.2.2 with
      | some e => e.childLabels.length != t.2.2.length
      | none => false
    if cl2 != clusters then "bad-op"
    else if !missing.isEmpty then
      s!"bad-script-missing {showList (fun t : Nat × Nat × List Nat => s!"{t.1}:{t.2.1}") missing}"
    else if !badLen.isEmpty then
      s!"bad-script-labels {showList (fun t : Nat × Nat × List Nat => s!"{t.1}:{t.2.1}") badLen}"
    else
      let labels := assemble n clusters
      let trS := if tr.isEmpty then "-" else
        ";".intercalate (tr.map fun t => s!"{t.1}:{t.2.1}:{".".intercalate (t.2.2.map toString)}")
      s!"{clusters.length} {showMat toString clusters} {showList showLabel labels} {trS}"
  | _, _, _, _ => "bad-op"

def argH (α : Type) [Sc α] [Codec α] (useMax : Bool) (args : List (String × String)) : String :=
  match (getArg args "p").bind (parseMat? (Codec.parse (α := α))) with
  | some p => showList showLabel (if useMax then predict p else predictNearest p)
  | none => "bad-op"


/-! ### whole `GaussianMixture` (clause audit)

  gmm.fit.F   d= k= diag=0|1 x=<n×d> w=<n raw sample weights> tape=<rand() values> tiny= eps= reg= tol= maxit= ninit= [sing=<stack of matrices scipy refused, matched approximately>]
        →  ok <weights> <means> <covFull> <covDiag> <n_iter> <converged 0|1> <lower_bound> <picks i.i;i.i>    |  raise
  gmm.init.F  d= k= diag= x= s=<normalised weights> tape= tiny= eps=
        →  ok <weights> <means> <covFull> <covDiag> <picks>   |  raise
  gmm.eval.F  d= k= diag= x= s= pw=<weights> pm=<means> pcf=<covFull stack> pcd=<covDiag> eps= reg= sing=<stack of refused matrices>
        →  <R n×K | raise> <lower bound> <predict labels> <bic>
-/
open Model.GMM in
def matEq (a b : List (List Float)) : Bool :=
  a.length == b.length && (List.zipWith (fun r1 r2 => r1.length == r2.length &&
    (List.zipWith (fun (x y : Float) => x == y || (x != x && y != y)) r1 r2).all id) a b).all id

def parseStack? {β : Type} (f : String → Option β) (s : String) : Option (List (List (List β))) :=
  if s.isEmpty || s == "-" then some [] else (s.splitOn "|").mapM (parseMat? f)

def showPicks (p : List (List Nat)) : String :=
  if p.isEmpty then "-" else ";".intercalate (p.map fun l => if l.isEmpty then "-" else ".".intercalate (l.map toString))

def showMStep (m : MStep Float) : String :=
  s!"{showList showFloat m.weights} {showMat showFloat m.means} {showStack showFloat m.covFull} {showMat showFloat m.covDiag}"

def natArg (args : List (String × String)) (k : String) : Option Nat := (getArg args k).bind String.toNat?
def fArg (args : List (String × String)) (k : String) : Option Float := (getArg args k).bind parseFloat?
def fList (args : List (String × String)) (k : String) : Option (List Float) := (getArg args k).bind (parseList? parseFloat?)
def fMat (args : List (String × String)) (k : String) : Option (List (List Float)) := (getArg args k).bind (parseMat? parseFloat?)
def fStack (args : List (String × String)) (k : String) : Option (List (List (List Float))) :=
  (getArg args k).bind (parseStack? parseFloat?)

def gmmCfg (args : List (String × String)) (sing : List (List Float) → Bool) : Option (Model.GMM.Cfg Float) :=
  match natArg args "d", natArg args "k", natArg args "diag" with
  | some d, some k, some dg =>
    some { sing := sing, diagT := dg == 1, tiny := (fArg args "tiny").getD 0.0, eps := (fArg args "eps").getD 0.0,
           reg := (fArg args "reg").getD 0.0, tol := (fArg args "tol").getD 0.0, d := d, K := k,
           maxIter := (natArg args "maxit").getD 0, nInit := (natArg args "ninit").getD 0 }
  | _, _, _ => none

/-- approximate equality of matrices (relative 1e-6 per entry, NaN = NaN): used only to recognise, along a whole-fit
    trajectory that differs from the real one by rounding, the matrices scipy refused in the real run -/
def matApprox (a b : List (List Float)) : Bool :=
  a.length == b.length && (List.zipWith (fun r1 r2 => r1.length == r2.length &&
    (List.zipWith (fun (x y : Float) => x == y || (x != x && y != y) ||
      Float.abs (x - y) ≤ 1e-6 * (Float.abs x + Float.abs y)) r1 r2).all id) a b).all id

def gmmFitH (args : List (String × String)) : String :=
  let flagged := ((getArg args "sing").bind (parseStack? parseFloat?)).getD []
  match gmmCfg args (fun M => flagged.any (matApprox M)), fMat args "x", fList args "w", fList args "tape" with
  | some c, some x, some w, some tape =>
    match Model.GMM.fit c x w tape with
    | none => "raise"
    | some o => s!"ok {showMStep o.params} {o.nIter} {showBool o.converged} {showFloat o.lb} {showPicks o.picks}"
  | _, _, _, _ => "bad-op"

def gmmInitH (args : List (String × String)) : String :=
  match gmmCfg args (fun _ => false), fMat args "x", fList args "s", fList args "tape" with
  | some c, some x, some s, some tape =>
    match Model.GMM.initFit c x s tape with
    | none => "raise"
    | some (p, picks, _) => s!"ok {showMStep p} {showPicks [picks]}"
  | _, _, _, _ => "bad-op"

def gmmEvalH (args : List (String × String)) : String :=
  match fStack args "sing" with
  | none => "bad-op"
  | some flagged =>
    match gmmCfg args (fun M => flagged.any (matEq M)), fMat args "x", fList args "s", fList args "pw", fMat args "pm",
          fStack args "pcf", fMat args "pcd" with
    | some c, some x, some s, some pw, some pm, some pcf, some pcd =>
      let p : MStep Float := ⟨pw, pm, pcf, pcd⟩
      let Cs := Model.GMM.covMats c.diagT p
      let r := match Model.GMM.estep c.sing c.reg c.d pw pm Cs x with
        | none => "raise"
        | some R => showMat showFloat R
      let lb := Model.GMM.lowerBound c.sing c.reg c.eps c.d pw pm Cs x s
      let lab := Model.GMM.predict c p x
      s!"{r} {showFloat lb} {showList showLabel lab} {showFloat (Model.GMM.bic c p x)}"
    | _, _, _, _, _, _, _ => "bad-op"


/-! ### whole `HierarchicalGaussianMixture` (clause audit)

  hgmm.fit.F  d= diag= norm=0|1 x= w= tape= tiny= eps= reg= tol= gmaxit= ninit= maxit= minpts=<nat|none> mod= regp= epsd= q=<query points> [sing=<refused matrices, matched approximately>]
        →  ok <K> <clusters> <labels> <centers K×d> <covs stack> <weights> <trace it:idx:m.m;…>
              <predict(q)> <predict_proba(q)> <predict(q) with _gmm_ready=False> <predict_proba(q) with _gmm_ready=False>   |  raise
-/
def hgmmFitH (args : List (String × String)) : String :=
  match natArg args "d", natArg args "diag", natArg args "norm", fMat args "x", fList args "w", fList args "tape",
        fMat args "q" with
  | some d, some dg, some nz, some x, some w, some tape, some q =>
    let mp : Option Nat := (getArg args "minpts").bind String.toNat?
    let flagged := ((getArg args "sing").bind (parseStack? parseFloat?)).getD []
    let c : Model.HFit.HCfg Float :=
      { sing := fun M => flagged.any (matApprox M), diagT := dg == 1, normalize := nz == 1, tiny := (fArg args "tiny").getD 0.0,
        eps := (fArg args "eps").getD 0.0, reg := (fArg args "reg").getD 0.0, tol := (fArg args "tol").getD 0.0,
        gmmMaxIter := (natArg args "gmaxit").getD 0, nInit := (natArg args "ninit").getD 0,
        maxIterations := (natArg args "maxit").getD 0, minPoints := mp, modifier := (fArg args "mod").getD 0.0,
        d := d, tape := tape, regP := (fArg args "regp").getD 0.0, epsD := (fArg args "epsd").getD 0.0 }
    match Model.HFit.hfit c x w with
    | none => "raise"
    | some f =>
      let xw := if c.normalize then x.map (Model.HFit.normRow c.eps f.dataMin f.dataMax) else x
      let (_, tr) := traceLoop (Model.HFit.entryD c xw w) (Model.HFit.minPts c) c.maxIterations 0 [List.range x.length] []
      let trS := if tr.isEmpty then "-" else
        ";".intercalate (tr.map fun t => s!"{t.1}:{t.2.1}:{".".intercalate (t.2.2.map toString)}")
      let p1 := Model.HFit.hpredict c f true q
      let p0 := Model.HFit.hpredict c f false q
      let pp1 := Model.HFit.hpredictProba c f true q
      let pp0 := Model.HFit.hpredictProba c f false q
      s!"ok {f.clusters.length} {showMat toString f.clusters} {showList showLabel f.labels} {showMat showFloat f.centers} {showStack showFloat f.covs} {showList showFloat f.weights} {trS} {showList showLabel p1} {showMat showFloat pp1} {showList showLabel p0} {showMat showFloat pp0}"
  | _, _, _, _, _, _, _ => "bad-op"

/-- `lits.F` → the literal parameters of `Model.ClusterLits` as the driver evaluates them at `Float`:
    `<eps> <reg_covar> <tol> <max_iter> <n_init>` (`Props/C15Source.lean` ties them to the literals of the source) -/
def litsH : String :=
  s!"{showFloat (Model.ClusterLits.eps : Float)} {showFloat (Model.ClusterLits.regCovar : Float)} {showFloat (Model.ClusterLits.tol : Float)} {Model.ClusterLits.maxIter} {Model.ClusterLits.nInit}"

def handle (cmd : String) (args : List (String × String)) : Option String :=
  match cmd with
  | "lits.F" => some litsH
  | "mstep.F" => some (mstepH Float args)
  | "mstep.Q" => some (mstepH Rat args)
  | "init.F" => some (initH Float args)
  | "estep.F" => some (estepH Float args)
  | "estep.Q" => some (estepH Rat args)
  | "hgmm.F" => some (hgmmH Float 0.0 args)
  | "hgmm.Q" => some (hgmmH Rat 0 args)
  | "argmax.F" => some (argH Float true args)
  | "argmin.F" => some (argH Float false args)
  | "argmax.Q" => some (argH Rat true args)
  | "argmin.Q" => some (argH Rat false args)
  | "gmm.fit.F" => some (gmmFitH args)
  | "gmm.init.F" => some (gmmInitH args)
  | "gmm.eval.F" => some (gmmEvalH args)
  | "hgmm.fit.F" => some (hgmmFitH args)
  | _ => none

end Drv.C15
