import TempestVerif.Drv.Util
import TempestVerif.Model.ModeStatsNum
/-
  line-protocol handlers of C03 clause 15 (`ModeStatistics.__init__`), Float only (the factorisation uses sqrt)

    c03ms.F mshape=<nats|-> mdata=<floats|-> cshape=<nats|-> cdata=<floats|-> nshape=<nats|-> ndata=<floats|-> [labels=<nats>]
        the three arguments as numpy arrays (shape `-` = 0-d; data in C order).  Answers
          `ok <K> <n_dim> <means.shape> <covariances.shape> <dof.shape> <inv_covariances> <chol_covariances> <kernel mus> <kernel nus> <coherent 0|1> <labels>`
        (stacks of matrices: one matrix per `|`, entries row-major comma-separated, `~` = no matrix; `<kernel mus>`: the rows
        `Stats.kernelModes` hands to the kernel model; `coherent` = the records' chol / invcov are the object's, in order),
        or `ValueError`, or `LinAlgError`; `bad-op` if an argument is not a well-formed array.
    c03ms.chol.F a=<rows separated by ;>   -> `<rows>` (the full matrix, zeros above the diagonal) | `LinAlgError`
    c03ms.inv.F  a=<rows separated by ;>   -> `<rows>` | `LinAlgError`
-/
namespace Drv.C03Modes
open Drv Model.ModeStatsNum

def parseRows? (s : String) : Option (List (List Float)) :=
  if s.isEmpty || s == "-" then some [] else (s.splitOn ";").mapM (parseList? parseFloat?)

def showRows (m : List (List Float)) : String :=
  if m.isEmpty then "-" else ";".intercalate (m.map (showList showFloat))

def showStack (ms : List (List (List Float))) : String :=
  if ms.isEmpty then "~" else "|".intercalate (ms.map fun m => showList showFloat m.flatten)

def arrArg (args : List (String × String)) (sk dk : String) : Option (NDArr Float) := do
  let sh ← (getArg args sk).bind parseNatList?
  let dt ← (getArg args dk).bind (parseList? parseFloat?)
  let a : NDArr Float := ⟨sh, dt⟩
  if a.wf then some a else none

def initOp (args : List (String × String)) : Option String := do
  let m ← arrArg args "mshape" "mdata"
  let c ← arrArg args "cshape" "cdata"
  let n ← arrArg args "nshape" "ndata"
  let labels ← match getArg args "labels" with
    | none => some none
    | some s => (parseNatList? s).map some
  match init m c n labels with
  | .valueError => some "ValueError"
  | .linAlgError => some "LinAlgError"
  | .ok s =>
    let km := s.kernelModes
    let coherent := km.map (·.chol) == s.cholCovs && km.map (·.invcov) == s.invCovs
    let showOptNat : Option Nat → String := fun o => match o with | some k => toString k | none => "IndexError"
    some (" ".intercalate ["ok", showOptNat s.K, showOptNat s.nDim, showList toString s.means.shape,
      showList toString s.covariances.shape, showList toString s.dofs.shape, showStack s.invCovs, showStack s.cholCovs,
      showRows (km.map (·.mu)), showList showFloat (km.map (·.nu)), showBool coherent,
      match s.labels with | none => "None" | some l => showList toString l])

def cholOp (args : List (String × String)) : Option String := do
  let a ← (getArg args "a").bind parseRows?
  match chol a with
  | none => some "LinAlgError"
  | some l => some (showRows l)

def invOp (args : List (String × String)) : Option String := do
  let a ← (getArg args "a").bind parseRows?
  match Model.Student.inv a with
  | none => some "LinAlgError"
  | some l => some (showRows l)

def handle (cmd : String) (args : List (String × String)) : Option String :=
  match cmd with
  | "c03ms.F" => some ((initOp args).getD "bad-op")
  | "c03ms.chol.F" => some ((cholOp args).getD "bad-op")
  | "c03ms.inv.F" => some ((invOp args).getD "bad-op")
  | _ => none

end Drv.C03Modes
