import TempestVerif.Drv.Util
import TempestVerif.Model.Warmup
/- line-protocol handlers of property C11.
   warm.Q | warm.F  bs=<n>:<nfin>;<n>:<nfin>;…   → the recorded linear-space evidences Z_1,…,Z_k
-/
namespace Drv.C11
open Drv Model.Warmup

def parseB? (s : String) : Option (Nat × Nat) :=
  match s.splitOn ":" with
  | [a, b] => match a.toNat?, b.toNat? with
    | some n, some f => some (n, f)
    | _, _ => none
  | _ => none

def warm (α : Type) [Sc α] [Codec α] (args : List (String × String)) : String :=
  match (getArg args "bs").bind fun s => (s.splitOn ";").mapM parseB? with
  | some bs => showList Codec.shw ((run (α := α) batchZ [] bs).map (·.2))
  | none => "bad-op"

def handle (cmd : String) (args : List (String × String)) : Option String :=
  match cmd with
  | "warm.Q" => some (warm Rat args)
  | "warm.F" => some (warm Float args)
  | _ => none

end Drv.C11
