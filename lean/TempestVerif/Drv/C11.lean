import TempestVerif.Drv.Util
import TempestVerif.Model.Warmup
import TempestVerif.Model.Pipeline
/- line-protocol handlers of property C11.
   warm.Q | warm.F  bs=<n>:<nfin>;<n>:<nfin>;…   → the recorded linear-space evidences Z_1,…,Z_k
   warm.rep  fl=<string of 0/1, 1 = finite draw> picks=<nat list>
       → <tags after the replacement>;<finiteness flags after the replacement>;<logz committed (Float hex)>
     runs `Model.Pipeline.warmup` (the replacement step the pipeline theorems are about) on draws tagged 0..n-1,
     reweighting-step evidence 0
   (whole warm-up + annealing iterations of the pipeline model: `pipe.F` of Drv/C01)
-/
namespace Drv.C11
open Drv Model.Warmup

def parseB? (s : String) : Option (Nat × Nat) :=
  match s.splitOn ":" with
  | [a, b] => match a.toNat?, b.toNat? with
    | some n, some f => some (n, f)
    | _, _ => none
  | _ => none

def warm (α : Type) [Sc α] [Codec α] (args : List (String × String)) : String :=
  match (getArg args "bs").bind fun s => (s.splitOn ";").mapM parseB? with
  | some bs => showList Codec.shw ((run (α := α) batchZ [] bs).map (·.2))
  | none => "bad-op"

def parseFlags? (s : String) : Option (List (Option Float)) :=
  s.toList.mapM fun c => if c == '1' then some (some 0.0) else if c == '0' then some none else none

def rep (args : List (String × String)) : Option String := do
  let fl ← (getArg args "fl").bind parseFlags?
  let picks ← (getArg args "picks").bind parseNatList?
  let t : Model.Pipeline.Tape Float := ⟨List.range fl.length, fl, picks, [], []⟩
  let (tags, ls, lz) := Model.Pipeline.warmup t 0.0
  pure (showList toString tags ++ ";" ++ String.ofList (ls.map fun v => if v.isSome then '1' else '0') ++ ";" ++ showFloat lz)

def handle (cmd : String) (args : List (String × String)) : Option String :=
  match cmd with
  | "warm.Q" => some (warm Rat args)
  | "warm.F" => some (warm Float args)
  | "warm.rep" => some ((rep args).getD "bad-op")
  | _ => none

end Drv.C11
