import TempestVerif.Drv.Util
import TempestVerif.Model.Warmup
import TempestVerif.Model.Pipeline
import TempestVerif.Model.RecSM
import TempestVerif.Model.RecSM2
import TempestVerif.Model.PipelineR
/- line-protocol handlers of property C11.
   warm.Q | warm.F  bs=<n>:<nfin>;<n>:<nfin>;…   → the recorded linear-space evidences Z_1,…,Z_k
   warm.rep  fl=<string of 0/1, 1 = finite draw> picks=<nat list>
       → <tags after the replacement>;<finiteness flags after the replacement>;<logz committed (Float hex)>
     runs `Model.Pipeline.warmup` (the replacement step the pipeline theorems are about) on draws tagged 0..n-1,
     reweighting-step evidence 0
   (whole warm-up + annealing iterations of the pipeline model: `pipe.F` of Drv/C01)
   warmR.Q  bs=<n>:<nfin>:<ndrawn>;…   → the evidences recorded by `Model.Warmup.runR` (rule of /repo 959029e: n_finite/n_drawn)
   warmR.rep n=<n_particles> blocks=<flags>!<flags>!… picks=<nat list>     (flags: string of 0/1, one block per `np.random.rand`)
       → <tags after the replacement>;<finiteness flags after>;<n_drawn>;<logz committed (Float hex)>   or `raise`
     runs `Model.PipelineR.warmupL` — the redraw loop (cap 1000·n) and the replacement on the kept block; row j of block b is
     tagged b·n + j; reweighting-step evidence 0
   c11sm.run hb=<0|1> lb=<0|1> tapes=<tape>;<tape>…       tape = <block>!<block>!…:<picks>     (block = u rows)
       rows joined by `,`, coordinates by `_`, rationals `p/q`; picks a nat list (`-` = none)
       → U|X|L|B of the HISTORY after the warm-up iterations (batches `;`, rows `,`, coordinates `_`, `ninf` = −inf,
         `-` = no batch) followed by ` ret=` and the blobs slot of every returned dictionary (`N` = None), or error:<k>
     runs `Model.RecSM.iterateR` (the StateManager-level record model of C07 as of 959029e, `Model/RecSM2.lean`, about which
     `Props/C11SM.lean` speaks) at
     exact rationals with the harness's target: T u = 8u − 4, logl = −inf for x0 < 0 else −½ Σ x², blob = x0
-/
namespace Drv.C11
open Drv Model.Warmup

def parseB? (s : String) : Option (Nat × Nat) :=
  match s.splitOn ":" with
  | [a, b] => match a.toNat?, b.toNat? with
    | some n, some f => some (n, f)
    | _, _ => none
  | _ => none

def warm (α : Type) [Sc α] [Codec α] (args : List (String × String)) : String :=
  match (getArg args "bs").bind fun s => (s.splitOn ";").mapM parseB? with
  | some bs => showList Codec.shw ((run (α := α) batchZ [] bs).map (·.2))
  | none => "bad-op"

def parseFlags? (s : String) : Option (List (Option Float)) :=
  s.toList.mapM fun c => if c == '1' then some (some 0.0) else if c == '0' then some none else none

def rep (args : List (String × String)) : Option String := do
  let fl ← (getArg args "fl").bind parseFlags?
  let picks ← (getArg args "picks").bind parseNatList?
  let t : Model.Pipeline.Tape Float := ⟨List.range fl.length, fl, picks, [], []⟩
  let (tags, ls, lz) := Model.Pipeline.warmup t 0.0
  pure (showList toString tags ++ ";" ++ String.ofList (ls.map fun v => if v.isSome then '1' else '0') ++ ";" ++ showFloat lz)

/-! ### `Model.RecSM` warm-up iterations at exact rationals -/
section sm
open Model.RecSM

def smT (u : List Rat) : List Rat := u.map fun c => 8 * c - 4
def smLk (x : List Rat) : Option Rat × Rat :=
  match x with
  | [] => (some 0, 0)
  | x0 :: _ => (if x0 < 0 then none else some (-(1 / 2 : Rat) * (x.map fun c => c * c).sum), x0)

def smVec? (s : String) : Option (List Rat) := (s.splitOn "_").mapM parseRat?
def smBlock? (rows : String) : Option (List (List Rat)) :=
  if rows == "-" then some [] else (rows.splitOn ",").mapM smVec?
def smTape? (s : String) : Option (TapeR (List Rat)) :=
  match s.splitOn ":" with
  | [blocks, pk] =>
    match (blocks.splitOn "!").mapM smBlock?, parseNatList? pk with
    | some bs, some pk => some ⟨true, bs, pk, [], []⟩
    | _, _ => none
  | _ => none

def smShowVec (v : List Rat) : String := "_".intercalate (v.map showRat)
def smRows {β : Type} (f : β → String) (l : List β) : String := if l.isEmpty then "-" else ",".intercalate (l.map f)
def smBatches {β : Type} (f : β → String) (h : List (List β)) : String :=
  if h.isEmpty then "-" else ";".intercalate (h.map (smRows f))
def smL (l : Option Rat) : String := match l with | some v => showRat v | none => "ninf"

def smRun (cfg : Cfg) (tapes : List (TapeR (List Rat))) : String :=
  let rec go (s : St (List Rat) (List Rat) (Option Rat) Rat) (k : Nat) (rets : List String) :
      List (TapeR (List Rat)) → String
    | [] => s!"{smBatches smShowVec s.hist.u}|{smBatches smShowVec s.hist.x}|{smBatches smL s.hist.l}|{smBatches showRat s.hist.b} ret={";".intercalate rets.reverse}"
    | t :: ts =>
      match iterateR cfg smT smLk Option.isNone id (fun _ => true) s t with
      | some r => go r.1 (k + 1) ((match r.2.b with | some b => smRows showRat b | none => "N") :: rets) ts
      | none => s!"error:{k}"
  go init 0 [] tapes

end sm

/-! ### the rule of /repo 959029e -/

def parseB3? (s : String) : Option (Nat × Nat × Nat) :=
  match s.splitOn ":" with
  | [a, b, c] => match a.toNat?, b.toNat?, c.toNat? with
    | some n, some f, some d => some (n, f, d)
    | _, _, _ => none
  | _ => none

def warmR (α : Type) [Sc α] [Codec α] (args : List (String × String)) : String :=
  match (getArg args "bs").bind fun s => (s.splitOn ";").mapM parseB3? with
  | some bs => showList Codec.shw ((runR (α := α) [] bs).map (·.2))
  | none => "bad-op"

def repR (args : List (String × String)) : Option String := do
  let n ← (getArg args "n").bind String.toNat?
  let blocks ← (getArg args "blocks").bind fun s => (s.splitOn "!").mapM parseFlags?
  let picks ← (getArg args "picks").bind parseNatList?
  let tagged : List (Model.PipelineR.Block Float) :=
    (List.range blocks.length).zipWith (fun b fl => ((List.range fl.length).map (· + b * n), fl)) blocks
  match tagged with
  | [] => none
  | first :: pending =>
    let rt : Model.PipelineR.RTape Float := ⟨⟨first.1, first.2, picks, [], []⟩, pending⟩
    match Model.PipelineR.warmupL n rt 0.0 with
    | none => pure "raise"
    | some (tags, ls, lz, nd) =>
      pure (showList toString tags ++ ";" ++ String.ofList (ls.map fun v => if v.isSome then '1' else '0') ++ ";" ++
        toString nd ++ ";" ++ showFloat lz)

def handle (cmd : String) (args : List (String × String)) : Option String :=
  match cmd with
  | "warmR.Q" => some (warmR Rat args)
  | "warmR.rep" => some ((repR args).getD "bad-op")
  | "c11sm.run" =>
    let b (k : String) : Option Bool := (getArg args k).map (· == "1")
    match b "hb", b "lb", (getArg args "tapes").bind fun s => (s.splitOn ";").mapM smTape? with
    | some hb, some lb, some tapes => some (smRun ⟨hb, lb, true⟩ tapes)
    | _, _, _ => some "bad-op"
  | "warm.Q" => some (warm Rat args)
  | "warm.F" => some (warm Float args)
  | "warm.rep" => some ((rep args).getD "bad-op")
  | _ => none

end Drv.C11
