import TempestVerif.Drv.Util
import TempestVerif.Model.RngSites
/-
  line-protocol handlers of property C09 (the RNG programs of `Model.RngRun` / `Model.RngSites`, executed on the counting
  generator `Model.RngSites.counter`, whose values are stream positions).

    c09.syst rs=<nat|none>
    c09.gmm  rs=<nat|none> ninit=<nat> ncomp=<nat>
    c09.hgmm ninit=<nat> comps=<nats>
    c09.iter <cfg> fuel=<nat> it=<iteration>
    c09.run  <cfg> fuel=<nat> rs=<nat|none> resume=<fresh|continue|legacy|at:<j>> n=<k> i0=<iteration> … i<k-1>=<iteration>
             fresh: empty history: seed (if rs) and run the k iterations.  continue: run() on a sampler that holds a history
             (no resume path): the k iterations on the ambient stream, no seeding.  at:<j>: a writer seeded with rs runs iterations 0..j-1 and saves
             (`saveState`); the answer is the log of the run RESUMED from that checkpoint (ambient state 0) for iterations
             j..k-1.  legacy: a checkpoint without stored position: iterations 0..k-1 on the ambient stream.
    c09.count <cfg> it=<iteration>                       → iterValues (closed form)
  <cfg>       = N=<nat> D=<nat> tpcn=<0|1> syst=<0|1> clust=<0|1> rf=<nat> cinit=<nat> cap=<nat>
  <iteration> = w/<discarded batches>/<nInf>/<nFin>  |  a/<refit 0|1>/<fits>/<groups>/<pool>/<steps>      (lists dot-separated, `-` = empty)
  answer: the event log, run-length encoded:  S:<n> (process-wide seeding)  U*k Z*k G*k I*k (process-wide uniform / normal /
  gamma / index values)  pS:<n> pU*k … (private generator), comma separated (`-` = empty); `c09.run` appends
  ` starts=<positions at which the iterations start, relative to the seed position of the stream they run on>`;
  R: = restore event (`np.random.set_state`).
-/
namespace Drv.C09
open Drv Model.RngRun Model.RngSites

def kindTag : Kind → String
  | .uniform => "U" | .normal => "Z" | .gamma => "G" | .index => "I"

def evTag : Ev Kind Nat → String
  | .g k _ => kindTag k
  | .gseed n => s!"S:{n}"
  | .p k _ => "p" ++ kindTag k
  | .pseed n => s!"pS:{n}"
  | .grestore => "R:"

def isSeedTag (t : String) : Bool := t.contains ':'

def rle (l : List (Ev Kind Nat)) : String :=
  let rec go : List String → Option (String × Nat) → List String → List String
    | [], none, acc => acc.reverse
    | [], some (t, n), acc => (s!"{t}*{n}" :: acc).reverse
    | t :: ts, cur, acc =>
      if isSeedTag t then
        match cur with
        | none => go ts none (t :: acc)
        | some (c, n) => go ts none (t :: s!"{c}*{n}" :: acc)
      else
        match cur with
        | none => go ts (some (t, 1)) acc
        | some (c, n) => if c == t then go ts (some (c, n + 1)) acc else go ts (some (t, 1)) (s!"{c}*{n}" :: acc)
  let toks := go (l.map evTag) none []
  if toks.isEmpty then "-" else ",".intercalate toks

def parseOptNat? (s : String) : Option (Option Nat) :=
  if s == "none" then some none else s.toNat?.map some

def parseDots? (s : String) : Option (List Nat) :=
  if s == "-" || s.isEmpty then some [] else (s.splitOn ".").mapM String.toNat?

def parseBool? (s : String) : Option Bool :=
  if s == "1" then some true else if s == "0" then some false else none

def parseCfg? (args : List (String × String)) : Option Cfg := do
  let n ← (getArg args "N").bind String.toNat?
  let d ← (getArg args "D").bind String.toNat?
  let t ← (getArg args "tpcn").bind parseBool?
  let s ← (getArg args "syst").bind parseBool?
  let c ← (getArg args "clust").bind parseBool?
  let rf ← (getArg args "rf").bind String.toNat?
  let ci ← (getArg args "cinit").bind String.toNat?
  let cap ← (getArg args "cap").bind String.toNat?
  pure ⟨n, d, t, s, c, rf, ci, cap⟩

def parseIter? (s : String) : Option Script :=
  match s.splitOn "/" with
  | ["w", dd, a, b] => do
    let disc ← dd.toNat?
    let nInf ← a.toNat?
    let nFin ← b.toNat?
    pure ⟨true, disc, nInf, nFin, false, [], [], 0, 0⟩
  | ["a", r, f, gr, p, st] => do
    let refit ← parseBool? r
    let fits ← parseDots? f
    let groups ← parseDots? gr
    let pool ← p.toNat?
    let steps ← st.toNat?
    if steps = 0 then none else pure ⟨false, 0, 0, 0, refit, fits, groups, pool, steps⟩
  | _ => none

def obsOf (c : Cfg) (s : Script) : Obs :=
  if s.warm then .warm s.disc s.nInf s.nFin else .anneal (if c.clustering then s.groups else [s.pool]) s.steps

/-- one element of the run's data state = the iterations still to come -/
def runIter (c : Cfg) (fuel : Nat) : List Script → Prog Kind Nat Nat (List Script)
  | [] => .ret []
  | s :: rest => (iteration c scripted fuel s).bind fun _ => .ret rest

def starts (c : Cfg) (fuel : Nat) : List Script → St Nat → List Nat
  | [], _ => []
  | s :: rest, st => st.glob :: starts c fuel rest (run counter (iteration c (scripted (V := Nat)) fuel s) st).st

def handle (cmd : String) (args : List (String × String)) : Option String :=
  match cmd with
  | "c09.syst" =>
    match (getArg args "rs").bind parseOptNat? with
    | some rs => some (rle (run counter (systematicResample Kind.uniform rs) ⟨0, none⟩).log)
    | none => some "bad-op"
  | "c09.gmm" =>
    match (getArg args "rs").bind parseOptNat?, (getArg args "ninit").bind String.toNat?,
          (getArg args "ncomp").bind String.toNat? with
    | some rs, some ni, some nc => some (rle (run counter (gmmFit Kind.uniform rs ni nc) ⟨0, none⟩).log)
    | _, _, _ => some "bad-op"
  | "c09.hgmm" =>
    match (getArg args "ninit").bind String.toNat?, (getArg args "comps").bind parseNatList? with
    | some ni, some cs => some (rle (run counter (hgmmFit Kind.uniform ni cs) ⟨0, none⟩).log)
    | _, _ => some "bad-op"
  | "c09.iter" =>
    match parseCfg? args, (getArg args "fuel").bind String.toNat?, (getArg args "it").bind parseIter? with
    | some c, some fuel, some s => some (rle (run counter (iteration c scripted fuel s) ⟨0, none⟩).log)
    | _, _, _ => some "bad-op"
  | "c09.count" =>
    match parseCfg? args, (getArg args "it").bind parseIter? with
    | some c, some s => some (toString (iterValues c (obsOf c s)))
    | _, _ => some "bad-op"
  | "c09.run" =>
    match parseCfg? args, (getArg args "fuel").bind String.toNat?, (getArg args "rs").bind parseOptNat?,
          getArg args "resume", (getArg args "n").bind String.toNat? with
    | some c, some fuel, some rs, some resume, some n =>
      match (List.range n).mapM (fun i => (getArg args s!"i{i}").bind parseIter?) with
      | none => some "bad-op"
      | some its =>
        let contF : List Script → Bool := fun l => !l.isEmpty
        if resume == "continue" then
          let o := run counter (runSampling rs none (fun _ => true) contF (runIter c fuel) n its) ⟨0, none⟩
          some (rle o.log ++ " starts=" ++ showList toString (starts c fuel its ⟨0, none⟩))
        else if resume == "fresh" then
          let o := run counter (runSampling rs none (fun _ => false) contF (runIter c fuel) n its) ⟨0, none⟩
          let st0 : St Nat := (run counter (initFresh (K := Kind) (S := Nat) (V := Nat) rs) ⟨0, none⟩).st
          some (rle o.log ++ " starts=" ++ showList toString ((starts c fuel its st0).map fun p => p - st0.glob))
        else if resume == "legacy" then
          let o := run counter (runSampling rs (some ⟨none, its⟩) (fun _ => false) contF (runIter c fuel) n []) ⟨0, none⟩
          some (rle o.log ++ " starts=" ++ showList toString (starts c fuel its ⟨0, none⟩))
        else match resume.splitOn ":" with
          | ["at", js] =>
            match js.toNat? with
            | none => some "bad-op"
            | some j =>
              -- the writer: fresh seeded run of the first j iterations, then `saveState`
              let st0 : St Nat := (run counter (initFresh (K := Kind) (S := Nat) (V := Nat) rs) ⟨0, none⟩).st
              let w := run counter ((iterate contF (runIter c fuel) j its).bind saveState) st0
              let o := run counter (runSampling rs (some w.res) (fun _ => false) contF (runIter c fuel) n []) ⟨0, none⟩
              let ss := match w.res.rng with
                | some p => starts c fuel w.res.data ⟨p, none⟩
                | none => []
              some (rle o.log ++ " starts=" ++ showList toString (ss.map fun p => p - st0.glob))
          | _ => some "bad-op"
    | _, _, _, _, _ => some "bad-op"
  | _ => none

end Drv.C09
