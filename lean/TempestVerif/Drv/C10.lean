import TempestVerif.Drv.Util
import TempestVerif.Model.ClosedLoop
/- line-protocol handlers of property C10: the CLOSED-LOOP whole-run model (`Model.ClosedLoop`) at Float.

   The abstract `World` is instantiated from a recorded run: particle records are integer tags, `like` is a table, and the
   "random stream" `G` is the collection of recorded answers of the random / opaque calls, each consumed in program order
   (a call that finds its queue empty sets `bad`).  The model itself decides the temperature schedule (both metric modes),
   the trimming, the resampled indices, the accept masks, the step-size adaptation, the NUMBER of accept/reject steps and
   the NUMBER of iterations; the harness compares all of them with what the real run did.

   cl.F ratio=<f> n=<nat> vv=<f|none> tolE=<f> tolB=<f> fuel=<nat> syst=<0|1> tpcn=<0|1> nsteps=<nat> nmax=<nat> ndim=<nat>
        sigma0=<f> trimess=<f> trimbins=<nat> tolterm=<f> ntotal=<f> mcfuel=<nat> maxit=<nat>
        like=<f|x>,…                       log-likelihood of tag 0,1,2,… (`x` = −inf)
        draws=<tags>|…   choices=<nats>|…   resu=<floats>|…   unifs=<floats>|…        (`-` = empty list, `_` = no entries)
        trains=<K>;<predict>;<mode index>;<mode labels>|…
        props=<tag>:<factor>:<0|1>,…|…
        vvtab=<pool size>:<beta>:<value>,…   (the value `volume_variation` returned for that pool at that trial beta)
   → <iter>|…#<final logz|none>#<bad 0|1>;<left draws>;<left choices>;<left resu>;<left trains>;<left props>;<left unifs>;<stop>
       iter: <beta>;<ess>;<logz after reweight>;<logz committed>;<branch>;<idx>;<mask>+…;<steps>;<sigmas>;<acceptance>;
             <efficiency>;<calls>;<trimmed tags>;<trimmed weights>;<committed tags>;<committed logl>
       stop: `guard` (the model's `_not_termination` returned False), `maxit`, `error` (the model left its domain)
-/
namespace Drv.C10
open Drv Model.ClosedLoop Model.Reweight

structure TrainRec where
  K : Nat
  predict : List Nat
  midx : List Nat
  labels : List Nat

structure Trace where
  draws : List (List Nat)
  choices : List (List Nat)
  resu : List (List Float)
  trains : List TrainRec
  props : List (List (Nat × Float × Bool))
  unifs : List (List Float)
  bad : Bool

def nan : Float := 0.0 / 0.0

def mkWorld (like : Array (Option Float)) (vvtab : List (Nat × Float × Float)) : World Float Nat TrainRec (List Nat) Trace where
  like := fun p => (like[p]?).join
  priorDraw := fun g _ => match g.draws with
    | d :: r => (d, { g with draws := r })
    | [] => ([], { g with bad := true })
  choice := fun g _ _ => match g.choices with
    | d :: r => (d, { g with choices := r })
    | [] => ([], { g with bad := true })
  resampleU := fun g _ => match g.resu with
    | d :: r => (d, { g with resu := r })
    | [] => ([], { g with bad := true })
  train := fun ts g _ _ _ _ => match g.trains with
    | t :: r => (t, t.predict, { g with trains := r })
    | [] => (⟨0, [], [], []⟩, ts, { g with bad := true })
  dummy := ⟨1, [], [], []⟩
  predict := fun ts _ => ts
  modeIndex := fun ms _ _ => (ms.midx, ms.labels)
  nModes := fun ms => ms.K
  propose := fun _ _ _ _ g => match g.props with
    | d :: r => (d, { g with props := r })
    | [] => ([], { g with bad := true })
  unif := fun g _ => match g.unifs with
    | d :: r => (d, { g with unifs := r })
    | [] => ([], { g with bad := true })
  volvar := fun pool _ beta => match vvtab.find? (fun p => p.1 == pool.length && p.2.1 == beta) with
    | some p => p.2.2
    | none => nan

def parseOptF? (s : String) : Option (Option Float) :=
  if s == "x" then some none else (parseFloat? s).map some

/-- `a|b|c` → list of parsed entries; `_` = no entries at all -/
def parseQueue? {β : Type} (f : String → Option β) (s : String) : Option (List β) :=
  if s == "_" then some [] else (s.splitOn "|").mapM f

def parseTrain? (s : String) : Option TrainRec :=
  match s.splitOn ";" with
  | [k, a, b, c] => do
    let K ← k.toNat?
    let p ← parseNatList? a
    let mi ← parseNatList? b
    let ml ← parseNatList? c
    pure ⟨K, p, mi, ml⟩
  | _ => none

def parseProp? (s : String) : Option (Nat × Float × Bool) :=
  match s.splitOn ":" with
  | [a, b, c] => do
    let t ← a.toNat?
    let f ← parseFloat? b
    pure (t, f, c == "1")
  | _ => none

def parseVv? (s : String) : Option (Nat × Float × Float) :=
  match s.splitOn ":" with
  | [n, a, b] => do
    let k ← n.toNat?
    let x ← parseFloat? a
    let y ← parseFloat? b
    pure (k, x, y)
  | _ => none

def showMask (m : List Bool) : String := if m.isEmpty then "-" else String.ofList (m.map fun b => if b then '1' else '0')

def showIter (s : CState Float Nat (List Nat) Trace) (o : CIterOut Float Nat) : String :=
  let tin := match o.trainIn with
    | some t => s!"{showList toString t.1};{showList showFloat t.2}"
    | none => "-;-"
  ";".intercalate [showFloat o.beta, showFloat o.ess, showFloat o.logzRw, showFloat o.logz, o.branch.name,
    showList toString o.idx, (if o.masks.isEmpty then "-" else "+".intercalate (o.masks.map showMask)),
    toString s.steps, showList showFloat o.sigmas, showFloat s.acceptance, showFloat s.efficiency, toString s.calls,
    tin, showList toString s.cur, showList showFloat s.curL]

def cl (args : List (String × String)) : Option String := do
  let ratio ← (getArg args "ratio").bind parseFloat?
  let n ← (getArg args "n").bind String.toNat?
  let vv ← (getArg args "vv").bind fun s => if s == "none" then some none else (parseFloat? s).map some
  let tolE ← (getArg args "tolE").bind parseFloat?
  let tolB ← (getArg args "tolB").bind parseFloat?
  let fuel ← (getArg args "fuel").bind String.toNat?
  let syst ← (getArg args "syst").map (· == "1")
  let tpcn ← (getArg args "tpcn").map (· == "1")
  let nsteps ← (getArg args "nsteps").bind String.toNat?
  let nmax ← (getArg args "nmax").bind String.toNat?
  let ndim ← (getArg args "ndim").bind String.toNat?
  let sigma0 ← (getArg args "sigma0").bind parseFloat?
  let trimess ← (getArg args "trimess").bind parseFloat?
  let trimbins ← (getArg args "trimbins").bind String.toNat?
  let tolterm ← (getArg args "tolterm").bind parseFloat?
  let ntotal ← (getArg args "ntotal").bind parseFloat?
  let mcfuel ← (getArg args "mcfuel").bind String.toNat?
  let maxit ← (getArg args "maxit").bind String.toNat?
  let like ← (getArg args "like").bind (parseList? parseOptF?)
  let draws ← (getArg args "draws").bind (parseQueue? parseNatList?)
  let choices ← (getArg args "choices").bind (parseQueue? parseNatList?)
  let resu ← (getArg args "resu").bind (parseQueue? (parseList? parseFloat?))
  let unifs ← (getArg args "unifs").bind (parseQueue? (parseList? parseFloat?))
  let trains ← (getArg args "trains").bind (parseQueue? parseTrain?)
  let props ← (getArg args "props").bind (parseQueue? (parseList? parseProp?))
  let vvtab ← (getArg args "vvtab").bind (parseList? parseVv?)
  let W := mkWorld like.toArray vvtab
  let c : CCfg Float := ⟨⟨ratio, n, vv, tolE, tolB, fuel⟩, syst, tpcn, nsteps, nmax, ndim, sigma0, trimess, trimbins,
    tolterm, ntotal, mcfuel⟩
  let g0 : Trace := ⟨draws, choices, resu, trains, props, unifs, false⟩
  -- `while contGuard: iterate` — the two components of `Model.ClosedLoop.runLoop`, stepped here so that the iteration
  -- at which the model leaves its domain can be reported
  let rec go (s : CState Float Nat (List Nat) Trace) (k : Nat) (acc : List String) : Nat → (CState Float Nat (List Nat) Trace × List String × String)
    | 0 => (s, acc.reverse, if contGuard c s then "maxit" else "guard")
    | fuel + 1 =>
      if contGuard c s then
        match iterate W c s with
        | some (s', o) => go s' (k + 1) (showIter s' o :: acc) fuel
        | none => (s, acc.reverse, "error")
      else (s, acc.reverse, "guard")
  let (sf, its, stop) := go (init [] g0) 0 [] maxit
  let ev := match finalLogz sf with | some z => showFloat z | none => "none"
  let g := sf.g
  let tail := ";".intercalate [showBool g.bad, toString g.draws.length, toString g.choices.length, toString g.resu.length,
    toString g.trains.length, toString g.props.length, toString g.unifs.length, stop]
  pure s!"{"|".intercalate its}#{ev}#{tail}"

def handle (cmd : String) (args : List (String × String)) : Option String :=
  match cmd with
  | "cl.F" => some ((cl args).getD "bad-op")
  | _ => none

end Drv.C10
