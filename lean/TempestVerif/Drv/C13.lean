import TempestVerif.Drv.Util
import TempestVerif.Model.Dispatch
import TempestVerif.Gen.Dispatch
import TempestVerif.Model.Steps
/- line-protocol handlers of property C13.
   disp.how vec=<0|1> pool=<none|int:k|obj>     → direct | map | poolMap | error
   calls.run np=<n_particles> nw=<n_walkers> ops=<w | m:<steps>>;…   → <calls> <evaluated> | error
   steps.F nsteps=<n> nmax=<n> d=<n> iter=<n> acc=<f> ws=<f> s0=<f>   → <int(adaptive steps) as float bits> <converged 0|1>
-/
namespace Drv.C13
open Drv Model.Dispatch

def parsePool? (s : String) : Option PoolCfg :=
  match s.splitOn ":" with
  | ["none"] => some .none
  | ["obj"] => some .obj
  | ["int", k] => k.toNat?.map .int
  | _ => none

def parseOp? (s : String) : Option Op :=
  match s.splitOn ":" with
  | ["w"] => some .warmup
  | ["m", k] => k.toNat?.map .mcmc
  | _ => none

def callTable : CallTable :=
  ⟨Gen.Dispatch.warmupIncrement, Gen.Dispatch.warmupBatch, Gen.Dispatch.stepIncrement, Gen.Dispatch.stepBatch⟩

def handle (cmd : String) (args : List (String × String)) : Option String :=
  match cmd with
  | "disp.how" =>
    match (getArg args "vec").map (· == "1"), (getArg args "pool").bind parsePool? with
    | some v, some p =>
      some (match logLikeHow Gen.Dispatch.logLike Gen.Dispatch.distribute ⟨v, p⟩ with
        | some .direct => "direct" | some .map => "map" | some .poolMap => "poolMap" | none => "error")
    | _, _ => some "bad-op"
  | "calls.run" =>
    match (getArg args "np").bind String.toNat?, (getArg args "nw").bind String.toNat?,
          (getArg args "ops").bind fun s => if s == "-" then some [] else (s.splitOn ";").mapM parseOp? with
    | some np, some nw, some ops =>
      some (match runAcc callTable ⟨np, nw⟩ ⟨0, 0⟩ ops with
        | some a => s!"{a.calls} {a.evaluated}" | none => "error")
    | _, _, _ => some "bad-op"
  | "steps.F" =>
    match (getArg args "nsteps").bind String.toNat?, (getArg args "nmax").bind String.toNat?, (getArg args "d").bind String.toNat?,
          (getArg args "iter").bind String.toNat?, (getArg args "acc").bind parseFloat?, (getArg args "ws").bind parseFloat?,
          (getArg args "s0").bind parseFloat? with
    | some ns, some nm, some d, some it, some acc, some ws, some s0 =>
      some s!"{showFloat (Model.Steps.adaptiveSteps ns nm d acc ws s0)} {showBool (Model.Steps.converged ns nm d it acc ws s0)}"
    | _, _, _, _, _, _, _ => some "bad-op"
  | _ => none

end Drv.C13
