import TempestVerif.Drv.Util
import TempestVerif.Model.Dispatch
import TempestVerif.Gen.Dispatch
import TempestVerif.Model.Steps
import TempestVerif.Model.LLEval
import TempestVerif.Model.CallsRun
/- line-protocol handlers of property C13.
   disp.how vec=<0|1> pool=<none|int:k|obj>     → direct | map | poolMap | error
   calls.run np=<n_particles> nw=<n_walkers> ops=<w | m:<steps>>;…   → <calls> <evaluated> | error
   steps.F nsteps=<n> nmax=<n> d=<n> iter=<n> acc=<f> ws=<f> s0=<f>   → <int(adaptive steps) as float bits> <converged 0|1>
   disp.howV vec=<0|1> pool=<none|int:<k>|obj:<0|1>>   (k any integer)      → direct | map | newPool:<k> | objMap | error
   ll.eval how=<direct|map|newPool:<k>|objMap> sched=<i,j,…|-> res=<r;r;…|-> vec=<tok,…|->
        r = v:<tok> | s:<tok>:<tok,tok…> | s:<tok>: | b      (point i of the batch returns res[i]; `vec` = what the vectorised
        likelihood returns)                   → ok logl=<toks> blobs=<none|single:<toks>|rows:<k>:<row|row…>> log=<indices> | error
   wrap.call args=<none|tok,…|-> kwargs=<none|k~v,…|->                       → args=<…> kwargs=<…>
   evlik hb=<0|1> n=<n_calls> w=<n_walkers> blobs=<0|1>                      → <n_calls'> <blobs handed on 0|1>
   crun np=<n> nw=<n> start=<fresh|resume:<c>|resume:none|cont:<c>> fuel=<n> ops=<w|w:<redraws>|m:<steps>;…|->
   start.kind path=<0|1> hist=<n>                                             → fresh | resume | continued | error   → <calls> <batch sizes> | error
-/
namespace Drv.C13
open Drv Model.Dispatch

def parsePool? (s : String) : Option PoolCfg :=
  match s.splitOn ":" with
  | ["none"] => some .none
  | ["obj"] => some .obj
  | ["int", k] => k.toNat?.map .int
  | _ => none

def parseOp? (s : String) : Option Op :=
  match s.splitOn ":" with
  | ["w"] => some .warmup
  | ["m", k] => k.toNat?.map .mcmc
  | _ => none

def callTable : CallTable :=
  ⟨Gen.Dispatch.warmupDrawnStep, Gen.Dispatch.warmupBatch, Gen.Dispatch.stepIncrement, Gen.Dispatch.stepBatch⟩

open Model.LLEval Model.CallsRun in
def parsePoolV? (s : String) : Option PoolV :=
  match s.splitOn ":" with
  | ["none"] => some .none
  | ["obj", "0"] => some (.obj false)
  | ["obj", "1"] => some (.obj true)
  | ["int", k] => k.toInt?.map .int
  | _ => none

open Model.LLEval in
def parseHowV? (s : String) : Option HowV :=
  match s.splitOn ":" with
  | ["direct"] => some .direct
  | ["map"] => some .map
  | ["objMap"] => some .objMap
  | ["newPool", k] => k.toInt?.map .newPoolMap
  | _ => none

open Model.LLEval in
def showHowV : Option HowV → String
  | some .direct => "direct"
  | some .map => "map"
  | some (.newPoolMap k) => s!"newPool:{k}"
  | some .objMap => "objMap"
  | none => "error"

def toks (s : String) : List String := if s.isEmpty || s == "-" then [] else s.splitOn ","

open Model.LLEval in
def parseRes? (s : String) : Option (Res String String) :=
  match s.splitOn ":" with
  | ["b"] => some .bad
  | ["v", y] => some (.val y)
  | ["s", y, bs] => some (.seq y (if bs.isEmpty then [] else bs.splitOn ","))
  | _ => none

open Model.LLEval in
def showBlobs : Option (Blobs String) → String
  | none => "none"
  | some (.single col) => "single:" ++ showList id col
  | some (.rows k r) => s!"rows:{k}:" ++ "|".intercalate (r.map (showList id))

open Model.CallsRun in
def parseIt? (s : String) : Option ItKind :=
  match s.splitOn ":" with
  | ["w"] => some (.warm 0)
  | ["w", r] => r.toNat?.map .warm
  | ["m", k] => k.toNat?.map .mcmc
  | _ => none

def runTable : Model.CallsRun.RunTable :=
  ⟨⟨Gen.Dispatch.warmupIncrement, Gen.Dispatch.warmupBatch, Gen.Dispatch.stepIncrement, Gen.Dispatch.stepBatch⟩,
   Gen.Dispatch.nCallsInit, Gen.Dispatch.freshCalls, Gen.Dispatch.resumeDefault,
   Gen.Dispatch.warmupDrawnInit, Gen.Dispatch.warmupDrawnStep, Gen.Dispatch.warmupCap⟩

open Model.LLEval Model.CallsRun in
def handle2 (cmd : String) (args : List (String × String)) : Option String :=
  match cmd with
  | "disp.howV" =>
    match (getArg args "vec").map (· == "1"), (getArg args "pool").bind parsePoolV? with
    | some v, some p => some (showHowV (logLikeHowV Gen.Dispatch.logLike Gen.Dispatch.distribute v p))
    | _, _ => some "bad-op"
  | "ll.eval" =>
    match (getArg args "how").bind parseHowV?, (getArg args "sched").bind parseNatList?,
          (getArg args "res").bind (fun s => if s == "-" then some [] else (s.splitOn ";").mapM parseRes?),
          (getArg args "vec").map toks with
    | some how, some sched, some res, some vec =>
      let xs := List.range res.length
      let f : Nat → Res String String := fun i => match res[i]? with | some r => r | none => .bad
      some (match logLike how sched f (fun _ => vec) xs with
        | some o => s!"ok logl={showList id o.logl} blobs={showBlobs o.blobs} log={showList toString (logLikeLog how sched xs)}"
        | none => "error")
    | _, _, _, _ => some "bad-op"
  | "wrap.call" =>
    match getArg args "args", getArg args "kwargs" with
    | some a, some k =>
      let a' : Option (List String) := if a == "none" then none else some (toks a)
      let k' : Option (List (String × String)) := if k == "none" then none else
        some ((toks k).filterMap fun t => match t.splitOn "~" with | [x, y] => some (x, y) | _ => none)
      let w := Wrapper.init (fun (_ : Unit) (as : List String) (ks : List (String × String)) => (as, ks)) a' k'
      let (ra, rk) := w.call ()
      some s!"args={showList id ra} kwargs={showList (fun p => p.1 ++ "~" ++ p.2) rk}"
    | _, _ => some "bad-op"
  | "evlik" =>
    match (getArg args "hb").map (· == "1"), (getArg args "n").bind String.toNat?, (getArg args "w").bind String.toNat?,
          (getArg args "blobs").map (· == "1") with
    | some hb, some n, some w, some bl =>
      let o : Out String String := ⟨["l"], if bl then some (.single ["b"]) else none⟩
      some (match evaluateLikelihood hb (fun (_ : List Unit) => some o) [()] n w with
        | some (_, b, n') => s!"{n'} {showBool b.isSome}"
        | none => "error")
    | _, _, _, _ => some "bad-op"
  | "start.kind" =>
    match (getArg args "path").map (· == "1"), (getArg args "hist").bind String.toNat? with
    | some p, some n => some (match startKind Gen.Dispatch.runStart p n with
        | some .fresh => "fresh" | some .resume => "resume" | some .continued => "continued" | none => "error")
    | _, _ => some "bad-op"
  | "crun" =>
    match (getArg args "np").bind String.toNat?, (getArg args "nw").bind String.toNat?, (getArg args "fuel").bind String.toNat?,
          getArg args "start",
          (getArg args "ops").bind fun s => if s == "-" then some [] else (s.splitOn ";").mapM parseIt? with
    | some np, some nw, some fuel, some st, some ops =>
      let start? : Option (Start (List ItKind)) := match st.splitOn ":" with
        | ["fresh"] => some (.fresh ops)
        | ["resume", "none"] => some (.resume ops none)
        | ["resume", c] => c.toNat?.map fun c => .resume ops (some c)
        | ["cont", c] => c.toNat?.map fun c => .continued ops c
        | _ => none
      match start? with
      | none => some "bad-op"
      | some start =>
        some (match runSampling runTable (scripted np nw) (scriptEv (scriptFlags ops)) np fuel (ops.length + 1) start with
          | some r => s!"{r.calls} {showList toString (r.asked.map List.length)}"
          | none => "error")
    | _, _, _, _, _ => some "bad-op"
  | _ => none

def handle (cmd : String) (args : List (String × String)) : Option String :=
  match handle2 cmd args with
  | some r => some r
  | none =>
  match cmd with
  | "disp.how" =>
    match (getArg args "vec").map (· == "1"), (getArg args "pool").bind parsePool? with
    | some v, some p =>
      some (match logLikeHow Gen.Dispatch.logLike Gen.Dispatch.distribute ⟨v, p⟩ with
        | some .direct => "direct" | some .map => "map" | some .poolMap => "poolMap" | none => "error")
    | _, _ => some "bad-op"
  | "calls.run" =>
    match (getArg args "np").bind String.toNat?, (getArg args "nw").bind String.toNat?,
          (getArg args "ops").bind fun s => if s == "-" then some [] else (s.splitOn ";").mapM parseOp? with
    | some np, some nw, some ops =>
      some (match runAcc callTable ⟨np, nw⟩ ⟨0, 0⟩ ops with
        | some a => s!"{a.calls} {a.evaluated}" | none => "error")
    | _, _, _ => some "bad-op"
  | "steps.F" =>
    match (getArg args "nsteps").bind String.toNat?, (getArg args "nmax").bind String.toNat?, (getArg args "d").bind String.toNat?,
          (getArg args "iter").bind String.toNat?, (getArg args "acc").bind parseFloat?, (getArg args "ws").bind parseFloat?,
          (getArg args "s0").bind parseFloat? with
    | some ns, some nm, some d, some it, some acc, some ws, some s0 =>
      some s!"{showFloat (Model.Steps.adaptiveSteps ns nm d acc ws s0)} {showBool (Model.Steps.converged ns nm d it acc ws s0)}"
    | _, _, _, _, _, _, _ => some "bad-op"
  | _ => none

end Drv.C13
