import TempestVerif.Sc
/-
  Line-protocol utilities for the model driver (no imports beyond the scalar interface).
  Numbers cross the protocol exactly:
    * doubles as 16 hex digits of their IEEE-754 bit pattern  (`F` regime),
    * rationals as `p/q` or `p`                               (`Q` regime).
-/
namespace Drv

def hexDigit? (c : Char) : Option Nat :=
  if '0' ≤ c ∧ c ≤ '9' then some (c.toNat - '0'.toNat)
  else if 'a' ≤ c ∧ c ≤ 'f' then some (c.toNat - 'a'.toNat + 10)
  else if 'A' ≤ c ∧ c ≤ 'F' then some (c.toNat - 'A'.toNat + 10)
  else none

def parseHex? (s : String) : Option Nat :=
  if s.isEmpty then none else
  s.foldl (fun acc c => match acc, hexDigit? c with
    | some a, some d => some (a * 16 + d)
    | _, _ => none) (some 0)

def hexChar (n : Nat) : Char :=
  if n < 10 then Char.ofNat ('0'.toNat + n) else Char.ofNat ('a'.toNat + n - 10)

def toHex16 (n : Nat) : String :=
  let rec go (k : Nat) (n : Nat) (acc : List Char) : List Char :=
    match k with
    | 0 => acc
    | k+1 => go k (n / 16) (hexChar (n % 16) :: acc)
  String.ofList (go 16 n [])

def parseFloat? (s : String) : Option Float :=
  (parseHex? s).map fun n => Float.ofBits n.toUInt64

def showFloat (x : Float) : String := toHex16 x.toBits.toNat

def parseInt? (s : String) : Option Int := s.toInt?

def parseRat? (s : String) : Option Rat :=
  match s.splitOn "/" with
  | [p] => (parseInt? p).map fun n => (n : Rat)
  | [p, q] => match parseInt? p, q.toNat? with
    | some n, some d => if d = 0 then none else some ((n : Rat) / (d : Rat))
    | _, _ => none
  | _ => none

def showRat (r : Rat) : String :=
  if r.den = 1 then toString r.num else s!"{r.num}/{r.den}"

def parseList? {β : Type} (f : String → Option β) (s : String) : Option (List β) :=
  if s.isEmpty || s == "-" then some [] else
  (s.splitOn ",").mapM f

def showList {β : Type} (f : β → String) (l : List β) : String :=
  if l.isEmpty then "-" else ",".intercalate (l.map f)

def parseNatList? (s : String) : Option (List Nat) := parseList? String.toNat? s

/-- `key=value` arguments -/
def argMap (toks : List String) : List (String × String) :=
  toks.filterMap fun t => match t.splitOn "=" with
    | [k, v] => some (k, v)
    | _ => none

def getArg (m : List (String × String)) (k : String) : Option String :=
  (m.find? (·.1 == k)).map (·.2)

/-- scalar codec, so that one handler serves both regimes -/
class Codec (α : Type) where
  parse : String → Option α
  shw : α → String

instance : Codec Float := ⟨parseFloat?, showFloat⟩
instance : Codec Rat := ⟨parseRat?, showRat⟩

def showBool (b : Bool) : String := if b then "1" else "0"

end Drv
