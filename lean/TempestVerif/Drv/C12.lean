import TempestVerif.Drv.Util
/- line-protocol handlers of property C12 (stub: no commands yet) -/
namespace Drv.C12
open Drv

def handle (cmd : String) (args : List (String × String)) : Option String :=
  match cmd with
  | _ => none

end Drv.C12
