import TempestVerif.Drv.Util
import TempestVerif.Model.Run
import TempestVerif.Model.Posterior
import TempestVerif.Gen.Tables
/- line-protocol handlers of property C12.
   post.run n=<N> trim=<0|1> res=<0|1> blobs=<0|1> rb=<0|1> rl=<0|1> tidx=<idx> ridx=<idx>
       particles are tags 0..N-1 in every array; the trimming / resampling index vectors are inputs
       → names=<returned array names> x=<tags> l=<tags> b=<tags> lw=<tags> nw=<number of weights>  |  error
   term.F tol=<f> beta=<f> ess=<f> ntotal=<f>   → 1 (continue) / 0 (stop)
   term.H tol=<f> beta=<f> logw=<floats> ntotal=<f>   (whole `_not_termination`, ESS computed from the log-weights)
       → <1|0> <ess as float | ->          (`-` : empty history)
   post.w0 logw=<floats>   → the untrimmed posterior weights `exp(logw-max)/sum` as floats  |  none
   post.unif n=<nat>       → the entry `1/n` of `np.ones(n)/n` as float
-/
namespace Drv.C12
open Drv Model.Posterior Model.Run

def postRun (args : List (String × String)) : Option String := do
  let n ← (getArg args "n").bind String.toNat?
  let flag (k : String) : Option Bool := (getArg args k).map (· == "1")
  let trim ← flag "trim"
  let res ← flag "res"
  let blobs ← flag "blobs"
  let rb ← flag "rb"
  let rl ← flag "rl"
  let tidx ← (getArg args "tidx").bind parseNatList?
  let ridx ← (getArg args "ridx").bind parseNatList?
  let tags := List.range n
  let a : Arrs Nat Nat Nat Nat Nat := ⟨tags, tags, tags, tags, List.replicate n 0⟩
  let o : Opts := ⟨res, trim, rb, rl⟩
  let r := body Gen.Tables.posteriorTrimGather Gen.Tables.posteriorResampleGather
    (fun _ => (tidx, List.replicate tidx.length 0)) (fun _ => ridx) (fun k => List.replicate k 0) o a
  match r with
  | none => some "error"
  | some r =>
    let names := returnNames blobs o
    some s!"names={",".intercalate names} x={showList toString r.x} l={showList toString r.l} b={showList toString r.b} lw={showList toString r.lw} nw={r.w.length}"

def handle (cmd : String) (args : List (String × String)) : Option String :=
  match cmd with
  | "post.run" => some ((postRun args).getD "bad-op")
  | "term.F" =>
    match (getArg args "tol").bind parseFloat?, (getArg args "beta").bind parseFloat?,
          (getArg args "ess").bind parseFloat?, (getArg args "ntotal").bind parseFloat? with
    | some t, some b, some e, some n => some (showBool (notTerm t b e n))
    | _, _, _, _ => some "bad-op"
  | "term.H" =>
    match (getArg args "tol").bind parseFloat?, (getArg args "beta").bind parseFloat?,
          (getArg args "logw").bind (parseList? parseFloat?), (getArg args "ntotal").bind parseFloat? with
    | some t, some b, some lw, some n =>
      let e : String := match lw with
        | [] => "-"
        | x :: xs => showFloat (Model.Ess.ess (expShift x xs))
      some s!"{showBool (notTermination t b lw n)} {e}"
    | _, _, _, _ => some "bad-op"
  | "post.w0" =>
    match (getArg args "logw").bind (parseList? parseFloat?) with
    | some lw => some (match weights0 lw with | none => "none" | some w => showList showFloat w)
    | none => some "bad-op"
  | "post.unif" =>
    match (getArg args "n").bind String.toNat? with
    | some n => some (match (uniformW n : List Float) with | [] => "-" | x :: _ => showFloat x)
    | none => some "bad-op"
  | _ => none

end Drv.C12
