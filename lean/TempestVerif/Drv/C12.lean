import TempestVerif.Drv.Util
import TempestVerif.Model.Run
import TempestVerif.Model.Posterior
import TempestVerif.Gen.Tables
import TempestVerif.Model.RunEntry
import TempestVerif.Model.PosteriorX
/- line-protocol handlers of property C12.
   post.run n=<N> trim=<0|1> res=<0|1> blobs=<0|1> rb=<0|1> rl=<0|1> tidx=<idx> ridx=<idx>
       particles are tags 0..N-1 in every array; the trimming / resampling index vectors are inputs
       → names=<returned array names> x=<tags> l=<tags> b=<tags> lw=<tags> nw=<number of weights>  |  error
   term.F tol=<f> beta=<f> ess=<f> ntotal=<f>   → 1 (continue) / 0 (stop)
   term.H tol=<f> beta=<f> logw=<floats> ntotal=<f>   (whole `_not_termination`, ESS computed from the log-weights)
       → <1|0> <ess as float | ->          (`-` : empty history)
   post.w0 logw=<floats>   → the untrimmed posterior weights `exp(logw-max)/sum` as floats  |  none
   post.unif n=<nat>       → the entry `1/n` of `np.ones(n)/n` as float
   c12x.entry hist=<k> iter=<i> calls=<c> beta=<f> logz=<f> started=<0|1> nt=<n|-> call=<n> rs=<0|1>
              ck=<0|1> [ckhist=<k> ckiter=<i> ckcalls=<c> ckbeta=<f> cklogz=<f> cknt=<n|-> ckrng=<0|1>]
       `Model.RunEntry.prologue` on a core whose history holds k batches; `rs`: random_state is set (the fresh arm reseeds);
       `ck=1`: run(resume_state_path=file) with the file's content; stream positions are tags (core 10, file 55, reseeded 99)
       → branch=<resume|continue|fresh> t0=<n> nt=<n> hist=<k> iter=<i> calls=<c> beta=<f> logz=<f> g=<tag> started=<0|1>
         ev0=<f|none> ev=<f|none>      (ev0 / ev: `evidence()[0]` before / after the prologue)
   c12x.post n=<N> decl=<0|1> cur=<0|1> bh=<sizes of the committed blob arrays> empty=<0|1> trim= res= rb= rl= tidx= ridx=
       `Model.PosteriorX.computePosteriorWith` on tags 0..N-1 with the given index vectors (`empty=1`: no log-weights)
       → names=<returned names> x=<tags> l=<tags> b=<tags|-> lw=<tags|-> nw=<n>  |  raise
-/
namespace Drv.C12
open Drv Model.Posterior Model.Run

def postRun (args : List (String × String)) : Option String := do
  let n ← (getArg args "n").bind String.toNat?
  let flag (k : String) : Option Bool := (getArg args k).map (· == "1")
  let trim ← flag "trim"
  let res ← flag "res"
  let blobs ← flag "blobs"
  let rb ← flag "rb"
  let rl ← flag "rl"
  let tidx ← (getArg args "tidx").bind parseNatList?
  let ridx ← (getArg args "ridx").bind parseNatList?
  let tags := List.range n
  let a : Arrs Nat Nat Nat Nat Nat := ⟨tags, tags, tags, tags, List.replicate n 0⟩
  let o : Opts := ⟨res, trim, rb, rl⟩
  let r := body Gen.Tables.posteriorTrimGather Gen.Tables.posteriorResampleGather
    (fun _ => (tidx, List.replicate tidx.length 0)) (fun _ => ridx) (fun k => List.replicate k 0) o a
  match r with
  | none => some "error"
  | some r =>
    let names := returnNames blobs o
    some s!"names={",".intercalate names} x={showList toString r.x} l={showList toString r.l} b={showList toString r.b} lw={showList toString r.lw} nw={r.w.length}"

open Model.RunEntry Model.ClosedLoop in
def entryCmd (args : List (String × String)) : Option String := do
  let nat (k : String) : Option Nat := (getArg args k).bind String.toNat?
  let flt (k : String) : Option Float := (getArg args k).bind parseFloat?
  let flag (k : String) : Option Bool := (getArg args k).map (· == "1")
  let optNat (k : String) : Option (Option Nat) := (getArg args k).map fun s => if s == "-" then none else s.toNat?
  let dummy : CBatch Float Nat := ⟨0, 0, 0, [0], [0], 0, 0, 0, 0, 0⟩
  let k ← nat "hist"
  let it ← nat "iter"
  let calls ← nat "calls"
  let beta ← flt "beta"
  let logz ← flt "logz"
  let started ← flag "started"
  let nt ← optNat "nt"
  let callN ← nat "call"
  let rs ← flag "rs"
  let ck ← flag "ck"
  let st : CState Float Nat Unit Nat := ⟨List.replicate k dummy, beta, logz, 0, it, calls, [], [], [], 0, 0, 0, (), 10⟩
  let core : Core Float Nat Unit Nat := ⟨st, started, nt, 0⟩
  let file : Option (CkFile Float Nat Nat) ←
    if ck then do
      let ckk ← nat "ckhist"
      let cki ← nat "ckiter"
      let ckc ← nat "ckcalls"
      let ckb ← flt "ckbeta"
      let ckz ← flt "cklogz"
      let cknt ← optNat "cknt"
      let ckrng ← flag "ckrng"
      pure (some ⟨⟨List.replicate ckk dummy, ckb, ckz, 0, cki, ckc, [], [], [], 0, 0, 0⟩, cknt, if ckrng then some 55 else none⟩)
    else pure none
  let reseed : Nat → Nat := if rs then fun _ => 99 else id
  let c1 := prologue reseed core ⟨callN, file⟩
  let sev (e : Option Float) : String := match e with | some v => showFloat v | none => "none"
  let snt : String := match c1.nTotal with | some n => toString n | none => "-"
  pure s!"branch={(entryBranch file.isSome k).name} t0={c1.t0} nt={snt} hist={c1.st.hist.length} iter={c1.st.iter} calls={c1.st.calls} beta={showFloat c1.st.beta} logz={showFloat c1.st.logz} g={c1.st.g} started={showBool c1.started} ev0={sev (evidence core)} ev={sev (evidence c1)}"

open Model.PosteriorX in
def postX (args : List (String × String)) : Option String := do
  let n ← (getArg args "n").bind String.toNat?
  let flag (k : String) : Option Bool := (getArg args k).map (· == "1")
  let decl ← flag "decl"
  let cur ← flag "cur"
  let bh ← (getArg args "bh").bind parseNatList?
  let empty ← flag "empty"
  let trim ← flag "trim"
  let res ← flag "res"
  let rb ← flag "rb"
  let rl ← flag "rl"
  let tidx ← (getArg args "tidx").bind parseNatList?
  let ridx ← (getArg args "ridx").bind parseNatList?
  let tags := List.range n
  -- the committed blob arrays: consecutive tag ranges of the given sizes
  let blobsHist : List (List Nat) := (bh.foldl (fun (acc : Nat × List (List Nat)) sz =>
    (acc.1 + sz, acc.2 ++ [(List.range sz).map (· + acc.1)])) (0, [])).2
  let h : Hist Nat Nat Nat Nat := ⟨tags, tags, blobsHist, tags, decl, cur⟩
  let o : Opts := ⟨res, trim, rb, rl⟩
  let r := computePosteriorWith Gen.Tables.posteriorTrimGather Gen.Tables.posteriorResampleGather
    (fun _ => some (tidx, List.replicate tidx.length 0)) (fun _ => some ridx) (fun k => List.replicate k 0) o h
    (if empty then none else some (List.replicate n 0))
  match r with
  | none => pure "raise"
  | some cs =>
    let col (nm : String) : String :=
      match cs.find? (fun c => c.name == nm) with
      | some (.x v) => showList toString v
      | some (.logl v) => showList toString v
      | some (.blobs v) => showList toString v
      | some (.logw v) => showList toString v
      | _ => "-"
    let nw : Nat := match cs.find? (fun c => c.name == "weights") with | some c => c.len | none => 0
    pure s!"names={",".intercalate (cs.map Col.name)} x={col "x"} l={col "logl"} b={col "blobs"} lw={col "logw"} nw={nw}"

def handle (cmd : String) (args : List (String × String)) : Option String :=
  match cmd with
  | "post.run" => some ((postRun args).getD "bad-op")
  | "c12x.entry" => some ((entryCmd args).getD "bad-op")
  | "c12x.post" => some ((postX args).getD "bad-op")
  | "term.F" =>
    match (getArg args "tol").bind parseFloat?, (getArg args "beta").bind parseFloat?,
          (getArg args "ess").bind parseFloat?, (getArg args "ntotal").bind parseFloat? with
    | some t, some b, some e, some n => some (showBool (notTerm t b e n))
    | _, _, _, _ => some "bad-op"
  | "term.H" =>
    match (getArg args "tol").bind parseFloat?, (getArg args "beta").bind parseFloat?,
          (getArg args "logw").bind (parseList? parseFloat?), (getArg args "ntotal").bind parseFloat? with
    | some t, some b, some lw, some n =>
      let e : String := match lw with
        | [] => "-"
        | x :: xs => showFloat (Model.Ess.ess (expShift x xs))
      some s!"{showBool (notTermination t b lw n)} {e}"
    | _, _, _, _ => some "bad-op"
  | "post.w0" =>
    match (getArg args "logw").bind (parseList? parseFloat?) with
    | some lw => some (match weights0 lw with | none => "none" | some w => showList showFloat w)
    | none => some "bad-op"
  | "post.unif" =>
    match (getArg args "n").bind String.toNat? with
    | some n => some (match (uniformW n : List Float) with | [] => "-" | x :: _ => showFloat x)
    | none => some "bad-op"
  | _ => none

end Drv.C12
