import TempestVerif.Drv.Util
import TempestVerif.Model.Ess
import TempestVerif.Model.Trim
/- line-protocol handlers of property C20 (ESS, percentile/linspace mirrors, weight trimming) -/
namespace Drv.C20
open Drv Model.Ess Model.Trim

def getList (α : Type) [Codec α] (args : List (String × String)) (k : String) : Option (List α) :=
  (getArg args k).bind (parseList? (Codec.parse (α := α)))

def getNat (args : List (String × String)) (k : String) : Option Nat :=
  (getArg args k).bind String.toNat?

/-- `ess w=<scalars>` → `<ess>` -/
def essCmd (α : Type) [Sc α] [Codec α] (args : List (String × String)) : String :=
  match getList α args "w" with
  | some w => Codec.shw (ess w)
  | none => "bad-op"

/-- `cess logw=<scalars>` → `<compute_ess>` | `none` -/
def cessCmd (args : List (String × String)) : String :=
  match getList Float args "logw" with
  | some l => match computeEss l with
    | some v => showFloat v
    | none => "none"
  | none => "bad-op"

/-- `pct w=<scalars> p=<scalar>` → `np.percentile(w, p)` | `none` -/
def pctCmd (α : Type) [Sc α] [Codec α] (args : List (String × String)) : String :=
  match getList α args "w", (getArg args "p").bind (Codec.parse (α := α)) with
  | some w, some p => match percentileLinear (sortAsc w) p with
    | some v => Codec.shw v
    | none => "none"
  | _, _ => "bad-op"

/-- `lin bins=<nat>` → the whole grid `np.linspace(0, 99, bins)` -/
def linCmd (α : Type) [Sc α] [Codec α] (args : List (String × String)) : String :=
  match getNat args "bins" with
  | some bins => showList Codec.shw ((List.range bins).map fun i => (linspace0_99 bins i : α))
  | none => "bad-op"

def maskIdx (m : List Bool) : List Nat := filterMask (List.range m.length) m

/-- largest ratio among the rejected passes `stop < i < bins` (the one closest to the acceptance level) -/
def maxRejected {α : Type} [Sc α] (wn sorted : List α) (essTotal : α) (bins stop : Nat) : Option α :=
  ((List.range bins).filter (fun i => stop < i)).foldl (fun acc i =>
    match step wn sorted essTotal (linspace0_99 bins i) with
    | none => acc
    | some s => match acc with
      | none => some s.ratio
      | some r => some (Sc.max r s.ratio)) none

/-- `trim w=<scalars> ess=<scalar> bins=<nat>` →
    `<stop index> <threshold> <kept indices> <kept weights> <ratio at stop> <max rejected ratio | ->` | `none`.
    Samples are the indices `0..n-1`; they are pushed through `trim` itself so that alignment is observable. -/
def trimCmd (α : Type) [Sc α] [Codec α] (args : List (String × String)) : String :=
  match getList α args "w", (getArg args "ess").bind (Codec.parse (α := α)), getNat args "bins" with
  | some w, some e, some bins =>
    match trimStop w e bins, trim (List.range w.length) w e bins with
    | some (i, s), some (idx, wt) =>
      let wn := normalise w
      let essTotal := Sc.div Sc.one (sumSq wn)
      let rej := match maxRejected wn (sortAsc wn) essTotal bins i with
        | some r => Codec.shw r
        | none => "-"
      let same := if idx == maskIdx s.mask then "" else " MASK-MISMATCH"
      s!"{i} {Codec.shw s.thr} {showList toString idx} {showList Codec.shw wt} {Codec.shw s.ratio} {rej}{same}"
    | _, _ => "none"
  | _, _, _ => "bad-op"

def handle (cmd : String) (args : List (String × String)) : Option String :=
  match cmd with
  | "ess.F" => some (essCmd Float args)
  | "ess.Q" => some (essCmd Rat args)
  | "cess.F" => some (cessCmd args)
  | "pct.F" => some (pctCmd Float args)
  | "pct.Q" => some (pctCmd Rat args)
  | "lin.F" => some (linCmd Float args)
  | "lin.Q" => some (linCmd Rat args)
  | "trim.F" => some (trimCmd Float args)
  | "trim.Q" => some (trimCmd Rat args)
  | _ => none

end Drv.C20
