import TempestVerif.Drv.Util
import TempestVerif.Model.Ess
import TempestVerif.Model.Trim
import TempestVerif.Model.TrimSites
import TempestVerif.Model.VolVar
/- line-protocol handlers of property C20 (ESS, percentile/linspace mirrors, weight trimming) -/
namespace Drv.C20
open Drv Model.Ess Model.Trim

def getList (α : Type) [Codec α] (args : List (String × String)) (k : String) : Option (List α) :=
  (getArg args k).bind (parseList? (Codec.parse (α := α)))

def getNat (args : List (String × String)) (k : String) : Option Nat :=
  (getArg args k).bind String.toNat?

/-- `ess w=<scalars>` → `<ess>` -/
def essCmd (α : Type) [Sc α] [Codec α] (args : List (String × String)) : String :=
  match getList α args "w" with
  | some w => Codec.shw (ess w)
  | none => "bad-op"

/-- `cess logw=<scalars>` → `<compute_ess>` | `none` -/
def cessCmd (args : List (String × String)) : String :=
  match getList Float args "logw" with
  | some l => match computeEss l with
    | some v => showFloat v
    | none => "none"
  | none => "bad-op"

/-- `pct w=<scalars> p=<scalar>` → `np.percentile(w, p)` | `none` -/
def pctCmd (α : Type) [Sc α] [Codec α] (args : List (String × String)) : String :=
  match getList α args "w", (getArg args "p").bind (Codec.parse (α := α)) with
  | some w, some p => match percentileLinear (sortAsc w) p with
    | some v => Codec.shw v
    | none => "none"
  | _, _ => "bad-op"

/-- `lin bins=<nat>` → the whole grid `np.linspace(0, 99, bins)` -/
def linCmd (α : Type) [Sc α] [Codec α] (args : List (String × String)) : String :=
  match getNat args "bins" with
  | some bins => showList Codec.shw ((List.range bins).map fun i => (linspace0_99 bins i : α))
  | none => "bad-op"

def maskIdx (m : List Bool) : List Nat := filterMask (List.range m.length) m

/-- largest ratio among the rejected passes `stop < i < bins` (the one closest to the acceptance level) -/
def maxRejected {α : Type} [Sc α] (wn sorted : List α) (essTotal : α) (bins stop : Nat) : Option α :=
  ((List.range bins).filter (fun i => stop < i)).foldl (fun acc i =>
    match step wn sorted essTotal (linspace0_99 bins i) with
    | none => acc
    | some s => match acc with
      | none => some s.ratio
      | some r => some (Sc.max r s.ratio)) none

/-- `trim w=<scalars> ess=<scalar> bins=<nat>` →
    `<stop index> <threshold> <kept indices> <kept weights> <ratio at stop> <max rejected ratio | ->` | `none`.
    Samples are the indices `0..n-1`; they are pushed through `trim` itself so that alignment is observable. -/
def trimCmd (α : Type) [Sc α] [Codec α] (args : List (String × String)) : String :=
  match getList α args "w", (getArg args "ess").bind (Codec.parse (α := α)), getNat args "bins" with
  | some w, some e, some bins =>
    match trimStop w e bins, trim (List.range w.length) w e bins with
    | some (i, s), some (idx, wt) =>
      let wn := normalise w
      let essTotal := Sc.div Sc.one (sumSq wn)
      let rej := match maxRejected wn (sortAsc wn) essTotal bins i with
        | some r => Codec.shw r
        | none => "-"
      let same := if idx == maskIdx s.mask then "" else " MASK-MISMATCH"
      s!"{i} {Codec.shw s.thr} {showList toString idx} {showList Codec.shw wt} {Codec.shw s.ratio} {rej}{same}"
    | _, _ => "none"
  | _, _, _ => "bad-op"

def handle0 (cmd : String) (args : List (String × String)) : Option String :=
  match cmd with
  | "ess.F" => some (essCmd Float args)
  | "ess.Q" => some (essCmd Rat args)
  | "cess.F" => some (cessCmd args)
  | "pct.F" => some (pctCmd Float args)
  | "pct.Q" => some (pctCmd Rat args)
  | "lin.F" => some (linCmd Float args)
  | "lin.Q" => some (linCmd Rat args)
  | "trim.F" => some (trimCmd Float args)
  | "trim.Q" => some (trimCmd Rat args)
  | _ => none

/-! ### clause-audit additions: volume metric (executable model), call sites, `-inf` log-weights -/

/-- split a flat row-major list into rows of length `d` (`n` rows) -/
def toRows {β : Type} (d : Nat) : Nat → List β → List (List β)
  | 0, _ => []
  | n + 1, l => l.take d :: toRows d n (l.drop d)

def showBranch : Model.VolVar.Branch → String
  | .tooFew => "tooFew"
  | .main => "main"
  | .ridge => "ridge"
  | .singular => "singular"

def getW (α : Type) [Codec α] (args : List (String × String)) : Option (Option (List α)) :=
  match getArg args "w" with
  | some "none" => some none
  | some s => (parseList? (Codec.parse (α := α)) s).map some
  | none => none

/-- the inverse the model used on the branch it took (for the harness to check `S · S⁻¹ = 1` exactly) -/
def usedInverse {α : Type} [Sc α] (d : Nat) (x : List (List α)) (w0 : Option (List α)) : Option (List (List α)) :=
  let w := normalise (match w0 with
    | none => List.replicate x.length Sc.one
    | some w => w)
  let xc := Model.VolVar.centre x (Model.VolVar.wmean d x w)
  let cov := Model.VolVar.wcov d xc w
  match Model.Student.inv cov with
  | some B => some B
  | none => Model.Student.inv (Model.VolVar.addRidge d cov (Sc.mul (Sc.lit 1 6) (Model.VolVar.trace cov)))

/-- `volvar.Q n=<nat> d=<nat> x=<n·d scalars, row major> w=<scalars|none>` → `<branch> <radicand> <inverse used, row major | ->` -/
def volvarQCmd (args : List (String × String)) : String :=
  match getNat args "n", getNat args "d", getList Rat args "x", getW Rat args with
  | some n, some d, some xs, some w0 =>
    let x := toRows d n xs
    let o := Model.VolVar.out d x w0
    let inv := if n < d + 1 then "-" else match usedInverse d x w0 with
      | some B => showList Codec.shw B.flatten
      | none => "-"
    s!"{showBranch o.branch} {Codec.shw o.radicand} {inv}"
  | _, _, _, _ => "bad-op"

/-- `volvar.F n= d= x= w=` → `<branch> <volume_variation>` -/
def volvarFCmd (args : List (String × String)) : String :=
  match getNat args "n", getNat args "d", getList Float args "x", getW Float args with
  | some n, some d, some xs, some w0 =>
    let x := toRows d n xs
    s!"{showBranch (Model.VolVar.out d x w0).branch} {showFloat (Model.VolVar.volvar d x w0)}"
  | _, _, _, _ => "bad-op"

/-- `cess.E logw=<floats, -inf allowed>` → `compute_ess` with `-inf ↦ none` | `none` -/
def cessECmd (args : List (String × String)) : String :=
  match getList Float args "logw" with
  | some l =>
    let lw : List (Option Float) := l.map fun v => if v == -(1.0 / 0.0) then none else some v
    match Model.TrimSites.computeEssE lw with
    | some v => showFloat v
    | none => "none"
  | none => "bad-op"

/-- `site.train betazero=<0|1> w=<scalars> ess=<scalar> bins=<nat>` (history rows are the tags `1000+i`) →
    `early <weights after>` | `fit <kept tags> <weights handed over> <weights after>` | `none` -/
def siteTrainCmd (α : Type) [Sc α] [Codec α] (args : List (String × String)) : String :=
  match getNat args "betazero", getList α args "w", (getArg args "ess").bind (Codec.parse (α := α)), getNat args "bins" with
  | some bz, some w, some e, some bins =>
    let u := (List.range w.length).map (· + 1000)
    match Model.TrimSites.trainerRun (bz == 1) u w e bins with
    | some (none, wa) => s!"early {showList Codec.shw wa}"
    | some (some (uk, wt), wa) => s!"fit {showList toString uk} {showList Codec.shw wt} {showList Codec.shw wa}"
    | none => "none"
  | _, _, _, _ => "bad-op"

/-- `site.metric vv=<0|1> n= d= x=<history rows> logw=<floats>` → `<weights> <ess> <metric>` | `none` -/
def siteMetricCmd (args : List (String × String)) : String :=
  match getNat args "vv", getNat args "n", getNat args "d", getList Float args "x", getList Float args "logw" with
  | some vv, some n, some d, some xs, some lw =>
    let u := toRows d n xs
    let f : Option (List (List Float) → List Float → Float) :=
      if vv == 1 then some (fun u w => Model.VolVar.volvar d u (some w)) else none
    match Model.TrimSites.metricAndWeights f u lw with
    | some (w, e, m) => s!"{showList showFloat w} {showFloat e} {showFloat m}"
    | none => "none"
  | _, _, _, _, _ => "bad-op"

def handle (cmd : String) (args : List (String × String)) : Option String :=
  match cmd with
  | "volvar.Q" => some (volvarQCmd args)
  | "volvar.F" => some (volvarFCmd args)
  | "cess.E" => some (cessECmd args)
  | "site.train.F" => some (siteTrainCmd Float args)
  | "site.train.Q" => some (siteTrainCmd Rat args)
  | "site.metric.F" => some (siteMetricCmd args)
  | _ => handle0 cmd args

end Drv.C20
