import TempestVerif.Drv.Util
import TempestVerif.Model.FS
import TempestVerif.Model.Checkpoint
import TempestVerif.Gen.Checkpoint
import TempestVerif.Gen.CheckpointSM
import TempestVerif.Gen.CheckpointCore
import TempestVerif.Model.Resume
import TempestVerif.Model.Cadence
/- line-protocol handlers of property C08 (checkpoints).

   fs.crash proto=<direct|temprename> old=<none|bytes> payload=<bytes>
       → the distinct contents under the final name over ALL crash states, sorted (by length, then lexicographically),
         joined by `|`; a content is `absent` or a byte list (`-` = empty file)
   fs.classify ops=<op;op;…> final=<name>      ops: mkdir:p open:p write:p:N flush:p fsync:p close:p rename:p:q
       → direct | temprename | none
   fs.shape ops=<op;op;…>                      → the trace with payloads forgotten and runs of writes merged (same syntax, no sizes)
   fs.gen                                      → shape=<generated saveOps> class=<…> load=<method> final=<0|1> pool=<0|1> smshape= smclass= smload= smtmp= smrename= smparents=
   fs.smtmp dir=<d|-> stem=<s> suffix=<.x|->   → tmp=<temporary name of StateManager.save_state> final=<path> same=<0|1>
   fs.smcrash dir= stem= suffix= old=<none|bytes> tmpold=<none|bytes> payload=<bytes>
       → crash contents under the final name of the program extracted from StateManager.save_state (format of fs.crash)
   sm.load [bcur= bhist=] bndim=<n> cur=<…|absent> hist=<…|absent> ndim=<n|absent> exclude=<k,k|->
       → `load_state` of the file written by `save_state(exclude)` (sections may also be absent outright) into the manager
         (bcur,bhist,bndim), or into a fresh `StateManager(bndim)` when bcur/bhist are not given; format of ckpt.roundtrip
   sm.fromdict cur=<…|absent> hist=<…|absent> ndim=<n|absent>   → `StateManager.from_dict(d)`
   ckpt.roundtrip cur=<k:v,…> hist=<k:v/v/…,…> ndim=<n>
       → `load fresh (save s)` through the model: cur=<…> hist=<…> ndim=<n>   (keys sorted)   or `error`
         values: N (None)  i<int>  r<bits>  a<tag>;   an empty history list is `k:-`
   ckpt.run cur=… hist=… ndim=… iters=<ncalls>;<k:v,…>|<ncalls>;<k:v,…>…
       → the state after running the iterations from the given state (same output format) or `error`
   ckpt.cadence t0=<int> k=<int> n=<nat>       → <periodic iteration numbers> final=<0|1>
   core.gen                                    → keys=<extra keys of the checkpoint dictionary> load=<key:guard:action;…> attrs=<self attributes of SamplerCore>
                                                 loadrnd=<np.random calls of load> epilogue=<…> ntotal=<0|1>   (all regenerated from core.py)
   core.roundtrip cur= hist= ndim= ntotal=<val|absent> logzerr=<val|absent> rng=<nat> fndim=<n> frng=<nat> fntotal=<val|absent>
                  flogzerr=<val|absent> [drop=<k,k>] [rngnone=1] [nT=<int> [manual=1 frs=<int>]]
       → `loadCore` (with nT: `prologueResume`; with manual=1: `loadCore` then `prologueRun` = load_state(); run()) of the fresh world (StateManager(fndim), generator frng, attributes fntotal/flogzerr,
         components "fresh") on `saveDict` of the written world (components "writer"); `drop` removes top-level keys (older files):
         <state> ntotal=<val|absent> logzerr=<val|absent> rng=<nat> comp=<fresh|writer> t0=<int>   or `error`
   resume.comp ce=<n> clustering=<0|1> iter0=<n> sched=<b,b,…> r=<n>
       → `same` | `differ` (clusterer fit/predict events of the run resumed before schedule position r vs the uninterrupted run;
         Model.Cadence) followed by verdict=<ok|bad>
   fs.samplercrash old=<none|bytes> tmpold=<none|bytes> payload=<bytes>
       → crash contents under the final name of `samplerSave` (format of fs.crash) then ` after=<final content>/<temp content>`
-/
namespace Drv.C08
open Drv

/-! ### file system -/
section fs
open Model.FS

def parseBytes? (s : String) : Option Bytes := parseNatList? s

def showContent : Option Bytes → String
  | none => "absent"
  | some b => showList toString b

def ltBytes : List Nat → List Nat → Bool
  | [], [] => false
  | [], _ => true
  | _, [] => false
  | a :: as, b :: bs => a < b || (a == b && ltBytes as bs)

/-- absent first, then by length, then lexicographically -/
def ltContent : Option Bytes → Option Bytes → Bool
  | none, none => false
  | none, some _ => true
  | some _, none => false
  | some a, some b => a.length < b.length || (a.length == b.length && ltBytes a b)

def insertSorted (x : Option Bytes) : List (Option Bytes) → List (Option Bytes)
  | [] => [x]
  | y :: r => if x == y then y :: r else if ltContent x y then x :: y :: r else y :: insertSorted x r

def canonical (l : List (Option Bytes)) : List (Option Bytes) := l.foldl (fun acc x => insertSorted x acc) []

def crashContents (proto : String) (old : Option Bytes) (payload : Bytes) : Option String :=
  let final := "final"
  let fs0 : FS := match old with | some b => [(final, b)] | none => []
  let ops? : Option (List FsOp) :=
    if proto == "direct" then some (direct final payload)
    else if proto == "temprename" then some (tempRename final payload) else none
  ops?.map fun ops => "|".intercalate ((canonical ((crashStates ops fs0).map (lookup final))).map showContent)

def parseOp? (s : String) : Option (FsOpOf Nat) :=
  match s.splitOn ":" with
  | ["mkdir", p] => some (.mkdir p)
  | ["open", p] => some (.openTrunc p)
  | ["write", p, n] => n.toNat?.map (.write p)
  | ["flush", p] => some (.flush p)
  | ["fsync", p] => some (.fsync p)
  | ["close", p] => some (.close p)
  | ["rename", p, q] => some (.rename p q)
  | _ => none

def parseOps? (s : String) : Option (List (FsOpOf Nat)) :=
  if s == "-" then some [] else (s.splitOn ";").mapM parseOp?

def showShapeOp : FsOpOf Unit → String
  | .mkdir p => s!"mkdir:{p}"
  | .openTrunc p => s!"open:{p}"
  | .write p _ => s!"write:{p}"
  | .flush p => s!"flush:{p}"
  | .fsync p => s!"fsync:{p}"
  | .close p => s!"close:{p}"
  | .rename p q => s!"rename:{p}:{q}"

def showShape (l : List (FsOpOf Unit)) : String :=
  if l.isEmpty then "-" else ";".intercalate (l.map showShapeOp)

def showProto : Option Protocol → String
  | some .direct => "direct"
  | some .tempRename => "temprename"
  | none => "none"

end fs

/-! ### state maps -/
section ckpt
open Model.Checkpoint

def parseVal? (s : String) : Option Val :=
  if s == "N" then some .none else
  match s.toList with
  | 'i' :: r => (String.ofList r).toInt?.map .int
  | 'r' :: r => (String.ofList r).toNat?.map .real
  | 'a' :: r => (String.ofList r).toNat?.map .arr
  | _ => none

def showVal : Val → String
  | .none => "N"
  | .int n => s!"i{n}"
  | .real b => s!"r{b}"
  | .arr t => s!"a{t}"

def parseCur? (s : String) : Option (List (Key × Val)) :=
  if s == "-" then some [] else
  (s.splitOn ",").mapM fun e => match e.splitOn ":" with
    | [k, v] => (parseVal? v).map fun v => (k, v)
    | _ => none

def parseHist? (s : String) : Option (List (Key × List Val)) :=
  if s == "-" then some [] else
  (s.splitOn ",").mapM fun e => match e.splitOn ":" with
    | [k, vs] => (if vs == "-" then some [] else (vs.splitOn "/").mapM parseVal?).map fun l => (k, l)
    | _ => none

def insertKey {β : Type} (x : Key × β) : List (Key × β) → List (Key × β)
  | [] => [x]
  | y :: r => if x.1 < y.1 then x :: y :: r else y :: insertKey x r

def sortKeys {β : Type} (l : List (Key × β)) : List (Key × β) := l.foldl (fun acc x => insertKey x acc) []

/-- one entry per key, as `lookup` reads them (first match), sorted by key -/
def normal {β : Type} (l : List (Key × β)) : List (Key × β) :=
  sortKeys ((l.map (·.1)).eraseDups.filterMap fun k => (lookup k l).map fun v => (k, v))

def showState (s : State) : String :=
  let cur := (normal s.current).map fun kv => s!"{kv.1}:{showVal kv.2}"
  let hist := (normal s.history).map fun kv => s!"{kv.1}:{if kv.2.isEmpty then "-" else "/".intercalate (kv.2.map showVal)}"
  s!"cur={if cur.isEmpty then "-" else ",".intercalate cur} hist={if hist.isEmpty then "-" else ",".intercalate hist} ndim={s.nDim}"

def parseState? (args : List (String × String)) : Option State :=
  match (getArg args "cur").bind parseCur?, (getArg args "hist").bind parseHist?, (getArg args "ndim").bind String.toNat? with
  | some c, some h, some n => some { current := c, history := h, nDim := n }
  | _, _, _ => none

def parseIter? (s : String) : Option StepIn :=
  match s.splitOn ";" with
  | [n, vals] => match n.toNat?, parseCur? vals with
    | some n, some v => some { nCalls := n, vals := v }
    | _, _ => none
  | _ => none

def parseIters? (s : String) : Option (List StepIn) :=
  if s == "-" then some [] else (s.splitOn "|").mapM parseIter?

end ckpt

def dashEmpty (s : String) : String := if s == "-" then "" else s

def parsePName? (args : List (String × String)) : Option Model.FS.PName :=
  match getArg args "dir", getArg args "stem", getArg args "suffix" with
  | some d, some st, some x => some ⟨dashEmpty d, st, dashEmpty x⟩
  | _, _, _ => none

def parseOptBytes? (s : Option String) : Option (Option Model.FS.Bytes) :=
  match s with
  | some "none" => some none
  | some s => (parseBytes? s).map some
  | none => none

/-- a section of the pickled dictionary: `absent`, or its content -/
def parseSection? {β : Type} (f : String → Option β) (s : Option String) : Option (Option β) :=
  match s with
  | some "absent" => some none
  | some s => (f s).map some
  | none => none

def parseDict? (args : List (String × String)) : Option Model.Checkpoint.Dict :=
  match parseSection? parseCur? (getArg args "cur"), parseSection? parseHist? (getArg args "hist"),
        parseSection? String.toNat? (getArg args "ndim") with
  | some c, some h, some n => some { cur := c, hist := h, nDim := n }
  | _, _, _ => none

/-- temporary name of StateManager.save_state as the extracted naming kind says: "append" = final ++ suffix (current code),
    anything else = the pre-fix `with_suffix` (suffix replaced) -/
def smTmp (n : Model.FS.PName) : Model.FS.Path :=
  if Gen.Checkpoint.smTmpNameKind == "append" then n.path ++ Gen.Checkpoint.smTmpSuffix
  else n.withSuffix Gen.Checkpoint.smTmpSuffix

def handle (cmd : String) (args : List (String × String)) : Option String :=
  match cmd with
  | "fs.smtmp" =>
    match parsePName? args with
    | some n =>
      let t := smTmp n
      some s!"tmp={t} final={n.path} same={showBool (t == n.path)}"
    | none => some "bad-op"
  | "fs.smcrash" =>
    match parsePName? args, parseOptBytes? (getArg args "old"), parseOptBytes? (getArg args "tmpold"), (getArg args "payload").bind parseBytes? with
    | some n, some old, some tmpold, some payload =>
      let t := smTmp n
      let fs0 : Model.FS.FS := (match old with | some b => [(n.path, b)] | none => []) ++
        (match tmpold with | some b => (if t == n.path then [] else [(t, b)]) | none => [])
      let ops := Model.FS.instantiate n.dir t n.path payload Gen.Checkpoint.stateManagerSave
      some ("|".intercalate ((canonical ((Model.FS.crashStates ops fs0).map (Model.FS.lookup n.path))).map showContent))
    | _, _, _, _ => some "bad-op"
  | "sm.load" =>
    match parseDict? args, (getArg args "bndim").bind String.toNat?, (getArg args "exclude").bind (parseList? some) with
    | some d, some bn, some ex =>
      let base? : Option Model.Checkpoint.State :=
        match getArg args "bcur", getArg args "bhist" with
        | none, none => some (Model.Checkpoint.init bn)
        | some c, some h => match parseCur? c, parseHist? h with
          | some c, some h => some { current := c, history := h, nDim := bn }
          | _, _ => none
        | _, _ => none
      match base? with
      | some base => some (showState (Model.Checkpoint.updateFromDict base (Model.Checkpoint.excludeDict ex d)))
      | none => some "bad-op"
    | _, _, _ => some "bad-op"
  | "sm.fromdict" =>
    match parseDict? args with
    | some d => some (showState (Model.Checkpoint.fromDict d))
    | none => some "bad-op"
  | "fs.crash" =>
    let old? : Option (Option Model.FS.Bytes) := match getArg args "old" with
      | some "none" => some none
      | some s => (parseBytes? s).map some
      | none => none
    match getArg args "proto", old?, (getArg args "payload").bind parseBytes? with
    | some proto, some old, some payload => some ((crashContents proto old payload).getD "bad-op")
    | _, _, _ => some "bad-op"
  | "fs.classify" =>
    match (getArg args "ops").bind parseOps?, getArg args "final" with
    | some ops, some final => some (showProto (Model.FS.classify ops final))
    | _, _ => some "bad-op"
  | "fs.shape" =>
    match (getArg args "ops").bind parseOps? with
    | some ops => some (showShape (Model.FS.mergeWrites (Model.FS.shapeOf ops)))
    | none => some "bad-op"
  | "fs.gen" =>
    some s!"shape={showShape (Model.FS.mergeWrites Gen.Checkpoint.saveOps)} class={showProto (Model.FS.classify Gen.Checkpoint.saveOps "final")} load={Gen.Checkpoint.loadMethod} final={showBool Gen.Checkpoint.finalSave} pool={showBool (Gen.Checkpoint.poolDetached && Gen.Checkpoint.poolReattachInFinally)} smshape={showShape (Model.FS.mergeWrites Gen.Checkpoint.stateManagerSave)} smclass={showProto (Model.FS.classify Gen.Checkpoint.stateManagerSave "final")} smload={Gen.Checkpoint.smLoadMethod} smtmp={Gen.Checkpoint.smTmpNameKind}:{Gen.Checkpoint.smTmpSuffix} smrename={Gen.Checkpoint.smRenameCall} smparents={showBool Gen.Checkpoint.smMkdirParents}"
  | "ckpt.roundtrip" =>
    match parseState? args with
    | some s =>
      -- `dec (enc d) = some d` (dill, trusted): the round trip through the bytes is the identity on the dictionary
      match Model.Checkpoint.loadDict (Model.Checkpoint.init 1) (Model.Checkpoint.toDict s) with
      | some s' => some (showState s')
      | none => some "error"
    | none => some "bad-op"
  | "ckpt.run" =>
    match parseState? args, (getArg args "iters").bind parseIters? with
    | some s, some is =>
      match Model.Checkpoint.runIters s is with
      | some s' => some (showState s')
      | none => some "error"
    | _, _ => some "bad-op"
  | "ckpt.cadence" =>
    match (getArg args "t0").bind String.toInt?, (getArg args "k").bind String.toInt?, (getArg args "n").bind String.toNat? with
    | some t0, some k, some n =>
      if k ≤ 0 then some "bad-op" else
      some s!"{showList toString (Model.Checkpoint.periodicSaves t0 k n)} final={showBool Gen.Checkpoint.finalSave}"
    | _, _, _ => some "bad-op"
  | "core.gen" =>
    let lt := ";".intercalate (Gen.Checkpoint.loadTable.map fun e => s!"{e.1}:{e.2.1}:{e.2.2}")
    some s!"keys={",".intercalate (Gen.Checkpoint.ckptExtraKeys.map (·.1))} load={lt} attrs={",".intercalate Gen.Checkpoint.coreSelfAttrs} loadrnd={",".intercalate Gen.Checkpoint.loadRandomCalls} epilogue={",".intercalate Gen.Checkpoint.runEpilogueOrder} ntotal={showBool Gen.Checkpoint.runNTotalAssign} loadreads={",".intercalate Gen.Checkpoint.loadKeysRead}"
  | "core.roundtrip" =>
    let attr? (k : String) : Option (Option Model.Checkpoint.Val) :=
      match getArg args k with
      | some "absent" => some none
      | some v => (parseVal? v).map some
      | none => none
    match parseState? args, attr? "ntotal", attr? "logzerr", (getArg args "rng").bind String.toNat?,
          (getArg args "fndim").bind String.toNat?, (getArg args "frng").bind String.toNat?, attr? "fntotal", attr? "flogzerr" with
    | some s, some nt, some le, some g, some fn, some fg, some fnt, some fle =>
      let w : Model.Resume.World Nat String := ⟨⟨s, "writer", none, nt, le, 0⟩, g⟩
      let frs : Option Int := (getArg args "frs").bind String.toInt?
      let f : Model.Resume.World Nat String := ⟨⟨Model.Checkpoint.init fn, "fresh", frs, fnt, fle, 0⟩, fg⟩
      let d0 : Model.Resume.CkDict Nat Unit := Model.Resume.saveDict (fun _ => ()) w
      let drop : List String := ((getArg args "drop").bind (parseList? some)).getD []
      let d1 : Model.Resume.CkDict Nat Unit :=
        { d0 with nTotal := if drop.contains "n_total" then none else d0.nTotal
                  logzErr := if drop.contains "logz_err" then none else d0.logzErr
                  rngState := if drop.contains "rng_state" then none else
                              (if getArg args "rngnone" == some "1" then some none else d0.rngState)
                  sampler := if drop.contains "sampler" then none else d0.sampler
                  randomState := if drop.contains "random_state" then none else d0.randomState }
      let r? := match (getArg args "nT").bind String.toInt? with
        | some nT =>
          if getArg args "manual" == some "1" then
            -- `load_state(path); run(n_total=nT)`: a reseed would show as generator 1000000 + random_state
            (Model.Resume.loadCore f d1).bind fun w1 => Model.Resume.prologueRun (fun r => 1000000 + r.toNat) w1 nT
          else Model.Resume.prologueResume f d1 nT
        | none => Model.Resume.loadCore f d1
      match r? with
      | some r =>
        let sv : Option Model.Checkpoint.Val → String := fun a => match a with | some v => showVal v | none => "absent"
        some s!"{showState r.core.sm} ntotal={sv r.core.nTotal} logzerr={sv r.core.logzErr} rng={r.rng} comp={r.core.comp} t0={r.core.t0}"
      | none => some "error"
    | _, _, _, _, _, _, _, _ => some "bad-op"
  | "resume.comp" =>
    match (getArg args "ce").bind String.toNat?, getArg args "clustering", (getArg args "iter0").bind String.toNat?,
          (getArg args "sched").bind (parseList? fun b => if b == "1" then some true else if b == "0" then some false else none),
          (getArg args "r").bind String.toNat? with
    | some ce, some cl, some i0, some sched, some r =>
      if ce == 0 then some "bad-op" else
      let c : Model.Cadence.Cfg := { clusterEvery := ce, clustering := cl == "1", useFlag := true }
      let a := Model.Cadence.run c i0 (Model.Cadence.withResume sched (some r))
      let b := Model.Cadence.run c i0 (Model.Cadence.withResume sched none)
      let nf : List Model.Cadence.Event → List Model.Cadence.Event := fun t => t.filter (· != Model.Cadence.Event.fresh)
      let same := nf a.trace == nf b.trace
      let ok := a.verdict == Model.Cadence.Verdict.ok && b.verdict == Model.Cadence.Verdict.ok
      some s!"{if same then "same" else "differ"} verdict={if ok then "ok" else "bad"}"
    | _, _, _, _, _ => some "bad-op"
  | "fs.samplercrash" =>
    match parseOptBytes? (getArg args "old"), parseOptBytes? (getArg args "tmpold"), (getArg args "payload").bind parseBytes? with
    | some old, some tmpold, some payload =>
      let final := "d/final"
      let fs0 : Model.FS.FS := (match old with | some b => [(final, b)] | none => []) ++
        (match tmpold with | some b => [(Model.FS.tmpOf final, b)] | none => [])
      let ops := Model.FS.samplerSave "d/" final payload
      let fin := Model.FS.run fs0 ops
      some ("|".intercalate ((canonical ((Model.FS.crashStates ops fs0).map (Model.FS.lookup final))).map showContent)
            ++ s!" after={showContent (Model.FS.lookup final fin)}/{showContent (Model.FS.lookup (Model.FS.tmpOf final) fin)}")
    | _, _, _ => some "bad-op"
  | _ => none

end Drv.C08
