import TempestVerif.Drv.Util
import TempestVerif.Model.Kernel
/-
  line-protocol handlers of property C03 (Float only: the kernels use sqrt/log/exp)

    kstep.F kind=<tpcn|rwm> d=<1..> u=<floats> mu=<floats> chol=<rows ; separated> invcov=<rows> nu=<f> sigma=<f>
            beta=<f> l=<f> lp=<f> g=<f> r=<f> z=<normal vector> per=<nats> refl=<nats>
        -> `<shape> <scale> <s> <draws> <candidate> <in_bounds 0|1> <proposal passed on> <dot> <dotp> <factor> <alpha> <accept 0|1> <new u>`
    adapt.F kind=<tpcn|rwm> sigma=<f> iter=<f> acc=<f> sigma0=<f>   -> `<new sigma>`
  Matrices / tapes: rows separated by `;`, entries by `,`.  Shapes are validated (`bad-op` otherwise).
-/
namespace Drv.C03
open Drv Model.Kernel

def parseRows? (s : String) : Option (List (List Float)) :=
  if s.isEmpty || s == "-" then some [] else (s.splitOn ";").mapM (parseList? parseFloat?)

def fArg (args : List (String × String)) (k : String) : Option Float := (getArg args k).bind parseFloat?
def vArg (args : List (String × String)) (k : String) : Option (List Float) := (getArg args k).bind (parseList? parseFloat?)
def mArg (args : List (String × String)) (k : String) : Option (List (List Float)) := (getArg args k).bind parseRows?

def kindArg (args : List (String × String)) : Option Kind :=
  match getArg args "kind" with
  | some "tpcn" => some .tpcn
  | some "rwm" => some .rwm
  | _ => none

def square (d : Nat) (m : List (List Float)) : Bool := m.length == d && m.all (·.length == d)

def kstep (args : List (String × String)) : Option String := do
  let kind ← kindArg args
  let d ← (getArg args "d").bind String.toNat?
  let u ← vArg args "u"
  let mu ← vArg args "mu"
  let chol ← mArg args "chol"
  let invcov ← mArg args "invcov"
  let z ← vArg args "z"
  let per ← (getArg args "per").bind parseNatList?
  let refl ← (getArg args "refl").bind parseNatList?
  let nu ← fArg args "nu"
  let sigma ← fArg args "sigma"
  let beta ← fArg args "beta"
  let l ← fArg args "l"
  let lp ← fArg args "lp"
  let g ← fArg args "g"
  let r ← fArg args "r"
  if d == 0 || u.length != d || mu.length != d || !square d chol || !square d invcov || z.length != d
      || !per.all (· < d) || !refl.all (· < d) then none
  else
    let o := step (α := Float) { kind, u, mu, chol, invcov, nu, sigma, beta, l, lp, g, r, z, per, refl }
    some (s!"{showFloat o.shape} {showFloat o.scale} {showFloat o.s} {o.draws} {showList showFloat o.cand} {showBool o.inb} " ++
          s!"{showList showFloat o.prop} {showFloat o.dot} {showFloat o.dotp} {showFloat o.factor} {showFloat o.alpha} " ++
          s!"{showBool o.accept} {showList showFloat o.newU}")

def adapt (args : List (String × String)) : Option String := do
  let kind ← kindArg args
  let sigma ← fArg args "sigma"
  let iter ← fArg args "iter"
  let acc ← fArg args "acc"
  let sigma0 ← fArg args "sigma0"
  match kind with
  | .tpcn => some (showFloat (tpcnAdapt sigma iter acc sigma0))
  | .rwm => some (showFloat (rwmAdapt sigma iter acc sigma0))

def handle (cmd : String) (args : List (String × String)) : Option String :=
  match cmd with
  | "kstep.F" => some ((kstep args).getD "bad-op")
  | "adapt.F" => some ((adapt args).getD "bad-op")
  | _ => none

end Drv.C03
