import TempestVerif.Drv.Util
import TempestVerif.Model.Kernel
import TempestVerif.Model.KernelRun
import TempestVerif.Drv.C03Modes
/-
  line-protocol handlers of property C03 (Float only: the kernels use sqrt/log/exp)

    kstep.F kind=<tpcn|rwm> d=<1..> u=<floats> mu=<floats> chol=<rows ; separated> invcov=<rows> nu=<f> sigma=<f>
            beta=<f> l=<f> lp=<f> g=<f> r=<f> z=<normal vector> per=<nats> refl=<nats>
        -> `<shape> <scale> <s> <draws> <candidate> <in_bounds 0|1> <proposal passed on> <dot> <dotp> <factor> <alpha> <accept 0|1> <new u>`
    adapt.F kind=<tpcn|rwm> sigma=<f> iter=<f> acc=<f> sigma0=<f>   -> `<new sigma>`
    krun.F kind=<tpcn|rwm> d=<n> mus=<K rows> chols=<K matrices separated by |> invcovs=<K matrices> nus=<K floats>
           sigmas=<K floats> beta=<f> iter=<f> sigma0=<f> per=<nats> refl=<nats>
           us=<n rows> assign=<n nats> ls=<n floats> lps=<n floats> gs=<n floats> rs=<n floats> zs=<n rows>
        -> `<walker 0 result>|<walker 1 result>|... <new sigmas>`  (walker results as for kstep.F, blanks replaced by `/`)
           or `IndexError` when an assignment is not a valid mode index
  Matrices / tapes: rows separated by `;`, entries by `,`.  Shapes are validated (`bad-op` otherwise).

    c03run.F sample=<token> d=<n_dim> mus= chols= invcovs= nus=  (as krun.F)  beta=<f> per=<nats> refl=<nats> nsteps=<nat> nmax=<nat>
             us=<n rows> xs=<n rows> assign=<n nats> ls=<n floats>
             gs=<T rows of n> rs=<T rows of n> lps=<T rows of n> zs=<T blocks of n rows, blocks separated by |> xps=<T blocks>
        the WHOLE call `parallel_mcmc(..., sample=…)` of Model.KernelRun (constructor, run loop with the T tapes as fuel, stopping
        rule, return values)
        -> `<done|outOfTape|indexError> <iteration> <n_calls> <efficiency> <acceptance> <final sigmas> <final u rows> <final x rows>
            <final logl> <final assignments> <sigma_0> <P>` followed by P tokens, one per executed pass, fields separated by `/`:
           `<sigmas used>/<alphas>/<accept bits>/<in_bounds bits>/<new u rows>/<current_acceptance>/<weighted_sigma>/
            <adaptive_steps>/<stop 0|1>/<adapted sigmas>/<the value int(...) is applied to>`
-/
namespace Drv.C03
open Drv Model.Kernel

def parseRows? (s : String) : Option (List (List Float)) :=
  if s.isEmpty || s == "-" then some [] else (s.splitOn ";").mapM (parseList? parseFloat?)

def fArg (args : List (String × String)) (k : String) : Option Float := (getArg args k).bind parseFloat?
def vArg (args : List (String × String)) (k : String) : Option (List Float) := (getArg args k).bind (parseList? parseFloat?)
def mArg (args : List (String × String)) (k : String) : Option (List (List Float)) := (getArg args k).bind parseRows?

def kindArg (args : List (String × String)) : Option Kind :=
  match getArg args "kind" with
  | some "tpcn" => some .tpcn
  | some "rwm" => some .rwm
  | _ => none

def square (d : Nat) (m : List (List Float)) : Bool := m.length == d && m.all (·.length == d)

def showStep (o : StepOut Float) (sep : String) : String :=
  sep.intercalate [showFloat o.shape, showFloat o.scale, showFloat o.s, toString o.draws, showList showFloat o.cand,
    showBool o.inb, showList showFloat o.prop, showFloat o.dot, showFloat o.dotp, showFloat o.factor, showFloat o.alpha,
    showBool o.accept, showList showFloat o.newU]

def kstep (args : List (String × String)) : Option String := do
  let kind ← kindArg args
  let d ← (getArg args "d").bind String.toNat?
  let u ← vArg args "u"
  let mu ← vArg args "mu"
  let chol ← mArg args "chol"
  let invcov ← mArg args "invcov"
  let z ← vArg args "z"
  let per ← (getArg args "per").bind parseNatList?
  let refl ← (getArg args "refl").bind parseNatList?
  let nu ← fArg args "nu"
  let sigma ← fArg args "sigma"
  let beta ← fArg args "beta"
  let l ← fArg args "l"
  let lp ← fArg args "lp"
  let g ← fArg args "g"
  let r ← fArg args "r"
  if d == 0 || u.length != d || mu.length != d || !square d chol || !square d invcov || z.length != d
      || !per.all (· < d) || !refl.all (· < d) then none
  else
    let o := step (α := Float) { kind, u, mu, chol, invcov, nu, sigma, beta, l, lp, g, r, z, per, refl }
    some (showStep o " ")

def parseMats? (s : String) : Option (List (List (List Float))) :=
  if s.isEmpty || s == "-" then some [] else (s.splitOn "|").mapM parseRows?

def zip7 : List (List Float) → List Nat → List Float → List Float → List Float → List Float → List (List Float)
    → List (Walker Float)
  | u :: us, a :: as, l :: ls, lp :: lps, g :: gs, r :: rs, z :: zs =>
    { u, assign := a, l, lp, g, r, z } :: zip7 us as ls lps gs rs zs
  | _, _, _, _, _, _, _ => []

def krun (args : List (String × String)) : Option String := do
  let kind ← kindArg args
  let d ← (getArg args "d").bind String.toNat?
  let mus ← mArg args "mus"
  let chols ← (getArg args "chols").bind parseMats?
  let invcovs ← (getArg args "invcovs").bind parseMats?
  let nus ← vArg args "nus"
  let sigmas ← vArg args "sigmas"
  let beta ← fArg args "beta"
  let iter ← fArg args "iter"
  let sigma0 ← fArg args "sigma0"
  let per ← (getArg args "per").bind parseNatList?
  let refl ← (getArg args "refl").bind parseNatList?
  let us ← mArg args "us"
  let assign ← (getArg args "assign").bind parseNatList?
  let ls ← vArg args "ls"
  let lps ← vArg args "lps"
  let gs ← vArg args "gs"
  let rs ← vArg args "rs"
  let zs ← mArg args "zs"
  let K := mus.length
  let n := us.length
  if d == 0 || K == 0 || chols.length != K || invcovs.length != K || nus.length != K || sigmas.length != K
      || !mus.all (·.length == d) || !chols.all (square d) || !invcovs.all (square d)
      || assign.length != n || ls.length != n || lps.length != n || gs.length != n || rs.length != n || zs.length != n
      || !us.all (·.length == d) || !zs.all (·.length == d) || !per.all (· < d) || !refl.all (· < d) then none
  else
    let modes : List (Mode Float) :=
      (List.zip (List.zip mus chols) (List.zip invcovs nus)).map fun p =>
        { mu := p.1.1, chol := p.1.2, invcov := p.2.1, nu := p.2.2 }
    let i : RunIn Float := { kind, modes, sigmas, beta, per, refl, iter, sigma0,
                             walkers := zip7 us assign ls lps gs rs zs }
    match runStep i with
    | none => some "IndexError"
    | some (outs, sig) => some (s!"{"|".intercalate (outs.map (showStep · "/"))} {showList showFloat sig}")

def adapt (args : List (String × String)) : Option String := do
  let kind ← kindArg args
  let sigma ← fArg args "sigma"
  let iter ← fArg args "iter"
  let acc ← fArg args "acc"
  let sigma0 ← fArg args "sigma0"
  match kind with
  | .tpcn => some (showFloat (tpcnAdapt sigma iter acc sigma0))
  | .rwm => some (showFloat (rwmAdapt sigma iter acc sigma0))

/-! ### the run loop (`c03run.F`) -/
section RunLoop
open Model.KernelRun

def showRows (m : List (List Float)) : String :=
  if m.isEmpty then "-" else ";".intercalate (m.map (showList showFloat))

def zipDraws : List Float → List (List Float) → List (List Float) → List Float → List Float → List (Draw Float)
  | g :: gs, z :: zs, xp :: xps, lp :: lps, r :: rs => { g, z, xp, lp, r } :: zipDraws gs zs xps lps rs
  | _, _, _, _, _ => []

def zipTapes : List (List Float) → List (List (List Float)) → List (List (List Float)) → List (List Float) → List (List Float)
    → List (List (Draw Float))
  | g :: gs, z :: zs, xp :: xps, lp :: lps, r :: rs => zipDraws g z xp lp r :: zipTapes gs zs xps lps rs
  | _, _, _, _, _ => []

def showRec (c : Config Float) (r : IterRec Float) : String :=
  "/".intercalate [showList showFloat r.pre.sigmas, showList showFloat (r.outs.map (·.alpha)),
    showList showBool (r.outs.map (·.accept)), showList showBool (r.outs.map (·.inb)), showRows r.post.u,
    showFloat r.curAcc, showFloat r.wsigma, showFloat r.steps, showBool r.stop, showList showFloat r.post.sigmas,
    showFloat (boundedSteps c.nSteps c.nDim c.nMax r.curAcc r.wsigma (Model.KernelRun.sigma0 (α := Float) c.nDim))]

def c03run (args : List (String × String)) : Option String := do
  let sample ← getArg args "sample"
  let d ← (getArg args "d").bind String.toNat?
  let mus ← mArg args "mus"
  let chols ← (getArg args "chols").bind parseMats?
  let invcovs ← (getArg args "invcovs").bind parseMats?
  let nus ← vArg args "nus"
  let beta ← fArg args "beta"
  let per ← (getArg args "per").bind parseNatList?
  let refl ← (getArg args "refl").bind parseNatList?
  let nSteps ← (getArg args "nsteps").bind String.toNat?
  let nMax ← (getArg args "nmax").bind String.toNat?
  let us ← mArg args "us"
  let xs ← mArg args "xs"
  let assign ← (getArg args "assign").bind parseNatList?
  let ls ← vArg args "ls"
  let gs ← mArg args "gs"
  let rs ← mArg args "rs"
  let lps ← mArg args "lps"
  let zs ← (getArg args "zs").bind parseMats?
  let xps ← (getArg args "xps").bind parseMats?
  let K := mus.length
  let n := us.length
  let T := gs.length
  if d == 0 || K == 0 || n == 0 || chols.length != K || invcovs.length != K || nus.length != K
      || !mus.all (·.length == d) || !chols.all (square d) || !invcovs.all (square d)
      || xs.length != n || assign.length != n || ls.length != n || !us.all (·.length == d) || !xs.all (·.length == d)
      || rs.length != T || lps.length != T || zs.length != T || xps.length != T
      || !gs.all (·.length == n) || !rs.all (·.length == n) || !lps.all (·.length == n)
      || !zs.all (fun b => b.length == n && b.all (·.length == d))
      || !xps.all (fun b => b.length == n && b.all (·.length == d))
      || !per.all (· < d) || !refl.all (· < d) then none
  else
    let modes : List (Mode Float) :=
      (List.zip (List.zip mus chols) (List.zip invcovs nus)).map fun p =>
        { mu := p.1.1, chol := p.1.2, invcov := p.2.1, nu := p.2.2 }
    let a : Args Float := { u := us, x := xs, logl := ls, assign, beta, modes, nSteps, nMax, per, refl }
    let (c, o) := parallelMcmc sample a (zipTapes gs zs xps lps rs)
    let res := result c o.final
    let st := match o.status with
      | .done => "done"
      | .outOfTape => "outOfTape"
      | .indexError => "indexError"
    let head := [st, toString res.iteration, toString res.nCalls, showFloat res.efficiency, showFloat res.acceptance,
      showList showFloat o.final.sigmas, showRows res.u, showRows res.x, showList showFloat res.logl,
      showList toString o.final.assign, showFloat (Model.KernelRun.sigma0 (α := Float) c.nDim), toString o.recs.length]
    some (" ".intercalate (head ++ o.recs.map (showRec c)))

end RunLoop

def handle (cmd : String) (args : List (String × String)) : Option String :=
  match cmd with
  | "kstep.F" => some ((kstep args).getD "bad-op")
  | "adapt.F" => some ((adapt args).getD "bad-op")
  | "krun.F" => some ((krun args).getD "bad-op")
  | "c03run.F" => some ((c03run args).getD "bad-op")
  | _ => Drv.C03Modes.handle cmd args

end Drv.C03
