import TempestVerif.Drv.Util
import TempestVerif.Model.Weights
/-
  line-protocol handlers of property C04
    logw.F beta=<f> norm=<0|1> h=<batch>;<batch>;…     batch = <beta_t>:<logz_t>:<l1>,<l2>,…   (`h=-` = empty history)
        →  `<logw list> <logz | none>`
    lae.F a=<f> b=<f>                                   →  `<logaddexp a b>`
    laered.F x=<list>                                   →  `<logaddexp.reduce x | none>`
  floats are 16-hex-digit IEEE bit patterns.
-/
namespace Drv.C04
open Drv Model.Weights

def parseBatch? (s : String) : Option (Batch Float) :=
  match s.splitOn ":" with
  | [b, z, ls] =>
    match parseFloat? b, parseFloat? z, parseList? parseFloat? ls with
    | some b, some z, some ls => some ⟨b, z, ls⟩
    | _, _, _ => none
  | _ => none

def parseHistory? (s : String) : Option (List (Batch Float)) :=
  if s == "-" then some [] else (s.splitOn ";").mapM parseBatch?

def showOpt (o : Option Float) : String :=
  match o with
  | some z => showFloat z
  | none => "none"

def logwF (args : List (String × String)) : String :=
  match (getArg args "beta").bind parseFloat?, getArg args "norm", (getArg args "h").bind parseHistory? with
  | some beta, some nrm, some h =>
    if nrm != "0" && nrm != "1" then "bad-op" else
    let r := logw h beta (nrm == "1")
    s!"{showList showFloat r.1} {showOpt r.2}"
  | _, _, _ => "bad-op"

def laeF (args : List (String × String)) : String :=
  match (getArg args "a").bind parseFloat?, (getArg args "b").bind parseFloat? with
  | some a, some b => showFloat (logaddexp a b)
  | _, _ => "bad-op"

def laeredF (args : List (String × String)) : String :=
  match (getArg args "x").bind (parseList? parseFloat?) with
  | some x => showOpt (logaddexpReduce x)
  | none => "bad-op"

def handle (cmd : String) (args : List (String × String)) : Option String :=
  match cmd with
  | "logw.F" => some (logwF args)
  | "lae.F" => some (laeF args)
  | "laered.F" => some (laeredF args)
  | _ => none

end Drv.C04
