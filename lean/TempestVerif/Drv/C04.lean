import TempestVerif.Drv.Util
import TempestVerif.Model.Weights
import TempestVerif.Model.WeightsKeys
/-
  line-protocol handlers of property C04
    logw.F beta=<f> norm=<0|1> h=<batch>;<batch>;…     batch = <beta_t>:<logz_t>:<l1>,<l2>,…   (`h=-` = empty history)
        →  `<logw list> <logz | none>`
    lae.F a=<f> b=<f>                                   →  `<logaddexp a b>`
    laered.F x=<list>                                   →  `<logaddexp.reduce x | none>`
    c04k.F beta=<f> norm=<0|1> kb=<list> kz=<list> kl=<arr>/<arr>/…     the three per-key history lists (`kl=~` = no array; an
        empty array is `-`)  →  `ok <logw list> <logz | none>` | `ValueError` | `IndexError` | `outside`
    c04ops.F ops=<op>;<op>;…      a call sequence on a fresh manager (Model.WeightsKeys.runOps); ops:
        sb:<f|N>  sz:<f|N>  sl:<list|N>  c  r  x  w:<beta>:<0|1>  u:<kb>|<kz>|<kl>
        →  one token per observing op (`r`, `w`), joined by `;`:  `R:raised` | `R:nologw` | `R:outside` | `R:<list>` | `W:<c04k.F answer with _ for space>`
  floats are 16-hex-digit IEEE bit patterns.
-/
namespace Drv.C04
open Drv Model.Weights

def parseBatch? (s : String) : Option (Batch Float) :=
  match s.splitOn ":" with
  | [b, z, ls] =>
    match parseFloat? b, parseFloat? z, parseList? parseFloat? ls with
    | some b, some z, some ls => some ⟨b, z, ls⟩
    | _, _, _ => none
  | _ => none

def parseHistory? (s : String) : Option (List (Batch Float)) :=
  if s == "-" then some [] else (s.splitOn ";").mapM parseBatch?

def showOpt (o : Option Float) : String :=
  match o with
  | some z => showFloat z
  | none => "none"

def logwF (args : List (String × String)) : String :=
  match (getArg args "beta").bind parseFloat?, getArg args "norm", (getArg args "h").bind parseHistory? with
  | some beta, some nrm, some h =>
    if nrm != "0" && nrm != "1" then "bad-op" else
    let r := logw h beta (nrm == "1")
    s!"{showList showFloat r.1} {showOpt r.2}"
  | _, _, _ => "bad-op"

def laeF (args : List (String × String)) : String :=
  match (getArg args "a").bind parseFloat?, (getArg args "b").bind parseFloat? with
  | some a, some b => showFloat (logaddexp a b)
  | _, _ => "bad-op"

def laeredF (args : List (String × String)) : String :=
  match (getArg args "x").bind (parseList? parseFloat?) with
  | some x => showOpt (logaddexpReduce x)
  | none => "bad-op"

/-! key-level model (second clause pass) -/
open Model.WeightsKeys in
def parseArrays? (s : String) : Option (List (List Float)) :=
  if s == "~" then some [] else (s.splitOn "/").mapM (parseList? parseFloat?)

open Model.WeightsKeys in
def showOut (o : Out Float) (sep : String) : String :=
  match o with
  | .ok w z => s!"ok{sep}{showList showFloat w}{sep}{showOpt z}"
  | .valueError => "ValueError"
  | .indexError => "IndexError"
  | .outside => "outside"

open Model.WeightsKeys in
def c04kF (args : List (String × String)) : String :=
  match (getArg args "beta").bind parseFloat?, getArg args "norm", (getArg args "kb").bind (parseList? parseFloat?),
        (getArg args "kz").bind (parseList? parseFloat?), (getArg args "kl").bind parseArrays? with
  | some beta, some nrm, some kb, some kz, some kl =>
    if nrm != "0" && nrm != "1" then "bad-op" else showOut (logwK ⟨kb, kz, kl⟩ beta (nrm == "1")) " "
  | _, _, _, _, _ => "bad-op"

def parseOptFloat? (s : String) : Option (Option Float) :=
  if s == "N" then some none else (parseFloat? s).map some

open Model.WeightsKeys in
def parseOp? (s : String) : Option (Op Float) :=
  match s.splitOn ":" with
  | ["c"] => some .commit
  | ["r"] => some .results
  | ["x"] => some .roundtrip
  | ["sb", v] => (parseOptFloat? v).map .setBeta
  | ["sz", v] => (parseOptFloat? v).map .setLogz
  | ["sl", v] => if v == "N" then some (.setLogl none) else (parseList? parseFloat? v).map fun l => .setLogl (some l)
  | ["w", b, n] => if n != "0" && n != "1" then none else (parseFloat? b).map fun b => .weights b (n == "1")
  | ["u", v] =>
    match v.splitOn "|" with
    | [kb, kz, kl] =>
      match parseList? parseFloat? kb, parseList? parseFloat? kz, parseArrays? kl with
      | some kb, some kz, some kl => some (.load ⟨kb, kz, kl⟩)
      | _, _, _ => none
    | _ => none
  | _ => none

open Model.WeightsKeys in
def showObs (o : Obs Float) : String :=
  match o with
  | .res .raised => "R:raised"
  | .res (.dict .nologw) => "R:nologw"
  | .res (.dict .outside) => "R:outside"
  | .res (.dict (.logw w)) => s!"R:{showList showFloat w}"
  | .out r => s!"W:{showOut r "_"}"

open Model.WeightsKeys in
def c04opsF (args : List (String × String)) : String :=
  match (getArg args "ops").bind fun s => (s.splitOn ";").mapM parseOp? with
  | some ops =>
    let r := runOps (SMK.init : SMK Float) ops
    if r.2.isEmpty then "-" else ";".intercalate (r.2.map showObs)
  | none => "bad-op"

def handle (cmd : String) (args : List (String × String)) : Option String :=
  match cmd with
  | "logw.F" => some (logwF args)
  | "lae.F" => some (laeF args)
  | "laered.F" => some (laeredF args)
  | "c04k.F" => some (c04kF args)
  | "c04ops.F" => some (c04opsF args)
  | _ => none

end Drv.C04
