import TempestVerif.Drv.Util
import TempestVerif.Model.Resample
/-
  line-protocol handlers of property C06
    syst.Q n=<nat> w=<rats> u0=<rat>                 (s = exact sum of w)
    syst.Q n=<nat> s=<rat> w=<rats> u0=<rat>         (s given)
    syst.F n=<nat> s=<float: np.sum(w)> w=<floats> u0=<float>
    systnp.F / systnp.Q n=<nat> w=<scalars> u0=<scalar>   (np.sum modelled: pairwise summation)
    npsum.F / npsum.Q w=<scalars>                         (the modelled np.sum alone)
    run.F / run.Q beta0=<0|1> scheme=<mult|syst|other> n=<nat> w=<scalars> u0=<scalar> us=<scalars>   (Resampler.run)
    post.F / post.Q w=<scalars> u0=<scalar>                                                            (posterior, resample branch)
    mult.Q / mult.F  w=<scalars> us=<scalars>
  answer: comma-separated index list (`-` = empty) or the error tag `IndexError` / `ValueError`.
-/
namespace Drv.C06
open Drv Model.Resample

def showIdx (r : Option (List Nat)) (err : String) : String :=
  match r with
  | some l => showList toString l
  | none => err

def syst (α : Type) [Sc α] [Codec α] (args : List (String × String)) : String :=
  match (getArg args "n").bind String.toNat?,
        (getArg args "w").bind (parseList? (Codec.parse (α := α))),
        (getArg args "u0").bind (Codec.parse (α := α)) with
  | some n, some w, some u0 =>
    match getArg args "s" with
    | none => showIdx (systematic n w u0) "IndexError"
    | some ss =>
      match Codec.parse (α := α) ss with
      | some s => showIdx (systematicWith s n w u0) "IndexError"
      | none => "bad-op"
  | _, _, _ => "bad-op"

/-- `npsum.F w=<floats>` → the model of `np.sum(w)` -/
def npsum (α : Type) [Sc α] [Codec α] (args : List (String × String)) : String :=
  match (getArg args "w").bind (parseList? (Codec.parse (α := α))) with
  | some w => Codec.shw (npSum w)
  | none => "bad-op"

/-- `systnp.F n= w= u0=` → `systematic_resample` with the modelled `np.sum` -/
def systnp (α : Type) [Sc α] [Codec α] (args : List (String × String)) : String :=
  match (getArg args "n").bind String.toNat?,
        (getArg args "w").bind (parseList? (Codec.parse (α := α))),
        (getArg args "u0").bind (Codec.parse (α := α)) with
  | some n, some w, some u0 => showIdx (systematicNp n w u0) "IndexError"
  | _, _, _ => "bad-op"

def mult (α : Type) [Sc α] [Codec α] (args : List (String × String)) : String :=
  match (getArg args "w").bind (parseList? (Codec.parse (α := α))),
        (getArg args "us").bind (parseList? (Codec.parse (α := α))) with
  | some w, some us => showIdx (multinomial w us) "ValueError"
  | _, _ => "bad-op"

def showRun : RunResult → String
  | .skipped => "skip"
  | .indices idx => showList toString idx
  | .indexError => "IndexError"
  | .valueError => "ValueError"
  | .unbound => "UnboundLocalError"

/-- `run.F beta0=<0|1> scheme=<mult|syst|…> n=<nat> w=<floats> u0=<float> us=<floats>` → what `Resampler.run` gathers with -/
def runCmd (α : Type) [Sc α] [Codec α] (args : List (String × String)) : String :=
  match (getArg args "beta0"), (getArg args "scheme"), (getArg args "n").bind String.toNat?,
        (getArg args "w").bind (parseList? (Codec.parse (α := α))),
        (getArg args "u0").bind (Codec.parse (α := α)),
        (getArg args "us").bind (parseList? (Codec.parse (α := α))) with
  | some b, some sch, some n, some w, some u0, some us =>
    let scheme := if sch == "mult" then Scheme.mult else if sch == "syst" then Scheme.syst else Scheme.other
    showRun (resamplerRun (b == "1") scheme n w u0 us)
  | _, _, _, _, _, _ => "bad-op"

/-- `post.F w=<floats> u0=<float>` → the index vector of `compute_posterior(resample=True)` -/
def postCmd (α : Type) [Sc α] [Codec α] (args : List (String × String)) : String :=
  match (getArg args "w").bind (parseList? (Codec.parse (α := α))),
        (getArg args "u0").bind (Codec.parse (α := α)) with
  | some w, some u0 => showIdx (posteriorResample w u0) "IndexError"
  | _, _ => "bad-op"

def handle (cmd : String) (args : List (String × String)) : Option String :=
  match cmd with
  | "syst.F" => if (getArg args "s").isSome then some (syst Float args) else some "bad-op"
  | "syst.Q" => some (syst Rat args)
  | "npsum.F" => some (npsum Float args)
  | "npsum.Q" => some (npsum Rat args)
  | "systnp.F" => some (systnp Float args)
  | "systnp.Q" => some (systnp Rat args)
  | "run.F" => some (runCmd Float args)
  | "run.Q" => some (runCmd Rat args)
  | "post.F" => some (postCmd Float args)
  | "post.Q" => some (postCmd Rat args)
  | "mult.F" => some (mult Float args)
  | "mult.Q" => some (mult Rat args)
  | _ => none

end Drv.C06
