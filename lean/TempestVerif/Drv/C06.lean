import TempestVerif.Drv.Util
import TempestVerif.Model.Resample
/-
  line-protocol handlers of property C06
    syst.Q n=<nat> w=<rats> u0=<rat>                 (s = exact sum of w)
    syst.Q n=<nat> s=<rat> w=<rats> u0=<rat>         (s given)
    syst.F n=<nat> s=<float: np.sum(w)> w=<floats> u0=<float>
    mult.Q / mult.F  w=<scalars> us=<scalars>
  answer: comma-separated index list (`-` = empty) or the error tag `IndexError` / `ValueError`.
-/
namespace Drv.C06
open Drv Model.Resample

def showIdx (r : Option (List Nat)) (err : String) : String :=
  match r with
  | some l => showList toString l
  | none => err

def syst (α : Type) [Sc α] [Codec α] (args : List (String × String)) : String :=
  match (getArg args "n").bind String.toNat?,
        (getArg args "w").bind (parseList? (Codec.parse (α := α))),
        (getArg args "u0").bind (Codec.parse (α := α)) with
  | some n, some w, some u0 =>
    match getArg args "s" with
    | none => showIdx (systematic n w u0) "IndexError"
    | some ss =>
      match Codec.parse (α := α) ss with
      | some s => showIdx (systematicWith s n w u0) "IndexError"
      | none => "bad-op"
  | _, _, _ => "bad-op"

def mult (α : Type) [Sc α] [Codec α] (args : List (String × String)) : String :=
  match (getArg args "w").bind (parseList? (Codec.parse (α := α))),
        (getArg args "us").bind (parseList? (Codec.parse (α := α))) with
  | some w, some us => showIdx (multinomial w us) "ValueError"
  | _, _ => "bad-op"

def handle (cmd : String) (args : List (String × String)) : Option String :=
  match cmd with
  | "syst.F" => if (getArg args "s").isSome then some (syst Float args) else some "bad-op"
  | "syst.Q" => some (syst Rat args)
  | "mult.F" => some (mult Float args)
  | "mult.Q" => some (mult Rat args)
  | _ => none

end Drv.C06
