import TempestVerif.Drv.Util
import TempestVerif.Model.Resample
import TempestVerif.Model.ResampleX
/-
  line-protocol handlers of property C06
    syst.Q n=<nat> w=<rats> u0=<rat>                 (s = exact sum of w)
    syst.Q n=<nat> s=<rat> w=<rats> u0=<rat>         (s given)
    syst.F n=<nat> s=<float: np.sum(w)> w=<floats> u0=<float>
    systnp.F / systnp.Q n=<nat> w=<scalars> u0=<scalar>   (np.sum modelled: pairwise summation)
    npsum.F / npsum.Q w=<scalars>                         (the modelled np.sum alone)
    run.F / run.Q beta0=<0|1> scheme=<mult|syst|other> n=<nat> w=<scalars> u0=<scalar> us=<scalars>   (Resampler.run)
    post.F / post.Q w=<scalars> u0=<scalar>                                                            (posterior, resample branch)
    mult.Q / mult.F  w=<scalars> us=<scalars>
  answer: comma-separated index list (`-` = empty) or the error tag `IndexError` / `ValueError`.
  second pass (`Model.ResampleX`), F and Q each:
    c06x.kahan w=<scalars>                       numpy's kahan_sum (`undefined` for the empty array)
    c06x.check size=<nat> w=<scalars>            numpy's validation of p: ok|emptyPop|undefined|nan|negative|notSumOne
    c06x.run beta0= scheme= n= w= u0= us=        Resampler.run with the validation inside
    c06x.watr beta0=<0|1> w=<scalars>            the array execute_iteration hands to resampler.run (from exp(logw-max))
    c06x.iter beta0= scheme= n= w= u0= us=       reweight-normalise -> trainer-normalise -> Resampler.run
    c06x.postnt w= u0=                           compute_posterior(resample=True, trim=False) from exp(logw-max)
    c06x.posttrim w= keep=<0|1 list> u0=         ... with trimming; keep = mask of the stopping pass of trim_weights
-/
namespace Drv.C06
open Drv Model.Resample Model.ResampleX

def showIdx (r : Option (List Nat)) (err : String) : String :=
  match r with
  | some l => showList toString l
  | none => err

def syst (α : Type) [Sc α] [Codec α] (args : List (String × String)) : String :=
  match (getArg args "n").bind String.toNat?,
        (getArg args "w").bind (parseList? (Codec.parse (α := α))),
        (getArg args "u0").bind (Codec.parse (α := α)) with
  | some n, some w, some u0 =>
    match getArg args "s" with
    | none => showIdx (systematic n w u0) "IndexError"
    | some ss =>
      match Codec.parse (α := α) ss with
      | some s => showIdx (systematicWith s n w u0) "IndexError"
      | none => "bad-op"
  | _, _, _ => "bad-op"

/-- `npsum.F w=<floats>` → the model of `np.sum(w)` -/
def npsum (α : Type) [Sc α] [Codec α] (args : List (String × String)) : String :=
  match (getArg args "w").bind (parseList? (Codec.parse (α := α))) with
  | some w => Codec.shw (npSum w)
  | none => "bad-op"

/-- `systnp.F n= w= u0=` → `systematic_resample` with the modelled `np.sum` -/
def systnp (α : Type) [Sc α] [Codec α] (args : List (String × String)) : String :=
  match (getArg args "n").bind String.toNat?,
        (getArg args "w").bind (parseList? (Codec.parse (α := α))),
        (getArg args "u0").bind (Codec.parse (α := α)) with
  | some n, some w, some u0 => showIdx (systematicNp n w u0) "IndexError"
  | _, _, _ => "bad-op"

def mult (α : Type) [Sc α] [Codec α] (args : List (String × String)) : String :=
  match (getArg args "w").bind (parseList? (Codec.parse (α := α))),
        (getArg args "us").bind (parseList? (Codec.parse (α := α))) with
  | some w, some us => showIdx (multinomial w us) "ValueError"
  | _, _ => "bad-op"

def showRun : RunResult → String
  | .skipped => "skip"
  | .indices idx => showList toString idx
  | .indexError => "IndexError"
  | .valueError => "ValueError"
  | .unbound => "UnboundLocalError"

/-- `run.F beta0=<0|1> scheme=<mult|syst|…> n=<nat> w=<floats> u0=<float> us=<floats>` → what `Resampler.run` gathers with -/
def runCmd (α : Type) [Sc α] [Codec α] (args : List (String × String)) : String :=
  match (getArg args "beta0"), (getArg args "scheme"), (getArg args "n").bind String.toNat?,
        (getArg args "w").bind (parseList? (Codec.parse (α := α))),
        (getArg args "u0").bind (Codec.parse (α := α)),
        (getArg args "us").bind (parseList? (Codec.parse (α := α))) with
  | some b, some sch, some n, some w, some u0, some us =>
    let scheme := Scheme.ofString sch
    showRun (resamplerRun (b == "1") scheme n w u0 us)
  | _, _, _, _, _, _ => "bad-op"

/-- `post.F w=<floats> u0=<float>` → the index vector of `compute_posterior(resample=True)` -/
def postCmd (α : Type) [Sc α] [Codec α] (args : List (String × String)) : String :=
  match (getArg args "w").bind (parseList? (Codec.parse (α := α))),
        (getArg args "u0").bind (Codec.parse (α := α)) with
  | some w, some u0 => showIdx (posteriorResample w u0) "IndexError"
  | _, _ => "bad-op"


/-! ### second pass -/

def showCheck : ChoiceCheck → String
  | .ok => "ok" | .emptyPop => "emptyPop" | .undefined => "undefined" | .nan => "nan"
  | .negative => "negative" | .notSumOne => "notSumOne"

def xKahan (α : Type) [Sc α] [Codec α] (args : List (String × String)) : String :=
  match (getArg args "w").bind (parseList? (Codec.parse (α := α))) with
  | some w => match kahanSum w with
    | some s => Codec.shw s
    | none => "undefined"
  | none => "bad-op"

def xCheck (α : Type) [Sc α] [Codec α] (args : List (String × String)) : String :=
  match (getArg args "size").bind String.toNat?, (getArg args "w").bind (parseList? (Codec.parse (α := α))) with
  | some n, some w => showCheck (choiceCheck n w)
  | _, _ => "bad-op"

def xRun (α : Type) [Sc α] [Codec α] (iter : Bool) (args : List (String × String)) : String :=
  match (getArg args "beta0"), (getArg args "scheme"), (getArg args "n").bind String.toNat?,
        (getArg args "w").bind (parseList? (Codec.parse (α := α))),
        (getArg args "u0").bind (Codec.parse (α := α)),
        (getArg args "us").bind (parseList? (Codec.parse (α := α))) with
  | some b, some sch, some n, some w, some u0, some us =>
    let scheme := Scheme.ofString sch
    showRun (if iter then iterationResample (b == "1") scheme n w u0 us else resamplerRunX (b == "1") scheme n w u0 us)
  | _, _, _, _, _, _ => "bad-op"

def xWatr (α : Type) [Sc α] [Codec α] (args : List (String × String)) : String :=
  match (getArg args "beta0"), (getArg args "w").bind (parseList? (Codec.parse (α := α))) with
  | some b, some w => showList Codec.shw (weightsAtResampler (b == "1") w)
  | _, _ => "bad-op"

def xPostNt (α : Type) [Sc α] [Codec α] (args : List (String × String)) : String :=
  match (getArg args "w").bind (parseList? (Codec.parse (α := α))),
        (getArg args "u0").bind (Codec.parse (α := α)) with
  | some w, some u0 => showIdx (posteriorResampleNoTrim w u0) "IndexError"
  | _, _ => "bad-op"

def xPostTrim (α : Type) [Sc α] [Codec α] (args : List (String × String)) : String :=
  match (getArg args "w").bind (parseList? (Codec.parse (α := α))),
        (getArg args "keep").bind (parseList? String.toNat?),
        (getArg args "u0").bind (Codec.parse (α := α)) with
  | some w, some keep, some u0 => showIdx (posteriorResampleTrim w (keep.map (· != 0)) u0) "IndexError"
  | _, _, _ => "bad-op"

def handleX (α : Type) [Sc α] [Codec α] (cmd : String) (args : List (String × String)) : Option String :=
  match cmd with
  | "c06x.kahan" => some (xKahan α args)
  | "c06x.check" => some (xCheck α args)
  | "c06x.run" => some (xRun α false args)
  | "c06x.iter" => some (xRun α true args)
  | "c06x.watr" => some (xWatr α args)
  | "c06x.postnt" => some (xPostNt α args)
  | "c06x.posttrim" => some (xPostTrim α args)
  | _ => none

def handle (cmd : String) (args : List (String × String)) : Option String :=
  match cmd.splitOn "." with
  | ["c06x", op, "F"] => handleX Float ("c06x." ++ op) args
  | ["c06x", op, "Q"] => handleX Rat ("c06x." ++ op) args
  | _ =>
  match cmd with
  | "syst.F" => if (getArg args "s").isSome then some (syst Float args) else some "bad-op"
  | "syst.Q" => some (syst Rat args)
  | "npsum.F" => some (npsum Float args)
  | "npsum.Q" => some (npsum Rat args)
  | "systnp.F" => some (systnp Float args)
  | "systnp.Q" => some (systnp Rat args)
  | "run.F" => some (runCmd Float args)
  | "run.Q" => some (runCmd Rat args)
  | "post.F" => some (postCmd Float args)
  | "post.Q" => some (postCmd Rat args)
  | "mult.F" => some (mult Float args)
  | "mult.Q" => some (mult Rat args)
  | _ => none

end Drv.C06
