import TempestVerif.Drv.Util
import TempestVerif.Model.ConfigSpec
import TempestVerif.Gen.Validate
import TempestVerif.Gen.Ctor
import TempestVerif.Model.CtorPath
import TempestVerif.Gen.CtorPath
/-
  line-protocol handlers of property C18

    cfg.construct <field>=<value> …   outcome of `Sampler(...)`       (options not given take `Gen.Validate.defaults`)
    cfg.eval      <field>=<value> …   outcome of `SamplerConfig(...)` (same defaults; no FunctionWrapper, no wiring)

    cfg.glue      <field>=<value> … [map=0|1] [blobs=0|1]
                                      downstream of an accepted `Sampler(...)`: `total` when no use site of the regenerated
                                      table is undefined, else `pred definite=<Err,…> possible=<Err,…> unmodelled=<n>`;
                                      `not-accepted:<outcome>` when the constructor does not return
    ctx.sem       tag=<context tag> v=<value> nd=<value of n_dim> [ofield=<field> oval=<value>] [map=0|1]
                                      Python/numpy behaviour of one context on one value: ok | err:<Err> | unmodelled | unknown-tag
    dispatch.resample v=<value>       bound | unbound        (does the if/elif chain of Resampler.run bind the index array)
    dispatch.kernel   v=<value>       <RunnerClass> | none   (runner mcmc.parallel_mcmc instantiates)

  value syntax:  i:<int>  f:<p/q>|f:inf|f:-inf|f:nan  b:0|b:1  s:<alnum*>  n (None)  c (callable)  p (Path)  o (object())
                 l:<elem>,<elem>,…   (elements in the same syntax; `L` = the nested list [0]; `l:` = [])
  answers:       accept np=<v> ns=<v> nms=<v> od=<v> ol=<v> [mi=<v> mp=<v> th=<f>]   (stored defaults; clusterer wiring)
                 reject:<tag>|<tag>…        (message templates of the rules that fired, in order)
                 raise:<ExceptionName>
-/
namespace Drv.C18
open Drv Model.ConfigSpec

def fields : List (String × Field) :=
  [("prior_transform", .prior_transform), ("log_likelihood", .log_likelihood), ("n_dim", .n_dim), ("n_particles", .n_particles),
   ("ess_ratio", .ess_ratio), ("volume_variation", .volume_variation), ("log_likelihood_args", .log_likelihood_args),
   ("log_likelihood_kwargs", .log_likelihood_kwargs), ("vectorize", .vectorize), ("blobs_dtype", .blobs_dtype),
   ("periodic", .periodic), ("reflective", .reflective), ("pool", .pool), ("clustering", .clustering), ("normalize", .normalize),
   ("cluster_every", .cluster_every), ("split_threshold", .split_threshold), ("n_max_clusters", .n_max_clusters),
   ("sample", .sample), ("n_steps", .n_steps), ("n_max_steps", .n_max_steps), ("resample", .resample),
   ("output_dir", .output_dir), ("output_label", .output_label), ("random_state", .random_state)]

def parseFV? (s : String) : Option FV :=
  if s == "inf" then some (.inf false)
  else if s == "-inf" then some (.inf true)
  else if s == "nan" then some .nan
  else (parseRat? s).map FV.fin

def parseScalar? (s : String) : Option V :=
  if s == "n" then some .none
  else if s == "c" then some .callable
  else if s == "p" then some .path
  else if s == "o" then some .other
  else if s == "L" then some (.list [.int 0])
  else if s.startsWith "i:" then (parseInt? (s.drop 2).toString).map V.int
  else if s.startsWith "f:" then (parseFV? (s.drop 2).toString).map V.float
  else if s == "b:0" then some (.bool false)
  else if s == "b:1" then some (.bool true)
  else if s.startsWith "s:" then
    let t := (s.drop 2).toString
    if t.all (fun ch => ch.isAlphanum || ch == '_') then some (.str t) else none
  else none

def parseV? (s : String) : Option V :=
  if s.startsWith "l:" then
    let t := (s.drop 2).toString
    if t.isEmpty then some (.list []) else ((t.splitOn ",").mapM parseScalar?).map V.list
  else parseScalar? s

def showFV : FV → String
  | .fin q => showRat q
  | .inf false => "inf"
  | .inf true => "-inf"
  | .nan => "nan"

def showScalar : V → String
  | .int n => s!"i:{n}"
  | .float f => "f:" ++ showFV f
  | .bool b => if b then "b:1" else "b:0"
  | .str s => "s:" ++ s
  | .none => "n"
  | .callable => "c"
  | .path => "p"
  | .other => "o"
  | .list _ => "L"

def showV : V → String
  | .list l => "l:" ++ ",".intercalate (l.map showScalar)
  | v => showScalar v

/-- the configuration named by the arguments; `none` when a token is malformed or a required option is missing -/
def parseCfg? (args : List (String × String)) : Option Cfg := do
  let base : Cfg := fun f => match Gen.Validate.defaults.find? (·.1 == f) with
    | some (_, v) => v
    | none => V.none
  let mut c := base
  for (k, v) in args do
    let f ← (fields.find? (·.1 == k)).map (·.2)
    let x ← parseV? v
    c := c.set f x
  -- options without a default must be given explicitly
  let required := fields.filter fun (_, f) => !(Gen.Validate.defaults.any (·.1 == f))
  if required.all (fun (k, _) => args.any (·.1 == k)) then some c else none

def showOutcome : Outcome → String
  | .accept => "accept"
  | .reject tags => "reject:" ++ "|".intercalate tags
  | .raise k => "raise:" ++ k.name

def showStored (c : Cfg) : String :=
  s!"np={showV (c .n_particles)} ns={showV (c .n_steps)} nms={showV (c .n_max_steps)} od={showV (c .output_dir)} ol={showV (c .output_label)}"

def handle (cmd : String) (args : List (String × String)) : Option String :=
  match cmd with
  | "cfg.eval" =>
    (parseCfg? args).map fun c =>
      match runCfg Gen.Validate.spec c with
      | .ok c' => "accept " ++ showStored c'
      | .error o => showOutcome o
  | "cfg.construct" =>
    (parseCfg? args).map fun c =>
      match runCfg Gen.Validate.spec (wrapFields Gen.Validate.wrapped c) with
      | .error o => showOutcome o
      | .ok c' =>
        match wire Gen.Ctor.wiring c' with
        | .error k => showOutcome (.raise k)
        | .ok w =>
          "accept " ++ showStored c' ++
            (if w.clusterer then s!" mi={showV w.maxIter} mp={showV w.minPoints} th={showFV w.threshold}" else " mi=- mp=- th=-")
  | "cfg.glue" =>
    let flag (k : String) : Bool := args.any fun (a, b) => a == k && b == "1"
    let ext : Model.CtorPath.Ext := ⟨flag "map", flag "blobs"⟩
    (parseCfg? (args.filter fun (a, _) => a != "map" && a != "blobs")).map fun c =>
      match construct Gen.Validate.spec Gen.Ctor.wiring Gen.Validate.wrapped c with
      | .accept =>
        let g : Cfg :=
          match runCfg Gen.Validate.spec (wrapFields Gen.Validate.wrapped c) with
          | .ok c' => fun f => if Gen.Validate.wrapped.contains f then c f else c' f
          | .error _ => c
        let p := Model.CtorPath.predict ext Gen.CtorPath.uses g
        if p.definite.isEmpty && p.possible.isEmpty && p.unmodelled == 0 then "total"
        else
          let names (l : List Model.CtorPath.PyErr) : String := if l.isEmpty then "-" else ",".intercalate (l.map (·.name))
          s!"pred definite={names p.definite} possible={names p.possible} unmodelled={p.unmodelled}"
      | o => "not-accepted:" ++ showOutcome o
  | "ctx.sem" => do
    let tag ← (args.find? (·.1 == "tag")).map (·.2)
    let v ← (args.find? (·.1 == "v")).bind fun a => parseV? a.2
    let nd ← (args.find? (·.1 == "nd")).bind fun a => parseV? a.2
    let base : Cfg := fun f => match Gen.Validate.defaults.find? (·.1 == f) with
      | some (_, x) => x
      | none => V.none
    let c0 := base.set .n_dim nd
    let c ← match args.find? (·.1 == "ofield"), args.find? (·.1 == "oval") with
      | some (_, fn), some (_, ov) => do
        let f ← (fields.find? (·.1 == fn)).map (·.2)
        let x ← parseV? ov
        pure (c0.set f x)
      | _, _ => pure c0
    let ext : Model.CtorPath.Ext := ⟨args.any fun (a, b) => a == "map" && b == "1", false⟩
    let ctx := Model.CtorPath.ctxOf tag
    if ctx == .unknown then pure "unknown-tag"
    else
      match Model.CtorPath.sem ext c ctx v with
      | .ok => pure "ok"
      | .err k => pure ("err:" ++ k.name)
      | .unmodelled => pure "unmodelled"
  | "dispatch.resample" =>
    ((args.find? (·.1 == "v")).bind fun a => parseV? a.2).map fun v =>
      if Model.CtorPath.resampleBound Gen.CtorPath.resampleLits Gen.CtorPath.resampleBinds Gen.CtorPath.resampleHasElse
          Gen.CtorPath.resampleNeeded v then "bound" else "unbound"
  | "dispatch.kernel" =>
    ((args.find? (·.1 == "v")).bind fun a => parseV? a.2).map fun v =>
      match Model.CtorPath.kernelRunner Gen.CtorPath.kernelBranches Gen.CtorPath.kernelElse Gen.CtorPath.kernelRunners
          Gen.CtorPath.abstractMethods Gen.CtorPath.runnerMethods v with
      | some cls => cls
      | none => "none"
  | _ => none

end Drv.C18
