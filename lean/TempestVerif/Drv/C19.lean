import TempestVerif.Drv.Util
import TempestVerif.Model.Student
/- line-protocol handlers of property C19 (Student-t fit) -/
namespace Drv.C19
open Drv Model.Student

/-- row-major `n × d` list → `d` columns of length `n` -/
def columns {α : Type} (d n : Nat) (flat : Array α) : Option (List (List α)) :=
  if flat.size != n * d then none else
  (List.range d).mapM fun a => (List.range n).mapM fun i => flat[i * d + a]?

def parseNu? {α : Type} [Codec α] (s : String) : Option (NuEv α) :=
  if s == "inf" then some .inf else if s == "fail" then some .fail else (Codec.parse (α := α) s).map .val

def showStop : Stop → String
  | .converged => "conv" | .maxIter => "maxit" | .infNu => "inf" | .tapeEnd => "tape" | .notPD => "notpd"
  | .nuFail => "fail" | .sigmaNotPD => "chol"

/-- `mvst.F d=<dim> n=<points> data=<n·d scalars, row-major> nus=<scalars | inf | fail> tol=<scalar> maxit=<nat>`
    →  `<stop> <k> <k·d scalars: mu iterates> <k·d² scalars: Sigma iterates, row-major> <final nu | inf> <warned 0|1>` -/
def mvst (α : Type) [Sc α] [Codec α] (args : List (String × String)) : String :=
  match (getArg args "d").bind String.toNat?, (getArg args "n").bind String.toNat?,
        (getArg args "data").bind (parseList? (Codec.parse (α := α))),
        (getArg args "nus").bind (parseList? (parseNu? (α := α))),
        (getArg args "tol").bind (Codec.parse (α := α)), (getArg args "maxit").bind String.toNat? with
  | some d, some n, some data, some nus, some tol, some maxit =>
    match columns d n data.toArray with
    | none => "bad-op"
    | some X =>
      match fit tol maxit n X nus with
      | none => "bad-op"
      | some r =>
        let mus := r.iterates.flatMap (·.mu)
        let sigs := r.iterates.flatMap (fun s => s.sigma.flatten)
        let nu := match r.nu with | none => "inf" | some x => Codec.shw x
        s!"{showStop r.stop} {r.iterates.length} {showList Codec.shw mus} {showList Codec.shw sigs} {nu} {showBool r.warned}"
  | _, _, _, _, _, _ => "bad-op"

/-- `dof.F tag=fin|inf|nan x=<scalar> fb=<scalar>` → `fin <scalar>` | `inf` | `nan` (the `dof` after the fallback) -/
def dof (α : Type) [Sc α] [Codec α] (args : List (String × String)) : String :=
  match getArg args "tag", (getArg args "x").bind (Codec.parse (α := α)),
        (getArg args "fb").bind (Codec.parse (α := α)) with
  | some tag, some x, some fb =>
    let t : Option (Dof α) := match tag with
      | "fin" => some (.fin x) | "inf" => some .inf | "nan" => some .nan | _ => none
    match t with
    | none => "bad-op"
    | some t => match applyFallback fb t with
      | .fin y => s!"fin {Codec.shw y}"
      | .inf => "inf"
      | .nan => "nan"
  | _, _, _ => "bad-op"

def handle (cmd : String) (args : List (String × String)) : Option String :=
  match cmd with
  | "mvst.F" => some (mvst Float args)
  | "mvst.Q" => some (mvst Rat args)
  | "dof.F" => some (dof Float args)
  | "dof.Q" => some (dof Rat args)
  | _ => none

end Drv.C19
