import TempestVerif.Drv.Util
import TempestVerif.Model.Student
import TempestVerif.Model.StudentNu
import TempestVerif.Model.StudentModes
/- line-protocol handlers of property C19 (Student-t fit) -/
namespace Drv.C19
open Drv Model.Student

/-- row-major `n × d` list → `d` columns of length `n` -/
def columns {α : Type} (d n : Nat) (flat : Array α) : Option (List (List α)) :=
  if flat.size != n * d then none else
  (List.range d).mapM fun a => (List.range n).mapM fun i => flat[i * d + a]?

def parseNu? {α : Type} [Codec α] (s : String) : Option (NuEv α) :=
  if s == "inf" then some .inf else if s == "fail" then some .fail else (Codec.parse (α := α) s).map .val

def showStop : Stop → String
  | .converged => "conv" | .maxIter => "maxit" | .infNu => "inf" | .tapeEnd => "tape" | .notPD => "notpd"
  | .nuFail => "fail" | .sigmaNotPD => "chol"

/-- `mvst.F d=<dim> n=<points> data=<n·d scalars, row-major> nus=<scalars | inf | fail> tol=<scalar> maxit=<nat>`
    →  `<stop> <k> <k·d scalars: mu iterates> <k·d² scalars: Sigma iterates, row-major> <final nu | inf> <warned 0|1>` -/
def mvst (α : Type) [Sc α] [Codec α] (args : List (String × String)) : String :=
  match (getArg args "d").bind String.toNat?, (getArg args "n").bind String.toNat?,
        (getArg args "data").bind (parseList? (Codec.parse (α := α))),
        (getArg args "nus").bind (parseList? (parseNu? (α := α))),
        (getArg args "tol").bind (Codec.parse (α := α)), (getArg args "maxit").bind String.toNat? with
  | some d, some n, some data, some nus, some tol, some maxit =>
    match columns d n data.toArray with
    | none => "bad-op"
    | some X =>
      match fit tol maxit n X nus with
      | none => "bad-op"
      | some r =>
        let mus := r.iterates.flatMap (·.mu)
        let sigs := r.iterates.flatMap (fun s => s.sigma.flatten)
        let nu := match r.nu with | none => "inf" | some x => Codec.shw x
        s!"{showStop r.stop} {r.iterates.length} {showList Codec.shw mus} {showList Codec.shw sigs} {nu} {showBool r.warned}"
  | _, _, _, _, _, _ => "bad-op"

/-- `dof.F tag=fin|inf|nan x=<scalar> fb=<scalar>` → `fin <scalar>` | `inf` | `nan` (the `dof` after the fallback) -/
def dof (α : Type) [Sc α] [Codec α] (args : List (String × String)) : String :=
  match getArg args "tag", (getArg args "x").bind (Codec.parse (α := α)),
        (getArg args "fb").bind (Codec.parse (α := α)) with
  | some tag, some x, some fb =>
    let t : Option (Dof α) := match tag with
      | "fin" => some (.fin x) | "inf" => some .inf | "nan" => some .nan | _ => none
    match t with
    | none => "bad-op"
    | some t => match applyFallback fb t with
      | .fin y => s!"fin {Codec.shw y}"
      | .inf => "inf"
      | .nan => "nan"
  | _, _, _ => "bad-op"


/-! ### `opt_nu`, `func0`, scipy's `bisect` (Model/StudentNu.lean) -/

/-- a function given by a finite table (`xs[i] ↦ ys[i]`, keys compared through their exact wire form); a point outside the
    table gives `0` — the caller compares the evaluation points with the real run, so the first deviation is seen there -/
def tableFn {α : Type} [Sc α] [Codec α] (xs ys : List α) (x : α) : α :=
  let k := Codec.shw x
  match (xs.zip ys).find? (fun p => Codec.shw p.1 == k) with
  | some p => p.2
  | none => Sc.zero

def showBis {α : Type} [Codec α] (r : BisOut α) : String :=
  let h := match r.res with
    | .root x => s!"root {Codec.shw x}"
    | .signErr => "signerr -"
    | .nanErr x => s!"nanerr {Codec.shw x}"
    | .convErr => "converr -"
  s!"{h} {showList Codec.shw r.evals}"

/-- `sbis.F a=<s> b=<s> [xtol=<s> rtol=<s> maxit=<nat>] xs=<scalars> ys=<scalars>`  (defaults: scipy's, as in the model)
    → `root <x> | signerr - | nanerr <x> | converr -` followed by the evaluation points in order -/
def bis (α : Type) [Sc α] [Codec α] (args : List (String × String)) : String :=
  match (getArg args "a").bind (Codec.parse (α := α)), (getArg args "b").bind (Codec.parse (α := α)),
        (getArg args "xs").bind (parseList? (Codec.parse (α := α))),
        (getArg args "ys").bind (parseList? (Codec.parse (α := α))) with
  | some a, some b, some xs, some ys =>
    let xtol := ((getArg args "xtol").bind (Codec.parse (α := α))).getD bisXtol
    let rtol := ((getArg args "rtol").bind (Codec.parse (α := α))).getD bisRtol
    let maxit := ((getArg args "maxit").bind String.toNat?).getD bisIter
    showBis (bisect (tableFn xs ys) a b xtol rtol maxit)
  | _, _, _, _ => "bad-op"

/-- `optnu.F xs=<scalars> ys=<scalars>` (the values of `func0` at the points the real run evaluated it)
    → `val <x> | inf | fail | raise` followed by the evaluation points in order -/
def optnu (α : Type) [Sc α] [Codec α] (args : List (String × String)) : String :=
  match (getArg args "xs").bind (parseList? (Codec.parse (α := α))),
        (getArg args "ys").bind (parseList? (Codec.parse (α := α))) with
  | some xs, some ys =>
    let r := optNuWith (tableFn xs ys)
    let h := match r.1 with
      | .val x => s!"val {Codec.shw x}" | .inf => "inf" | .fail => "fail" | .raise => "raise"
    s!"{h} {showList Codec.shw r.2}"
  | _, _ => "bad-op"

/-- `func0.F dim=<nat> n=<nat> delta=<scalars> nu=<scalar> pxs=<scalars> pys=<scalars>` (`special.psi` as a table)
    → the value of `func0(nu)` -/
def func0c (args : List (String × String)) : String :=
  match (getArg args "dim").bind String.toNat?, (getArg args "n").bind String.toNat?,
        (getArg args "delta").bind (parseList? parseFloat?), (getArg args "nu").bind parseFloat?,
        (getArg args "pxs").bind (parseList? parseFloat?), (getArg args "pys").bind (parseList? parseFloat?) with
  | some dim, some n, some dl, some nu, some pxs, some pys =>
    showFloat (func0 (tableFn pxs pys) dim n dl nu)
  | _, _, _, _, _, _ => "bad-op"

/-- `nuconst.F` → the constants of the ν-update as the model has them: `nuLo nuMax xtol rtol maxiter defaultTol defaultMaxIter` -/
def nuconst (α : Type) [Sc α] [Codec α] : String :=
  s!"{Codec.shw (nuLo : α)} {Codec.shw (nuMax : α)} {Codec.shw (bisXtol : α)} {Codec.shw (bisRtol : α)} {bisIter} {Codec.shw (defaultTol : α)} {defaultMaxIter}"

/-! ### `ModeStatistics.from_global / from_particles`, `Trainer.run` (Model/StudentModes.lean) -/

open Model.StudentModes in
def showDof {α : Type} [Codec α] : Dof α → String
  | .fin x => s!"fin:{Codec.shw x}" | .inf => "inf" | .nan => "nan"

def parseDof? {α : Type} [Codec α] (s : String) : Option (Dof α) :=
  if s == "inf" then some .inf else if s == "nan" then some .nan else
  match s.splitOn ":" with
  | ["fin", x] => (Codec.parse (α := α) x).map .fin
  | _ => none

def rowsOf {α : Type} (d n : Nat) (flat : Array α) : Option (List (List α)) :=
  if flat.size != n * d then none else
  (List.range n).mapM fun i => (List.range d).mapM fun a => flat[i * d + a]?

open Model.StudentModes in
def showBuilt {α : Type} [Codec α] : Built α → String
  | .valueError => "valueerror"
  | .raised => "raised"
  | .ok ms =>
    let lab := match ms.labels with | none => "none" | some l => showList toString l
    s!"ok {ms.means.length} {showList Codec.shw ms.means.flatten} {showList Codec.shw (ms.covs.flatMap (·.flatten))} {showList showDof ms.dofs} {lab}"

open Model.StudentModes in
/-- `smodes.F kind=global|particles|trainer d=<nat> N=<nat> u=<N·d scalars> w=<scalars> labels=<nats> fb=<scalar> rf=<nat>
        us=<uniforms> fits=<per mode, ';'-separated: a tape of opt_nu events (real fit), `stub:<dof>` or `echo`>
        [path=dummy|fitPredict|predictOnly|global | bz=<0|1> cl=<0|1> oc=<0|1> ft=<0|1>]`
    → `ok K <means> <covs> <dofs> <labels|none>` | `valueerror` | `raised` -/
def modes (α : Type) [Sc α] [Codec α] (args : List (String × String)) : String :=
  match getArg args "kind", (getArg args "d").bind String.toNat?, (getArg args "N").bind String.toNat?,
        (getArg args "u").bind (parseList? (Codec.parse (α := α))),
        (getArg args "w").bind (parseList? (Codec.parse (α := α))),
        (getArg args "labels").bind parseNatList?,
        (getArg args "fb").bind (Codec.parse (α := α)), (getArg args "rf").bind String.toNat?,
        (getArg args "us").bind (parseList? (Codec.parse (α := α))), getArg args "fits" with
  | some kind, some d, some n, some uflat, some w, some labels, some fb, some rf, some us, some fitsS =>
    let mkFit (s : String) : Option (Mat α → Option (FitOut α)) :=
      match s.splitOn ":" with
      | "stub" :: rest =>
        (parseDof? (α := α) (":".intercalate rest)).map fun t => fun rows =>
          if rows.isEmpty then none
          else some ⟨(List.range d).map (fun a => (Sc.ofNat a : α)), (List.range d).map (fun i => (identRow d i).map (Sc.mul Sc.two)), t⟩
      | ["echo"] => some fun rows => some ⟨rows.flatten, [], .inf⟩      -- shows the data handed to the fit
      | _ => (parseList? (parseNu? (α := α)) s).map fun tape => fitRowsTape d tape
    match rowsOf d n uflat.toArray, (if fitsS == "-" then some [] else (fitsS.splitOn ";").mapM mkFit) with
    | some u, some fits =>
      let b := fun (x : String) => getArg args x == some "1"
      match kind with
      | "global" => (match fits with
          | f :: _ => showBuilt (fromGlobal f u w fb rf us)
          | [] => "bad-op")
      | "particles" => showBuilt (fromParticles fits u w labels fb rf us)
      | "trainer" => showBuilt (trainerRun (trainerPath (b "bz") (b "cl") (b "oc") (b "ft")) fits d u w labels fb us)
      | _ => "bad-op"
    | _, _ => "bad-op"
  | _, _, _, _, _, _, _, _, _, _ => "bad-op"

/-- `tpath.X bz=<0|1> cl=<0|1> oc=<0|1> ft=<0|1>` → the branch of `Trainer.run` -/
def tpath (args : List (String × String)) : String :=
  let b := fun (x : String) => getArg args x == some "1"
  match Model.StudentModes.trainerPath (b "bz") (b "cl") (b "oc") (b "ft") with
  | .dummy => "dummy" | .fitPredict => "fitPredict" | .predictOnly => "predictOnly" | .global => "global"

def handle (cmd : String) (args : List (String × String)) : Option String :=
  match cmd with
  | "mvst.F" => some (mvst Float args)
  | "mvst.Q" => some (mvst Rat args)
  | "dof.F" => some (dof Float args)
  | "dof.Q" => some (dof Rat args)
  | "sbis.F" => some (bis Float args)
  | "sbis.Q" => some (bis Rat args)
  | "optnu.F" => some (optnu Float args)
  | "optnu.Q" => some (optnu Rat args)
  | "func0.F" => some (func0c args)
  | "nuconst.F" => some (nuconst Float)
  | "smodes.F" => some (modes Float args)
  | "smodes.Q" => some (modes Rat args)
  | "tpath.X" => some (tpath args)
  | _ => none

end Drv.C19
