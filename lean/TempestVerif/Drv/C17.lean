import TempestVerif.Drv.Util
import TempestVerif.Model.StateMgr
import TempestVerif.Model.StateMgrN
import TempestVerif.Model.StateMgrX
/-
  Line protocol of property C17 (StateManager reference model).  A whole op sequence travels in one line:

      sm.run ops=<op>;<op>;…        →   <digest>|<digest>|…      (one digest per op)

  op syntax (fields separated by `:`; no spaces, no `=`):
      set:<key>:<arg>:<copy01>            set_current(key, arg, copy)
      upd:<key>~<arg>,<key>~<arg>…:<copy01>   update_current({…}, copy)       (`-` = empty dict)
      get:<key> | getall                  get_current(key) | get_current()
      geth:<key>:<idx|*>:<flat01>         get_history(key, idx, flat)
      getl:<key>                          get_last_history(key)
      commit:<strict01>                   commit_current_to_history(strict)
      results | todict                    compute_results() | to_dict()
      logw:<int>                          compute_logw_and_logz(float(<int>))  (only in well-formed states, else `skip`)
      imp:<i>:<mode>                      update_from_dict built from the export returned by op i (a `todict`);
                                          mode ⊆ {c,h,z,s}: c = "_current" section, h = "_history" section,
                                          z = additionally a history key "zz" (not a valid history key) ↦ [],
                                          s = the harness passes the exported list objects themselves (no effect here:
                                          update_from_dict builds fresh lists)
      fromd:<i>:<mode>                    other = StateManager.from_dict(<same dictionary>); the second manager exists on the
                                          harness side only, the digest section `O=` says whether all second managers still
                                          read what they read when they were built (`-` = none built)
      mut:<i>:<clear|dup|nonecur>         the caller mutates the containers of the dictionary exported by op i
      scr:<i>:<val>                       the caller overwrites EVERY array it obtained in op i with `val`
  arg:  N (None) | S<int> (scalar) | A<int>.<int>.… (new array with this payload; `A` = empty) |
        H<i> (the single array obtained in op i)
  Anything else (or an `H<i>`/`imp:<i>` whose op i does not qualify) answers `bad-op` for that op and leaves the state alone.

  digest:  r=<result>#c=<current>#h=<history>#R=<results>#W=<logw>#O=<other managers>   with keys sorted, payloads only:
      N | S<int> | A<int>.<int>… | O (unreadable cell);  result: U | V:<pval> | D:<dict> | X:<dict>;<hist> | E:<err>
  `None` slots / empty history lists / empty result arrays are omitted and `;n=<number of keys>` is appended; `logw` is
  reported by length.  `compute_results()` is only exercised in well-formed states (`wellFormed`), otherwise `skip`.
  Every `logw` array (result of `logw:`, the `logw` entry of results, the `W=` section = `compute_logw_and_logz(1.0)`
  read after every op) is reported as `<length>:ok`; the harness prints `ok` iff the array equals what a clone of the
  manager built from `to_dict()` computes (the model's claim: it depends on the committed history only).
  The `R=` section is obtained by really performing `compute_results()` (it fills the cache), as the harness does.
-/
namespace Drv.C17
open Drv Model.StateMgr

def showContent (c : Content) : String := "A" ++ ".".intercalate (c.map toString)

def showPVal : PVal → String
  | .none => "N"
  | .scalar x => s!"S{x}"
  | .arr c => showContent c
  | .opaque => "O"

def sortKeys {β : Type} (l : List (String × β)) : List (String × β) := l.mergeSort (fun a b => decide (a.1 ≤ b.1))

/-- compact: `None` slots are omitted, the number of keys is appended -/
def showDict (d : List (Key × PVal)) : String :=
  ",".intercalate (((sortKeys d).filter fun kv => kv.2 != PVal.none).map fun kv => s!"{kv.1}:{showPVal kv.2}")
    ++ s!";n={d.length}"

/-- compact: keys with an empty list are omitted, the number of keys is appended -/
def showHist (d : List (Key × List PVal)) : String :=
  ",".intercalate (((sortKeys d).filter fun kv => !kv.2.isEmpty).map fun kv => s!"{kv.1}:{"/".intercalate (kv.2.map showPVal)}")
    ++ s!";n={d.length}"

def showErr : Err → String
  | .valueError => "value"
  | .indexError => "index"
  | .keyError => "key"
  | .illegal => "illegal"

def showPRes : PRes → String
  | .unit => "U"
  | .val v => s!"V:{showPVal v}"
  | .dict d => s!"D:{showDict d}"
  | .export c h => s!"X:{showDict c};{showHist h}"
  | .err e => s!"E:{showErr e}"

/-- results section: `logw` is reported by length only (its numbers belong to C04) -/
def showResults : PRes → String
  | .dict d => showDict (d.map fun kv => if kv.1 == "logw" then
      (kv.1, match kv.2 with | .arr c => PVal.scalar c.length | v => v)   -- printed as `S<len>`; the harness appends nothing when ok
      else (kv.1, if kv.2 == PVal.arr [] then PVal.none else kv.2))
  | r => showPRes r

def Val.isScalar : Val → Bool
  | .scalar _ => true
  | _ => false

/-- `compute_results()` is only exercised when `compute_logw_and_logz` is well defined: as many `logz` and
    `logl` batches as `beta` entries, `beta`/`logz` scalars, `logl` arrays (what the sampler guarantees) -/
def wellFormed (s : State) : Bool :=
  match lookup "beta" s.history, lookup "logz" s.history, lookup "logl" s.history with
  | some b, some z, some l =>
    b.isEmpty || (b.all Val.isScalar && z.all Val.isScalar && l.all Val.isRef
                  && z.length == b.length && l.length == b.length)
  | _, _, _ => false

/-- what one executed op left behind for later `scr` / `H` / `imp` references -/
structure Rec where
  addrs : List Addr
  res : Res

structure Sim where
  s : State
  recs : List Rec      -- one per op, in order
  out : List String
  others : Nat := 0    -- number of second managers built by `fromd` (they live in the harness only)

/-- `mut:i:<kind>` — the caller mutates the CONTAINERS of the dictionary exported by op i (its own Python objects):
    clear = every history list emptied, dup = the last entry of every non-empty history list appended once more,
    nonecur = every `_current` slot of the dictionary set to None -/
def mutExport (kind : String) : Res → Option Res
  | .export c h =>
    if kind == "clear" then some (.export c (h.map fun kv => (kv.1, [])))
    else if kind == "dup" then some (.export c (h.map fun kv => (kv.1, match kv.2.getLast? with
      | some v => kv.2 ++ [v]
      | none => kv.2)))
    else if kind == "nonecur" then some (.export (c.map fun kv => (kv.1, Val.none)) h)
    else none
  | _ => none

def parseArg (recs : List Rec) (t : String) : Option Arg :=
  if t == "N" then some .none else
  match t.toList with
  | 'S' :: r => (String.ofList r).toInt?.map Arg.scalar
  | 'A' :: r =>
    let body := String.ofList r
    if body.isEmpty then some (.fresh []) else
    ((body.splitOn ".").mapM String.toInt?).map Arg.fresh
  | 'H' :: r =>
    match (String.ofList r).toNat? with
    | some i => match recs[i]? with
      | some rc => match rc.addrs with
        | [a] => some (.held a)
        | _ => none
      | none => none
    | none => none
  | _ => none

def parseBool (t : String) : Option Bool :=
  if t == "1" then some true else if t == "0" then some false else none

def parseKvs (recs : List Rec) (t : String) : Option (List (Key × Arg)) :=
  if t == "-" then some [] else
  (t.splitOn ",").mapM fun item => match item.splitOn "~" with
    | [k, a] => (parseArg recs a).map fun x => (k, x)
    | _ => none

def valToArg : Val → Arg
  | .none => .none
  | .scalar x => .scalar x
  | .ref a => .held a

def parseOp (recs : List Rec) (t : String) : Option Op :=
  match t.splitOn ":" with
  | ["set", k, a, c] => match parseArg recs a, parseBool c with
    | some x, some b => some (.setCurrent k x b)
    | _, _ => none
  | ["upd", kvs, c] => match parseKvs recs kvs, parseBool c with
    | some l, some b => some (.updateCurrent l b)
    | _, _ => none
  | ["get", k] => some (.getCurrent (some k))
  | ["getall"] => some (.getCurrent none)
  | ["geth", k, i, f] => match parseBool f with
    | some b => if i == "*" then some (.getHistory k none b) else i.toInt?.map fun n => .getHistory k (some n) b
    | none => none
  | ["getl", k] => some (.getLastHistory k)
  | ["commit", st] => (parseBool st).map Op.commit
  | ["results"] => some .computeResults
  | ["logw", b] => b.toInt?.map Op.logw
  | ["todict"] => some .toDict
  | ["imp", i, mode] =>
    if !(mode.toList.all fun ch => ch == 'c' || ch == 'h' || ch == 'z' || ch == 's') then none else
    match i.toNat? with
    | some n => match recs[n]? with
      | some rc => match rc.res with
        | .export c h =>
          let cur := if mode.toList.contains 'c' then some (c.map fun kv => (kv.1, valToArg kv.2)) else none
          let hist0 : List (Key × List Arg) := h.map fun kv => (kv.1, kv.2.map valToArg)
          let hist1 := if mode.toList.contains 'z' then hist0 ++ [("zz", [])] else hist0
          let hist := if mode.toList.contains 'h' then some hist1
                      else if mode.toList.contains 'z' then some [("zz", [])] else none
          some (.updateFromDict cur hist)
        | _ => none
      | none => none
    | none => none
  | _ => none

def digest (r : String) (s : State) (others : Nat := 0) : State × String :=
  let osec := if others == 0 then "#O=-" else "#O=ok"
  if !wellFormed s then
    let hist := (derefHist s.heap s.history).filter fun kv => historyKeys.contains kv.1
    (s, s!"r={r}#c={showDict (derefDict s.heap s.current)}#h={showHist hist}#R=skip#W=skip{osec}") else
  let q := step s .computeResults
  let o : Obs := { current := derefDict s.heap s.current, history := derefHist s.heap s.history,
                   results := derefRes q.1.heap q.2, logw := (observe s).logw }
  let hist := o.history.filter fun kv => historyKeys.contains kv.1
  let w := match o.logw with
    | .arr c => s!"{c.length}:ok"
    | _ => "O"
  (q.1, s!"r={r}#c={showDict o.current}#h={showHist hist}#R={showResults o.results}#W={w}{osec}")

/-- `scr:i:val` — overwrite every array obtained in op i (same length, every entry = val) -/
def scribbleAll (s : State) (addrs : List Addr) (val : Int) : State :=
  addrs.foldl (fun st a =>
    match rd st.heap a with
    | some c => (step st (.scribble a (c.map fun _ => val))).1
    | none => st) s

def exec (sim : Sim) (t : String) : Sim :=
  let plain (r : String) (s1 : State) (others : Nat) : Sim :=
    let d := digest r s1 others
    { s := d.1, recs := sim.recs ++ [⟨[], .unit⟩], out := sim.out ++ [d.2], others := others }
  let bad : Sim := plain "bad-op" sim.s sim.others
  match t.splitOn ":" with
  | ["scr", i, v] =>
    match i.toNat?, v.toInt? with
    | some n, some val =>
      match sim.recs[n]? with
      | some rc => plain "U" (scribbleAll sim.s rc.addrs val) sim.others
      | none => bad
    | _, _ => bad
  | ["mut", i, kind] =>
    match i.toNat? with
    | some n => match sim.recs[n]? with
      | some rc => match mutExport kind rc.res with
        | some r' =>
          let d := digest "U" sim.s sim.others
          { sim with s := d.1, recs := (sim.recs.set n { rc with res := r' }) ++ [⟨[], .unit⟩], out := sim.out ++ [d.2] }
        | none => bad
      | none => bad
    | none => bad
  | ["fromd", i, mode] =>
    -- `StateManager.from_dict(<dictionary of op i>)`: a second manager; this manager is not touched
    match parseOp sim.recs s!"imp:{i}:{mode}" with
    | some _ => plain "U" sim.s (sim.others + 1)
    | none => bad
  | _ =>
    match parseOp sim.recs t with
    | none => bad
    | some op =>
      if (match op with | .computeResults => !wellFormed sim.s | .logw _ => !wellFormed sim.s | _ => false) then
        plain "skip" sim.s sim.others else
      let q := step sim.s op
      let newAddrs := q.1.escaped.take (q.1.escaped.length - sim.s.escaped.length)
      let rs := match op with
        | .computeResults => (match derefRes q.1.heap q.2 with | .dict d => "D:" ++ showResults (.dict d) | r => showPRes r)
        | .logw _ => (match derefRes q.1.heap q.2 with | .val (.arr c) => s!"L:{c.length}:ok" | r => showPRes r)
        | _ => showPRes (derefRes q.1.heap q.2)
      let d := digest rs q.1 sim.others
      { sim with s := d.1, recs := sim.recs ++ [⟨newAddrs, q.2⟩], out := sim.out ++ [d.2] }

def runOps (ops : String) : String :=
  let toks := if ops == "-" then [] else ops.splitOn ";"
  let sim := toks.foldl exec { s := init, recs := [], out := [] }
  if sim.out.isEmpty then "-" else "|".intercalate sim.out

end Drv.C17

/-
  Nested values (`Model/StateMgrN.lean`):      sm2.run deep=<01> ops=<op>;<op>;…   →   <digest>|<digest>|…
  Same op syntax as `sm.run`, restricted to  set / get / getall / geth / getl / commit / results / todict / imp:<i>:<c|h|ch> / scr,
  with one more argument form:
      O<e>~<e>~…     a new container (object array; a list for the key `assignments`; `D<e>~<e>…` = a dict) with elements
                     e = N | S<int> | A<int>.<int>… | H<i> (the single plain array obtained in op i);  `O` alone = empty container
  `scr:<i>:<val>` overwrites everything obtained in op i: first every array inside a returned container, then every plain
  array, then every element of every container (`o[...] = val`).
  digest:  r=<result>#c=<current>#h=<history>#R=<results | skip>   payloads  N | S<int> | A… | O<p>~<p>… | X (not represented)
  `deep=0` runs the rule before b0f244e (shallow container copies) — used by the harness only to show that the suite
  tells the two rules apart.
-/
namespace Drv.C17N
open Drv
open Model.StateMgr (Key Val Addr Content lookup historyKeys)
open Model.StateMgrN

def showContent (c : Content) : String := "A" ++ ".".intercalate (c.map toString)

def showP1 : P1 → String
  | .none => "N"
  | .scalar x => s!"S{x}"
  | .arr c => showContent c
  | .opaque => "X"

def showPVal : PVal → String
  | .none => "N"
  | .scalar x => s!"S{x}"
  | .arr c => showContent c
  | .objs es => "O" ++ "~".intercalate (es.map showP1)
  | .opaque => "X"

def showDict (d : List (Key × PVal)) : String :=
  ",".intercalate (((Drv.C17.sortKeys d).filter fun kv => kv.2 != PVal.none).map fun kv => s!"{kv.1}:{showPVal kv.2}")
    ++ s!";n={d.length}"

def showHist (d : List (Key × List PVal)) : String :=
  ",".intercalate (((Drv.C17.sortKeys d).filter fun kv => !kv.2.isEmpty).map fun kv =>
      s!"{kv.1}:{"/".intercalate (kv.2.map showPVal)}")
    ++ s!";n={d.length}"

def showPRes : PRes → String
  | .unit => "U"
  | .val v => s!"V:{showPVal v}"
  | .dict d => s!"D:{showDict d}"
  | .export c h => s!"X:{showDict c};{showHist h}"
  | .err e => s!"E:{Drv.C17.showErr e}"

/-- results: `logw` by length; empty arrays omitted (as in `sm.run`) -/
def showResults : PRes → String
  | .dict d => showDict (d.map fun kv => if kv.1 == "logw" then
      (kv.1, match kv.2 with | .arr c => PVal.scalar c.length | v => v)
      else (kv.1, if kv.2 == PVal.arr [] then PVal.none else kv.2))
  | r => showPRes r

def isScalarV : Val → Bool
  | .scalar _ => true
  | _ => false

def wellFormed (s : State) : Bool :=
  match lookup "beta" s.history, lookup "logz" s.history, lookup "logl" s.history with
  | some b, some z, some l =>
    b.isEmpty || (b.all isScalarV && z.all isScalarV && l.all (fun v => match v with | .ref a => isData s.heap a | _ => false)
                  && z.length == b.length && l.length == b.length)
  | _, _, _ => false

structure Rec where
  roots : List Addr
  res : Res

structure Sim where
  s : State
  recs : List Rec
  out : List String

def parseArg1 (recs : List Rec) (t : String) : Option Arg1 :=
  if t == "N" then some .none else
  match t.toList with
  | 'S' :: r => (String.ofList r).toInt?.map Arg1.scalar
  | 'A' :: r =>
    let body := String.ofList r
    if body.isEmpty then some (.fresh []) else ((body.splitOn ".").mapM String.toInt?).map Arg1.fresh
  | 'H' :: r =>
    match (String.ofList r).toNat? with
    | some i => match recs[i]? with
      | some rc => match rc.roots with
        | [a] => some (.held a)
        | _ => none
      | none => none
    | none => none
  | _ => none

def parseArg (recs : List Rec) (t : String) : Option Arg :=
  let container (r : List Char) : Option Arg :=
    let body := String.ofList r
    if body.isEmpty then some (.freshObjs []) else ((body.splitOn "~").mapM (parseArg1 recs)).map Arg.freshObjs
  match t.toList with
  | 'O' :: r => container r      -- object ndarray (a list for the key `assignments`)
  | 'D' :: r => container r      -- dict {"k0": e0, "k1": e1, …}: the same kind of cell (a container of references)
  | _ => (parseArg1 recs t).map fun x => match x with
    | .none => Arg.none
    | .scalar v => .scalar v
    | .fresh p => .fresh p
    | .held a => .held a

def valToArg : Val → Arg
  | .none => .none
  | .scalar x => .scalar x
  | .ref a => .held a

def parseOp (recs : List Rec) (t : String) : Option Op :=
  match t.splitOn ":" with
  | ["set", k, a, c] => match parseArg recs a, Drv.C17.parseBool c with
    | some x, some b => some (.setCurrent k x b)
    | _, _ => none
  | ["get", k] => some (.getCurrent (some k))
  | ["getall"] => some (.getCurrent none)
  | ["geth", k, i, f] => match Drv.C17.parseBool f with
    | some b => if i == "*" then some (.getHistory k none b) else i.toInt?.map fun n => .getHistory k (some n) b
    | none => none
  | ["getl", k] => some (.getLastHistory k)
  | ["commit", st] => (Drv.C17.parseBool st).map Op.commit
  | ["results"] => some .computeResults
  | ["todict"] => some .toDict
  | ["imp", i, mode] =>
    if !(mode.toList.all fun ch => ch == 'c' || ch == 'h') then none else
    match i.toNat? with
    | some n => match recs[n]? with
      | some rc => match rc.res with
        | .export c h =>
          let cur := if mode.toList.contains 'c' then some (c.map fun kv => (kv.1, valToArg kv.2)) else none
          let hist := if mode.toList.contains 'h' then some (h.map fun kv => (kv.1, kv.2.map valToArg)) else none
          some (.updateFromDict cur hist)
        | _ => none
      | none => none
    | none => none
  | _ => none

def Res.roots : Res → List Addr
  | .val v => v.addrs
  | .dict d => Model.StateMgr.dictAddrs d
  | .export c h => Model.StateMgr.dictAddrs c ++ Model.StateMgr.histAddrs h
  | _ => []

def digest (deep : Bool) (r : String) (s : State) : State × String :=
  let hist := (derefHist s.heap s.history).filter fun kv => historyKeys.contains kv.1
  if !wellFormed s then
    (s, s!"r={r}#c={showDict (derefDict s.heap s.current)}#h={showHist hist}#R=skip") else
  let q := step deep s .computeResults
  (q.1, s!"r={r}#c={showDict (derefDict s.heap s.current)}#h={showHist hist}#R={showResults (derefRes q.1.heap q.2)}")

/-- `scr:i:val` -/
def scribbleAll (deep : Bool) (s : State) (roots : List Addr) (val : Int) : State :=
  let inner := roots.flatMap (kids s.heap)
  let fill (st : State) (a : Addr) : State :=
    match bodyAt st.heap a with
    | some (.data c) => (step deep st (.scribble a (c.map fun _ => val))).1
    | _ => st
  let s1 := inner.foldl fill s
  let s2 := roots.foldl fill s1
  roots.foldl (fun st a => match bodyAt st.heap a with
    | some (.objs _) => (step deep st (.scribbleElems a val)).1
    | _ => st) s2

/-- the new arguments of an op that the caller created and still holds (for later `scr` / `H` references) -/
def exec (deep : Bool) (sim : Sim) (t : String) : Sim :=
  let plain (r : String) (s1 : State) : Sim :=
    let d := digest deep r s1
    { s := d.1, recs := sim.recs ++ [⟨[], .unit⟩], out := sim.out ++ [d.2] }
  let bad : Sim := plain "bad-op" sim.s
  match t.splitOn ":" with
  | ["scr", i, v] =>
    match i.toNat?, v.toInt? with
    | some n, some val =>
      match sim.recs[n]? with
      | some rc => plain "U" (scribbleAll deep sim.s rc.roots val)
      | none => bad
    | _, _ => bad
  | _ =>
    match parseOp sim.recs t with
    | none => bad
    | some op =>
      if (match op with | .computeResults => !wellFormed sim.s | _ => false) then plain "skip" sim.s else
      let q := step deep sim.s op
      -- what the caller holds after the op: the returned roots, or the argument it created for a `set`
      let roots := match op with
        | .setCurrent _ (.fresh _) _ => [sim.s.heap.length]
        | .setCurrent _ (.freshObjs es) _ =>
          if q.2 == Res.err .illegal then [] else
          [sim.s.heap.length + es.countP fun e => match e with | .fresh _ => true | _ => false]
        | _ => Res.roots q.2
      let rs := match op with
        | .computeResults => (match derefRes q.1.heap q.2 with | .dict d => "D:" ++ showResults (.dict d) | r => showPRes r)
        | _ => showPRes (derefRes q.1.heap q.2)
      let d := digest deep rs q.1
      { s := d.1, recs := sim.recs ++ [⟨roots, q.2⟩], out := sim.out ++ [d.2] }

def runOps (deep : Bool) (ops : String) : String :=
  let toks := if ops == "-" then [] else ops.splitOn ";"
  let sim := toks.foldl (exec deep) { s := init, recs := [], out := [] }
  if sim.out.isEmpty then "-" else "|".intercalate sim.out

end Drv.C17N

namespace Drv.C17
open Drv Model.StateMgr

/-- `sm.iter ops=<op>;<op>;…` — do the recorded manager calls of one real iteration have the shape of the iteration
    model (`isIterationShape`: body free of commit / import / copy=False, then one commit, then `get_current()`)?
    Answers `ok:<number of body ops>` or `bad`. -/
def iterShape (ops : String) : String :=
  let toks := if ops == "-" then [] else ops.splitOn ";"
  match toks.mapM (parseOp []) with
  | some l => if isIterationShape l then s!"ok:{l.length - 2}" else "bad"
  | none => "bad-op"

/-- `sm.post ops=<prefix> opt=<resample><return_blobs><trim><return_logw><blobs_declared> scr=<val>`:
    run the prefix, call `compute_posterior` with these options, then the caller overwrites every returned array.
    Answers  <result>#<digest after the call>#<digest after the scribbles>  with result = `E:<err>` or the returned slots
    `name=<payload | L<n> (weights / logw: length only) | A? (gathered rows: not represented) | N>` joined by `,`. -/
def runPost (ops : String) (opt : String) (val : Int) : String :=
  let toks := if ops == "-" then [] else ops.splitOn ";"
  let sim := toks.foldl exec { s := init, recs := [], out := [] }
  match opt.toList.map (fun ch => ch == '1') with
  | [rs, rb, tr, rl, bd] =>
    let q := posterior sim.s ⟨rs, rb, tr, rl, bd⟩
    let showSlot (h : Heap) (k : Key) (v : Val) : String := match v with
      | .ref a => (match rd h a with
        | some c => if k == "weights" || k == "logw" then s!"L{c.length}" else showContent c
        | none => "A?")
      | .none => "N"
      | .scalar x => s!"S{x}"
    let rstr := match q.2 with
      | .dict d => ",".intercalate (d.map fun (kv : Key × Val) => s!"{kv.1}={showSlot q.1.heap kv.1 kv.2}")
      | .err e => s!"E:{showErr e}"
      | _ => "?"
    let d1 := digest "-" q.1
    let s2 := scribbleAll d1.1 (Res.addrs q.2) val
    let d2 := digest "-" s2
    s!"{rstr}#{d1.2}#{d2.2}"
  | _ => "bad-op"

/-- `sm.resume ops=<prefix>` — run the prefix, then `resume` (export, `update_from_dict` into a newly constructed manager, the
    defaults of `load_sampler_state`); answers the digest of all reads of the RESUMED manager, then the same digest after the
    caller overwrote every array of the exported dictionary -/
def runResume (ops : String) (val : Int) : String :=
  let toks := if ops == "-" then [] else ops.splitOn ";"
  let sim := toks.foldl exec { s := init, recs := [], out := [] }
  let ex := step sim.s .toDict
  let t := resume sim.s
  let d1 := digest "-" t
  let t2 := scribbleAll d1.1 (Res.addrs ex.2) val
  let d2 := digest "-" t2
  s!"{d1.2}#{d2.2}"

def handle (cmd : String) (args : List (String × String)) : Option String :=
  match cmd with
  | "sm.resume" => some (match getArg args "ops", (getArg args "scr").bind String.toInt? with
      | some ops, some v => runResume ops v
      | _, _ => "bad-op")
  | "sm.run" => some (match getArg args "ops" with
      | some ops => runOps ops
      | none => "bad-op")
  | "sm.iter" => some (match getArg args "ops" with
      | some ops => iterShape ops
      | none => "bad-op")
  | "sm.post" => some (match getArg args "ops", getArg args "opt", (getArg args "scr").bind String.toInt? with
      | some ops, some opt, some v => runPost ops opt v
      | _, _, _ => "bad-op")
  | "sm2.run" => some (match getArg args "ops", getArg args "deep" with
      | some ops, some d => (match parseBool d with
        | some b => Drv.C17N.runOps b ops
        | none => "bad-op")
      | _, _ => "bad-op")
  | _ => none

end Drv.C17
