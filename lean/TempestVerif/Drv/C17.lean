import TempestVerif.Drv.Util
/- line-protocol handlers of property C17 (stub: no commands yet) -/
namespace Drv.C17
open Drv

def handle (cmd : String) (args : List (String × String)) : Option String :=
  match cmd with
  | _ => none

end Drv.C17
