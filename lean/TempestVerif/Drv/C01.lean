import TempestVerif.Drv.Util
import TempestVerif.Model.Pipeline
/- line-protocol handlers of properties C01 / C02 / C10: the whole-iteration pipeline model at Float.

   pipe.F ratio=<f> n=<nat> tolE=<f> tolB=<f> fuel=<nat> syst=<0|1> tapes=<tape>|<tape>|…
     tape (warm-up):    D/<draw tags>/<draw logl, `x` = -inf>/<picks>[/<prior draws discarded before this block>]
     tape (annealing):  A/<resampling uniforms>/<step>+<step>+…        (no step: `-`)
       step:            <prop tags>~<prop logl, `x` = -inf>~<factors>~<uniforms>
   → <iter>|<iter>|…#<batch>|<batch>|…#<final evidence | none>      or   error:<k> (iteration k left the model)
       iter:  <beta>;<ess>;<logz after reweight>;<logz committed>;<idx>;<mask>+<mask>…;<branch>
       batch: <tags>/<logl>
-/
namespace Drv.C01
open Drv Model.Pipeline Model.Reweight

def parseOptF? (s : String) : Option (Option Float) :=
  if s == "x" then some none else (parseFloat? s).map some

def parseStep? (s : String) : Option (Step Float) :=
  match s.splitOn "~" with
  | [a, b, c, d] => do
    let pt ← parseNatList? a
    let pl ← parseList? parseOptF? b
    let f ← parseList? parseFloat? c
    let r ← parseList? parseFloat? d
    pure ⟨pt, pl, f, r⟩
  | _ => none

/-- a tape and the number of prior draws discarded before its stored block (`D/…/<disc>`; absent = 0) -/
def parseTape? (s : String) : Option (Tape Float × Nat) :=
  match s.splitOn "/" with
  | ["D", a, b, c] => do
    let tg ← parseNatList? a
    let l ← parseList? parseOptF? b
    let p ← parseNatList? c
    pure (⟨tg, l, p, [], []⟩, 0)
  | ["D", a, b, c, dd] => do
    let tg ← parseNatList? a
    let l ← parseList? parseOptF? b
    let p ← parseNatList? c
    let disc ← dd.toNat?
    pure (⟨tg, l, p, [], []⟩, disc)
  | ["A", a, b] => do
    let u ← parseList? parseFloat? a
    let st ← if b == "-" then some [] else (b.splitOn "+").mapM parseStep?
    pure (⟨[], [], [], u, st⟩, 0)
  | _ => none

def showMask (m : List Bool) : String := if m.isEmpty then "-" else String.ofList (m.map fun b => if b then '1' else '0')

def showIter (o : IterOut Float) : String :=
  ";".intercalate [showFloat o.beta, showFloat o.ess, showFloat o.logzRw, showFloat o.logz,
    showList toString o.idx, (if o.masks.isEmpty then "-" else "+".intercalate (o.masks.map showMask)), o.branch.name]

def pipe (args : List (String × String)) : Option String := do
  let ratio ← (getArg args "ratio").bind parseFloat?
  let n ← (getArg args "n").bind String.toNat?
  let tolE ← (getArg args "tolE").bind parseFloat?
  let tolB ← (getArg args "tolB").bind parseFloat?
  let fuel ← (getArg args "fuel").bind String.toNat?
  let syst ← (getArg args "syst").map (· == "1")
  let tapes ← (getArg args "tapes").bind fun s => (s.splitOn "|").mapM parseTape?
  let c : PCfg Float := ⟨⟨ratio, n, none, tolE, tolB, fuel⟩, syst⟩
  -- run iteration by iteration so that the failing iteration can be named
  let rec go (s : PState Float) (k : Nat) (acc : List (IterOut Float)) : List (Tape Float × Nat) → Sum Nat (PState Float × List (IterOut Float))
    | [] => .inr (s, acc.reverse)
    | (t, disc) :: ts => match iterateR c s t disc with
      | some (s', o) => go s' (k + 1) (o :: acc) ts
      | none => .inl k
  match go init 0 [] tapes with
  | .inl k => pure s!"error:{k}"
  | .inr (s, outs) =>
    let its := "|".intercalate (outs.map showIter)
    let hs := "|".intercalate (s.hist.map fun b => s!"{showList toString b.tags}/{showList showFloat b.b.logl}")
    let ev := match finalEvidence s with | some z => showFloat z | none => "none"
    pure s!"{its}#{hs}#{ev}"

def handle (cmd : String) (args : List (String × String)) : Option String :=
  match cmd with
  | "pipe.F" => some ((pipe args).getD "bad-op")
  | _ => none

end Drv.C01
