import TempestVerif.Drv.Util
/- line-protocol handlers of property C01 (stub: no commands yet) -/
namespace Drv.C01
open Drv

def handle (cmd : String) (args : List (String × String)) : Option String :=
  match cmd with
  | _ => none

end Drv.C01
