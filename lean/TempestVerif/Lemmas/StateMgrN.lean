import TempestVerif.Model.StateMgrN
import TempestVerif.Lemmas.StateMgr
/-
  Lemmas about the nested StateManager model (`Model/StateMgrN.lean`, C17).  Core Lean only.

  Vocabulary:
    `Own o h h'`   h' = h ++ e, every new cell has owner `o`
    `Blk o h h'`   … and every new container refers to new cells only (a deep copy is a closed block)
    `Closed h`     every element of a `lib` container is a `lib` cell
    `Agree h g`    same length, same owners, same `lib` cells (g = h after the caller wrote into cells it owns)
-/
namespace Model.StateMgrN
open Model.StateMgr (Addr Content Key Val Err lookup insert adjust updateAll currentKeys historyKeys commitKeys entries isNone
  dictAddrs listAddrs histAddrs cacheAddrs mem_dictAddrs mem_listAddrs mem_histAddrs mem_addrs_ref)

/-! ### cells -/

theorem bodyAt_append_lt {h e : Heap} {a : Nat} (ha : a < h.length) : bodyAt (h ++ e) a = bodyAt h a := by
  simp [bodyAt, List.getElem?_append_left ha]

theorem ownerAt_append_lt {h e : Heap} {a : Nat} (ha : a < h.length) : ownerAt (h ++ e) a = ownerAt h a := by
  simp [ownerAt, List.getElem?_append_left ha]

theorem ownerAt_lt {h : Heap} {a : Nat} {o : Owner} (ho : ownerAt h a = some o) : a < h.length := by
  simp only [ownerAt, Option.map_eq_some_iff] at ho
  obtain ⟨c, hc, _⟩ := ho
  exact (List.getElem?_eq_some_iff.1 hc).1

theorem bodyAt_lt {h : Heap} {a : Nat} {b : Body} (hb : bodyAt h a = some b) : a < h.length := by
  simp only [bodyAt, Option.map_eq_some_iff] at hb
  obtain ⟨c, hc, _⟩ := hb
  exact (List.getElem?_eq_some_iff.1 hc).1

theorem cell_of_ge {h e : Heap} {a : Nat} {c : Cell} (hge : h.length ≤ a) (hc : (h ++ e)[a]? = some c) : c ∈ e := by
  rw [List.getElem?_append_right hge] at hc
  exact List.mem_of_getElem? hc

theorem ownerAt_new {h e : Heap} {o : Owner} (ho : ∀ c ∈ e, c.owner = o) {a : Nat} (hge : h.length ≤ a)
    (hlt : a < h.length + e.length) : ownerAt (h ++ e) a = some o := by
  have hlt' : a < (h ++ e).length := by simpa using hlt
  obtain ⟨c, hc⟩ : ∃ c, (h ++ e)[a]? = some c := ⟨_, List.getElem?_eq_getElem hlt'⟩
  simp [ownerAt, hc, ho c (cell_of_ge hge hc)]

/-! ### blocks of new cells -/

def Own (o : Owner) (h h' : Heap) : Prop := ∃ e, h' = h ++ e ∧ ∀ c ∈ e, c.owner = o

def Blk (o : Owner) (h h' : Heap) : Prop :=
  ∃ e, h' = h ++ e ∧ (∀ c ∈ e, c.owner = o) ∧
    ∀ c ∈ e, ∀ es, c.body = Body.objs es → ∀ b : Nat, b ∈ listAddrs es → h.length ≤ b ∧ b < h.length + e.length

theorem Blk.own {o : Owner} {h h' : Heap} (b : Blk o h h') : Own o h h' := by
  obtain ⟨e, h1, h2, _⟩ := b; exact ⟨e, h1, h2⟩

theorem Own.le {o : Owner} {h h' : Heap} (b : Own o h h') : h.length ≤ h'.length := by
  obtain ⟨e, rfl, _⟩ := b; simp

theorem Blk.le {o : Owner} {h h' : Heap} (b : Blk o h h') : h.length ≤ h'.length := b.own.le

theorem Own.refl (o : Owner) (h : Heap) : Own o h h := ⟨[], by simp, by simp⟩
theorem Blk.refl (o : Owner) (h : Heap) : Blk o h h := ⟨[], by simp, by simp, by simp⟩

theorem Own.trans {o : Owner} {h1 h2 h3 : Heap} (a : Own o h1 h2) (b : Own o h2 h3) : Own o h1 h3 := by
  obtain ⟨e1, rfl, o1⟩ := a
  obtain ⟨e2, rfl, o2⟩ := b
  refine ⟨e1 ++ e2, by simp, fun c hc => ?_⟩
  rcases List.mem_append.1 hc with h | h
  · exact o1 c h
  · exact o2 c h

theorem Blk.trans {o : Owner} {h1 h2 h3 : Heap} (a : Blk o h1 h2) (b : Blk o h2 h3) : Blk o h1 h3 := by
  obtain ⟨e1, rfl, o1, k1⟩ := a
  obtain ⟨e2, rfl, o2, k2⟩ := b
  refine ⟨e1 ++ e2, by simp, fun c hc => ?_, fun c hc es hes b hb => ?_⟩
  · rcases List.mem_append.1 hc with h | h
    · exact o1 c h
    · exact o2 c h
  · rcases List.mem_append.1 hc with h | h
    · have := k1 c h es hes b hb
      simp only [List.length_append]; omega
    · have := k2 c h es hes b hb
      simp only [List.length_append] at this ⊢; omega

theorem Own.body_eq {o : Owner} {h h' : Heap} (b : Own o h h') {a : Nat} (ha : a < h.length) : bodyAt h' a = bodyAt h a := by
  obtain ⟨e, rfl, _⟩ := b; exact bodyAt_append_lt ha

theorem Own.owner_eq {o : Owner} {h h' : Heap} (b : Own o h h') {a : Nat} (ha : a < h.length) : ownerAt h' a = ownerAt h a := by
  obtain ⟨e, rfl, _⟩ := b; exact ownerAt_append_lt ha

theorem Own.owner_some {o : Owner} {h h' : Heap} (b : Own o h h') {a : Nat} {x : Owner} (ha : ownerAt h a = some x) :
    ownerAt h' a = some x := by
  rw [b.owner_eq (ownerAt_lt ha)]; exact ha

theorem Own.new {o : Owner} {h h' : Heap} (b : Own o h h') {a : Nat} (hge : h.length ≤ a) (hlt : a < h'.length) :
    ownerAt h' a = some o := by
  obtain ⟨e, rfl, ho⟩ := b
  exact ownerAt_new ho hge (by simpa using hlt)

theorem Own.getElem {o : Owner} {h h' : Heap} (b : Own o h h') {a : Nat} (ha : a < h.length) : h'[a]? = h[a]? := by
  obtain ⟨e, rfl, _⟩ := b; exact List.getElem?_append_left ha

theorem blk_alloc_flat (o : Owner) (h : Heap) (b : Body) (hb : ∀ es, b ≠ Body.objs es) : Blk o h (alloc h b o).1 := by
  refine ⟨[⟨b, o⟩], rfl, by simp, fun c hc es hes => ?_⟩
  simp only [List.mem_singleton] at hc
  subst hc
  exact absurd hes (hb es)

theorem blk_alloc_objs (o : Owner) (h0 h : Heap) (es : List Val) (hb : Blk o h0 h)
    (hes : ∀ b : Nat, b ∈ listAddrs es → h0.length ≤ b ∧ b < h.length) : Blk o h0 (alloc h (.objs es) o).1 := by
  obtain ⟨e1, rfl, o1, k1⟩ := hb
  refine ⟨e1 ++ [⟨.objs es, o⟩], by simp [alloc], fun c hc => ?_, fun c hc es' hes' b hb' => ?_⟩
  · rcases List.mem_append.1 hc with h | h
    · exact o1 c h
    · simp only [List.mem_singleton] at h; subst h; rfl
  · rcases List.mem_append.1 hc with h | h
    · have := k1 c h es' hes' b hb'
      simp only [List.length_append, List.length_singleton]; omega
    · simp only [List.mem_singleton] at h
      subst h
      simp only [Body.objs.injEq] at hes'
      subst hes'
      have := hes b hb'
      simp only [List.length_append, List.length_singleton] at this ⊢; omega

/-! ### deep copies are closed blocks of new cells, and what they return is new -/

theorem alloc_fresh {h : Heap} {b : Body} {o : Owner} {a : Nat} (ha : a ∈ (alloc h b o).2.addrs) :
    h.length ≤ a ∧ a < (alloc h b o).1.length := by
  simp only [alloc, Val.addrs, List.mem_singleton] at ha
  subst ha; simp [alloc]

theorem copyElem_blk (o : Owner) (h : Heap) (v : Val) : Blk o h (copyElem o h v).1 := by
  cases v with
  | none => exact Blk.refl _ _
  | scalar x => exact Blk.refl _ _
  | ref b =>
    simp only [copyElem]
    split
    · exact blk_alloc_flat o h _ (by simp)
    · exact blk_alloc_flat o h _ (by simp)

theorem copyElem_fresh {o : Owner} {h : Heap} {v : Val} {a : Nat} (ha : a ∈ (copyElem o h v).2.addrs) :
    h.length ≤ a ∧ a < (copyElem o h v).1.length := by
  cases v with
  | none => simp [copyElem, Val.addrs] at ha
  | scalar x => simp [copyElem, Val.addrs] at ha
  | ref b =>
    simp only [copyElem] at ha ⊢
    split at ha <;> exact alloc_fresh ha

theorem copyElems_blk (o : Owner) (h : Heap) (l : List Val) : Blk o h (copyElems o h l).1 := by
  induction l generalizing h with
  | nil => exact Blk.refl _ _
  | cons v vs ih => exact (copyElem_blk o h v).trans (ih _)

theorem copyElems_fresh {o : Owner} {h : Heap} {l : List Val} {a : Nat} (ha : a ∈ listAddrs (copyElems o h l).2) :
    h.length ≤ a ∧ a < (copyElems o h l).1.length := by
  induction l generalizing h with
  | nil => simp [copyElems, listAddrs] at ha
  | cons v vs ih =>
    simp only [copyElems, listAddrs, List.flatMap_cons, List.mem_append] at ha
    have e1 := (copyElem_blk o h v).le
    have e2 := (copyElems_blk o (copyElem o h v).1 vs).le
    rcases ha with ha | ha
    · have := copyElem_fresh ha
      simp only [copyElems]; omega
    · have := ih (h := (copyElem o h v).1) (by simpa [listAddrs] using ha)
      simp only [copyElems]; omega

theorem copyVal_blk (o : Owner) (h : Heap) (v : Val) : Blk o h (copyVal true o h v).1 := by
  cases v with
  | none => exact Blk.refl _ _
  | scalar x => exact Blk.refl _ _
  | ref b =>
    simp only [copyVal]
    split
    · exact blk_alloc_flat o h _ (by simp)
    · rename_i es _
      simp only [if_true]
      exact blk_alloc_objs o h _ _ (copyElems_blk o h es) (fun b hb => copyElems_fresh hb)
    · exact blk_alloc_flat o h _ (by simp)

theorem copyVal_fresh {o : Owner} {h : Heap} {v : Val} {a : Nat} (ha : a ∈ (copyVal true o h v).2.addrs) :
    h.length ≤ a ∧ a < (copyVal true o h v).1.length := by
  cases v with
  | none => simp [copyVal, Val.addrs] at ha
  | scalar x => simp [copyVal, Val.addrs] at ha
  | ref b =>
    simp only [copyVal] at ha ⊢
    split at ha
    · exact alloc_fresh ha
    · rename_i es _
      simp only [if_true] at ha ⊢
      have := alloc_fresh ha
      have := (copyElems_blk o h es).le
      omega
    · exact alloc_fresh ha

theorem copyList_blk (o : Owner) (h : Heap) (l : List Val) : Blk o h (copyList true o h l).1 := by
  induction l generalizing h with
  | nil => exact Blk.refl _ _
  | cons v vs ih => exact (copyVal_blk o h v).trans (ih _)

theorem copyList_fresh {o : Owner} {h : Heap} {l : List Val} {a : Nat} (ha : a ∈ listAddrs (copyList true o h l).2) :
    h.length ≤ a ∧ a < (copyList true o h l).1.length := by
  induction l generalizing h with
  | nil => simp [copyList, listAddrs] at ha
  | cons v vs ih =>
    simp only [copyList, listAddrs, List.flatMap_cons, List.mem_append] at ha
    have e1 := (copyVal_blk o h v).le
    have e2 := (copyList_blk o (copyVal true o h v).1 vs).le
    rcases ha with ha | ha
    · have := copyVal_fresh ha
      simp only [copyList]; omega
    · have := ih (h := (copyVal true o h v).1) (by simpa [listAddrs] using ha)
      simp only [copyList]; omega

theorem copyDict_blk (o : Owner) (h : Heap) (d : List (Key × Val)) : Blk o h (copyDict true o h d).1 := by
  induction d generalizing h with
  | nil => exact Blk.refl _ _
  | cons kv r ih => obtain ⟨k, v⟩ := kv; exact (copyVal_blk o h v).trans (ih _)

theorem copyDict_fresh {o : Owner} {h : Heap} {d : List (Key × Val)} {a : Nat} (ha : a ∈ dictAddrs (copyDict true o h d).2) :
    h.length ≤ a ∧ a < (copyDict true o h d).1.length := by
  induction d generalizing h with
  | nil => simp [copyDict, dictAddrs] at ha
  | cons kv r ih =>
    obtain ⟨k, v⟩ := kv
    simp only [copyDict, dictAddrs, List.flatMap_cons, List.mem_append] at ha
    have e1 := (copyVal_blk o h v).le
    have e2 := (copyDict_blk o (copyVal true o h v).1 r).le
    rcases ha with ha | ha
    · have := copyVal_fresh ha
      simp only [copyDict]; omega
    · have := ih (h := (copyVal true o h v).1) (by simpa [dictAddrs] using ha)
      simp only [copyDict]; omega

theorem copyHist_blk (o : Owner) (h : Heap) (d : List (Key × List Val)) : Blk o h (copyHist true o h d).1 := by
  induction d generalizing h with
  | nil => exact Blk.refl _ _
  | cons kv r ih => obtain ⟨k, l⟩ := kv; exact (copyList_blk o h l).trans (ih _)

theorem copyHist_fresh {o : Owner} {h : Heap} {d : List (Key × List Val)} {a : Nat}
    (ha : a ∈ histAddrs (copyHist true o h d).2) : h.length ≤ a ∧ a < (copyHist true o h d).1.length := by
  induction d generalizing h with
  | nil => simp [copyHist, histAddrs] at ha
  | cons kv r ih =>
    obtain ⟨k, l⟩ := kv
    simp only [copyHist, histAddrs, List.flatMap_cons, List.mem_append] at ha
    have e1 := (copyList_blk o h l).le
    have e2 := (copyHist_blk o (copyList true o h l).1 r).le
    rcases ha with ha | ha
    · have := copyList_fresh ha
      simp only [copyHist]; omega
    · have := ih (h := (copyList true o h l).1) (by simpa [histAddrs] using ha)
      simp only [copyHist]; omega

theorem stackAlloc_cases (o : Owner) (h : Heap) (l : List Val) :
    (∃ es, stackAlloc true o h l = alloc (copyElems o h es).1 (.objs (copyElems o h es).2) o) ∨
    (∃ b : Body, (∀ es, b ≠ Body.objs es) ∧ stackAlloc true o h l = alloc h b o) := by
  simp only [stackAlloc]
  split
  · split
    · rename_i es _
      exact Or.inl ⟨es, by simp⟩
    · exact Or.inr ⟨_, by simp, rfl⟩
  · split
    · exact Or.inr ⟨_, by simp, rfl⟩
    · exact Or.inr ⟨_, by simp, rfl⟩

theorem stackAlloc_blk (o : Owner) (h : Heap) (l : List Val) : Blk o h (stackAlloc true o h l).1 := by
  rcases stackAlloc_cases o h l with ⟨es, he⟩ | ⟨b, hb, he⟩
  · rw [he]
    exact blk_alloc_objs o h _ _ (copyElems_blk o h es) (fun b hb => copyElems_fresh hb)
  · rw [he]
    exact blk_alloc_flat o h b hb

theorem stackAlloc_fresh {o : Owner} {h : Heap} {l : List Val} {a : Nat} (ha : a ∈ (stackAlloc true o h l).2.addrs) :
    h.length ≤ a ∧ a < (stackAlloc true o h l).1.length := by
  rcases stackAlloc_cases o h l with ⟨es, he⟩ | ⟨b, hb, he⟩
  · rw [he] at ha ⊢
    have := alloc_fresh ha
    have := (copyElems_blk o h es).le
    omega
  · rw [he] at ha ⊢
    exact alloc_fresh ha

theorem fillCache_blk (d : List (Key × List Val)) (h : Heap) (c : List (Key × Val)) :
    Blk .lib h (fillCache true d h c).1 := by
  induction d generalizing h c with
  | nil => exact Blk.refl _ _
  | cons kv r ih =>
    obtain ⟨k, l⟩ := kv
    simp only [fillCache]
    split
    · exact (stackAlloc_blk .lib h l).trans (ih _ _)
    · exact Blk.refl _ _

theorem fillCache_fresh {d : List (Key × List Val)} {h : Heap} {c : List (Key × Val)} {a : Nat}
    (ha : a ∈ dictAddrs (fillCache true d h c).2.1) :
    a ∈ dictAddrs c ∨ (h.length ≤ a ∧ a < (fillCache true d h c).1.length) := by
  induction d generalizing h c with
  | nil => exact Or.inl ha
  | cons kv r ih =>
    obtain ⟨k, l⟩ := kv
    simp only [fillCache] at ha ⊢
    split at ha
    · rename_i hk
      simp only [hk, if_true]
      have e1 := (stackAlloc_blk .lib h l).le
      have e2 := (fillCache_blk r (stackAlloc true .lib h l).1 (insert k (stackAlloc true .lib h l).2 c)).le
      rcases ih ha with h1 | h1
      · rcases Model.StateMgr.dictAddrs_insert h1 with h2 | h2
        · exact Or.inl h2
        · have := stackAlloc_fresh h2
          exact Or.inr ⟨this.1, by omega⟩
      · exact Or.inr ⟨by omega, h1.2⟩
    · rename_i hk
      simp only [hk]
      exact Or.inl ha

/-! ### what the caller creates is caller-owned -/

theorem own_alloc (o : Owner) (h : Heap) (b : Body) : Own o h (alloc h b o).1 := ⟨[⟨b, o⟩], rfl, by simp⟩

theorem resolve1_own (h : Heap) (x : Arg1) : Own .usr h (resolve1 h x).1 := by
  cases x <;> simp only [resolve1]
  · exact Own.refl _ _
  · exact Own.refl _ _
  · exact own_alloc _ _ _
  · exact Own.refl _ _

theorem resolveElems_own (h : Heap) (l : List Arg1) : Own .usr h (resolveElems h l).1 := by
  induction l generalizing h with
  | nil => exact Own.refl _ _
  | cons x xs ih => exact (resolve1_own h x).trans (ih _)

theorem resolveArg_own (h : Heap) (x : Arg) : Own .usr h (resolveArg h x).1 := by
  cases x <;> simp only [resolveArg]
  · exact Own.refl _ _
  · exact Own.refl _ _
  · exact own_alloc _ _ _
  · exact Own.refl _ _
  · exact (resolveElems_own h _).trans (own_alloc _ _ _)

theorem resolveList_own (h : Heap) (l : List Arg) : Own .usr h (resolveList h l).1 := by
  induction l generalizing h with
  | nil => exact Own.refl _ _
  | cons x xs ih => exact (resolveArg_own h x).trans (ih _)

theorem resolveDict_own (h : Heap) (l : List (Key × Arg)) : Own .usr h (resolveDict h l).1 := by
  induction l generalizing h with
  | nil => exact Own.refl _ _
  | cons kv xs ih => obtain ⟨k, x⟩ := kv; exact (resolveArg_own h x).trans (ih _)

theorem resolveHist_own (h : Heap) (l : List (Key × List Arg)) : Own .usr h (resolveHist h l).1 := by
  induction l generalizing h with
  | nil => exact Own.refl _ _
  | cons kv xs ih => obtain ⟨k, x⟩ := kv; exact (resolveList_own h x).trans (ih _)

/-! ### closedness of the library's containers -/

/-- every element of a container the library owns is a cell the library owns -/
def Closed (h : Heap) : Prop :=
  ∀ (a : Nat) (es : List Val), h[a]? = some ⟨.objs es, .lib⟩ → ∀ b : Nat, b ∈ listAddrs es → ownerAt h b = some .lib

theorem Closed.own_usr {h h' : Heap} (hc : Closed h) (b : Own .usr h h') : Closed h' := by
  intro a es ha x hx
  by_cases hlt : a < h.length
  · rw [b.getElem hlt] at ha
    exact b.owner_some (hc a es ha x hx)
  · obtain ⟨e, rfl, ho⟩ := b
    have := ho _ (cell_of_ge (Nat.le_of_not_lt hlt) ha)
    simp at this

theorem Closed.blk_lib {h h' : Heap} (hc : Closed h) (b : Blk .lib h h') : Closed h' := by
  intro a es ha x hx
  by_cases hlt : a < h.length
  · rw [b.own.getElem hlt] at ha
    exact b.own.owner_some (hc a es ha x hx)
  · obtain ⟨e, rfl, ho, hk⟩ := b
    have hm := cell_of_ge (Nat.le_of_not_lt hlt) ha
    have := hk _ hm es rfl x hx
    exact ownerAt_new ho this.1 this.2

theorem Closed.set_usr {h : Heap} (hc : Closed h) {a : Nat} {b0 b1 : Body} (hcell : h[a]? = some ⟨b0, .usr⟩) :
    Closed (h.set a ⟨b1, .usr⟩) := by
  intro x es hx y hy
  have hne : a ≠ x := by
    intro heq
    subst heq
    have hlt := (List.getElem?_eq_some_iff.1 hcell).1
    rw [List.getElem?_set_self hlt] at hx
    simp at hx
  rw [List.getElem?_set_ne hne] at hx
  have := hc x es hx y hy
  by_cases hay : a = y
  · subst hay
    simp [ownerAt, hcell] at this
  · simpa [ownerAt, List.getElem?_set_ne hay] using this

/-! ### the invariant -/

/-- everything `_history` and the results cache point to is library-owned, everything `_current` points to is
    library-owned unless the caller asked for it to be stored by reference (`copy=False`), and library-owned
    containers contain library-owned cells only.  Library-owned cells are never written by the caller. -/
structure Inv (s : State) : Prop where
  cur : ∀ a : Nat, a ∈ dictAddrs s.current → ownerAt s.heap a = some .lib ∨ a ∈ s.imported
  hist : ∀ a : Nat, a ∈ histAddrs s.history → ownerAt s.heap a = some .lib
  cache : ∀ a : Nat, a ∈ cacheAddrs s.cache → ownerAt s.heap a = some .lib
  closed : Closed s.heap

theorem Inv.grow_usr {s : State} {h' : Heap} (hI : Inv s) (b : Own .usr s.heap h') : Inv { s with heap := h' } :=
  ⟨fun a ha => (hI.cur a ha).imp b.owner_some id, fun a ha => b.owner_some (hI.hist a ha),
   fun a ha => b.owner_some (hI.cache a ha), hI.closed.own_usr b⟩

theorem Inv.grow_lib {s : State} {h' : Heap} (hI : Inv s) (b : Blk .lib s.heap h') : Inv { s with heap := h' } :=
  ⟨fun a ha => (hI.cur a ha).imp b.own.owner_some id, fun a ha => b.own.owner_some (hI.hist a ha),
   fun a ha => b.own.owner_some (hI.cache a ha), hI.closed.blk_lib b⟩

theorem Inv.cache_none {s : State} (hI : Inv s) : Inv { s with cache := none } :=
  ⟨hI.cur, hI.hist, fun a ha => by simp [cacheAddrs] at ha, hI.closed⟩

theorem ownerAt_set_usr {h : Heap} {a : Nat} {b0 b1 : Body} (hcell : h[a]? = some ⟨b0, .usr⟩) (x : Nat) :
    ownerAt (h.set a ⟨b1, .usr⟩) x = ownerAt h x := by
  by_cases hax : a = x
  · subst hax
    have hlt := (List.getElem?_eq_some_iff.1 hcell).1
    simp [ownerAt, List.getElem?_set_self hlt, hcell]
  · simp [ownerAt, List.getElem?_set_ne hax]

theorem Inv.set_usr {s : State} (hI : Inv s) {a : Nat} {b0 b1 : Body} (hcell : s.heap[a]? = some ⟨b0, .usr⟩) :
    Inv { s with heap := s.heap.set a ⟨b1, .usr⟩ } :=
  ⟨fun x hx => by rw [ownerAt_set_usr hcell]; exact hI.cur x hx,
   fun x hx => by rw [ownerAt_set_usr hcell]; exact hI.hist x hx,
   fun x hx => by rw [ownerAt_set_usr hcell]; exact hI.cache x hx,
   hI.closed.set_usr hcell⟩

theorem commitLoop_frame (ks : List Key) (s : State) :
    (commitLoop true ks s).current = s.current ∧ (commitLoop true ks s).cache = s.cache ∧
    (commitLoop true ks s).imported = s.imported ∧ Blk .lib s.heap (commitLoop true ks s).heap := by
  induction ks generalizing s with
  | nil => exact ⟨rfl, rfl, rfl, Blk.refl _ _⟩
  | cons k ks ih =>
    simp only [commitLoop]
    split
    · split
      · exact ih s
      · rename_i v _ _
        obtain ⟨h1, h2, h3, h4⟩ :=
          ih { s with heap := (copyVal true .lib s.heap v).1,
                      history := adjust k (fun l => l ++ [(copyVal true .lib s.heap v).2]) s.history }
        exact ⟨h1, h2, h3, (copyVal_blk _ _ _).trans h4⟩
    · exact ih s

theorem inv_commitLoop {ks : List Key} {s : State} (hI : Inv s) : Inv (commitLoop true ks s) := by
  induction ks generalizing s with
  | nil => exact hI
  | cons k ks ih =>
    simp only [commitLoop]
    split
    · split
      · exact ih hI
      · rename_i v _ _
        apply ih
        have b := copyVal_blk .lib s.heap v
        have g := hI.grow_lib b
        refine ⟨g.cur, fun a ha => ?_, g.cache, g.closed⟩
        rcases Model.StateMgr.histAddrs_adjust_snoc ha with h1 | h1
        · exact g.hist a h1
        · have hf := copyVal_fresh h1
          exact b.own.new hf.1 hf.2
    · exact ih hI

theorem step_inv (s : State) (o : Op) (hI : Inv s) : Inv (step true s o).1 := by
  cases o with
  | setCurrent k x copy =>
    simp only [step]
    split
    · exact hI
    · have g := hI.grow_usr (resolveArg_own s.heap x)
      split
      · exact g
      · split
        · -- copy=True: a deep copy owned by the library
          have b := copyVal_blk .lib (resolveArg s.heap x).1 (resolveArg s.heap x).2
          have g2 := g.grow_lib b
          refine ⟨fun a ha => ?_, g2.hist, fun a ha => by simp [cacheAddrs] at ha, g2.closed⟩
          rcases Model.StateMgr.dictAddrs_insert ha with h1 | h1
          · exact g2.cur a h1
          · have hf := copyVal_fresh h1
            exact Or.inl (b.own.new hf.1 hf.2)
        · -- copy=False: the caller's object itself, recorded in `imported`
          refine ⟨fun a ha => ?_, g.hist, fun a ha => by simp [cacheAddrs] at ha, g.closed⟩
          rcases Model.StateMgr.dictAddrs_insert ha with h1 | h1
          · exact (g.cur a h1).imp id (fun h => List.mem_append_right _ h)
          · refine Or.inr (List.mem_append_left _ ?_)
            rw [mem_addrs_ref.1 h1]
            simp [closure]
  | getCurrent k =>
    cases k with
    | some k =>
      simp only [step]
      split
      · exact hI
      · split
        · exact hI
        · exact hI.grow_usr (copyVal_blk .usr _ _).own
    | none =>
      simp only [step]
      exact hI.grow_usr (copyDict_blk .usr _ _).own
  | getHistory k index flat =>
    simp only [step]
    split
    · exact hI
    · split
      · exact hI
      · split
        · split
          · exact hI
          · exact hI.grow_usr (stackAlloc_blk .usr _ _).own
        · split
          · exact hI
          · split
            · exact hI
            · exact hI.grow_usr (copyVal_blk .usr _ _).own
  | getLastHistory k =>
    simp only [step]
    split
    · exact hI
    · split
      · exact hI
      · split
        · exact hI
        · exact hI.grow_usr (copyVal_blk .usr _ _).own
  | commit strict =>
    simp only [step]
    split
    · exact hI
    · exact (inv_commitLoop hI).cache_none
  | computeResults =>
    simp only [step]
    split
    · exact hI.grow_usr (copyDict_blk .usr _ _).own
    · have bf := fillCache_blk s.history s.heap []
      have gf := hI.grow_lib bf
      split
      · refine ⟨gf.cur, gf.hist, fun a ha => ?_, gf.closed⟩
        simp only [cacheAddrs] at ha
        rcases fillCache_fresh ha with h1 | h1
        · simp [dictAddrs] at h1
        · exact bf.own.new h1.1 h1.2
      · have bw : Blk .lib (fillCache true s.history s.heap []).1
            (alloc (fillCache true s.history s.heap []).1 (logwStub (fillCache true s.history s.heap []).1 s.history) .lib).1 :=
          blk_alloc_flat _ _ _ (by
            intro es
            simp only [logwStub]
            split
            · split <;> simp
            · simp)
        have gw := gf.grow_lib bw
        have g1 : Inv { s with heap := (alloc (fillCache true s.history s.heap []).1 (logwStub (fillCache true s.history s.heap []).1 s.history) .lib).1,
                               cache := some (insert "logw" (alloc (fillCache true s.history s.heap []).1 (logwStub (fillCache true s.history s.heap []).1 s.history) .lib).2
                                 (fillCache true s.history s.heap []).2.1) } := by
          refine ⟨gw.cur, gw.hist, fun a ha => ?_, gw.closed⟩
          simp only [cacheAddrs] at ha
          rcases Model.StateMgr.dictAddrs_insert ha with h2 | h2
          · rcases fillCache_fresh h2 with h1 | h1
            · simp [dictAddrs] at h1
            · exact bw.own.owner_some (bf.own.new h1.1 h1.2)
          · have hf := alloc_fresh h2
            exact bw.own.new hf.1 hf.2
        exact g1.grow_usr (copyDict_blk .usr _ _).own
  | toDict =>
    simp only [step]
    exact hI.grow_usr ((copyDict_blk .usr _ _).trans (copyHist_blk .usr _ _)).own
  | updateFromDict cur hist =>
    simp only [step]
    split
    · exact hI
    · have g := hI.grow_usr ((resolveDict_own s.heap (entries cur)).trans (resolveHist_own _ (entries hist)))
      have b1 := copyDict_blk .lib (resolveHist (resolveDict s.heap (entries cur)).1 (entries hist)).1 (resolveDict s.heap (entries cur)).2
      have b2 := copyHist_blk .lib (copyDict true .lib (resolveHist (resolveDict s.heap (entries cur)).1 (entries hist)).1 (resolveDict s.heap (entries cur)).2).1
        (resolveHist (resolveDict s.heap (entries cur)).1 (entries hist)).2
      have g2 := g.grow_lib (b1.trans b2)
      refine ⟨fun a ha => ?_, fun a ha => ?_, fun a ha => by simp [cacheAddrs] at ha, g2.closed⟩
      · rcases Model.StateMgr.dictAddrs_updateAll ha with h2 | h2
        · exact g2.cur a h2
        · have hf := copyDict_fresh h2
          have := b2.le
          exact Or.inl ((b1.trans b2).own.new hf.1 (by omega))
      · rcases Model.StateMgr.histAddrs_updateAll ha with h2 | h2
        · exact g2.hist a h2
        · have hf := copyHist_fresh h2
          have := b1.le
          exact (b1.trans b2).own.new (by omega) hf.2
  | scribble a p =>
    simp only [step]
    split
    · rename_i heq
      exact hI.set_usr heq
    · exact hI
  | scribbleElems a x =>
    simp only [step]
    split
    · rename_i heq
      exact hI.set_usr heq
    · exact hI

theorem init_inv : Inv init := by
  refine ⟨fun a ha => ?_, fun a ha => ?_, fun a ha => ?_, fun a es ha => ?_⟩
  · have : a ∈ Model.StateMgr.dictAddrs Model.StateMgr.init.current := ha
    have h0 : Model.StateMgr.dictAddrs Model.StateMgr.init.current = [] := by decide
    rw [h0] at this; cases this
  · have : a ∈ Model.StateMgr.histAddrs Model.StateMgr.init.history := ha
    have h0 : Model.StateMgr.histAddrs Model.StateMgr.init.history = [] := by decide
    rw [h0] at this; cases this
  · simp [init, cacheAddrs] at ha
  · simp [init] at ha

theorem run_inv (ops : List Op) (s : State) (hI : Inv s) : Inv (run true s ops) := by
  induction ops generalizing s with
  | nil => exact hI
  | cons o os ih => exact ih _ (step_inv s o hI)

theorem Closed.blk {o : Owner} {h h' : Heap} (hc : Closed h) (b : Blk o h h') : Closed h' := by
  cases o with
  | lib => exact hc.blk_lib b
  | usr => exact hc.own_usr b.own

/-! ### two heaps that differ only in cells the caller owns -/

/-- `g` is `h` after the caller wrote into cells it owns: same size, same owners, same library cells -/
structure Agree (h g : Heap) : Prop where
  len : h.length = g.length
  own : ∀ a : Nat, ownerAt g a = ownerAt h a
  lib : ∀ a : Nat, ownerAt h a = some .lib → g[a]? = h[a]?

theorem Agree.refl (h : Heap) : Agree h h := ⟨rfl, fun _ => rfl, fun _ _ => rfl⟩

theorem Agree.append {h g : Heap} (ag : Agree h g) (e : Heap) : Agree (h ++ e) (g ++ e) := by
  refine ⟨by simp [ag.len], fun a => ?_, fun a ha => ?_⟩
  · by_cases hlt : a < h.length
    · have hlt' : a < g.length := by rw [← ag.len]; exact hlt
      rw [ownerAt_append_lt hlt, ownerAt_append_lt hlt', ag.own]
    · have hge : h.length ≤ a := Nat.le_of_not_lt hlt
      have hge' : g.length ≤ a := by rw [← ag.len]; exact hge
      simp [ownerAt, List.getElem?_append_right hge, List.getElem?_append_right hge', ag.len]
  · by_cases hlt : a < h.length
    · have hlt' : a < g.length := by rw [← ag.len]; exact hlt
      rw [ownerAt_append_lt hlt] at ha
      rw [List.getElem?_append_left hlt, List.getElem?_append_left hlt', ag.lib a ha]
    · have hge : h.length ≤ a := Nat.le_of_not_lt hlt
      have hge' : g.length ≤ a := by rw [← ag.len]; exact hge
      simp [List.getElem?_append_right hge, List.getElem?_append_right hge', ag.len]

theorem Agree.body {h g : Heap} (ag : Agree h g) {a : Nat} (ha : ownerAt h a = some .lib) : bodyAt g a = bodyAt h a := by
  simp [bodyAt, ag.lib a ha]

theorem agree_set_usr {h : Heap} {a : Nat} {b0 b1 : Body} (hcell : h[a]? = some ⟨b0, .usr⟩) :
    Agree h (h.set a ⟨b1, .usr⟩) := by
  refine ⟨by simp, fun x => ownerAt_set_usr hcell x, fun x hx => ?_⟩
  have hne : a ≠ x := by
    intro heq; subst heq
    simp [ownerAt, hcell] at hx
  exact List.getElem?_set_ne hne

/-- both computations append the same new cells and return the same value -/
def Sim {α : Type} (r r' : Heap × α) (h g : Heap) : Prop := ∃ e, r.1 = h ++ e ∧ r'.1 = g ++ e ∧ r.2 = r'.2

theorem sim_alloc (h g : Heap) (b : Body) (o : Owner) (hl : h.length = g.length) : Sim (alloc h b o) (alloc g b o) h g :=
  ⟨[⟨b, o⟩], rfl, rfl, by simp [alloc, hl]⟩

theorem copyElem_sim {h g : Heap} (ag : Agree h g) (o : Owner) (v : Val)
    (hv : ∀ a : Nat, a ∈ v.addrs → ownerAt h a = some .lib) : Sim (copyElem o h v) (copyElem o g v) h g := by
  cases v with
  | none => exact ⟨[], by simp [copyElem], by simp [copyElem], rfl⟩
  | scalar x => exact ⟨[], by simp [copyElem], by simp [copyElem], rfl⟩
  | ref b =>
    have hb := ag.body (hv b (by simp [Val.addrs]))
    simp only [copyElem, hb]
    split
    · exact sim_alloc _ _ _ _ ag.len
    · exact sim_alloc _ _ _ _ ag.len

theorem copyElems_sim {h g : Heap} (ag : Agree h g) (o : Owner) (l : List Val)
    (hv : ∀ a : Nat, a ∈ listAddrs l → ownerAt h a = some .lib) : Sim (copyElems o h l) (copyElems o g l) h g := by
  induction l generalizing h g with
  | nil => exact ⟨[], by simp [copyElems], by simp [copyElems], rfl⟩
  | cons v vs ih =>
    have hv1 : ∀ a : Nat, a ∈ v.addrs → ownerAt h a = some .lib := fun a ha =>
      hv a (by simp only [listAddrs, List.flatMap_cons, List.mem_append]; exact Or.inl ha)
    obtain ⟨e1, p1, q1, r1⟩ := copyElem_sim ag o v hv1
    have ag1 : Agree (copyElem o h v).1 (copyElem o g v).1 := by rw [p1, q1]; exact ag.append e1
    have hvs : ∀ a : Nat, a ∈ listAddrs vs → ownerAt (copyElem o h v).1 a = some .lib := fun a ha =>
      (copyElem_blk o h v).own.owner_some (hv a (by simp only [listAddrs, List.flatMap_cons, List.mem_append]; exact Or.inr ha))
    obtain ⟨e2, p2, q2, r2⟩ := ih ag1 hvs
    refine ⟨e1 ++ e2, ?_, ?_, ?_⟩
    · simp only [copyElems]; rw [p2, p1]; simp
    · simp only [copyElems]; rw [q2, q1]; simp
    · simp only [copyElems]; rw [r1, r2]

theorem copyVal_sim {h g : Heap} (ag : Agree h g) (hc : Closed h) (o : Owner) (v : Val)
    (hv : ∀ a : Nat, a ∈ v.addrs → ownerAt h a = some .lib) : Sim (copyVal true o h v) (copyVal true o g v) h g := by
  cases v with
  | none => exact ⟨[], by simp [copyVal], by simp [copyVal], rfl⟩
  | scalar x => exact ⟨[], by simp [copyVal], by simp [copyVal], rfl⟩
  | ref b =>
    have hlib := hv b (by simp [Val.addrs])
    have hb := ag.body hlib
    simp only [copyVal, hb]
    split
    · exact sim_alloc _ _ _ _ ag.len
    · rename_i es hes
      simp only [if_true]
      have hcell : h[b]? = some ⟨.objs es, .lib⟩ := by
        simp only [bodyAt, Option.map_eq_some_iff] at hes
        obtain ⟨c, hc1, hc2⟩ := hes
        simp only [ownerAt, hc1, Option.map_some, Option.some.injEq] at hlib
        rw [hc1]; cases c; simp_all
      obtain ⟨e1, p1, q1, r1⟩ := copyElems_sim ag o es (fun a ha => hc b es hcell a ha)
      refine ⟨e1 ++ [⟨.objs (copyElems o h es).2, o⟩], ?_, ?_, ?_⟩
      · simp [alloc, p1]
      · simp [alloc, q1, r1]
      · simp [alloc, p1, q1, ag.len]
    · exact sim_alloc _ _ _ _ ag.len

theorem copyList_sim {h g : Heap} (ag : Agree h g) (hc : Closed h) (o : Owner) (l : List Val)
    (hv : ∀ a : Nat, a ∈ listAddrs l → ownerAt h a = some .lib) :
    Sim (copyList true o h l) (copyList true o g l) h g := by
  induction l generalizing h g with
  | nil => exact ⟨[], by simp [copyList], by simp [copyList], rfl⟩
  | cons v vs ih =>
    have hv1 : ∀ a : Nat, a ∈ v.addrs → ownerAt h a = some .lib := fun a ha =>
      hv a (by simp only [listAddrs, List.flatMap_cons, List.mem_append]; exact Or.inl ha)
    obtain ⟨e1, p1, q1, r1⟩ := copyVal_sim ag hc o v hv1
    have ag1 : Agree (copyVal true o h v).1 (copyVal true o g v).1 := by rw [p1, q1]; exact ag.append e1
    have hc1 : Closed (copyVal true o h v).1 := hc.blk (copyVal_blk o h v)
    have hvs : ∀ a : Nat, a ∈ listAddrs vs → ownerAt (copyVal true o h v).1 a = some .lib := fun a ha =>
      (copyVal_blk o h v).own.owner_some (hv a (by simp only [listAddrs, List.flatMap_cons, List.mem_append]; exact Or.inr ha))
    obtain ⟨e2, p2, q2, r2⟩ := ih ag1 hc1 hvs
    refine ⟨e1 ++ e2, ?_, ?_, ?_⟩
    · simp only [copyList]; rw [p2, p1]; simp
    · simp only [copyList]; rw [q2, q1]; simp
    · simp only [copyList]; rw [r1, r2]

theorem copyDict_sim {h g : Heap} (ag : Agree h g) (hc : Closed h) (o : Owner) (d : List (Key × Val))
    (hv : ∀ a : Nat, a ∈ dictAddrs d → ownerAt h a = some .lib) :
    Sim (copyDict true o h d) (copyDict true o g d) h g := by
  induction d generalizing h g with
  | nil => exact ⟨[], by simp [copyDict], by simp [copyDict], rfl⟩
  | cons kv r ih =>
    obtain ⟨k, v⟩ := kv
    have hv1 : ∀ a : Nat, a ∈ v.addrs → ownerAt h a = some .lib := fun a ha =>
      hv a (by simp only [dictAddrs, List.flatMap_cons, List.mem_append]; exact Or.inl ha)
    obtain ⟨e1, p1, q1, r1⟩ := copyVal_sim ag hc o v hv1
    have ag1 : Agree (copyVal true o h v).1 (copyVal true o g v).1 := by rw [p1, q1]; exact ag.append e1
    have hc1 : Closed (copyVal true o h v).1 := hc.blk (copyVal_blk o h v)
    have hvs : ∀ a : Nat, a ∈ dictAddrs r → ownerAt (copyVal true o h v).1 a = some .lib := fun a ha =>
      (copyVal_blk o h v).own.owner_some (hv a (by simp only [dictAddrs, List.flatMap_cons, List.mem_append]; exact Or.inr ha))
    obtain ⟨e2, p2, q2, r2⟩ := ih ag1 hc1 hvs
    refine ⟨e1 ++ e2, ?_, ?_, ?_⟩
    · simp only [copyDict]; rw [p2, p1]; simp
    · simp only [copyDict]; rw [q2, q1]; simp
    · simp only [copyDict]; rw [r1, r2]

theorem copyHist_sim {h g : Heap} (ag : Agree h g) (hc : Closed h) (o : Owner) (d : List (Key × List Val))
    (hv : ∀ a : Nat, a ∈ histAddrs d → ownerAt h a = some .lib) :
    Sim (copyHist true o h d) (copyHist true o g d) h g := by
  induction d generalizing h g with
  | nil => exact ⟨[], by simp [copyHist], by simp [copyHist], rfl⟩
  | cons kv r ih =>
    obtain ⟨k, l⟩ := kv
    have hv1 : ∀ a : Nat, a ∈ listAddrs l → ownerAt h a = some .lib := fun a ha =>
      hv a (by simp only [histAddrs, List.flatMap_cons, List.mem_append]; exact Or.inl ha)
    obtain ⟨e1, p1, q1, r1⟩ := copyList_sim ag hc o l hv1
    have ag1 : Agree (copyList true o h l).1 (copyList true o g l).1 := by rw [p1, q1]; exact ag.append e1
    have hc1 : Closed (copyList true o h l).1 := hc.blk (copyList_blk o h l)
    have hvs : ∀ a : Nat, a ∈ histAddrs r → ownerAt (copyList true o h l).1 a = some .lib := fun a ha =>
      (copyList_blk o h l).own.owner_some (hv a (by simp only [histAddrs, List.flatMap_cons, List.mem_append]; exact Or.inr ha))
    obtain ⟨e2, p2, q2, r2⟩ := ih ag1 hc1 hvs
    refine ⟨e1 ++ e2, ?_, ?_, ?_⟩
    · simp only [copyHist]; rw [p2, p1]; simp
    · simp only [copyHist]; rw [q2, q1]; simp
    · simp only [copyHist]; rw [r1, r2]

/-! ### stacking reads library cells only -/

theorem cellOf_agree {h g : Heap} (ag : Agree h g) (v : Val) (hv : ∀ a : Nat, a ∈ v.addrs → ownerAt h a = some .lib) :
    cellOf g v = cellOf h v := by
  cases v with
  | none => rfl
  | scalar x => rfl
  | ref a => simp [cellOf, ag.body (hv a (by simp [Val.addrs]))]

theorem elemsOf_agree {h g : Heap} (ag : Agree h g) (v : Val) (hv : ∀ a : Nat, a ∈ v.addrs → ownerAt h a = some .lib) :
    elemsOf g v = elemsOf h v := by
  cases v with
  | none => rfl
  | scalar x => rfl
  | ref a => simp [elemsOf, ag.body (hv a (by simp [Val.addrs]))]

theorem isObjs_agree {h g : Heap} (ag : Agree h g) (v : Val) (hv : ∀ a : Nat, a ∈ v.addrs → ownerAt h a = some .lib) :
    isObjs g v = isObjs h v := by
  cases v with
  | none => rfl
  | scalar x => rfl
  | ref a => simp [isObjs, ag.body (hv a (by simp [Val.addrs]))]

theorem head_addrs {v : Val} {vs : List Val} {a : Nat} (ha : a ∈ v.addrs) : a ∈ listAddrs (v :: vs) := by
  simp only [listAddrs, List.flatMap_cons, List.mem_append]; exact Or.inl ha

theorem tail_addrs {v : Val} {vs : List Val} {a : Nat} (ha : a ∈ listAddrs vs) : a ∈ listAddrs (v :: vs) := by
  simp only [listAddrs, List.flatMap_cons, List.mem_append]; exact Or.inr ha

theorem stackData_agree {h g : Heap} (ag : Agree h g) (l : List Val)
    (hv : ∀ a : Nat, a ∈ listAddrs l → ownerAt h a = some .lib) : stackData g l = stackData h l := by
  induction l with
  | nil => rfl
  | cons v vs ih =>
    simp only [stackData, cellOf_agree ag v (fun a ha => hv a (head_addrs ha)), ih (fun a ha => hv a (tail_addrs ha))]

theorem stackObjs_agree {h g : Heap} (ag : Agree h g) (l : List Val)
    (hv : ∀ a : Nat, a ∈ listAddrs l → ownerAt h a = some .lib) : stackObjs g l = stackObjs h l := by
  induction l with
  | nil => rfl
  | cons v vs ih =>
    simp only [stackObjs, elemsOf_agree ag v (fun a ha => hv a (head_addrs ha)), ih (fun a ha => hv a (tail_addrs ha))]

theorem all_isObjs_agree {h g : Heap} (ag : Agree h g) (l : List Val)
    (hv : ∀ a : Nat, a ∈ listAddrs l → ownerAt h a = some .lib) : l.all (isObjs g) = l.all (isObjs h) := by
  induction l with
  | nil => rfl
  | cons v vs ih =>
    simp only [List.all_cons, isObjs_agree ag v (fun a ha => hv a (head_addrs ha)), ih (fun a ha => hv a (tail_addrs ha))]

theorem cell_of_body_owner {h : Heap} {a : Nat} {b : Body} {o : Owner} (hb : bodyAt h a = some b)
    (ho : ownerAt h a = some o) : h[a]? = some ⟨b, o⟩ := by
  simp only [bodyAt, Option.map_eq_some_iff] at hb
  obtain ⟨c, hc1, hc2⟩ := hb
  simp only [ownerAt, hc1, Option.map_some, Option.some.injEq] at ho
  rw [hc1]; cases c; simp_all

/-- the elements of library containers stacked together are library cells -/
theorem stackObjs_lib {h : Heap} (hc : Closed h) {l : List Val} {es : List Val} (hs : stackObjs h l = some es)
    (hv : ∀ a : Nat, a ∈ listAddrs l → ownerAt h a = some .lib) :
    ∀ a : Nat, a ∈ listAddrs es → ownerAt h a = some .lib := by
  induction l generalizing es with
  | nil => simp only [stackObjs, Option.some.injEq] at hs; subst hs; intro a ha; simp [listAddrs] at ha
  | cons v vs ih =>
    simp only [stackObjs] at hs
    split at hs
    · rename_i e es' he hes
      simp only [Option.some.injEq] at hs
      subst hs
      intro a ha
      simp only [listAddrs, List.flatMap_append, List.mem_append] at ha
      rcases ha with ha | ha
      · cases v with
        | none => simp [elemsOf] at he
        | scalar x => simp [elemsOf] at he
        | ref r =>
          simp only [elemsOf] at he
          split at he
          · rename_i es0 hb
            simp only [Option.some.injEq] at he
            subst he
            exact hc r _ (cell_of_body_owner hb (hv r (head_addrs (by simp [Val.addrs])))) a ha
          · simp at he
      · exact ih hes (fun a ha => hv a (tail_addrs ha)) a ha
    · simp at hs

theorem stackAlloc_sim {h g : Heap} (ag : Agree h g) (hc : Closed h) (o : Owner) (l : List Val)
    (hv : ∀ a : Nat, a ∈ listAddrs l → ownerAt h a = some .lib) :
    Sim (stackAlloc true o h l) (stackAlloc true o g l) h g := by
  simp only [stackAlloc, all_isObjs_agree ag l hv, stackObjs_agree ag l hv, stackData_agree ag l hv]
  split
  · split
    · rename_i es hes
      simp only [if_true]
      obtain ⟨e1, p1, q1, r1⟩ := copyElems_sim ag o es (stackObjs_lib hc hes hv)
      refine ⟨e1 ++ [⟨.objs (copyElems o h es).2, o⟩], ?_, ?_, ?_⟩
      · simp [alloc, p1]
      · simp [alloc, q1, r1]
      · simp [alloc, p1, q1, ag.len]
    · exact sim_alloc _ _ _ _ ag.len
  · split
    · exact sim_alloc _ _ _ _ ag.len
    · exact sim_alloc _ _ _ _ ag.len

theorem fillCache_sim {h g : Heap} (ag : Agree h g) (hc : Closed h) (d : List (Key × List Val)) (c : List (Key × Val))
    (hv : ∀ a : Nat, a ∈ histAddrs d → ownerAt h a = some .lib) :
    Sim (fillCache true d h c) (fillCache true d g c) h g := by
  induction d generalizing h g c with
  | nil => exact ⟨[], by simp [fillCache], by simp [fillCache], rfl⟩
  | cons kv r ih =>
    obtain ⟨k, l⟩ := kv
    simp only [fillCache]
    split
    · have hv1 : ∀ a : Nat, a ∈ listAddrs l → ownerAt h a = some .lib := fun a ha =>
        hv a (by simp only [histAddrs, List.flatMap_cons, List.mem_append]; exact Or.inl ha)
      obtain ⟨e1, p1, q1, r1⟩ := stackAlloc_sim ag hc .lib l hv1
      have ag1 : Agree (stackAlloc true .lib h l).1 (stackAlloc true .lib g l).1 := by rw [p1, q1]; exact ag.append e1
      have hc1 : Closed (stackAlloc true .lib h l).1 := hc.blk (stackAlloc_blk .lib h l)
      have hvs : ∀ a : Nat, a ∈ histAddrs r → ownerAt (stackAlloc true .lib h l).1 a = some .lib := fun a ha =>
        (stackAlloc_blk .lib h l).own.owner_some (hv a (by simp only [histAddrs, List.flatMap_cons, List.mem_append]; exact Or.inr ha))
      obtain ⟨e2, p2, q2, r2⟩ := ih ag1 hc1 (insert k (stackAlloc true .lib h l).2 c) hvs
      refine ⟨e1 ++ e2, ?_, ?_, ?_⟩
      · rw [p2, p1]; simp
      · rw [← r1, q2, q1]; simp
      · rw [← r1, r2]
    · exact ⟨[], by simp, by simp, rfl⟩

theorem logwStub_agree {h g : Heap} (ag : Agree h g) (d : List (Key × List Val))
    (hv : ∀ a : Nat, a ∈ histAddrs d → ownerAt h a = some .lib) : logwStub g d = logwStub h d := by
  simp only [logwStub]
  split
  · rename_i l hb hl
    have : stackData g l = stackData h l := stackData_agree ag l (fun a ha =>
      hv a (mem_histAddrs.2 ⟨"logl", l, Model.StateMgr.lookup_mem hl, mem_listAddrs.1 ha⟩))
    rw [this]
  · rfl

/-! ### payloads -/

theorem deref1_agree {h g : Heap} (ag : Agree h g) (v : Val) (hv : ∀ a : Nat, a ∈ v.addrs → ownerAt h a = some .lib) :
    deref1 g v = deref1 h v := by
  cases v with
  | none => rfl
  | scalar x => rfl
  | ref a => simp [deref1, ag.body (hv a (by simp [Val.addrs]))]

theorem deref_agree {h g : Heap} (ag : Agree h g) (hc : Closed h) (v : Val)
    (hv : ∀ a : Nat, a ∈ v.addrs → ownerAt h a = some .lib) : deref g v = deref h v := by
  cases v with
  | none => rfl
  | scalar x => rfl
  | ref a =>
    have hlib := hv a (by simp [Val.addrs])
    simp only [deref, ag.body hlib]
    split
    · rfl
    · rename_i es hes
      congr 1
      apply List.map_congr_left
      intro e he
      exact deref1_agree ag e (fun x hx =>
        hc a es (cell_of_body_owner hes hlib) x (mem_listAddrs.2 (by rw [← mem_addrs_ref.1 hx]; exact he)))
    · rfl

theorem derefList_agree {h g : Heap} (ag : Agree h g) (hc : Closed h) (l : List Val)
    (hv : ∀ a : Nat, a ∈ listAddrs l → ownerAt h a = some .lib) : l.map (deref g) = l.map (deref h) := by
  apply List.map_congr_left
  intro v hm
  exact deref_agree ag hc v (fun a ha => hv a (mem_listAddrs.2 (by rw [← mem_addrs_ref.1 ha]; exact hm)))

theorem derefDict_agree {h g : Heap} (ag : Agree h g) (hc : Closed h) (d : List (Key × Val))
    (hv : ∀ a : Nat, a ∈ dictAddrs d → ownerAt h a = some .lib) : derefDict g d = derefDict h d := by
  apply List.map_congr_left
  intro kv hm
  have := deref_agree ag hc kv.2 (fun a ha => hv a (mem_dictAddrs.2 ⟨kv.1, by rw [← mem_addrs_ref.1 ha]; exact hm⟩))
  simp [this]

theorem derefHist_agree {h g : Heap} (ag : Agree h g) (hc : Closed h) (d : List (Key × List Val))
    (hv : ∀ a : Nat, a ∈ histAddrs d → ownerAt h a = some .lib) : derefHist g d = derefHist h d := by
  apply List.map_congr_left
  intro kv hm
  have := derefList_agree ag hc kv.2 (fun a ha => hv a (mem_histAddrs.2 ⟨kv.1, kv.2, hm, mem_listAddrs.1 ha⟩))
  simp [this]

/-! ### payload of freshly returned values does not depend on older cells -/

def NewKids (h e : Heap) : Prop :=
  ∀ c ∈ e, ∀ es, c.body = Body.objs es → ∀ b : Nat, b ∈ listAddrs es → h.length ≤ b

theorem Blk.newKids {o : Owner} {h e : Heap} (b : Blk o h (h ++ e)) : NewKids h e := by
  obtain ⟨e', he, _, hk⟩ := b
  have : e = e' := List.append_cancel_left he
  subst this
  intro c hc es hes x hx
  exact (hk c hc es hes x hx).1

theorem bodyAt_append_ge {h e : Heap} {a : Nat} (ha : h.length ≤ a) : bodyAt (h ++ e) a = (e[a - h.length]?).map Cell.body := by
  simp [bodyAt, List.getElem?_append_right ha]

theorem deref1_new {h g e : Heap} (hl : h.length = g.length) {v : Val} (hv : ∀ a : Nat, a ∈ v.addrs → h.length ≤ a) :
    deref1 (g ++ e) v = deref1 (h ++ e) v := by
  cases v with
  | none => rfl
  | scalar x => rfl
  | ref a =>
    have ha := hv a (by simp [Val.addrs])
    simp only [deref1, bodyAt_append_ge ha, bodyAt_append_ge (hl ▸ ha : g.length ≤ a), hl]

theorem deref_new {h g e : Heap} (hl : h.length = g.length) (hk : NewKids h e) {v : Val}
    (hv : ∀ a : Nat, a ∈ v.addrs → h.length ≤ a) : deref (g ++ e) v = deref (h ++ e) v := by
  cases v with
  | none => rfl
  | scalar x => rfl
  | ref a =>
    have ha := hv a (by simp [Val.addrs])
    simp only [deref, bodyAt_append_ge ha, bodyAt_append_ge (hl ▸ ha : g.length ≤ a), hl]
    split
    · rfl
    · rename_i es hes
      congr 1
      apply List.map_congr_left
      intro x hx
      simp only [Option.map_eq_some_iff] at hes
      obtain ⟨c, hc1, hc2⟩ := hes
      exact deref1_new hl (fun b hb =>
        hk c (List.mem_of_getElem? hc1) es hc2 b (mem_listAddrs.2 (by rw [← mem_addrs_ref.1 hb]; exact hx)))
    · rfl

theorem derefDict_new {h g e : Heap} (hl : h.length = g.length) (hk : NewKids h e) {d : List (Key × Val)}
    (hv : ∀ a : Nat, a ∈ dictAddrs d → h.length ≤ a) : derefDict (g ++ e) d = derefDict (h ++ e) d := by
  apply List.map_congr_left
  intro kv hm
  have := deref_new hl hk (v := kv.2) (fun a ha => hv a (mem_dictAddrs.2 ⟨kv.1, by rw [← mem_addrs_ref.1 ha]; exact hm⟩))
  simp [this]

/-- handing out copies of a dictionary of library values: same payloads whatever the caller wrote into its own cells -/
theorem copyDict_out_agree {h g : Heap} (ag : Agree h g) (hc : Closed h) (d : List (Key × Val))
    (hv : ∀ a : Nat, a ∈ dictAddrs d → ownerAt h a = some .lib) :
    derefDict (copyDict true .usr g d).1 (copyDict true .usr g d).2 =
      derefDict (copyDict true .usr h d).1 (copyDict true .usr h d).2 := by
  obtain ⟨e, p, q, r⟩ := copyDict_sim ag hc .usr d hv
  have hb := copyDict_blk .usr h d
  rw [p] at hb
  have hf : ∀ a : Nat, a ∈ dictAddrs (copyDict true .usr h d).2 → h.length ≤ a := fun a ha => (copyDict_fresh ha).1
  rw [q, ← r, p]
  exact derefDict_new ag.len hb.newKids hf

theorem computeResults_agree {s : State} {g : Heap} (hI : Inv s) (ag : Agree s.heap g) :
    derefRes (step true { s with heap := g } .computeResults).1.heap (step true { s with heap := g } .computeResults).2 =
      derefRes (step true s .computeResults).1.heap (step true s .computeResults).2 := by
  cases hcache : s.cache with
  | some c =>
    simp only [step, hcache, derefRes]
    congr 1
    exact copyDict_out_agree ag hI.closed c (fun a ha => hI.cache a (by simp [hcache, cacheAddrs, ha]))
  | none =>
    obtain ⟨e1, p1, q1, r1⟩ := fillCache_sim ag hI.closed s.history [] hI.hist
    have bf := fillCache_blk s.history s.heap []
    simp only [step, hcache]
    rw [← r1]
    split
    · rfl
    · -- the filled cache, then `logw`, then the copies handed out
      have ag1 : Agree (fillCache true s.history s.heap []).1 (fillCache true s.history g []).1 := by
        rw [p1, q1]; exact ag.append e1
      have hc1 : Closed (fillCache true s.history s.heap []).1 := hI.closed.blk_lib bf
      have hh1 : ∀ a : Nat, a ∈ histAddrs s.history → ownerAt (fillCache true s.history s.heap []).1 a = some .lib :=
        fun a ha => bf.own.owner_some (hI.hist a ha)
      have hw := logwStub_agree ag1 s.history hh1
      have hlen : (fillCache true s.history g []).1.length = (fillCache true s.history s.heap []).1.length := ag1.len.symm
      simp only [alloc, hw, hlen]
      have ag2 : Agree ((fillCache true s.history s.heap []).1 ++ [⟨logwStub (fillCache true s.history s.heap []).1 s.history, .lib⟩])
          ((fillCache true s.history g []).1 ++ [⟨logwStub (fillCache true s.history s.heap []).1 s.history, .lib⟩]) := ag1.append _
      have bw : Blk .lib (fillCache true s.history s.heap []).1
          ((fillCache true s.history s.heap []).1 ++ [⟨logwStub (fillCache true s.history s.heap []).1 s.history, .lib⟩]) :=
        blk_alloc_flat _ _ _ (by
          intro es
          simp only [logwStub]
          split
          · split <;> simp
          · simp)
      have hc2 := hc1.blk_lib bw
      simp only [derefRes]
      congr 1
      apply copyDict_out_agree ag2 hc2
      intro a ha
      rcases Model.StateMgr.dictAddrs_insert ha with h2 | h2
      · rcases fillCache_fresh h2 with h1 | h1
        · simp [dictAddrs] at h1
        · exact bw.own.owner_some (bf.own.new h1.1 h1.2)
      · simp only [Val.addrs, List.mem_singleton] at h2
        subst h2
        exact bw.own.new (Nat.le_refl _) (by simp)

/-- Everything readable — current values, every history entry, what `compute_results()` returns — is the same in two
    states that differ only in cells the caller owns (the caller never having asked for `copy=False`). -/
theorem observe_agree {s : State} {g : Heap} (hI : Inv s) (himp : s.imported = []) (ag : Agree s.heap g) :
    observe true { s with heap := g } = observe true s := by
  have hcur : ∀ a : Nat, a ∈ dictAddrs s.current → ownerAt s.heap a = some .lib := fun a ha => by
    rcases hI.cur a ha with h | h
    · exact h
    · rw [himp] at h; cases h
  simp only [observe, computeResults_agree hI ag]
  rw [derefDict_agree ag hI.closed s.current hcur, derefHist_agree ag hI.closed s.history hI.hist]

/-- … and without that proviso: history and results never depend on cells the caller owns -/
theorem observe_agree_hist {s : State} {g : Heap} (hI : Inv s) (ag : Agree s.heap g) :
    (observe true { s with heap := g }).history = (observe true s).history ∧
    (observe true { s with heap := g }).results = (observe true s).results := by
  simp only [observe, computeResults_agree hI ag]
  rw [derefHist_agree ag hI.closed s.history hI.hist]
  constructor <;> first | rfl | trivial

/-! ### what an operation returns is new and caller-owned, down to the elements -/

def Res.addrs : Res → List Addr
  | .unit => []
  | .val v => v.addrs
  | .dict d => dictAddrs d
  | .export c h => dictAddrs c ++ histAddrs h
  | .err _ => []

theorem kids_mem {h : Heap} {a b : Nat} (hb : b ∈ kids h a) : ∃ es, bodyAt h a = some (.objs es) ∧ b ∈ listAddrs es := by
  simp only [kids] at hb
  split at hb
  · rename_i es hes; exact ⟨es, hes, hb⟩
  · cases hb

/-- a cell of a block of new cells with owner `o`: it has owner `o`, and so has everything it contains -/
theorem Blk.cell {o : Owner} {h h' : Heap} (bk : Blk o h h') {a : Nat} (hge : h.length ≤ a) (hlt : a < h'.length) :
    ownerAt h' a = some o ∧ ∀ b : Nat, b ∈ kids h' a → h.length ≤ b ∧ ownerAt h' b = some o := by
  refine ⟨bk.own.new hge hlt, fun b hb => ?_⟩
  obtain ⟨es, hes, hbe⟩ := kids_mem hb
  obtain ⟨e, rfl, ho, hk⟩ := bk
  simp only [bodyAt, Option.map_eq_some_iff] at hes
  obtain ⟨c, hc1, hc2⟩ := hes
  have := hk c (cell_of_ge hge hc1) es hc2 b hbe
  exact ⟨this.1, ownerAt_new ho this.1 this.2⟩

theorem Own.kids_eq {o : Owner} {h h' : Heap} (b : Own o h h') {a : Nat} (ha : a < h.length) : kids h' a = kids h a := by
  simp [kids, b.body_eq ha]

/-- every array an operation hands out — and every array inside a container it hands out — was allocated by that
    very call and is owned by the caller -/
theorem step_res_new (s : State) (o : Op) (a : Nat) (ha : a ∈ (step true s o).2.addrs) :
    (s.heap.length ≤ a ∧ ownerAt (step true s o).1.heap a = some .usr) ∧
    ∀ b : Nat, b ∈ kids (step true s o).1.heap a → s.heap.length ≤ b ∧ ownerAt (step true s o).1.heap b = some .usr := by
  have key : ∀ {h h' : Heap}, Blk .usr h h' → s.heap.length ≤ h.length → h.length ≤ a → a < h'.length →
      (s.heap.length ≤ a ∧ ownerAt h' a = some .usr) ∧
      ∀ b : Nat, b ∈ kids h' a → s.heap.length ≤ b ∧ ownerAt h' b = some .usr := by
    intro h h' bk hle hge hlt
    have := bk.cell hge hlt
    exact ⟨⟨by omega, this.1⟩, fun b hb => ⟨by have := (this.2 b hb).1; omega, (this.2 b hb).2⟩⟩
  cases o with
  | setCurrent k x copy =>
    simp only [step] at ha
    split at ha
    · simp [Res.addrs] at ha
    · split at ha
      · simp [Res.addrs] at ha
      · split at ha <;> simp [Res.addrs] at ha
  | getCurrent k =>
    cases k with
    | some k =>
      simp only [step] at ha ⊢
      split at ha
      · simp [Res.addrs] at ha
      · rename_i hk
        simp only [hk]
        split at ha
        · simp [Res.addrs] at ha
        · rename_i v hv
          simp only [Res.addrs] at ha
          have hf := copyVal_fresh ha
          simp only [Bool.false_eq_true, if_false]
          exact key (copyVal_blk .usr s.heap v) (Nat.le_refl _) hf.1 hf.2
    | none =>
      simp only [step, Res.addrs] at ha ⊢
      have hf := copyDict_fresh ha
      exact key (copyDict_blk .usr s.heap s.current) (Nat.le_refl _) hf.1 hf.2
  | getHistory k index flat =>
    simp only [step] at ha ⊢
    split at ha
    · simp [Res.addrs] at ha
    · rename_i hk
      simp only [hk, Bool.false_eq_true, if_false]
      split at ha
      · simp [Res.addrs] at ha
      · rename_i l hl
        split at ha
        · split at ha
          · simp [Res.addrs] at ha
          · rename_i hfl
            simp only [hfl, Bool.false_eq_true, if_false]
            simp only [Res.addrs] at ha
            have hf := stackAlloc_fresh ha
            exact key (stackAlloc_blk .usr s.heap l) (Nat.le_refl _) hf.1 hf.2
        · rename_i i
          split at ha
          · simp [Res.addrs] at ha
          · rename_i hi
            simp only [hi, Bool.false_eq_true, if_false]
            split at ha
            · simp [Res.addrs] at ha
            · rename_i v hv
              simp only [Res.addrs] at ha
              have hf := copyVal_fresh ha
              exact key (copyVal_blk .usr s.heap v) (Nat.le_refl _) hf.1 hf.2
  | getLastHistory k =>
    simp only [step] at ha ⊢
    split at ha
    · simp [Res.addrs] at ha
    · rename_i hk
      simp only [hk, Bool.false_eq_true, if_false]
      split at ha
      · simp [Res.addrs] at ha
      · split at ha
        · simp [Res.addrs, Val.addrs] at ha
        · rename_i v hv
          simp only [Res.addrs] at ha
          have hf := copyVal_fresh ha
          exact key (copyVal_blk .usr s.heap v) (Nat.le_refl _) hf.1 hf.2
  | commit strict =>
    simp only [step] at ha
    split at ha <;> simp [Res.addrs] at ha
  | computeResults =>
    simp only [step] at ha ⊢
    split at ha
    · rename_i c hc
      simp only [Res.addrs] at ha
      have hf := copyDict_fresh ha
      exact key (copyDict_blk .usr s.heap c) (Nat.le_refl _) hf.1 hf.2
    · rename_i hc
      split at ha
      · simp [Res.addrs] at ha
      · rename_i hok
        simp only [hok, Bool.false_eq_true, if_false]
        simp only [Res.addrs] at ha
        have hf := copyDict_fresh ha
        have l1 := (fillCache_blk s.history s.heap []).le
        refine key (copyDict_blk .usr _ _) ?_ hf.1 hf.2
        simp only [alloc, List.length_append, List.length_singleton]
        omega
  | toDict =>
    simp only [step, Res.addrs, List.mem_append] at ha ⊢
    have b1 := copyDict_blk .usr s.heap s.current
    have b2 := copyHist_blk .usr (copyDict true .usr s.heap s.current).1 s.history
    rcases ha with ha | ha
    · have hf := copyDict_fresh ha
      have := b2.le
      exact key (b1.trans b2) (Nat.le_refl _) hf.1 (by omega)
    · have hf := copyHist_fresh ha
      have := b1.le
      exact key (b1.trans b2) (Nat.le_refl _) (by omega) hf.2
  | updateFromDict cur hist =>
    simp only [step] at ha
    split at ha <;> simp [Res.addrs] at ha
  | scribble a' p =>
    simp only [step] at ha
    split at ha <;> simp [Res.addrs] at ha
  | scribbleElems a' x =>
    simp only [step] at ha
    split at ha <;> simp [Res.addrs] at ha

/-! ### library cells never change -/

/-- every library-owned cell of `h` is the same cell in `g` -/
def LibSame (h g : Heap) : Prop := ∀ a : Nat, ownerAt h a = some .lib → g[a]? = h[a]?

theorem LibSame.refl (h : Heap) : LibSame h h := fun _ _ => rfl

theorem LibSame.owner {h g : Heap} (l : LibSame h g) {a : Nat} (ha : ownerAt h a = some .lib) : ownerAt g a = some .lib := by
  simp only [ownerAt, l a ha]; exact ha

theorem LibSame.trans {h1 h2 h3 : Heap} (a : LibSame h1 h2) (b : LibSame h2 h3) : LibSame h1 h3 :=
  fun x hx => by rw [b x (a.owner hx), a x hx]

theorem Own.libSame {o : Owner} {h h' : Heap} (b : Own o h h') : LibSame h h' :=
  fun a ha => b.getElem (ownerAt_lt ha)

theorem Agree.libSame {h g : Heap} (ag : Agree h g) : LibSame h g := ag.lib

theorem LibSame.body {h g : Heap} (l : LibSame h g) {a : Nat} (ha : ownerAt h a = some .lib) : bodyAt g a = bodyAt h a := by
  simp [bodyAt, l a ha]

theorem deref_libSame {h g : Heap} (ls : LibSame h g) (hc : Closed h) (v : Val)
    (hv : ∀ a : Nat, a ∈ v.addrs → ownerAt h a = some .lib) : deref g v = deref h v := by
  cases v with
  | none => rfl
  | scalar x => rfl
  | ref a =>
    have hlib := hv a (by simp [Val.addrs])
    simp only [deref, ls.body hlib]
    split
    · rfl
    · rename_i es hes
      congr 1
      apply List.map_congr_left
      intro e he
      cases e with
      | none => rfl
      | scalar x => rfl
      | ref b =>
        have := hc a es (cell_of_body_owner hes hlib) b (mem_listAddrs.2 he)
        simp [deref1, ls.body this]
    · rfl

theorem derefList_libSame {h g : Heap} (ls : LibSame h g) (hc : Closed h) (l : List Val)
    (hv : ∀ a : Nat, a ∈ listAddrs l → ownerAt h a = some .lib) : l.map (deref g) = l.map (deref h) := by
  apply List.map_congr_left
  intro v hm
  exact deref_libSame ls hc v (fun a ha => hv a (mem_listAddrs.2 (by rw [← mem_addrs_ref.1 ha]; exact hm)))

theorem commitLoop_libSame (ks : List Key) (s : State) : LibSame s.heap (commitLoop true ks s).heap :=
  (commitLoop_frame ks s).2.2.2.own.libSame

/-- no operation — none of the manager's, none of the caller's writes — changes a cell the library owns -/
theorem step_libSame (s : State) (o : Op) : LibSame s.heap (step true s o).1.heap := by
  cases o with
  | setCurrent k x copy =>
    simp only [step]
    split
    · exact LibSame.refl _
    · have l1 := (resolveArg_own s.heap x).libSame
      split
      · exact l1
      · split
        · exact l1.trans (copyVal_blk .lib _ _).own.libSame
        · exact l1
  | getCurrent k =>
    cases k with
    | some k =>
      simp only [step]
      split
      · exact LibSame.refl _
      · split
        · exact LibSame.refl _
        · exact (copyVal_blk .usr _ _).own.libSame
    | none => exact (copyDict_blk .usr _ _).own.libSame
  | getHistory k index flat =>
    simp only [step]
    split
    · exact LibSame.refl _
    · split
      · exact LibSame.refl _
      · split
        · split
          · exact LibSame.refl _
          · exact (stackAlloc_blk .usr _ _).own.libSame
        · split
          · exact LibSame.refl _
          · split
            · exact LibSame.refl _
            · exact (copyVal_blk .usr _ _).own.libSame
  | getLastHistory k =>
    simp only [step]
    split
    · exact LibSame.refl _
    · split
      · exact LibSame.refl _
      · split
        · exact LibSame.refl _
        · exact (copyVal_blk .usr _ _).own.libSame
  | commit strict =>
    simp only [step]
    split
    · exact LibSame.refl _
    · exact commitLoop_libSame _ _
  | computeResults =>
    simp only [step]
    split
    · exact (copyDict_blk .usr _ _).own.libSame
    · have l1 := (fillCache_blk s.history s.heap []).own.libSame
      split
      · exact l1
      · exact (l1.trans (own_alloc _ _ _).libSame).trans (copyDict_blk .usr _ _).own.libSame
  | toDict =>
    exact ((copyDict_blk .usr _ _).trans (copyHist_blk .usr _ _)).own.libSame
  | updateFromDict cur hist =>
    simp only [step]
    split
    · exact LibSame.refl _
    · exact (((resolveDict_own s.heap (entries cur)).trans (resolveHist_own _ (entries hist))).libSame.trans
        (copyDict_blk .lib _ _).own.libSame).trans (copyHist_blk .lib _ _).own.libSame
  | scribble a p =>
    simp only [step]
    split
    · rename_i heq
      exact (agree_set_usr heq).libSame
    · exact LibSame.refl _
  | scribbleElems a x =>
    simp only [step]
    split
    · rename_i heq
      exact (agree_set_usr heq).libSame
    · exact LibSame.refl _

/-! ### history lists only grow at their end -/

def Op.isCommit : Op → Bool
  | .commit _ => true
  | _ => false

def Op.isImport : Op → Bool
  | .updateFromDict _ _ => true
  | _ => false

theorem commitLoop_history (ks : List Key) (s : State) (k : Key) :
    ∃ ext : List Val, lookup k (commitLoop true ks s).history = (lookup k s.history).map (fun l => l ++ ext) := by
  induction ks generalizing s with
  | nil => exact ⟨[], by simp [commitLoop]⟩
  | cons k' ks ih =>
    simp only [commitLoop]
    split
    · split
      · exact ih s
      · rename_i v _ _
        have hih := ih ({ s with heap := (copyVal true .lib s.heap v).1,
                                 history := adjust k' (fun l => l ++ [(copyVal true .lib s.heap v).2]) s.history } : State)
        obtain ⟨ext, he⟩ := hih
        simp only [Model.StateMgr.lookup_adjust] at he
        by_cases hk : k' = k
        · refine ⟨(copyVal true .lib s.heap v).2 :: ext, ?_⟩
          rw [he]
          simp only [hk, if_true]
          cases lookup k s.history <;> simp
        · refine ⟨ext, ?_⟩
          rw [he]
          simp [hk]
    · exact ih s

theorem step_history_eq (s : State) (o : Op) (h1 : o.isCommit = false) (h2 : o.isImport = false) :
    (step true s o).1.history = s.history := by
  cases o with
  | setCurrent k x copy =>
    simp only [step]
    split
    · rfl
    · split
      · rfl
      · split <;> rfl
  | getCurrent k =>
    cases k with
    | some k => simp only [step]; split <;> (try split) <;> rfl
    | none => rfl
  | getHistory k index flat =>
    simp only [step]
    split
    · rfl
    · split
      · rfl
      · split
        · split <;> rfl
        · split
          · rfl
          · split <;> rfl
  | getLastHistory k =>
    simp only [step]
    split
    · rfl
    · split
      · rfl
      · split <;> rfl
  | commit strict => simp [Op.isCommit] at h1
  | computeResults => simp only [step]; split <;> (try split) <;> rfl
  | toDict => rfl
  | updateFromDict cur hist => simp [Op.isImport] at h2
  | scribble a p => simp only [step]; split <;> rfl
  | scribbleElems a x => simp only [step]; split <;> rfl

end Model.StateMgrN
