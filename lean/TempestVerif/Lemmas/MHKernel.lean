import Mathlib.Probability.Kernel.Invariance
import Mathlib.Probability.Kernel.WithDensity
import Mathlib.Probability.Kernel.Basic
import Mathlib.MeasureTheory.Measure.Prod
import Mathlib.MeasureTheory.Measure.Lebesgue.Basic
import Mathlib.Tactic
/-
  Metropolis–Hastings kernels on a general measurable space (C03, clause 14: "detailed balance ⇒ the law is unchanged").

  `X` any measurable space, `μ` an s-finite reference measure (counting measure on a finite state space, Lebesgue measure on
  ℝ^d, Lebesgue on the unit cube, …).  A kernel of Metropolis–Hastings type is given by a jointly measurable SUB-density
  `k x y` (= proposal density × acceptance probability) with `∫ k x y dμ(y) ≤ 1`:

      K(x, B) = ∫_B k x y dμ(y)  +  (1 − ∫ k x y dμ(y)) · 1_B(x)          -- move, or stay with the rejection mass

  Proved here:
    * `mhKernel_apply`            the set function above;
    * `mhKernel_isMarkov`         it is a Markov kernel (the rejection mass is what makes the total mass 1);
    * `mhKernel_reversible`       pointwise detailed balance  p x · k x y = p y · k y x  ⇒  Mathlib's `Kernel.IsReversible`
                                  w.r.t. the measure  μ.withDensity p  (Tonelli; the rejection part is symmetric by itself);
    * `mhKernel_invariant`        ⇒ `Kernel.Invariant`:  (μ.withDensity p).bind K = μ.withDensity p;
    * `acceptReject_law`          the law of  `if r < a y then y else x`  with `y ~ Q`, `r ~ U[0,1)` independent (how the code
                                  implements the kernel) is  Q.withDensity a + (∫ (1 − a) dQ) · δ_x;
    * `acceptReject_eq_mhKernel`  for `Q = μ.withDensity (q x)` this is `mhKernel μ (q · a) x`.
-/
namespace Lemmas.MHKernel
open MeasureTheory ProbabilityTheory Set
open scoped ENNReal

variable {X : Type*} [MeasurableSpace X]

/-- probability of moving away from `x` -/
noncomputable def moveMass (μ : Measure X) (k : X → X → ℝ≥0∞) (x : X) : ℝ≥0∞ := ∫⁻ y, k x y ∂μ

theorem measurable_moveMass (μ : Measure X) [SFinite μ] {k : X → X → ℝ≥0∞} (hk : Measurable (Function.uncurry k)) :
    Measurable (moveMass μ k) :=
  Measurable.lintegral_prod_right' hk

/-- the kernel: move with sub-density `k x ·` w.r.t. `μ`, stay at `x` with the remaining mass -/
noncomputable def mhKernel (μ : Measure X) [SFinite μ] (k : X → X → ℝ≥0∞) : Kernel X X :=
  Kernel.withDensity (Kernel.const X μ) k + Kernel.withDensity Kernel.id (fun x _ => 1 - moveMass μ k x)

theorem mhKernel_apply (μ : Measure X) [SFinite μ] {k : X → X → ℝ≥0∞} (hk : Measurable (Function.uncurry k))
    (x : X) {B : Set X} (hB : MeasurableSet B) :
    mhKernel μ k x B = ∫⁻ y in B, k x y ∂μ + (1 - moveMass μ k x) * B.indicator 1 x := by
  have hr : Measurable (Function.uncurry fun (x : X) (_ : X) => 1 - moveMass μ k x) :=
    (measurable_const.sub (measurable_moveMass μ hk)).comp measurable_fst
  unfold mhKernel
  rw [FunLike.coe_add, Pi.add_apply, Measure.add_apply, Kernel.withDensity_apply' _ hk,
    Kernel.withDensity_apply' _ hr, Kernel.const_apply, Kernel.id_apply, setLIntegral_const,
    Measure.dirac_apply' _ hB]

instance mhKernel_isMarkov (μ : Measure X) [SFinite μ] {k : X → X → ℝ≥0∞} [hk : Fact (Measurable (Function.uncurry k))]
    [hm : Fact (∀ x, moveMass μ k x ≤ 1)] : IsMarkovKernel (mhKernel μ k) := by
  refine ⟨fun x => ⟨?_⟩⟩
  rw [mhKernel_apply μ hk.out x MeasurableSet.univ]
  simp only [Measure.restrict_univ, indicator_univ, Pi.one_apply, mul_one]
  exact add_tsub_cancel_of_le (hm.out x)

/-- the flow from `A` to `B`: moves with density `p x · k x y`, plus the rejection mass on `A ∩ B` -/
theorem mhKernel_flow (μ : Measure X) [SFinite μ] {k : X → X → ℝ≥0∞} (hk : Measurable (Function.uncurry k))
    {p : X → ℝ≥0∞} (hp : Measurable p) {A B : Set X} (hA : MeasurableSet A) (hB : MeasurableSet B) :
    ∫⁻ x in A, mhKernel μ k x B ∂(μ.withDensity p)
      = ∫⁻ x in A, ∫⁻ y in B, p x * k x y ∂μ ∂μ + ∫⁻ x in A ∩ B, p x * (1 - moveMass μ k x) ∂μ := by
  have hmm := measurable_moveMass μ hk
  have hkx : ∀ x, Measurable (k x) := fun x => hk.of_uncurry_left
  have hm1 : Measurable fun x => ∫⁻ y in B, k x y ∂μ := Measurable.lintegral_prod_right' (ν := μ.restrict B) hk
  have hm2 : Measurable (B.indicator fun x => 1 - moveMass μ k x) := (measurable_const.sub hmm).indicator hB
  have h1 : ∀ x, mhKernel μ k x B
      = ((fun x => ∫⁻ y in B, k x y ∂μ) + B.indicator fun x => 1 - moveMass μ k x) x := by
    intro x
    rw [mhKernel_apply μ hk x hB]
    by_cases hx : x ∈ B <;> simp [hx]
  simp_rw [h1]
  rw [setLIntegral_withDensity_eq_setLIntegral_mul μ hp (hm1.add hm2) hA]
  simp only [Pi.mul_apply, Pi.add_apply, mul_add]
  rw [lintegral_add_left (μ := μ.restrict A) (f := fun x => p x * ∫⁻ y in B, k x y ∂μ) (hp.mul hm1)]
  congr 1
  · refine lintegral_congr fun x => ?_
    rw [lintegral_const_mul _ (hkx x)]
  · have : (fun x => p x * B.indicator (fun x => 1 - moveMass μ k x) x)
        = B.indicator fun x => p x * (1 - moveMass μ k x) := by
      funext x; by_cases hx : x ∈ B <;> simp [hx]
    rw [this, lintegral_indicator hB, Measure.restrict_restrict hB, inter_comm]

/-- **pointwise detailed balance ⇒ reversibility** (Mathlib's `Kernel.IsReversible`), including the rejection mass -/
theorem mhKernel_reversible (μ : Measure X) [SFinite μ] {k : X → X → ℝ≥0∞} (hk : Measurable (Function.uncurry k))
    {p : X → ℝ≥0∞} (hp : Measurable p) (hdb : ∀ x y, p x * k x y = p y * k y x) :
    Kernel.IsReversible (mhKernel μ k) (μ.withDensity p) := by
  intro A B hA hB
  rw [mhKernel_flow μ hk hp hA hB, mhKernel_flow μ hk hp hB hA, inter_comm B A]
  congr 1
  have hpk : Measurable (Function.uncurry fun x y => p x * k x y) := (hp.comp measurable_fst).mul hk
  calc ∫⁻ x in A, ∫⁻ y in B, p x * k x y ∂μ ∂μ
      = ∫⁻ y in B, ∫⁻ x in A, p x * k x y ∂μ ∂μ :=
        lintegral_lintegral_swap (μ := μ.restrict A) (ν := μ.restrict B) hpk.aemeasurable
    _ = ∫⁻ y in B, ∫⁻ x in A, p y * k y x ∂μ ∂μ := by simp_rw [hdb]

/-- **detailed balance ⇒ the target is invariant**: `(μ.withDensity p).bind K = μ.withDensity p` -/
theorem mhKernel_invariant (μ : Measure X) [SFinite μ] {k : X → X → ℝ≥0∞} (hk : Measurable (Function.uncurry k))
    (hm : ∀ x, moveMass μ k x ≤ 1) {p : X → ℝ≥0∞} (hp : Measurable p) (hdb : ∀ x y, p x * k x y = p y * k y x) :
    Kernel.Invariant (mhKernel μ k) (μ.withDensity p) := by
  have : Fact (Measurable (Function.uncurry k)) := ⟨hk⟩
  have : Fact (∀ x, moveMass μ k x ≤ 1) := ⟨hm⟩
  exact (mhKernel_reversible μ hk hp hdb).invariant

/-! ### the kernel as the code implements it: propose, draw a uniform, accept when `r < a` -/

/-- the law of `np.random.rand()`: uniform on `[0, 1)` -/
noncomputable def unif : Measure ℝ := volume.restrict (Ico 0 1)

instance : IsProbabilityMeasure unif := ⟨by simp [unif]⟩

theorem unif_Iio {t : ℝ} (_h0 : 0 ≤ t) (h1 : t ≤ 1) : unif (Iio t) = ENNReal.ofReal t := by
  unfold unif
  rw [Measure.restrict_apply measurableSet_Iio]
  have : Iio t ∩ Ico 0 1 = Ico 0 t := by
    ext r; simp only [mem_inter_iff, mem_Iio, mem_Ico]; constructor
    · rintro ⟨h, h2, -⟩; exact ⟨h2, h⟩
    · rintro ⟨h2, h⟩; exact ⟨h, h2, lt_of_lt_of_le h h1⟩
  rw [this, Real.volume_Ico, sub_zero]

theorem unif_Ici {t : ℝ} (h0 : 0 ≤ t) (_h1 : t ≤ 1) : unif (Ici t) = ENNReal.ofReal (1 - t) := by
  unfold unif
  rw [Measure.restrict_apply measurableSet_Ici]
  have : Ici t ∩ Ico 0 1 = Ico t 1 := by
    ext r; simp only [mem_inter_iff, mem_Ici, mem_Ico]; constructor
    · rintro ⟨h, -, h2⟩; exact ⟨h, h2⟩
    · rintro ⟨h, h2⟩; exact ⟨h, le_trans h0 h, h2⟩
  rw [this, Real.volume_Ico]

/-- accept/reject: `w = (proposal, uniform draw)`; the new state is the proposal when `r < a(proposal)`, else the old state -/
noncomputable def acceptReject (x : X) (a : X → ℝ) (w : X × ℝ) : X := if w.2 < a w.1 then w.1 else x

theorem measurable_acceptReject (x : X) {a : X → ℝ} (ha : Measurable a) : Measurable (acceptReject x a) :=
  Measurable.ite (measurableSet_lt measurable_snd (ha.comp measurable_fst)) measurable_fst measurable_const

/-- **law of one accept/reject step**: with the proposal `y ~ Q` and an independent uniform `r`, the new state
    `if r < a y then y else x` has law `Q.withDensity a + (∫ (1 − a) dQ) · δ_x` -/
theorem acceptReject_law (Q : Measure X) [SFinite Q] (x : X) {a : X → ℝ} (ha : Measurable a) (h0 : ∀ y, 0 ≤ a y)
    (h1 : ∀ y, a y ≤ 1) {B : Set X} (hB : MeasurableSet B) :
    (Q.prod unif).map (acceptReject x a) B
      = ∫⁻ y in B, ENNReal.ofReal (a y) ∂Q + (∫⁻ y, ENNReal.ofReal (1 - a y) ∂Q) * B.indicator 1 x := by
  rw [Measure.map_apply (measurable_acceptReject x ha) hB,
    Measure.prod_apply ((measurable_acceptReject x ha) hB)]
  have hsec : ∀ y, unif (Prod.mk y ⁻¹' (acceptReject x a ⁻¹' B))
      = B.indicator (fun y => ENNReal.ofReal (a y)) y + ENNReal.ofReal (1 - a y) * B.indicator 1 x := by
    intro y
    by_cases hy : y ∈ B <;> by_cases hx : x ∈ B
    · have : Prod.mk y ⁻¹' (acceptReject x a ⁻¹' B) = univ := by
        ext r; simp only [mem_preimage, acceptReject, mem_univ, iff_true]; split <;> assumption
      rw [this, measure_univ]
      simp only [hy, hx, indicator_of_mem, Pi.one_apply, mul_one]
      rw [← ENNReal.ofReal_add (h0 y) (sub_nonneg.2 (h1 y))]; simp
    · have : Prod.mk y ⁻¹' (acceptReject x a ⁻¹' B) = Iio (a y) := by
        ext r; simp only [mem_preimage, acceptReject, mem_Iio]
        by_cases h : r < a y <;> simp [h, hy, hx]
      rw [this, unif_Iio (h0 y) (h1 y)]; simp [hy, hx]
    · have : Prod.mk y ⁻¹' (acceptReject x a ⁻¹' B) = Ici (a y) := by
        ext r; simp only [mem_preimage, acceptReject, mem_Ici]
        by_cases h : r < a y <;> simp [h, hy, hx, not_le.2, not_lt.1]
      rw [this, unif_Ici (h0 y) (h1 y)]; simp [hy, hx]
    · have : Prod.mk y ⁻¹' (acceptReject x a ⁻¹' B) = ∅ := by
        ext r; simp only [mem_preimage, acceptReject, mem_empty_iff_false, iff_false]; split <;> assumption
      rw [this, measure_empty]; simp [hy, hx]
  simp_rw [hsec]
  have hm : Measurable fun y => ENNReal.ofReal (a y) := ENNReal.measurable_ofReal.comp ha
  rw [lintegral_add_left (hm.indicator hB), lintegral_indicator hB, lintegral_mul_const' _ _ (by
    by_cases hx : x ∈ B <;> simp [hx])]

/-- … and for a proposal with density `q x ·` w.r.t. `μ` this is the Metropolis–Hastings kernel with sub-density
    `q x y · a x y` — the rejection mass `∫ (1 − a) dQ` is `1 − ∫ q a dμ` -/
theorem acceptReject_eq_mhKernel (μ : Measure X) [SFinite μ] {q : X → X → ℝ≥0∞} (hq : Measurable (Function.uncurry q))
    (hq1 : ∀ x, ∫⁻ y, q x y ∂μ = 1) {a : X → X → ℝ} (ha : Measurable (Function.uncurry a)) (h0 : ∀ x y, 0 ≤ a x y)
    (h1 : ∀ x y, a x y ≤ 1) (x : X) :
    ((μ.withDensity (q x)).prod unif).map (acceptReject x (a x))
      = mhKernel μ (fun x y => q x y * ENNReal.ofReal (a x y)) x := by
  have hax : Measurable (a x) := ha.of_uncurry_left
  have hqx : Measurable (q x) := hq.of_uncurry_left
  have hk : Measurable (Function.uncurry fun x y => q x y * ENNReal.ofReal (a x y)) :=
    hq.mul (ENNReal.measurable_ofReal.comp ha)
  have hfin : IsProbabilityMeasure (μ.withDensity (q x)) := ⟨by rw [withDensity_apply _ MeasurableSet.univ]; simpa using hq1 x⟩
  ext B hB
  rw [acceptReject_law _ x hax (h0 x) (h1 x) hB, mhKernel_apply μ hk x hB]
  have hm : Measurable fun y => ENNReal.ofReal (a x y) := ENNReal.measurable_ofReal.comp hax
  have eA : ∫⁻ y in B, ENNReal.ofReal (a x y) ∂(μ.withDensity (q x))
      = ∫⁻ y in B, q x y * ENNReal.ofReal (a x y) ∂μ := by
    rw [setLIntegral_withDensity_eq_setLIntegral_mul μ hqx hm hB]; rfl
  rw [eA]
  congr 2
  · have e1 : ∀ y, ENNReal.ofReal (1 - a x y) = 1 - ENNReal.ofReal (a x y) := by
      intro y; rw [ENNReal.ofReal_sub _ (h0 x y)]; simp
    simp_rw [e1]
    have hle : ∀ y, ENNReal.ofReal (a x y) ≤ 1 := fun y => by
      simpa using ENNReal.ofReal_le_ofReal (h1 x y)
    have hint : ∫⁻ y, ENNReal.ofReal (a x y) ∂(μ.withDensity (q x)) ≠ ∞ := by
      refine ne_of_lt (lt_of_le_of_lt (lintegral_mono hle) ?_); simp
    rw [lintegral_sub hm hint (Filter.Eventually.of_forall hle), lintegral_one, measure_univ]
    congr 1
    unfold moveMass
    rw [lintegral_withDensity_eq_lintegral_mul μ hqx hm]; rfl

/-- the accept/reject sub-density never moves more than mass 1 -/
theorem moveMass_le_one (μ : Measure X) {q : X → X → ℝ≥0∞} (hq1 : ∀ x, ∫⁻ y, q x y ∂μ = 1) {a : X → X → ℝ}
    (h1 : ∀ x y, a x y ≤ 1) (x : X) : moveMass μ (fun x y => q x y * ENNReal.ofReal (a x y)) x ≤ 1 := by
  unfold moveMass
  calc ∫⁻ y, q x y * ENNReal.ofReal (a x y) ∂μ ≤ ∫⁻ y, q x y ∂μ := by
        refine lintegral_mono fun y => ?_
        calc q x y * ENNReal.ofReal (a x y) ≤ q x y * 1 := by
              gcongr; simpa using ENNReal.ofReal_le_ofReal (h1 x y)
          _ = q x y := mul_one _
    _ = 1 := hq1 x

/-- the step as a function of the TAPES: `τ` the joint law of the draws that build the candidate `c t`, `r` the uniform draw.
    If the step agrees with `acceptReject` whenever `0 ≤ r`, its law is the accept/reject law of the candidate's law. -/
theorem tapeStep_law {T : Type*} [MeasurableSpace T] (τ : Measure T) [SFinite τ] {c : T → X} (hc : Measurable c) (x : X)
    {a : X → ℝ} (ha : Measurable a) {F : T × ℝ → X}
    (hstep : ∀ t r, 0 ≤ r → F (t, r) = acceptReject x a (c t, r)) :
    (τ.prod unif).map F = ((τ.map c).prod unif).map (acceptReject x a) := by
  have h0 : ∀ᵐ w ∂(τ.prod unif), 0 ≤ w.2 := by
    rw [ae_iff]
    have : {w : T × ℝ | ¬ 0 ≤ w.2} = univ ×ˢ Iio 0 := by ext w; simp
    rw [this, Measure.prod_prod]
    have : unif (Iio 0) = 0 := by
      unfold unif
      rw [Measure.restrict_apply measurableSet_Iio]
      have : Iio (0 : ℝ) ∩ Ico 0 1 = ∅ := by
        ext r; simp only [mem_inter_iff, mem_Iio, mem_Ico, mem_empty_iff_false, iff_false]; intro h; linarith [h.1, h.2.1]
      rw [this, measure_empty]
    rw [this, mul_zero]
  have hG : Measurable fun w : T × ℝ => acceptReject x a (c w.1, w.2) :=
    (measurable_acceptReject x ha).comp ((hc.comp measurable_fst).prodMk measurable_snd)
  have e1 : (τ.prod unif).map F = (τ.prod unif).map fun w => acceptReject x a (c w.1, w.2) :=
    Measure.map_congr (h0.mono fun w hw => hstep w.1 w.2 hw)
  have e2 : (τ.map c).prod unif = (τ.prod unif).map (Prod.map c id) := by
    have := Measure.map_prod_map τ unif hc measurable_id
    rw [Measure.map_id] at this
    exact this
  rw [e1, e2, Measure.map_map (measurable_acceptReject x ha) (hc.prodMap measurable_id)]
  rfl

/-- accept when `r ≤ a` instead of `r < a` -/
noncomputable def acceptRejectLe (x : X) (a : X → ℝ) (w : X × ℝ) : X := if w.2 ≤ a w.1 then w.1 else x

/-- the comparison `u_rand < alpha` may be written `<=` without changing the LAW of the step: the uniform draw has no atom,
    so the two decisions differ on a null set of tapes (the reason a `<` ↔ `<=` edit of the code is an equivalent mutant) -/
theorem acceptRejectLe_law (Q : Measure X) [SFinite Q] (x : X) {a : X → ℝ} (ha : Measurable a) :
    (Q.prod unif).map (acceptRejectLe x a) = (Q.prod unif).map (acceptReject x a) := by
  refine Measure.map_congr ?_
  have hgraph : MeasurableSet {w : X × ℝ | w.2 = a w.1} :=
    measurableSet_eq_fun measurable_snd (ha.comp measurable_fst)
  have hnull : (Q.prod unif) {w : X × ℝ | w.2 = a w.1} = 0 := by
    rw [Measure.prod_apply hgraph]
    have hsec : ∀ y, unif (Prod.mk y ⁻¹' {w : X × ℝ | w.2 = a w.1}) = 0 := by
      intro y
      have : Prod.mk y ⁻¹' {w : X × ℝ | w.2 = a w.1} = {a y} := by ext r; simp
      rw [this]
      unfold unif
      exact le_antisymm ((Measure.restrict_le_self _).trans_eq (measure_singleton _)) bot_le
    simp_rw [hsec]
    simp
  have hae : ∀ᵐ w ∂(Q.prod unif), w.2 ≠ a w.1 := by
    rw [ae_iff]; simpa using hnull
  refine hae.mono fun w hw => ?_
  unfold acceptRejectLe acceptReject
  by_cases h : w.2 < a w.1
  · simp [h, h.le]
  · have : ¬ w.2 ≤ a w.1 := fun hle => h (lt_of_le_of_ne hle hw)
    simp [h, this]

/-- the weight algebra of Metropolis–Hastings in `ℝ≥0∞`: if the proposal density is reversible w.r.t. a reference weight `t`
    (`t x · Q(x,y) = t y · Q(y,x)`), the acceptance `min 1 (π(y) t(x) / (π(x) t(y)))` makes the flow symmetric -/
theorem mh_flow_symm (px py tx ty : ℝ) (hpx : 0 < px) (hpy : 0 < py) (htx : 0 < tx) (hty : 0 < ty) (Qxy Qyx : ℝ≥0∞)
    (hrev : ENNReal.ofReal tx * Qxy = ENNReal.ofReal ty * Qyx) :
    ENNReal.ofReal px * (Qxy * ENNReal.ofReal (min 1 (py * tx / (px * ty))))
      = ENNReal.ofReal py * (Qyx * ENNReal.ofReal (min 1 (px * ty / (py * tx)))) := by
  have e1 : px * min 1 (py * tx / (px * ty)) = tx * min (px / tx) (py / ty) := by
    rw [mul_min_of_nonneg _ _ hpx.le, mul_min_of_nonneg _ _ htx.le]; congr 1 <;> field_simp
  have e2 : py * min 1 (px * ty / (py * tx)) = ty * min (px / tx) (py / ty) := by
    rw [mul_min_of_nonneg _ _ hpy.le, mul_min_of_nonneg _ _ hty.le, min_comm]; congr 1 <;> field_simp
  have hM : 0 ≤ min (px / tx) (py / ty) := le_min (by positivity) (by positivity)
  calc ENNReal.ofReal px * (Qxy * ENNReal.ofReal (min 1 (py * tx / (px * ty))))
      = Qxy * ENNReal.ofReal (px * min 1 (py * tx / (px * ty))) := by
        rw [ENNReal.ofReal_mul hpx.le]; ring
    _ = ENNReal.ofReal (min (px / tx) (py / ty)) * (ENNReal.ofReal tx * Qxy) := by
        rw [e1, ENNReal.ofReal_mul htx.le]; ring
    _ = ENNReal.ofReal (min (px / tx) (py / ty)) * (ENNReal.ofReal ty * Qyx) := by rw [hrev]
    _ = Qyx * ENNReal.ofReal (py * min 1 (px * ty / (py * tx))) := by
        rw [e2, ENNReal.ofReal_mul hty.le]; ring
    _ = ENNReal.ofReal py * (Qyx * ENNReal.ofReal (min 1 (px * ty / (py * tx)))) := by
        rw [ENNReal.ofReal_mul hpy.le]; ring

end Lemmas.MHKernel
