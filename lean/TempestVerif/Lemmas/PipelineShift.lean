import TempestVerif.Model.Pipeline
import TempestVerif.Lemmas.ScReal
import TempestVerif.Props.C04
import TempestVerif.Props.C05
import TempestVerif.Props.C06
import TempestVerif.Props.C20
import Mathlib.Tactic
/-
  Structural lemmas about `Model.Pipeline` used by C01, C02 and C10 (no property statements here):
  how the list helpers commute with a map, that `Model.Reweight.run` uses the evidence oracle only at the β it
  returns, what `iterate` appends to the history, and when every stored batch stays non-empty.
-/
namespace Lemmas.PipelineShift
open Model.Pipeline Model.Weights Model.Reweight Model.Records Model.Resample

/-! ### list helpers commute with `map` -/

theorem gather?_map {α β : Type} (f : α → β) (xs : List α) (idx : List Nat) :
    gather? (xs.map f) idx = (gather? xs idx).map (List.map f) := by
  induction idx with
  | nil => simp [gather?]
  | cons i is ih =>
    simp only [gather?, List.getElem?_map, ih]
    cases xs[i]? <;> cases gather? xs is <;> simp

theorem gather?_length {α : Type} {xs : List α} {idx : List Nat} {ys : List α}
    (h : gather? xs idx = some ys) : ys.length = idx.length := by
  induction idx generalizing ys with
  | nil => simp [gather?] at h; subst h; rfl
  | cons i is ih =>
    simp only [gather?] at h
    cases hx : xs[i]? with
    | none => simp [hx] at h
    | some x =>
      cases hg : gather? xs is with
      | none => simp [hx, hg] at h
      | some r =>
        simp [hx, hg] at h; subst h
        simp [ih hg]

theorem scatterFrom_map {α β : Type} (f : α → β) (xs : List α) (tgt src : List Nat) :
    scatterFrom (xs.map f) tgt src = (scatterFrom xs tgt src).map f := by
  induction tgt generalizing src with
  | nil => simp [scatterFrom]
  | cons t ts ih =>
    cases src with
    | nil => simp [scatterFrom]
    | cons s ss =>
      simp only [scatterFrom, List.getElem?_map]
      cases xs[s]? <;> simp [ih, List.map_set]

theorem allSome_map {α β : Type} (f : α → β) (l : List (Option α)) :
    allSome (l.map (Option.map f)) = (allSome l).map (List.map f) := by
  induction l with
  | nil => simp [allSome]
  | cons a l ih =>
    cases a with
    | none => simp [allSome]
    | some x => simp only [List.map_cons, Option.map_some, allSome, ih]; cases allSome l <;> simp

theorem allSome_length {α : Type} {l : List (Option α)} {ys : List α} (h : allSome l = some ys) :
    ys.length = l.length := by
  induction l generalizing ys with
  | nil => simp [allSome] at h; subst h; rfl
  | cons a l ih =>
    cases a with
    | none => simp [allSome] at h
    | some x =>
      simp only [allSome] at h
      cases hl : allSome l with
      | none => simp [hl] at h
      | some r => simp [hl] at h; subst h; simp [ih hl]

theorem countSome_map {α β : Type} (f : α → β) (l : List (Option α)) :
    countSome (l.map (Option.map f)) = countSome l := by
  simp only [countSome, List.countP_map]
  congr 1
  funext a
  cases a <;> simp

/-! ### the accept/reject steps under a shift of every log-likelihood -/

/-- the Metropolis ratio only sees the DIFFERENCE of the two log-likelihoods -/
theorem acceptProb_shift (β l lp f c : ℝ) :
    Gen.Kernel.acceptProb β (l + c) (lp + c) f = Gen.Kernel.acceptProb β l lp f := by
  simp [Gen.Kernel.acceptProb]

theorem mcmcStep_shift (c β : ℝ) : ∀ (tg : List Nat) (l : List ℝ) (pt : List Nat) (pl : List (Option ℝ))
    (f r : List ℝ),
    mcmcStep β tg (l.map (· + c)) pt (pl.map (Option.map (· + c))) f r
      = ((mcmcStep β tg l pt pl f r).1, (mcmcStep β tg l pt pl f r).2.1.map (· + c),
         (mcmcStep β tg l pt pl f r).2.2) := by
  intro tg
  induction tg with
  | nil => intro l pt pl f r; simp [mcmcStep]
  | cons t ts ih =>
    intro l pt pl f r
    rcases l with _ | ⟨l0, ls⟩
    · simp [mcmcStep]
    rcases pt with _ | ⟨p0, ps⟩
    · simp [mcmcStep]
    rcases pl with _ | ⟨q0, qs⟩
    · simp [mcmcStep]
    rcases f with _ | ⟨f0, fs⟩
    · simp [mcmcStep]
    rcases r with _ | ⟨r0, rs⟩
    · simp [mcmcStep]
    cases q0 with
    | none => simp [mcmcStep, ih]
    | some lp =>
      simp only [List.map_cons, Option.map_some, mcmcStep, ih, acceptProb_shift]
      split <;> simp

theorem mcmcStep_length (β : ℝ) : ∀ (tg : List Nat) (l : List ℝ) (pt : List Nat) (pl : List (Option ℝ))
    (f r : List ℝ), (mcmcStep β tg l pt pl f r).2.1.length = l.length := by
  intro tg
  induction tg with
  | nil => intro l pt pl f r; simp [mcmcStep]
  | cons t ts ih =>
    intro l pt pl f r
    rcases l with _ | ⟨l0, ls⟩
    · simp [mcmcStep]
    rcases pt with _ | ⟨p0, ps⟩
    · simp [mcmcStep]
    rcases pl with _ | ⟨q0, qs⟩
    · simp [mcmcStep]
    rcases f with _ | ⟨f0, fs⟩
    · simp [mcmcStep]
    rcases r with _ | ⟨r0, rs⟩
    · simp [mcmcStep]
    simp [mcmcStep, ih]

/-- shift of one step's proposal record -/
def shiftStep (c : ℝ) (s : Step ℝ) : Step ℝ := { s with propL := s.propL.map (Option.map (· + c)) }

theorem mcmcSteps_shift (c β : ℝ) (ss : List (Step ℝ)) : ∀ (tg : List Nat) (l : List ℝ),
    mcmcSteps β (ss.map (shiftStep c)) tg (l.map (· + c))
      = ((mcmcSteps β ss tg l).1, (mcmcSteps β ss tg l).2.1.map (· + c), (mcmcSteps β ss tg l).2.2) := by
  induction ss with
  | nil => intro tg l; simp [mcmcSteps]
  | cons s ss ih =>
    intro tg l
    simp only [List.map_cons, mcmcSteps, shiftStep, mcmcStep_shift]
    simp [ih]

theorem mcmcSteps_length (β : ℝ) (ss : List (Step ℝ)) : ∀ (tg : List Nat) (l : List ℝ),
    (mcmcSteps β ss tg l).2.1.length = l.length := by
  induction ss with
  | nil => intro tg l; simp [mcmcSteps]
  | cons s ss ih => intro tg l; simp [mcmcSteps, ih, mcmcStep_length]

/-! ### warm-up under a shift -/

/-- `shiftTape c t`: `c` is added to every finite log-likelihood on the tape; tags, picks, uniforms and Hastings
    factors are untouched -/
def shiftTape (c : ℝ) (t : Tape ℝ) : Tape ℝ :=
  { t with drawL := t.drawL.map (Option.map (· + c)), steps := t.steps.map (shiftStep c) }

theorem warmup_shift (c : ℝ) (t : Tape ℝ) (lz lz' : ℝ) :
    warmup (shiftTape c t) lz'
      = ((warmup t lz).1, (warmup t lz).2.1.map (Option.map (· + c)),
         if countSome t.drawL < t.drawL.length then (warmup t lz).2.2 else lz') := by
  have hinf : ∀ n, ((List.range n).filter fun i => !(((t.drawL.map (Option.map (· + c)))[i]?).join.isSome))
      = (List.range n).filter fun i => !((t.drawL[i]?).join.isSome) := by
    intro n
    apply List.filter_congr
    intro i _
    rw [List.getElem?_map]
    cases t.drawL[i]? with
    | none => rfl
    | some a => cases a <;> rfl
  simp only [warmup, shiftTape, List.length_map, countSome_map, hinf]
  by_cases h1 : countSome t.drawL < t.drawL.length
  · by_cases h2 : countSome t.drawL > 0
    · simp [h1, h2, scatterFrom_map]
    · simp [h1, h2]
  · simp [h1]

/-! ### `Reweighter.run` touches the evidence oracle only at the β it returns -/

/-- congruence of `run` in the evidence oracle: two runs over the same metric oracle differ in the recorded
    `logz` only, and that is the evidence oracle evaluated at the returned β -/
theorem run_Z_congr {W : Type} (c : Cfg ℝ) (M : ℝ → W × ℝ × ℝ) (Z Z' : ℝ → ℝ) (fin : ℝ → Bool) (prev : ℝ) :
    Model.Reweight.run c false M Z' fin prev
      = { Model.Reweight.run c false M Z fin prev with logz := Z' (Model.Reweight.run c false M Z fin prev).beta } := by
  cases hv : c.vv with
  | none =>
    simp only [Model.Reweight.run, hv, Bool.false_eq_true, if_false]
    rcases Props.C05.runEss_cases M Z fin c.target c.tolE c.tolB c.fuel prev with ⟨_, e⟩ | ⟨_, _, e⟩ | ⟨_, _, e⟩ <;>
    rcases Props.C05.runEss_cases M Z' fin c.target c.tolE c.tolB c.fuel prev with ⟨_, e'⟩ | ⟨_, _, e'⟩ | ⟨_, _, e'⟩ <;>
    first
    | (rw [e, e']; rfl)
    | (exfalso; linarith)
  | some v =>
    simp only [Model.Reweight.run, hv, Bool.false_eq_true, if_false]
    rcases Props.C05.runDyn_cases M Z fin c.target v c.tolE c.tolB c.fuel prev with
      ⟨h1, e⟩ | ⟨h1, h2, e⟩ | ⟨h1, h2, h3, e⟩ | ⟨h1, h2, h3, e⟩ <;>
    rcases Props.C05.runDyn_cases M Z' fin c.target v c.tolE c.tolB c.fuel prev with
      ⟨g1, e'⟩ | ⟨g1, g2, e'⟩ | ⟨g1, g2, g3, e'⟩ | ⟨g1, g2, g3, e'⟩ <;>
    first
    | (rw [e, e']; rfl)
    | (exfalso; first | exact h1 g1 | exact g1 h1 | linarith)

/-! ### shift of a pipeline state -/

def shiftPB (c : ℝ) (pb : PBatch ℝ) : PBatch ℝ := ⟨Props.C04.shiftB c pb.b, pb.tags⟩

/-- the state of the run on `ℓ + c` that corresponds to `s`: same tags and β; every stored ℓ plus `c`; every
    stored evidence `z_t` plus `β_t c`; the current evidence plus `β c` -/
def shiftState (c : ℝ) (s : PState ℝ) : PState ℝ :=
  ⟨s.hist.map (shiftPB c), s.beta, s.logz + s.beta * c, s.curTags, s.curL.map (· + c)⟩

def shiftOut (c : ℝ) (o : IterOut ℝ) : IterOut ℝ :=
  { o with logzRw := o.logzRw + o.beta * c, logz := o.logz + o.beta * c }

/-- every stored batch is non-empty -/
def WFS (s : PState ℝ) : Prop := ∀ pb ∈ s.hist, 1 ≤ pb.b.logl.length

theorem batches_shift (c : ℝ) (h : List (PBatch ℝ)) :
    batches (h.map (shiftPB c)) = Props.C04.shiftH c (batches h) := by
  simp [batches, Props.C04.shiftH, shiftPB, List.map_map, Function.comp_def]

theorem poolTags_shift (c : ℝ) (h : List (PBatch ℝ)) : poolTags (h.map (shiftPB c)) = poolTags h := by
  simp [poolTags, shiftPB, List.flatMap_map]

theorem WF_batches (s : PState ℝ) (hs : WFS s) : batches s.hist = [] ∨ Props.C04.WF (batches s.hist) := by
  by_cases h : s.hist = []
  · left; simp [batches, h]
  · right
    refine ⟨by simpa [batches] using h, ?_⟩
    intro b hb
    simp only [batches, List.mem_map] at hb
    obtain ⟨pb, hpb, rfl⟩ := hb
    exact hs pb hpb

/-- ESS-mode metric oracle: normalised log-weights, hence `exp(logw − max)` and the ESS, do not see the shift -/
theorem oracleM_shift (h : List (Batch ℝ)) (hwf : Props.C04.WF h) (c β : ℝ) :
    oracleM (Props.C04.shiftH c h) β = oracleM h β := by
  simp only [oracleM, (Props.C04.C04_shift h hwf β c true).2.1]

/-- evidence oracle: shifted by `β c` -/
theorem oracleZ_shift (h : List (Batch ℝ)) (hwf : Props.C04.WF h) (c β : ℝ) :
    oracleZ (Props.C04.shiftH c h) β = oracleZ h β + β * c := by
  simp only [oracleZ, (Props.C04.C04_shift h hwf β c true).2.2, Props.C04.C04_logz h hwf]
  simp

theorem reweight_shift (cfg : Cfg ℝ) (h : List (Batch ℝ)) (hwf : h = [] ∨ Props.C04.WF h) (c prev : ℝ)
    (fin : ℝ → Bool) :
    Model.Reweight.run cfg (Props.C04.shiftH c h).isEmpty (oracleM (Props.C04.shiftH c h))
        (oracleZ (Props.C04.shiftH c h)) fin prev
      = { Model.Reweight.run cfg h.isEmpty (oracleM h) (oracleZ h) fin prev with
          logz := (Model.Reweight.run cfg h.isEmpty (oracleM h) (oracleZ h) fin prev).logz
            + (Model.Reweight.run cfg h.isEmpty (oracleM h) (oracleZ h) fin prev).beta * c } := by
  rcases hwf with rfl | hwf
  · simp [Model.Reweight.run, Props.C04.shiftH]
  · have hne : h.isEmpty = false := by
      cases h with
      | nil => exact absurd rfl hwf.1
      | cons _ _ => rfl
    have hne' : (Props.C04.shiftH c h).isEmpty = false := by
      cases h with
      | nil => exact absurd rfl hwf.1
      | cons _ _ => rfl
    have hM : oracleM (Props.C04.shiftH c h) = oracleM h := funext (oracleM_shift h hwf c)
    rw [hne, hne', hM, run_Z_congr cfg (oracleM h) (oracleZ h) (oracleZ (Props.C04.shiftH c h)) fin prev,
      oracleZ_shift h hwf,
      ← (Props.C05.C05_same_temperature cfg (oracleM h) (oracleZ h) fin prev).2.2.1]

/-! ### one whole iteration under the shift -/

theorem iterate_shift (cfg : PCfg ℝ) (c : ℝ) (s : PState ℝ) (t : Tape ℝ) (hs : WFS s) :
    iterate cfg (shiftState c s) (shiftTape c t)
      = (iterate cfg s t).map fun p => (shiftState c p.1, shiftOut c p.2) := by
  have hr := reweight_shift cfg.rw (batches s.hist) (WF_batches s hs) c s.beta isFin
  unfold iterate
  simp only [shiftState, batches_shift, poolTags_shift]
  rw [hr]
  set r := Model.Reweight.run cfg.rw (batches s.hist).isEmpty (oracleM (batches s.hist))
    (oracleZ (batches s.hist)) isFin s.beta with hrdef
  by_cases hb : eqv r.beta Sc.zero = true
  · have hb0 : r.beta = 0 := by
      have := (Props.C05.eqv_real r.beta 0).mp (by simpa using hb)
      exact this
    simp only [hb, if_true]
    rw [warmup_shift c t r.logz]
    have hlz : ¬ (countSome t.drawL < t.drawL.length) → (warmup t r.logz).2.2 = r.logz := by
      intro h; simp [warmup, h]
    rcases hw : warmup t r.logz with ⟨tags, ls, lz⟩
    rw [hw] at hlz
    simp only [allSome_map]
    cases allSome ls with
    | none => simp
    | some l =>
      by_cases h1 : countSome t.drawL < t.drawL.length
      · simp [h1, shiftOut, shiftPB, Props.C04.shiftB, hb0]
      · have := hlz h1
        simp only at this
        subst this
        simp [h1, shiftOut, shiftPB, Props.C04.shiftB, hb0]
  · simp only [hb, Bool.false_eq_true, if_false, shiftTape]
    simp only [Option.map_bind, Option.map_map, Function.comp_def]
    congr 1; funext idx
    congr 1; funext tg
    rw [Props.C04.flatLogl_shift, gather?_map, Option.map_map]
    congr 1; funext l
    simp [mcmcSteps_shift, shiftOut, shiftPB, Props.C04.shiftB]

/-! ### what `iterate` commits -/

/-- `iterate` appends exactly one batch — the current particles with the (β, logz) it reports — and leaves the
    earlier batches untouched (any scalar type) -/
theorem iterate_commit {α : Type} [ScT α] (cfg : PCfg α) (s : PState α) (t : Tape α) (s1 : PState α)
    (o : IterOut α) (h : iterate cfg s t = some (s1, o)) :
    s1.hist = s.hist ++ [⟨⟨o.beta, o.logz, s1.curL⟩, s1.curTags⟩] ∧ s1.beta = o.beta ∧ s1.logz = o.logz := by
  simp only [iterate] at h
  generalize Model.Reweight.run cfg.rw (batches s.hist).isEmpty (oracleM (batches s.hist))
    (oracleZ (batches s.hist)) isFin s.beta = r at h
  by_cases hb : eqv r.beta Sc.zero = true
  · simp only [hb, if_true, Option.map_eq_some_iff, Prod.mk.injEq] at h
    obtain ⟨l, _, rfl, rfl⟩ := h
    exact ⟨rfl, rfl, rfl⟩
  · simp only [hb, Bool.false_eq_true, if_false, Option.bind_eq_some_iff, Option.map_eq_some_iff,
      Prod.mk.injEq] at h
    obtain ⟨idx, _, tg, _, l, _, rfl, rfl⟩ := h
    exact ⟨rfl, rfl, rfl⟩

theorem scatterFrom_length {α : Type} (xs : List α) (tgt src : List Nat) :
    (scatterFrom xs tgt src).length = xs.length := by
  induction tgt generalizing src with
  | nil => simp [scatterFrom]
  | cons t ts ih =>
    cases src with
    | nil => simp [scatterFrom]
    | cons s ss =>
      simp only [scatterFrom]
      split <;> simp [ih]

theorem warmup_length (t : Tape ℝ) (lz : ℝ) : (warmup t lz).2.1.length = t.drawL.length := by
  simp only [warmup]
  split
  · split <;> simp [scatterFrom_length]
  · rfl

/-- size of the batch `iterate` commits: the number of prior draws in a warm-up iteration, otherwise the number
    of resampled indices (`n_particles` for systematic, one per uniform for multinomial resampling) -/
theorem iterate_size (cfg : PCfg ℝ) (s : PState ℝ) (t : Tape ℝ) (s1 : PState ℝ) (o : IterOut ℝ)
    (h : iterate cfg s t = some (s1, o)) :
    s1.curL.length = t.drawL.length ∨
      s1.curL.length = (if cfg.syst then cfg.rw.nPart else t.resU.length) := by
  simp only [iterate] at h
  generalize Model.Reweight.run cfg.rw (batches s.hist).isEmpty (oracleM (batches s.hist))
    (oracleZ (batches s.hist)) isFin s.beta = r at h
  by_cases hb : eqv r.beta Sc.zero = true
  · left
    simp only [hb, if_true, Option.map_eq_some_iff, Prod.mk.injEq] at h
    obtain ⟨l, hl, rfl, _⟩ := h
    simp only
    rw [allSome_length hl, warmup_length]
  · right
    simp only [hb, Bool.false_eq_true, if_false, Option.bind_eq_some_iff, Option.map_eq_some_iff,
      Prod.mk.injEq] at h
    obtain ⟨idx, hidx, tg, _, l, hl, rfl, _⟩ := h
    simp only
    rw [mcmcSteps_length, gather?_length hl]
    by_cases hsy : cfg.syst = true
    · simp only [hsy, if_true] at hidx ⊢
      split at hidx
      · exact Props.C06.C06_syst_length _ _ _ _ _ hidx
      · cases hidx
    · simp only [hsy, Bool.false_eq_true, if_false] at hidx ⊢
      exact Props.C06.C06_mult_length _ _ _ hidx

/-- the tape supplies at least one prior draw and at least one resampled particle -/
def TapeOK (cfg : PCfg ℝ) (t : Tape ℝ) : Prop :=
  1 ≤ t.drawL.length ∧ 1 ≤ (if cfg.syst then cfg.rw.nPart else t.resU.length)

/-- "every stored batch is non-empty" is preserved by `iterate` -/
theorem iterate_WFS (cfg : PCfg ℝ) (s : PState ℝ) (t : Tape ℝ) (s1 : PState ℝ) (o : IterOut ℝ)
    (hs : WFS s) (ht : TapeOK cfg t) (h : iterate cfg s t = some (s1, o)) : WFS s1 := by
  obtain ⟨hh, _, _⟩ := iterate_commit cfg s t s1 o h
  intro pb hpb
  rw [hh, List.mem_append] at hpb
  rcases hpb with hpb | hpb
  · exact hs pb hpb
  · simp only [List.mem_singleton] at hpb
    subst hpb
    simp only
    rcases iterate_size cfg s t s1 o h with e | e <;> rw [e]
    · exact ht.1
    · exact ht.2

theorem WFS_init : WFS (init : PState ℝ) := by intro pb hpb; simp [init] at hpb

theorem shiftState_init (c : ℝ) : shiftState c (init : PState ℝ) = init := by
  simp [shiftState, init]

/-! ### a whole run under the shift -/

theorem runIters_shift (cfg : PCfg ℝ) (c : ℝ) (ts : List (Tape ℝ)) : ∀ (s : PState ℝ), WFS s →
    (∀ t ∈ ts, TapeOK cfg t) →
    runIters cfg (shiftState c s) (ts.map (shiftTape c))
      = (runIters cfg s ts).map fun p => (shiftState c p.1, p.2.map (shiftOut c)) := by
  induction ts with
  | nil => intro s _ _; simp [runIters]
  | cons t ts ih =>
    intro s hs ht
    simp only [List.map_cons, runIters, iterate_shift cfg c s t hs]
    cases hi : iterate cfg s t with
    | none => simp
    | some p =>
      obtain ⟨s1, o⟩ := p
      have hs1 := iterate_WFS cfg s t s1 o hs (ht t (by simp)) hi
      simp only [Option.map_some, Option.bind_some]
      rw [ih s1 hs1 (fun t' ht' => ht t' (by simp [ht']))]
      cases runIters cfg s1 ts <;> simp

theorem runIters_WFS (cfg : PCfg ℝ) (ts : List (Tape ℝ)) : ∀ (s sf : PState ℝ) (os : List (IterOut ℝ)), WFS s →
    (∀ t ∈ ts, TapeOK cfg t) → runIters cfg s ts = some (sf, os) → WFS sf := by
  induction ts with
  | nil => intro s sf os hs _ h; simp [runIters] at h; rw [← h.1]; exact hs
  | cons t ts ih =>
    intro s sf os hs ht h
    simp only [runIters, Option.bind_eq_some_iff, Option.map_eq_some_iff] at h
    obtain ⟨⟨s1, o⟩, hi, ⟨sf', os'⟩, hr, he⟩ := h
    have hs1 := iterate_WFS cfg s t s1 o hs (ht t (by simp)) hi
    have := ih s1 sf' os' hs1 (fun t' ht' => ht t' (by simp [ht'])) hr
    simp only [Prod.mk.injEq] at he
    rw [← he.1]; exact this

/-- a run only ever appends: one batch and one output record per tape (any scalar type) -/
theorem runIters_hist {α : Type} [ScT α] (cfg : PCfg α) (ts : List (Tape α)) :
    ∀ (s sf : PState α) (os : List (IterOut α)), runIters cfg s ts = some (sf, os) →
      ∃ ext, sf.hist = s.hist ++ ext ∧ ext.length = ts.length ∧ os.length = ts.length := by
  induction ts with
  | nil =>
    intro s sf os h
    simp only [runIters, Option.some.injEq, Prod.mk.injEq] at h
    obtain ⟨rfl, rfl⟩ := h
    exact ⟨[], by simp, rfl, rfl⟩
  | cons t ts ih =>
    intro s sf os h
    simp only [runIters, Option.bind_eq_some_iff, Option.map_eq_some_iff] at h
    obtain ⟨⟨s1, o⟩, hi, ⟨sf', os'⟩, hr, he⟩ := h
    simp only [Prod.mk.injEq] at he
    obtain ⟨rfl, rfl⟩ := he
    obtain ⟨ext, h1, h2, h3⟩ := ih s1 sf' os' hr
    obtain ⟨hh, _, _⟩ := iterate_commit cfg s t s1 o hi
    refine ⟨⟨⟨o.beta, o.logz, s1.curL⟩, s1.curTags⟩ :: ext, ?_, by simp [h2], by simp [h3]⟩
    rw [h1, hh, List.append_assoc]; rfl

theorem WFS_of_append (s sf : PState ℝ) (ext : List (PBatch ℝ)) (h : sf.hist = s.hist ++ ext) (hw : WFS sf) :
    WFS s := by
  intro pb hpb
  exact hw pb (by rw [h]; exact List.mem_append_left _ hpb)

/-- a-posteriori form: if the run on `ℓ` completed and every batch it committed is non-empty, the run on `ℓ + c`
    completes with the shifted state and the shifted outputs -/
theorem runIters_shift_of_final (cfg : PCfg ℝ) (c : ℝ) (ts : List (Tape ℝ)) :
    ∀ (s sf : PState ℝ) (os : List (IterOut ℝ)), runIters cfg s ts = some (sf, os) → WFS sf →
      runIters cfg (shiftState c s) (ts.map (shiftTape c)) = some (shiftState c sf, os.map (shiftOut c)) := by
  induction ts with
  | nil =>
    intro s sf os h _
    simp only [runIters, Option.some.injEq, Prod.mk.injEq] at h
    obtain ⟨rfl, rfl⟩ := h
    simp [runIters]
  | cons t ts ih =>
    intro s sf os h hw
    obtain ⟨ext, he, _, _⟩ := runIters_hist cfg (t :: ts) s sf os h
    have hs : WFS s := WFS_of_append s sf ext he hw
    simp only [runIters, Option.bind_eq_some_iff, Option.map_eq_some_iff] at h
    obtain ⟨⟨s1, o⟩, hi, ⟨sf', os'⟩, hr, he'⟩ := h
    simp only [Prod.mk.injEq] at he'
    obtain ⟨rfl, rfl⟩ := he'
    simp only [List.map_cons, runIters, iterate_shift cfg c s t hs, hi, Option.map_some, Option.bind_some]
    rw [ih s1 sf' os' hr hw]
    rfl

/-! ### a concrete two-iteration run (shared non-vacuity witness of C01, C02, C10): warm-up, then one annealing
    iteration with systematic resampling and one accept/reject step in which one proposal is accepted and one (−∞)
    is rejected -/
namespace Ex

noncomputable def cfgEx : PCfg ℝ := ⟨⟨1/2, 2, none, 1/100, 1/10000, 64⟩, true⟩
noncomputable def t1 : Tape ℝ := ⟨[10, 11], [some 0, some 0], [], [], []⟩
noncomputable def t2 : Tape ℝ := ⟨[], [], [], [1/2], [⟨[20, 21], [some 0, none], [0, 0], [1/2, 1/2]⟩]⟩
noncomputable def s1 : PState ℝ := ⟨[⟨⟨0, 0, [0, 0]⟩, [10, 11]⟩], 0, 0, [10, 11], [0, 0]⟩
noncomputable def z1 : ℝ := oracleZ (batches s1.hist) 1
noncomputable def s2 : PState ℝ :=
  ⟨s1.hist ++ [⟨⟨1, z1, [0, 0]⟩, [20, 11]⟩], 1, z1, [20, 11], [0, 0]⟩

theorem it1 : iterate cfgEx init t1 = some (s1, ⟨0, 1, 0, 0, [], [], Branch.firstIter⟩) := by
  simp [iterate, init, batches, Model.Reweight.run, eqv, warmup, t1, countSome, allSome, s1, cfgEx, Cfg.target]

theorem oM (β : ℝ) : oracleM (batches s1.hist) β = ([1, 1], 2, 2) := by
  simp [oracleM, s1, batches, logw, rawLogw, finish, flatLogl, nTotal, mixLog, logaddexpReduce1, entry, logaddexp,
    Model.Ess.maxOf, ScReal.max_def, Props.C20.ess_def]
  norm_num

theorem rw2 : Model.Reweight.run cfgEx.rw (batches s1.hist).isEmpty (oracleM (batches s1.hist))
      (oracleZ (batches s1.hist)) isFin s1.beta
    = ⟨1, .of [1, 1], 2, oracleZ (batches s1.hist) 1, Branch.essUpper, [Branch.upOne], [0, 1, 0, 1], [1]⟩ := by
  have hM : oracleM (batches s1.hist) = fun _ => ([1, 1], 2, 2) := funext oM
  rw [hM]
  simp [Model.Reweight.run, cfgEx, runEss, upperLimit, finalize, Cfg.target, s1, batches]

theorem rs2 : Model.Resample.systematic 2 (returnedWeights (WTag.of ([1, 1] : List ℝ))) (1/2) = some [0, 1] := by
  have hr : List.range 2 = [0, 1] := by decide
  have hw : returnedWeights (WTag.of ([1, 1] : List ℝ)) = [1/2, 1/2] := by
    simp [returnedWeights, Props.C20.normalise_def]; norm_num
  rw [hw]
  simp [Model.Resample.systematic, Model.Resample.systematicWith, Model.Resample.renorm, Sc.sum, ScReal.abs_def, hr,
    Model.Resample.run, Model.Resample.position]
  norm_num [Model.Resample.advance.eq_def, Sc.ge, Props.C06.sqrtEps_real]

theorem mc2 : mcmcSteps (1 : ℝ) t2.steps [10, 11] [0, 0] = ([20, 11], [0, 0], [[true, false]]) := by
  simp [mcmcSteps, mcmcStep, t2, Gen.Kernel.acceptDecision, Gen.Kernel.acceptProb, Gen.Kernel.npMinimum,
    Gen.Kernel.nanToZero]
  norm_num

theorem it2 : iterate cfgEx s1 t2 = some (s2, ⟨1, 2, z1, z1, [0, 1], [[true, false]], Branch.essUpper⟩) := by
  unfold iterate
  simp only [rw2]
  have h10 : eqv (1 : ℝ) Sc.zero = false := by simp [eqv]
  have hsy : cfgEx.syst = true := rfl
  have hn : cfgEx.rw.nPart = 2 := rfl
  have hu : t2.resU = [1/2] := rfl
  simp only [h10, hsy, hn, hu, if_true, Bool.false_eq_true, if_false, rs2, Option.bind_some]
  have hg1 : Model.Records.gather? (poolTags s1.hist) [0, 1] = some [10, 11] := by
    simp [Model.Records.gather?, poolTags, s1]
  have hg2 : Model.Records.gather? (flatLogl (batches s1.hist)) [0, 1] = some [0, 0] := by
    simp [Model.Records.gather?, flatLogl, batches, s1]
  simp only [hg1, hg2, Option.bind_some, Option.map_some, mc2]
  rfl

theorem run2 : runIters cfgEx init [t1, t2]
    = some (s2, [⟨0, 1, 0, 0, [], [], Branch.firstIter⟩, ⟨1, 2, z1, z1, [0, 1], [[true, false]], Branch.essUpper⟩]) := by
  simp [runIters, it1, it2]

theorem wfs_s1 : WFS s1 := by
  intro pb hpb; simp [s1] at hpb; subst hpb; simp
theorem wfs_s2 : WFS s2 := by
  intro pb hpb
  simp only [s2, s1, List.cons_append, List.nil_append, List.mem_cons, List.not_mem_nil, or_false] at hpb
  rcases hpb with rfl | rfl <;> simp

end Ex

end Lemmas.PipelineShift
