import TempestVerif.Lemmas.Maha
import Mathlib.LinearAlgebra.Matrix.NonsingularInverse
import Mathlib.LinearAlgebra.Matrix.Trace
import Mathlib.Analysis.SpecialFunctions.Sqrt
import Mathlib.Tactic
/-
  Exact-real model of `volume_variation(x, w)` (/repo/tempest/tools.py, lines 58-117) on Mathlib
  matrices, with: nonnegativity on every branch, invariance under rescaling of the raw weights,
  and invariance under an invertible affine change of coordinates (on the nonsingular-covariance branch).
-/
namespace Lemmas.VolVar
open Matrix Lemmas.Maha
variable {ι κ : Type} [Fintype ι] [Fintype κ] [DecidableEq κ]

/-- `w / np.sum(w)` -/
noncomputable def wnorm (w : ι → ℝ) : ι → ℝ := fun i => w i / ∑ j, w j

/-- `np.sum(x * w[:, None], axis=0)` -/
noncomputable def wmean (x : ι → κ → ℝ) (w : ι → ℝ) : κ → ℝ := ∑ i, w i • x i

/-- `xc.T @ (xc * w[:, None])` = Σ_i w_i (x_i − m)(x_i − m)ᵀ -/
noncomputable def wcov (x : ι → κ → ℝ) (w : ι → ℝ) : Matrix κ κ ℝ :=
  ∑ i, w i • vecMulVec (x i - wmean x w) (x i - wmean x w)

/-- `np.clip(t, lo, hi)` = minimum(maximum(t, lo), hi) -/
noncomputable def clip (t lo hi : ℝ) : ℝ := min (max t lo) hi

/-- `0.5 * sqrt(sum(w**2 * clip(d2 - n_dim, -1e6, 1e6)**2))` with `d2_i = (x_i-m)ᵀ S⁻¹ (x_i-m)` -/
noncomputable def metricWith (S : Matrix κ κ ℝ) (x : ι → κ → ℝ) (w : ι → ℝ) : ℝ :=
  (1/2) * Real.sqrt (∑ i, (w i)^2 *
    (clip (maha S (x i - wmean x w) - (Fintype.card κ : ℝ)) (-1e6) 1e6)^2)

open Classical in
/-- the whole function, all branches: too few samples -> 1e10; singular covariance -> ridge
    `1e-6·trace`; still singular (`LinAlgError`) -> 1e10 -/
noncomputable def volvar (x : ι → κ → ℝ) (w0 : ι → ℝ) : ℝ :=
  if Fintype.card ι < Fintype.card κ + 1 then 1e10 else
  let w := wnorm w0
  let S := wcov x w
  if IsUnit S.det then metricWith S x w
  else
    let S' := S + (1e-6 * trace S) • (1 : Matrix κ κ ℝ)
    if IsUnit S'.det then metricWith S' x w else 1e10

/-! ### 1. nonnegativity -/

theorem metricWith_nonneg (S : Matrix κ κ ℝ) (x : ι → κ → ℝ) (w : ι → ℝ) :
    0 ≤ metricWith S x w := by
  exact mul_nonneg (by norm_num) (Real.sqrt_nonneg _)

theorem volvar_nonneg (x : ι → κ → ℝ) (w0 : ι → ℝ) : 0 ≤ volvar x w0 := by
  simp only [volvar]
  split_ifs
  · norm_num
  · exact metricWith_nonneg _ _ _
  · exact metricWith_nonneg _ _ _
  · norm_num

/-! ### 2. invariance under rescaling of the raw weights -/

theorem wnorm_smul (c : ℝ) (hc : c ≠ 0) (w : ι → ℝ) :
    wnorm (fun i => c * w i) = wnorm w := by
  funext i
  unfold wnorm
  rw [← Finset.mul_sum, mul_div_mul_left _ _ hc]

theorem volvar_weight_scale (c : ℝ) (hc : c ≠ 0) (x : ι → κ → ℝ) (w0 : ι → ℝ) :
    volvar x (fun i => c * w0 i) = volvar x w0 := by
  unfold volvar
  rw [wnorm_smul c hc]

/-! ### 3. affine maps -/

theorem sum_wnorm (w0 : ι → ℝ) (h : ∑ i, w0 i ≠ 0) : ∑ i, wnorm w0 i = 1 := by
  unfold wnorm
  rw [← Finset.sum_div, div_self h]

omit [DecidableEq κ] in
theorem wmean_affine (A : Matrix κ κ ℝ) (b : κ → ℝ) (x : ι → κ → ℝ) (w : ι → ℝ)
    (hw : ∑ i, w i = 1) :
    wmean (fun i => A *ᵥ x i + b) w = A *ᵥ wmean x w + b := by
  unfold wmean
  simp only [smul_add, Finset.sum_add_distrib, ← Finset.sum_smul, hw, one_smul]
  rw [mulVec_sum]
  simp only [mulVec_smul]

omit [DecidableEq κ] in
theorem vecMulVec_mulVec_mulVec (A : Matrix κ κ ℝ) (v u : κ → ℝ) :
    vecMulVec (A *ᵥ v) (A *ᵥ u) = A * vecMulVec v u * Aᵀ := by
  rw [mul_vecMulVec, vecMulVec_mul, vecMul_transpose]

omit [DecidableEq κ] in
theorem centre_affine (A : Matrix κ κ ℝ) (b : κ → ℝ) (x : ι → κ → ℝ) (w : ι → ℝ)
    (hw : ∑ i, w i = 1) (i : ι) :
    (A *ᵥ x i + b) - wmean (fun i => A *ᵥ x i + b) w = A *ᵥ (x i - wmean x w) := by
  rw [wmean_affine A b x w hw, mulVec_sub]
  abel

omit [DecidableEq κ] in
theorem wcov_affine (A : Matrix κ κ ℝ) (b : κ → ℝ) (x : ι → κ → ℝ) (w : ι → ℝ)
    (hw : ∑ i, w i = 1) :
    wcov (fun i => A *ᵥ x i + b) w = A * wcov x w * Aᵀ := by
  unfold wcov
  rw [Matrix.mul_sum, Matrix.sum_mul]
  refine Finset.sum_congr rfl fun i _ => ?_
  rw [centre_affine A b x w hw i, vecMulVec_mulVec_mulVec, Matrix.mul_smul, Matrix.smul_mul]

theorem metricWith_affine (A S : Matrix κ κ ℝ) (b : κ → ℝ) (hA : IsUnit A.det)
    (x : ι → κ → ℝ) (w : ι → ℝ) (hw : ∑ i, w i = 1) :
    metricWith (A * S * Aᵀ) (fun i => A *ᵥ x i + b) w = metricWith S x w := by
  unfold metricWith
  congr 2
  refine Finset.sum_congr rfl fun i _ => ?_
  rw [centre_affine A b x w hw i, maha_affine A S _ hA]

/-! ### 4. affine invariance of the metric (nonsingular-covariance branch) -/

theorem volvar_affine (A : Matrix κ κ ℝ) (b : κ → ℝ) (hA : IsUnit A.det)
    (x : ι → κ → ℝ) (w0 : ι → ℝ) (hw : ∑ i, w0 i ≠ 0)
    (hS : IsUnit (wcov x (wnorm w0)).det) :
    volvar (fun i => A *ᵥ x i + b) w0 = volvar x w0 := by
  have h1 : ∑ i, wnorm w0 i = 1 := sum_wnorm w0 hw
  have hcov := wcov_affine A b x (wnorm w0) h1
  have hS' : IsUnit (wcov (fun i => A *ᵥ x i + b) (wnorm w0)).det := by
    rw [hcov, det_mul, det_mul, det_transpose]
    exact (hA.mul hS).mul hA
  unfold volvar
  by_cases hc : Fintype.card ι < Fintype.card κ + 1
  · simp only [if_pos hc]
  · simp only [if_neg hc, if_pos hS, if_pos hS']
    rw [hcov]
    exact metricWith_affine A _ b hA x (wnorm w0) h1

/-! ### 5. non-vacuity: the guards of `volvar_affine` are satisfiable -/

/-- three points `0, 1, 2` on the line, unit raw weights -/
def exX : Fin 3 → Fin 1 → ℝ := ![![0], ![1], ![2]]
/-- unit raw weights -/
def exW : Fin 3 → ℝ := fun _ => 1

theorem exW_sum : ∑ i, exW i ≠ 0 := by
  simp [exW]

theorem ex_wcov_det : (wcov exX (wnorm exW)).det = 2 / 3 := by
  rw [det_unique]
  simp [wcov, wmean, wnorm, exX, exW, Fin.sum_univ_three, Matrix.sum_apply]
  norm_num

theorem ex_guard : IsUnit (wcov exX (wnorm exW)).det := by
  rw [ex_wcov_det]
  exact isUnit_iff_ne_zero.mpr (by norm_num)

example : volvar (fun i => (!![2] : Matrix (Fin 1) (Fin 1) ℝ) *ᵥ exX i + ![5]) exW
    = volvar exX exW :=
  volvar_affine _ _ (by simp [det_unique]) exX exW exW_sum ex_guard

/-- on the example the main (non-sentinel) branch is the one taken -/
example : volvar exX exW = metricWith (wcov exX (wnorm exW)) exX (wnorm exW) := by
  have hc : ¬ Fintype.card (Fin 3) < Fintype.card (Fin 1) + 1 := by simp
  simp only [volvar, if_neg hc, if_pos ex_guard]

end Lemmas.VolVar
