import TempestVerif.Model.Student
import TempestVerif.Lemmas.ScReal
import Mathlib.LinearAlgebra.Matrix.PosDef
import Mathlib.Analysis.Matrix.Order
import Mathlib.Algebra.Order.Star.Real
import Mathlib.LinearAlgebra.Matrix.NonsingularInverse
import Mathlib.Algebra.BigOperators.Fin
import Mathlib.Tactic
/-
  The Gauss–Jordan inverse without pivoting of `Model/Student.lean` (`inv`, the model of `np.linalg.solve` /
  `np.linalg.cholesky` succeeding) evaluated at `ℝ` on the list form of a matrix:

  * `inv_matOf_posDef`  : a positive definite matrix is inverted — every pivot is `vᵀ S v > 0` for a non-zero `v` — and the
                          answer is the list form of `S⁻¹`;
  * `inv_matOf_some`    : whenever `inv` answers at all, the answer is a left inverse (so the matrix is non-singular).
-/
namespace Lemmas.GaussJordan
open Matrix Model.Student
variable {d : ℕ}

def matOf (M : Matrix (Fin d) (Fin d) ℝ) : List (List ℝ) := List.ofFn fun a => List.ofFn fun b => M a b

/-- the augmented rows `[B | E]` -/
def aug (B E : Matrix (Fin d) (Fin d) ℝ) : List (List ℝ) :=
  List.ofFn fun i => List.ofFn (fun j => B i j) ++ List.ofFn (fun j => E i j)

/-- one elimination step on a block `X` of the augmented matrix whose left block is `B` -/
noncomputable def stepB (k : Fin d) (B X : Matrix (Fin d) (Fin d) ℝ) : Matrix (Fin d) (Fin d) ℝ :=
  fun i j => if i = k then X k j / B k k else X i j - B i k * (X k j / B k k)

theorem mapM_some_of_forall {α β : Type} (l : List α) (g : α → Option β) (g' : α → β)
    (h : ∀ x ∈ l, g x = some (g' x)) : l.mapM g = some (l.map g') := by
  induction l with
  | nil => rfl
  | cons a l ih =>
    rw [List.mapM_cons, h a (by simp), ih (fun x hx => h x (by simp [hx]))]
    rfl

theorem zipIdx_ofFn {α : Type} {m : ℕ} (f : Fin m → α) :
    (List.ofFn f).zipIdx = List.ofFn fun i => (f i, i.val) := by
  apply List.ext_getElem
  · simp
  · intro i h1 h2
    simp

theorem gjStep_aug (k : Fin d) (B E : Matrix (Fin d) (Fin d) ℝ) :
    gjStep k.val (aug B E) = if 0 < B k k then some (aug (stepB k B B) (stepB k B E)) else none := by
  unfold gjStep
  have hrow : (aug B E)[k.val]? = some (List.ofFn (fun j => B k j) ++ List.ofFn (fun j => E k j)) := by
    unfold aug
    rw [List.getElem?_ofFn]
    simp
  have hp : (List.ofFn (fun j => B k j) ++ List.ofFn (fun j => E k j))[k.val]? = some (B k k) := by
    rw [List.getElem?_append_left (by simp)]
    rw [List.getElem?_ofFn]
    simp
  simp only [hrow, hp, Option.bind_eq_bind, Option.bind_some, ScReal.lt_def, ScReal.zero_def]
  by_cases hpos : 0 < B k k
  · rw [if_pos hpos, if_pos hpos]
    rw [mapM_some_of_forall _ _ (fun (ri : List ℝ × ℕ) =>
      if ri.2 == k.val then (List.ofFn (fun j => B k j) ++ List.ofFn (fun j => E k j)).map (fun x => Sc.div x (B k k))
      else List.zipWith (fun x y => Sc.sub x (Sc.mul (ri.1.getD k.val 0) y)) ri.1
        ((List.ofFn (fun j => B k j) ++ List.ofFn (fun j => E k j)).map (fun x => Sc.div x (B k k))))]
    · congr 1
      unfold aug
      rw [zipIdx_ofFn, List.map_ofFn]
      congr 1
      funext i
      simp only [Function.comp_apply, stepB]
      by_cases hik : i = k
      · subst hik
        simp [List.map_append, List.map_ofFn, Function.comp_def]
      · have hne : ¬ (i.val = k.val) := fun h => hik (Fin.ext h)
        simp only [beq_iff_eq, hne, if_false, hik]
        have hget : (List.ofFn (fun j => B i j) ++ List.ofFn (fun j => E i j)).getD k.val 0 = B i k := by
          rw [List.getD_eq_getElem?_getD, List.getElem?_append_left (by simp), List.getElem?_ofFn]
          simp
        rw [hget, List.map_append, List.zipWith_append (by simp)]
        congr 1
        · apply List.ext_getElem <;> simp
        · apply List.ext_getElem <;> simp
    · intro ri hri
      unfold aug at hri
      rw [zipIdx_ofFn, List.mem_ofFn] at hri
      obtain ⟨i, rfl⟩ := hri
      by_cases hik : i.val = k.val
      · simp [hik]
      · simp only [beq_iff_eq, hik, if_false]
        rw [List.getElem?_append_left (by simp), List.getElem?_ofFn]
        simp [List.getD_eq_getElem?_getD, List.getElem?_append_left]
  · rw [if_neg hpos, if_neg hpos]

/-- what holds of the augmented matrix `[B | E]` after `k` pivots, for ANY matrix `S` the elimination started from -/
structure InvL (S : Matrix (Fin d) (Fin d) ℝ) (k : ℕ) (B E : Matrix (Fin d) (Fin d) ℝ) : Prop where
  prod : B = E * S
  left : ∀ i j : Fin d, j.val < k → B i j = if i = j then 1 else 0

/-- rows `≥ k` of the right block are still unit rows outside the first `k` columns -/
def InvR (k : ℕ) (E : Matrix (Fin d) (Fin d) ℝ) : Prop :=
  ∀ i j : Fin d, k ≤ i.val → k ≤ j.val → E i j = if i = j then 1 else 0

theorem stepB_mul (k : Fin d) (B E S : Matrix (Fin d) (Fin d) ℝ) (h : B = E * S) :
    stepB k B B = stepB k B E * S := by
  ext i j
  simp only [stepB, Matrix.mul_apply]
  have hB : ∀ a b, B a b = ∑ m, E a m * S m b := fun a b => by rw [h, Matrix.mul_apply]
  by_cases hik : i = k
  · simp only [hik, if_true]
    rw [hB k j, Finset.sum_div]
    exact Finset.sum_congr rfl fun m _ => by ring
  · simp only [hik, if_false]
    rw [hB i j, hB k j, Finset.sum_div, Finset.mul_sum, ← Finset.sum_sub_distrib]
    exact Finset.sum_congr rfl fun m _ => by ring

theorem InvL.step {S B E : Matrix (Fin d) (Fin d) ℝ} {k : Fin d} (h : InvL S k.val B E) (hp : B k k ≠ 0) :
    InvL S (k.val + 1) (stepB k B B) (stepB k B E) := by
  refine ⟨stepB_mul k B E S h.prod, ?_⟩
  intro i j hj
  simp only [stepB]
  rcases Nat.lt_succ_iff_lt_or_eq.mp hj with hlt | heq
  · -- an already cleared column stays cleared: `B k j = 0`
    have hkj : B k j = 0 := by
      rw [h.left k j hlt, if_neg]
      intro hkj; rw [hkj] at hlt; exact lt_irrefl _ hlt
    by_cases hik : i = k
    · subst hik
      have : ¬ i = j := by intro hij; rw [hij] at hlt; exact lt_irrefl _ hlt
      simp [hkj, this]
    · simp [hik, hkj, h.left i j hlt]
  · have hjk : j = k := Fin.ext heq
    subst hjk
    by_cases hik : i = j
    · subst hik; simp [div_self hp]
    · simp [hik, div_self hp]

theorem InvR.step {B E : Matrix (Fin d) (Fin d) ℝ} {k : Fin d} (h : InvR k.val E) :
    InvR (k.val + 1) (stepB k B E) := by
  intro i j hi hj
  have hik : i ≠ k := by intro hik; rw [hik] at hi; omega
  have hkj : E k j = 0 := by
    rw [h k j le_rfl (by omega), if_neg]
    intro hkj; rw [← hkj] at hj; omega
  simp [stepB, hik, hkj, h i j (by omega) (by omega)]

/-- the pivot is the quadratic form of `S` at row `k` of the right block -/
theorem pivot_eq {S B E : Matrix (Fin d) (Fin d) ℝ} {k : Fin d} (hL : InvL S k.val B E) (hR : InvR k.val E) :
    B k k = (fun j => E k j) ⬝ᵥ (S *ᵥ fun j => E k j) := by
  have h1 : (fun j => E k j) ⬝ᵥ (S *ᵥ fun j => E k j) = ∑ j, B k j * E k j := by
    rw [hL.prod]
    simp only [dotProduct, mulVec, Matrix.mul_apply, Finset.mul_sum, Finset.sum_mul]
    rw [Finset.sum_comm]
    exact Finset.sum_congr rfl fun j _ => Finset.sum_congr rfl fun m _ => by ring
  rw [h1, Finset.sum_eq_single k]
  · rw [hR k k le_rfl le_rfl]; simp
  · intro j _ hjk
    rcases lt_or_gt_of_ne (fun h => hjk (Fin.ext h) : j.val ≠ k.val) with hlt | hgt
    · rw [hL.left k j hlt, if_neg (Ne.symm hjk)]; simp
    · rw [hR k j le_rfl hgt.le, if_neg (Ne.symm hjk)]; simp
  · intro h; exact absurd (Finset.mem_univ k) h

theorem pivot_pos {S B E : Matrix (Fin d) (Fin d) ℝ} {k : Fin d} (hS : S.PosDef) (hL : InvL S k.val B E)
    (hR : InvR k.val E) : 0 < B k k := by
  rw [pivot_eq hL hR]
  have hv : (fun j => E k j) ≠ 0 := by
    intro h
    have := congrFun h k
    rw [hR k k le_rfl le_rfl] at this
    simp at this
  have := hS.dotProduct_mulVec_pos hv
  simpa using this

theorem gj_succ (f k : ℕ) (M : Mat ℝ) : gj (f + 1) k M = (gjStep k M).bind (gj f (k + 1)) := rfl

/-- all pivots of a positive definite matrix are positive and the elimination ends in `[1 | S⁻¹]` -/
theorem gj_posDef (S : Matrix (Fin d) (Fin d) ℝ) (hS : S.PosDef) :
    ∀ (f k : ℕ) (B E : Matrix (Fin d) (Fin d) ℝ), f + k = d → InvL S k B E → InvR k E →
      gj f k (aug B E) = some (aug 1 S⁻¹) := by
  intro f
  induction f with
  | zero =>
    intro k B E hk hL _
    have hB : B = 1 := by
      ext i j
      rw [hL.left i j (by omega), Matrix.one_apply]
    have hE : S⁻¹ = E := Matrix.inv_eq_left_inv (by rw [← hL.prod, hB])
    simp [gj, hB, hE]
  | succ f ih =>
    intro k B E hk hL hR
    have hkd : k < d := by omega
    have e : k = (⟨k, hkd⟩ : Fin d).val := rfl
    rw [gj_succ, e, gjStep_aug ⟨k, hkd⟩ B E, if_pos (pivot_pos hS hL hR)]
    simp only [Option.bind_some]
    exact ih (k + 1) _ _ (by omega) (InvL.step (k := ⟨k, hkd⟩) hL (pivot_pos (k := ⟨k, hkd⟩) hS hL hR).ne') (InvR.step (k := ⟨k, hkd⟩) hR)

/-- whenever the elimination runs to the end the right block is a left inverse of the matrix it started from -/
theorem gj_some (S : Matrix (Fin d) (Fin d) ℝ) :
    ∀ (f k : ℕ) (B E : Matrix (Fin d) (Fin d) ℝ) (M : Mat ℝ), f + k = d → InvL S k B E →
      gj f k (aug B E) = some M → ∃ E' : Matrix (Fin d) (Fin d) ℝ, M = aug 1 E' ∧ E' * S = 1 := by
  intro f
  induction f with
  | zero =>
    intro k B E M hk hL h
    have hB : B = 1 := by
      ext i j
      rw [hL.left i j (by omega), Matrix.one_apply]
    simp only [gj, Option.some.injEq] at h
    exact ⟨E, by rw [← h, hB], by rw [← hL.prod, hB]⟩
  | succ f ih =>
    intro k B E M hk hL h
    have hkd : k < d := by omega
    have e : k = (⟨k, hkd⟩ : Fin d).val := rfl
    rw [gj_succ, e, gjStep_aug ⟨k, hkd⟩ B E] at h
    by_cases hp : 0 < B ⟨k, hkd⟩ ⟨k, hkd⟩
    · rw [if_pos hp] at h
      simp only [Option.bind_some] at h
      exact ih (k + 1) _ _ M (by omega) (InvL.step (k := ⟨k, hkd⟩) hL hp.ne') h
    · rw [if_neg hp] at h
      simp at h

theorem identRow_eq (i : Fin d) : (identRow d i.val : List ℝ) = List.ofFn fun j : Fin d => (1 : Matrix (Fin d) (Fin d) ℝ) i j := by
  unfold identRow
  apply List.ext_getElem
  · simp
  · intro j h1 h2
    simp only [List.getElem_map, List.getElem_range, List.getElem_ofFn, Matrix.one_apply, ScReal.one_def, ScReal.zero_def]
    by_cases h : j = i.val
    · subst h; simp
    · have : ¬ i = ⟨j, by simpa using h2⟩ := fun hh => h (by rw [hh])
      simp [h, this]

theorem inv_matOf_unfold (S : Matrix (Fin d) (Fin d) ℝ) :
    inv (matOf S) = (gj d 0 (aug S 1)).map fun M => M.map (List.drop d) := by
  unfold Model.Student.inv
  have hlen : (matOf S).length = d := by simp [matOf]
  have hall : (matOf S).all (fun r => r.length == d) = true := by
    rw [List.all_eq_true]
    intro r hr
    unfold matOf at hr
    rw [List.mem_ofFn] at hr
    obtain ⟨a, rfl⟩ := hr
    simp [matOf]
  simp only [hlen, hall, if_true]
  congr 2
  unfold matOf aug
  rw [zipIdx_ofFn, List.map_ofFn]
  congr 1
  funext i
  simp only [Function.comp_apply, identRow_eq]

theorem aug_drop (B E : Matrix (Fin d) (Fin d) ℝ) : (aug B E).map (List.drop d) = matOf E := by
  unfold aug matOf
  rw [List.map_ofFn]
  congr 1
  funext i
  simp only [Function.comp_apply]
  rw [List.drop_left' (by simp)]

/-- **the model's `inv` inverts every positive definite matrix** (`np.linalg.solve` does not raise, and the twin computes
    with `S⁻¹`) -/
theorem inv_matOf_posDef (S : Matrix (Fin d) (Fin d) ℝ) (hS : S.PosDef) : inv (matOf S) = some (matOf S⁻¹) := by
  rw [inv_matOf_unfold, gj_posDef S hS d 0 S 1 (by omega) ⟨by simp, by intro i j h; omega⟩
    (by intro i j _ _; rw [Matrix.one_apply])]
  simp [aug_drop]

/-- **whenever the model's `inv` answers, the matrix is non-singular** -/
theorem inv_matOf_some (S : Matrix (Fin d) (Fin d) ℝ) (M : Mat ℝ) (h : inv (matOf S) = some M) : IsUnit S.det := by
  rw [inv_matOf_unfold] at h
  cases hg : gj d 0 (aug S 1) with
  | none => simp [hg] at h
  | some M' =>
    obtain ⟨E', _, hE⟩ := gj_some S d 0 S 1 M' (by omega) ⟨by simp, by intro i j h; omega⟩ hg
    exact Matrix.isUnit_det_of_left_inverse hE

/-- for a positive semidefinite matrix the model's `inv` answers exactly when the matrix is positive definite -/
theorem inv_matOf_psd (S : Matrix (Fin d) (Fin d) ℝ) (hS : S.PosSemidef) :
    (inv (matOf S)).isSome = true ↔ S.PosDef := by
  constructor
  · intro h
    cases hi : inv (matOf S) with
    | none => simp [hi] at h
    | some M => exact hS.posDef_iff_isUnit.mpr ((Matrix.isUnit_iff_isUnit_det _).mpr (inv_matOf_some S M hi))
  · intro h; rw [inv_matOf_posDef S h]; rfl

end Lemmas.GaussJordan
